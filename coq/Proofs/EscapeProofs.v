From UP Require Import Base.Chars Model.Escape Spec.PctSpec.
From Coq Require Import ZArith ZifyBool ZifyN Lia.
Local Open Scope N_scope.

(* ---------- small facts about the hex helpers (finite sweeps) ---------------- *)
Definition nibbles : list N := [0;1;2;3;4;5;6;7;8;9;10;11;12;13;14;15].

Lemma nibbles_complete v : v < 16 -> In v nibbles.
Proof.
  intros H. unfold nibbles.
  assert (v = 0 \/ v = 1 \/ v = 2 \/ v = 3 \/ v = 4 \/ v = 5 \/ v = 6 \/ v = 7 \/ v = 8 \/ v = 9
          \/ v = 10 \/ v = 11 \/ v = 12 \/ v = 13 \/ v = 14 \/ v = 15) as E by lia.
  simpl. intuition.
Qed.

Lemma hex_letter_facts v : v < 16 ->
  is_upper_hexdig (hex_to_letter v) = true /\ is_hexdig (hex_to_letter v) = true
  /\ hexdig_to_int (hex_to_letter v) = v.
Proof.
  intros H. apply nibbles_complete in H.
  assert (forallb (fun v => is_upper_hexdig (hex_to_letter v) && is_hexdig (hex_to_letter v)
                            && (hexdig_to_int (hex_to_letter v) =? v)) nibbles = true) as S
      by (vm_compute; reflexivity).
  rewrite forallb_forall in S. specialize (S _ H).
  apply andb_prop in S; destruct S as [S S3]. apply andb_prop in S; destruct S as [S1 S2].
  apply N.eqb_eq in S3. auto.
Qed.

Lemma unreserved_not_special c : is_unreserved c = true ->
  c <> 0 /\ c <> 37 /\ c <> 43 /\ c <> 32 /\ c <> 10 /\ c <> 13.
Proof.
  unfold is_unreserved, is_alpha, is_upper, is_lower, is_digit, is_unres_mark, in_range.
  intros H. lia.
Qed.

(* ---------- 1. escape output alphabet ------------------------------------- *)
Lemma escaped_form_app pa a b : escaped_form pa a = true -> escaped_form pa b = true ->
  escaped_form pa (a ++ b) = true.
Proof.
  revert a. fix IH 1. intros a Ha Hb. destruct a as [|c r]; [exact Hb|].
  cbn [app escaped_form] in *.
  destruct (c =? 37).
  - destruct r as [|x [|y r2]]; try discriminate. cbn [app].
    apply andb_prop in Ha. destruct Ha as [Ha1 Ha2]. rewrite Ha1. cbn [andb]. apply IH; assumption.
  - apply andb_prop in Ha. destruct Ha as [Ha1 Ha2]. rewrite Ha1. cbn [andb]. apply IH; assumption.
Qed.

Lemma escape_loop_form stp nb : forall l pc, escaped_form stp (escape_loop stp nb pc l) = true.
Proof.
  induction l as [|c r IH]; intros pc; [reflexivity|].
  cbn [escape_loop].
  destruct (c =? 0) eqn:E0; [reflexivity|].
  destruct (c =? 32) eqn:E32.
  { apply escaped_form_app; [|apply IH]. destruct stp; reflexivity. }
  destruct (is_unreserved c) eqn:EU.
  { cbn [escaped_form]. destruct (c =? 37) eqn:E37.
    - apply unreserved_not_special in EU. lia.
    - rewrite EU. cbn [orb andb]. apply IH. }
  destruct (c =? 10) eqn:E10.
  { apply escaped_form_app; [|apply IH]. destruct nb; [destruct pc|]; destruct stp; reflexivity. }
  destruct (c =? 13) eqn:E13.
  { apply escaped_form_app; [|apply IH]. destruct nb; destruct stp; reflexivity. }
  cbv zeta. apply escaped_form_app; [|apply IH].
  assert (c mod 256 / 16 < 16) as H1 by (apply N.div_lt_upper_bound; [lia|]; pose proof (N.mod_upper_bound c 256); lia).
  assert (c mod 256 mod 16 < 16) as H2 by (apply N.mod_upper_bound; lia).
  destruct (hex_letter_facts _ H1) as [A1 _]. destruct (hex_letter_facts _ H2) as [A2 _].
  cbn [escaped_form]. change (37 =? 37) with true. cbv iota. rewrite A1, A2. reflexivity.
Qed.

Lemma escape_charset stp nb l : escaped_form stp (escape stp nb l) = true.
Proof. apply escape_loop_form. Qed.

(* ---------- 2. size bound ------------------------------------------------- *)
Lemma escape_loop_bound stp nb : forall l pc,
  (length (escape_loop stp nb pc l) <= (if nb then 6 else 3) * length l)%nat.
Proof.
  induction l as [|c r IH]; intros pc; [cbn; lia|].
  cbn [escape_loop length].
  destruct (c =? 0); [cbn; lia|].
  destruct (c =? 32). { rewrite app_length. specialize (IH false). destruct stp, nb; cbn [length] in *; lia. }
  destruct (is_unreserved c). { cbn [length]. specialize (IH false). destruct nb; lia. }
  destruct (c =? 10). { rewrite app_length. specialize (IH false). destruct nb; [destruct pc|]; cbn [length] in *; lia. }
  destruct (c =? 13). { rewrite app_length. specialize (IH true). destruct nb; cbn [length] in *; lia. }
  cbv zeta. rewrite app_length. specialize (IH false). destruct nb; cbn [length] in *; lia.
Qed.

Lemma escape_bound stp nb l :
  (length (escape stp nb l) <= (if nb then 6 else 3) * length l)%nat.
Proof. apply escape_loop_bound. Qed.

(* ---------- 3. round trip --------------------------------------------------- *)
Definition all_1_255 (l : text) : Prop := Forall (fun c => 1 <= c <= 255) l.

Lemma unescape_triplet pts bc pc a b r :
  is_hexdig a = true -> is_hexdig b = true ->
  unescape_loop pts bc pc (37 :: a :: b :: r) =
  let code := 16 * hexdig_to_int a + hexdig_to_int b in
  if code =? 10 then out_lf bc pc ++ unescape_loop pts bc false r
  else if code =? 13 then out_cr bc ++ unescape_loop pts bc true r
  else code :: unescape_loop pts bc false r.
Proof. intros Ha Hb. cbn [unescape_loop]. change (37 =? 0) with false. change (37 =? 37) with true.
  cbv iota. rewrite Ha, Hb. reflexivity. Qed.

Lemma unescape_plain pts bc pc c r : c <> 0 -> c <> 37 -> c <> 43 ->
  unescape_loop pts bc pc (c :: r) = c :: unescape_loop pts bc false r.
Proof. intros H0 H37 H43. cbn [unescape_loop].
  destruct (c =? 0) eqn:E0; [lia|]. destruct (c =? 37) eqn:E1; [lia|]. destruct (c =? 43) eqn:E2; [lia|].
  reflexivity. Qed.

Lemma unescape_plus bc pc r :
  unescape_loop true bc pc (43 :: r) = 32 :: unescape_loop true bc false r.
Proof. reflexivity. Qed.

Lemma unescape_dt_cr pts pc l : unescape_loop pts BrDontTouch pc l = unescape_loop pts BrDontTouch false l.
Proof.
  destruct l as [|c r]; [reflexivity|]. cbn [unescape_loop].
  destruct (c =? 0); [reflexivity|]. destruct (c =? 37); [|reflexivity].
  destruct r as [|a r1]; [reflexivity|]. destruct (is_hexdig a); [|reflexivity].
  destruct r1 as [|b r2]; [reflexivity|]. destruct (is_hexdig b); reflexivity.
Qed.

Lemma unescape_enc_byte pts pc c r : 1 <= c <= 255 ->
  unescape_loop pts BrDontTouch pc (37 :: hex_to_letter (c / 16) :: hex_to_letter (c mod 16) :: r)
  = c :: unescape_loop pts BrDontTouch false r.
Proof.
  intros Hc.
  assert (c / 16 < 16) as H1 by (apply N.div_lt_upper_bound; lia).
  assert (c mod 16 < 16) as H2 by (apply N.mod_upper_bound; lia).
  destruct (hex_letter_facts _ H1) as [_ [A1 B1]]. destruct (hex_letter_facts _ H2) as [_ [A2 B2]].
  rewrite unescape_triplet by assumption. cbv zeta. rewrite B1, B2.
  assert (16 * (c / 16) + c mod 16 = c) as E by (pose proof (N.div_mod c 16); lia). rewrite E.
  destruct (c =? 10) eqn:E10.
  { apply N.eqb_eq in E10. subst c. reflexivity. }
  destruct (c =? 13) eqn:E13.
  { apply N.eqb_eq in E13. subst c. cbn [out_cr app]. f_equal. apply unescape_dt_cr. }
  reflexivity.
Qed.

Lemma roundtrip_loop stp nb pts : (stp = true -> pts = true) ->
  forall l pc pc', all_1_255 l ->
  unescape_loop pts BrDontTouch pc' (escape_loop stp nb pc l) = if nb then crlf_from pc l else l.
Proof.
  intros Hm. induction l as [|c r IH]; intros pc pc' Hall.
  { destruct nb; reflexivity. }
  inversion Hall as [|? ? Hc Hr]; subst.
  cbn [escape_loop crlf_from].
  destruct (c =? 0) eqn:E0; [lia|].
  destruct (c =? 32) eqn:E32.
  { apply N.eqb_eq in E32. subst c. change (32 =? 13) with false. change (32 =? 10) with false. cbv iota.
    destruct stp.
    - assert (pts = true) as Ep by auto. rewrite Ep in *. cbn [app]. rewrite unescape_plus. rewrite IH by assumption. destruct nb; reflexivity.
    - cbn [app]. change [37;50;48] with [37; hex_to_letter (32 / 16); hex_to_letter (32 mod 16)].
      change (37 :: 50 :: 48 :: ?x) with (37 :: hex_to_letter (32 / 16) :: hex_to_letter (32 mod 16) :: x).
      rewrite unescape_enc_byte by lia. rewrite IH by assumption. destruct nb; reflexivity. }
  destruct (is_unreserved c) eqn:EU.
  { pose proof (unreserved_not_special _ EU) as U.
    rewrite unescape_plain by tauto. rewrite IH by assumption.
    destruct (c =? 13) eqn:E13; [lia|]. destruct (c =? 10) eqn:E10; [lia|]. destruct nb; reflexivity. }
  destruct (c =? 10) eqn:E10.
  { apply N.eqb_eq in E10. subst c. change (10 =? 13) with false. cbv iota.
    destruct nb.
    - destruct pc; cbn [app].
      + apply IH; assumption.
      + change (37 :: 48 :: 68 :: 37 :: 48 :: 65 :: ?x)
          with (37 :: hex_to_letter (13 / 16) :: hex_to_letter (13 mod 16) ::
                37 :: hex_to_letter (10 / 16) :: hex_to_letter (10 mod 16) :: x).
        rewrite unescape_enc_byte by lia. rewrite unescape_enc_byte by lia. rewrite IH by assumption. reflexivity.
    - cbn [app]. change (37 :: 48 :: 65 :: ?x) with (37 :: hex_to_letter (10 / 16) :: hex_to_letter (10 mod 16) :: x).
      rewrite unescape_enc_byte by lia. rewrite IH by assumption. reflexivity. }
  destruct (c =? 13) eqn:E13.
  { apply N.eqb_eq in E13. subst c. destruct nb; cbn [app].
    - change (37 :: 48 :: 68 :: 37 :: 48 :: 65 :: ?x)
          with (37 :: hex_to_letter (13 / 16) :: hex_to_letter (13 mod 16) ::
                37 :: hex_to_letter (10 / 16) :: hex_to_letter (10 mod 16) :: x).
      rewrite unescape_enc_byte by lia. rewrite unescape_enc_byte by lia. rewrite IH by assumption. reflexivity.
    - change (37 :: 48 :: 68 :: ?x) with (37 :: hex_to_letter (13 / 16) :: hex_to_letter (13 mod 16) :: x).
      rewrite unescape_enc_byte by lia. rewrite IH by assumption. reflexivity. }
  cbv zeta. rewrite N.mod_small by lia. cbn [app].
  rewrite unescape_enc_byte by lia. rewrite IH by assumption. destruct nb; reflexivity.
Qed.

Lemma unescape_escape stp nb pts l : (stp = true -> pts = true) -> all_1_255 l ->
  unescape pts BrDontTouch (escape stp nb l) = if nb then crlf l else l.
Proof. intros Hm Hall. apply roundtrip_loop; assumption. Qed.

(* ====================================================================== *)
(* ---------- 4. unescaping: one-step equations of the pure loop ---------- *)
Definition nz (c : N) : Prop := c <> 0.

Definition conv (bc : break_conv) : brk :=
  match bc with BrToLf => ToLf | BrToCrlf => ToCrlf | BrToCr => ToCr | BrDontTouch => DontTouch end.

Lemma hexdig_not_special a : is_hexdig a = true -> a <> 0 /\ a <> 37 /\ a <> 43.
Proof.
  unfold is_hexdig, is_digit, is_hex_upper, is_hex_lower, in_range. intros H. lia.
Qed.

Lemma hexdig_nul : is_hexdig 0 = false.
Proof. reflexivity. Qed.

Lemma uloop_pct1 pts bc cr r : is_hexdig (nth 0 r 0) = false ->
  unescape_loop pts bc cr (37 :: r) = 37 :: unescape_loop pts bc false r.
Proof.
  intros H. cbn [unescape_loop]. change (37 =? 0) with false. change (37 =? 37) with true. cbv iota.
  destruct r as [|a r1]; [reflexivity|]. cbn [nth] in H. rewrite H. reflexivity.
Qed.

Lemma uloop_pct2 pts bc cr a r1 : is_hexdig a = true -> is_hexdig (nth 0 r1 0) = false ->
  unescape_loop pts bc cr (37 :: a :: r1) = 37 :: a :: unescape_loop pts bc false r1.
Proof.
  intros Ha H. cbn [unescape_loop]. change (37 =? 0) with false. change (37 =? 37) with true. cbv iota.
  rewrite Ha. destruct r1 as [|b r2]; [reflexivity|]. cbn [nth] in H. rewrite H. reflexivity.
Qed.

Lemma uloop_copy pts bc cr c r : c <> 0 -> c <> 37 -> (c =? 43) && pts = false ->
  unescape_loop pts bc cr (c :: r) = c :: unescape_loop pts bc false r.
Proof.
  intros H0 H37 H43. cbn [unescape_loop].
  destruct (c =? 0) eqn:E0; [lia|]. destruct (c =? 37) eqn:E1; [lia|].
  destruct (c =? 43) eqn:E2; [|reflexivity]. destruct pts; [discriminate|reflexivity].
Qed.

(* the shapes of an input text the loop distinguishes *)
Lemma ucases (l : text) :
  l = [] \/ (exists r, l = 0 :: r) \/
  (exists a b r2, l = 37 :: a :: b :: r2 /\ is_hexdig a = true /\ is_hexdig b = true) \/
  (exists a r1, l = 37 :: a :: r1 /\ is_hexdig a = true /\ is_hexdig (nth 0 r1 0) = false) \/
  (exists r, l = 37 :: r /\ is_hexdig (nth 0 r 0) = false) \/
  (exists c r, l = c :: r /\ c <> 0 /\ c <> 37).
Proof.
  destruct l as [|c r]; [left; reflexivity|]. right.
  destruct (N.eq_dec c 0) as [E0|N0]; [left; subst; eauto|]. right.
  destruct (N.eq_dec c 37) as [E37|N37].
  2:{ right. right. right. eauto. }
  subst c. destruct (is_hexdig (nth 0 r 0)) eqn:Ha.
  2:{ right. right. left. eauto. }
  destruct r as [|a r1]; [discriminate|]. cbn [nth] in Ha.
  destruct (is_hexdig (nth 0 r1 0)) eqn:Hb.
  2:{ right. left. eauto. }
  destruct r1 as [|b r2]; [discriminate|]. cbn [nth] in Hb.
  left. exists a, b, r2. auto.
Qed.

Lemma out_lf_len bc cr : (length (out_lf bc cr) <= 2)%nat.
Proof. destruct bc, cr; cbn; lia. Qed.
Lemma out_cr_len bc : (length (out_cr bc) <= 2)%nat.
Proof. destruct bc; cbn; lia. Qed.

(* ---------- 5. unescaping never lengthens -------------------------------- *)
Lemma unescape_loop_shrinks pts bc : forall n l, (length l <= n)%nat -> forall cr,
  (length (unescape_loop pts bc cr l) <= length (until_nul l))%nat.
Proof.
  induction n as [|n IH]; intros l Hn cr.
  { destruct l; [cbn; lia|cbn in Hn; lia]. }
  destruct (ucases l) as [E|[[r E]|[[a [b [r2 [E [Ha Hb]]]]]|[[a [r1 [E [Ha Hb]]]]|[[r [E Ha]]|[c [r [E [N0 N37]]]]]]]]]; subst l.
  - cbn; lia.
  - cbn; lia.
  - rewrite unescape_triplet by assumption. cbv zeta.
    pose proof (hexdig_not_special _ Ha) as Sa. pose proof (hexdig_not_special _ Hb) as Sb.
    cbn [until_nul]. change (37 =? 0) with false. cbv iota.
    destruct (a =? 0) eqn:Ea; [lia|]. destruct (b =? 0) eqn:Eb; [lia|].
    cbn [length] in Hn.
    pose proof (IH r2 ltac:(lia) false) as I1. pose proof (IH r2 ltac:(lia) true) as I2.
    pose proof (out_lf_len bc cr). pose proof (out_cr_len bc).
    destruct (_ =? 10); [rewrite app_length; cbn [length]; lia|].
    destruct (_ =? 13); [rewrite app_length; cbn [length]; lia|].
    cbn [length]; lia.
  - rewrite uloop_pct2 by assumption.
    pose proof (hexdig_not_special _ Ha) as Sa.
    cbn [until_nul]. change (37 =? 0) with false. cbv iota. destruct (a =? 0) eqn:Ea; [lia|].
    cbn [length] in *. pose proof (IH r1 ltac:(lia) false). lia.
  - rewrite uloop_pct1 by assumption.
    cbn [until_nul]. change (37 =? 0) with false. cbv iota.
    cbn [length] in *. pose proof (IH r ltac:(lia) false). lia.
  - cbn [until_nul]. destruct (c =? 0) eqn:E0; [lia|].
    cbn [length] in Hn. pose proof (IH r ltac:(lia) false) as I.
    destruct ((c =? 43) && pts) eqn:E43.
    + apply andb_prop in E43. destruct E43 as [E43 Ep]. apply N.eqb_eq in E43. subst c pts.
      rewrite unescape_plus. cbn [length]. lia.
    + rewrite uloop_copy by assumption. cbn [length]. lia.
Qed.

Lemma unescape_shrinks pts bc l : (length (unescape pts bc l) <= length (until_nul l))%nat.
Proof. apply (unescape_loop_shrinks pts bc (length l)). lia. Qed.

(* ---------- 6. the loop computes the tokenising specification ------------- *)
Lemma unescape_loop_is_spec pts bc : forall n l, (length l <= n)%nat -> forall cr,
  unescape_loop pts bc cr l = decode pts (conv bc) cr (tokenize (until_nul l)).
Proof.
  induction n as [|n IH]; intros l Hn cr.
  { destruct l; [reflexivity|cbn in Hn; lia]. }
  destruct (ucases l) as [E|[[r E]|[[a [b [r2 [E [Ha Hb]]]]]|[[a [r1 [E [Ha Hb]]]]|[[r [E Ha]]|[c [r [E [N0 N37]]]]]]]]]; subst l.
  - reflexivity.
  - reflexivity.
  - rewrite unescape_triplet by assumption. cbv zeta.
    pose proof (hexdig_not_special _ Ha) as Sa. pose proof (hexdig_not_special _ Hb) as Sb.
    cbn [until_nul]. change (37 =? 0) with false. cbv iota.
    destruct (a =? 0) eqn:Ea; [lia|]. destruct (b =? 0) eqn:Eb; [lia|].
    cbn [tokenize]. change (37 =? 37) with true. cbv iota. rewrite Ha, Hb. cbn [andb]. cbv iota.
    cbn [length] in Hn. cbn [decode].
    rewrite <- (IH r2 ltac:(lia) false). rewrite <- (IH r2 ltac:(lia) true).
    destruct (_ =? 10) eqn:E10.
    { apply N.eqb_eq in E10. rewrite E10. change (10 =? 13) with false. change (10 =? 10) with true. cbv iota.
      destruct bc, cr; reflexivity. }
    destruct (_ =? 13) eqn:E13; [|reflexivity].
    destruct bc; reflexivity.
  - rewrite uloop_pct2 by assumption.
    pose proof (hexdig_not_special _ Ha) as Sa.
    cbn [length] in Hn. rewrite (IH r1 ltac:(lia) false).
    cbn [until_nul]. change (37 =? 0) with false. cbv iota. destruct (a =? 0) eqn:Ea; [lia|].
    assert (tokenize (37 :: a :: until_nul r1) = Lit 37 :: Lit a :: tokenize (until_nul r1)) as ET.
    { cbn [tokenize]. change (37 =? 37) with true. cbv iota. destruct (a =? 37) eqn:E37; [lia|].
      destruct (until_nul r1) as [|b u2] eqn:EU; [reflexivity|].
      assert (b = nth 0 r1 0) as Eb.
      { destruct r1 as [|b' r2]; [discriminate|]. cbn [until_nul] in EU.
        destruct (b' =? 0); [discriminate|]. injection EU as -> _. reflexivity. }
      rewrite Ha, <- Eb in *. rewrite Hb. reflexivity. }
    rewrite ET. cbn [decode]. change (37 =? 43) with false. cbn [andb]. cbv iota.
    destruct (a =? 43) eqn:E43; [lia|]. reflexivity.
  - rewrite uloop_pct1 by assumption.
    cbn [length] in Hn. rewrite (IH r ltac:(lia) false).
    cbn [until_nul]. change (37 =? 0) with false. cbv iota.
    assert (tokenize (37 :: until_nul r) = Lit 37 :: tokenize (until_nul r)) as ET.
    { cbn [tokenize]. change (37 =? 37) with true. cbv iota.
      destruct (until_nul r) as [|a u1] eqn:EU; [reflexivity|].
      assert (a = nth 0 r 0) as Ea.
      { destruct r as [|a' r1]; [discriminate|]. cbn [until_nul] in EU.
        destruct (a' =? 0); [discriminate|]. injection EU as -> _. reflexivity. }
      rewrite <- Ea in Ha. rewrite Ha. destruct u1; reflexivity. }
    rewrite ET. cbn [decode]. change (37 =? 43) with false. reflexivity.
  - cbn [until_nul]. destruct (c =? 0) eqn:E0; [lia|].
    cbn [tokenize]. destruct (c =? 37) eqn:E37; [lia|]. cbn [decode].
    cbn [length] in Hn. rewrite <- (IH r ltac:(lia) false).
    destruct ((c =? 43) && pts) eqn:E43.
    + apply andb_prop in E43. destruct E43 as [E43 Ep]. apply N.eqb_eq in E43. subst c pts.
      apply unescape_plus.
    + apply uloop_copy; assumption.
Qed.

Lemma unescape_is_spec pts bc l : unescape pts bc l = unescape_spec pts (conv bc) l.
Proof. apply (unescape_loop_is_spec pts bc (length l)). lia. Qed.

(* ====================================================================== *)
(* ---------- 7. buffer primitives over appended lists ---------------------- *)
Lemma bget_app3 out junk x k n : n = (length out + length junk + k)%nat ->
  bget (out ++ junk ++ x) n = nth k x 0.
Proof.
  intros ->. unfold bget. rewrite app_assoc, <- app_length. apply app_nth2_plus.
Qed.

Lemma nth0_app_nul (r rest : text) : nth 0 (r ++ 0 :: rest) 0 = nth 0 r 0.
Proof. destruct r; reflexivity. Qed.

Lemma bset_app out x mid v : bset (out ++ x :: mid) (length out) v = out ++ v :: mid.
Proof. induction out as [|y out IH]; [reflexivity|]. cbn [app length bset]. rewrite IH. reflexivity. Qed.

Lemma bset_length : forall buf i v, length (bset buf i v) = length buf.
Proof.
  induction buf as [|x buf IH]; intros i v; [reflexivity|].
  destruct i; cbn [bset length]; [reflexivity|]. rewrite IH. reflexivity.
Qed.

(* writing [o] at the write cursor overwrites the first |o| characters after [out] *)
Lemma bwrite_app : forall o out mid tl log, (length o <= length mid)%nat ->
  exists log',
    bwrite (out ++ mid ++ tl) log (length out) o
      = (out ++ o ++ skipn (length o) mid ++ tl, log', (length out + length o)%nat)
    /\ (forall i, In i log' -> In i log \/ (length out <= i < length out + length o)%nat).
Proof.
  induction o as [|v o IH]; intros out mid tl log Hl.
  - exists log. cbn [bwrite length skipn app]. rewrite Nat.add_0_r. split; [reflexivity|auto].
  - destruct mid as [|m mid]; [cbn [length] in Hl; lia|].
    cbn [length] in Hl.
    destruct (IH (out ++ [v]) mid tl (length out :: log) ltac:(lia)) as [log' [E Hin]].
    exists log'. split.
    + cbn [bwrite]. change ((m :: mid) ++ tl) with (m :: (mid ++ tl)). rewrite bset_app.
      rewrite app_length in E. cbn [length] in E. rewrite Nat.add_1_r in E.
      rewrite <- !app_assoc in E. cbn [app] in E. rewrite E.
      cbn [app length skipn]. f_equal. lia.
    + intros i Hi. apply Hin in Hi. rewrite app_length in Hi. cbn [length In] in *.
      destruct Hi as [[Hi|Hi]|Hi]; [right; lia|left; assumption|right; lia].
Qed.

(* copying [cs] down from the read cursor to the write cursor *)
Lemma bcopy_app : forall cs out junk tl log,
  exists junk' log',
    bcopy (out ++ junk ++ cs ++ tl) log (length out + length junk) (length out) (length cs)
      = (out ++ cs ++ junk' ++ tl, log')
    /\ length junk' = length junk
    /\ (forall i, In i log' -> In i log \/ (length out <= i < length out + length cs)%nat).
Proof.
  induction cs as [|c cs IH]; intros out junk tl log.
  - exists junk, log. cbn [bcopy length app]. auto.
  - cbn [length bcopy]. destruct junk as [|j junk].
    + cbn [length app]. rewrite Nat.add_0_r, Nat.ltb_irrefl.
      destruct (IH (out ++ [c]) [] tl log) as [junk' [log' [E [Hlen Hin]]]].
      destruct junk' as [|? ?]; [|cbn [length] in Hlen; lia].
      exists [], log'. split; [|split; [reflexivity|]].
      * rewrite app_length in E. cbn [length app] in E. rewrite Nat.add_0_r, Nat.add_1_r in E.
        rewrite <- !app_assoc in E. cbn [app] in E. rewrite E. reflexivity.
      * intros i Hi. apply Hin in Hi. rewrite app_length in Hi. cbn [length] in Hi.
        destruct Hi as [Hi|Hi]; [left; assumption|right; lia].
    + assert (Nat.ltb (length out) (length out + length (j :: junk)) = true) as Elt
        by (apply Nat.ltb_lt; cbn [length]; lia).
      rewrite Elt.
      rewrite (bget_app3 out (j :: junk) ((c :: cs) ++ tl) 0) by lia. cbn [app nth].
      rewrite bset_app.
      destruct (IH (out ++ [c]) (junk ++ [c]) tl (length out :: log)) as [junk' [log' [E [Hlen Hin]]]].
      exists junk', log'. split; [|split].
      * rewrite !app_length in E. cbn [length] in E.
        replace (length out + 1 + (length junk + 1))%nat with (S (length out + S (length junk))) in E by lia.
        rewrite Nat.add_1_r in E. rewrite <- !app_assoc in E. cbn [app] in E.
        cbn [length]. rewrite E. reflexivity.
      * rewrite Hlen, app_length. cbn [length]. lia.
      * intros i Hi. apply Hin in Hi. rewrite app_length in Hi. cbn [length In] in *.
        destruct Hi as [[Hi|Hi]|Hi]; [right; lia|left; assumption|right; lia].
Qed.

Lemma firstn_app_len {A} (a b : list A) : firstn (length a) (a ++ b) = a.
Proof. rewrite firstn_app, Nat.sub_diag, firstn_all. cbn [firstn]. apply app_nil_r. Qed.

Lemma nth_app_len {A} (a b : list A) d : nth (length a) (a ++ b) d = nth 0 b d.
Proof. rewrite <- (Nat.add_0_r (length a)). apply app_nth2_plus. Qed.

Lemma skipn_app_len {A} (a b : list A) n : n = length a -> skipn n (a ++ b) = b.
Proof. intros ->. rewrite skipn_app, Nat.sub_diag, skipn_all. reflexivity. Qed.

(* ---------- 8. one step of the cursor-level loop ---------------------------
   Shape of a reachable state: the buffer is  out ++ junk ++ suf ++ 0 :: rest  where [out] is
   what has been written (|out| = write cursor), [junk] is the already-read gap between the
   cursors (|out| + |junk| = read cursor), [suf] is the unread, NUL-free remainder of the text. *)
Lemma ustep_sim pts bc rest out junk suf cr log :
  Forall nz suf ->
  match ustep pts bc (Build_ustate (out ++ junk ++ suf ++ 0 :: rest)
                                   (length out + length junk) (length out) cr log) with
  | UDone buf' ret log' =>
      suf = [] /\ ret = length out /\
      (exists junk', length junk' = length junk /\ buf' = out ++ junk' ++ 0 :: rest
                     /\ nth 0 (junk' ++ 0 :: rest) 0 = 0) /\
      (forall i, In i log' -> In i log \/ (i < length out + length junk)%nat)
  | UCont s' =>
      exists o junk' suf',
        u_buf s' = (out ++ o) ++ junk' ++ suf' ++ 0 :: rest /\
        u_wr s' = length (out ++ o) /\
        u_rd s' = (length (out ++ o) + length junk')%nat /\
        unescape_loop pts bc cr suf = o ++ unescape_loop pts bc (u_cr s') suf' /\
        (length o + length junk' + length suf' = length junk + length suf)%nat /\
        (length suf' < length suf)%nat /\ Forall nz suf' /\
        (forall i, In i (u_log s') -> In i log \/ (i < length out + length junk + length suf)%nat)
  end.
Proof.
  intros Hnz. unfold ustep. cbn [u_buf u_rd u_wr u_cr u_log]. cbv zeta.
  rewrite (bget_app3 out junk _ 0 (length out + length junk)) by lia.
  rewrite (bget_app3 out junk _ 1 (length out + length junk + 1)) by lia.
  rewrite (bget_app3 out junk _ 2 (length out + length junk + 2)) by lia.
  destruct (ucases suf) as [E|[[r E]|[[a [b [r2 [E [Ha Hb]]]]]|[[a [r1 [E [Ha Hb]]]]|[[r [E Ha]]|[c [r [E [N0 N37]]]]]]]]]; subst suf.
  - (* end of text *)
    cbn [app nth]. change (0 =? 0) with true. cbv iota.
    destruct junk as [|j junk].
    + cbn [length app]. rewrite Nat.add_0_r, Nat.ltb_irrefl.
      split; [reflexivity|]. split; [reflexivity|]. split; [|auto].
      exists []. auto.
    + assert (Nat.ltb (length out) (length out + length (j :: junk)) = true) as Elt
        by (apply Nat.ltb_lt; cbn [length]; lia).
      rewrite Elt. cbn [app]. rewrite bset_app.
      split; [reflexivity|]. split; [reflexivity|]. split.
      * exists (0 :: junk). auto.
      * intros i [Hi|Hi]; [right; cbn [length]; lia|left; assumption].
  - (* a NUL inside the text: excluded *)
    inversion Hnz as [|? ? Hc ?]. exfalso. apply Hc. reflexivity.
  - (* well-formed triplet *)
    cbn [app nth]. change (37 =? 0) with false. change (37 =? 37) with true. cbv iota.
    rewrite Ha, Hb.
    match goal with |- context [bwrite _ _ _ ?o] => set (oo := o) end.
    assert (length oo <= 2)%nat as Hoo.
    { unfold oo. pose proof (out_lf_len bc cr). pose proof (out_cr_len bc).
      destruct (_ =? 10); [assumption|]. destruct (_ =? 13); [assumption|]. cbn [length]. lia. }
    destruct (bwrite_app oo out (junk ++ [37; a; b]) (r2 ++ 0 :: rest) log) as [log' [E Hin]].
    { rewrite app_length. cbn [length]. lia. }
    rewrite <- app_assoc in E. cbn [app] in E. rewrite E.
    exists oo, (skipn (length oo) (junk ++ [37; a; b])), r2.
    cbn [u_buf u_wr u_rd u_cr u_log].
    split; [apply app_assoc|]. split; [rewrite app_length; reflexivity|].
    split; [rewrite skipn_length, !app_length; cbn [length]; lia|].
    split.
    { rewrite unescape_triplet by assumption. cbv zeta. unfold oo.
      destruct (_ =? 10) eqn:E10.
      - apply N.eqb_eq in E10. rewrite E10. reflexivity.
      - destruct (_ =? 13); reflexivity. }
    split; [rewrite skipn_length, app_length; cbn [length]; lia|].
    split; [cbn [length]; lia|].
    split.
    { change (37 :: a :: b :: r2) with ([37; a; b] ++ r2) in Hnz. apply Forall_app in Hnz. tauto. }
    intros i Hi. apply Hin in Hi. cbn [length]. destruct Hi as [Hi|Hi]; [left; assumption|right; lia].
  - (* '%', hex digit, no second hex digit: two characters copied *)
    cbn [app nth]. change (37 =? 0) with false. change (37 =? 37) with true. cbv iota.
    rewrite Ha, nth0_app_nul, Hb.
    destruct (bcopy_app [37; a] out junk (r1 ++ 0 :: rest) log) as [junk' [log' [E [Hlen Hin]]]].
    cbn [app length] in E. rewrite E.
    exists [37; a], junk', r1.
    cbn [u_buf u_wr u_rd u_cr u_log].
    split; [rewrite <- !app_assoc; reflexivity|]. split; [rewrite app_length; reflexivity|].
    split; [rewrite app_length; cbn [length]; lia|].
    split; [apply uloop_pct2; assumption|].
    split; [cbn [length]; lia|]. split; [cbn [length]; lia|].
    split.
    { change (37 :: a :: r1) with ([37; a] ++ r1) in Hnz. apply Forall_app in Hnz. tauto. }
    intros i Hi. apply Hin in Hi. cbn [length] in *. destruct Hi as [Hi|Hi]; [left; assumption|right; lia].
  - (* '%' not followed by a hex digit: one character copied *)
    cbn [app nth]. change (37 =? 0) with false. change (37 =? 37) with true. cbv iota.
    rewrite nth0_app_nul, Ha.
    destruct (bcopy_app [37] out junk (r ++ 0 :: rest) log) as [junk' [log' [E [Hlen Hin]]]].
    cbn [app length] in E. rewrite E.
    exists [37], junk', r.
    cbn [u_buf u_wr u_rd u_cr u_log].
    split; [rewrite <- !app_assoc; reflexivity|]. split; [rewrite app_length; reflexivity|].
    split; [rewrite app_length; cbn [length]; lia|].
    split; [apply uloop_pct1; assumption|].
    split; [cbn [length]; lia|]. split; [cbn [length]; lia|].
    split.
    { inversion Hnz; assumption. }
    intros i Hi. apply Hin in Hi. cbn [length] in *. destruct Hi as [Hi|Hi]; [left; assumption|right; lia].
  - (* any other character *)
    cbn [app nth]. destruct (c =? 0) eqn:E0; [lia|]. destruct (c =? 37) eqn:E37; [lia|].
    assert (Forall nz r) as Hr by (inversion Hnz; assumption).
    destruct ((c =? 43) && pts) eqn:E43.
    + apply andb_prop in E43. destruct E43 as [E43 Ep]. apply N.eqb_eq in E43. subst c pts.
      destruct (bwrite_app [32] out (junk ++ [43]) (r ++ 0 :: rest) log) as [log' [E Hin]].
      { rewrite app_length. cbn [length]. lia. }
      rewrite <- app_assoc in E. cbn [app] in E. rewrite E.
      exists [32], (skipn 1 (junk ++ [43])), r.
      cbn [u_buf u_wr u_rd u_cr u_log length].
      split; [rewrite <- !app_assoc; reflexivity|]. split; [rewrite app_length; reflexivity|].
      split; [rewrite skipn_length, !app_length; cbn [length]; lia|].
      split; [apply unescape_plus|].
      split; [rewrite skipn_length, app_length; cbn [length]; lia|].
      split; [lia|]. split; [assumption|].
      intros i Hi. apply Hin in Hi. cbn [length] in Hi. destruct Hi as [Hi|Hi]; [left; assumption|right; lia].
    + destruct (bcopy_app [c] out junk (r ++ 0 :: rest) log) as [junk' [log' [E [Hlen Hin]]]].
      cbn [app length] in E. rewrite E.
      exists [c], junk', r.
      cbn [u_buf u_wr u_rd u_cr u_log].
      split; [rewrite <- !app_assoc; reflexivity|]. split; [rewrite app_length; reflexivity|].
      split; [rewrite app_length; cbn [length]; lia|].
      split; [apply uloop_copy; assumption|].
      split; [cbn [length]; lia|]. split; [cbn [length]; lia|]. split; [assumption|].
      intros i Hi. apply Hin in Hi. cbn [length] in *. destruct Hi as [Hi|Hi]; [left; assumption|right; lia].
Qed.

(* ---------- 9. the whole run ------------------------------------------------ *)
Lemma urun_sim pts bc rest : forall fuel out junk suf cr log,
  Forall nz suf -> (length suf < fuel)%nat ->
  exists buf' ret log',
    urun pts bc fuel (Build_ustate (out ++ junk ++ suf ++ 0 :: rest)
                                   (length out + length junk) (length out) cr log)
      = Some (buf', ret, log') /\
    firstn ret buf' = out ++ unescape_loop pts bc cr suf /\
    nth ret buf' 0 = 0 /\
    (ret <= length out + length junk + length suf)%nat /\
    length buf' = (length out + length junk + length suf + S (length rest))%nat /\
    skipn (S (length out + length junk + length suf)) buf' = rest /\
    (forall i, In i log' -> In i log \/ (i < length out + length junk + length suf)%nat).
Proof.
  induction fuel as [|fuel IH]; intros out junk suf cr log Hnz Hf; [lia|].
  cbn [urun]. pose proof (ustep_sim pts bc rest out junk suf cr log Hnz) as S.
  destruct (ustep pts bc _) as [buf' ret log' | s'].
  - destruct S as [-> [-> [[junk' [Hlen [-> H0]]] Hin]]].
    exists (out ++ junk' ++ 0 :: rest), (length out), log'.
    split; [reflexivity|]. cbn [length unescape_loop]. rewrite !Nat.add_0_r.
    split; [rewrite app_nil_r; apply firstn_app_len|].
    split; [rewrite nth_app_len; exact H0|].
    split; [lia|].
    split; [rewrite !app_length; cbn [length]; lia|].
    split; [|exact Hin].
    change (0 :: rest) with ([0] ++ rest). rewrite !app_assoc.
    apply skipn_app_len. rewrite !app_length. cbn [length]. lia.
  - destruct S as [o [junk' [suf' [Hb [Hw [Hr [Hu [Hl [Hlt [Hnz' Hin]]]]]]]]]].
    destruct s' as [b r w c lg]. cbn [u_buf u_rd u_wr u_cr u_log] in *. subst b r w.
    destruct (IH (out ++ o) junk' suf' c lg Hnz' ltac:(lia))
      as [buf' [ret [log' [R [F [Z [Le [Len [Sk Hin']]]]]]]]].
    rewrite app_length in *.
    exists buf', ret, log'. split; [exact R|].
    split; [rewrite F, Hu; symmetry; apply app_assoc|].
    split; [exact Z|]. split; [lia|]. split; [lia|].
    split.
    { replace (length out + length junk + length suf)%nat
        with (length out + length o + length junk' + length suf')%nat by lia. exact Sk. }
    intros i Hi. apply Hin' in Hi. destruct Hi as [Hi|Hi]; [apply Hin; assumption|right; lia].
Qed.

Lemma unescape_inplace_refines pts bc l rest :
  Forall (fun c => c <> 0) l ->
  exists buf' ret log,
    unescape_inplace pts bc (l ++ 0 :: rest) = Some (buf', ret, log) /\
    firstn ret buf' = unescape pts bc l /\
    nth ret buf' 0 = 0 /\
    (ret <= length l)%nat /\
    length buf' = length (l ++ 0 :: rest) /\
    skipn (S (length l)) buf' = rest /\
    Forall (fun i => (i <= length l)%nat) log.
Proof.
  intros Hnz.
  destruct (urun_sim pts bc rest (S (length (l ++ 0 :: rest))) [] [] l false [] Hnz)
    as [buf' [ret [log' [R [F [Z [Le [Len [Sk Hin]]]]]]]]].
  { rewrite app_length. lia. }
  cbn [app length Nat.add] in *.
  exists buf', ret, log'. split; [exact R|]. split; [exact F|]. split; [exact Z|].
  split; [exact Le|]. split; [rewrite app_length; cbn [length]; lia|]. split; [exact Sk|].
  apply Forall_forall. intros i Hi. apply Hin in Hi. destruct Hi as [[]|Hi]. lia.
Qed.

(* ---------- 10. the write cursor never passes the read cursor ------------------ *)
Definition uinit (buf : text) : ustate :=
  {| u_buf := buf; u_rd := 0; u_wr := 0; u_cr := false; u_log := [] |}.

(* states reached by iterating the loop body *)
Inductive ureach (pts : bool) (bc : break_conv) (s : ustate) : ustate -> Prop :=
| ureach_refl : ureach pts bc s s
| ureach_step s1 s2 : ureach pts bc s s1 -> ustep pts bc s1 = UCont s2 -> ureach pts bc s s2.

Definition ushape (rest : text) (n : nat) (s : ustate) : Prop :=
  exists out junk suf,
    u_buf s = out ++ junk ++ suf ++ 0 :: rest /\ u_wr s = length out /\
    u_rd s = (length out + length junk)%nat /\ Forall nz suf /\
    (length out + length junk + length suf = n)%nat.

Lemma ushape_step pts bc rest n s s' :
  ushape rest n s -> ustep pts bc s = UCont s' -> ushape rest n s'.
Proof.
  intros [out [junk [suf [Hb [Hw [Hr [Hnz Hn]]]]]]] Hs.
  destruct s as [b r w c lg]. cbn [u_buf u_rd u_wr] in *. subst b r w.
  pose proof (ustep_sim pts bc rest out junk suf c lg Hnz) as S. rewrite Hs in S.
  destruct S as [o [junk' [suf' [Hb' [Hw' [Hr' [_ [Hl [_ [Hnz' _]]]]]]]]]].
  exists (out ++ o), junk', suf'. rewrite app_length in *. repeat split; try assumption. lia.
Qed.

Lemma ureach_shape pts bc l rest s : Forall nz l ->
  ureach pts bc (uinit (l ++ 0 :: rest)) s -> ushape rest (length l) s.
Proof.
  intros Hnz R. induction R as [|s1 s2 R IH Hs].
  - exists [], [], l. cbn. auto.
  - eapply ushape_step; eassumption.
Qed.

Lemma unescape_inplace_write_le_read pts bc l rest s :
  Forall (fun c => c <> 0) l ->
  ureach pts bc (uinit (l ++ 0 :: rest)) s -> (u_wr s <= u_rd s <= length l)%nat.
Proof.
  intros Hnz R. destruct (ureach_shape pts bc l rest s Hnz R) as [out [junk [suf [_ [Hw [Hr [_ Hn]]]]]]].
  lia.
Qed.

(* the run of [unescape_inplace] is the iteration of [ustep] from [uinit] *)
Lemma unescape_inplace_is_run pts bc buf :
  unescape_inplace pts bc buf = urun pts bc (S (length buf)) (uinit buf).
Proof. reflexivity. Qed.
