(* Properties C02 and C04 assembled: the bracketed literal of an accepted text is a text of the
   grammar's IPv6address / IPvFuture rule (the link between the acceptance theorem of
   Proofs/ParseAccept.v and the address lemmas of Proofs/Ip4Proofs.v, Proofs/Ip6Proofs.v, which are
   stated for texts of the grammar), and with it the unconditional forms of the theorems of
   Proofs/ParseSplit.v and Proofs/ParseRecompose.v. *)
From Coq Require Import List NArith Bool Lia.
From UP Require Spec.Rfc3986.
From UP Require Import Base.Chars Base.Regex Model.Uri Model.Ip4 Model.Parse Model.Recompose
  Spec.Split Spec.NormalWf Spec.Unparse Spec.Recompose
  Proofs.ParseAccept Proofs.ParseData Proofs.ParseWfStep Proofs.ParseWf Proofs.ParseSplit Proofs.ParseRecompose
  Proofs.Ip4Proofs Proofs.Ip6Proofs Proofs.RegexContext.
Import ListNotations.
Local Open Scope N_scope.

(* ---------------------------------------------------------------- the literal between the brackets *)
(* what RFC 3986 allows between "[" and "]" *)
Definition lit_re : re := Alt Rfc3986.IPv6address Rfc3986.IPvFuture.

(* In URI-reference "[" occurs in two places (the IP-literal of URI and of relative-ref); what may
   follow it contains "]" in one place; and what stands between the two is [lit_re]. *)
Lemma lit_check :
  forallb (fun p => forallb (fun q => re_eqb (fst q) lit_re) (ctx 93 (snd p))) (ctx 91 Rfc3986.URI_reference) = true.
Proof. vm_compute. reflexivity. Qed.

(* a URI reference cut at a "[" and a later "]": between them stands a literal of the grammar, and
   any other literal may stand there instead *)
Theorem lit_context x y z : matches Rfc3986.URI_reference (x ++ 91 :: y ++ 93 :: z) ->
  matches lit_re y /\ forall y', matches lit_re y' -> matches Rfc3986.URI_reference (x ++ 91 :: y' ++ 93 :: z).
Proof.
  intros H. apply ctx_sound in H. destruct H as (p & Hp & Hx & Hr).
  apply ctx_sound in Hr. destruct Hr as (q & Hq & Hy & Hz).
  pose proof lit_check as C. rewrite forallb_forall in C. specialize (C p Hp).
  rewrite forallb_forall in C. specialize (C q Hq). apply re_eqb_eq in C.
  split; [rewrite <- C; exact Hy|]. intros y' Hy'.
  apply (ctx_complete 91 _ p); [exact Hp|exact Hx|].
  apply (ctx_complete 93 _ q); [exact Hq|rewrite C; exact Hy'|exact Hz].
Qed.

Theorem parsed_literal_matches s u h : parse s = POk u -> hostText u = Some h -> is_lit u = true ->
  matches (Alt Rfc3986.IPv6address Rfc3986.IPvFuture) h.
Proof.
  intros H Eh Hl. destruct (parse_lit_shape s u h H Eh Hl) as (pre & post & _ & _ & Es).
  assert (M : matches Rfc3986.URI_reference s) by (apply parse_accepts_iff; exists u; exact H).
  rewrite Es in M. cbn [app] in M. exact (proj1 (lit_context pre h post M)).
Qed.

(* IPv6address texts do not begin with "v" / "V"; IPvFuture texts do *)
Lemma ip6_deriv_v : is_empty (deriv 118 Rfc3986.IPv6address) = true /\ is_empty (deriv 86 Rfc3986.IPv6address) = true.
Proof. vm_compute. split; reflexivity. Qed.

Lemma ip6_no_v h : matches Rfc3986.IPv6address h -> v_start h = false.
Proof.
  intros M. destruct h as [|c r]; [reflexivity|]. unfold v_start, head_is.
  destruct (c =? 118) eqn:E1.
  - apply N.eqb_eq in E1. subst c. apply deriv_spec in M. exfalso. revert M. apply is_empty_true. apply ip6_deriv_v.
  - destruct (c =? 86) eqn:E2; [|reflexivity].
    apply N.eqb_eq in E2. subst c. apply deriv_spec in M. exfalso. revert M. apply is_empty_true. apply ip6_deriv_v.
Qed.

Lemma future_v h : matches Rfc3986.IPvFuture h -> v_start h = true.
Proof.
  unfold Rfc3986.IPvFuture. cbn [Rfc3986.seqs]. intros M.
  apply m_seq_inv in M. destruct M as (a & b & E & Ha & _). apply m_chr_inv in Ha. destruct Ha as (c & Ea & Hc). subst.
  cbn [app]. unfold v_start, head_is. destruct Hc as [Hc|[Hc|[]]]; subst c; reflexivity.
Qed.

Lemma ip6_nonempty : ~ matches Rfc3986.IPv6address [].
Proof. intros M. apply nullable_spec in M. vm_compute in M. discriminate M. Qed.

Theorem parsed_ip6_matches s u h : parse s = POk u -> hostText u = Some h -> ip6 u <> None ->
  matches Rfc3986.IPv6address h.
Proof.
  intros H Eh E6. destruct (parse_wf s u H) as (_ & (_ & Hf) & _ & _). rewrite Eh in Hf. destruct Hf as [_ Hf].
  assert (Hl : is_lit u = true) by (unfold is_lit; destruct (ip6 u); [reflexivity|contradiction]).
  pose proof (parsed_literal_matches s u h H Eh Hl) as M.
  destruct (ip6 u) as [b|]; [|contradiction]. destruct (ipFuture u); [contradiction|]. destruct Hf as (_ & _ & Hv & _).
  apply m_alt_inv in M. destruct M as [M|M]; [exact M|]. apply future_v in M. rewrite M in Hv. discriminate Hv.
Qed.

Theorem parsed_future_matches s u h : parse s = POk u -> hostText u = Some h -> ipFuture u <> None ->
  matches Rfc3986.IPvFuture h.
Proof.
  intros H Eh Efu. destruct (parse_wf s u H) as (_ & (_ & Hf) & _ & _). rewrite Eh in Hf. destruct Hf as [_ Hf].
  assert (Hl : is_lit u = true) by (unfold is_lit; destruct (ipFuture u); [apply orb_true_r|contradiction]).
  pose proof (parsed_literal_matches s u h H Eh Hl) as M.
  destruct (ipFuture u) as [f|]; [|contradiction]. destruct (ip6 u); [contradiction|]. destruct Hf as (_ & _ & Hv).
  apply m_alt_inv in M. destruct M as [M|M]; [|exact M]. apply ip6_no_v in M. rewrite M in Hv. discriminate Hv.
Qed.

(* ---------------------------------------------------------------- C02: the parsed object is the splitter's *)
(* uriParseIpFourAddress decides the grammar's IPv4address and computes the value of the text *)
Lemma parse_ip4_spec h :
  parse_ip4 h = if matchb Rfc3986.IPv4address h then Some (ip4_value h) else None.
Proof.
  destruct (parse_ip4 h) as [o|] eqn:E.
  - assert (M : matches Rfc3986.IPv4address h) by (apply parse_ip4_grammar; exists o; exact E).
    apply matchb_spec in M. rewrite M. destruct (parse_ip4_value h o E) as [Eo _]. rewrite Eo. reflexivity.
  - destruct (matchb Rfc3986.IPv4address h) eqn:M; [|reflexivity].
    apply matchb_spec in M. apply parse_ip4_grammar in M. destruct M as [o Ho]. rewrite Ho in E. discriminate E.
Qed.

Theorem parse_is_split_full s u : parse s = POk u -> u = split_spec s.
Proof.
  intros H. apply (parse_split_given_addr s u H).
  - intros h _ _. apply parse_ip4_spec.
  - intros h Eh E6. exact (proj1 (ip6_bytes_value h (parsed_ip6_matches s u h H Eh E6))).
Qed.

(* host kind and address bytes, spelled out: exactly one kind, decided as the grammar decides, with the
   value written in the text *)
Theorem parse_host_kind s u h : parse s = POk u -> hostText u = Some h ->
  (is_lit u = true /\ ip4 u = None /\
     ((matches Rfc3986.IPv6address h /\ ip6 u = Some (ip6_value h) /\ ipFuture u = None /\ length (ip6_value h) = 16%nat)
      \/ (matches Rfc3986.IPvFuture h /\ ip6 u = None /\ ipFuture u = Some h)))
  \/ (is_lit u = false /\ ip6 u = None /\ ipFuture u = None /\
     ((matches Rfc3986.IPv4address h /\ ip4 u = Some (ip4_value h))
      \/ (~ matches Rfc3986.IPv4address h /\ text_ok is_regname_char h /\ ip4 u = None))).
Proof.
  intros H Eh. destruct (parse_wf s u H) as (Hc & (_ & Hf) & _ & _). rewrite Eh in Hf. destruct Hf as [_ Hf].
  destruct (ip6 u) as [b|] eqn:E6; [|destruct (ipFuture u) as [f|] eqn:Efu].
  - destruct (ipFuture u); [contradiction|]. destruct Hf as (E4 & Eb & _).
    assert (M : matches Rfc3986.IPv6address h) by (apply (parsed_ip6_matches s u h H Eh); rewrite E6; discriminate).
    destruct (ip6_bytes_value h M) as [Ev Hl]. left. unfold is_lit. rewrite E6. split; [reflexivity|]. split; [exact E4|].
    left. rewrite <- Ev, <- Eb. repeat split; try assumption. rewrite Eb. exact Hl.
  - destruct Hf as (E4 & Ef & _). subst f.
    assert (M : matches Rfc3986.IPvFuture h) by (apply (parsed_future_matches s u h H Eh); rewrite Efu; discriminate).
    left. unfold is_lit. rewrite E6, Efu. split; [reflexivity|]. split; [exact E4|]. right. auto.
  - right. unfold is_lit. rewrite E6, Efu. split; [reflexivity|]. split; [reflexivity|]. split; [reflexivity|].
    rewrite Hf, parse_ip4_spec. destruct (matchb Rfc3986.IPv4address h) eqn:M.
    + left. apply matchb_spec in M. auto.
    + right. split; [intros M'; apply matchb_spec in M'; rewrite M' in M; discriminate M|]. split; [|reflexivity].
      destruct Hc as (_ & _ & Hh & _). rewrite Eh, E6, Efu in Hh. exact Hh.
Qed.

(* ---------------------------------------------------------------- C04: recomposition *)
Theorem parse_to_text_full s u : parse s = POk u -> to_text u = canon_ip6 s.
Proof.
  apply parse_to_text_canon.
  - exact parse_ip4_render.
  - intros s0 u0 h H Eh E6. exact (proj1 (ip6_roundtrip h (parsed_ip6_matches s0 u0 h H Eh E6))).
Qed.

(* the canonical text of sixteen octets is a text of IPv6address *)
Lemma hexdig_In c : is_hexdig c = true -> In c Rfc3986.HEXDIG.
Proof.
  unfold is_hexdig, is_digit, is_hex_upper, is_hex_lower, in_range. intros H.
  assert (R : 48 <= c <= 57 \/ 65 <= c <= 70 \/ 97 <= c <= 102) by lia.
  unfold Rfc3986.HEXDIG, Rfc3986.DIGIT. apply in_or_app. destruct R as [R|[R|R]].
  - left. apply In_range_intro. lia.
  - right. apply in_or_app. left. apply In_range_intro. lia.
  - right. apply in_or_app. right. apply In_range_intro. lia.
Qed.

Lemma upto_intro r n : forall l, Forall (matches r) l -> (length l <= n)%nat -> matches (Rfc3986.upto n r) (concat l).
Proof.
  induction n as [|n IH]; intros l Hf Hl.
  - destruct l; [constructor|cbn [length] in Hl; lia].
  - cbn [Rfc3986.upto]. unfold Rfc3986.opt. destruct l as [|x l]; [apply MAltL; constructor|].
    apply MAltR. cbn [concat]. inversion Hf as [|? ? Hx Hr]; subst. constructor; [exact Hx|].
    apply IH; [exact Hr|cbn [length] in Hl; lia].
Qed.

Lemma rep_intro r n : forall l, Forall (matches r) l -> length l = n -> matches (Rfc3986.rep n r) (concat l).
Proof.
  induction n as [|n IH]; intros l Hf Hl.
  - destruct l; [constructor|discriminate Hl].
  - destruct l as [|x l]; [discriminate Hl|]. cbn [Rfc3986.rep concat]. inversion Hf as [|? ? Hx Hr]; subst.
    constructor; [exact Hx|]. apply IH; [exact Hr|]. cbn [length] in Hl. lia.
Qed.

Definition singles (g : text) : list text := map (fun c => [c]) g.
Lemma concat_singles g : concat (singles g) = g.
Proof. induction g as [|c g IH]; [reflexivity|]. cbn [singles map concat app]. fold (singles g). rewrite IH. reflexivity. Qed.
Lemma singles_hex g : forallb is_hexdig g = true -> Forall (matches (Chr Rfc3986.HEXDIG)) (singles g).
Proof.
  induction g as [|c g IH]; intros H; [constructor|]. cbn [forallb] in H. apply andb_true_iff in H. destruct H as [Hc Hg].
  constructor; [constructor; apply hexdig_In; exact Hc|exact (IH Hg)].
Qed.

Lemma h16_intro g : is_h16 g -> matches Rfc3986.h16 g.
Proof.
  intros [Hh [H1 H4]]. destruct g as [|a g]; [cbn [length] in H1; lia|].
  cbn [forallb] in Hh. apply andb_true_iff in Hh. destruct Hh as [Ha Hg].
  unfold Rfc3986.h16. change (a :: g) with ([a] ++ g). constructor; [constructor; apply hexdig_In; exact Ha|].
  rewrite <- (concat_singles g). apply upto_intro; [apply singles_hex; exact Hg|].
  unfold singles. rewrite map_length. cbn [length] in H4. lia.
Qed.

Lemma h16c_intro g : is_h16 g -> matches Rfc3986.h16c (g ++ [58]).
Proof. intros H. unfold Rfc3986.h16c. constructor; [apply h16_intro; exact H|]. constructor. left. reflexivity. Qed.

Lemma joinc8_matches G : Forall is_h16 G -> length G = 8%nat -> matches Rfc3986.IPv6address (joinc G).
Proof.
  intros HG HL. destruct G as [|g1 [|g2 [|g3 [|g4 [|g5 [|g6 [|g7 [|g8 [|g9 G]]]]]]]]]; try discriminate HL.
  repeat match goal with H : Forall _ (_ :: _) |- _ => inversion H; clear H; subst end.
  unfold Rfc3986.IPv6address. cbn [Rfc3986.alts]. apply MAltL. cbn [Rfc3986.seqs].
  replace (joinc [g1; g2; g3; g4; g5; g6; g7; g8])
    with (concat [g1 ++ [58]; g2 ++ [58]; g3 ++ [58]; g4 ++ [58]; g5 ++ [58]; g6 ++ [58]] ++ (g7 ++ [58] ++ g8)).
  2:{ cbn [joinc concat]. rewrite app_nil_r, <- !app_assoc. cbn [app]. reflexivity. }
  constructor.
  - apply rep_intro; [|reflexivity]. repeat (apply Forall_cons; [apply h16c_intro; assumption|]). apply Forall_nil.
  - unfold Rfc3986.ls32. apply MAltL. cbn [Rfc3986.seqs]. constructor; [apply h16_intro; assumption|].
    constructor; [constructor; left; reflexivity|apply h16_intro; assumption].
Qed.

Lemma groups_text_matches b : length b = 16%nat -> Forall (fun x => x <= 255) b ->
  matches Rfc3986.IPv6address (groups_text b).
Proof.
  intros Hl Hb. rewrite (groups_text_joinc 8) by exact Hl.
  destruct (hexgroups_ok 8 b Hl Hb) as (HG & _ & HL). apply joinc8_matches; assumption.
Qed.

Lemma ip6_class : re_all is_ip6_char Rfc3986.IPv6address = true.
Proof. vm_compute. reflexivity. Qed.

(* what the second parse yields: the same object, with the text of an IPv6 host in its canonical form *)
Definition canon_host (u : uri) : uri :=
  match ip6 u with Some b => set_hostText (Some (groups_text b)) u | None => u end.

Theorem parse_reparse_full s u : parse s = POk u -> parse (to_text u) = POk (canon_host u).
Proof.
  intros H. unfold canon_host. destruct (ip6 u) as [b|] eqn:E6.
  2:{ rewrite (parse_to_text_full s u H), (canon_ip6_id s u H E6). exact H. }
  destruct (parse_to_text_ip6 s u b H E6) as (pre & h & post & Eh & Hne & Eb & Hv & Hpre & Hh & Es & Et).
  assert (Mh : matches Rfc3986.IPv6address h) by (apply (parsed_ip6_matches s u h H Eh); rewrite E6; discriminate).
  destruct (ip6_bytes_value h Mh) as [Ev Hl16]. pose proof (ip6_bytes_octets h Mh) as Ho. rewrite <- Eb in Hl16, Ho.
  pose proof (ip6_render b Hl16 Ho) as Eg.
  pose proof (groups_text_matches b Hl16 Ho) as Mg.
  pose proof (ip6_value_groups_text b Hl16 Ho) as Evg.
  assert (M : matches Rfc3986.URI_reference s) by (apply parse_accepts_iff; exists u; exact H).
  assert (A : matches Rfc3986.URI_reference (to_text u)).
  { rewrite Et, Eg. cbn [app]. apply (lit_context pre h post); [rewrite Es in M; cbn [app] in M; exact M|].
    apply MAltL. exact Mg. }
  apply parse_accepts_iff in A. destruct A as [u2 H2]. rewrite H2. f_equal.
  rewrite (parse_is_split_full _ _ H2).
  destruct (parse_wf s u H) as (Hc & Hf & Hp & Ha).
  pose proof (to_text_with u Hf) as Tw.
  destruct u as [sc ui ht i4 i6 fu po ps qu fr ab ow].
  cbn [scheme userInfo hostText ip4 ip6 ipFuture portText pathSegs query fragment absolutePath owner] in *.
  subst ht i6. destruct Hf as [Ho' Hf]. cbn [hostText ip6 ipFuture ip4 absolutePath owner] in Ho', Hf.
  destruct Hf as [Hab Hf]. destruct fu; [contradiction|]. destruct Hf as (E4 & _ & _ & _). subst i4 ab ow.
  set (u' := set_hostText (Some (groups_text b)) (mkUri sc ui (Some h) None (Some b) None po ps qu fr false false)).
  assert (W : parsed_wf parse_ip4 ip6_bytes u').
  { destruct Hc as (C1 & C2 & C3 & C4 & C5 & C6 & C7).
    unfold u', set_hostText, parsed_wf, chars_ok, flags_ok, path_ok, auth_ok.
    cbn [scheme userInfo hostText ip4 ip6 ipFuture portText pathSegs query fragment absolutePath owner is_some] in *.
    repeat split; try assumption.
    - exact (re_all_spec is_ip6_char _ _ Mg ip6_class).
    - rewrite (proj1 (ip6_bytes_value _ Mg)). symmetry. exact Evg.
    - exact (ip6_no_v _ Mg).
    - intros E. rewrite E in Mg. exact (ip6_nonempty Mg). }
  assert (Eu : unparse u' = to_text (mkUri sc ui (Some h) None (Some b) None po ps qu fr false false)).
  { rewrite Tw. unfold u', set_hostText, unparse, unparse_with, host_rendered, authority_part, host_part, is_lit,
      scheme_part, path_part.
    cbn [scheme userInfo hostText ip4 ip6 ipFuture portText pathSegs query fragment absolutePath owner is_some orb].
    rewrite !concat_app, Eg. cbn [concat app]. rewrite ?app_nil_r. reflexivity. }
  rewrite <- Eu, (split_unparse parse_ip4 ip6_bytes u' W).
  unfold u', set_hostText, spec_addr, is_lit.
  cbn [scheme userInfo hostText ip4 ip6 ipFuture portText pathSegs query fragment absolutePath owner is_some orb].
  rewrite Evg. reflexivity.
Qed.

(* the fields of the re-parsed object *)
Lemma canon_host_fields u :
  scheme (canon_host u) = scheme u /\ userInfo (canon_host u) = userInfo u /\ ip4 (canon_host u) = ip4 u
  /\ ip6 (canon_host u) = ip6 u /\ ipFuture (canon_host u) = ipFuture u /\ portText (canon_host u) = portText u
  /\ pathSegs (canon_host u) = pathSegs u /\ query (canon_host u) = query u /\ fragment (canon_host u) = fragment u
  /\ absolutePath (canon_host u) = absolutePath u /\ owner (canon_host u) = owner u
  /\ hostText (canon_host u) = match ip6 u with Some b => Some (groups_text b) | None => hostText u end.
Proof. destruct u as [sc ui ht i4 i6 fu po ps qu fr ab ow]. unfold canon_host. destruct i6; cbn; repeat split; reflexivity. Qed.

(* ... and the canonical text denotes the address stored: for an IPv6 host the new host text has the
   value of the old one *)
Theorem parse_reparse_same_address s u h b : parse s = POk u -> hostText u = Some h -> ip6 u = Some b ->
  hostText (canon_host u) = Some (groups_text (ip6_value h))
  /\ matches Rfc3986.IPv6address (groups_text (ip6_value h))
  /\ ip6_value (groups_text (ip6_value h)) = ip6_value h /\ b = ip6_value h.
Proof.
  intros H Eh E6.
  assert (Mh : matches Rfc3986.IPv6address h) by (apply (parsed_ip6_matches s u h H Eh); rewrite E6; discriminate).
  destruct (ip6_bytes_value h Mh) as [Ev Hl16]. pose proof (ip6_bytes_octets h Mh) as Ho.
  destruct (parse_wf s u H) as (_ & (_ & Hf) & _ & _). rewrite Eh, E6 in Hf. destruct Hf as [_ Hf].
  destruct (ipFuture u); [contradiction|]. destruct Hf as (_ & Eb & _). rewrite Ev in *.
  unfold canon_host. rewrite E6. cbn [hostText set_hostText]. rewrite Eb.
  split; [reflexivity|]. split; [apply groups_text_matches; assumption|]. split; [|reflexivity].
  apply ip6_value_groups_text; assumption.
Qed.

(* hosts that are not IPv6 literals: the same object *)
Corollary parse_reparse_same s u : parse s = POk u -> ip6 u = None -> parse (to_text u) = POk u.
Proof. intros H E6. rewrite (parse_reparse_full s u H). unfold canon_host. rewrite E6. reflexivity. Qed.

(* a second round trip changes nothing any more: the canonical object is a fixed point *)
Corollary parse_reparse_fixpoint s u : parse s = POk u ->
  to_text (canon_host u) = to_text u /\ canon_host (canon_host u) = canon_host u.
Proof.
  intros H. pose proof (parse_reparse_full s u H) as R. split.
  - destruct (parse_wf s u H) as (_ & Hf & _). destruct (parse_wf _ _ R) as (_ & Hf' & _).
    rewrite (to_text_with _ Hf), (to_text_with _ Hf'). unfold canon_host. destruct (ip6 u) as [b|] eqn:E6; [|reflexivity].
    destruct Hf as [_ Hf]. destruct (hostText u) as [h|] eqn:Eh; [|destruct Hf as (_ & Hf & _); rewrite Hf in E6; discriminate E6].
    destruct u as [sc ui ht i4 i6 fu po ps qu fr ab ow].
    cbn [scheme userInfo hostText ip4 ip6 ipFuture portText pathSegs query fragment absolutePath owner] in *. subst ht i6.
    unfold unparse_with, host_rendered, scheme_part, path_part, set_hostText.
    cbn [scheme userInfo hostText ip4 ip6 ipFuture portText pathSegs query fragment absolutePath owner is_some]. reflexivity.
  - destruct u as [sc ui ht i4 i6 fu po ps qu fr ab ow]. unfold canon_host. destruct i6; reflexivity.
Qed.

(* unless the host is an IPv6 literal the output is the input, character for character *)
Corollary parse_to_text_exact s u : parse s = POk u -> ip6 u = None -> to_text u = s.
Proof. intros H E6. rewrite (parse_to_text_full s u H). exact (canon_ip6_id s u H E6). Qed.
