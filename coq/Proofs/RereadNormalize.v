(* C07, normalization and make-owner: [normalize mask u] and [make_owner u] keep [produced_wf]
   (Spec/Reread.v: the condition under which an object reads back as itself), for every mask, exactly
   outside the one defect shape that the model reproduces from the code:

     D7b  exposes_colon   "a/../b:c" -> "b:c"    (first relative segment with ':' reads back as a scheme)

   The second shape of earlier versions, D14 ("/..//." -> "//": a host-less path text beginning with "//"
   reads back as an authority; also "a/..///b" -> "//b"), was repaired in uriNormalizeSyntaxEngine, which now
   calls uriFixAmbiguity after dot removal: [normalize_no_dslash] shows that no normalized object has that
   shape, and the former refutation witnesses are positive examples ([dslash_guarded]).

   Contents
     A.  [produced_wfb_n]: boolean reflection of [produced_wf] (+ [produced_wfb_n_iff])
     B.  the carve-out [exposes_colon] (on the input object and the mask) and the shapes
         tested at run time on the result, [rt_colon], [rt_dslash] (gen/c07.py)
     C.  the statements tested on a family of small objects before being proved (N5)
     D.  character classes: [fix_pct], [lowercase], [lowercase_except_pct], the dot-segment walk
     E.  [normalize_keeps_chars] (N1)
     F.  [normalize_keeps_unambiguous] (N2, an equivalence), [exposes_colon_is_rt_colon], [normalize_no_dslash]
         (N4), when the carve-out does not apply: PATH bit clear, host, scheme / leading "/", no dot segment
     G.  [normalize_produced_wf(_iff)], [make_owner_produced_wf] (N3), witnesses *)
From Coq Require Import List NArith Bool Lia ZifyBool ZifyN Arith.
From UP Require Import Base.Chars Base.Regex Model.Uri Model.Common Model.Normalize Spec.NormalWf Spec.Split
  Spec.Unparse Spec.Reread Proofs.NormalizeProofs.
From UP Require Spec.Rfc3986 Spec.Resolve Spec.Normal Proofs.DotSegments.
Import ListNotations.
Local Open Scope N_scope.

(* ================================================================== A. boolean reflection *)
Definition opt_okb (f : text -> bool) (o : option text) : bool :=
  match o with Some t => f t | None => true end.
Definition scheme_okb (s : text) : bool :=
  match s with c :: r => is_alpha c && forallb is_scheme_char r | [] => false end.
Definition text_okb (cls : N -> bool) (t : text) : bool := forallb cls t && pct_wf t.
Definition is_none {A} (o : option A) : bool := negb (is_some o).

Definition host_okb (u : uri) : bool :=
  match hostText u with
  | None => is_none (ip4 u) && is_none (ip6 u) && is_none (ipFuture u)
  | Some h =>
    negb (absolutePath u) &&
    match ip4 u, ip6 u, ipFuture u with
    | None, None, None => text_okb is_regname_char h
    | Some o, None, None => matchb Rfc3986.IPv4address h && Resolve.text_eqb o (ip4_value h)
    | None, Some b, None => Nat.eqb (length b) 16 && forallb (fun x => x <=? 255) b
    | None, None, Some f => Resolve.text_eqb f h && matchb Rfc3986.IPvFuture h
    | _, _, _ => false
    end
  end.

Definition path_unambiguousb (u : uri) : bool :=
  match hostText u with
  | Some _ => true
  | None =>
    negb (head_is 47 (path_text u) && head_is 47 (tl (path_text u)))
    && (is_some (scheme u) || negb (has_colon (fst (span_until [47] (path_text u)))))
  end.

Definition auth_okb (u : uri) : bool :=
  match hostText u with
  | None => is_none (userInfo u) && is_none (portText u)
  | Some _ => true
  end.

Definition produced_wfb_n (u : uri) : bool :=
  opt_okb scheme_okb (scheme u)
  && opt_okb (text_okb is_userinfo_char) (userInfo u)
  && host_okb u
  && opt_okb (forallb is_digit) (portText u)
  && forallb (text_okb is_pchar) (pathSegs u)
  && opt_okb (text_okb is_qf_char) (query u)
  && opt_okb (text_okb is_qf_char) (fragment u)
  && path_unambiguousb u
  && auth_okb u.

Lemma opt_okb_iff (f : text -> bool) (P : text -> Prop) o :
  (forall t, f t = true <-> P t) -> (opt_okb f o = true <-> opt_ok P o).
Proof. intros H. destruct o as [t|]; cbn [opt_okb opt_ok]; [apply H|tauto]. Qed.

Lemma scheme_okb_iff s : scheme_okb s = true <-> scheme_ok s.
Proof.
  destruct s as [|c r]; cbn [scheme_okb scheme_ok]; [split; [discriminate|tauto]|].
  apply andb_true_iff.
Qed.

Lemma text_okb_iff cls t : text_okb cls t = true <-> text_ok cls t.
Proof. unfold text_okb, text_ok. apply andb_true_iff. Qed.

Lemma text_eqb_iff a b : Resolve.text_eqb a b = true <-> a = b.
Proof. split; [apply DotSegments.text_eqb_true|intros E; subst; apply DotSegments.text_eqb_refl]. Qed.

Lemma has_colon_iff t : has_colon t = true <-> In 58 t.
Proof.
  unfold has_colon. rewrite existsb_exists. split.
  - intros [x [Hx E]]. apply N.eqb_eq in E. subst x. exact Hx.
  - intros H. exists 58. split; [exact H|reflexivity].
Qed.

Lemma has_colon_false t : has_colon t = false <-> ~ In 58 t.
Proof. rewrite <- has_colon_iff. destruct (has_colon t); split; congruence. Qed.

Lemma is_none_iff {A} (o : option A) : is_none o = true <-> o = None.
Proof. destruct o; cbn; split; congruence. Qed.

Lemma le255_iff b : forallb (fun x => x <=? 255) b = true <-> Forall (fun x => x <= 255) b.
Proof.
  rewrite forallb_forall, Forall_forall. split; intros H x Hx; specialize (H x Hx); lia.
Qed.

Lemma host_okb_iff u : host_okb u = true <-> host_ok u.
Proof.
  unfold host_okb, host_ok. destruct (hostText u) as [h|].
  - rewrite andb_true_iff, negb_true_iff.
    destruct (ip4 u) as [o|], (ip6 u) as [b|], (ipFuture u) as [f|];
      try (split; [intros [_ H]; discriminate H|intros [_ []]]).
    + rewrite andb_true_iff, text_eqb_iff. tauto.
    + rewrite andb_true_iff, Nat.eqb_eq, le255_iff. tauto.
    + rewrite andb_true_iff, text_eqb_iff. tauto.
    + rewrite text_okb_iff. tauto.
  - rewrite !andb_true_iff, !is_none_iff. tauto.
Qed.

Lemma path_unambiguousb_iff u : path_unambiguousb u = true <-> path_unambiguous u.
Proof.
  unfold path_unambiguousb, path_unambiguous. destruct (hostText u); [tauto|].
  rewrite andb_true_iff, negb_true_iff.
  assert ((is_some (scheme u) || negb (has_colon (fst (span_until [47] (path_text u)))) = true)
          <-> (scheme u = None -> ~ In 58 (fst (span_until [47] (path_text u))))) as Hc.
  { rewrite <- has_colon_false. destruct (scheme u); cbn [is_some orb].
    - split; [discriminate|reflexivity].
    - rewrite negb_true_iff. tauto. }
  tauto.
Qed.

Lemma auth_okb_iff u : auth_okb u = true <-> auth_ok u.
Proof.
  unfold auth_okb, auth_ok. destruct (hostText u); [tauto|].
  rewrite andb_true_iff, !is_none_iff. tauto.
Qed.

Lemma segs_okb_iff cls l : forallb (text_okb cls) l = true <-> Forall (text_ok cls) l.
Proof.
  rewrite forallb_forall, Forall_forall.
  split; intros H x Hx; apply text_okb_iff; auto.
Qed.

Theorem produced_wfb_n_iff u : produced_wfb_n u = true <-> produced_wf u.
Proof.
  unfold produced_wfb_n, produced_wf. rewrite !andb_true_iff.
  rewrite (opt_okb_iff _ _ (scheme u) scheme_okb_iff).
  rewrite (opt_okb_iff _ _ (userInfo u) (text_okb_iff is_userinfo_char)).
  rewrite (opt_okb_iff _ digits_ok (portText u) (fun t => iff_refl _)).
  rewrite (opt_okb_iff _ _ (query u) (text_okb_iff is_qf_char)).
  rewrite (opt_okb_iff _ _ (fragment u) (text_okb_iff is_qf_char)).
  rewrite host_okb_iff, segs_okb_iff, path_unambiguousb_iff, auth_okb_iff. tauto.
Qed.

Corollary produced_wfb_n_sound u : produced_wfb_n u = true -> produced_wf u.
Proof. apply produced_wfb_n_iff. Qed.

(* ================================================================== B. the carve-outs *)
(* [norm_segs u] (Proofs/NormalizeProofs.v) is the segment list the PATH step computes from [u]:
   percent-encodings fixed, dot segments removed (relative rule iff no scheme, no host, no leading "/"),
   a "." put in front of a path that would be written with "//" in front (uriFixAmbiguity), a lone empty
   segment dropped when there is no host. *)

(* D7b: PATH bit set, relative-path reference (no scheme, no host, not absolute), and the first segment
   left by dot removal contains ':' *)
Definition exposes_colon (mask : N) (u : uri) : bool :=
  bit mask M_PATH && relative_ref u
  && match norm_segs u with s :: _ => has_colon s | [] => false end.

(* the text of a host-less path begins with "//" *)
Definition dslash_text (abs : bool) (segs : list text) : bool :=
  let t := (if abs then [47] else []) ++ join_slash segs in head_is 47 t && head_is 47 (tl t).


(* what gen/c07.py tests on a produced object before a read-back failure may be attributed to a listed
   finding:  shape c08_rel_exposes_colon = no host, no scheme, not absolute, first segment contains ':' *)
Definition rt_colon (v : uri) : bool :=
  negb (is_some (hostText v)) && negb (is_some (scheme v)) && negb (absolutePath v)
  && match pathSegs v with s :: _ => has_colon s | [] => false end.
(* the shape of the repaired finding D14 = no host, path text begins with "//" *)
Definition rt_dslash (v : uri) : bool :=
  negb (is_some (hostText v)) && head_is 47 (path_text v) && head_is 47 (tl (path_text v)).

(* ================================================================== C. tested before proved (N5) *)
(* all segment lists of length <= 4 over {"", ".", "..", "a", "b:c"}, with/without scheme "S", host "h",
   absolutePath; masks 8 (PATH) and 63 (all).  6248 objects, 4160 of them [produced_wf]. *)
Definition alphabet : list text := [[]; [46]; [46; 46]; [97]; [98; 58; 99]].
Fixpoint lists_upto (alpha : list text) (n : nat) : list (list text) :=
  match n with
  | O => [[]]
  | S k => [] :: flat_map (fun l => map (fun a => a :: l) alpha) (lists_upto alpha k)
  end.
Definition family_of (alpha : list text) (n : nat) (schemes hosts : list (option text)) : list uri :=
  flat_map (fun segs =>
    flat_map (fun sc =>
      flat_map (fun h =>
        map (fun ab => mkUri sc None h None None None None segs None None ab false) [false; true])
        hosts) schemes)
    (nodup (list_eq_dec (list_eq_dec N.eq_dec)) (lists_upto alpha n)).
Definition family : list uri := family_of alphabet 4 [None; Some [83]] [None; Some [104]].

(* the statements of N2/N3/N4 in boolean form *)
Definition statement_b (mask : N) (u : uri) : bool :=
  Bool.eqb (produced_wfb_n (normalize mask u)) (negb (exposes_colon mask u))
  && Bool.eqb (exposes_colon mask u) (rt_colon (normalize mask u))
  && negb (rt_dslash (normalize mask u))
  && produced_wfb_n (make_owner u).

(* the last number: objects whose path the guard changes (it was the size of the D14 shape) *)
Lemma family_size :
  map (fun l => N.of_nat (length l))
    [family; filter produced_wfb_n family; filter (exposes_colon 8) (filter produced_wfb_n family);
     filter (fun u => negb (is_host_set u) && match pathSegs (normalize 8 u) with [46] :: [] :: _ => true | _ => false end)
            (filter produced_wfb_n family)] = [6248; 4160; 14; 240].
Proof. vm_compute. reflexivity. Qed.

Lemma family_tested :
  forallb (fun u => statement_b 8 u && statement_b 63 u) (filter produced_wfb_n family) = true.
Proof. vm_compute. reflexivity. Qed.

(* percent-encoded dots and colons, upper case, the host kinds; masks PATH, HOST, SCHEME|HOST|PATH, all *)
Definition alphabet2 : list text :=
  [[]; [37; 50; 69]; [37; 50; 101; 46]; [98; 37; 51; 65; 99]; [65; 58]; [37; 52; 49]].
Definition hosts2 : list uri :=
  map (fun '(h, i4, i6, fu) => mkUri None (Some [85; 37; 55; 101]) h i4 i6 fu (Some [56]) [] None None false false)
    [ (Some [72; 37; 52; 49; 37; 50; 102], None, None, None);                       (* H%41%2f *)
      (Some [86; 70; 46; 88; 58], None, None, Some [86; 70; 46; 88; 58]);          (* [VF.X:] *)
      (Some [49; 46; 50; 46; 51; 46; 52], Some [1; 2; 3; 4], None, None);          (* 1.2.3.4 *)
      (Some [37; 51; 49; 46; 50; 46; 51; 46; 52], None, None, None);               (* %31.2.3.4 *)
      (Some [58; 58; 65], None, Some [0;0;0;0;0;0;0;0;0;0;0;0;0;0;0;10], None) ].  (* [::A] *)
Definition family2 : list uri :=
  family_of alphabet2 3 [None; Some [83; 43]] [None]
  ++ flat_map (fun segs => map (fun h => set_pathSegs segs h) hosts2) (lists_upto alphabet2 2).

Lemma family2_size :
  map (fun l => N.of_nat (length l)) [family2; filter produced_wfb_n family2] = [1251; 1112].
Proof. vm_compute. reflexivity. Qed.

Lemma family2_tested :
  forallb (fun u => statement_b 8 u && statement_b 4 u && statement_b 13 u && statement_b 63 u
                    && statement_b 4294967295 u)
          (filter produced_wfb_n family2) = true.
Proof. vm_compute. reflexivity. Qed.

(* ================================================================== D. character classes *)
(* a class that contains the unreserved characters and '%': all four classes of [produced_wf] *)
Definition cls_closed (cls : N -> bool) : Prop :=
  (forall c, is_unreserved c = true -> cls c = true) /\ cls 37 = true.

Lemma regname_closed : cls_closed is_regname_char.
Proof. split; [intros c H; unfold is_regname_char; rewrite H; reflexivity|reflexivity]. Qed.
Lemma userinfo_closed : cls_closed is_userinfo_char.
Proof. split; [intros c H; unfold is_userinfo_char, is_regname_char; rewrite H; reflexivity|reflexivity]. Qed.
Lemma pchar_closed : cls_closed is_pchar.
Proof. split; [intros c H; unfold is_pchar, is_userinfo_char, is_regname_char; rewrite H; reflexivity|reflexivity]. Qed.
Lemma qf_closed : cls_closed is_qf_char.
Proof. split; [intros c H; unfold is_qf_char, is_pchar, is_userinfo_char, is_regname_char; rewrite H; reflexivity|reflexivity]. Qed.

Lemma letter_unreserved v : is_unreserved (hex_to_letter v) = true.
Proof. arith. Qed.

(* uriFixPercentEncodingEngine writes decoded unreserved characters, '%' and upper-case hex digits *)
Lemma fix_pct_forallb cls t : cls_closed cls -> pct_wf t = true ->
  forallb cls t = true -> forallb cls (fix_pct t) = true.
Proof.
  intros [Hu Hp] Hwf. wf_induction t Hwf; [reflexivity| |]; intros Hall.
  - rewrite fix_pct_other by exact Hc. cbn [forallb] in *. apply andb_true_iff in Hall.
    destruct Hall as [H1 H2]. rewrite H1, (IH H2). reflexivity.
  - rewrite fix_pct_triplet. cbn [forallb] in Hall.
    apply andb_true_iff in Hall. destruct Hall as [_ Hall].
    apply andb_true_iff in Hall. destruct Hall as [_ Hall].
    apply andb_true_iff in Hall. destruct Hall as [_ Hall].
    destruct (is_unreserved_code _) eqn:E; cbn [forallb].
    + rewrite (Hu _ E), (IH Hall). reflexivity.
    + rewrite Hp, !(Hu _ (letter_unreserved _)), (IH Hall). reflexivity.
Qed.

Lemma fix_pct_text_ok cls t : cls_closed cls -> text_ok cls t -> text_ok cls (fix_pct t).
Proof.
  intros Hc [Ha Hw]. split; [apply fix_pct_forallb; assumption|apply fix_pct_wf; exact Hw].
Qed.

Lemma omap_fix_pct_ok cls (b : bool) o : cls_closed cls ->
  opt_ok (text_ok cls) o -> opt_ok (text_ok cls) (if b then omap fix_pct o else o).
Proof. intros Hc H. destruct b, o; cbn [omap opt_ok] in *; auto. apply fix_pct_text_ok; assumption. Qed.

(* lower-casing *)
Lemma lower_alpha c : is_alpha c = true -> is_alpha (Normal.lower c) = true.
Proof. arith. Qed.
Lemma lower_scheme_char c : is_scheme_char c = true -> is_scheme_char (Normal.lower c) = true.
Proof. unfold is_scheme_char. arith. Qed.
Lemma lower_regname_char c : is_regname_char c = true -> is_regname_char (Normal.lower c) = true.
Proof. unfold is_regname_char, is_subdelim. arith. Qed.

Lemma forallb_map_lower (cls : N -> bool) t :
  (forall c, cls c = true -> cls (Normal.lower c) = true) ->
  forallb cls t = true -> forallb cls (map Normal.lower t) = true.
Proof.
  intros Hl. induction t as [|c r IH]; [reflexivity|]. cbn [forallb map]. intros H.
  apply andb_true_iff in H. destruct H as [H1 H2]. rewrite (Hl _ H1), (IH H2). reflexivity.
Qed.

Lemma lowercase_scheme_ok s : scheme_ok s -> scheme_ok (lowercase s).
Proof.
  rewrite lowercase_is_map_lower. destruct s as [|c r]; [tauto|]. cbn [scheme_ok map].
  intros [H1 H2]. split; [apply lower_alpha; exact H1|].
  apply forallb_map_lower; [exact lower_scheme_char|exact H2].
Qed.

(* uriLowercaseInplaceExceptPercentEncoding on a registered name *)
Lemma lep_text_ok t : text_ok is_regname_char t -> text_ok is_regname_char (lowercase_except_pct t).
Proof.
  intros [Ha Hwf]. revert Ha. wf_induction t Hwf; [intros _; split; reflexivity| |]; intros Hall.
  - cbn [forallb] in Hall. apply andb_true_iff in Hall. destruct Hall as [H1 H2].
    destruct (IH H2) as [I1 I2]. rewrite lep_other by exact Hc. split.
    + cbn [forallb]. rewrite (lower_regname_char _ H1), I1. reflexivity.
    + cbn [pct_wf]. pose proof (lower_not_pct c Hc) as Hn. apply N.eqb_neq in Hn. rewrite Hn. exact I2.
  - cbn [forallb] in Hall.
    apply andb_true_iff in Hall. destruct Hall as [Hp Hall].
    apply andb_true_iff in Hall. destruct Hall as [Ca Hall].
    apply andb_true_iff in Hall. destruct Hall as [Cb Hall].
    destruct (IH Hall) as [I1 I2]. rewrite lep_triplet. split.
    + cbn [forallb]. rewrite Hp, Ca, Cb, I1. reflexivity.
    + cbn [pct_wf]. rewrite N.eqb_refl, Ha, Hb, I2. reflexivity.
Qed.

(* a regular expression whose character sets are closed under lower-casing: lower-casing maps its
   language into itself *)
Fixpoint lc_closed (r : re) : bool :=
  match r with
  | Emp => true
  | Eps => true
  | Chr l => forallb (fun c => mem (Normal.lower c) l) l
  | Seq a b => lc_closed a && lc_closed b
  | Alt a b => lc_closed a && lc_closed b
  | Star a => lc_closed a
  end.

Lemma matches_lower r s : matches r s -> lc_closed r = true -> matches r (map Normal.lower s).
Proof.
  intros M. induction M as [|l c Hin|a b s t Ms IHs Mt IHt|a b s Ms IHs|a b s Ms IHs|a|a s t Ms IHs Mt IHt];
    cbn [lc_closed]; intros Hc.
  - constructor.
  - cbn [map]. constructor. rewrite forallb_forall in Hc. apply mem_In. apply Hc. exact Hin.
  - apply andb_true_iff in Hc. destruct Hc as [Ca Cb]. rewrite map_app. constructor; auto.
  - apply andb_true_iff in Hc. destruct Hc as [Ca Cb]. apply MAltL. auto.
  - apply andb_true_iff in Hc. destruct Hc as [Ca Cb]. apply MAltR. auto.
  - constructor.
  - rewrite map_app. constructor; [apply IHs; exact Hc|apply IHt; exact Hc].
Qed.

Lemma lowercase_ipfuture h :
  matchb Rfc3986.IPvFuture h = true -> matchb Rfc3986.IPvFuture (lowercase h) = true.
Proof.
  rewrite !matchb_spec, lowercase_is_map_lower. intros M. apply matches_lower; [exact M|].
  vm_compute. reflexivity.
Qed.

(* the walk of uriRemoveDotSegmentsEx only drops segments, keeps them, or writes an empty one *)
Lemma rds_walk_Forall (P : text -> Prop) rel host abs : P [] ->
  forall rest kept, Forall P rest -> Forall P kept -> Forall P (rds_walk rel host abs kept rest).
Proof.
  intros Hnil.
  assert (forall k, Forall P k -> Forall P (rev k)) as Hrev by (intros k Hk; apply Forall_rev; exact Hk).
  induction rest as [|w nxt IH]; intros kept Hr Hk.
  - cbn [rds_walk]. auto.
  - inversion Hr as [|? ? Hw Hn]; subst. cbn [rds_walk].
    destruct (seg_dot w).
    + match goal with |- Forall P (if ?e then _ else _) => destruct e end; [apply IH; auto|].
      destruct nxt as [|n1 n2]; [|apply IH; assumption].
      destruct kept as [|p k]; [destruct host; repeat constructor; exact Hnil|].
      apply Hrev. constructor; assumption.
    + destruct (seg_dotdot w).
      * match goal with |- Forall P (if ?e then _ else _) => destruct e end; [apply IH; auto|].
        destruct kept as [|p [|pp kk]].
        -- destruct nxt as [|n1 n2]; [destruct abs; repeat constructor; exact Hnil|apply IH; auto].
        -- destruct nxt as [|n1 n2]; [destruct abs; repeat constructor; exact Hnil|apply IH; auto].
        -- inversion Hk as [|? ? _ Hk']; subst.
           destruct nxt as [|n1 n2]; [apply Hrev; constructor; assumption|apply IH; assumption].
      * apply IH; auto.
Qed.

Lemma text_ok_nil cls : text_ok cls [].
Proof. split; reflexivity. Qed.

Lemma norm_segs_of_ok rel host abs segs :
  Forall (text_ok is_pchar) segs -> Forall (text_ok is_pchar) (norm_segs_of rel host abs segs).
Proof.
  intros H. unfold norm_segs_of. cbv zeta.
  assert (Forall (text_ok is_pchar) (map fix_pct segs)) as Hm.
  { apply Forall_forall. intros x Hx. apply in_map_iff in Hx. destruct Hx as [s [E Hs]]. subst x.
    apply fix_pct_text_ok; [exact pchar_closed|]. rewrite Forall_forall in H. auto. }
  assert (Forall (text_ok is_pchar)
            (match map fix_pct segs with [] => [] | _ => rds_walk rel host abs [] (map fix_pct segs) end)) as Ho.
  { destruct (map fix_pct segs) as [|s0 sl]; [constructor|].
    apply rds_walk_Forall; [apply text_ok_nil|exact Hm|constructor]. }
  assert (forall X, Forall (text_ok is_pchar) X -> Forall (text_ok is_pchar) (guard_segs host abs X)) as Hg.
  { intros X HX. assert (text_ok is_pchar [46]) as Hd by (split; reflexivity).
    unfold guard_segs. destruct abs, X as [|[|? ?] [|[|? ?] ?]]; try exact HX; try (constructor; [exact Hd|exact HX]).
    destruct host; [exact HX|constructor; [exact Hd|exact HX]]. }
  apply Hg in Ho.
  destruct (negb host); [|exact Ho].
  match goal with |- Forall _ (match ?o with _ => _ end) => destruct o as [|[|? ?] [|? ?]] end; try exact Ho.
  constructor.
Qed.

(* ================================================================== E. N1: the character clauses *)
(* every clause of [produced_wf] but [path_unambiguous] *)
Definition chars_part (u : uri) : Prop :=
  opt_ok scheme_ok (scheme u)
  /\ opt_ok (text_ok is_userinfo_char) (userInfo u)
  /\ host_ok u
  /\ opt_ok digits_ok (portText u)
  /\ Forall (text_ok is_pchar) (pathSegs u)
  /\ opt_ok (text_ok is_qf_char) (query u)
  /\ opt_ok (text_ok is_qf_char) (fragment u)
  /\ auth_ok u.

Lemma produced_wf_split u : produced_wf u <-> chars_part u /\ path_unambiguous u.
Proof. unfold produced_wf, chars_part. tauto. Qed.

Ltac fields := cbn [scheme userInfo hostText ip4 ip6 ipFuture portText pathSegs query fragment absolutePath owner].

(* the host fields after the HOST step (or without it): IPv4 and IPv6 hosts untouched, an IPvFuture text
   lower-cased in both fields, a registered name re-encoded and lower-cased; absolutePath untouched *)
Lemma host_ok_fields (b : bool) u sc ui po ps q f ow : host_ok u ->
  host_ok (mkUri sc ui (if b then norm_host_text u else hostText u) (ip4 u) (ip6 u)
                 (if b then omap lowercase (ipFuture u) else ipFuture u) po ps q f (absolutePath u) ow).
Proof.
  destruct b; [|intros H; exact H].
  unfold host_ok, norm_host_text. fields.
  destruct (hostText u) as [h|], (ip4 u) as [o|], (ip6 u) as [b6|], (ipFuture u) as [fu|];
    cbn [omap]; try tauto;
    try (intros [? [? ?]]; discriminate).
  - intros [Ha [E M]]. subst fu. split; [exact Ha|]. split; [reflexivity|apply lowercase_ipfuture; exact M].
  - intros [Ha Ht]. split; [exact Ha|]. apply lep_text_ok. apply fix_pct_text_ok; [exact regname_closed|exact Ht].
Qed.

(* under [host_ok] the host text is present after normalization iff it was before *)
Lemma host_some (b : bool) u : host_ok u ->
  is_some (if b then norm_host_text u else hostText u) = is_some (hostText u)
  /\ is_host_set u = is_some (hostText u).
Proof.
  unfold host_ok, norm_host_text, is_host_set.
  destruct b, (hostText u) as [h|], (ip4 u) as [o|], (ip6 u) as [b6|], (ipFuture u) as [fu|];
    cbn [is_some orb]; try tauto; intros [? [? ?]]; discriminate.
Qed.

Theorem normalize_keeps_chars mask u : chars_part u -> chars_part (normalize mask u).
Proof.
  destruct (N.eq_dec mask 0) as [E|E]; [subst mask; rewrite normalize_zero; tauto|].
  intros [Hs [Hui [Hh [Hpo [Hps [Hq [Hf Hau]]]]]]].
  rewrite (normalize_fields mask u E). unfold chars_part. fields.
  split; [|split; [|split; [|split; [|split; [|split; [|split]]]]]].
  - destruct (bit mask M_SCHEME), (scheme u); cbn [omap opt_ok] in *; auto. apply lowercase_scheme_ok. exact Hs.
  - apply omap_fix_pct_ok; [exact userinfo_closed|exact Hui].
  - apply host_ok_fields. exact Hh.
  - exact Hpo.
  - destruct (bit mask M_PATH); [apply norm_segs_of_ok|]; exact Hps.
  - apply omap_fix_pct_ok; [exact qf_closed|exact Hq].
  - apply omap_fix_pct_ok; [exact qf_closed|exact Hf].
  - unfold auth_ok in *. fields.
    destruct (host_some (bit mask M_HOST) u Hh) as [Hsome _].
    destruct (if bit mask M_HOST then norm_host_text u else hostText u); [exact I|].
    destruct (hostText u); [discriminate|]. destruct Hau as [H1 H2]. rewrite H1, H2.
    destruct (bit mask M_USER_INFO); auto.
Qed.

(* ================================================================== F. N2, N4: the path stays unambiguous *)
Lemma pchar_noslash s : text_ok is_pchar s -> ~ In 47 s.
Proof.
  intros [H _] Hin. rewrite forallb_forall in H. specialize (H 47 Hin). vm_compute in H. discriminate.
Qed.

Lemma segs_noslash l : Forall (text_ok is_pchar) l -> Forall (fun s => ~ In 47 s) l.
Proof. intros H. eapply Forall_impl; [|exact H]. exact pchar_noslash. Qed.

Lemma span_until_noslash s : forall rest, ~ In 47 s -> rest = [] \/ head_is 47 rest = true ->
  fst (span_until [47] (s ++ rest)) = s.
Proof.
  induction s as [|c s IH]; intros rest Hs Hr.
  - cbn [app]. destruct rest as [|x r]; [reflexivity|]. destruct Hr as [Hr|Hr]; [discriminate|].
    cbn [head_is] in Hr. cbn [span_until mem]. rewrite Hr. reflexivity.
  - cbn [app span_until mem]. assert (c =? 47 = false) as Ec.
    { apply N.eqb_neq. intros E. apply Hs. left. exact E. }
    rewrite Ec. cbn [orb]. specialize (IH rest (fun H => Hs (or_intror H)) Hr).
    destruct (span_until [47] (s ++ rest)) as [a b]. cbn [fst] in *. rewrite IH. reflexivity.
Qed.

Lemma join_first s r : ~ In 47 s -> fst (span_until [47] (join_slash (s :: r))) = s.
Proof.
  intros Hs. destruct r as [|s2 r].
  - cbn [join_slash]. rewrite <- (app_nil_r s) at 1. apply span_until_noslash; auto.
  - change (join_slash (s :: s2 :: r)) with (s ++ [47] ++ join_slash (s2 :: r)).
    apply span_until_noslash; [exact Hs|right; reflexivity].
Qed.

(* the first segment of a host-less path text, as far as ':' goes *)
Lemma first_colon_text (abs : bool) segs : Forall (fun s => ~ In 47 s) segs ->
  has_colon (fst (span_until [47] ((if abs then [47] else []) ++ join_slash segs)))
  = negb abs && match segs with s :: _ => has_colon s | [] => false end.
Proof.
  intros H. destruct abs; [reflexivity|]. cbn [app negb andb].
  destruct segs as [|s r]; [reflexivity|]. inversion H as [|? ? Hs _]; subst.
  rewrite (join_first s r Hs). reflexivity.
Qed.

Lemma path_text_hostless v : hostText v = None ->
  path_text v = (if absolutePath v then [47] else []) ++ join_slash (pathSegs v).
Proof. intros H. unfold path_text. rewrite H. cbn [is_some andb]. rewrite orb_false_r. reflexivity. Qed.

(* [path_unambiguous] says exactly that the object has neither of the two run-time shapes *)
Lemma unambiguous_iff_rt v : Forall (fun s => ~ In 47 s) (pathSegs v) ->
  (path_unambiguous v <-> rt_colon v = false /\ rt_dslash v = false).
Proof.
  intros Hns. unfold path_unambiguous, rt_colon, rt_dslash.
  destruct (hostText v) as [h|] eqn:Eh; [cbn [is_some negb andb]; tauto|].
  cbn [is_some negb andb]. rewrite (path_text_hostless v Eh).
  pose proof (first_colon_text (absolutePath v) (pathSegs v) Hns) as Hc.
  set (t := (if absolutePath v then [47] else []) ++ join_slash (pathSegs v)) in *.
  rewrite <- has_colon_false, Hc.
  destruct (scheme v); cbn [is_some negb andb].
  - split; [intros [H _]; auto|intros [_ H]; split; [exact H|discriminate]].
  - split; [intros [H1 H2]; auto|intros [H1 H2]; auto].
Qed.

Lemma bit_zero i : bit 0 i = false.
Proof. unfold bit. apply N.bits_0. Qed.

(* N4.  The carve-outs, stated on the input, are exactly the run-time shapes of the result *)
Theorem exposes_colon_is_rt_colon mask u : produced_wf u ->
  exposes_colon mask u = rt_colon (normalize mask u).
Proof.
  intros Hwf. apply produced_wf_split in Hwf. destruct Hwf as [Hc Hu].
  pose proof Hc as [_ [_ [Hh [_ [Hps _]]]]].
  apply (unambiguous_iff_rt u (segs_noslash _ Hps)) in Hu. destruct Hu as [Hu _].
  unfold exposes_colon.
  destruct (N.eq_dec mask 0) as [E|E]; [subst mask; rewrite normalize_zero, bit_zero, Hu; reflexivity|].
  rewrite (normalize_fields mask u E). unfold rt_colon in *. fields.
  destruct (host_some (bit mask M_HOST) u Hh) as [E1 E2]. rewrite E1, is_some_omap_if.
  unfold relative_ref. rewrite E2.
  destruct (bit mask M_PATH); cbn [andb].
  - destruct (is_some (hostText u)), (is_some (scheme u)), (absolutePath u); reflexivity.
  - symmetry. exact Hu.
Qed.

(* ---- the "//" shape on segment lists: the first segment is empty and, with a leading "/", another
   segment follows; without, the second is empty too and a third follows *)
Definition seg_empty (s : text) : bool := match s with [] => true | _ => false end.
Definition dslash_shape (abs : bool) (e : list bool) : bool :=
  match e with
  | true :: r => if abs then negb (match r with [] => true | _ => false end)
                 else match r with true :: _ :: _ => true | _ => false end
  | _ => false
  end.

Lemma dslash_text_shape abs segs : Forall (fun s => ~ In 47 s) segs ->
  dslash_text abs segs = dslash_shape abs (map seg_empty segs).
Proof.
  assert (forall c s, ~ In 47 (c :: s) -> c =? 47 = false) as Hne.
  { intros c s H. apply N.eqb_neq. intros E. apply H. left. exact E. }
  intros H. unfold dslash_text. cbv zeta.
  destruct segs as [|s r]; [destruct abs; reflexivity|].
  inversion H as [|? ? Hs Hr]; subst.
  destruct s as [|c s].
  - destruct r as [|s2 r2]; [destruct abs; reflexivity|].
    change (join_slash ([] :: s2 :: r2)) with (47 :: join_slash (s2 :: r2)).
    destruct abs; [reflexivity|]. cbn [app head_is tl map seg_empty dslash_shape]. rewrite N.eqb_refl. cbn [andb].
    inversion Hr as [|? ? Hs2 _]; subst.
    destruct s2 as [|c2 s2].
    + destruct r2 as [|s3 r3]; reflexivity.
    + cbn [seg_empty]. destruct r2 as [|s3 r3]; cbn [join_slash app head_is]; apply (Hne _ _ Hs2).
  - cbn [map seg_empty dslash_shape].
    assert (exists y, join_slash ((c :: s) :: r) = c :: y) as [y Ey].
    { destruct r as [|s2 r2]; [exists s; reflexivity|]. eexists. reflexivity. }
    rewrite Ey. destruct abs; cbn [app head_is tl]; rewrite (Hne _ _ Hs); [apply andb_false_r|reflexivity].
Qed.

(* the repair of D14 on segments: whatever the walk leaves, after uriFixAmbiguity and uriFixEmptyTrailSegment a
   host-less path is not of the "//" shape *)
Lemma guard_no_dslash_shape abs out :
  dslash_shape abs (map seg_empty (fet_segs false (guard_segs false abs out))) = false.
Proof. destruct abs, out as [|[|c x] [|[|d y] [|z r]]]; reflexivity. Qed.

Theorem norm_segs_no_dslash_shape u : is_host_set u = false ->
  dslash_shape (absolutePath u) (map seg_empty (norm_segs u)) = false.
Proof. intros Hh. unfold norm_segs. rewrite norm_segs_of_steps, Hh. apply guard_no_dslash_shape. Qed.

(* N4, second half.  The run-time shape of the repaired finding D14 cannot be produced by normalization *)
Theorem normalize_no_dslash mask u : produced_wf u -> rt_dslash (normalize mask u) = false.
Proof.
  intros Hwf. pose proof Hwf as Hwf0. apply produced_wf_split in Hwf. destruct Hwf as [Hc Hu].
  pose proof Hc as [_ [_ [Hh [_ [Hps _]]]]].
  apply (unambiguous_iff_rt u (segs_noslash _ Hps)) in Hu. destruct Hu as [_ Hu].
  destruct (N.eq_dec mask 0) as [E|E]; [subst mask; rewrite normalize_zero; exact Hu|].
  rewrite (normalize_fields mask u E). unfold rt_dslash, path_text in *. fields.
  destruct (host_some (bit mask M_HOST) u Hh) as [E1 E2]. rewrite E1.
  destruct (is_some (hostText u)) eqn:Eh; cbn [negb andb]; [reflexivity|].
  rewrite orb_false_r in *. destruct (bit mask M_PATH); [|exact Hu].
  change (dslash_text (absolutePath u) (norm_segs u) = false).
  rewrite dslash_text_shape by (apply segs_noslash; apply norm_segs_of_ok; exact Hps).
  apply norm_segs_no_dslash_shape. rewrite E2. reflexivity.
Qed.

(* N2.  After normalization the path is unambiguous iff the carve-out does not apply *)
Theorem normalize_keeps_unambiguous mask u : produced_wf u ->
  (path_unambiguous (normalize mask u) <-> exposes_colon mask u = false).
Proof.
  intros Hwf. rewrite (exposes_colon_is_rt_colon mask u Hwf).
  pose proof (normalize_no_dslash mask u Hwf) as Hd.
  assert (Forall (fun s => ~ In 47 s) (pathSegs (normalize mask u))) as Hns.
  { apply segs_noslash. apply produced_wf_split in Hwf. destruct Hwf as [Hc _].
    pose proof (normalize_keeps_chars mask u Hc) as [_ [_ [_ [_ [Hps _]]]]]. exact Hps. }
  rewrite (unambiguous_iff_rt _ Hns). tauto.
Qed.

(* when the carve-out does not apply *)
Lemma exposes_none_path_clear mask u : bit mask M_PATH = false -> exposes_colon mask u = false.
Proof. intros H. unfold exposes_colon. rewrite H. reflexivity. Qed.

Lemma exposes_none_mask_zero u : exposes_colon 0 u = false.
Proof. apply exposes_none_path_clear. apply bit_zero. Qed.

Lemma exposes_none_host mask u : is_host_set u = true -> exposes_colon mask u = false.
Proof.
  intros H. unfold exposes_colon, relative_ref. rewrite H. cbn [negb].
  rewrite !andb_false_r. reflexivity.
Qed.

Lemma exposes_colon_none_scheme mask u : is_some (scheme u) = true -> exposes_colon mask u = false.
Proof. intros H. unfold exposes_colon, relative_ref. rewrite H. cbn [negb andb]. rewrite andb_false_r. reflexivity. Qed.

Lemma exposes_colon_none_absolute mask u : absolutePath u = true -> exposes_colon mask u = false.
Proof.
  intros H. unfold exposes_colon, relative_ref. rewrite H. cbn [negb andb]. rewrite !andb_false_r. reflexivity.
Qed.

(* ---- a path without dot segments (after the percent-encodings are fixed) is only re-encoded *)
Lemma letter_not_colon v : hex_to_letter v =? 58 = false.
Proof. arith. Qed.
Lemma unreserved_not_colon v : is_unreserved_code v = true -> v =? 58 = false.
Proof. arith. Qed.
Lemma hexdig_not_colon a : is_hexdig a = true -> a =? 58 = false.
Proof. arith. Qed.

Lemma fix_pct_has_colon t : pct_wf t = true -> has_colon (fix_pct t) = has_colon t.
Proof.
  intros Hwf. unfold has_colon. wf_induction t Hwf; [reflexivity| |].
  - rewrite fix_pct_other by exact Hc. cbn [existsb]. rewrite IH. reflexivity.
  - rewrite fix_pct_triplet. cbn [existsb]. rewrite (hexdig_not_colon _ Ha), (hexdig_not_colon _ Hb).
    destruct (is_unreserved_code _) eqn:E; cbn [existsb].
    + rewrite (unreserved_not_colon _ E), IH. reflexivity.
    + rewrite !letter_not_colon, IH. reflexivity.
Qed.

Lemma fix_pct_empty t : seg_empty (fix_pct t) = seg_empty t.
Proof.
  destruct t as [|c r]; [reflexivity|]. cbn [seg_empty].
  destruct (fix_pct (c :: r)) eqn:E; [|reflexivity].
  destruct r as [|a [|b r2]]; try discriminate E.
  cbn [fix_pct] in E. destruct (c =? 37); [destruct (is_unreserved_code _)|]; discriminate E.
Qed.

Definition no_dot_segs (l : list text) : bool := forallb (fun s => negb (seg_dot s) && negb (seg_dotdot s)) l.

Lemma norm_segs_no_dots u : no_dot_segs (map fix_pct (pathSegs u)) = true ->
  norm_segs u = fet_segs (is_host_set u) (guard_segs (is_host_set u) (absolutePath u) (map fix_pct (pathSegs u))).
Proof.
  intros H. unfold norm_segs. rewrite norm_segs_of_steps. unfold walk0.
  assert (match map fix_pct (pathSegs u) with
          | [] => []
          | _ => rds_walk (relative_ref u) (is_host_set u) (absolutePath u) [] (map fix_pct (pathSegs u))
          end = map fix_pct (pathSegs u)) as Hw.
  { destruct (map fix_pct (pathSegs u)) as [|s0 sl] eqn:E; [reflexivity|]. rewrite rds_walk_no_dots; [reflexivity|].
    unfold no_dot_segs in H. rewrite forallb_forall in H. apply Forall_forall. intros x Hx. specialize (H x Hx).
    apply andb_true_iff in H. destruct H as [H1 H2]. apply negb_true_iff in H1, H2. auto. }
  rewrite Hw. reflexivity.
Qed.

Theorem exposes_none_no_dots mask u : produced_wf u ->
  no_dot_segs (map fix_pct (pathSegs u)) = true -> exposes_colon mask u = false.
Proof.
  intros Hwf Hnd.
  apply produced_wf_split in Hwf. destruct Hwf as [Hc Hu].
  pose proof Hc as [_ [_ [Hh [_ [Hps _]]]]].
  apply (unambiguous_iff_rt u (segs_noslash _ Hps)) in Hu. destruct Hu as [Hu1 _].
  destruct (host_some false u Hh) as [_ E2].
  unfold exposes_colon. destruct (relative_ref u) eqn:Erel; [|rewrite andb_false_r; reflexivity].
  unfold relative_ref in Erel. apply andb_prop in Erel. destruct Erel as [Erel Eh]. apply andb_prop in Erel.
  destruct Erel as [Es Ea]. apply negb_true_iff in Es, Ea, Eh.
  unfold rt_colon in Hu1. rewrite <- E2, Eh, Es, Ea in Hu1. cbn [negb andb] in Hu1.
  rewrite (norm_segs_no_dots u Hnd), Eh, Ea.
  destruct (pathSegs u) as [|s r] eqn:Ep; [apply andb_false_r|].
  inversion Hps as [|? ? [_ Hs] _]; subst.
  assert (match fet_segs false (guard_segs false false (map fix_pct (s :: r))) with
          | x :: _ => has_colon x | [] => false end = false) as Q.
  { cbn [map]. destruct (fix_pct s) as [|c0 s0] eqn:Es0.
    - destruct (map fix_pct r) as [|[|c1 s1] r1]; reflexivity.
    - assert (has_colon (c0 :: s0) = false) as Hc0 by (rewrite <- Es0, fix_pct_has_colon by exact Hs; exact Hu1).
      destruct (map fix_pct r) as [|x1 r1]; exact Hc0. }
  rewrite Q. apply andb_false_r.
Qed.

(* ================================================================== G. N3 *)
Theorem normalize_produced_wf_iff mask u : produced_wf u ->
  (produced_wf (normalize mask u) <-> exposes_colon mask u = false).
Proof.
  intros Hwf. rewrite <- (normalize_keeps_unambiguous mask u Hwf), produced_wf_split.
  apply produced_wf_split in Hwf. destruct Hwf as [Hc _].
  pose proof (normalize_keeps_chars mask u Hc). tauto.
Qed.

Theorem normalize_produced_wf mask u : produced_wf u ->
  exposes_colon mask u = false -> produced_wf (normalize mask u).
Proof. intros Hwf H1. apply (normalize_produced_wf_iff mask u Hwf). exact H1. Qed.

(* uriMakeOwner changes who owns the memory, nothing else *)
Theorem make_owner_produced_wf u : produced_wf u -> produced_wf (make_owner u).
Proof. destruct u. intros H. exact H. Qed.

(* The carve-out is needed: an object satisfying [produced_wf] whose normalization (PATH bit alone, or all
   bits) does not satisfy [produced_wf]. *)
Definition wit_colon : uri :=                        (* a/../b:c *)
  mkUri None None None None None None None [[97]; [46; 46]; [98; 58; 99]] None None false false.
(* the witnesses of the repaired finding D14 *)
Definition wit_dslash : uri :=                       (* /..//. *)
  mkUri None None None None None None None [[46; 46]; []; [46]] None None true false.
Definition wit_dslash_scheme : uri :=                (* s:/..//. *)
  mkUri (Some [115]) None None None None None None [[46; 46]; []; [46]] None None true false.
Definition wit_dslash_rel : uri :=                   (* a/..///b *)
  mkUri None None None None None None None [[97]; [46; 46]; []; []; [98]] None None false false.

Lemma not_wf_by_compute v : produced_wfb_n v = false -> ~ produced_wf v.
Proof. intros H Hwf. apply produced_wfb_n_iff in Hwf. congruence. Qed.

Theorem exposes_colon_refuted :
  produced_wf wit_colon
  /\ exposes_colon 8 wit_colon = true
  /\ pathSegs (normalize 8 wit_colon) = [[98; 58; 99]]
  /\ ~ produced_wf (normalize 8 wit_colon) /\ ~ produced_wf (normalize 63 wit_colon).
Proof.
  split; [apply produced_wfb_n_sound; vm_compute; reflexivity|].
  repeat split; try (vm_compute; reflexivity); apply not_wf_by_compute; vm_compute; reflexivity.
Qed.

(* was exposes_dslash_refuted (D14): "/..//." gave "//", "s:/..//." gave "s://", "a/..///b" gave "//b", none of
   them [produced_wf].  Now they give "/.//", "s:/.//", ".///b": the guard segment is in place, the path
   text does not begin with "//", and the results are [produced_wf] *)
Theorem dslash_guarded :
  forall w, In w [wit_dslash; wit_dslash_scheme; wit_dslash_rel] ->
  produced_wf w /\ exposes_colon 8 w = false /\ exposes_colon 63 w = false
  /\ match pathSegs (normalize 8 w) with [46] :: [] :: _ => True | _ => False end
  /\ head_is 47 (path_text (normalize 8 w)) && head_is 47 (tl (path_text (normalize 8 w))) = false
  /\ produced_wf (normalize 8 w) /\ produced_wf (normalize 63 w).
Proof.
  intros w [E|[E|[E|[]]]]; subst w;
    (split; [apply produced_wfb_n_sound; vm_compute; reflexivity|]);
    (split; [vm_compute; reflexivity|]); (split; [vm_compute; reflexivity|]);
    (split; [vm_compute; exact I|]); (split; [vm_compute; reflexivity|]);
    split; apply produced_wfb_n_sound; vm_compute; reflexivity.
Qed.

Lemma wit_dslash_text :
  path_text (normalize 8 wit_dslash) = [47; 46; 47; 47] /\ path_text (normalize 8 wit_dslash_scheme) = [47; 46; 47; 47]
  /\ path_text (normalize 8 wit_dslash_rel) = [46; 47; 47; 47; 98].
Proof. vm_compute. repeat split. Qed.
