(* C12 / C19 on the memory-tier model (Model/Mem.v, Model/ParseM.v, Model/OpsM.v).

   Part 0  vocabulary used by the statements of Props/C12.v and Props/C19.v
   Part 1  the ledger without faults
   Part 2  erasure of the parser: parse_m and parse agree
   Part 3  make-owner and normalisation: erasure, ownership, fresh and distinct blocks
   Part 4  size discipline: allocation requests are counted in characters
   Part 5  erasure of reference resolution and reference creation
   Part 6  the statements used by Props/C12.v and Props/C19.v *)
From Coq Require Import List NArith Bool Lia Arith ZifyBool ZifyN.
From UP Require Import Base.Chars Base.Atoms Model.Uri Model.Ip4 Model.Parse Model.Common Model.Compare
  Model.Resolve Model.Shorten Model.Normalize Model.Recompose Model.Mem Model.ParseM Model.OpsM.
Import ListNotations.

(* ================================================================ Part 0: vocabulary *)
(* a text needs no block when it is absent or empty; otherwise it is owned iff it is a heap block *)
Definition text_owned (t : mtext) : bool :=
  match t_val t with Some (_ :: _) => is_some (t_blk t) | _ => true end.
Definition seg_owned (sg : mseg) : bool :=
  match sg_text sg with _ :: _ => is_some (sg_blk sg) | [] => true end.
(* hostText of an IPvFuture host shares the range of ipFuture; the block is recorded there *)
Definition host_owned (m : muri) : bool :=
  match t_val (m_ipFuture m) with
  | Some _ => text_owned (m_ipFuture m)
  | None => text_owned (m_hostText m)
  end.
Definition all_owned (m : muri) : bool :=
  text_owned (m_scheme m) && text_owned (m_userInfo m) && host_owned m && text_owned (m_portText m)
  && forallb seg_owned (m_segs m) && text_owned (m_query m) && text_owned (m_fragment m).
(* some present non-empty text still points into the caller's string *)
Definition depends_on_input (m : muri) : bool := negb (all_owned m).

(* the heap blocks holding text (not the list nodes, not the address blocks).  A block recorded for
   an absent or empty text is never looked at by the C code (first == afterLast) and is not counted. *)
Definition text_blk (t : mtext) : list nat :=
  match t_val t with Some (_ :: _) => blk_list (t_blk t) | _ => [] end.
Definition seg_blk (sg : mseg) : list nat :=
  match sg_text sg with _ :: _ => blk_list (sg_blk sg) | [] => [] end.
Definition block_parts (m : muri) : list (list nat) :=
  [ text_blk (m_scheme m); text_blk (m_userInfo m); text_blk (m_hostText m); text_blk (m_ipFuture m);
    text_blk (m_portText m); flat_map seg_blk (m_segs m); text_blk (m_query m); text_blk (m_fragment m) ].
Definition text_blocks (m : muri) : list nat := concat (block_parts m).

(* well-formed memory-tier objects:
   - hostText and ipFuture are the same range when ipFuture is set;
   - the text blocks are pairwise distinct;
   - an owned object owns all its text; a borrowed object owns none. *)
Definition mwf_host (m : muri) : Prop :=
  forall x, t_val (m_ipFuture m) = Some x -> t_val (m_hostText m) = Some x.
Definition mwf (m : muri) : Prop :=
  mwf_host m /\ NoDup (text_blocks m)
  /\ (m_owner m = true -> all_owned m = true)
  /\ (m_owner m = false -> text_blocks m = []).

(* the events an operation added to the trace (oldest first) *)
Definition new_events (s s' : mstate) : list event :=
  skipn (length (ms_trace s)) (trace_of s').

(* an allocation request counted in characters, independent of the character type *)
Inductive areq := RText (chars : nat) | RNode (calloc : bool) | RIp4 | RIp6.
Definition req_event (csize : N) (r : areq) : event :=
  match r with
  | RText n => EvMalloc (N.of_nat n * csize)%N true
  | RNode true => EvCalloc SEG_SIZE true
  | RNode false => EvMalloc SEG_SIZE true
  | RIp4 => EvMalloc IP4_SIZE true
  | RIp6 => EvMalloc IP6_SIZE true
  end.
Definition is_alloc_event (e : event) : bool :=
  match e with EvMalloc _ _ | EvCalloc _ _ => true | _ => false end.

(* ================================================================ Part 1: the ledger without faults *)
Definition nofault (s : mstate) : Prop := ms_plan s = NoFault.

(* same plan, block ids only grow *)
Definition st_le (s s' : mstate) : Prop := ms_plan s' = ms_plan s /\ ms_next s <= ms_next s'.

Lemma st_le_refl s : st_le s s.
Proof. split; [reflexivity|lia]. Qed.
Lemma st_le_trans s1 s2 s3 : st_le s1 s2 -> st_le s2 s3 -> st_le s1 s3.
Proof. intros [A1 A2] [B1 B2]. split; [congruence|lia]. Qed.
Lemma st_le_nofault s s' : st_le s s' -> nofault s -> nofault s'.
Proof. intros [A _] H. unfold nofault in *. congruence. Qed.

Definition push_alloc (calloc : bool) (size : N) (s : mstate) : mstate :=
  {| ms_next := S (ms_next s); ms_live := (ms_next s, size) :: ms_live s; ms_requests := S (ms_requests s);
     ms_plan := ms_plan s;
     ms_trace := (if calloc then EvCalloc size true else EvMalloc size true) :: ms_trace s |}.

Lemma alloc_nf c sz s : nofault s -> alloc c sz s = (Some (ms_next s), push_alloc c sz s).
Proof. intros H. unfold alloc, push_alloc. unfold nofault in H. rewrite H. reflexivity. Qed.

Lemma push_alloc_le c sz s : st_le s (push_alloc c sz s).
Proof. split; cbn; [reflexivity|lia]. Qed.
Lemma push_alloc_next c sz s : ms_next (push_alloc c sz s) = S (ms_next s).
Proof. reflexivity. Qed.

Lemma free_blk_le b s : st_le s (free_blk b s).
Proof. unfold free_blk. destruct (remove_blk b (ms_live s)) as [[sz l]|]; split; cbn; (reflexivity || lia). Qed.
Lemma free_blk_next b s : ms_next (free_blk b s) = ms_next s.
Proof. unfold free_blk. destruct (remove_blk b (ms_live s)) as [[sz l]|]; reflexivity. Qed.
Lemma free_opt_le o s : st_le s (free_opt o s).
Proof. destruct o; [apply free_blk_le|apply st_le_refl]. Qed.
Lemma bad_free_le s : st_le s (bad_free s).
Proof. split; cbn; [reflexivity|lia]. Qed.

Lemma fold_free_le {A} (f : mstate -> A -> mstate) (l : list A) :
  (forall s x, st_le s (f s x)) -> forall s, st_le s (fold_left f l s).
Proof.
  intros Hf. induction l as [|x r IH]; intros s; cbn [fold_left]; [apply st_le_refl|].
  eapply st_le_trans; [apply Hf|apply IH].
Qed.

(* ================================================================ Part 2: erasure of the parser *)
(* What is known in a control state: [needs6 c] -- the IPv6 block has been allocated;
   [posthost c] -- the host may already have been stored (so no host action may follow). *)
Definition needs6 (c : ctrl) : bool :=
  match c with CV6 _ _ _ _ _ | CV6Colon _ _ | CV6CC _ => true | _ => false end.
Definition posthost (c : ctrl) : bool :=
  match c with
  | CAuth2 | CPort | CPathStart | CSeg KAuth | CTail | CTail2 | CQF _ => true
  | CPct1 (RSeg KAuth) | CPct2 (RSeg KAuth) | CPct1 (RQF _) | CPct2 (RQF _) => true
  | _ => false
  end.

(* abstract flags: (the IPv6 block is held, ipFuture may be set) *)
Definition act_ok (st : bool * bool) (a : action) : bool :=
  match a with
  | AHostIp6 => fst st && negb (snd st)
  | AHostEmptySafe | AHostReg | AHostEmptyAtEnd | AHostPort | AHostFuture => negb (snd st)
  | _ => true
  end.
Definition act_next (st : bool * bool) (a : action) : bool * bool :=
  match a with
  | AAllocIp6 => (true, snd st)
  | AHostFuture => (fst st, true)
  | _ => st
  end.
Fixpoint acts_ok (st : bool * bool) (acts : list action) : bool :=
  match acts with [] => true | a :: r => act_ok st a && acts_ok (act_next st a) r end.
Definition acts_next (st : bool * bool) (acts : list action) : bool * bool := fold_left act_next acts st.

Definition abs_of (c : ctrl) : bool * bool := (needs6 c, posthost c).
Definition abs_le (x y : bool * bool) : bool := implb (fst y) (fst x) && implb (snd x) (snd y).
(* x is at least as informative as y: holds the block if y says so, future set only if y allows *)

Definition step_ok (c : ctrl) (a : atom) : bool :=
  let '(acts, nx) := ptrans c a in
  acts_ok (abs_of c) acts
  && match nx with Go c' => abs_le (acts_next (abs_of c) acts) (abs_of c') | Stop _ => true end.
Definition finish_ok (c : ctrl) : bool := acts_ok (abs_of c) (fst (pfinish c)).

Lemma step_ok_all c a : step_ok c a = true.
Proof.
  destruct c as [| | | | | | | | | | | | | | | | | |z q l o i4|z q|q| |k| | |k|r|r];
    try (destruct a; vm_compute; reflexivity);
    try (destruct k; destruct a; vm_compute; reflexivity);
    try (destruct r as [|k| | | |k]; try destruct k; destruct a; vm_compute; reflexivity).
  - (* CV6 *)
    unfold step_ok, ptrans, t_v6, t_v6hex, t_v6ip4.
    destruct a; cbn [a_hexdig a_digit];
      repeat match goal with
             | |- context [if ?b then _ else _] => destruct b
             | |- context [match oct_over ?o with _ => _ end] => destruct (oct_over o)
             end; reflexivity.
  - unfold step_ok, ptrans, t_v6colon, t_v6hex.
    destruct a; cbn [a_hexdig a_digit];
      repeat match goal with
             | |- context [if ?b then _ else _] => destruct b
             | |- context [match oct_over ?o with _ => _ end] => destruct (oct_over o)
             end; reflexivity.
  - unfold step_ok, ptrans, t_v6cc, t_v6hex.
    destruct a; cbn [a_hexdig a_digit];
      repeat match goal with
             | |- context [if ?b then _ else _] => destruct b
             | |- context [match oct_over ?o with _ => _ end] => destruct (oct_over o)
             end; reflexivity.
Qed.

Lemma finish_ok_all c : finish_ok c = true.
Proof.
  destruct c as [| | | | | | | | | | | | | | | | | |z q l o i4|z q|q| |k| | |k|r|r];
    try reflexivity; try (destruct k; reflexivity).
Qed.

Definition pinv (d : pdata) (b : pblocks) : Prop :=
  let u := p_uri d in
  length (pb_nodes b) = length (pathSegs u)
  /\ (is_some (ip4 u) = true -> is_some (pb_ip4 b) = true)
  /\ (is_some (ip6 u) = true -> is_some (pb_ip6 b) = true)
  /\ owner u = false
  /\ (forall x, ipFuture u = Some x -> hostText u = Some x).
Definition cst (d : pdata) (b : pblocks) : bool * bool :=
  (is_some (pb_ip6 b), is_some (ipFuture (p_uri d))).

Ltac uri_cbn :=
  cbn [exec with_uri p_uri p_pend p_pend2 p_saved pb_nodes pb_ip4 pb_ip6
       scheme userInfo hostText ip4 ip6 ipFuture portText pathSegs query fragment absolutePath owner
       set_scheme set_userInfo set_hostText set_ip4 set_ip6 set_ipFuture set_portText set_pathSegs
       set_query set_fragment set_absolutePath set_owner fst snd is_some] in *.

Lemma exec_m_nf ch d b a s :
  nofault s -> pinv d b -> act_ok (cst d b) a = true ->
  exists b' s', exec_m ch d b a s = (Some (exec ch d a, b'), s')
    /\ pinv (exec ch d a) b' /\ st_le s s' /\ cst (exec ch d a) b' = act_next (cst d b) a.
Proof.
  intros Hnf (I1 & I2 & I3 & I4 & I5) Hok. unfold cst in *.
  destruct a; unfold exec_m; try rewrite (alloc_nf _ _ _ Hnf);
    try (eexists; eexists; split; [reflexivity|]; split; [|split; [apply st_le_refl || apply push_alloc_le|reflexivity]];
         unfold pinv; uri_cbn; repeat split; try assumption;
         try (rewrite !app_length; cbn [length]; lia); fail).
  - (* AHostEmptySafe *)
    eexists; eexists; split; [reflexivity|]. split; [|split; [apply st_le_refl|reflexivity]].
    unfold pinv; uri_cbn. repeat split; try assumption.
    intros x Hx. destruct (ipFuture (p_uri d)); [discriminate Hok|discriminate Hx].
  - (* AHostReg *)
    destruct (ip4 (p_uri (exec ch d AHostReg))) eqn:E4.
    + eexists; eexists; split; [reflexivity|]. split; [|split; [apply push_alloc_le|reflexivity]].
      unfold pinv; uri_cbn. repeat split; try assumption.
      intros x Hx. destruct (ipFuture (p_uri d)); [discriminate Hok|discriminate Hx].
    + eexists; eexists; split; [reflexivity|].
      split; [|split; [eapply st_le_trans; [apply push_alloc_le|apply free_blk_le]|reflexivity]].
      unfold pinv; uri_cbn. rewrite E4. repeat split; try assumption; try discriminate.
      intros x Hx. destruct (ipFuture (p_uri d)); [discriminate Hok|discriminate Hx].
  - (* AHostEmptyAtEnd *)
    eexists; eexists; split; [reflexivity|]. split; [|split; [apply st_le_refl|reflexivity]].
    unfold pinv; uri_cbn. repeat split; try assumption.
    intros x Hx. destruct (ipFuture (p_uri d)); [discriminate Hok|discriminate Hx].
  - (* AHostPort *)
    destruct (ip4 (p_uri (exec ch d AHostPort))) eqn:E4.
    + eexists; eexists; split; [reflexivity|]. split; [|split; [apply push_alloc_le|reflexivity]].
      unfold pinv; uri_cbn. repeat split; try assumption.
      intros x Hx. destruct (ipFuture (p_uri d)); [discriminate Hok|discriminate Hx].
    + eexists; eexists; split; [reflexivity|].
      split; [|split; [eapply st_le_trans; [apply push_alloc_le|apply free_blk_le]|reflexivity]].
      unfold pinv; uri_cbn. rewrite E4. repeat split; try assumption; try discriminate.
      intros x Hx. destruct (ipFuture (p_uri d)); [discriminate Hok|discriminate Hx].
  - (* AHostIp6 *)
    eexists; eexists; split; [reflexivity|]. split; [|split; [apply st_le_refl|reflexivity]].
    unfold pinv; uri_cbn. apply andb_prop in Hok. destruct Hok as [H6 Hf].
    repeat split; try assumption; try (intros _; exact H6).
    intros x Hx. destruct (ipFuture (p_uri d)); [discriminate Hf|discriminate Hx].
  - (* AHostFuture *)
    eexists; eexists; split; [reflexivity|]. split; [|split; [apply st_le_refl|reflexivity]].
    unfold pinv; uri_cbn. repeat split; try assumption. intros x Hx; exact Hx.
  - (* AFixEmptyTrail *)
    uri_cbn. unfold fix_empty_trail.
    destruct (negb (is_host_set (p_uri d))) eqn:Eh.
    + destruct (pathSegs (p_uri d)) as [|x [|y r]] eqn:Ep.
      * eexists; eexists; split; [reflexivity|]. split; [|split; [apply st_le_refl|reflexivity]].
        unfold pinv; uri_cbn. try rewrite Ep. repeat split; assumption.
      * destruct x as [|c x].
        -- uri_cbn. destruct (pb_nodes b) as [|n [|n2 nr]] eqn:En; try discriminate I1.
           eexists; eexists; split; [reflexivity|]. split; [|split; [apply free_blk_le|reflexivity]].
           unfold pinv; uri_cbn. repeat split; assumption.
        -- try rewrite Ep. eexists; eexists; split; [reflexivity|]. split; [|split; [apply st_le_refl|reflexivity]].
           unfold pinv; uri_cbn. try rewrite Ep. repeat split; assumption.
      * assert (pathSegs (p_uri {| p_uri := match x with [] => p_uri d | _ :: _ => p_uri d end;
                                   p_pend := p_pend d; p_pend2 := p_pend2 d; p_saved := p_saved d |})
                = x :: y :: r) as Ep' by (uri_cbn; destruct x; exact Ep).
        destruct x; try rewrite Ep.
        all: eexists; eexists; split; [reflexivity|]; split; [|split; [apply st_le_refl|reflexivity]].
        all: unfold pinv; uri_cbn; try rewrite Ep; repeat split; assumption.
    + destruct (pathSegs (p_uri d)) as [|x r] eqn:Ep.
      * eexists; eexists; split; [reflexivity|]. split; [|split; [apply st_le_refl|reflexivity]].
        unfold pinv; uri_cbn. try rewrite Ep. repeat split; assumption.
      * try rewrite Ep. eexists; eexists; split; [reflexivity|]. split; [|split; [apply st_le_refl|reflexivity]].
        unfold pinv; uri_cbn. try rewrite Ep. repeat split; assumption.
Qed.

Lemma abs_le_refl x : abs_le x x = true.
Proof. destruct x as [[|] [|]]; reflexivity. Qed.

Lemma acts_mono acts : forall x y, abs_le x y = true -> acts_ok y acts = true ->
  acts_ok x acts = true /\ abs_le (acts_next x acts) (acts_next y acts) = true.
Proof.
  induction acts as [|a r IH]; intros x y Hle Hok; [split; [reflexivity|exact Hle]|].
  cbn [acts_ok] in *. unfold acts_next in *. cbn [fold_left].
  apply andb_prop in Hok. destruct Hok as [Ha Hr].
  assert (act_ok x a = true /\ abs_le (act_next x a) (act_next y a) = true) as [Hxa Hn].
  { destruct x as [[|] [|]], y as [[|] [|]]; try discriminate Hle; destruct a; try discriminate Ha; split; reflexivity. }
  destruct (IH _ _ Hn Hr) as [H1 H2]. rewrite Hxa, H1. split; [reflexivity|exact H2].
Qed.

Lemma exec_all_m_nf ch acts : forall d b s,
  nofault s -> pinv d b -> acts_ok (cst d b) acts = true ->
  exists b' s', exec_all_m ch d b acts s = (Some (exec_all ch d acts, b'), b', s')
    /\ pinv (exec_all ch d acts) b' /\ st_le s s' /\ cst (exec_all ch d acts) b' = acts_next (cst d b) acts.
Proof.
  induction acts as [|a r IH]; intros d b s Hnf Hinv Hok.
  - exists b, s. split; [reflexivity|]. split; [exact Hinv|]. split; [apply st_le_refl|reflexivity].
  - cbn [acts_ok] in Hok. apply andb_prop in Hok. destruct Hok as [Ha Hr].
    destruct (exec_m_nf ch d b a s Hnf Hinv Ha) as (b1 & s1 & E1 & I1 & L1 & C1).
    rewrite <- C1 in Hr.
    destruct (IH _ _ s1 (st_le_nofault _ _ L1 Hnf) I1 Hr) as (b2 & s2 & E2 & I2 & L2 & C2).
    exists b2, s2. cbn [exec_all_m]. rewrite E1. unfold exec_all in *. cbn [fold_left].
    rewrite E2. split; [reflexivity|]. split; [exact I2|]. split; [eapply st_le_trans; eassumption|].
    rewrite C2, C1. reflexivity.
Qed.

Lemma abs_le_trans x y z : abs_le x y = true -> abs_le y z = true -> abs_le x z = true.
Proof. destruct x as [[|] [|]], y as [[|] [|]], z as [[|] [|]]; cbn; congruence. Qed.

Lemma free_partial_le b s : st_le s (free_partial b s).
Proof.
  unfold free_partial. eapply st_le_trans; [apply free_opt_le|].
  eapply st_le_trans; [apply free_opt_le|]. apply fold_free_le. intros; apply free_blk_le.
Qed.

Lemma prun_m_nf t : forall c d b i s,
  nofault s -> pinv d b -> abs_le (cst d b) (abs_of c) = true ->
  match prun c d i t with
  | POk u => exists d' b' s', prun_m c d b i t s = (MOk (muri_of u b'), s') /\ u = p_uri d' /\ pinv d' b' /\ st_le s s'
  | PSyntax pos => exists s', prun_m c d b i t s = (MSyntax pos, s') /\ st_le s s'
  end.
Proof.
  induction t as [|ch r IH]; intros c d b i s Hnf Hinv Hle.
  - cbn [prun prun_m]. pose proof (finish_ok_all c) as Hf. unfold finish_ok in Hf.
    destruct (pfinish c) as [acts f]. cbn [fst] in Hf. destruct f.
    + destruct (acts_mono acts _ _ Hle Hf) as [Hok _].
      destruct (exec_all_m_nf 0%N acts d b s Hnf Hinv Hok) as (b' & s' & E & I & L & _).
      rewrite E. exists (exec_all 0%N d acts), b', s'. split; [reflexivity|]. split; [reflexivity|]. split; assumption.
    + exists (free_partial b s). split; [reflexivity|apply free_partial_le].
  - cbn [prun prun_m]. pose proof (step_ok_all c (atom_of ch)) as Hs. unfold step_ok in Hs.
    destruct (ptrans c (atom_of ch)) as [acts nx]. apply andb_prop in Hs. destruct Hs as [Hs1 Hs2].
    destruct (acts_mono acts _ _ Hle Hs1) as [Hok Hn].
    destruct (exec_all_m_nf ch acts d b s Hnf Hinv Hok) as (b' & s' & E & I & L & C).
    rewrite E. destruct nx as [c'|off].
    + assert (abs_le (cst (exec_all ch d acts) b') (abs_of c') = true) as Hle'.
      { rewrite C. eapply abs_le_trans; eassumption. }
      specialize (IH c' (exec_all ch d acts) b' (S i) s' (st_le_nofault _ _ L Hnf) I Hle').
      destruct (prun c' (exec_all ch d acts) (S i) r).
      * destruct IH as (d2 & b2 & s2 & E2 & U2 & I2 & L2). exists d2, b2, s2.
        split; [exact E2|]. split; [exact U2|]. split; [exact I2|apply (st_le_trans _ _ _ L L2)].
      * destruct IH as (s2 & E2 & L2). exists s2. split; [exact E2|apply (st_le_trans _ _ _ L L2)].
    + exists (free_partial b' s'). split; [reflexivity|].
      eapply st_le_trans; [exact L|apply free_partial_le].
Qed.

Lemma zip_segs_text l : forall n, length n = length l -> map sg_text (zip_segs l n) = l.
Proof.
  induction l as [|x r IH]; intros [|k n] H; try discriminate H; [reflexivity|].
  cbn [zip_segs map sg_text]. f_equal. apply IH. cbn in H. lia.
Qed.
Lemma zip_segs_noblk l : forall n, flat_map seg_blk (zip_segs l n) = [].
Proof.
  induction l as [|x r IH]; intros [|k n]; try reflexivity.
  cbn [zip_segs flat_map]. rewrite IH. unfold seg_blk. cbn [sg_text sg_blk]. destruct x; reflexivity.
Qed.

Lemma erase_muri_of d b : pinv d b -> erase (muri_of (p_uri d) b) = p_uri d.
Proof.
  intros (I1 & I2 & I3 & I4 & I5). destruct (p_uri d) as [sc ui ht i4 i6 fu po segs q f ab ow].
  uri_cbn. unfold erase, muri_of. cbn. subst ow. f_equal.
  - destruct i4; [|reflexivity]. destruct (pb_ip4 b); [reflexivity|]. discriminate (I2 eq_refl).
  - destruct i6; [|reflexivity]. destruct (pb_ip6 b); [reflexivity|]. discriminate (I3 eq_refl).
  - apply zip_segs_text. exact I1.
Qed.

Lemma text_blk_noblk o : text_blk {| t_val := o; t_blk := None |} = [].
Proof. unfold text_blk. cbn. destruct o as [[|]|]; reflexivity. Qed.

Lemma muri_of_noblocks u b : text_blocks (muri_of u b) = [].
Proof.
  unfold text_blocks, block_parts, muri_of.
  cbn [m_scheme m_userInfo m_hostText m_ipFuture m_portText m_segs m_query m_fragment concat].
  rewrite !text_blk_noblk, zip_segs_noblk. reflexivity.
Qed.

Lemma muri_of_wf d b : pinv d b -> mwf (muri_of (p_uri d) b).
Proof.
  intros (I1 & I2 & I3 & I4 & I5). unfold mwf. rewrite muri_of_noblocks.
  split; [|split; [constructor|split; [discriminate|reflexivity]]].
  unfold mwf_host, muri_of; cbn. exact I5.
Qed.

Lemma pinv_init : pinv pdata_init pb_init.
Proof. unfold pinv; cbn. repeat split; try discriminate. Qed.

(* the erasure theorem of the parser *)
Lemma parse_m_erasure t s : nofault s ->
  (forall m, fst (parse_m t s) = MOk m -> parse t = POk (erase m) /\ mwf m /\ m_owner m = false)
  /\ (forall u, parse t = POk u -> exists m, fst (parse_m t s) = MOk m /\ erase m = u)
  /\ (forall pos, fst (parse_m t s) = MSyntax pos <-> parse t = PSyntax pos)
  /\ fst (parse_m t s) <> MMalloc
  /\ nofault (snd (parse_m t s)).
Proof.
  intros Hnf. unfold parse_m, parse.
  pose proof (prun_m_nf t CStart pdata_init pb_init 0 s Hnf pinv_init eq_refl) as H.
  destruct (prun CStart pdata_init 0 t) as [u|pos].
  - destruct H as (d' & b' & s' & E & U & I & L). rewrite E. cbn [fst snd]. subst u.
    split; [|split; [|split; [|split]]].
    + intros m Hm. injection Hm as <-. rewrite (erase_muri_of _ _ I). split; [reflexivity|].
      split; [apply muri_of_wf; exact I|reflexivity].
    + intros u Hu. injection Hu as <-. eexists. split; [reflexivity|apply erase_muri_of; exact I].
    + intros pos. split; discriminate.
    + discriminate.
    + apply (st_le_nofault _ _ L Hnf).
  - destruct H as (s' & E & L). rewrite E. cbn [fst snd].
    split; [|split; [|split; [|split]]].
    + discriminate.
    + discriminate.
    + intros p. split; intros Hp; injection Hp as <-; reflexivity.
    + discriminate.
    + apply (st_le_nofault _ _ L Hnf).
Qed.

(* ================================================================ Part 3: make-owner and normalisation *)
(* ---------------------------------------------------------------- lists *)
Inductive sublist {A} : list A -> list A -> Prop :=
| sl_nil : sublist [] []
| sl_skip x l1 l2 : sublist l1 l2 -> sublist l1 (x :: l2)
| sl_cons x l1 l2 : sublist l1 l2 -> sublist (x :: l1) (x :: l2).

Lemma sublist_refl {A} (l : list A) : sublist l l.
Proof. induction l; constructor; assumption. Qed.
Lemma sublist_nil {A} (l : list A) : sublist [] l.
Proof. induction l; constructor; assumption. Qed.
Lemma sublist_app {A} (a a' b b' : list A) : sublist a a' -> sublist b b' -> sublist (a ++ b) (a' ++ b').
Proof.
  intros H. induction H; intros Hb; cbn [app]; [exact Hb|apply sl_skip; auto|apply sl_cons; auto].
Qed.
Lemma sublist_In {A} (a b : list A) x : sublist a b -> In x a -> In x b.
Proof. intros H. induction H; intros Hi; cbn in *; tauto. Qed.
Lemma sublist_trans {A} (b c : list A) : sublist b c -> forall a, sublist a b -> sublist a c.
Proof.
  intros H. induction H; intros a Ha.
  - exact Ha.
  - constructor. apply IHsublist. exact Ha.
  - inversion Ha; subst; constructor; apply IHsublist; assumption.
Qed.
Lemma sublist_NoDup {A} (a b : list A) : sublist a b -> NoDup b -> NoDup a.
Proof.
  intros H. induction H; intros Hn.
  - constructor.
  - inversion Hn; subst. auto.
  - inversion Hn; subst. constructor; [|auto]. intros Hi. apply H2. eapply sublist_In; eassumption.
Qed.
Lemma sublist_Forall {A} (P : A -> Prop) (a b : list A) : sublist a b -> Forall P b -> Forall P a.
Proof. intros H Hf. apply Forall_forall. intros x Hx. eapply Forall_forall; [exact Hf|]. eapply sublist_In; eassumption. Qed.
Lemma sublist_app_r {A} (a b : list A) : sublist b (a ++ b).
Proof. induction a; cbn [app]; [apply sublist_refl|constructor; assumption]. Qed.
Lemma sublist_app_l {A} (a b : list A) : sublist a (a ++ b).
Proof. rewrite <- (app_nil_r a) at 1. apply sublist_app; [apply sublist_refl|apply sublist_nil]. Qed.

Lemma NoDup_app_intro {A} (a b : list A) :
  NoDup a -> NoDup b -> (forall x, In x a -> In x b -> False) -> NoDup (a ++ b).
Proof.
  induction a as [|x a IH]; intros Ha Hb Hd; cbn [app]; [exact Hb|].
  inversion Ha; subst. constructor.
  - rewrite in_app_iff. intros [H|H]; [tauto|]. apply (Hd x); [left; reflexivity|exact H].
  - apply IH; [assumption|assumption|]. intros y Hy1 Hy2. apply (Hd y); [right; exact Hy1|exact Hy2].
Qed.
Lemma NoDup_app_l {A} (a b : list A) : NoDup (a ++ b) -> NoDup a.
Proof. apply sublist_NoDup. apply sublist_app_l. Qed.
Lemma NoDup_app_r {A} (a b : list A) : NoDup (a ++ b) -> NoDup b.
Proof. apply sublist_NoDup. apply sublist_app_r. Qed.
Lemma NoDup_app_disj {A} (a b : list A) x : NoDup (a ++ b) -> In x a -> In x b -> False.
Proof.
  induction a as [|y a IH]; intros Hn Ha Hb; [destruct Ha|].
  cbn [app] in Hn. inversion Hn; subst. destruct Ha as [->|Ha].
  - apply H1. rewrite in_app_iff. right; exact Hb.
  - apply IH; assumption.
Qed.

Fixpoint upd {A} (i : nat) (x : A) (l : list A) : list A :=
  match l, i with
  | [], _ => []
  | _ :: r, O => x :: r
  | y :: r, S k => y :: upd k x r
  end.

Lemma upd_nth_same {A} (d : A) l : forall i, upd i (nth i l d) l = l.
Proof. induction l as [|y r IH]; intros [|k]; cbn; try reflexivity. rewrite IH. reflexivity. Qed.

Lemma in_concat_upd {A} (X : list A) x parts : forall i,
  In x (concat (upd i X parts)) -> In x X \/ In x (concat parts).
Proof.
  induction parts as [|Y r IH]; intros [|k] H; cbn [upd concat] in *; try tauto.
  - rewrite in_app_iff in *. tauto.
  - rewrite in_app_iff in *. destruct H as [H|H]; [tauto|]. destruct (IH _ H); tauto.
Qed.

Lemma concat_upd_sub {A} (X : list A) parts : forall i,
  sublist X (nth i parts []) -> sublist (concat (upd i X parts)) (concat parts).
Proof.
  induction parts as [|Y r IH]; intros [|k] H; cbn [upd concat nth] in *; try apply sublist_refl.
  - apply sublist_app; [exact H|apply sublist_refl].
  - apply sublist_app; [apply sublist_refl|apply IH; exact H].
Qed.

Lemma concat_upd_fresh (X : list nat) lo n hi parts : forall i,
  NoDup (concat parts) -> Forall (fun b => lo <= b < n) (concat parts) ->
  NoDup X -> Forall (fun b => n <= b < hi) X -> lo <= n -> n <= hi ->
  NoDup (concat (upd i X parts)) /\ Forall (fun b => lo <= b < hi) (concat (upd i X parts)).
Proof.
  intros i Hnd Hf HX HXf Hlo Hhi.
  assert (Forall (fun b => lo <= b < hi) (concat (upd i X parts))) as Hall.
  { apply Forall_forall. intros x Hx. destruct (in_concat_upd _ _ _ _ Hx) as [H|H].
    - rewrite Forall_forall in HXf. specialize (HXf _ H). lia.
    - rewrite Forall_forall in Hf. specialize (Hf _ H). lia. }
  split; [|exact Hall]. clear Hall.
  revert i Hnd Hf. induction parts as [|Y r IH]; intros [|k] Hnd Hf; cbn [upd concat] in *; try constructor.
  - apply NoDup_app_intro; [exact HX|eapply NoDup_app_r; exact Hnd|].
    intros x H1 H2. rewrite Forall_forall in HXf, Hf. specialize (HXf _ H1).
    assert (In x (Y ++ concat r)) as H3 by (rewrite in_app_iff; tauto). specialize (Hf _ H3). lia.
  - apply Forall_app in Hf. destruct Hf as [HfY Hfr].
    apply NoDup_app_intro; [eapply NoDup_app_l; exact Hnd|apply IH; [eapply NoDup_app_r; exact Hnd|exact Hfr]|].
    intros x H1 H2. destruct (in_concat_upd _ _ _ _ H2) as [H|H].
    + rewrite Forall_forall in HXf, HfY. specialize (HXf _ H). specialize (HfY _ H1). lia.
    + eapply NoDup_app_disj; eassumption.
Qed.

(* ---------------------------------------------------------------- the block invariant *)
(* the text blocks of the object are pairwise distinct and were all handed out since block id [lo] *)
Definition Inv (lo : nat) (m : muri) (s : mstate) : Prop :=
  lo <= ms_next s /\ NoDup (text_blocks m) /\ Forall (fun b => lo <= b < ms_next s) (text_blocks m).

Lemma inv_fresh lo m s m' s' i X :
  Inv lo m s -> block_parts m' = upd i X (block_parts m) ->
  NoDup X -> Forall (fun b => ms_next s <= b < ms_next s') X -> ms_next s <= ms_next s' -> Inv lo m' s'.
Proof.
  intros (H1 & H2 & H3) Hb HX HXf Hle. unfold Inv, text_blocks in *. rewrite Hb.
  destruct (concat_upd_fresh X lo (ms_next s) (ms_next s') (block_parts m) i H2 H3 HX HXf H1 Hle) as [A B].
  split; [lia|]. split; assumption.
Qed.

Lemma inv_sub lo m s m' s' i X :
  Inv lo m s -> block_parts m' = upd i X (block_parts m) ->
  sublist X (nth i (block_parts m) []) -> ms_next s <= ms_next s' -> Inv lo m' s'.
Proof.
  intros (H1 & H2 & H3) Hb HX Hle. unfold Inv, text_blocks in *. rewrite Hb.
  pose proof (concat_upd_sub X (block_parts m) i HX) as Hs.
  split; [lia|]. split; [eapply sublist_NoDup; eassumption|].
  eapply sublist_Forall; [exact Hs|]. eapply Forall_impl; [|exact H3]. cbn. intros; lia.
Qed.

Lemma inv_same lo m s m' s' :
  Inv lo m s -> block_parts m' = block_parts m -> ms_next s <= ms_next s' -> Inv lo m' s'.
Proof.
  intros (H1 & H2 & H3) Hb Hle. unfold Inv, text_blocks in *. rewrite Hb.
  split; [lia|]. split; [assumption|]. eapply Forall_impl; [|exact H3]. cbn. intros; lia.
Qed.

(* fresh blocks are put in front of one part *)
Lemma in_nth_concat {A} (x : A) parts : forall i, In x (nth i parts []) -> In x (concat parts).
Proof.
  induction parts as [|Y r IH]; intros [|k] H; cbn [nth concat] in *; try (destruct H; fail).
  - apply in_app_iff. left; exact H.
  - apply in_app_iff. right. apply (IH k). exact H.
Qed.

Lemma in_concat_upd_add {A} (X : list A) x parts i :
  In x (concat (upd i (X ++ nth i parts []) parts)) -> In x X \/ In x (concat parts).
Proof.
  intros H. destruct (in_concat_upd _ _ _ _ H) as [H1|H1]; [|right; exact H1].
  apply in_app_iff in H1. destruct H1 as [H1|H1]; [left; exact H1|right; eapply in_nth_concat; exact H1].
Qed.

Lemma concat_upd_add (X : list nat) lo n hi parts : forall i,
  NoDup (concat parts) -> Forall (fun b => lo <= b < n) (concat parts) ->
  NoDup X -> Forall (fun b => n <= b < hi) X -> lo <= n -> n <= hi ->
  NoDup (concat (upd i (X ++ nth i parts []) parts))
  /\ Forall (fun b => lo <= b < hi) (concat (upd i (X ++ nth i parts []) parts)).
Proof.
  intros i Hnd Hf HX HXf Hlo Hhi.
  split.
  2:{ apply Forall_forall. intros x Hx. destruct (in_concat_upd_add _ _ _ _ Hx) as [H|H].
      - rewrite Forall_forall in HXf. specialize (HXf _ H). lia.
      - rewrite Forall_forall in Hf. specialize (Hf _ H). lia. }
  revert i Hnd Hf. induction parts as [|Y r IH]; intros [|k] Hnd Hf; cbn [upd concat nth] in *; try constructor.
  - rewrite <- app_assoc. apply NoDup_app_intro; [exact HX|exact Hnd|].
    intros x H1 H2. rewrite Forall_forall in HXf, Hf. specialize (HXf _ H1). specialize (Hf _ H2). lia.
  - apply Forall_app in Hf. destruct Hf as [HfY Hfr].
    apply NoDup_app_intro; [eapply NoDup_app_l; exact Hnd|apply IH; [eapply NoDup_app_r; exact Hnd|exact Hfr]|].
    intros x H1 H2. destruct (in_concat_upd_add _ _ _ _ H2) as [H|H].
    + rewrite Forall_forall in HXf, HfY. specialize (HXf _ H). specialize (HfY _ H1). lia.
    + eapply NoDup_app_disj; eassumption.
Qed.

Lemma inv_add lo m s m' s' i X :
  Inv lo m s -> block_parts m' = upd i (X ++ nth i (block_parts m) []) (block_parts m) ->
  NoDup X -> Forall (fun b => ms_next s <= b < ms_next s') X -> ms_next s <= ms_next s' -> Inv lo m' s'.
Proof.
  intros (H1 & H2 & H3) Hb HX HXf Hle. unfold Inv, text_blocks in *. rewrite Hb.
  destruct (concat_upd_add X lo (ms_next s) (ms_next s') (block_parts m) i H2 H3 HX HXf H1 Hle) as [A B].
  split; [lia|]. split; assumption.
Qed.

(* one text component is replaced by itself or by a copy in the block just handed out *)
Definition text_step (t t' : mtext) (s s' : mstate) : Prop :=
  (text_blk t' = text_blk t /\ ms_next s' = ms_next s)
  \/ (sublist (text_blk t') [ms_next s] /\ ms_next s' = S (ms_next s)).

Lemma inv_text_step lo m s m' s' i t t' :
  Inv lo m s -> nth i (block_parts m) [] = text_blk t ->
  block_parts m' = upd i (text_blk t') (block_parts m) -> text_step t t' s s' -> Inv lo m' s'.
Proof.
  intros HI Hn Hb [[E1 E2]|[E1 E2]].
  - eapply inv_same; [exact HI| |lia]. rewrite Hb, E1, <- Hn. apply upd_nth_same.
  - eapply inv_fresh; [exact HI|exact Hb| | |lia].
    + eapply sublist_NoDup; [exact E1|]. constructor; [intros []|constructor].
    + eapply sublist_Forall; [exact E1|]. constructor; [lia|constructor].
Qed.

(* ---------------------------------------------------------------- components and the done-mask *)
Inductive comp := CScheme | CUser | CHost | CPath | CQuery | CFrag | CPort.
Definition cidx (c : comp) : N :=
  match c with CScheme => 0 | CUser => 1 | CHost => 2 | CPath => 3 | CQuery => 4 | CFrag => 5 | CPort => 6 end%N.
Definition comp_owned (c : comp) (m : muri) : bool :=
  match c with
  | CScheme => text_owned (m_scheme m) | CUser => text_owned (m_userInfo m) | CHost => host_owned m
  | CPath => forallb seg_owned (m_segs m) | CQuery => text_owned (m_query m)
  | CFrag => text_owned (m_fragment m) | CPort => text_owned (m_portText m)
  end.

Lemma all_owned_comps m : (forall c, comp_owned c m = true) -> all_owned m = true.
Proof.
  intros H. unfold all_owned.
  pose proof (H CScheme) as H1. pose proof (H CUser) as H2. pose proof (H CHost) as H3.
  pose proof (H CPort) as H4. pose proof (H CPath) as H5. pose proof (H CQuery) as H6. pose proof (H CFrag) as H7.
  cbn [comp_owned] in *. rewrite H1, H2, H3, H4, H5, H6, H7. reflexivity.
Qed.
Lemma all_owned_comp m c : all_owned m = true -> comp_owned c m = true.
Proof.
  unfold all_owned. intros H. repeat (apply andb_prop in H; destruct H as [H ?]). destruct c; assumption.
Qed.

Local Open Scope N_scope.
(* the test "done & bit" of the C code is a bit test *)
Lemma land_pow2 d k : (N.land d (2 ^ k) =? 0) = negb (N.testbit d k).
Proof.
  destruct (N.testbit d k) eqn:E; cbn [negb].
  - apply N.eqb_neq. intros H. apply (f_equal (fun x => N.testbit x k)) in H.
    rewrite N.land_spec, E, N.pow2_bits_true, N.bits_0 in H. discriminate H.
  - apply N.eqb_eq. apply N.bits_inj. intros j. rewrite N.land_spec, N.bits_0, N.pow2_bits_eqb.
    destruct (k =? j) eqn:Ej; [apply N.eqb_eq in Ej; subst j; rewrite E; reflexivity|apply andb_false_r].
Qed.
Lemma testbit_lor_pow2 d k j : N.testbit (N.lor d (2 ^ k)) j = N.testbit d j || (k =? j).
Proof. rewrite N.lor_spec, N.pow2_bits_eqb. reflexivity. Qed.

Definition sub (a b : N) : Prop := forall k, N.testbit a k = true -> N.testbit b k = true.
Lemma sub_refl a : sub a a. Proof. intros k H; exact H. Qed.
Lemma sub_trans a b c : sub a b -> sub b c -> sub a c. Proof. intros H1 H2 k H; auto. Qed.
Lemma sub_lor a b k : sub a b -> sub (N.lor a (2 ^ k)) (N.lor b (2 ^ k)).
Proof. intros H j. rewrite !testbit_lor_pow2. intros Hj. apply orb_prop in Hj. destruct Hj as [Hj|Hj]; [rewrite (H _ Hj); reflexivity|rewrite Hj; apply orb_true_r]. Qed.
Lemma sub_lor_r a k : sub a (N.lor a (2 ^ k)).
Proof. intros j Hj. rewrite testbit_lor_pow2, Hj. reflexivity. Qed.
Lemma sub_0 a : sub 0 a. Proof. intros k H. rewrite N.bits_0 in H. discriminate H. Qed.
Local Close Scope N_scope.

(* what is carried from stage to stage: no faults, the block invariant, the shared host range, and
   every component flagged in [own] is owned *)
Definition G (lo : nat) (own : N) (m : muri) (s : mstate) : Prop :=
  nofault s /\ Inv lo m s /\ mwf_host m /\ (forall c, N.testbit own (cidx c) = true -> comp_owned c m = true).

Lemma mkG lo own m s : nofault s -> Inv lo m s -> mwf_host m ->
  (forall c, N.testbit own (cidx c) = true -> comp_owned c m = true) -> G lo own m s.
Proof. intros A B C D. split; [exact A|split; [exact B|split; [exact C|exact D]]]. Qed.

Definition stage := muri -> N -> mstate -> option (muri * N) * mstate.

(* a stage of the engine or of normalisation of a borrowed object: it succeeds, keeps [G], its effect
   on the values is [F]; [must] is the component it makes owned whatever the mask says *)
Definition stage_spec (st : stage) (F : uri -> uri) (must : option comp) : Prop :=
  forall lo own m done s, G lo own m s -> sub done own -> m_owner m = false ->
  exists m' done' own' s', st m done s = (Some (m', done'), s')
    /\ G lo own' m' s' /\ sub done' own' /\ sub own own' /\ erase m' = F (erase m) /\ m_owner m' = false
    /\ st_le s s'
    /\ match must with Some c => N.testbit own' (cidx c) = true | None => True end.


Lemma cidx_inj c c' : cidx c = cidx c' -> c = c'.
Proof. destruct c, c'; intros H; try reflexivity; discriminate H. Qed.
Lemma comp_eq_dec (c c' : comp) : {c = c'} + {c <> c'}.
Proof. decide equality. Qed.

Section Ops.
Variable cs : N.

(* ---------------------------------------------------------------- primitives without faults *)
Lemma dup_text_nf t s : nofault s ->
  exists t' s', dup_text cs t s = (Some t', s') /\ t_val t' = t_val t /\ text_owned t' = true
    /\ text_step t t' s s' /\ st_le s s'.
Proof.
  intros Hnf. unfold dup_text. destruct (t_val t) as [[|c x]|] eqn:E.
  - exists t, s. unfold text_owned. rewrite E. split; [reflexivity|]. split; [reflexivity|]. split; [reflexivity|].
    split; [left; split; reflexivity|apply st_le_refl].
  - rewrite (alloc_nf _ _ _ Hnf). eexists; eexists. split; [reflexivity|]. cbn [t_val]. split; [reflexivity|].
    split; [reflexivity|]. split; [|apply push_alloc_le]. right. split; [apply sublist_refl|reflexivity].
  - exists t, s. unfold text_owned. rewrite E. split; [reflexivity|]. split; [reflexivity|]. split; [reflexivity|].
    split; [left; split; reflexivity|apply st_le_refl].
Qed.

Lemma range_owner_nf done k t s : nofault s ->
  exists t' done' s', range_owner cs done (2 ^ k) t s = (Some (t', done'), s') /\ t_val t' = t_val t
    /\ ((N.testbit done k = true -> text_owned t = true) -> text_owned t' = true)
    /\ (done' = done \/ done' = N.lor done (2 ^ k))
    /\ text_step t t' s s' /\ st_le s s'.
Proof.
  intros Hnf. unfold range_owner. rewrite land_pow2, negb_involutive.
  destruct (N.testbit done k) eqn:Eb.
  - exists t, done, s. split; [reflexivity|]. split; [reflexivity|]. split; [intros H; apply H; reflexivity|].
    split; [left; reflexivity|]. split; [left; split; reflexivity|apply st_le_refl].
  - destruct (t_val t) as [[|c x]|] eqn:E.
    + exists t, done, s. unfold text_owned. rewrite E. split; [reflexivity|]. split; [reflexivity|]. split; [reflexivity|].
      split; [left; reflexivity|]. split; [left; split; reflexivity|apply st_le_refl].
    + destruct (dup_text_nf t s Hnf) as (t' & s' & E1 & V1 & O1 & T1 & L1). rewrite E1.
      exists t', (N.lor done (2 ^ k)), s'. split; [reflexivity|]. split; [congruence|]. split; [intros _; exact O1|].
      split; [right; reflexivity|]. split; assumption.
    + exists t, done, s. unfold text_owned. rewrite E. split; [reflexivity|]. split; [reflexivity|]. split; [reflexivity|].
      split; [left; reflexivity|]. split; [left; split; reflexivity|apply st_le_refl].
Qed.

Lemma norm_text_nf f t s x : nofault s -> f [] = [] -> t_val t = Some x ->
  exists t' s', norm_text cs false f t s = (Some t', s') /\ t_val t' = Some (f x) /\ text_owned t' = true
    /\ text_step t t' s s' /\ st_le s s'.
Proof.
  intros Hnf Hf E. unfold norm_text. rewrite E. destruct x as [|c x].
  - exists t, s. unfold text_owned. rewrite E, Hf. split; [reflexivity|]. split; [reflexivity|]. split; [reflexivity|].
    split; [left; split; reflexivity|apply st_le_refl].
  - rewrite (alloc_nf _ _ _ Hnf). eexists; eexists. split; [reflexivity|]. cbn [t_val]. split; [reflexivity|].
    split; [unfold text_owned; cbn; destruct (f (c :: x)); reflexivity|]. split; [|apply push_alloc_le].
    right. split; [|reflexivity]. unfold text_blk. cbn [t_val t_blk blk_list].
    destruct (f (c :: x)); [apply sublist_nil|apply sublist_refl].
Qed.

(* ---------------------------------------------------------------- text components, generically *)
Definition e_text (bv : N) (get : muri -> mtext) (set : mtext -> muri -> muri) : stage :=
  fun m done s =>
    match range_owner cs done bv (get m) s with
    | (None, s') => (None, s')
    | (Some (t, d), s') => (Some (set t m, d), s')
    end.

Definition n_text (cond : bool) (f : text -> text) (bv : N) (get : muri -> mtext) (set : mtext -> muri -> muri) : stage :=
  fun m done s =>
    if cond && is_some (t_val (get m)) then
      match norm_text cs false f (get m) s with
      | (Some t, s') => (Some (set t m, N.lor done bv), s')
      | (None, s') => (None, s')
      end
    else (Some (m, done), s).

Section TextComp.
Variables (k : N) (c : comp) (get : muri -> mtext) (set : mtext -> muri -> muri) (i : nat)
          (pget : uri -> option text) (pset : option text -> uri -> uri).
Hypothesis Hk : cidx c = k.
Hypothesis Hparts : forall t m, block_parts (set t m) = upd i (text_blk t) (block_parts m).
Hypothesis Hnth : forall m, nth i (block_parts m) [] = text_blk (get m).
Hypothesis Hown_set : forall t m, comp_owned c (set t m) = text_owned t.
Hypothesis Hown_get : forall m, comp_owned c m = text_owned (get m).
Hypothesis Hframe : forall c' t m, c' <> c -> comp_owned c' (set t m) = comp_owned c' m.
Hypothesis Herase : forall t m, erase (set t m) = pset (t_val t) (erase m).
Hypothesis Hpget : forall m, pget (erase m) = t_val (get m).
Hypothesis Hpsame : forall u, pset (pget u) u = u.
Hypothesis Hhost : forall t m, mwf_host m -> mwf_host (set t m).
Hypothesis Howner : forall t m, m_owner (set t m) = m_owner m.

Lemma own_after_set own t m :
  (forall c', N.testbit own (cidx c') = true -> comp_owned c' m = true) -> text_owned t = true ->
  forall c', N.testbit (N.lor own (2 ^ k)) (cidx c') = true -> comp_owned c' (set t m) = true.
Proof.
  intros HG Ht c' Hb. destruct (comp_eq_dec c' c) as [->|Hne].
  - rewrite Hown_set. exact Ht.
  - rewrite (Hframe _ _ _ Hne). apply HG. rewrite testbit_lor_pow2 in Hb.
    apply orb_prop in Hb. destruct Hb as [Hb|Hb]; [exact Hb|].
    apply N.eqb_eq in Hb. rewrite <- Hk in Hb. apply cidx_inj in Hb. congruence.
Qed.

Lemma e_text_spec : stage_spec (e_text (2 ^ k) get set) (fun u => u) (Some c).
Proof.
  intros lo own m done s (Hnf & HI & Hh & HG) Hsub Ho. unfold e_text.
  destruct (range_owner_nf done k (get m) s Hnf) as (t' & d' & s' & E & V & O & D & T & L). rewrite E.
  exists (set t' m), d', (N.lor own (2 ^ k)), s'. split; [reflexivity|].
  assert (text_owned t' = true) as Ht'.
  { apply O. intros Hb. rewrite <- Hown_get. apply HG. rewrite Hk. apply Hsub. exact Hb. }
  split; [|split; [|split; [|split; [|split; [|split]]]]].
  - split; [apply (st_le_nofault _ _ L Hnf)|]. split; [eapply inv_text_step; [exact HI|apply Hnth|apply Hparts|exact T]|].
    split; [apply Hhost; exact Hh|]. apply own_after_set; assumption.
  - destruct D as [->| ->]; [eapply sub_trans; [exact Hsub|apply sub_lor_r]|apply sub_lor; exact Hsub].
  - apply sub_lor_r.
  - rewrite Herase, V, <- Hpget. apply Hpsame.
  - rewrite Howner. exact Ho.
  - exact L.
  - rewrite testbit_lor_pow2, Hk, N.eqb_refl. apply orb_true_r.
Qed.

Lemma n_text_spec cond f : f [] = [] ->
  stage_spec (n_text cond f (2 ^ k) get set) (fun u => if cond then pset (omap f (pget u)) u else u) None.
Proof.
  intros Hf lo own m done s (Hnf & HI & Hh & HG) Hsub Ho. unfold n_text.
  destruct cond; cbn [andb].
  - destruct (t_val (get m)) as [x|] eqn:Ev; cbn [is_some].
    + destruct (norm_text_nf f (get m) s x Hnf Hf Ev) as (t' & s' & E & V & O & T & L). rewrite E.
      exists (set t' m), (N.lor done (2 ^ k)), (N.lor own (2 ^ k)), s'. split; [reflexivity|].
      split; [|split; [|split; [|split; [|split; [|split]]]]].
      * split; [apply (st_le_nofault _ _ L Hnf)|]. split; [eapply inv_text_step; [exact HI|apply Hnth|apply Hparts|exact T]|].
        split; [apply Hhost; exact Hh|]. apply own_after_set; assumption.
      * apply sub_lor; exact Hsub.
      * apply sub_lor_r.
      * rewrite Herase, V, Hpget, Ev. reflexivity.
      * rewrite Howner. exact Ho.
      * exact L.
      * exact I.
    + exists m, done, own, s. split; [reflexivity|].
      split; [apply mkG; assumption|]. split; [exact Hsub|]. split; [apply sub_refl|].
      split; [rewrite Hpget, Ev; cbn [omap]; rewrite <- Ev, <- Hpget; symmetry; apply Hpsame|].
      split; [exact Ho|]. split; [apply st_le_refl|exact I].
  - exists m, done, own, s. split; [reflexivity|].
    split; [apply mkG; assumption|]. split; [exact Hsub|]. split; [apply sub_refl|].
    split; [reflexivity|]. split; [exact Ho|]. split; [apply st_le_refl|exact I].
Qed.
End TextComp.

Lemma own_after own c m m' :
  (forall c', N.testbit own (cidx c') = true -> comp_owned c' m = true) ->
  (forall c', c' <> c -> comp_owned c' m' = comp_owned c' m) -> comp_owned c m' = true ->
  forall c', N.testbit (N.lor own (2 ^ cidx c)) (cidx c') = true -> comp_owned c' m' = true.
Proof.
  intros HG Hfr Hc c' Hb. destruct (comp_eq_dec c' c) as [->|Hne]; [exact Hc|].
  rewrite (Hfr _ Hne). apply HG. rewrite testbit_lor_pow2 in Hb.
  apply orb_prop in Hb. destruct Hb as [Hb|Hb]; [exact Hb|].
  apply N.eqb_eq in Hb. apply cidx_inj in Hb. congruence.
Qed.

Ltac tcomp_solve :=
  first [ reflexivity
        | (intros c' t m Hne; destruct c'; try reflexivity; congruence)
        | (intros u; destruct u; reflexivity)
        | (intros t m H; exact H) ].

Lemma e_scheme_spec : stage_spec (e_text B_SCHEME m_scheme set_m_scheme) (fun u => u) (Some CScheme).
Proof. apply (e_text_spec 0 CScheme m_scheme set_m_scheme 0%nat scheme set_scheme); tcomp_solve. Qed.
Lemma e_user_spec : stage_spec (e_text B_USER m_userInfo set_m_userInfo) (fun u => u) (Some CUser).
Proof. apply (e_text_spec 1 CUser m_userInfo set_m_userInfo 1%nat userInfo set_userInfo); tcomp_solve. Qed.
Lemma e_query_spec : stage_spec (e_text B_QUERY m_query set_m_query) (fun u => u) (Some CQuery).
Proof. apply (e_text_spec 4 CQuery m_query set_m_query 6%nat query set_query); tcomp_solve. Qed.
Lemma e_frag_spec : stage_spec (e_text B_FRAG m_fragment set_m_fragment) (fun u => u) (Some CFrag).
Proof. apply (e_text_spec 5 CFrag m_fragment set_m_fragment 7%nat fragment set_fragment); tcomp_solve. Qed.

Lemma n_scheme_spec cond f : f [] = [] ->
  stage_spec (n_text cond f B_SCHEME m_scheme set_m_scheme)
             (fun u => if cond then set_scheme (omap f (scheme u)) u else u) None.
Proof. apply (n_text_spec 0 CScheme m_scheme set_m_scheme 0%nat scheme set_scheme); tcomp_solve. Qed.
Lemma n_user_spec cond f : f [] = [] ->
  stage_spec (n_text cond f B_USER m_userInfo set_m_userInfo)
             (fun u => if cond then set_userInfo (omap f (userInfo u)) u else u) None.
Proof. apply (n_text_spec 1 CUser m_userInfo set_m_userInfo 1%nat userInfo set_userInfo); tcomp_solve. Qed.
Lemma n_query_spec cond f : f [] = [] ->
  stage_spec (n_text cond f B_QUERY m_query set_m_query)
             (fun u => if cond then set_query (omap f (query u)) u else u) None.
Proof. apply (n_text_spec 4 CQuery m_query set_m_query 6%nat query set_query); tcomp_solve. Qed.
Lemma n_frag_spec cond f : f [] = [] ->
  stage_spec (n_text cond f B_FRAG m_fragment set_m_fragment)
             (fun u => if cond then set_fragment (omap f (fragment u)) u else u) None.
Proof. apply (n_text_spec 5 CFrag m_fragment set_m_fragment 7%nat fragment set_fragment); tcomp_solve. Qed.

(* ---------------------------------------------------------------- the path loop of make-owner *)
Lemma own_segs_nf rest : forall acc s, nofault s ->
  exists segs' s', own_segs cs acc rest s = (Some (rev acc ++ segs'), s')
    /\ map sg_text segs' = map sg_text rest /\ map sg_node segs' = map sg_node rest
    /\ forallb seg_owned segs' = true /\ st_le s s'
    /\ NoDup (flat_map seg_blk segs')
    /\ Forall (fun b => ms_next s <= b < ms_next s') (flat_map seg_blk segs').
Proof.
  induction rest as [|sg r IH]; intros acc s Hnf.
  - exists [], s. cbn [own_segs]. rewrite app_nil_r. split; [reflexivity|]. split; [reflexivity|]. split; [reflexivity|].
    split; [reflexivity|]. split; [apply st_le_refl|]. split; constructor.
  - cbn [own_segs]. destruct (sg_text sg) as [|c x] eqn:Et.
    + destruct (IH (sg :: acc) s Hnf) as (segs' & s' & E & V & Nn & O & L & ND & F).
      exists (sg :: segs'), s'. rewrite E. cbn [rev]. rewrite <- app_assoc. cbn [app].
      split; [reflexivity|]. cbn [map forallb flat_map]. rewrite V, Nn, O. unfold seg_owned, seg_blk. rewrite Et.
      cbn [app andb]. repeat split; try assumption; apply L.
    + rewrite (alloc_nf _ _ _ Hnf).
      destruct (IH ({| sg_text := c :: x; sg_blk := Some (ms_next s); sg_node := sg_node sg |} :: acc)
                   (push_alloc false (tlen (c :: x) * cs) s)
                   (st_le_nofault _ _ (push_alloc_le _ _ _) Hnf)) as (segs' & s' & E & V & Nn & O & L & ND & F).
      exists ({| sg_text := c :: x; sg_blk := Some (ms_next s); sg_node := sg_node sg |} :: segs'), s'.
      rewrite E. cbn [rev]. rewrite <- app_assoc. cbn [app].
      split; [reflexivity|]. cbn [map forallb flat_map sg_text sg_node]. rewrite V, Nn, O, Et.
      unfold seg_owned at 1, seg_blk at 1 3. cbn [sg_text sg_blk is_some blk_list andb app].
      destruct L as [L1 L2]. rewrite push_alloc_next in *. cbn [ms_plan push_alloc] in L1.
      split; [reflexivity|]. split; [reflexivity|]. split; [reflexivity|]. split; [split; [exact L1|lia]|].
      split.
      * constructor; [|exact ND]. intros Hi. rewrite Forall_forall in F. specialize (F _ Hi). lia.
      * constructor; [lia|]. eapply Forall_impl; [|exact F]. cbn. intros; lia.
Qed.

(* ---------------------------------------------------------------- the remaining stages of the engine *)
Definition e_port : stage := fun m done s =>
  match dup_text cs (m_portText m) s with
  | (None, s') => (None, s')
  | (Some t, s') => (Some (set_m_portText t m, done), s')
  end.

Definition host_step : stage := fun m done s =>
  if negb (N.land done B_HOST =? 0)%N then (Some (m, done), s)
  else match t_val (m_ipFuture m) with
       | Some _ =>
         match range_owner cs done B_HOST (m_ipFuture m) s with
         | (None, s) => (None, s)
         | (Some (t, done), s) =>
           (Some (set_m_hostText {| t_val := t_val t; t_blk := None |} (set_m_ipFuture t m), done), s)
         end
       | None =>
         match t_val (m_hostText m) with
         | Some _ =>
           match range_owner cs done B_HOST (m_hostText m) s with
           | (None, s) => (None, s)
           | (Some (t, done), s) => (Some (set_m_hostText t m, done), s)
           end
         | None => (Some (m, done), s)
         end
       end.

Definition path_step : stage := fun m done s =>
  if negb (N.land done B_PATH =? 0)%N then (Some (m, done), s)
  else match own_segs cs [] (m_segs m) s with
       | (Some segs, s) => (Some (set_m_segs segs m, N.lor done B_PATH), s)
       | (None, s) => (None, s)
       end.

Lemma e_port_spec : stage_spec e_port (fun u => u) (Some CPort).
Proof.
  intros lo own m done s (Hnf & HI & Hh & HG) Hsub Ho. unfold e_port.
  destruct (dup_text_nf (m_portText m) s Hnf) as (t' & s' & E & V & O & T & L). rewrite E.
  exists (set_m_portText t' m), done, (N.lor own (2 ^ cidx CPort)), s'. split; [reflexivity|].
  split; [|split; [|split; [|split; [|split; [|split]]]]].
  - apply mkG; [apply (st_le_nofault _ _ L Hnf)| |exact Hh|].
    + eapply (inv_text_step lo m s _ s' 4 (m_portText m) t'); [exact HI|reflexivity|reflexivity|exact T].
    + apply (own_after own CPort m); [exact HG| |exact O].
      intros c' Hne. destruct c'; try reflexivity. congruence.
  - eapply sub_trans; [exact Hsub|apply sub_lor_r].
  - apply sub_lor_r.
  - unfold erase. cbn [m_scheme m_userInfo m_hostText m_ip4 m_ip6 m_ipFuture m_portText m_segs m_query m_fragment m_abs m_owner set_m_portText].
    rewrite V. reflexivity.
  - exact Ho.
  - exact L.
  - rewrite testbit_lor_pow2, N.eqb_refl. apply orb_true_r.
Qed.

Lemma host_step_spec : stage_spec host_step (fun u => u) (Some CHost).
Proof.
  intros lo own m done s (Hnf & HI & Hh & HG) Hsub Ho. unfold host_step.
  change B_HOST with (2 ^ 2)%N. rewrite land_pow2, negb_involutive.
  destruct (N.testbit done 2) eqn:Eb.
  - (* already done *)
    exists m, done, (N.lor own (2 ^ cidx CHost)), s. split; [reflexivity|].
    split; [|split; [|split; [|split; [|split; [|split]]]]]; try reflexivity; try assumption.
    + apply mkG; try assumption. apply (own_after own CHost m); [exact HG|reflexivity|].
      apply HG. apply Hsub. exact Eb.
    + eapply sub_trans; [exact Hsub|apply sub_lor_r].
    + apply sub_lor_r.
    + apply st_le_refl.
    + rewrite testbit_lor_pow2, N.eqb_refl. apply orb_true_r.
  - destruct (t_val (m_ipFuture m)) as [x|] eqn:Ef.
    + (* IPvFuture: one block, recorded in ipFuture *)
      destruct (range_owner_nf done 2 (m_ipFuture m) s Hnf) as (t' & d' & s' & E & V & O & D & T & L). rewrite E.
      eexists; exists d', (N.lor own (2 ^ cidx CHost)), s'. split; [reflexivity|].
      assert (text_owned t' = true) as Ht' by (apply O; intros Hb; rewrite Hb in Eb; discriminate Eb).
      split; [|split; [|split; [|split; [|split; [|split]]]]].
      * apply mkG; [apply (st_le_nofault _ _ L Hnf)| | |].
        -- eapply (inv_sub lo (set_m_ipFuture t' m) s' _ s' 2 (text_blk {| t_val := t_val t'; t_blk := None |}));
             [|reflexivity|rewrite text_blk_noblk; apply sublist_nil|lia].
           eapply (inv_text_step lo m s _ s' 3 (m_ipFuture m) t'); [exact HI|reflexivity|reflexivity|exact T].
        -- intros y Hy. cbn in *. exact Hy.
        -- apply (own_after own CHost m); [exact HG|intros c' Hne; destruct c'; try reflexivity; congruence|].
           cbn [comp_owned]. unfold host_owned. cbn [m_ipFuture m_hostText set_m_hostText set_m_ipFuture].
           rewrite V, Ef. exact Ht'.
      * destruct D as [->| ->]; [eapply sub_trans; [exact Hsub|apply sub_lor_r]|apply sub_lor; exact Hsub].
      * apply sub_lor_r.
      * unfold erase. cbn [m_scheme m_userInfo m_hostText m_ip4 m_ip6 m_ipFuture m_portText m_segs m_query m_fragment m_abs m_owner set_m_hostText set_m_ipFuture t_val].
        rewrite V, Ef, (Hh x Ef). reflexivity.
      * exact Ho.
      * exact L.
      * rewrite testbit_lor_pow2, N.eqb_refl. apply orb_true_r.
    + destruct (t_val (m_hostText m)) as [x|] eqn:Eh.
      * destruct (range_owner_nf done 2 (m_hostText m) s Hnf) as (t' & d' & s' & E & V & O & D & T & L). rewrite E.
        eexists; exists d', (N.lor own (2 ^ cidx CHost)), s'. split; [reflexivity|].
        assert (text_owned t' = true) as Ht' by (apply O; intros Hb; rewrite Hb in Eb; discriminate Eb).
        split; [|split; [|split; [|split; [|split; [|split]]]]].
        -- apply mkG; [apply (st_le_nofault _ _ L Hnf)| | |].
           ++ eapply (inv_text_step lo m s _ s' 2 (m_hostText m) t'); [exact HI|reflexivity|reflexivity|exact T].
           ++ intros y Hy. cbn in Hy. rewrite Ef in Hy. discriminate Hy.
           ++ apply (own_after own CHost m); [exact HG|intros c' Hne; destruct c'; try reflexivity; congruence|].
              cbn [comp_owned]. unfold host_owned. cbn [m_ipFuture m_hostText set_m_hostText].
              rewrite Ef. exact Ht'.
        -- destruct D as [->| ->]; [eapply sub_trans; [exact Hsub|apply sub_lor_r]|apply sub_lor; exact Hsub].
        -- apply sub_lor_r.
        -- unfold erase. cbn [m_scheme m_userInfo m_hostText m_ip4 m_ip6 m_ipFuture m_portText m_segs m_query m_fragment m_abs m_owner set_m_hostText t_val].
           rewrite V. reflexivity.
        -- exact Ho.
        -- exact L.
        -- rewrite testbit_lor_pow2, N.eqb_refl. apply orb_true_r.
      * exists m, done, (N.lor own (2 ^ cidx CHost)), s. split; [reflexivity|].
        split; [|split; [|split; [|split; [|split; [|split]]]]]; try reflexivity; try assumption.
        -- apply mkG; try assumption. apply (own_after own CHost m); [exact HG|reflexivity|].
           cbn [comp_owned]. unfold host_owned, text_owned. rewrite Ef, Eh. reflexivity.
        -- eapply sub_trans; [exact Hsub|apply sub_lor_r].
        -- apply sub_lor_r.
        -- apply st_le_refl.
        -- rewrite testbit_lor_pow2, N.eqb_refl. apply orb_true_r.
Qed.

Lemma path_step_spec : stage_spec path_step (fun u => u) (Some CPath).
Proof.
  intros lo own m done s (Hnf & HI & Hh & HG) Hsub Ho. unfold path_step.
  change B_PATH with (2 ^ 3)%N. rewrite land_pow2, negb_involutive.
  destruct (N.testbit done 3) eqn:Eb.
  - exists m, done, (N.lor own (2 ^ cidx CPath)), s. split; [reflexivity|].
    split; [|split; [|split; [|split; [|split; [|split]]]]]; try reflexivity; try assumption.
    + apply mkG; try assumption. apply (own_after own CPath m); [exact HG|reflexivity|].
      apply HG. apply Hsub. exact Eb.
    + eapply sub_trans; [exact Hsub|apply sub_lor_r].
    + apply sub_lor_r.
    + apply st_le_refl.
    + rewrite testbit_lor_pow2, N.eqb_refl. apply orb_true_r.
  - destruct (own_segs_nf (m_segs m) [] s Hnf) as (segs' & s' & E & V & Nn & O & L & ND & F).
    rewrite E. cbn [rev app].
    exists (set_m_segs segs' m), (N.lor done (2 ^ 3)), (N.lor own (2 ^ cidx CPath)), s'. split; [reflexivity|].
    split; [|split; [|split; [|split; [|split; [|split]]]]].
    + apply mkG; [apply (st_le_nofault _ _ L Hnf)| |exact Hh|].
      * eapply (inv_fresh lo m s _ s' 5 (flat_map seg_blk segs')); [exact HI|reflexivity|exact ND|exact F|apply L].
      * apply (own_after own CPath m); [exact HG|intros c' Hne; destruct c'; try reflexivity; congruence|exact O].
    + apply sub_lor; exact Hsub.
    + apply sub_lor_r.
    + unfold erase. cbn [m_scheme m_userInfo m_hostText m_ip4 m_ip6 m_ipFuture m_portText m_segs m_query m_fragment m_abs m_owner set_m_segs].
      rewrite V. reflexivity.
    + exact Ho.
    + exact L.
    + rewrite testbit_lor_pow2, N.eqb_refl. apply orb_true_r.
Qed.

(* ---------------------------------------------------------------- the engine as a chain of stages *)
Definition engine' (m : muri) (done : N) (s : mstate) : bool * muri * N * mstate :=
  match range_owner cs done B_SCHEME (m_scheme m) s with
  | (None, s) => (false, m, done, s)
  | (Some (t, done), s) =>
    let m := set_m_scheme t m in
    match range_owner cs done B_USER (m_userInfo m) s with
    | (None, s) => (false, m, done, s)
    | (Some (t, done), s) =>
      let m := set_m_userInfo t m in
      match range_owner cs done B_QUERY (m_query m) s with
      | (None, s) => (false, m, done, s)
      | (Some (t, done), s) =>
        let m := set_m_query t m in
        match range_owner cs done B_FRAG (m_fragment m) s with
        | (None, s) => (false, m, done, s)
        | (Some (t, done), s) =>
          let m := set_m_fragment t m in
          match host_step m done s with
          | (None, s) => (false, m, done, s)
          | (Some (m, done), s) =>
            match path_step m done s with
            | (None, s) => (false, set_m_segs [] m, done, s)
            | (Some (m, done), s) =>
              match dup_text cs (m_portText m) s with
              | (None, s) => (false, m, done, s)
              | (Some t, s) => (true, set_m_portText t m, done, s)
              end
            end
          end
        end
      end
    end
  end.

Lemma engine_unfold m done s : make_owner_engine cs m done s = engine' m done s.
Proof. reflexivity. Qed.

Lemma engine_chain m done s m1 d1 s1 m2 d2 s2 m3 d3 s3 m4 d4 s4 m5 d5 s5 m6 d6 s6 m7 d7 s7 :
  e_text B_SCHEME m_scheme set_m_scheme m done s = (Some (m1, d1), s1) ->
  e_text B_USER m_userInfo set_m_userInfo m1 d1 s1 = (Some (m2, d2), s2) ->
  e_text B_QUERY m_query set_m_query m2 d2 s2 = (Some (m3, d3), s3) ->
  e_text B_FRAG m_fragment set_m_fragment m3 d3 s3 = (Some (m4, d4), s4) ->
  host_step m4 d4 s4 = (Some (m5, d5), s5) ->
  path_step m5 d5 s5 = (Some (m6, d6), s6) ->
  e_port m6 d6 s6 = (Some (m7, d7), s7) ->
  make_owner_engine cs m done s = (true, m7, d7, s7).
Proof.
  intros H1 H2 H3 H4 H5 H6 H7. rewrite engine_unfold. unfold engine'. unfold e_text in H1, H2, H3, H4.
  destruct (range_owner cs done B_SCHEME (m_scheme m) s) as [[[t a]|] z]; [|discriminate H1].
  injection H1 as <- <- <-. cbv zeta.
  destruct (range_owner cs a B_USER (m_userInfo (set_m_scheme t m)) z) as [[[t2 a2]|] z2]; [|discriminate H2].
  injection H2 as <- <- <-.
  destruct (range_owner cs a2 B_QUERY (m_query (set_m_userInfo t2 (set_m_scheme t m))) z2) as [[[t3 a3]|] z3]; [|discriminate H3].
  injection H3 as <- <- <-.
  destruct (range_owner cs a3 B_FRAG (m_fragment (set_m_query t3 (set_m_userInfo t2 (set_m_scheme t m)))) z3) as [[[t4 a4]|] z4]; [|discriminate H4].
  injection H4 as <- <- <-.
  rewrite H5, H6. unfold e_port in H7.
  destruct (dup_text cs (m_portText m6) s6) as [[t7|] z7]; [|discriminate H7].
  injection H7 as <- <- <-. reflexivity.
Qed.

Lemma engine_nf lo own m done s :
  G lo own m s -> sub done own -> m_owner m = false ->
  exists m' done' own' s', make_owner_engine cs m done s = (true, m', done', s')
    /\ G lo own' m' s' /\ all_owned m' = true /\ erase m' = erase m /\ m_owner m' = false /\ st_le s s'.
Proof.
  intros HG Hs Ho.
  destruct (e_scheme_spec lo own m done s HG Hs Ho) as (m1 & d1 & o1 & s1 & E1 & G1 & S1 & U1 & R1 & W1 & L1 & B1).
  destruct (e_user_spec lo o1 m1 d1 s1 G1 S1 W1) as (m2 & d2 & o2 & s2 & E2 & G2 & S2 & U2 & R2 & W2 & L2 & B2).
  destruct (e_query_spec lo o2 m2 d2 s2 G2 S2 W2) as (m3 & d3 & o3 & s3 & E3 & G3 & S3 & U3 & R3 & W3 & L3 & B3).
  destruct (e_frag_spec lo o3 m3 d3 s3 G3 S3 W3) as (m4 & d4 & o4 & s4 & E4 & G4 & S4 & U4 & R4 & W4 & L4 & B4).
  destruct (host_step_spec lo o4 m4 d4 s4 G4 S4 W4) as (m5 & d5 & o5 & s5 & E5 & G5 & S5 & U5 & R5 & W5 & L5 & B5).
  destruct (path_step_spec lo o5 m5 d5 s5 G5 S5 W5) as (m6 & d6 & o6 & s6 & E6 & G6 & S6 & U6 & R6 & W6 & L6 & B6).
  destruct (e_port_spec lo o6 m6 d6 s6 G6 S6 W6) as (m7 & d7 & o7 & s7 & E7 & G7 & S7 & U7 & R7 & W7 & L7 & B7).
  exists m7, d7, o7, s7.
  split; [exact (engine_chain _ _ _ _ _ _ _ _ _ _ _ _ _ _ _ _ _ _ _ _ _ _ _ _ E1 E2 E3 E4 E5 E6 E7)|].
  split; [exact G7|]. split; [|split; [|split; [exact W7|]]].
  - apply all_owned_comps. intros c. destruct G7 as (_ & _ & _ & Hown). apply Hown.
    destruct c; cbn [cidx].
    + apply U7, U6, U5, U4, U3, U2. exact B1.
    + apply U7, U6, U5, U4, U3. exact B2.
    + apply U7, U6. exact B5.
    + apply U7. exact B6.
    + apply U7, U6, U5, U4. exact B3.
    + apply U7, U6, U5. exact B4.
    + exact B7.
  - rewrite R7, R6, R5, R4, R3, R2, R1. reflexivity.
  - eapply st_le_trans; [exact L1|]. eapply st_le_trans; [exact L2|]. eapply st_le_trans; [exact L3|].
    eapply st_le_trans; [exact L4|]. eapply st_le_trans; [exact L5|]. eapply st_le_trans; [exact L6|exact L7].
Qed.

(* ---------------------------------------------------------------- uriMakeOwnerMm *)
Lemma G_start m s : nofault s -> mwf_host m -> text_blocks m = [] -> G (ms_next s) 0 m s.
Proof.
  intros Hnf Hh Hb. apply mkG; [exact Hnf| |exact Hh|].
  - unfold Inv. rewrite Hb. split; [lia|]. split; constructor.
  - intros c Hc. rewrite N.bits_0 in Hc. discriminate Hc.
Qed.

Lemma make_owner_m_owned m s : m_owner m = true -> make_owner_m cs m s = (URI_SUCCESS, m, s).
Proof. intros H. unfold make_owner_m. rewrite H. reflexivity. Qed.

Lemma erase_owned m : m_owner m = true -> set_owner true (erase m) = erase m.
Proof. intros H. unfold set_owner, erase. cbn. rewrite H. reflexivity. Qed.

Lemma make_owner_m_borrowed m s :
  nofault s -> m_owner m = false -> mwf_host m -> text_blocks m = [] ->
  exists m' s', make_owner_m cs m s = (URI_SUCCESS, m', s')
    /\ erase m' = make_owner (erase m)
    /\ m_owner m' = true /\ all_owned m' = true /\ mwf m'
    /\ NoDup (text_blocks m')
    /\ Forall (fun b => ms_next s <= b < ms_next s') (text_blocks m')
    /\ nofault s'.
Proof.
  intros Hnf Ho Hh Hb. unfold make_owner_m. rewrite Ho.
  destruct (engine_nf (ms_next s) 0 m 0 s (G_start m s Hnf Hh Hb) (sub_refl _) Ho)
    as (m' & d' & own' & s' & E & (Hnf' & (I1 & I2 & I3) & Hh' & _) & Hall & Her & Ho' & L).
  rewrite E. exists (set_m_owner true m'), s'. split; [reflexivity|].
  split; [change (erase (set_m_owner true m')) with (set_owner true (erase m')); rewrite Her; reflexivity|].
  split; [reflexivity|]. split; [exact Hall|].
  split; [|split; [exact I2|split; [exact I3|exact Hnf']]].
  split; [exact Hh'|]. split; [exact I2|]. split; [intros _; exact Hall|discriminate].
Qed.

(* ---------------------------------------------------------------- dot-segment removal *)
(* the segments left are segments that were there, in order, possibly with empty placeholders *)
Inductive segsub : list mseg -> list mseg -> Prop :=
| ss_nil : segsub [] []
| ss_skip x l1 l2 : segsub l1 l2 -> segsub l1 (x :: l2)
| ss_keep x l1 l2 : segsub l1 l2 -> segsub (x :: l1) (x :: l2)
| ss_blank n l1 l2 : segsub l1 l2 -> segsub ({| sg_text := []; sg_blk := None; sg_node := n |} :: l1) l2.

Lemma segsub_refl l : segsub l l.
Proof. induction l; constructor; assumption. Qed.
Lemma segsub_app a a' b b' : segsub a a' -> segsub b b' -> segsub (a ++ b) (a' ++ b').
Proof.
  intros H. induction H; intros Hb; cbn [app];
    [exact Hb|apply ss_skip; auto|apply ss_keep; auto|apply ss_blank; auto].
Qed.
Lemma segsub_weaken b c : sublist b c -> forall a, segsub a b -> segsub a c.
Proof.
  induction 1 as [|x l1 l2 H IH|x l1 l2 H IH]; intros a Ha.
  - exact Ha.
  - apply ss_skip. apply IH. exact Ha.
  - remember (x :: l1) as xl eqn:Exl. induction Ha as [|y k1 k2 Hk IHk|y k1 k2 Hk IHk|n k1 k2 Hk IHk].
    + discriminate Exl.
    + injection Exl as -> ->. apply ss_skip. apply IH. exact Hk.
    + injection Exl as -> ->. apply ss_keep. apply IH. exact Hk.
    + apply ss_blank. apply IHk. exact Exl.
Qed.
Lemma segsub_blocks a b : segsub a b -> sublist (flat_map seg_blk a) (flat_map seg_blk b).
Proof.
  induction 1; cbn [flat_map].
  - constructor.
  - eapply sublist_trans; [apply sublist_app_r|exact IHsegsub].
  - apply sublist_app; [apply sublist_refl|exact IHsegsub].
  - exact IHsegsub.
Qed.
Lemma segsub_owned a b : segsub a b -> forallb seg_owned b = true -> forallb seg_owned a = true.
Proof.
  induction 1; cbn [forallb]; intros Hb.
  - reflexivity.
  - apply andb_prop in Hb. apply IHsegsub, Hb.
  - apply andb_prop in Hb. destruct Hb as [H1 H2]. rewrite H1. apply IHsegsub, H2.
  - apply IHsegsub, Hb.
Qed.

Definition blank_state (owned : bool) (sg : mseg) (s : mstate) : mstate := snd (blank_seg owned sg s).
Lemma blank_seg_eq owned sg s :
  blank_seg owned sg s = ({| sg_text := []; sg_blk := None; sg_node := sg_node sg |}, blank_state owned sg s).
Proof. reflexivity. Qed.
Lemma blank_state_le owned sg s : st_le s (blank_state owned sg s).
Proof.
  unfold blank_state, blank_seg. cbn [snd]. destruct owned; [|apply st_le_refl].
  destruct (sg_text sg); [apply st_le_refl|]. destruct (sg_blk sg); [apply free_blk_le|apply bad_free_le].
Qed.
Lemma drop_seg_le owned sg s : st_le s (drop_seg owned sg s).
Proof.
  unfold drop_seg. eapply st_le_trans; [|apply free_blk_le]. destruct owned; [|apply st_le_refl].
  destruct (sg_text sg); [apply st_le_refl|]. destruct (sg_blk sg); [apply free_blk_le|apply bad_free_le].
Qed.

Ltac sle :=
  repeat first [ apply st_le_refl
               | (eapply st_le_trans; [|apply drop_seg_le])
               | (eapply st_le_trans; [|apply blank_state_le])
               | (eapply st_le_trans; [|apply push_alloc_le]) ].
Ltac sublist_solve :=
  cbn [rev]; rewrite <- ?app_assoc; cbn [app];
  try (apply sublist_app; [apply sublist_refl|]);
  repeat first [ apply sublist_refl | apply sl_nil | apply sl_cons | apply sl_skip ].
Ltac segsub_solve :=
  cbn [rev]; rewrite <- ?app_assoc; cbn [app];
  try (apply segsub_app; [apply segsub_refl|]);
  repeat first [ apply segsub_refl | apply ss_nil | apply ss_keep | apply ss_blank | apply ss_skip ].

Lemma rds_walk_m_nf rel host abs owned rest : forall kept s, nofault s ->
  exists segs' s', rds_walk_m rel host abs owned kept rest s = (true, segs', s')
    /\ map sg_text segs' = rds_walk rel host abs (map sg_text kept) (map sg_text rest)
    /\ segsub segs' (rev kept ++ rest) /\ st_le s s'.
Proof.
  induction rest as [|w nxt IH]; intros kept s Hnf.
  - exists (rev kept), s. cbn [rds_walk_m rds_walk map]. rewrite map_rev, app_nil_r.
    split; [reflexivity|]. split; [reflexivity|]. split; [apply segsub_refl|apply st_le_refl].
  - cbn [rds_walk_m rds_walk map].
    Ltac rds_rec IH Hnf s0 :=
      match goal with
      | |- context [rds_walk_m _ _ _ _ ?k ?r ?s1] =>
        let segs' := fresh "segs'" in let s' := fresh "s'" in
        let E := fresh "E" in let V := fresh "V" in let S := fresh "S" in let L := fresh "L" in
        assert (st_le s0 s1) as L by sle;
        destruct (IH k s1 (st_le_nofault _ _ L Hnf)) as (segs' & s' & E & V & S & L');
        exists segs', s'; rewrite E; split; [reflexivity|];
        split; [rewrite V; cbn [map]; reflexivity|];
        split; [eapply segsub_weaken; [|exact S]; sublist_solve|eapply st_le_trans; [exact L|exact L']]
      end.
    Ltac rds_leaf :=
      rewrite ?blank_seg_eq;
      eexists; eexists; split; [reflexivity|];
      split; [cbn [map rev sg_text app]; repeat (progress (rewrite ?map_app, ?map_rev; cbn [map rev sg_text app])); reflexivity|];
      split; [segsub_solve|sle].
    destruct (seg_dot (sg_text w)) eqn:Ed; [|destruct (seg_dotdot (sg_text w)) eqn:Edd].
    + destruct kept as [|p kk]; destruct nxt as [|n1 nn]; cbn [map andb];
        rewrite ?andb_false_r, ?andb_true_r; cbn [andb].
      * destruct host; rds_leaf.
      * destruct (rel && has_colon (sg_text n1)); rds_rec IH Hnf s.
      * rds_leaf.
      * rds_rec IH Hnf s.
    + destruct kept as [|p [|pp kk]]; destruct nxt as [|n1 nn]; cbn [map andb];
        rewrite ?andb_false_r, ?andb_true_r; cbn [andb].
      * destruct rel; [rds_rec IH Hnf s|]. destruct abs; rds_leaf.
      * destruct rel; rds_rec IH Hnf s.
      * destruct (rel && seg_dotdot (sg_text p)); [rds_rec IH Hnf s|]. destruct abs; rds_leaf.
      * destruct (rel && seg_dotdot (sg_text p)); rds_rec IH Hnf s.
      * destruct (rel && seg_dotdot (sg_text p)); [rds_rec IH Hnf s|].
        rewrite (alloc_nf _ _ _ Hnf). rds_leaf.
      * destruct (rel && seg_dotdot (sg_text p)); rds_rec IH Hnf s.
    + rds_rec IH Hnf s.
Qed.

Lemma set_m_segs_same m : set_m_segs (m_segs m) m = m.
Proof. destruct m; reflexivity. Qed.

Lemma remove_dot_segments_m_nf rel owned m s : nofault s ->
  exists segs' s', remove_dot_segments_m rel owned m s = (true, set_m_segs segs' m, s')
    /\ erase (set_m_segs segs' m) = remove_dot_segments rel (erase m)
    /\ segsub segs' (m_segs m) /\ st_le s s'.
Proof.
  intros Hnf. unfold remove_dot_segments_m, remove_dot_segments.
  change (pathSegs (erase m)) with (map sg_text (m_segs m)).
  destruct (m_segs m) as [|sg r] eqn:Es.
  - assert (set_m_segs [] m = m) as Hm by (rewrite <- Es; apply set_m_segs_same).
    exists [], s. rewrite Hm. cbn [map]. split; [reflexivity|]. split; [reflexivity|].
    split; [constructor|apply st_le_refl].
  - destruct (rds_walk_m_nf rel (m_host_set m) (m_abs m) owned (sg :: r) [] s Hnf) as (segs' & s' & E & V & S & L).
    rewrite E. exists segs', s'. split; [reflexivity|]. split; [|split; [exact S|exact L]].
    change (erase (set_m_segs segs' m)) with (set_pathSegs (map sg_text segs') (erase m)).
    rewrite V. reflexivity.
Qed.

Lemma fix_empty_trail_m_nf m s :
  exists segs' s', fix_empty_trail_m m s = (set_m_segs segs' m, s')
    /\ erase (set_m_segs segs' m) = fix_empty_trail_segment (erase m)
    /\ segsub segs' (m_segs m) /\ st_le s s'.
Proof.
  unfold fix_empty_trail_m, fix_empty_trail_segment.
  change (pathSegs (erase m)) with (map sg_text (m_segs m)).
  change (is_host_set (erase m)) with (m_host_set m).
  assert (exists s', (m, s) = (set_m_segs (m_segs m) m, s')
            /\ erase (set_m_segs (m_segs m) m) = erase m /\ segsub (m_segs m) (m_segs m) /\ st_le s s') as Hsame.
  { exists s. rewrite set_m_segs_same. split; [reflexivity|]. split; [reflexivity|]. split; [apply segsub_refl|apply st_le_refl]. }
  destruct (negb (m_host_set m)).
  - destruct (m_segs m) as [|sg [|sg2 r]] eqn:Es; cbn [map].
    + destruct Hsame as (s' & A & B & C & D). exists [], s'. split; [exact A|split; [exact B|split; [exact C|exact D]]].
    + destruct (sg_text sg) eqn:Et.
      * exists [], (free_blk (sg_node sg) s). split; [reflexivity|]. split; [reflexivity|].
        split; [repeat constructor|apply free_blk_le].
      * destruct Hsame as (s' & A & B & C & D). exists [sg], s'. split; [exact A|split; [exact B|split; [exact C|exact D]]].
    + destruct Hsame as (s' & A & B & C & D). exists (sg :: sg2 :: r), s'.
      split; [exact A|]. split; [|split; assumption]. rewrite B. destruct (sg_text sg); reflexivity.
  - destruct Hsame as (s' & A & B & C & D). exists (m_segs m), s'. split; [exact A|split; [exact B|split; [exact C|exact D]]].
Qed.

(* uriFixAmbiguity fires: the path would begin with "//" *)
Definition amb_needed (u : uri) : bool :=
  match absolutePath u, pathSegs u with
  | true, [] :: _ :: _ => true
  | false, [] :: [] :: _ => negb (is_host_set u)
  | _, _ => false
  end.

Lemma fix_ambiguity_needed u :
  fix_ambiguity u = if amb_needed u then set_pathSegs ([46%N] :: pathSegs u) u else u.
Proof.
  unfold fix_ambiguity, amb_needed. destruct (absolutePath u).
  - destruct (pathSegs u) as [|[|c x] [|t2 r]]; reflexivity.
  - destruct (pathSegs u) as [|[|c x] [|[|c2 x2] r]]; try reflexivity. destruct (is_host_set u); reflexivity.
Qed.

(* the guard as uriNormalizeSyntaxEngine uses it, without faults: when it fires the node is the block
   [ms_next s] and the copy of "." is the block after it *)
Lemma fix_ambiguity_owned_m_nf m s : nofault s ->
  exists segs' s', fix_ambiguity_owned_m cs m s = (true, set_m_segs segs' m, s')
    /\ erase (set_m_segs segs' m) = fix_ambiguity (erase m)
    /\ st_le s s'
    /\ ((amb_needed (erase m) = false /\ segs' = m_segs m /\ s' = s)
        \/ (amb_needed (erase m) = true
            /\ segs' = {| sg_text := [46%N]; sg_blk := Some (S (ms_next s)); sg_node := ms_next s |} :: m_segs m
            /\ s' = push_alloc false (tlen [46%N] * cs) (push_alloc false SEG_SIZE s))).
Proof.
  intros Hnf. unfold fix_ambiguity_owned_m. rewrite fix_ambiguity_needed.
  change (match m_abs m with
          | true => match map sg_text (m_segs m) with [] :: _ :: _ => true | _ => false end
          | false => match map sg_text (m_segs m) with [] :: [] :: _ => negb (m_host_set m) | _ => false end
          end) with (amb_needed (erase m)).
  destruct (amb_needed (erase m)) eqn:En.
  - rewrite (alloc_nf _ _ _ Hnf).
    assert (nofault (push_alloc false SEG_SIZE s)) as Hnf1 by (apply (st_le_nofault _ _ (push_alloc_le _ _ _) Hnf)).
    rewrite (alloc_nf _ _ _ Hnf1). rewrite push_alloc_next.
    eexists; eexists. split; [reflexivity|]. split; [reflexivity|].
    split; [eapply st_le_trans; apply push_alloc_le|]. right. split; [reflexivity|]. split; reflexivity.
  - exists (m_segs m), s. rewrite set_m_segs_same. split; [reflexivity|]. split; [reflexivity|].
    split; [apply st_le_refl|]. left. split; [reflexivity|]. split; reflexivity.
Qed.

Lemma fix_pct_nil : fix_pct [] = [].
Proof. reflexivity. Qed.

Lemma norm_segs_malloc_nf rest : forall acc s, nofault s ->
  exists segs' s', norm_segs_malloc cs acc rest s = (true, rev acc ++ segs', s')
    /\ map sg_text segs' = map fix_pct (map sg_text rest)
    /\ forallb seg_owned segs' = true /\ st_le s s'
    /\ NoDup (flat_map seg_blk segs')
    /\ Forall (fun b => ms_next s <= b < ms_next s') (flat_map seg_blk segs').
Proof.
  induction rest as [|sg r IH]; intros acc s Hnf.
  - exists [], s. cbn [norm_segs_malloc]. rewrite app_nil_r. split; [reflexivity|]. split; [reflexivity|].
    split; [reflexivity|]. split; [apply st_le_refl|]. split; constructor.
  - cbn [norm_segs_malloc]. destruct (sg_text sg) as [|c x] eqn:Et.
    + destruct (IH (sg :: acc) s Hnf) as (segs' & s' & E & V & O & L & ND & F).
      exists (sg :: segs'), s'. rewrite E. cbn [rev]. rewrite <- app_assoc. cbn [app].
      split; [reflexivity|]. cbn [map forallb flat_map]. rewrite V, O, Et. unfold seg_owned, seg_blk. rewrite Et.
      cbn [app andb]. repeat split; try assumption; apply L.
    + rewrite (alloc_nf _ _ _ Hnf).
      destruct (IH ({| sg_text := fix_pct (c :: x); sg_blk := Some (ms_next s); sg_node := sg_node sg |} :: acc)
                   (push_alloc false (tlen (c :: x) * cs) s)
                   (st_le_nofault _ _ (push_alloc_le _ _ _) Hnf)) as (segs' & s' & E & V & O & L & ND & F).
      exists ({| sg_text := fix_pct (c :: x); sg_blk := Some (ms_next s); sg_node := sg_node sg |} :: segs'), s'.
      rewrite E. cbn [rev]. rewrite <- app_assoc. cbn [app].
      split; [reflexivity|]. cbn [map forallb flat_map sg_text]. rewrite V, O, Et.
      unfold seg_owned at 1, seg_blk at 1 3. cbn [sg_text sg_blk is_some blk_list andb].
      destruct L as [L1 L2]. rewrite push_alloc_next in *. cbn [ms_plan push_alloc] in L1.
      split; [reflexivity|]. split; [destruct (fix_pct (c :: x)); reflexivity|]. split; [split; [exact L1|lia]|].
      assert (Forall (fun b => ms_next s <= b < ms_next s') (flat_map seg_blk segs')) as F'
        by (eapply Forall_impl; [|exact F]; cbn; intros; lia).
      destruct (fix_pct (c :: x)); cbn [app]; [split; assumption|]. split.
      * constructor; [|exact ND]. intros Hi. rewrite Forall_forall in F. specialize (F _ Hi). lia.
      * constructor; [lia|exact F'].
Qed.

(* ---------------------------------------------------------------- normalisation of a borrowed object *)
Definition n_host (mask : N) : stage := fun m done s =>
  if bit mask M_HOST then
    match t_val (m_ipFuture m) with
    | Some _ =>
      match norm_text cs false lowercase (m_ipFuture m) s with
      | (Some t, s') => (Some (set_m_hostText {| t_val := t_val t; t_blk := None |} (set_m_ipFuture t m),
                               N.lor done B_HOST), s')
      | (None, s') => (None, s')
      end
    | None =>
      match t_val (m_hostText m), m_ip4 m, m_ip6 m with
      | Some _, None, None =>
        match norm_text cs false (fun x => lowercase_except_pct (fix_pct x)) (m_hostText m) s with
        | (Some t, s') => (Some (set_m_hostText t m, N.lor done B_HOST), s')
        | (None, s') => (None, s')
        end
      | _, _, _ => (Some (m, done), s)
      end
    end
  else (Some (m, done), s).

Definition F_host (mask : N) (u : uri) : uri :=
  if bit mask M_HOST then
    match ipFuture u with
    | Some t => let t' := lowercase t in set_hostText (Some t') (set_ipFuture (Some t') u)
    | None =>
      match hostText u, ip4 u, ip6 u with
      | Some t, None, None => set_hostText (Some (lowercase_except_pct (fix_pct t))) u
      | _, _, _ => u
      end
    end
  else u.

Definition n_path_full (mask : N) (m : muri) (done : N) (s : mstate) : option (muri * N) * muri * N * mstate :=
  if bit mask M_PATH then
    let relative := negb (is_some (t_val (m_scheme m))) && negb (m_abs m) && negb (m_host_set m) in
    let step1 : bool * muri * N * mstate :=
        let '(ok, segs, s') := norm_segs_malloc cs [] (m_segs m) s in
        (ok, set_m_segs segs m, if ok then N.lor done B_PATH else done, s') in
    match step1 with
    | (false, m1, done1, s1) => (None, m1, done1, s1)
    | (true, m1, done1, s1) =>
      let '(ok, m2, s2) := remove_dot_segments_m relative (false || negb (N.land done1 B_PATH =? 0)%N) m1 s1 in
      if ok then
        let '(ok', m2', s2') := fix_ambiguity_owned_m cs m2 s2 in
        if ok' then let '(m3, s3) := fix_empty_trail_m m2' s2' in (Some (m3, done1), m3, done1, s3)
        else (None, m2', done1, s2')
      else (None, m2, done1, s2)
    end
  else (Some (m, done), m, done, s).

Definition n_path (mask : N) : stage := fun m done s =>
  let '(r, _, _, s') := n_path_full mask m done s in (r, s').

(* the value at the path step after the percent-encodings were fixed and the dot segments removed *)
Definition path_rds (u : uri) : uri :=
  let relative := negb (is_some (scheme u)) && negb (absolutePath u) && negb (is_host_set u) in
  remove_dot_segments relative (set_pathSegs (map fix_pct (pathSegs u)) u).

Definition F_path (mask : N) (u : uri) : uri :=
  if bit mask M_PATH then fix_empty_trail_segment (fix_ambiguity (path_rds u)) else u.

(* the path step inserts the "." segment (a condition on the value alone) *)
Definition guard_at (mask : N) (u : uri) : bool := bit mask M_PATH && amb_needed (path_rds u).

Lemma lowercase_nil : lowercase [] = []. Proof. reflexivity. Qed.
Lemma lep_fix_nil : (fun x : text => lowercase_except_pct (fix_pct x)) [] = []. Proof. reflexivity. Qed.

Lemma n_host_spec mask : stage_spec (n_host mask) (F_host mask) None.
Proof.
  intros lo own m done s (Hnf & HI & Hh & HG) Hsub Ho. unfold n_host, F_host.
  assert (exists m' done' own' s', (Some (m, done), s) = (Some (m', done'), s') /\ G lo own' m' s' /\ sub done' own'
            /\ sub own own' /\ erase m' = erase m /\ m_owner m' = false /\ st_le s s' /\ True) as Hsame.
  { exists m, done, own, s. split; [reflexivity|]. split; [apply mkG; assumption|]. split; [exact Hsub|].
    split; [apply sub_refl|]. split; [reflexivity|]. split; [exact Ho|]. split; [apply st_le_refl|exact I]. }
  destruct (bit mask M_HOST); [|exact Hsame].
  change (ipFuture (erase m)) with (t_val (m_ipFuture m)).
  change (hostText (erase m)) with (t_val (m_hostText m)).
  destruct (t_val (m_ipFuture m)) as [x|] eqn:Ef.
  - destruct (norm_text_nf lowercase (m_ipFuture m) s x Hnf lowercase_nil Ef) as (t' & s' & E & V & O & T & L).
    rewrite E. eexists; exists (N.lor done (2 ^ 2)), (N.lor own (2 ^ cidx CHost)), s'. split; [reflexivity|].
    split; [|split; [|split; [|split; [|split; [|split]]]]].
    + apply mkG; [apply (st_le_nofault _ _ L Hnf)| | |].
      * eapply (inv_sub lo (set_m_ipFuture t' m) s' _ s' 2 (text_blk {| t_val := t_val t'; t_blk := None |}));
          [|reflexivity|rewrite text_blk_noblk; apply sublist_nil|lia].
        eapply (inv_text_step lo m s _ s' 3 (m_ipFuture m) t'); [exact HI|reflexivity|reflexivity|exact T].
      * intros y Hy. cbn in *. exact Hy.
      * apply (own_after own CHost m); [exact HG|intros c' Hne; destruct c'; try reflexivity; congruence|].
        cbn [comp_owned]. unfold host_owned. cbn [m_ipFuture m_hostText set_m_hostText set_m_ipFuture].
        rewrite V. exact O.
    + apply sub_lor; exact Hsub.
    + apply sub_lor_r.
    + unfold erase. cbn [m_scheme m_userInfo m_hostText m_ip4 m_ip6 m_ipFuture m_portText m_segs m_query m_fragment m_abs m_owner set_m_hostText set_m_ipFuture t_val].
      rewrite V. reflexivity.
    + exact Ho.
    + exact L.
    + exact I.
  - change (ip4 (erase m)) with (match m_ip4 m with Some (b, _) => Some b | None => None end).
    change (ip6 (erase m)) with (match m_ip6 m with Some (b, _) => Some b | None => None end).
    destruct (t_val (m_hostText m)) as [x|] eqn:Eh; [|destruct (m_ip4 m) as [[? ?]|], (m_ip6 m) as [[? ?]|]; exact Hsame].
    destruct (m_ip4 m) as [[? ?]|] eqn:E4; [exact Hsame|].
    destruct (m_ip6 m) as [[? ?]|] eqn:E6; [exact Hsame|].
    destruct (norm_text_nf (fun x : text => lowercase_except_pct (fix_pct x)) (m_hostText m) s x Hnf lep_fix_nil Eh)
      as (t' & s' & E & V & O & T & L).
    rewrite E. eexists; exists (N.lor done (2 ^ 2)), (N.lor own (2 ^ cidx CHost)), s'. split; [reflexivity|].
    split; [|split; [|split; [|split; [|split; [|split]]]]].
    + apply mkG; [apply (st_le_nofault _ _ L Hnf)| | |].
      * eapply (inv_text_step lo m s _ s' 2 (m_hostText m) t'); [exact HI|reflexivity|reflexivity|exact T].
      * intros y Hy. cbn in Hy. rewrite Ef in Hy. discriminate Hy.
      * apply (own_after own CHost m); [exact HG|intros c' Hne; destruct c'; try reflexivity; congruence|].
        cbn [comp_owned]. unfold host_owned. cbn [m_ipFuture m_hostText set_m_hostText].
        rewrite Ef. exact O.
    + apply sub_lor; exact Hsub.
    + apply sub_lor_r.
    + unfold erase. cbn [m_scheme m_userInfo m_hostText m_ip4 m_ip6 m_ipFuture m_portText m_segs m_query m_fragment m_abs m_owner set_m_hostText t_val].
      rewrite V. reflexivity.
    + exact Ho.
    + exact L.
    + exact I.
Qed.

Lemma n_path_spec mask : stage_spec (n_path mask) (F_path mask) None.
Proof.
  intros lo own m done s (Hnf & HI & Hh & HG) Hsub Ho. unfold n_path, n_path_full, F_path.
  destruct (bit mask M_PATH).
  2:{ exists m, done, own, s. split; [reflexivity|]. split; [apply mkG; assumption|]. split; [exact Hsub|].
      split; [apply sub_refl|]. split; [reflexivity|]. split; [exact Ho|]. split; [apply st_le_refl|exact I]. }
  cbv zeta.
  destruct (norm_segs_malloc_nf (m_segs m) [] s Hnf) as (segs1 & s1 & E1 & V1 & O1 & L1 & ND1 & F1).
  rewrite E1. cbn [rev app].
  set (rel := negb (is_some (t_val (m_scheme m))) && negb (m_abs m) && negb (m_host_set m)).
  set (ow := false || negb (N.land (N.lor done B_PATH) B_PATH =? 0)%N).
  pose proof (st_le_nofault _ _ L1 Hnf) as Hnf1.
  destruct (remove_dot_segments_m_nf rel ow (set_m_segs segs1 m) s1 Hnf1) as (segs2 & s2 & E2 & R2 & S2 & L2).
  rewrite E2.
  pose proof (st_le_nofault _ _ L2 Hnf1) as Hnf2.
  destruct (fix_ambiguity_owned_m_nf (set_m_segs segs2 (set_m_segs segs1 m)) s2 Hnf2) as (segsA & sA & EA & RA & LA & CA).
  rewrite EA.
  destruct (fix_empty_trail_m_nf (set_m_segs segsA (set_m_segs segs2 (set_m_segs segs1 m))) sA) as (segs3 & s3 & E3 & R3 & S3 & L3).
  rewrite E3.
  eexists; exists (N.lor done (2 ^ 3)), (N.lor own (2 ^ cidx CPath)), s3. split; [reflexivity|].
  cbn [m_segs set_m_segs] in S2, S3, CA.
  assert (Inv lo (set_m_segs segs2 (set_m_segs segs1 m)) s2) as HI2.
  { eapply (inv_sub lo (set_m_segs segs1 m) s1 _ s2 5 (flat_map seg_blk segs2));
      [|reflexivity|apply segsub_blocks; exact S2|apply L2].
    eapply (inv_fresh lo m s _ s1 5 (flat_map seg_blk segs1)); [exact HI|reflexivity|exact ND1|exact F1|apply L1]. }
  assert (forallb seg_owned segs2 = true) as O2 by (eapply segsub_owned; [exact S2|exact O1]).
  assert (Inv lo (set_m_segs segsA (set_m_segs segs2 (set_m_segs segs1 m))) sA /\ forallb seg_owned segsA = true) as [HIA OA].
  { destruct CA as [(_ & -> & ->)|(_ & -> & ->)]; [split; assumption|]. split.
    - eapply (inv_add lo (set_m_segs segs2 (set_m_segs segs1 m)) s2 _ _ 5 [S (ms_next s2)]); [exact HI2|reflexivity| | |].
      + constructor; [intros []|constructor].
      + constructor; [rewrite !push_alloc_next; lia|constructor].
      + rewrite !push_alloc_next. lia.
    - cbn [forallb]. rewrite O2. reflexivity. }
  split; [|split; [|split; [|split; [|split; [|split]]]]].
  - apply mkG.
    + apply (st_le_nofault _ _ L3). apply (st_le_nofault _ _ LA). exact Hnf2.
    + eapply (inv_sub lo (set_m_segs segsA (set_m_segs segs2 (set_m_segs segs1 m))) sA _ s3 5 (flat_map seg_blk segs3));
        [exact HIA|reflexivity|apply segsub_blocks; exact S3|apply L3].
    + exact Hh.
    + apply (own_after own CPath m); [exact HG|intros c' Hne; destruct c'; try reflexivity; congruence|].
      cbn [comp_owned m_segs set_m_segs]. eapply segsub_owned; [exact S3|exact OA].
  - apply sub_lor; exact Hsub.
  - apply sub_lor_r.
  - rewrite R3, RA, R2. unfold path_rds.
    change (erase (set_m_segs segs1 m)) with (set_pathSegs (map sg_text segs1) (erase m)).
    rewrite V1. reflexivity.
  - exact Ho.
  - eapply st_le_trans; [exact L1|]. eapply st_le_trans; [exact L2|]. eapply st_le_trans; [exact LA|exact L3].
  - exact I.
Qed.

(* normalize_m on a borrowed object, written with the stages *)
Definition normalize_b (mask : N) (m : muri) (s : mstate) : N * muri * mstate :=
  if (mask =? 0)%N then (URI_SUCCESS, m, s)
  else
    let fail (m : muri) (done : N) (s : mstate) :=
      let '(m', s') := prevent_leakage m done s in (URI_ERROR_MALLOC, m', s') in
    match n_text (bit mask M_SCHEME) lowercase B_SCHEME m_scheme set_m_scheme m 0%N s with
    | (None, s) => fail m 0%N s
    | (Some (m, done), s) =>
    match n_host mask m done s with
    | (None, s) => fail m done s
    | (Some (m, done), s) =>
    match n_text (bit mask M_USER_INFO) fix_pct B_USER m_userInfo set_m_userInfo m done s with
    | (None, s) => fail m done s
    | (Some (m, done), s) =>
    match n_path_full mask m done s with
    | (None, mf, donef, s) => fail mf donef s
    | (Some (m, done), _, _, s) =>
    match n_text (bit mask M_QUERY) fix_pct B_QUERY m_query set_m_query m done s with
    | (None, s) => fail m done s
    | (Some (m, done), s) =>
    match n_text (bit mask M_FRAGMENT) fix_pct B_FRAG m_fragment set_m_fragment m done s with
    | (None, s) => fail m done s
    | (Some (m, done), s) =>
    match make_owner_engine cs m done s with
    | (true, m', _, s') => (URI_SUCCESS, set_m_owner true m', s')
    | (false, m', done', s') => fail m' done' s'
    end end end end end end end.

Lemma normalize_b_eq mask m s : m_owner m = false -> normalize_m cs mask m s = normalize_b mask m s.
Proof. intros Ho. unfold normalize_m. rewrite Ho. reflexivity. Qed.

Definition F_text (cond : bool) (f : text -> text) (pget : uri -> option text) (pset : option text -> uri -> uri)
  (u : uri) : uri := if cond then pset (omap f (pget u)) u else u.

Lemma normalize_unfold mask u :
  normalize mask u =
  if (mask =? 0)%N then u
  else set_owner true
         (F_text (bit mask M_FRAGMENT) fix_pct fragment set_fragment
         (F_text (bit mask M_QUERY) fix_pct query set_query
         (F_path mask
         (F_text (bit mask M_USER_INFO) fix_pct userInfo set_userInfo
         (F_host mask
         (F_text (bit mask M_SCHEME) lowercase scheme set_scheme u)))))).
Proof. reflexivity. Qed.

Lemma normalize_m_zero m s : normalize_m cs 0 m s = (URI_SUCCESS, m, s).
Proof. reflexivity. Qed.

Lemma normalize_m_borrowed mask m s :
  nofault s -> m_owner m = false -> mwf_host m -> text_blocks m = [] -> mask <> 0%N ->
  exists m' s', normalize_m cs mask m s = (URI_SUCCESS, m', s')
    /\ erase m' = normalize mask (erase m)
    /\ m_owner m' = true /\ all_owned m' = true /\ mwf m'
    /\ NoDup (text_blocks m')
    /\ Forall (fun b => ms_next s <= b < ms_next s') (text_blocks m')
    /\ nofault s'.
Proof.
  intros Hnf Ho Hh Hb Hmask. rewrite (normalize_b_eq _ _ _ Ho), normalize_unfold. unfold normalize_b.
  apply N.eqb_neq in Hmask. rewrite Hmask.
  pose proof (G_start m s Hnf Hh Hb) as G0.
  destruct (n_scheme_spec (bit mask M_SCHEME) lowercase lowercase_nil _ _ _ _ _ G0 (sub_refl _) Ho)
    as (m1 & d1 & o1 & s1 & E1 & G1 & S1 & U1 & R1 & W1 & L1 & _).
  destruct (n_host_spec mask _ _ _ _ _ G1 S1 W1) as (m2 & d2 & o2 & s2 & E2 & G2 & S2 & U2 & R2 & W2 & L2 & _).
  destruct (n_user_spec (bit mask M_USER_INFO) fix_pct fix_pct_nil _ _ _ _ _ G2 S2 W2)
    as (m3 & d3 & o3 & s3 & E3 & G3 & S3 & U3 & R3 & W3 & L3 & _).
  destruct (n_path_spec mask _ _ _ _ _ G3 S3 W3) as (m4 & d4 & o4 & s4 & E4 & G4 & S4 & U4 & R4 & W4 & L4 & _).
  destruct (n_query_spec (bit mask M_QUERY) fix_pct fix_pct_nil _ _ _ _ _ G4 S4 W4)
    as (m5 & d5 & o5 & s5 & E5 & G5 & S5 & U5 & R5 & W5 & L5 & _).
  destruct (n_frag_spec (bit mask M_FRAGMENT) fix_pct fix_pct_nil _ _ _ _ _ G5 S5 W5)
    as (m6 & d6 & o6 & s6 & E6 & G6 & S6 & U6 & R6 & W6 & L6 & _).
  destruct (engine_nf _ _ _ _ _ G6 S6 W6) as (m7 & d7 & o7 & s7 & E7 & (Hnf7 & (I1 & I2 & I3) & Hh7 & _) & Hall & R7 & W7 & L7).
  rewrite E1, E2, E3. unfold n_path in E4.
  destruct (n_path_full mask m3 d3 s3) as [[[r mf] df] sf]. injection E4 as -> ->.
  rewrite E5, E6, E7.
  exists (set_m_owner true m7), s7. split; [reflexivity|].
  split.
  { change (erase (set_m_owner true m7)) with (set_owner true (erase m7)).
    rewrite R7, R6, R5, R4, R3, R2, R1. reflexivity. }
  split; [reflexivity|]. split; [exact Hall|].
  assert (ms_next s <= ms_next s6) as Hle.
  { destruct L1, L2, L3, L4, L5, L6. lia. }
  split; [|split; [exact I2|split; [|exact Hnf7]]].
  - split; [exact Hh7|]. split; [exact I2|]. split; [intros _; exact Hall|discriminate].
  - exact I3.
Qed.

(* ---------------------------------------------------------------- normalisation of an owned object (in place) *)
Definition Go (m : muri) : Prop := mwf_host m /\ all_owned m = true.

(* what a stage of the in-place normalisation does to the text blocks: the block invariant is kept, and
   a block of the result was a block of the object or was handed out during the stage *)
Definition ostep (m : muri) (s : mstate) (m' : muri) (s' : mstate) : Prop :=
  (forall lo, Inv lo m s -> Inv lo m' s')
  /\ (forall b, In b (text_blocks m') -> In b (text_blocks m) \/ ms_next s <= b < ms_next s').

Lemma ostep_sublist m s m' s' : sublist (text_blocks m') (text_blocks m) -> st_le s s' -> ostep m s m' s'.
Proof.
  intros Hs [_ Hl]. split.
  - intros lo (H1 & H2 & H3). split; [lia|]. split; [eapply sublist_NoDup; eassumption|].
    eapply sublist_Forall; [exact Hs|]. eapply Forall_impl; [|exact H3]. cbn. intros; lia.
  - intros b Hb. left. eapply sublist_In; eassumption.
Qed.
Lemma ostep_trans m s m1 s1 m2 s2 : st_le s s1 -> st_le s1 s2 -> ostep m s m1 s1 -> ostep m1 s1 m2 s2 -> ostep m s m2 s2.
Proof.
  intros [_ L1] [_ L2] [A1 B1] [A2 B2]. split; [intros lo H; apply A2, A1, H|].
  intros b Hb. destruct (B2 b Hb) as [H|H]; [|right; lia]. destruct (B1 b H) as [H'|H']; [left; exact H'|right; lia].
Qed.

(* [guard]: a condition on the value under which the stage may receive a text block; without it the text
   blocks of the result are text blocks of the object *)
Definition ostage_spec (st : stage) (F : uri -> uri) (guard : uri -> bool) : Prop :=
  forall m done s, nofault s -> m_owner m = true -> Go m ->
  exists m' s', st m done s = (Some (m', done), s')
    /\ Go m' /\ erase m' = F (erase m) /\ m_owner m' = true
    /\ ostep m s m' s' /\ (guard (erase m) = false -> sublist (text_blocks m') (text_blocks m)) /\ st_le s s'.
Definition no_guard (u : uri) : bool := false.

Definition o_text (cond : bool) (f : text -> text) (get : muri -> mtext) (set : mtext -> muri -> muri) : stage :=
  fun m done s =>
    if cond && is_some (t_val (get m)) then
      match norm_text cs true f (get m) s with
      | (Some t, s') => (Some (set t m, done), s')
      | (None, s') => (None, s')
      end
    else (Some (m, done), s).

Lemma all_owned_set c m m' :
  all_owned m = true -> (forall c', c' <> c -> comp_owned c' m' = comp_owned c' m) -> comp_owned c m' = true ->
  all_owned m' = true.
Proof.
  intros Ha Hfr Hc. apply all_owned_comps. intros c'. destruct (comp_eq_dec c' c) as [->|Hne]; [exact Hc|].
  rewrite (Hfr _ Hne). apply all_owned_comp. exact Ha.
Qed.

Lemma norm_text_owned f t x : f [] = [] -> t_val t = Some x -> text_owned t = true ->
  let t' := {| t_val := Some (f x); t_blk := t_blk t |} in
  text_owned t' = true /\ sublist (text_blk t') (text_blk t).
Proof.
  intros Hf Ev Ho. unfold text_owned, text_blk in *. rewrite Ev in *. cbn [t_val t_blk].
  destruct x as [|c x].
  - rewrite Hf. split; [reflexivity|constructor].
  - destruct (f (c :: x)); split; try reflexivity; try exact Ho; [apply sublist_nil|apply sublist_refl].
Qed.

Section OTextComp.
Variables (c : comp) (get : muri -> mtext) (set : mtext -> muri -> muri) (i : nat)
          (pget : uri -> option text) (pset : option text -> uri -> uri).
Hypothesis Hparts : forall t m, block_parts (set t m) = upd i (text_blk t) (block_parts m).
Hypothesis Hnth : forall m, nth i (block_parts m) [] = text_blk (get m).
Hypothesis Hown_set : forall t m, comp_owned c (set t m) = text_owned t.
Hypothesis Hown_get : forall m, comp_owned c m = text_owned (get m).
Hypothesis Hframe : forall c' t m, c' <> c -> comp_owned c' (set t m) = comp_owned c' m.
Hypothesis Herase : forall t m, erase (set t m) = pset (t_val t) (erase m).
Hypothesis Hpget : forall m, pget (erase m) = t_val (get m).
Hypothesis Hpsame : forall u, pset (pget u) u = u.
Hypothesis Hhost : forall t m, mwf_host m -> mwf_host (set t m).
Hypothesis Howner : forall t m, m_owner (set t m) = m_owner m.

Lemma ostage_intro st F guard :
  (forall m done s, nofault s -> m_owner m = true -> Go m ->
   exists m' s', st m done s = (Some (m', done), s')
     /\ Go m' /\ erase m' = F (erase m) /\ m_owner m' = true
     /\ sublist (text_blocks m') (text_blocks m) /\ st_le s s') -> ostage_spec st F guard.
Proof.
  intros H m done s Hnf Ho HG. destruct (H m done s Hnf Ho HG) as (m' & s' & E & G' & R & W & B & L).
  exists m', s'. split; [exact E|]. split; [exact G'|]. split; [exact R|]. split; [exact W|].
  split; [apply ostep_sublist; assumption|]. split; [intros _; exact B|exact L].
Qed.

Lemma o_text_spec cond f : f [] = [] -> ostage_spec (o_text cond f get set) (F_text cond f pget pset) no_guard.
Proof.
  intros Hf. apply ostage_intro. intros m done s Hnf Ho (Hh & Ha). unfold o_text, F_text.
  assert (exists m' s', (Some (m, done), s) = (Some (m', done), s') /\ Go m' /\ erase m' = erase m
            /\ m_owner m' = true /\ sublist (text_blocks m') (text_blocks m) /\ st_le s s') as Hsame.
  { exists m, s. split; [reflexivity|]. split; [split; assumption|]. split; [reflexivity|]. split; [exact Ho|].
    split; [apply sublist_refl|apply st_le_refl]. }
  destruct cond; cbn [andb]; [|exact Hsame].
  rewrite Hpget. destruct (t_val (get m)) as [x|] eqn:Ev; cbn [is_some omap].
  2:{ rewrite <- Ev, <- Hpget, Hpsame. exact Hsame. }
  unfold norm_text. rewrite Ev.
  assert (text_owned (get m) = true) as Hto by (rewrite <- Hown_get; apply all_owned_comp; exact Ha).
  destruct (norm_text_owned f (get m) x Hf Ev Hto) as [O1 O2].
  eexists; exists s. split; [reflexivity|]. split; [|split; [|split; [|split]]].
  - split; [apply Hhost; exact Hh|]. apply (all_owned_set c m); [exact Ha|intros c' Hne; apply Hframe; exact Hne|].
    rewrite Hown_set. exact O1.
  - rewrite Herase. reflexivity.
  - rewrite Howner. exact Ho.
  - unfold text_blocks. rewrite Hparts. apply concat_upd_sub. rewrite Hnth. exact O2.
  - apply st_le_refl.
Qed.
End OTextComp.

Lemma o_scheme_spec cond f : f [] = [] -> ostage_spec (o_text cond f m_scheme set_m_scheme) (F_text cond f scheme set_scheme) no_guard.
Proof. apply (o_text_spec CScheme m_scheme set_m_scheme 0%nat scheme set_scheme); tcomp_solve. Qed.
Lemma o_user_spec cond f : f [] = [] -> ostage_spec (o_text cond f m_userInfo set_m_userInfo) (F_text cond f userInfo set_userInfo) no_guard.
Proof. apply (o_text_spec CUser m_userInfo set_m_userInfo 1%nat userInfo set_userInfo); tcomp_solve. Qed.
Lemma o_query_spec cond f : f [] = [] -> ostage_spec (o_text cond f m_query set_m_query) (F_text cond f query set_query) no_guard.
Proof. apply (o_text_spec CQuery m_query set_m_query 6%nat query set_query); tcomp_solve. Qed.
Lemma o_frag_spec cond f : f [] = [] -> ostage_spec (o_text cond f m_fragment set_m_fragment) (F_text cond f fragment set_fragment) no_guard.
Proof. apply (o_text_spec CFrag m_fragment set_m_fragment 7%nat fragment set_fragment); tcomp_solve. Qed.

Definition o_host (mask : N) : stage := fun m done s =>
  if bit mask M_HOST then
    match t_val (m_ipFuture m) with
    | Some _ =>
      match norm_text cs true lowercase (m_ipFuture m) s with
      | (Some t, s') => (Some (set_m_hostText {| t_val := t_val t; t_blk := None |} (set_m_ipFuture t m), done), s')
      | (None, s') => (None, s')
      end
    | None =>
      match t_val (m_hostText m), m_ip4 m, m_ip6 m with
      | Some _, None, None =>
        match norm_text cs true (fun x : text => lowercase_except_pct (fix_pct x)) (m_hostText m) s with
        | (Some t, s') => (Some (set_m_hostText t m, done), s')
        | (None, s') => (None, s')
        end
      | _, _, _ => (Some (m, done), s)
      end
    end
  else (Some (m, done), s).

Definition fix_seg (sg : mseg) : mseg :=
  {| sg_text := fix_pct (sg_text sg); sg_blk := sg_blk sg; sg_node := sg_node sg |}.

Definition o_path_full (mask : N) (m : muri) (done : N) (s : mstate) : option (muri * N) * muri * N * mstate :=
  if bit mask M_PATH then
    let relative := negb (is_some (t_val (m_scheme m))) && negb (m_abs m) && negb (m_host_set m) in
    let m1 := set_m_segs (map fix_seg (m_segs m)) m in
    let '(ok, m2, s2) := remove_dot_segments_m relative (true || negb (N.land done B_PATH =? 0)%N) m1 s in
    if ok then
      let '(ok', m2', s2') := fix_ambiguity_owned_m cs m2 s2 in
      if ok' then let '(m3, s3) := fix_empty_trail_m m2' s2' in (Some (m3, done), m3, done, s3)
      else (None, m2', done, s2')
    else (None, m2, done, s2)
  else (Some (m, done), m, done, s).
Definition o_path (mask : N) : stage := fun m done s =>
  let '(r, _, _, s') := o_path_full mask m done s in (r, s').

Lemma o_host_spec mask : ostage_spec (o_host mask) (F_host mask) no_guard.
Proof.
  apply ostage_intro. intros m done s Hnf Ho (Hh & Ha). unfold o_host, F_host.
  assert (exists m' s', (Some (m, done), s) = (Some (m', done), s') /\ Go m' /\ erase m' = erase m
            /\ m_owner m' = true /\ sublist (text_blocks m') (text_blocks m) /\ st_le s s') as Hsame.
  { exists m, s. split; [reflexivity|]. split; [split; assumption|]. split; [reflexivity|]. split; [exact Ho|].
    split; [apply sublist_refl|apply st_le_refl]. }
  destruct (bit mask M_HOST); [|exact Hsame].
  change (ipFuture (erase m)) with (t_val (m_ipFuture m)).
  change (hostText (erase m)) with (t_val (m_hostText m)).
  pose proof (all_owned_comp m CHost Ha) as Hho. cbn [comp_owned] in Hho. unfold host_owned in Hho.
  destruct (t_val (m_ipFuture m)) as [x|] eqn:Ef.
  - unfold norm_text. rewrite Ef.
    destruct (norm_text_owned lowercase (m_ipFuture m) x lowercase_nil Ef Hho) as [O1 O2].
    eexists; exists s. split; [reflexivity|]. split; [|split; [|split; [|split]]].
    + split; [intros y Hy; cbn in *; exact Hy|].
      apply (all_owned_set CHost m); [exact Ha|intros c' Hne; destruct c'; try reflexivity; congruence|].
      cbn [comp_owned]. unfold host_owned. cbn [m_ipFuture m_hostText set_m_hostText set_m_ipFuture t_val]. exact O1.
    + reflexivity.
    + exact Ho.
    + set (t1 := {| t_val := Some (lowercase x); t_blk := t_blk (m_ipFuture m) |}) in *.
      apply (sublist_trans (text_blocks (set_m_ipFuture t1 m)) (text_blocks m)).
      * apply (concat_upd_sub _ (block_parts m) 3). exact O2.
      * apply (concat_upd_sub (text_blk {| t_val := t_val t1; t_blk := None |}) (block_parts (set_m_ipFuture t1 m)) 2).
        rewrite text_blk_noblk. apply sublist_nil.
    + apply st_le_refl.
  - change (ip4 (erase m)) with (match m_ip4 m with Some (b, _) => Some b | None => None end).
    change (ip6 (erase m)) with (match m_ip6 m with Some (b, _) => Some b | None => None end).
    destruct (t_val (m_hostText m)) as [x|] eqn:Eh; [|destruct (m_ip4 m) as [[? ?]|], (m_ip6 m) as [[? ?]|]; exact Hsame].
    destruct (m_ip4 m) as [[? ?]|] eqn:E4; [exact Hsame|].
    destruct (m_ip6 m) as [[? ?]|] eqn:E6; [exact Hsame|].
    unfold norm_text. rewrite Eh.
    destruct (norm_text_owned (fun x : text => lowercase_except_pct (fix_pct x)) (m_hostText m) x lep_fix_nil Eh Hho) as [O1 O2].
    eexists; exists s. split; [reflexivity|]. split; [|split; [|split; [|split]]].
    + split; [intros y Hy; cbn in Hy; rewrite Ef in Hy; discriminate Hy|].
      apply (all_owned_set CHost m); [exact Ha|intros c' Hne; destruct c'; try reflexivity; congruence|].
      cbn [comp_owned]. unfold host_owned. cbn [m_ipFuture m_hostText set_m_hostText]. rewrite Ef. exact O1.
    + reflexivity.
    + exact Ho.
    + apply (concat_upd_sub _ (block_parts m) 2). exact O2.
    + apply st_le_refl.
Qed.

Lemma fix_seg_blocks segs :
  sublist (flat_map seg_blk (map fix_seg segs)) (flat_map seg_blk segs)
  /\ (forallb seg_owned segs = true -> forallb seg_owned (map fix_seg segs) = true)
  /\ map sg_text (map fix_seg segs) = map fix_pct (map sg_text segs).
Proof.
  induction segs as [|sg r (IH1 & IH2 & IH3)]; [repeat split; constructor|].
  cbn [map flat_map forallb]. split; [|split].
  - apply sublist_app; [|exact IH1]. unfold seg_blk, fix_seg. cbn [sg_text sg_blk].
    destruct (sg_text sg) as [|c x]; [constructor|]. destruct (fix_pct (c :: x)); [apply sublist_nil|apply sublist_refl].
  - intros H. apply andb_prop in H. destruct H as [H1 H2]. rewrite (IH2 H2), andb_true_r.
    unfold seg_owned, fix_seg in *. cbn [sg_text sg_blk].
    destruct (sg_text sg) as [|c x]; [reflexivity|]. destruct (fix_pct (c :: x)); [reflexivity|exact H1].
  - rewrite IH3. reflexivity.
Qed.

Lemma o_path_spec mask : ostage_spec (o_path mask) (F_path mask) (guard_at mask).
Proof.
  intros m done s Hnf Ho (Hh & Ha). unfold o_path, o_path_full, F_path, guard_at.
  destruct (bit mask M_PATH).
  2:{ exists m, s. split; [reflexivity|]. split; [split; assumption|]. split; [reflexivity|]. split; [exact Ho|].
      split; [apply ostep_sublist; [apply sublist_refl|apply st_le_refl]|]. split; [intros _; apply sublist_refl|apply st_le_refl]. }
  cbv zeta. cbn [andb].
  set (rel := negb (is_some (t_val (m_scheme m))) && negb (m_abs m) && negb (m_host_set m)).
  set (ow := true || negb (N.land done B_PATH =? 0)%N).
  destruct (fix_seg_blocks (m_segs m)) as (B1 & B2 & B3).
  destruct (remove_dot_segments_m_nf rel ow (set_m_segs (map fix_seg (m_segs m)) m) s Hnf) as (segs2 & s2 & E2 & R2 & S2 & L2).
  rewrite E2.
  pose proof (st_le_nofault _ _ L2 Hnf) as Hnf2.
  set (m2 := set_m_segs segs2 (set_m_segs (map fix_seg (m_segs m)) m)) in *.
  destruct (fix_ambiguity_owned_m_nf m2 s2 Hnf2) as (segsA & sA & EA & RA & LA & CA).
  rewrite EA.
  destruct (fix_empty_trail_m_nf (set_m_segs segsA m2) sA) as (segs3 & s3 & E3 & R3 & S3 & L3).
  rewrite E3. cbn [m_segs set_m_segs m2] in S2, S3, CA.
  assert (erase m2 = path_rds (erase m)) as Rm2.
  { rewrite R2. unfold path_rds.
    change (erase (set_m_segs (map fix_seg (m_segs m)) m)) with (set_pathSegs (map sg_text (map fix_seg (m_segs m))) (erase m)).
    rewrite B3. reflexivity. }
  assert (forallb seg_owned segs2 = true) as O2.
  { eapply segsub_owned; [exact S2|]. apply B2. apply (all_owned_comp m CPath Ha). }
  assert (sublist (text_blocks m2) (text_blocks m)) as Sb2.
  { apply (concat_upd_sub (flat_map seg_blk segs2) (block_parts m) 5). cbn [nth block_parts].
    eapply sublist_trans; [exact B1|]. apply segsub_blocks; exact S2. }
  assert (sublist (text_blocks (set_m_segs segs3 (set_m_segs segsA m2))) (text_blocks (set_m_segs segsA m2))) as Sb3.
  { apply (concat_upd_sub (flat_map seg_blk segs3) (block_parts (set_m_segs segsA m2)) 5). cbn [nth block_parts m_segs set_m_segs].
    apply segsub_blocks; exact S3. }
  assert (forallb seg_owned segsA = true /\ ostep m2 s2 (set_m_segs segsA m2) sA
          /\ (amb_needed (erase m2) = false -> sublist (text_blocks (set_m_segs segsA m2)) (text_blocks m2))) as (OA & StA & SbA).
  { destruct CA as [(_ & -> & ->)|(En & -> & ->)].
    - split; [exact O2|]. unfold m2 at 2 4. cbn [m_segs set_m_segs]. fold m2.
      split; [apply ostep_sublist; [apply sublist_refl|apply st_le_refl]|intros _; apply sublist_refl].
    - split; [cbn [forallb]; rewrite O2; reflexivity|]. split; [|intros H; rewrite H in En; discriminate En].
      split.
      + intros lo HI2. eapply (inv_add lo m2 s2 _ _ 5 [S (ms_next s2)]); [exact HI2|reflexivity| | |].
        * constructor; [intros []|constructor].
        * constructor; [rewrite !push_alloc_next; lia|constructor].
        * rewrite !push_alloc_next. lia.
      + intros b Hb. unfold text_blocks in Hb.
        change (block_parts (set_m_segs ({| sg_text := [46%N]; sg_blk := Some (S (ms_next s2)); sg_node := ms_next s2 |} :: segs2) m2))
          with (upd 5 ([S (ms_next s2)] ++ nth 5 (block_parts m2) []) (block_parts m2)) in Hb.
        destruct (in_concat_upd_add _ _ _ _ Hb) as [[<-|[]]|H]; [right; rewrite !push_alloc_next; lia|left; exact H]. }
  eexists; exists s3. split; [reflexivity|]. split; [|split; [|split; [|split; [|split]]]].
  - split; [exact Hh|].
    apply (all_owned_set CPath m); [exact Ha|intros c' Hne; destruct c'; try reflexivity; congruence|].
    cbn [comp_owned m_segs set_m_segs]. eapply segsub_owned; [exact S3|exact OA].
  - rewrite R3, RA, Rm2. reflexivity.
  - exact Ho.
  - apply (ostep_trans m s m2 s2); [exact L2|eapply st_le_trans; [exact LA|exact L3]|apply ostep_sublist; assumption|].
    apply (ostep_trans m2 s2 (set_m_segs segsA m2) sA); [exact LA|exact L3|exact StA|apply ostep_sublist; assumption].
  - rewrite <- Rm2. intros Hg. eapply sublist_trans; [exact Sb2|]. eapply sublist_trans; [apply SbA; exact Hg|exact Sb3].
  - eapply st_le_trans; [exact L2|]. eapply st_le_trans; [exact LA|exact L3].
Qed.

Definition normalize_o (mask : N) (m : muri) (s : mstate) : N * muri * mstate :=
  if (mask =? 0)%N then (URI_SUCCESS, m, s)
  else
    let fail (m : muri) (done : N) (s : mstate) :=
      let '(m', s') := prevent_leakage m done s in (URI_ERROR_MALLOC, m', s') in
    match o_text (bit mask M_SCHEME) lowercase m_scheme set_m_scheme m 0%N s with
    | (None, s) => fail m 0%N s
    | (Some (m, done), s) =>
    match o_host mask m done s with
    | (None, s) => fail m done s
    | (Some (m, done), s) =>
    match o_text (bit mask M_USER_INFO) fix_pct m_userInfo set_m_userInfo m done s with
    | (None, s) => fail m done s
    | (Some (m, done), s) =>
    match o_path_full mask m done s with
    | (None, mf, donef, s) => fail mf donef s
    | (Some (m, done), _, _, s) =>
    match o_text (bit mask M_QUERY) fix_pct m_query set_m_query m done s with
    | (None, s) => fail m done s
    | (Some (m, done), s) =>
    match o_text (bit mask M_FRAGMENT) fix_pct m_fragment set_m_fragment m done s with
    | (None, s) => fail m done s
    | (Some (m, done), s) => (URI_SUCCESS, m, s)
    end end end end end end.

Lemma normalize_o_eq mask m s : m_owner m = true -> normalize_m cs mask m s = normalize_o mask m s.
Proof. intros Ho. unfold normalize_m. rewrite Ho. reflexivity. Qed.

(* the path step inserts the "." segment: [guard_at] on the value that reaches the path step *)
Definition path_guard (mask : N) (u : uri) : bool :=
  guard_at mask (F_text (bit mask M_USER_INFO) fix_pct userInfo set_userInfo
                   (F_host mask (F_text (bit mask M_SCHEME) lowercase scheme set_scheme u))).

(* in-place normalisation, value and ownership; nothing is assumed about the block ids of the object *)
Lemma normalize_m_owned_gen mask m s :
  nofault s -> m_owner m = true -> mwf_host m -> all_owned m = true -> mask <> 0%N ->
  exists m' s', normalize_m cs mask m s = (URI_SUCCESS, m', s')
    /\ erase m' = normalize mask (erase m)
    /\ m_owner m' = true /\ all_owned m' = true /\ mwf_host m'
    /\ ostep m s m' s'
    /\ (path_guard mask (erase m) = false -> sublist (text_blocks m') (text_blocks m))
    /\ st_le s s'.
Proof.
  intros Hnf Ho Hh Hao Hmask. rewrite (normalize_o_eq _ _ _ Ho), normalize_unfold. unfold normalize_o.
  apply N.eqb_neq in Hmask. rewrite Hmask.
  assert (Go m) as G0 by (split; assumption).
  destruct (o_scheme_spec (bit mask M_SCHEME) lowercase lowercase_nil m 0%N s Hnf Ho G0) as (m1 & s1 & E1 & G1 & R1 & W1 & T1 & B1 & L1).
  pose proof (st_le_nofault _ _ L1 Hnf) as N1.
  destruct (o_host_spec mask m1 0%N s1 N1 W1 G1) as (m2 & s2 & E2 & G2 & R2 & W2 & T2 & B2 & L2).
  pose proof (st_le_nofault _ _ L2 N1) as N2.
  destruct (o_user_spec (bit mask M_USER_INFO) fix_pct fix_pct_nil m2 0%N s2 N2 W2 G2) as (m3 & s3 & E3 & G3 & R3 & W3 & T3 & B3 & L3).
  pose proof (st_le_nofault _ _ L3 N2) as N3.
  destruct (o_path_spec mask m3 0%N s3 N3 W3 G3) as (m4 & s4 & E4 & G4 & R4 & W4 & T4 & B4 & L4).
  pose proof (st_le_nofault _ _ L4 N3) as N4.
  destruct (o_query_spec (bit mask M_QUERY) fix_pct fix_pct_nil m4 0%N s4 N4 W4 G4) as (m5 & s5 & E5 & G5 & R5 & W5 & T5 & B5 & L5).
  pose proof (st_le_nofault _ _ L5 N4) as N5.
  destruct (o_frag_spec (bit mask M_FRAGMENT) fix_pct fix_pct_nil m5 0%N s5 N5 W5 G5) as (m6 & s6 & E6 & G6 & R6 & W6 & T6 & B6 & L6).
  rewrite E1, E2, E3. unfold o_path in E4.
  destruct (o_path_full mask m3 0%N s3) as [[[r mf] df] sf]. injection E4 as -> ->.
  rewrite E5, E6. exists m6, s6. split; [reflexivity|].
  destruct G6 as [Hh6 Ha6].
  split.
  { rewrite <- (erase_owned m6 W6). rewrite R6, R5, R4, R3, R2, R1. reflexivity. }
  split; [exact W6|]. split; [exact Ha6|]. split; [exact Hh6|].
  assert (st_le s s2) as L02 by (eapply st_le_trans; eassumption).
  assert (st_le s s3) as L03 by (eapply st_le_trans; eassumption).
  assert (st_le s s4) as L04 by (eapply st_le_trans; eassumption).
  assert (st_le s s5) as L05 by (eapply st_le_trans; eassumption).
  assert (st_le s s6) as L06 by (eapply st_le_trans; eassumption).
  split; [|split; [|exact L06]].
  - apply (ostep_trans m s m5 s5 m6 s6 L05 L6); [|exact T6].
    apply (ostep_trans m s m4 s4 m5 s5 L04 L5); [|exact T5].
    apply (ostep_trans m s m3 s3 m4 s4 L03 L4); [|exact T4].
    apply (ostep_trans m s m2 s2 m3 s3 L02 L3); [|exact T3].
    apply (ostep_trans m s m1 s1 m2 s2 L1 L2); [exact T1|exact T2].
  - unfold path_guard. rewrite <- R1, <- R2, <- R3. intros Hg.
    eapply sublist_trans; [exact (B1 eq_refl)|]. eapply sublist_trans; [exact (B2 eq_refl)|]. eapply sublist_trans; [exact (B3 eq_refl)|].
    eapply sublist_trans; [exact (B4 Hg)|]. eapply sublist_trans; [exact (B5 eq_refl)|exact (B6 eq_refl)].
Qed.

(* ... and the blocks, for an object whose text blocks were handed out by this ledger: they stay pairwise
   distinct; the result holds blocks of the object and at most the copy of the "." of the guard segment *)
Lemma normalize_m_owned mask m s :
  nofault s -> m_owner m = true -> mwf m -> Forall (fun b => b < ms_next s) (text_blocks m) -> mask <> 0%N ->
  exists m' s', normalize_m cs mask m s = (URI_SUCCESS, m', s')
    /\ erase m' = normalize mask (erase m)
    /\ m_owner m' = true /\ all_owned m' = true /\ mwf m'
    /\ (forall b, In b (text_blocks m') -> In b (text_blocks m) \/ ms_next s <= b < ms_next s')
    /\ (path_guard mask (erase m) = false -> sublist (text_blocks m') (text_blocks m))
    /\ nofault s'.
Proof.
  intros Hnf Ho (Hh & Hnd & Hao & _) Hlt Hmask.
  destruct (normalize_m_owned_gen mask m s Hnf Ho Hh (Hao Ho) Hmask) as (m' & s' & E & R & W & A & Hh' & [T1 T2] & Sb & L).
  exists m', s'. split; [exact E|]. split; [exact R|]. split; [exact W|]. split; [exact A|].
  split; [|split; [exact T2|split; [exact Sb|exact (st_le_nofault _ _ L Hnf)]]].
  assert (Inv 0 m s) as HI.
  { split; [lia|]. split; [exact Hnd|]. eapply Forall_impl; [|exact Hlt]. cbn. intros; lia. }
  destruct (T1 0 HI) as (_ & Hnd' & _).
  split; [exact Hh'|]. split; [exact Hnd'|]. split; [intros _; exact A|].
  intros H. rewrite W in H. discriminate H.
Qed.

(* the value alone, for any well-formed owned object *)
Lemma normalize_m_owned_value mask m s :
  nofault s -> m_owner m = true -> mwf m -> mask <> 0%N ->
  exists m' s', normalize_m cs mask m s = (URI_SUCCESS, m', s')
    /\ erase m' = normalize mask (erase m) /\ m_owner m' = true /\ all_owned m' = true /\ nofault s'.
Proof.
  intros Hnf Ho (Hh & _ & Hao & _) Hmask.
  destruct (normalize_m_owned_gen mask m s Hnf Ho Hh (Hao Ho) Hmask) as (m' & s' & E & R & W & A & _ & _ & _ & L).
  exists m', s'. split; [exact E|]. split; [exact R|]. split; [exact W|]. split; [exact A|exact (st_le_nofault _ _ L Hnf)].
Qed.


End Ops.

(* ================================================================ Part 4: size discipline *)
(* [extends s s' evs]: the operation appended exactly the events [evs] (oldest first);
   [aextends]: the same for the allocation requests only (releases are left out: the size printed
   for a release is the size recorded when the block was handed out) *)
Definition allocs (tr : list event) : list event := filter is_alloc_event tr.
Definition extends (s s' : mstate) (evs : list event) : Prop := ms_trace s' = rev evs ++ ms_trace s.
Definition aextends (s s' : mstate) (evs : list event) : Prop :=
  allocs (ms_trace s') = rev evs ++ allocs (ms_trace s).

Lemma extends_refl s : extends s s [].
Proof. reflexivity. Qed.
Lemma extends_trans s s1 s2 e1 e2 : extends s s1 e1 -> extends s1 s2 e2 -> extends s s2 (e1 ++ e2).
Proof. unfold extends. intros H1 H2. rewrite H2, H1, rev_app_distr, app_assoc. reflexivity. Qed.
Lemma aextends_refl s : aextends s s [].
Proof. reflexivity. Qed.
Lemma aextends_trans s s1 s2 e1 e2 : aextends s s1 e1 -> aextends s1 s2 e2 -> aextends s s2 (e1 ++ e2).
Proof. unfold aextends. intros H1 H2. rewrite H2, H1, rev_app_distr, app_assoc. reflexivity. Qed.
Lemma extends_new_events s s' evs : extends s s' evs -> new_events s s' = evs.
Proof.
  unfold extends, new_events, trace_of. intros H. rewrite H, rev_app_distr, rev_involutive.
  rewrite <- (rev_length (ms_trace s)). rewrite skipn_app, Nat.sub_diag, skipn_all. reflexivity.
Qed.
Lemma filter_all {A} (f : A -> bool) l : (forall x, In x l -> f x = true) -> filter f l = l.
Proof.
  induction l as [|x l IH]; intros H; [reflexivity|]. cbn [filter]. rewrite (H x (or_introl eq_refl)).
  f_equal. apply IH. intros y Hy. apply H. right; exact Hy.
Qed.
Lemma extends_aextends s s' evs : Forall (fun e => is_alloc_event e = true) evs -> extends s s' evs -> aextends s s' evs.
Proof.
  unfold extends, aextends, allocs. intros Hf H. rewrite H, filter_app. f_equal.
  apply filter_all. intros e He. rewrite Forall_forall in Hf. apply Hf. apply in_rev. exact He.
Qed.
Lemma aextends_new_events s s' evs : extends s s' (new_events s s') -> aextends s s' evs ->
  allocs (new_events s s') = evs.
Proof.
  unfold extends, aextends, allocs. intros H1 H2. rewrite H1, filter_app in H2.
  apply app_inv_tail in H2. rewrite <- (rev_involutive evs), <- H2.
  set (l := new_events s s'). clearbody l. clear.
  induction l as [|e l IH]; [reflexivity|]. cbn [rev filter]. rewrite filter_app. cbn [filter].
  destruct (is_alloc_event e); cbn [rev]; rewrite ?rev_app_distr; cbn [rev app]; rewrite ?app_nil_r, IH; reflexivity.
Qed.

Lemma push_alloc_extends c sz s :
  extends s (push_alloc c sz s) [if c then EvCalloc sz true else EvMalloc sz true].
Proof. reflexivity. Qed.
Lemma free_blk_aextends b s : aextends s (free_blk b s) [].
Proof. unfold aextends, free_blk. destruct (remove_blk b (ms_live s)) as [[sz l]|]; reflexivity. Qed.
Lemma bad_free_aextends s : aextends s (bad_free s) [].
Proof. reflexivity. Qed.

Definition text_req (o : option text) : list areq :=
  match o with Some (c :: x) => [RText (length (c :: x))] | _ => [] end.
Definition segs_req (l : list text) : list areq := flat_map (fun t => text_req (Some t)) l.

Section Sizes.
Variable cs : N.

Lemma dup_text_trace t s t' s' : nofault s -> dup_text cs t s = (Some t', s') ->
  extends s s' (map (req_event cs) (text_req (t_val t))).
Proof.
  intros Hnf. unfold dup_text. destruct (t_val t) as [[|c x]|].
  - intros H; injection H as <- <-. apply extends_refl.
  - rewrite (alloc_nf _ _ _ Hnf). intros H; injection H as <- <-. apply push_alloc_extends.
  - intros H; injection H as <- <-. apply extends_refl.
Qed.

Lemma range_owner_trace done k t s t' done' s' : nofault s ->
  range_owner cs done (2 ^ k) t s = (Some (t', done'), s') ->
  extends s s' (map (req_event cs) (if N.testbit done k then [] else text_req (t_val t)))
  /\ (forall j, j <> k -> N.testbit done' j = N.testbit done j).
Proof.
  intros Hnf. unfold range_owner. rewrite land_pow2, negb_involutive.
  destruct (N.testbit done k).
  - intros H; injection H as <- <- <-. split; [apply extends_refl|reflexivity].
  - destruct (t_val t) as [[|c x]|] eqn:E.
    + intros H; injection H as <- <- <-. split; [apply extends_refl|reflexivity].
    + destruct (dup_text cs t s) as [[t1|] s1] eqn:E1; [|discriminate].
      intros H; injection H as <- <- <-. split.
      * pose proof (dup_text_trace _ _ _ _ Hnf E1) as H. rewrite E in H. exact H.
      * intros j Hj. rewrite testbit_lor_pow2. apply N.eqb_neq in Hj. rewrite N.eqb_sym, Hj. apply orb_false_r.
    + intros H; injection H as <- <- <-. split; [apply extends_refl|reflexivity].
Qed.

Lemma own_segs_trace rest : forall acc s segs s', nofault s -> own_segs cs acc rest s = (Some segs, s') ->
  extends s s' (map (req_event cs) (segs_req (map sg_text rest))).
Proof.
  induction rest as [|sg r IH]; intros acc s segs s' Hnf; cbn [own_segs map].
  - intros H; injection H as <- <-. apply extends_refl.
  - unfold segs_req. cbn [flat_map]. destruct (sg_text sg) as [|c x] eqn:Et.
    + intros H. apply (IH _ _ _ _ Hnf H).
    + rewrite (alloc_nf _ _ _ Hnf). intros H.
      rewrite map_app. change (map (req_event cs) (text_req (Some (c :: x)))) with [EvMalloc (tlen (c :: x) * cs) true].
      eapply extends_trans; [apply (push_alloc_extends false (tlen (c :: x) * cs) s)|].
      apply (IH _ _ _ _ (st_le_nofault _ _ (push_alloc_le _ _ _) Hnf) H).
Qed.

Definition tstage_spec (st : stage) (k : N) (pl : muri -> N -> list areq) : Prop :=
  forall m done s m' done' s', nofault s -> st m done s = (Some (m', done'), s') ->
  extends s s' (map (req_event cs) (pl m done))
  /\ (forall j, j <> k -> N.testbit done' j = N.testbit done j).

Lemma e_text_trace k get set :
  tstage_spec (e_text cs (2 ^ k) get set) k (fun m done => if N.testbit done k then [] else text_req (t_val (get m))).
Proof.
  intros m done s m' done' s' Hnf. unfold e_text.
  destruct (range_owner cs done (2 ^ k) (get m) s) as [[[t d]|] z] eqn:E; [|discriminate].
  intros H; injection H as <- <- <-. apply (range_owner_trace _ _ _ _ _ _ _ Hnf E).
Qed.

Definition host_plan (m : muri) (done : N) : list areq :=
  if N.testbit done 2 then []
  else match t_val (m_ipFuture m) with
       | Some _ => text_req (t_val (m_ipFuture m))
       | None => text_req (t_val (m_hostText m))
       end.

Lemma host_step_trace : tstage_spec (host_step cs) 2 host_plan.
Proof.
  intros m done s m' done' s' Hnf. unfold host_step, host_plan.
  change B_HOST with (2 ^ 2)%N. rewrite land_pow2, negb_involutive.
  destruct (N.testbit done 2) eqn:Eb.
  - intros H; injection H as <- <- <-. split; [apply extends_refl|reflexivity].
  - destruct (t_val (m_ipFuture m)) as [x|] eqn:Ef.
    + destruct (range_owner cs done (2 ^ 2) (m_ipFuture m) s) as [[[t d]|] z] eqn:E; [|discriminate].
      intros H; injection H as <- <- <-.
      pose proof (range_owner_trace _ _ _ _ _ _ _ Hnf E) as H. rewrite Eb, Ef in H. exact H.
    + destruct (t_val (m_hostText m)) as [x|] eqn:Eh.
      * destruct (range_owner cs done (2 ^ 2) (m_hostText m) s) as [[[t d]|] z] eqn:E; [|discriminate].
        intros H; injection H as <- <- <-.
        pose proof (range_owner_trace _ _ _ _ _ _ _ Hnf E) as H. rewrite Eb, Eh in H. exact H.
      * intros H; injection H as <- <- <-. split; [apply extends_refl|reflexivity].
Qed.

Lemma path_step_trace :
  tstage_spec (path_step cs) 3 (fun m done => if N.testbit done 3 then [] else segs_req (map sg_text (m_segs m))).
Proof.
  intros m done s m' done' s' Hnf. unfold path_step.
  change B_PATH with (2 ^ 3)%N. rewrite land_pow2, negb_involutive.
  destruct (N.testbit done 3) eqn:Eb.
  - intros H; injection H as <- <- <-. split; [apply extends_refl|reflexivity].
  - destruct (own_segs cs [] (m_segs m) s) as [[segs|] z] eqn:E; [|discriminate].
    intros H; injection H as <- <- <-. split; [apply (own_segs_trace _ _ _ _ _ Hnf E)|].
    intros j Hj. change (N.pos (2 ^ 3)) with (2 ^ 3)%N. rewrite testbit_lor_pow2. apply N.eqb_neq in Hj. rewrite N.eqb_sym, Hj. apply orb_false_r.
Qed.

Lemma e_port_trace : tstage_spec (e_port cs) 6 (fun m _ => text_req (t_val (m_portText m))).
Proof.
  intros m done s m' done' s' Hnf. unfold e_port.
  destruct (dup_text cs (m_portText m) s) as [[t|] z] eqn:E; [|discriminate].
  intros H; injection H as <- <- <-. split; [apply (dup_text_trace _ _ _ _ Hnf E)|reflexivity].
Qed.

(* the requests of the engine, counted in characters: a function of the values and the done-mask *)
Definition engine_plan (done : N) (u : uri) : list areq :=
  (if N.testbit done 0 then [] else text_req (scheme u))
  ++ (if N.testbit done 1 then [] else text_req (userInfo u))
  ++ (if N.testbit done 4 then [] else text_req (query u))
  ++ (if N.testbit done 5 then [] else text_req (fragment u))
  ++ (if N.testbit done 2 then []
      else match ipFuture u with Some _ => text_req (ipFuture u) | None => text_req (hostText u) end)
  ++ (if N.testbit done 3 then [] else segs_req (pathSegs u))
  ++ text_req (portText u).

Lemma engine_trace lo own m done s b m' done' s' :
  G lo own m s -> sub done own -> m_owner m = false ->
  make_owner_engine cs m done s = (b, m', done', s') ->
  extends s s' (map (req_event cs) (engine_plan done (erase m))).
Proof.
  intros HG Hs Ho. pose proof HG as (Hnf & _).
  destruct (e_scheme_spec cs _ _ _ _ _ HG Hs Ho) as (m1 & d1 & o1 & s1 & E1 & G1 & S1 & U1 & R1 & W1 & L1 & B1).
  destruct (e_user_spec cs _ _ _ _ _ G1 S1 W1) as (m2 & d2 & o2 & s2 & E2 & G2 & S2 & U2 & R2 & W2 & L2 & B2).
  destruct (e_query_spec cs _ _ _ _ _ G2 S2 W2) as (m3 & d3 & o3 & s3 & E3 & G3 & S3 & U3 & R3 & W3 & L3 & B3).
  destruct (e_frag_spec cs _ _ _ _ _ G3 S3 W3) as (m4 & d4 & o4 & s4 & E4 & G4 & S4 & U4 & R4 & W4 & L4 & B4).
  destruct (host_step_spec cs _ _ _ _ _ G4 S4 W4) as (m5 & d5 & o5 & s5 & E5 & G5 & S5 & U5 & R5 & W5 & L5 & B5).
  destruct (path_step_spec cs _ _ _ _ _ G5 S5 W5) as (m6 & d6 & o6 & s6 & E6 & G6 & S6 & U6 & R6 & W6 & L6 & B6).
  destruct (e_port_spec cs _ _ _ _ _ G6 S6 W6) as (m7 & d7 & o7 & s7 & E7 & G7 & S7 & U7 & R7 & W7 & L7 & B7).
  rewrite (engine_chain cs _ _ _ _ _ _ _ _ _ _ _ _ _ _ _ _ _ _ _ _ _ _ _ _ E1 E2 E3 E4 E5 E6 E7).
  intros H; injection H as <- <- <- <-.
  pose proof (st_le_nofault _ _ L1 Hnf) as N1. pose proof (st_le_nofault _ _ L2 N1) as N2.
  pose proof (st_le_nofault _ _ L3 N2) as N3. pose proof (st_le_nofault _ _ L4 N3) as N4.
  pose proof (st_le_nofault _ _ L5 N4) as N5. pose proof (st_le_nofault _ _ L6 N5) as N6.
  destruct (e_text_trace 0 m_scheme set_m_scheme _ _ _ _ _ _ Hnf E1) as [T1 K1].
  destruct (e_text_trace 1 m_userInfo set_m_userInfo _ _ _ _ _ _ N1 E2) as [T2 K2].
  destruct (e_text_trace 4 m_query set_m_query _ _ _ _ _ _ N2 E3) as [T3 K3].
  destruct (e_text_trace 5 m_fragment set_m_fragment _ _ _ _ _ _ N3 E4) as [T4 K4].
  destruct (host_step_trace _ _ _ _ _ _ N4 E5) as [T5 K5].
  destruct (path_step_trace _ _ _ _ _ _ N5 E6) as [T6 K6].
  destruct (e_port_trace _ _ _ _ _ _ N6 E7) as [T7 K7].
  cbv beta in R1, R2, R3, R4, R5, R6.
  assert (N.testbit d1 1 = N.testbit done 1) as Z1 by (rewrite K1 by discriminate; reflexivity).
  assert (N.testbit d2 4 = N.testbit done 4) as Z2 by (rewrite K2, K1 by discriminate; reflexivity).
  assert (N.testbit d3 5 = N.testbit done 5) as Z3 by (rewrite K3, K2, K1 by discriminate; reflexivity).
  assert (N.testbit d4 2 = N.testbit done 2) as Z4 by (rewrite K4, K3, K2, K1 by discriminate; reflexivity).
  assert (N.testbit d5 3 = N.testbit done 3) as Z5 by (rewrite K5, K4, K3, K2, K1 by discriminate; reflexivity).
  cbv beta in T1, T2, T3, T4, T6, T7. unfold host_plan in T5.
  rewrite Z1 in T2. rewrite Z2 in T3. rewrite Z3 in T4. rewrite Z4 in T5. rewrite Z5 in T6.
  change (t_val (m_scheme m)) with (scheme (erase m)) in T1.
  change (t_val (m_userInfo m1)) with (userInfo (erase m1)) in T2.
  change (t_val (m_query m2)) with (query (erase m2)) in T3.
  change (t_val (m_fragment m3)) with (fragment (erase m3)) in T4.
  change (t_val (m_ipFuture m4)) with (ipFuture (erase m4)) in T5.
  change (t_val (m_hostText m4)) with (hostText (erase m4)) in T5.
  change (map sg_text (m_segs m5)) with (pathSegs (erase m5)) in T6.
  change (t_val (m_portText m6)) with (portText (erase m6)) in T7.
  rewrite R6, R5, R4, R3, R2, R1 in T7. rewrite R5, R4, R3, R2, R1 in T6. rewrite R4, R3, R2, R1 in T5.
  rewrite R3, R2, R1 in T4. rewrite R2, R1 in T3. rewrite R1 in T2.
  unfold engine_plan. rewrite !map_app.
  eapply extends_trans; [exact T1|]. eapply extends_trans; [exact T2|]. eapply extends_trans; [exact T3|].
  eapply extends_trans; [exact T4|]. eapply extends_trans; [exact T5|]. eapply extends_trans; [exact T6|exact T7].
Qed.

(* the requests of make-owner, counted in characters: a function of the values only *)
Definition owner_plan (u : uri) : list areq := engine_plan 0 u.

Lemma owner_plan_eq u :
  owner_plan u =
  text_req (scheme u) ++ text_req (userInfo u) ++ text_req (query u) ++ text_req (fragment u)
  ++ (match ipFuture u with Some _ => text_req (ipFuture u) | None => text_req (hostText u) end)
  ++ segs_req (pathSegs u) ++ text_req (portText u).
Proof. reflexivity. Qed.

Lemma make_owner_m_trace m s rc m' s' :
  nofault s -> m_owner m = false -> mwf_host m -> text_blocks m = [] ->
  make_owner_m cs m s = (rc, m', s') ->
  extends s s' (map (req_event cs) (owner_plan (erase m))).
Proof.
  intros Hnf Ho Hh Hb. unfold make_owner_m. rewrite Ho.
  pose proof (G_start m s Hnf Hh Hb) as HG.
  destruct (engine_nf cs _ _ _ _ _ HG (sub_refl _) Ho) as (m1 & d1 & o1 & s1 & E & _).
  pose proof (engine_trace _ _ _ _ _ _ _ _ _ HG (sub_refl _) Ho E) as T. rewrite E.
  intros H; injection H as <- <- <-. exact T.
Qed.

(* ---------------------------------------------------------------- the requests of normalisation *)
Lemma norm_text_trace f t s t' s' : nofault s -> norm_text cs false f t s = (Some t', s') ->
  extends s s' (map (req_event cs) (text_req (t_val t))).
Proof.
  intros Hnf. unfold norm_text. destruct (t_val t) as [[|c x]|].
  - intros H; injection H as <- <-. apply extends_refl.
  - rewrite (alloc_nf _ _ _ Hnf). intros H; injection H as <- <-. apply push_alloc_extends.
  - intros H; injection H as <- <-. apply extends_refl.
Qed.

Lemma n_text_trace cond f k get set m done s m' done' s' : nofault s ->
  n_text cs cond f (2 ^ k) get set m done s = (Some (m', done'), s') ->
  extends s s' (map (req_event cs) (if cond then text_req (t_val (get m)) else []))
  /\ done' = (if cond && is_some (t_val (get m)) then N.lor done (2 ^ k) else done).
Proof.
  intros Hnf. unfold n_text. destruct cond; cbn [andb].
  - destruct (t_val (get m)) as [x|] eqn:Ev; cbn [is_some].
    + destruct (norm_text cs false f (get m) s) as [[t|] z] eqn:E; [|discriminate].
      intros H; injection H as <- <- <-. split; [|reflexivity].
      pose proof (norm_text_trace _ _ _ _ _ Hnf E) as T. rewrite Ev in T. exact T.
    + intros H; injection H as <- <- <-. split; [apply extends_refl|reflexivity].
  - intros H; injection H as <- <- <-. split; [apply extends_refl|reflexivity].
Qed.

Definition nhost_plan (mask : N) (u : uri) : list areq :=
  if bit mask M_HOST then
    match ipFuture u with
    | Some _ => text_req (ipFuture u)
    | None => match hostText u, ip4 u, ip6 u with
              | Some _, None, None => text_req (hostText u)
              | _, _, _ => []
              end
    end
  else [].
Definition nhost_done (mask : N) (u : uri) (done : N) : N :=
  if bit mask M_HOST then
    match ipFuture u with
    | Some _ => N.lor done 4
    | None => match hostText u, ip4 u, ip6 u with
              | Some _, None, None => N.lor done 4
              | _, _, _ => done
              end
    end
  else done.

Lemma n_host_trace mask m done s m' done' s' : nofault s ->
  n_host cs mask m done s = (Some (m', done'), s') ->
  extends s s' (map (req_event cs) (nhost_plan mask (erase m))) /\ done' = nhost_done mask (erase m) done.
Proof.
  intros Hnf. unfold n_host, nhost_plan, nhost_done. destruct (bit mask M_HOST).
  2:{ intros H; injection H as <- <- <-. split; [apply extends_refl|reflexivity]. }
  change (ipFuture (erase m)) with (t_val (m_ipFuture m)).
  change (hostText (erase m)) with (t_val (m_hostText m)).
  change (ip4 (erase m)) with (match m_ip4 m with Some (b, _) => Some b | None => None end).
  change (ip6 (erase m)) with (match m_ip6 m with Some (b, _) => Some b | None => None end).
  destruct (t_val (m_ipFuture m)) as [x|] eqn:Ef.
  - destruct (norm_text cs false lowercase (m_ipFuture m) s) as [[t|] z] eqn:E; [|discriminate].
    intros H; injection H as <- <- <-. split; [|reflexivity].
    pose proof (norm_text_trace _ _ _ _ _ Hnf E) as T. rewrite Ef in T. exact T.
  - destruct (t_val (m_hostText m)) as [x|] eqn:Eh.
    + destruct (m_ip4 m) as [[? ?]|]; [intros H; injection H as <- <- <-; split; [apply extends_refl|reflexivity]|].
      destruct (m_ip6 m) as [[? ?]|]; [intros H; injection H as <- <- <-; split; [apply extends_refl|reflexivity]|].
      destruct (norm_text cs false (fun x : text => lowercase_except_pct (fix_pct x)) (m_hostText m) s) as [[t|] z] eqn:E; [|discriminate].
      intros H; injection H as <- <- <-. split; [|reflexivity].
      pose proof (norm_text_trace _ _ _ _ _ Hnf E) as T. rewrite Eh in T. exact T.
    + destruct (m_ip4 m) as [[? ?]|], (m_ip6 m) as [[? ?]|];
        intros H; injection H as <- <- <-; split; try apply extends_refl; reflexivity.
Qed.

Lemma norm_segs_malloc_trace rest : forall acc s segs s', nofault s ->
  norm_segs_malloc cs acc rest s = (true, segs, s') ->
  extends s s' (map (req_event cs) (segs_req (map sg_text rest))).
Proof.
  induction rest as [|sg r IH]; intros acc s segs s' Hnf; cbn [norm_segs_malloc map].
  - intros H; injection H as <- <-. apply extends_refl.
  - unfold segs_req. cbn [flat_map]. destruct (sg_text sg) as [|c x] eqn:Et.
    + intros H. apply (IH _ _ _ _ Hnf H).
    + rewrite (alloc_nf _ _ _ Hnf). intros H.
      rewrite map_app. change (map (req_event cs) (text_req (Some (c :: x)))) with [EvMalloc (tlen (c :: x) * cs) true].
      eapply extends_trans; [apply (push_alloc_extends false (tlen (c :: x) * cs) s)|].
      apply (IH _ _ _ _ (st_le_nofault _ _ (push_alloc_le _ _ _) Hnf) H).
Qed.

(* whether the dot-segment walk allocates the trailing empty segment: ".." at the end with two
   segments before it *)
Fixpoint rds_alloc (rel : bool) (kept rest : list text) {struct rest} : bool :=
  match rest with
  | [] => false
  | w :: nxt =>
    if seg_dot w then
      let essential :=
        rel && (match kept with [] => true | _ => false end)
        && (match nxt with n1 :: _ => has_colon n1 | [] => false end) in
      if essential then rds_alloc rel (w :: kept) nxt
      else match nxt with _ :: _ => rds_alloc rel kept nxt | [] => false end
    else if seg_dotdot w then
      let keep := rel && (match kept with [] => true | p :: _ => seg_dotdot p end) in
      if keep then rds_alloc rel (w :: kept) nxt
      else match kept with
           | p :: pp :: kk => match nxt with _ :: _ => rds_alloc rel (pp :: kk) nxt | [] => true end
           | [p] => match nxt with _ :: _ => rds_alloc rel [] nxt | [] => false end
           | [] => match nxt with _ :: _ => rds_alloc rel [] nxt | [] => false end
           end
    else rds_alloc rel (w :: kept) nxt
  end.

Lemma drop_seg_aext owned sg s : aextends s (drop_seg owned sg s) [].
Proof.
  unfold drop_seg. eapply (aextends_trans _ _ _ [] []); [|apply free_blk_aextends].
  destruct owned; [|apply aextends_refl]. destruct (sg_text sg); [apply aextends_refl|].
  destruct (sg_blk sg); [apply free_blk_aextends|apply bad_free_aextends].
Qed.
Lemma blank_state_aext owned sg s : aextends s (blank_state owned sg s) [].
Proof.
  unfold blank_state, blank_seg. cbn [snd]. destruct owned; [|apply aextends_refl].
  destruct (sg_text sg); [apply aextends_refl|]. destruct (sg_blk sg); [apply free_blk_aextends|apply bad_free_aextends].
Qed.
Lemma push_calloc_aext sz s : aextends s (push_alloc true sz s) [EvCalloc sz true].
Proof. reflexivity. Qed.

Ltac sle :=
  repeat first [ apply st_le_refl
               | (eapply st_le_trans; [|apply drop_seg_le])
               | (eapply st_le_trans; [|apply blank_state_le])
               | (eapply st_le_trans; [|apply push_alloc_le]) ].
Ltac aext :=
  repeat first [ apply aextends_refl
               | (eapply (aextends_trans _ _ _ [] []); [|apply drop_seg_aext])
               | (eapply (aextends_trans _ _ _ [] []); [|apply blank_state_aext]) ].

Lemma rds_walk_m_trace rel host abs owned rest : forall kept s segs' s', nofault s ->
  rds_walk_m rel host abs owned kept rest s = (true, segs', s') ->
  aextends s s' (map (req_event cs) (if rds_alloc rel (map sg_text kept) (map sg_text rest) then [RNode true] else [])).
Proof.
  induction rest as [|w nxt IH]; intros kept s segs' s' Hnf.
  - cbn [rds_walk_m rds_alloc map]. intros H; injection H as <- <-. apply aextends_refl.
  - cbn [rds_walk_m rds_alloc map].
    Ltac rdt_rec IH Hnf s0 :=
      match goal with
      | |- rds_walk_m _ _ _ _ ?k ?r ?s1 = _ -> _ =>
        let L := fresh "L" in let H := fresh "H" in
        assert (st_le s0 s1) as L by sle;
        intros H; apply (aextends_trans s0 s1 _ [] _); [aext|];
        exact (IH k s1 _ _ (st_le_nofault _ _ L Hnf) H)
      end.
    Ltac rdt_leaf :=
      rewrite ?blank_seg_eq; let H := fresh "H" in intros H; injection H as <- <-; cbn [map]; aext.
    destruct (seg_dot (sg_text w)) eqn:Ed; [|destruct (seg_dotdot (sg_text w)) eqn:Edd].
    + destruct kept as [|p kk]; destruct nxt as [|n1 nn]; cbn [map andb];
        rewrite ?andb_false_r, ?andb_true_r; cbn [andb].
      * destruct host; rdt_leaf.
      * destruct (rel && has_colon (sg_text n1)); rdt_rec IH Hnf s.
      * rdt_leaf.
      * rdt_rec IH Hnf s.
    + destruct kept as [|p [|pp kk]]; destruct nxt as [|n1 nn]; cbn [map andb];
        rewrite ?andb_false_r, ?andb_true_r; cbn [andb].
      * destruct rel; [rdt_rec IH Hnf s|]. destruct abs; rdt_leaf.
      * destruct rel; rdt_rec IH Hnf s.
      * destruct (rel && seg_dotdot (sg_text p)); [rdt_rec IH Hnf s|]. destruct abs; rdt_leaf.
      * destruct (rel && seg_dotdot (sg_text p)); rdt_rec IH Hnf s.
      * destruct (rel && seg_dotdot (sg_text p)); [rdt_rec IH Hnf s|].
        rewrite (alloc_nf _ _ _ Hnf). intros H; injection H as <- <-. cbn [map req_event].
        eapply (aextends_trans _ _ _ [EvCalloc SEG_SIZE true] []); [|apply drop_seg_aext].
        eapply (aextends_trans _ _ _ [EvCalloc SEG_SIZE true] []); [|apply drop_seg_aext].
        apply push_calloc_aext.
      * destruct (rel && seg_dotdot (sg_text p)); rdt_rec IH Hnf s.
    + rdt_rec IH Hnf s.
Qed.

Lemma remove_dot_segments_m_trace rel owned m s m' s' : nofault s ->
  remove_dot_segments_m rel owned m s = (true, m', s') ->
  aextends s s' (map (req_event cs) (if rds_alloc rel [] (map sg_text (m_segs m)) then [RNode true] else [])).
Proof.
  intros Hnf. unfold remove_dot_segments_m. destruct (m_segs m) as [|sg r] eqn:Es.
  - intros H; injection H as <- <-. apply aextends_refl.
  - destruct (rds_walk_m rel (m_host_set m) (m_abs m) owned [] (sg :: r) s) as [[ok segs] z] eqn:E.
    intros H; injection H as -> <- <-. apply (rds_walk_m_trace _ _ _ _ _ _ _ _ _ Hnf E).
Qed.

Lemma fix_empty_trail_m_aext m s m' s' : fix_empty_trail_m m s = (m', s') -> aextends s s' [].
Proof.
  unfold fix_empty_trail_m. destruct (negb (m_host_set m)).
  - destruct (m_segs m) as [|sg [|sg2 r]].
    + intros H; injection H as <- <-. apply aextends_refl.
    + destruct (sg_text sg); intros H; injection H as <- <-; [apply free_blk_aextends|apply aextends_refl].
    + intros H; injection H as <- <-. apply aextends_refl.
  - intros H; injection H as <- <-. apply aextends_refl.
Qed.

Definition rds_plan (u : uri) : list areq :=
  let rel := negb (is_some (scheme u)) && negb (absolutePath u) && negb (is_host_set u) in
  if rds_alloc rel [] (map fix_pct (pathSegs u)) then [RNode true] else [].
(* the guard against a path beginning with "//": the node of the "." segment (malloc) and the copy of its
   one character; [u] is the value that reaches the path step *)
Definition amb_plan (u : uri) : list areq :=
  if amb_needed (path_rds u) then [RNode false; RText 1] else [].
Definition npath_plan (mask : N) (u : uri) : list areq :=
  if bit mask M_PATH then segs_req (pathSegs u) ++ rds_plan u ++ amb_plan u else [].

Lemma fix_ambiguity_owned_m_trace m s m' s' : nofault s ->
  fix_ambiguity_owned_m cs m s = (true, m', s') ->
  aextends s s' (map (req_event cs) (if amb_needed (erase m) then [RNode false; RText 1] else [])).
Proof.
  intros Hnf E. destruct (fix_ambiguity_owned_m_nf cs m s Hnf) as (segsA & sA & EA & _ & _ & CA).
  rewrite EA in E. injection E as _ <-.
  destruct CA as [(-> & _ & ->)|(-> & _ & ->)]; [apply aextends_refl|].
  apply extends_aextends; [repeat constructor|].
  apply (extends_trans s (push_alloc false SEG_SIZE s) _ [EvMalloc SEG_SIZE true] [EvMalloc (tlen [46%N] * cs) true]);
    apply push_alloc_extends.
Qed.

Lemma n_path_trace mask m done s m' done' s' : nofault s ->
  n_path cs mask m done s = (Some (m', done'), s') ->
  aextends s s' (map (req_event cs) (npath_plan mask (erase m)))
  /\ done' = (if bit mask M_PATH then N.lor done 8 else done).
Proof.
  intros Hnf. unfold n_path, n_path_full, npath_plan, rds_plan. destruct (bit mask M_PATH).
  2:{ intros H; injection H as <- <- <-. split; [apply aextends_refl|reflexivity]. }
  cbv zeta.
  destruct (norm_segs_malloc_nf cs (m_segs m) [] s Hnf) as (segs1 & s1 & E1 & V1 & O1 & L1 & ND1 & F1).
  rewrite E1. cbn [rev app].
  set (rel := negb (is_some (t_val (m_scheme m))) && negb (m_abs m) && negb (m_host_set m)).
  set (ow := false || negb (N.land (N.lor done B_PATH) B_PATH =? 0)%N).
  pose proof (st_le_nofault _ _ L1 Hnf) as Hnf1.
  destruct (remove_dot_segments_m_nf rel ow (set_m_segs segs1 m) s1 Hnf1) as (segs2 & s2 & E2 & R2 & S2 & L2).
  rewrite E2.
  pose proof (st_le_nofault _ _ L2 Hnf1) as Hnf2.
  destruct (fix_ambiguity_owned_m_nf cs (set_m_segs segs2 (set_m_segs segs1 m)) s2 Hnf2) as (segsA & sA & EA & _ & _ & _).
  rewrite EA.
  destruct (fix_empty_trail_m (set_m_segs segsA (set_m_segs segs2 (set_m_segs segs1 m))) sA) as [m3 s3] eqn:E3.
  intros H; injection H as <- <- <-. split; [|reflexivity].
  rewrite !map_app.
  eapply aextends_trans.
  - apply extends_aextends; [|exact (norm_segs_malloc_trace _ _ _ _ _ Hnf E1)].
    apply Forall_forall. intros e He. apply in_map_iff in He. destruct He as (r & <- & _). destruct r as [| [|] | |]; reflexivity.
  - eapply aextends_trans.
    + pose proof (remove_dot_segments_m_trace _ _ _ _ _ _ Hnf1 E2) as T.
      cbn [m_segs set_m_segs] in T. rewrite V1 in T. exact T.
    + rewrite <- (app_nil_r (map (req_event cs) _)). eapply aextends_trans; [|exact (fix_empty_trail_m_aext _ _ _ _ E3)].
      pose proof (fix_ambiguity_owned_m_trace _ _ _ _ Hnf2 EA) as T. rewrite R2 in T. unfold amb_plan, path_rds.
      change (erase (set_m_segs segs1 m)) with (set_pathSegs (map sg_text segs1) (erase m)) in T.
      rewrite V1 in T. exact T.
Qed.

Definition normalize_plan_b (mask : N) (u : uri) : list areq :=
  let c1 := bit mask M_SCHEME in
  let u1 := F_text c1 lowercase scheme set_scheme u in
  let d1 := if c1 && is_some (scheme u) then N.lor 0 (2 ^ 0) else 0%N in
  let u2 := F_host mask u1 in
  let d2 := nhost_done mask u1 d1 in
  let c3 := bit mask M_USER_INFO in
  let u3 := F_text c3 fix_pct userInfo set_userInfo u2 in
  let d3 := if c3 && is_some (userInfo u2) then N.lor d2 (2 ^ 1) else d2 in
  let u4 := F_path mask u3 in
  let d4 := if bit mask M_PATH then N.lor d3 8 else d3 in
  let c5 := bit mask M_QUERY in
  let u5 := F_text c5 fix_pct query set_query u4 in
  let d5 := if c5 && is_some (query u4) then N.lor d4 (2 ^ 4) else d4 in
  let c6 := bit mask M_FRAGMENT in
  let u6 := F_text c6 fix_pct fragment set_fragment u5 in
  let d6 := if c6 && is_some (fragment u5) then N.lor d5 (2 ^ 5) else d5 in
  (if c1 then text_req (scheme u) else []) ++ nhost_plan mask u1 ++ (if c3 then text_req (userInfo u2) else [])
  ++ npath_plan mask u3 ++ (if c5 then text_req (query u4) else []) ++ (if c6 then text_req (fragment u5) else [])
  ++ engine_plan d6 u6.

Lemma all_alloc_reqs l : Forall (fun e => is_alloc_event e = true) (map (req_event cs) l).
Proof.
  apply Forall_forall. intros e He. apply in_map_iff in He. destruct He as (r & <- & _). destruct r as [| [|] | |]; reflexivity.
Qed.

Lemma normalize_m_borrowed_trace mask m s rc m' s' :
  nofault s -> m_owner m = false -> mwf_host m -> text_blocks m = [] -> mask <> 0%N ->
  normalize_m cs mask m s = (rc, m', s') ->
  aextends s s' (map (req_event cs) (normalize_plan_b mask (erase m))).
Proof.
  intros Hnf Ho Hh Hb Hmask. rewrite (normalize_b_eq _ _ _ _ Ho). unfold normalize_b.
  apply N.eqb_neq in Hmask. rewrite Hmask.
  pose proof (G_start m s Hnf Hh Hb) as G0.
  destruct (n_scheme_spec cs (bit mask M_SCHEME) lowercase lowercase_nil _ _ _ _ _ G0 (sub_refl _) Ho)
    as (m1 & d1 & o1 & s1 & E1 & G1 & S1 & U1 & R1 & W1 & L1 & _).
  destruct (n_host_spec cs mask _ _ _ _ _ G1 S1 W1) as (m2 & d2 & o2 & s2 & E2 & G2 & S2 & U2 & R2 & W2 & L2 & _).
  destruct (n_user_spec cs (bit mask M_USER_INFO) fix_pct fix_pct_nil _ _ _ _ _ G2 S2 W2)
    as (m3 & d3 & o3 & s3 & E3 & G3 & S3 & U3 & R3 & W3 & L3 & _).
  destruct (n_path_spec cs mask _ _ _ _ _ G3 S3 W3) as (m4 & d4 & o4 & s4 & E4 & G4 & S4 & U4 & R4 & W4 & L4 & _).
  destruct (n_query_spec cs (bit mask M_QUERY) fix_pct fix_pct_nil _ _ _ _ _ G4 S4 W4)
    as (m5 & d5 & o5 & s5 & E5 & G5 & S5 & U5 & R5 & W5 & L5 & _).
  destruct (n_frag_spec cs (bit mask M_FRAGMENT) fix_pct fix_pct_nil _ _ _ _ _ G5 S5 W5)
    as (m6 & d6 & o6 & s6 & E6 & G6 & S6 & U6 & R6 & W6 & L6 & _).
  destruct (engine_nf cs _ _ _ _ _ G6 S6 W6) as (m7 & d7 & o7 & s7 & E7 & _).
  pose proof (st_le_nofault _ _ L1 Hnf) as N1. pose proof (st_le_nofault _ _ L2 N1) as N2.
  pose proof (st_le_nofault _ _ L3 N2) as N3. pose proof (st_le_nofault _ _ L4 N3) as N4.
  pose proof (st_le_nofault _ _ L5 N4) as N5.
  destruct (n_text_trace _ _ 0 _ _ _ _ _ _ _ _ Hnf E1) as [T1 D1].
  destruct (n_host_trace _ _ _ _ _ _ _ N1 E2) as [T2 D2].
  destruct (n_text_trace _ _ 1 _ _ _ _ _ _ _ _ N2 E3) as [T3 D3].
  destruct (n_path_trace _ _ _ _ _ _ _ N3 E4) as [T4 D4].
  destruct (n_text_trace _ _ 4 _ _ _ _ _ _ _ _ N4 E5) as [T5 D5].
  destruct (n_text_trace _ _ 5 _ _ _ _ _ _ _ _ N5 E6) as [T6 D6].
  pose proof (engine_trace _ _ _ _ _ _ _ _ _ G6 S6 W6 E7) as T7.
  rewrite E1, E2, E3. unfold n_path in E4.
  destruct (n_path_full cs mask m3 d3 s3) as [[[r mf] df] sf]. injection E4 as -> ->.
  rewrite E5, E6, E7. intros H; injection H as <- <- <-.
  change (t_val (m_scheme m)) with (scheme (erase m)) in *.
  change (t_val (m_userInfo m2)) with (userInfo (erase m2)) in *.
  change (t_val (m_query m4)) with (query (erase m4)) in *.
  change (t_val (m_fragment m5)) with (fragment (erase m5)) in *.
  unfold normalize_plan_b. cbv zeta. unfold F_text. cbv beta in R1, R2, R3, R4, R5, R6.
  rewrite <- R1. rewrite <- D1.
  rewrite <- R2. rewrite <- D2.
  rewrite <- R3. rewrite <- D3.
  rewrite <- R4. rewrite <- D4.
  rewrite <- R5. rewrite <- D5.
  rewrite <- R6. rewrite <- D6.
  rewrite !map_app.
  eapply aextends_trans; [apply extends_aextends; [apply all_alloc_reqs|exact T1]|].
  eapply aextends_trans; [apply extends_aextends; [apply all_alloc_reqs|exact T2]|].
  eapply aextends_trans; [apply extends_aextends; [apply all_alloc_reqs|exact T3]|].
  eapply aextends_trans; [exact T4|].
  eapply aextends_trans; [apply extends_aextends; [apply all_alloc_reqs|exact T5]|].
  eapply aextends_trans; [apply extends_aextends; [apply all_alloc_reqs|exact T6]|].
  apply extends_aextends; [apply all_alloc_reqs|exact T7].
Qed.

(* an owned object is normalised in place: the only requests are the trailing node of the dot-segment walk
   and, when the guard against a path beginning with "//" fires, the node and the one-character copy of its
   "." segment *)
Lemma o_text_state cond f get set m done s m' done' s' :
  o_text cs cond f get set m done s = (Some (m', done'), s') -> s' = s.
Proof.
  unfold o_text. destruct (cond && is_some (t_val (get m))).
  - unfold norm_text. destruct (t_val (get m)); intros H; injection H as <- <- <-; reflexivity.
  - intros H; injection H as <- <- <-; reflexivity.
Qed.
Lemma o_host_state mask m done s m' done' s' : o_host cs mask m done s = (Some (m', done'), s') -> s' = s.
Proof.
  unfold o_host, norm_text. destruct (bit mask M_HOST); [|intros H; injection H as <- <- <-; reflexivity].
  destruct (t_val (m_ipFuture m)); [intros H; injection H as <- <- <-; reflexivity|].
  destruct (t_val (m_hostText m)), (m_ip4 m) as [[? ?]|], (m_ip6 m) as [[? ?]|];
    intros H; injection H as <- <- <-; reflexivity.
Qed.

Lemma o_path_trace mask m done s m' done' s' : nofault s ->
  o_path cs mask m done s = (Some (m', done'), s') ->
  aextends s s' (map (req_event cs) (if bit mask M_PATH then rds_plan (erase m) ++ amb_plan (erase m) else [])).
Proof.
  intros Hnf. unfold o_path, o_path_full, rds_plan. destruct (bit mask M_PATH).
  2:{ intros H; injection H as <- <- <-. apply aextends_refl. }
  cbv zeta.
  set (rel := negb (is_some (t_val (m_scheme m))) && negb (m_abs m) && negb (m_host_set m)).
  set (ow := true || negb (N.land done B_PATH =? 0)%N).
  destruct (remove_dot_segments_m_nf rel ow (set_m_segs (map fix_seg (m_segs m)) m) s Hnf) as (segs2 & s2 & E2 & R2 & S2 & L2).
  rewrite E2.
  pose proof (st_le_nofault _ _ L2 Hnf) as Hnf2.
  destruct (fix_ambiguity_owned_m_nf cs (set_m_segs segs2 (set_m_segs (map fix_seg (m_segs m)) m)) s2 Hnf2) as (segsA & sA & EA & _ & _ & _).
  rewrite EA.
  destruct (fix_empty_trail_m (set_m_segs segsA (set_m_segs segs2 (set_m_segs (map fix_seg (m_segs m)) m))) sA) as [m3 s3] eqn:E3.
  intros H; injection H as <- <- <-.
  destruct (fix_seg_blocks (m_segs m)) as (_ & _ & B3).
  rewrite map_app. eapply aextends_trans.
  - pose proof (remove_dot_segments_m_trace _ _ _ _ _ _ Hnf E2) as T.
    cbn [m_segs set_m_segs] in T. rewrite B3 in T. exact T.
  - rewrite <- (app_nil_r (map (req_event cs) _)). eapply aextends_trans; [|exact (fix_empty_trail_m_aext _ _ _ _ E3)].
    pose proof (fix_ambiguity_owned_m_trace _ _ _ _ Hnf2 EA) as T. rewrite R2 in T. unfold amb_plan, path_rds.
    change (erase (set_m_segs (map fix_seg (m_segs m)) m)) with (set_pathSegs (map sg_text (map fix_seg (m_segs m))) (erase m)) in T.
    rewrite B3 in T. exact T.
Qed.

Definition normalize_plan_o (mask : N) (u : uri) : list areq :=
  if bit mask M_PATH then
    let u3 := F_text (bit mask M_USER_INFO) fix_pct userInfo set_userInfo
                (F_host mask (F_text (bit mask M_SCHEME) lowercase scheme set_scheme u)) in
    rds_plan u3 ++ amb_plan u3
  else [].

Lemma normalize_m_owned_trace mask m s rc m' s' :
  nofault s -> m_owner m = true -> mwf m -> mask <> 0%N ->
  normalize_m cs mask m s = (rc, m', s') ->
  aextends s s' (map (req_event cs) (normalize_plan_o mask (erase m))).
Proof.
  intros Hnf Ho (Hh & Hnd & Hao & _) Hmask. rewrite (normalize_o_eq _ _ _ _ Ho). unfold normalize_o.
  apply N.eqb_neq in Hmask. rewrite Hmask.
  assert (Go m) as G0 by (split; [exact Hh|apply Hao; exact Ho]).
  destruct (o_scheme_spec cs (bit mask M_SCHEME) lowercase lowercase_nil m 0%N s Hnf Ho G0) as (m1 & s1 & E1 & G1 & R1 & W1 & _ & _ & L1).
  pose proof (o_text_state _ _ _ _ _ _ _ _ _ _ E1) as ->.
  destruct (o_host_spec cs mask m1 0%N s Hnf W1 G1) as (m2 & s2 & E2 & G2 & R2 & W2 & _ & _ & L2).
  pose proof (o_host_state _ _ _ _ _ _ _ E2) as ->.
  destruct (o_user_spec cs (bit mask M_USER_INFO) fix_pct fix_pct_nil m2 0%N s Hnf W2 G2) as (m3 & s3 & E3 & G3 & R3 & W3 & _ & _ & L3).
  pose proof (o_text_state _ _ _ _ _ _ _ _ _ _ E3) as ->.
  destruct (o_path_spec cs mask m3 0%N s Hnf W3 G3) as (m4 & s4 & E4 & G4 & R4 & W4 & _ & _ & L4).
  pose proof (st_le_nofault _ _ L4 Hnf) as N4.
  destruct (o_query_spec cs (bit mask M_QUERY) fix_pct fix_pct_nil m4 0%N s4 N4 W4 G4) as (m5 & s5 & E5 & G5 & R5 & W5 & _ & _ & L5).
  pose proof (o_text_state _ _ _ _ _ _ _ _ _ _ E5) as ->.
  destruct (o_frag_spec cs (bit mask M_FRAGMENT) fix_pct fix_pct_nil m5 0%N s4 N4 W5 G5) as (m6 & s6 & E6 & G6 & R6 & W6 & _ & _ & L6).
  pose proof (o_text_state _ _ _ _ _ _ _ _ _ _ E6) as ->.
  pose proof (o_path_trace _ _ _ _ _ _ _ Hnf E4) as T4.
  rewrite E1, E2, E3. unfold o_path in E4.
  destruct (o_path_full cs mask m3 0%N s) as [[[r mf] df] sf]. injection E4 as -> ->.
  rewrite E5, E6. intros H; injection H as <- <- <-.
  unfold normalize_plan_o. cbv zeta. rewrite <- R1, <- R2, <- R3. destruct (bit mask M_PATH); exact T4.
Qed.

End Sizes.

(* the same requests in two character types: text sizes scale with the character size, structure
   sizes do not change *)
Definition event_chars (csize : N) (e : event) : event :=
  match e with
  | EvMalloc sz ok => EvMalloc (sz / csize) ok
  | e => e
  end.
Definition trace_chars (csize : N) (tr : list event) : list event := map (event_chars csize) tr.

Lemma trace_chars_plan csize plan : csize <> 0%N ->
  Forall (fun r => match r with RText _ | RNode true => True | _ => False end) plan ->
  trace_chars csize (map (req_event csize) plan) = map (req_event 1) plan.
Proof.
  intros Hc Hf. unfold trace_chars. rewrite map_map. apply map_ext_in. intros r Hr.
  rewrite Forall_forall in Hf. specialize (Hf r Hr). destruct r as [n|[|]| |]; try contradiction; cbn [req_event event_chars].
  - rewrite N.div_mul by exact Hc. rewrite N.mul_1_r. reflexivity.
  - reflexivity.
Qed.

Lemma allocs_rev l : allocs (rev l) = rev (allocs l).
Proof.
  unfold allocs. induction l as [|e l IH]; [reflexivity|]. cbn [rev filter]. rewrite filter_app, IH. cbn [filter].
  destruct (is_alloc_event e); cbn [rev]; [reflexivity|apply app_nil_r].
Qed.
Lemma aextends_trace_of s s' evs : aextends s s' evs -> allocs (trace_of s') = allocs (trace_of s) ++ evs.
Proof.
  unfold aextends, trace_of. intros H. rewrite !allocs_rev, H, rev_app_distr, rev_involutive. reflexivity.
Qed.

(* without the guard of the path step the plans consist of text copies and zero-initialised list nodes only *)
Definition text_or_node (r : areq) : Prop := match r with RText _ | RNode true => True | _ => False end.
Lemma text_req_kind o : Forall text_or_node (text_req o).
Proof. destruct o as [[|c x]|]; repeat constructor. Qed.
Lemma segs_req_kind l : Forall text_or_node (segs_req l).
Proof. unfold segs_req. induction l as [|t l IH]; cbn [flat_map]; [constructor|]. apply Forall_app. split; [apply text_req_kind|exact IH]. Qed.
Lemma engine_plan_kind d u : Forall text_or_node (engine_plan d u).
Proof.
  unfold engine_plan. repeat (apply Forall_app; split);
    repeat match goal with |- context [if ?b then _ else _] => destruct b end;
    try destruct (ipFuture u); try apply text_req_kind; try apply segs_req_kind; constructor.
Qed.
Lemma owner_plan_kind u : Forall text_or_node (owner_plan u).
Proof. apply engine_plan_kind. Qed.
Lemma rds_plan_kind u : Forall text_or_node (rds_plan u).
Proof. unfold rds_plan. match goal with |- context [if ?b then _ else _] => destruct b end; repeat constructor. Qed.

(* ... and, only when the guard against a path beginning with "//" fires, of the malloc'd node of its "."
   segment.  A malloc'd node is an EvMalloc of SEG_SIZE bytes in every build: [trace_chars] would divide it
   by the character size like a text, so plans with such a node are compared as plans *)
Definition seg_or_text (r : areq) : Prop := match r with RText _ | RNode _ => True | _ => False end.
Definition req_kind (g : bool) (r : areq) : Prop := if g then seg_or_text r else text_or_node r.
Lemma text_or_node_seg r : text_or_node r -> seg_or_text r.
Proof. destruct r as [n|[|]| |]; intros H; exact H || exact I. Qed.
Lemma kind_weaken g l : Forall text_or_node l -> Forall (req_kind g) l.
Proof. intros H. eapply Forall_impl; [|exact H]. intros r Hr. destruct g; [apply text_or_node_seg; exact Hr|exact Hr]. Qed.
Lemma kind_seg g l : Forall (req_kind g) l -> Forall seg_or_text l.
Proof. intros H. eapply Forall_impl; [|exact H]. intros r Hr. destruct g; [exact Hr|apply text_or_node_seg; exact Hr]. Qed.
Lemma amb_plan_kind u : Forall (req_kind (amb_needed (path_rds u))) (amb_plan u).
Proof. unfold amb_plan. destruct (amb_needed (path_rds u)); repeat constructor. Qed.
Lemma normalize_plan_b_kind mask u : Forall (req_kind (path_guard mask u)) (normalize_plan_b mask u).
Proof.
  unfold normalize_plan_b, path_guard, guard_at. cbv zeta.
  apply Forall_app; split; [|apply Forall_app; split; [|apply Forall_app; split; [|apply Forall_app; split;
    [|apply Forall_app; split; [|apply Forall_app; split; [|apply kind_weaken, engine_plan_kind]]]]]].
  - apply kind_weaken. destruct (bit mask M_SCHEME); [apply text_req_kind|constructor].
  - apply kind_weaken. unfold nhost_plan. destruct (bit mask M_HOST); [|constructor].
    match goal with |- context [match ipFuture ?x with _ => _ end] => destruct (ipFuture x); [apply text_req_kind|] end.
    match goal with |- context [match hostText ?x with _ => _ end] => destruct (hostText x), (ip4 x), (ip6 x) end;
      try apply text_req_kind; constructor.
  - apply kind_weaken. destruct (bit mask M_USER_INFO); [apply text_req_kind|constructor].
  - unfold npath_plan. destruct (bit mask M_PATH); [|constructor]. cbn [andb].
    apply Forall_app. split; [apply kind_weaken, segs_req_kind|].
    apply Forall_app. split; [apply kind_weaken, rds_plan_kind|apply amb_plan_kind].
  - apply kind_weaken. destruct (bit mask M_QUERY); [apply text_req_kind|constructor].
  - apply kind_weaken. destruct (bit mask M_FRAGMENT); [apply text_req_kind|constructor].
Qed.
Lemma normalize_plan_o_kind mask u : Forall (req_kind (path_guard mask u)) (normalize_plan_o mask u).
Proof.
  unfold normalize_plan_o, path_guard, guard_at. cbv zeta. destruct (bit mask M_PATH); [|constructor]. cbn [andb].
  apply Forall_app. split; [apply kind_weaken, rds_plan_kind|apply amb_plan_kind].
Qed.

Lemma trace_chars_two c1 c2 plan : c1 <> 0%N -> c2 <> 0%N -> Forall text_or_node plan ->
  trace_chars c1 (map (req_event c1) plan) = trace_chars c2 (map (req_event c2) plan).
Proof. intros H1 H2 Hp. rewrite !trace_chars_plan by assumption. reflexivity. Qed.

(* two runs of make-owner with different character sizes, on any two fault-free ledgers *)
Lemma make_owner_two_sizes c1 c2 m s1 s2 :
  c1 <> 0%N -> c2 <> 0%N -> nofault s1 -> nofault s2 -> m_owner m = false -> mwf_host m -> text_blocks m = [] ->
  let r1 := make_owner_m c1 m s1 in let r2 := make_owner_m c2 m s2 in
  fst (fst r1) = fst (fst r2)
  /\ erase (snd (fst r1)) = erase (snd (fst r2))
  /\ trace_chars c1 (new_events s1 (snd r1)) = trace_chars c2 (new_events s2 (snd r2)).
Proof.
  intros H1 H2 N1 N2 Ho Hh Hb.
  destruct (make_owner_m_borrowed c1 m s1 N1 Ho Hh Hb) as (m1 & z1 & E1 & R1 & _).
  destruct (make_owner_m_borrowed c2 m s2 N2 Ho Hh Hb) as (m2 & z2 & E2 & R2 & _).
  pose proof (extends_new_events _ _ _ (make_owner_m_trace c1 _ _ _ _ _ N1 Ho Hh Hb E1)) as T1.
  pose proof (extends_new_events _ _ _ (make_owner_m_trace c2 _ _ _ _ _ N2 Ho Hh Hb E2)) as T2.
  cbv zeta. rewrite E1, E2. cbn [fst snd]. rewrite T1, T2, R1, R2.
  split; [reflexivity|]. split; [reflexivity|]. apply trace_chars_two; try assumption. apply owner_plan_kind.
Qed.

(* ================================================================ Part 5: erasure of resolution and reference creation *)
(* a borrowed object without text blocks *)
Definition bwf (d : muri) : Prop := m_owner d = false /\ text_blocks d = [].

Lemma sublist_nil_r {A} (l : list A) : sublist l [] -> l = [].
Proof. intros H. inversion H. reflexivity. Qed.
Lemma concat_upd_nil (parts : list (list nat)) i : concat parts = [] -> concat (upd i [] parts) = [].
Proof.
  intros H. pose proof (concat_upd_sub [] parts i (sublist_nil _)) as S. rewrite H in S.
  apply sublist_nil_r. exact S.
Qed.
Lemma bwf_upd d d' i X : bwf d -> m_owner d' = m_owner d -> block_parts d' = upd i X (block_parts d) -> X = [] -> bwf d'.
Proof.
  intros [Ho Hb] Ho' Hp ->. split; [congruence|]. unfold text_blocks in *. rewrite Hp. apply concat_upd_nil. exact Hb.
Qed.
Lemma bwf_segs_nil d : bwf d -> flat_map seg_blk (m_segs d) = [].
Proof.
  intros [_ Hb]. unfold text_blocks, block_parts in Hb. cbn [concat] in Hb.
  do 5 (apply app_eq_nil in Hb; destruct Hb as [_ Hb]). apply app_eq_nil in Hb. apply Hb.
Qed.
Lemma bwf_set_segs d segs : bwf d -> flat_map seg_blk segs = [] -> bwf (set_m_segs segs d).
Proof. intros H Hs. apply (bwf_upd d _ 5 (flat_map seg_blk segs) H); [reflexivity|reflexivity|exact Hs]. Qed.
Lemma bwf_segsub d segs : bwf d -> segsub segs (m_segs d) -> bwf (set_m_segs segs d).
Proof.
  intros H Hs. apply bwf_set_segs; [exact H|]. apply sublist_nil_r. rewrite <- (bwf_segs_nil d H).
  apply segsub_blocks. exact Hs.
Qed.
Lemma bwf_empty : bwf muri_empty.
Proof. split; reflexivity. Qed.

Lemma borrow_blk t : text_blk (borrow t) = [].
Proof. apply text_blk_noblk. Qed.

Lemma copy_segs_nf src : forall acc s, nofault s ->
  exists segs' s', copy_segs acc src s = (true, rev acc ++ segs', s')
    /\ map sg_text segs' = map sg_text src /\ flat_map seg_blk segs' = [] /\ st_le s s'.
Proof.
  induction src as [|sg r IH]; intros acc s Hnf; cbn [copy_segs].
  - exists [], s. rewrite app_nil_r. split; [reflexivity|]. split; [reflexivity|]. split; [reflexivity|apply st_le_refl].
  - rewrite (alloc_nf _ _ _ Hnf).
    destruct (IH ({| sg_text := sg_text sg; sg_blk := None; sg_node := ms_next s |} :: acc) _
                 (st_le_nofault _ _ (push_alloc_le false SEG_SIZE s) Hnf)) as (segs' & s' & E & V & B & L).
    exists ({| sg_text := sg_text sg; sg_blk := None; sg_node := ms_next s |} :: segs'), s'.
    rewrite E. cbn [rev]. rewrite <- app_assoc. split; [reflexivity|]. cbn [map flat_map sg_text]. rewrite V, B.
    split; [reflexivity|]. split; [unfold seg_blk; cbn; destruct (sg_text sg); reflexivity|].
    eapply st_le_trans; [apply push_alloc_le|exact L].
Qed.

Lemma append_segs_nf texts : forall acc s, nofault s ->
  exists segs' s', append_segs acc texts s = (true, rev acc ++ segs', s')
    /\ map sg_text segs' = texts /\ flat_map seg_blk segs' = [] /\ st_le s s'.
Proof.
  induction texts as [|t r IH]; intros acc s Hnf; cbn [append_segs].
  - exists [], s. rewrite app_nil_r. split; [reflexivity|]. split; [reflexivity|]. split; [reflexivity|apply st_le_refl].
  - rewrite (alloc_nf _ _ _ Hnf).
    destruct (IH ({| sg_text := t; sg_blk := None; sg_node := ms_next s |} :: acc) _
                 (st_le_nofault _ _ (push_alloc_le false SEG_SIZE s) Hnf)) as (segs' & s' & E & V & B & L).
    exists ({| sg_text := t; sg_blk := None; sg_node := ms_next s |} :: segs'), s'.
    rewrite E. cbn [rev]. rewrite <- app_assoc. split; [reflexivity|]. cbn [map flat_map sg_text]. rewrite V, B.
    split; [reflexivity|]. split; [unfold seg_blk; cbn; destruct t; reflexivity|].
    eapply st_le_trans; [apply push_alloc_le|exact L].
Qed.

(* what every helper of the two operations guarantees *)
Definition hstep_ok (d : muri) (s : mstate) (d' : muri) (s' : mstate) : Prop :=
  (bwf d -> bwf d') /\ (mwf_host d -> mwf_host d') /\ st_le s s'.

Lemma copy_path_m_nf d src s : nofault s ->
  exists d' s', copy_path_m d src s = (true, d', s') /\ erase d' = copy_path (erase d) (erase src)
    /\ hstep_ok d s d' s'.
Proof.
  intros Hnf. unfold copy_path_m. destruct (copy_segs_nf (m_segs src) [] s Hnf) as (segs' & s' & E & V & B & L).
  rewrite E. cbn [rev app]. eexists; eexists. split; [reflexivity|]. split.
  - unfold erase, copy_path. cbn. rewrite V. reflexivity.
  - split; [|split; [intros H; exact H|exact L]].
    intros H. apply (bwf_upd (set_m_segs segs' d) _ 5 (flat_map seg_blk segs')); [apply bwf_set_segs; assumption|reflexivity|reflexivity|exact B].
Qed.

Ltac mproj_cbn :=
  cbn [m_scheme m_userInfo m_hostText m_ip4 m_ip6 m_ipFuture m_portText m_segs m_query m_fragment m_abs m_owner
       set_m_scheme set_m_userInfo set_m_hostText set_m_ip4 set_m_ip6 set_m_ipFuture set_m_portText set_m_segs
       set_m_query set_m_fragment set_m_abs set_m_owner] in *.
(* bwf of an object obtained from a bwf object by storing borrowed texts *)
Ltac bwf_tac H :=
  let Ho := fresh "Ho" in let Hb := fresh "Hb" in
  destruct H as [Ho Hb]; split; [first [exact Ho|reflexivity]|];
  apply concat_nil_Forall; apply concat_nil_Forall in Hb; unfold block_parts in *; mproj_cbn;
  repeat match goal with Hf : Forall _ (_ :: _) |- _ => inversion Hf; clear Hf; subst end;
  repeat constructor; try assumption; try apply borrow_blk; try reflexivity.

Lemma copy_authority_m_nf d src s : nofault s ->
  exists d' s', copy_authority_m d src s = (true, d', s') /\ erase d' = copy_authority (erase d) (erase src)
    /\ (bwf d -> bwf d') /\ (mwf_host src -> mwf_host d') /\ st_le s s'.
Proof.
  intros Hnf. unfold copy_authority_m.
  destruct (m_ip4 src) as [[v b]|] eqn:E4.
  - rewrite (alloc_nf _ _ _ Hnf). eexists; eexists. split; [reflexivity|]. split; [|split; [|split]].
    + unfold erase, copy_authority. cbn. rewrite E4. reflexivity.
    + intros H. bwf_tac H.
    + intros _ x Hx. cbn in Hx. discriminate Hx.
    + apply push_alloc_le.
  - destruct (m_ip6 src) as [[v b]|] eqn:E6.
    + rewrite (alloc_nf _ _ _ Hnf). eexists; eexists. split; [reflexivity|]. split; [|split; [|split]].
      * unfold erase, copy_authority. cbn. rewrite E4, E6. reflexivity.
      * intros H. bwf_tac H.
      * intros _ x Hx. cbn in Hx. discriminate Hx.
      * apply push_alloc_le.
    + eexists; eexists. split; [reflexivity|]. split; [|split; [|split]].
      * unfold erase, copy_authority. cbn. rewrite E4, E6. reflexivity.
      * intros H. bwf_tac H.
      * intros Hs x Hx. cbn in *. apply Hs. exact Hx.
      * apply st_le_refl.
Qed.

Lemma rds_m_step rel owned d s : nofault s ->
  exists d' s', remove_dot_segments_m rel owned d s = (true, d', s')
    /\ erase d' = remove_dot_segments rel (erase d) /\ hstep_ok d s d' s'.
Proof.
  intros Hnf. destruct (remove_dot_segments_m_nf rel owned d s Hnf) as (segs' & s' & E & R & S & L).
  exists (set_m_segs segs' d), s'. split; [exact E|]. split; [exact R|].
  split; [intros H; apply bwf_segsub; assumption|]. split; [intros H; exact H|exact L].
Qed.

Lemma fet_m_step d s :
  exists d' s', fix_empty_trail_m d s = (d', s')
    /\ erase d' = fix_empty_trail_segment (erase d) /\ hstep_ok d s d' s'.
Proof.
  destruct (fix_empty_trail_m_nf d s) as (segs' & s' & E & R & S & L).
  exists (set_m_segs segs' d), s'. split; [exact E|]. split; [exact R|].
  split; [intros H; apply bwf_segsub; assumption|]. split; [intros H; exact H|exact L].
Qed.

Lemma fix_ambiguity_m_step d s : nofault s ->
  exists d' s', fix_ambiguity_m d s = (true, d', s')
    /\ erase d' = fix_ambiguity (erase d) /\ hstep_ok d s d' s'.
Proof.
  intros Hnf. unfold fix_ambiguity_m, fix_ambiguity.
  change (absolutePath (erase d)) with (m_abs d). change (pathSegs (erase d)) with (map sg_text (m_segs d)).
  change (is_host_set (erase d)) with (m_host_set d).
  assert (exists d' s', (true, d, s) = (true, d', s') /\ erase d' = erase d /\ hstep_ok d s d' s') as Hsame.
  { exists d, s. split; [reflexivity|]. split; [reflexivity|]. split; [auto|]. split; [auto|apply st_le_refl]. }
  assert (exists d' s', (let (o, s') := alloc false SEG_SIZE s in
                         match o with
                         | Some id => (true, set_m_segs ({| sg_text := [46%N]; sg_blk := None; sg_node := id |} :: m_segs d) d, s')
                         | None => (false, d, s')
                         end) = (true, d', s')
            /\ erase d' = set_pathSegs ([46%N] :: map sg_text (m_segs d)) (erase d) /\ hstep_ok d s d' s') as Hadd.
  { rewrite (alloc_nf _ _ _ Hnf). eexists; eexists. split; [reflexivity|]. split; [reflexivity|].
    split; [|split; [intros H; exact H|apply push_alloc_le]].
    intros H. apply bwf_set_segs; [exact H|]. cbn [flat_map]. rewrite (bwf_segs_nil d H). reflexivity. }
  destruct (m_abs d); destruct (map sg_text (m_segs d)) as [|[|c x] [|[|c2 y] r]] eqn:Em; try exact Hsame; try exact Hadd.
  destruct (m_host_set d); [exact Hsame|exact Hadd].
Qed.

Lemma resolve_abs_flag_m_step d s : nofault s ->
  exists d' s', resolve_abs_flag_m d s = (Some d', s')
    /\ erase d' = resolve_abs_flag (erase d) /\ hstep_ok d s d' s'.
Proof.
  intros Hnf. unfold resolve_abs_flag_m, resolve_abs_flag.
  change (absolutePath (erase d)) with (m_abs d). change (pathSegs (erase d)) with (map sg_text (m_segs d)).
  change (is_host_set (erase d)) with (m_host_set d).
  destruct (m_host_set d && m_abs d).
  - destruct (m_segs d) as [|sg r] eqn:Es; cbn [map].
    + rewrite (alloc_nf _ _ _ Hnf). eexists; eexists. split; [reflexivity|]. split; [reflexivity|].
      split; [|split; [intros H; exact H|apply push_alloc_le]].
      intros H. apply (bwf_upd (set_m_segs [{| sg_text := []; sg_blk := None; sg_node := ms_next s |}] d) _ 5
                               (flat_map seg_blk [{| sg_text := []; sg_blk := None; sg_node := ms_next s |}]));
        [apply bwf_set_segs; [exact H|reflexivity]|reflexivity|reflexivity|reflexivity].
    + eexists; eexists. split; [reflexivity|]. split; [reflexivity|].
      split; [|split; [intros H; exact H|apply st_le_refl]].
      intros H. bwf_tac H.
  - exists d, s. split; [reflexivity|]. split; [reflexivity|]. split; [auto|]. split; [auto|apply st_le_refl].
Qed.

Lemma sublist_removelast {A} (l : list A) : sublist (removelast l) l.
Proof.
  induction l as [|x [|y r] IH]; [constructor|repeat constructor|].
  change (removelast (x :: y :: r)) with (x :: removelast (y :: r)). apply sl_cons. exact IH.
Qed.
Lemma sublist_flat_map {A B} (f : A -> list B) a b : sublist a b -> sublist (flat_map f a) (flat_map f b).
Proof.
  induction 1; cbn [flat_map]; [constructor| |apply sublist_app; [apply sublist_refl|assumption]].
  eapply sublist_trans; [apply sublist_app_r|assumption].
Qed.
Lemma map_removelast {A B} (f : A -> B) l : map f (removelast l) = removelast (map f l).
Proof.
  induction l as [|x [|y r] IH]; [reflexivity|reflexivity|].
  change (removelast (x :: y :: r)) with (x :: removelast (y :: r)). cbn [map] in *. rewrite IH. reflexivity.
Qed.

Lemma merge_path_m_step work rel s : nofault s ->
  exists d' s', merge_path_m work rel s = (true, d', s')
    /\ erase d' = merge_path (erase work) (erase rel) /\ hstep_ok work s d' s'.
Proof.
  intros Hnf. unfold merge_path_m, merge_path.
  change (pathSegs (erase rel)) with (map sg_text (m_segs rel)).
  destruct (m_segs rel) as [|r1 rr] eqn:Er; cbn [map].
  - exists work, s. split; [reflexivity|]. split; [reflexivity|]. split; [auto|]. split; [auto|apply st_le_refl].
  - assert (exists l s1, (match m_segs work with
                          | [] => match alloc false SEG_SIZE s with
                                  | (Some id, s') => (Some [{| sg_text := []; sg_blk := None; sg_node := id |}], s')
                                  | (None, s') => (None, s')
                                  end
                          | l => (Some l, s)
                          end) = (Some l, s1)
              /\ map sg_text (removelast l) = removelast (map sg_text (m_segs work))
              /\ (bwf work -> flat_map seg_blk (removelast l) = []) /\ st_le s s1) as (l & s1 & E1 & V1 & B1 & L1).
    { destruct (m_segs work) as [|w wr] eqn:Ew.
      - rewrite (alloc_nf _ _ _ Hnf). eexists; eexists. split; [reflexivity|]. split; [reflexivity|].
        split; [reflexivity|apply push_alloc_le].
      - exists (w :: wr), s. split; [reflexivity|]. split; [apply map_removelast|]. split; [|apply st_le_refl].
        intros H. apply sublist_nil_r. rewrite <- (bwf_segs_nil work H), Ew. apply sublist_flat_map. apply sublist_removelast. }
    rewrite E1.
    destruct (copy_segs_nf rr [] s1 (st_le_nofault _ _ L1 Hnf)) as (more & s2 & E2 & V2 & B2 & L2).
    rewrite E2. cbn [rev app]. eexists; eexists. split; [reflexivity|]. split; [|split; [|split]].
    + change (erase (set_m_segs ?x work)) with (set_pathSegs (map sg_text x) (erase work)).
      unfold erase at 1. cbn [m_scheme m_userInfo m_hostText m_ip4 m_ip6 m_ipFuture m_portText m_segs m_query m_fragment m_abs m_owner set_m_segs].
      rewrite map_app. cbn [map sg_text]. rewrite V1, V2. reflexivity.
    + intros H. apply bwf_set_segs; [exact H|]. rewrite flat_map_app. cbn [flat_map]. rewrite (B1 H), B2.
      unfold seg_blk. cbn [sg_text sg_blk blk_list]. destruct (sg_text r1); reflexivity.
    + intros H; exact H.
    + eapply st_le_trans; eassumption.
Qed.

(* ---------------------------------------------------------------- uriAddBaseUriExMm *)
Lemma erase_borrow_scheme t d : erase (set_m_scheme (borrow t) d) = set_scheme (t_val t) (erase d). Proof. reflexivity. Qed.
Lemma erase_borrow_query t d : erase (set_m_query (borrow t) d) = set_query (t_val t) (erase d). Proof. reflexivity. Qed.
Lemma erase_borrow_fragment t d : erase (set_m_fragment (borrow t) d) = set_fragment (t_val t) (erase d). Proof. reflexivity. Qed.
Lemma erase_set_abs b d : erase (set_m_abs b d) = set_absolutePath b (erase d). Proof. reflexivity. Qed.

Lemma bwf_borrow_scheme t d : bwf d -> bwf (set_m_scheme (borrow t) d).
Proof. intros H. bwf_tac H. Qed.
Lemma bwf_borrow_query t d : bwf d -> bwf (set_m_query (borrow t) d).
Proof. intros H. bwf_tac H. Qed.
Lemma bwf_borrow_fragment t d : bwf d -> bwf (set_m_fragment (borrow t) d).
Proof. intros H. bwf_tac H. Qed.
Lemma bwf_set_abs b d : bwf d -> bwf (set_m_abs b d).
Proof. intros H. bwf_tac H. Qed.

(* the common end: uriFixEmptyTrailSegment, then the fragment of the reference *)
Lemma finish_step fr d s :
  exists d' s', (let '(d0, s0) := fix_empty_trail_m d s in (URI_SUCCESS, set_m_fragment (borrow fr) d0, s0)) = (URI_SUCCESS, d', s')
    /\ erase d' = set_fragment (t_val fr) (fix_empty_trail_segment (erase d)) /\ hstep_ok d s d' s'.
Proof.
  destruct (fet_m_step d s) as (d1 & s1 & E1 & R1 & K1 & H1 & L1). rewrite E1.
  eexists; eexists. split; [reflexivity|]. split; [rewrite erase_borrow_fragment, R1; reflexivity|].
  split; [intros H; apply bwf_borrow_fragment; auto|]. split; [intros H; apply H1; exact H|exact L1].
Qed.

Definition add_base_post (rel base : muri) (s : mstate) (res : N * muri * mstate) (pure : N * uri) : Prop :=
  let '(rc, d, s') := res in
  rc = fst pure /\ erase d = snd pure /\ bwf d /\ (mwf_host rel -> mwf_host base -> mwf_host d) /\ st_le s s'.

Ltac pure_eq := unfold remove_dot_segments_absolute; change (erase muri_empty) with empty_uri; reflexivity.

Lemma add_base_impl_m_nf compat rel base s : nofault s ->
  add_base_post rel base s (add_base_impl_m compat rel base s) (add_base_impl compat (erase rel) (erase base)).
Proof.
  intros Hnf. unfold add_base_impl_m, add_base_impl.
  change (scheme (erase base)) with (t_val (m_scheme base)).
  change (scheme (erase rel)) with (t_val (m_scheme rel)).
  destruct (t_val (m_scheme base)) as [sb|] eqn:Esb.
  2:{ unfold add_base_post. cbn [fst snd]. split; [reflexivity|]. split; [reflexivity|]. split; [apply bwf_empty|].
      split; [intros _ _ x Hx; discriminate Hx|apply st_le_refl]. }
  cbv zeta.
  assert ((is_some (t_val (m_scheme rel)) && negb (compat && is_some (t_val (m_scheme rel)) && range_eqb (Some sb) (t_val (m_scheme rel))))
          = (is_some (t_val (m_scheme rel)) && negb (compat && range_eqb (Some sb) (t_val (m_scheme rel))))) as Hrs.
  { destruct (is_some (t_val (m_scheme rel))); [rewrite andb_true_r; reflexivity|reflexivity]. }
  rewrite Hrs. clear Hrs.
  change (is_host_set (erase rel)) with (m_host_set rel).
  change (pathSegs (erase rel)) with (map sg_text (m_segs rel)).
  change (absolutePath (erase rel)) with (m_abs rel).
  change (query (erase rel)) with (t_val (m_query rel)).
  change (query (erase base)) with (t_val (m_query base)).
  change (fragment (erase rel)) with (t_val (m_fragment rel)).
  destruct (is_some (t_val (m_scheme rel)) && negb (compat && range_eqb (Some sb) (t_val (m_scheme rel)))).
  - (* the reference has its own scheme *)
    set (d0 := set_m_scheme (borrow (m_scheme rel)) muri_empty).
    assert (bwf d0) as K0 by (apply bwf_borrow_scheme, bwf_empty).
    destruct (copy_authority_m_nf d0 rel s Hnf) as (d1 & s1 & E1 & R1 & K1 & H1 & L1). rewrite E1. cbv beta iota. cbn [negb].
    pose proof (st_le_nofault _ _ L1 Hnf) as N1.
    destruct (copy_path_m_nf d1 rel s1 N1) as (d2 & s2 & E2 & R2 & K2 & H2 & L2). rewrite E2. cbv beta iota. cbn [negb].
    pose proof (st_le_nofault _ _ L2 N1) as N2.
    destruct (rds_m_step false (m_owner d2) d2 s2 N2) as (d3 & s3 & E3 & R3 & K3 & H3 & L3). rewrite E3. cbv beta iota. cbn [negb].
    pose proof (st_le_nofault _ _ L3 N2) as N3.
    destruct (fix_ambiguity_m_step d3 s3 N3) as (d4 & s4 & E4 & R4 & K4 & H4 & L4). rewrite E4. cbv beta iota. cbn [negb].
    destruct (finish_step (m_fragment rel) (set_m_query (borrow (m_query rel)) d4) s4) as (d5 & s5 & E5 & R5 & K5 & H5 & L5).
    rewrite E5. unfold add_base_post. cbn [fst snd]. split; [reflexivity|]. split; [|split; [|split]].
    + rewrite R5, erase_borrow_query, R4, R3, R2, R1. pure_eq.
    + apply K5, bwf_borrow_query, K4, K3, K2, K1, K0.
    + intros Hr _. apply H5. apply H4, H3, H2, H1, Hr.
    + eapply st_le_trans; [exact L1|]. eapply st_le_trans; [exact L2|]. eapply st_le_trans; [exact L3|].
      eapply st_le_trans; [exact L4|exact L5].
  - destruct (m_host_set rel).
    + (* network-path reference *)
      destruct (copy_authority_m_nf muri_empty rel s Hnf) as (d1 & s1 & E1 & R1 & K1 & H1 & L1). rewrite E1. cbv beta iota. cbn [negb].
      pose proof (st_le_nofault _ _ L1 Hnf) as N1.
      destruct (copy_path_m_nf d1 rel s1 N1) as (d2 & s2 & E2 & R2 & K2 & H2 & L2). rewrite E2. cbv beta iota. cbn [negb].
      pose proof (st_le_nofault _ _ L2 N1) as N2.
      destruct (rds_m_step false (m_owner d2) d2 s2 N2) as (d3 & s3 & E3 & R3 & K3 & H3 & L3). rewrite E3. cbv beta iota. cbn [negb].
      destruct (finish_step (m_fragment rel) (set_m_scheme (borrow (m_scheme base)) (set_m_query (borrow (m_query rel)) d3)) s3)
        as (d5 & s5 & E5 & R5 & K5 & H5 & L5).
      rewrite E5. unfold add_base_post. cbn [fst snd]. split; [reflexivity|]. split; [|split; [|split]].
      * rewrite R5, erase_borrow_scheme, erase_borrow_query, R3, R2, R1, Esb. pure_eq.
      * apply K5, bwf_borrow_scheme, bwf_borrow_query, K3, K2, K1, bwf_empty.
      * intros Hr _. apply H5. apply H3, H2, H1, Hr.
      * eapply st_le_trans; [exact L1|]. eapply st_le_trans; [exact L2|]. eapply st_le_trans; [exact L3|exact L5].
    + destruct (copy_authority_m_nf muri_empty base s Hnf) as (d1 & s1 & E1 & R1 & K1 & H1 & L1). rewrite E1. cbv beta iota. cbn [negb].
      pose proof (st_le_nofault _ _ L1 Hnf) as N1.
      assert (forall (A : Type) (x y : A), match m_segs rel, m_abs rel with [], false => x | _, _ => y end
                = match map sg_text (m_segs rel), m_abs rel with [], false => x | _, _ => y end) as Hm
        by (intros; destruct (m_segs rel); reflexivity).
      rewrite Hm. clear Hm.
      destruct (map sg_text (m_segs rel)) as [|t1 tr] eqn:Esr.
      * destruct (m_abs rel) eqn:Ea.
        -- (* absolute, no segment *)
           destruct (copy_path_m_nf d1 rel s1 N1) as (d2 & s2 & E2 & R2 & K2 & H2 & L2). rewrite E2. cbv beta iota. cbn [negb].
           pose proof (st_le_nofault _ _ L2 N1) as N2.
           destruct (resolve_abs_flag_m_step d2 s2 N2) as (d3 & s3 & E3 & R3 & K3 & H3 & L3). rewrite E3.
           pose proof (st_le_nofault _ _ L3 N2) as N3.
           destruct (rds_m_step false (m_owner d3) d3 s3 N3) as (d4 & s4 & E4 & R4 & K4 & H4 & L4). rewrite E4. cbv beta iota. cbn [negb].
           pose proof (st_le_nofault _ _ L4 N3) as N4.
           destruct (fix_ambiguity_m_step d4 s4 N4) as (d5 & s5 & E5 & R5 & K5 & H5 & L5). rewrite E5. cbv beta iota. cbn [negb].
           destruct (finish_step (m_fragment rel) (set_m_scheme (borrow (m_scheme base)) (set_m_query (borrow (m_query rel)) d5)) s5)
             as (d6 & s6 & E6 & R6 & K6 & H6 & L6).
           rewrite E6. unfold add_base_post. cbn [fst snd]. split; [reflexivity|]. split; [|split; [|split]].
           ++ rewrite R6, erase_borrow_scheme, erase_borrow_query, R5, R4, R3, R2, R1, Esb. pure_eq.
           ++ apply K6, bwf_borrow_scheme, bwf_borrow_query, K5, K4, K3, K2, K1, bwf_empty.
           ++ intros _ Hb. apply H6. apply H5, H4, H3, H2, H1, Hb.
           ++ eapply st_le_trans; [exact L1|]. eapply st_le_trans; [exact L2|]. eapply st_le_trans; [exact L3|].
              eapply st_le_trans; [exact L4|]. eapply st_le_trans; [exact L5|exact L6].
        -- (* empty path: the base path, the query of the reference if it has one *)
           destruct (copy_path_m_nf d1 base s1 N1) as (d2 & s2 & E2 & R2 & K2 & H2 & L2). rewrite E2. cbv beta iota. cbn [negb].
           destruct (finish_step (m_fragment rel)
                       (set_m_scheme (borrow (m_scheme base))
                          (set_m_query (borrow (match t_val (m_query rel) with Some _ => m_query rel | None => m_query base end)) d2)) s2)
             as (d6 & s6 & E6 & R6 & K6 & H6 & L6).
           rewrite E6. unfold add_base_post. cbn [fst snd]. split; [reflexivity|]. split; [|split; [|split]].
           ++ rewrite R6, erase_borrow_scheme, erase_borrow_query, R2, R1, Esb.
              destruct (t_val (m_query rel)) eqn:Eq; [rewrite Eq|]; pure_eq.
           ++ apply K6, bwf_borrow_scheme, bwf_borrow_query, K2, K1, bwf_empty.
           ++ intros _ Hb. apply H6. apply H2, H1, Hb.
           ++ eapply st_le_trans; [exact L1|]. eapply st_le_trans; [exact L2|exact L6].
      * destruct (m_abs rel) eqn:Ea.
        -- destruct (copy_path_m_nf d1 rel s1 N1) as (d2 & s2 & E2 & R2 & K2 & H2 & L2). rewrite E2. cbv beta iota. cbn [negb].
           pose proof (st_le_nofault _ _ L2 N1) as N2.
           destruct (resolve_abs_flag_m_step d2 s2 N2) as (d3 & s3 & E3 & R3 & K3 & H3 & L3). rewrite E3.
           pose proof (st_le_nofault _ _ L3 N2) as N3.
           destruct (rds_m_step false (m_owner d3) d3 s3 N3) as (d4 & s4 & E4 & R4 & K4 & H4 & L4). rewrite E4. cbv beta iota. cbn [negb].
           pose proof (st_le_nofault _ _ L4 N3) as N4.
           destruct (fix_ambiguity_m_step d4 s4 N4) as (d5 & s5 & E5 & R5 & K5 & H5 & L5). rewrite E5. cbv beta iota. cbn [negb].
           destruct (finish_step (m_fragment rel) (set_m_scheme (borrow (m_scheme base)) (set_m_query (borrow (m_query rel)) d5)) s5)
             as (d6 & s6 & E6 & R6 & K6 & H6 & L6).
           rewrite E6. unfold add_base_post. cbn [fst snd]. split; [reflexivity|]. split; [|split; [|split]].
           ++ rewrite R6, erase_borrow_scheme, erase_borrow_query, R5, R4, R3, R2, R1, Esb. pure_eq.
           ++ apply K6, bwf_borrow_scheme, bwf_borrow_query, K5, K4, K3, K2, K1, bwf_empty.
           ++ intros _ Hb. apply H6. apply H5, H4, H3, H2, H1, Hb.
           ++ eapply st_le_trans; [exact L1|]. eapply st_le_trans; [exact L2|]. eapply st_le_trans; [exact L3|].
              eapply st_le_trans; [exact L4|]. eapply st_le_trans; [exact L5|exact L6].
        -- (* merge with the base path *)
           destruct (copy_path_m_nf d1 base s1 N1) as (d2 & s2 & E2 & R2 & K2 & H2 & L2). rewrite E2. cbv beta iota. cbn [negb].
           pose proof (st_le_nofault _ _ L2 N1) as N2.
           destruct (merge_path_m_step d2 rel s2 N2) as (d3 & s3 & E3 & R3 & K3 & H3 & L3). rewrite E3. cbv beta iota. cbn [negb].
           pose proof (st_le_nofault _ _ L3 N2) as N3.
           destruct (rds_m_step false (m_owner d3) d3 s3 N3) as (d4 & s4 & E4 & R4 & K4 & H4 & L4). rewrite E4. cbv beta iota. cbn [negb].
           pose proof (st_le_nofault _ _ L4 N3) as N4.
           destruct (fix_ambiguity_m_step d4 s4 N4) as (d5 & s5 & E5 & R5 & K5 & H5 & L5). rewrite E5. cbv beta iota. cbn [negb].
           destruct (finish_step (m_fragment rel) (set_m_scheme (borrow (m_scheme base)) (set_m_query (borrow (m_query rel)) d5)) s5)
             as (d6 & s6 & E6 & R6 & K6 & H6 & L6).
           rewrite E6. unfold add_base_post. cbn [fst snd]. split; [reflexivity|]. split; [|split; [|split]].
           ++ rewrite R6, erase_borrow_scheme, erase_borrow_query, R5, R4, R3, R2, R1, Esb. pure_eq.
           ++ apply K6, bwf_borrow_scheme, bwf_borrow_query, K5, K4, K3, K2, K1, bwf_empty.
           ++ intros _ Hb. apply H6. apply H5, H4, H3, H2, H1, Hb.
           ++ eapply st_le_trans; [exact L1|]. eapply st_le_trans; [exact L2|]. eapply st_le_trans; [exact L3|].
              eapply st_le_trans; [exact L4|]. eapply st_le_trans; [exact L5|exact L6].
Qed.

Lemma free_text_le o t s : st_le s (free_text o t s).
Proof.
  unfold free_text. destruct o; [|apply st_le_refl]. destruct (t_val t) as [[|c x]|]; try apply st_le_refl.
  destruct (t_blk t); [apply free_blk_le|]. split; cbn; [reflexivity|lia].
Qed.
Lemma free_seg_le o sg s : st_le s (free_seg o sg s).
Proof.
  unfold free_seg. eapply st_le_trans; [|apply free_blk_le]. destruct o; [|apply st_le_refl].
  destruct (sg_text sg); [apply st_le_refl|]. destruct (sg_blk sg); [apply free_blk_le|]. split; cbn; [reflexivity|lia].
Qed.
Lemma free_members_le m s : st_le s (snd (free_members m s)).
Proof.
  unfold free_members. cbn [snd].
  repeat first [ apply st_le_refl
               | (eapply st_le_trans; [|apply free_text_le])
               | (eapply st_le_trans; [|apply fold_free_le; intros; apply free_seg_le])
               | (eapply st_le_trans; [|match goal with |- st_le _ (match ?x with _ => _ end) => destruct x as [[? ?]|]; [apply free_blk_le|apply st_le_refl] end])
               | (eapply st_le_trans; [|match goal with |- st_le _ (match ?x with _ => _ end) => destruct x; [apply st_le_refl|apply free_text_le] end]) ].
Qed.

Lemma free_members_empty d s : m_owner d = false -> erase d = empty_uri ->
  erase (fst (free_members d s)) = empty_uri.
Proof.
  intros Ho He. unfold free_members. rewrite Ho. cbn [fst]. unfold erase in *.
  cbn [m_scheme m_userInfo m_hostText m_ip4 m_ip6 m_ipFuture m_portText m_segs m_query m_fragment m_abs m_owner map].
  unfold empty_uri in *. injection He as H1 H2 H3 H4 H5 H6 H7 H8 H9 H10 H11 H12.
  rewrite H1, H2, H3, H6, H7, H9, H10, H11. reflexivity.
Qed.

Lemma add_base_impl_error compat rel base :
  fst (add_base_impl compat rel base) <> 0%N -> snd (add_base_impl compat rel base) = empty_uri.
Proof. unfold add_base_impl. destruct (scheme base); cbn [fst snd]; [intros H; contradiction H; reflexivity|reflexivity]. Qed.

Lemma bwf_mwf d : bwf d -> mwf_host d -> mwf d.
Proof.
  intros [Ho Hb] Hh. split; [exact Hh|]. rewrite Hb. split; [constructor|]. split; [intros H; congruence|reflexivity].
Qed.

Lemma bwf_free_members d s : bwf d -> bwf (fst (free_members d s)) /\ (mwf_host d -> mwf_host (fst (free_members d s))).
Proof.
  intros H. pose proof H as [Ho _]. unfold free_members. rewrite Ho. cbn [fst]. split; [|intros Hh; exact Hh].
  bwf_tac H.
Qed.

Lemma add_base_m_erasure compat rel base s : nofault s ->
  exists rc d s', add_base_m compat rel base s = (rc, d, s')
    /\ (rc, erase d) = add_base compat (erase rel) (erase base)
    /\ bwf d /\ (mwf_host rel -> mwf_host base -> mwf d) /\ nofault s'.
Proof.
  intros Hnf. unfold add_base_m, add_base.
  pose proof (add_base_impl_m_nf compat rel base s Hnf) as H. unfold add_base_post in H.
  destruct (add_base_impl_m compat rel base s) as [[rc d] s1]. destruct H as (Hrc & He & Hb & Hh & L).
  destruct (add_base_impl compat (erase rel) (erase base)) as [prc pu] eqn:Ep. cbn [fst snd] in Hrc, He. subst prc. subst pu.
  destruct (rc =? 0)%N eqn:E0.
  - exists rc, d, s1. split; [reflexivity|]. split; [reflexivity|]. split; [exact Hb|].
    split; [intros A B; apply bwf_mwf; auto|apply (st_le_nofault _ _ L Hnf)].
  - apply N.eqb_neq in E0.
    pose proof (add_base_impl_error compat (erase rel) (erase base)) as Herr. rewrite Ep in Herr. cbn [fst snd] in Herr.
    specialize (Herr E0).
    pose proof (free_members_le d s1) as L2. destruct (bwf_free_members d s1 Hb) as [Hb' Hh'].
    pose proof (free_members_empty d s1 (proj1 Hb) Herr) as He'.
    destruct (free_members d s1) as [d' s']. cbn [fst snd] in *.
    exists rc, d', s'. split; [reflexivity|]. split; [rewrite He', Herr; reflexivity|]. split; [exact Hb'|].
    split; [intros A B; apply bwf_mwf; auto|]. apply (st_le_nofault _ _ L2). apply (st_le_nofault _ _ L Hnf).
Qed.

(* ---------------------------------------------------------------- uriRemoveBaseUriMm *)
Lemma remove_base_impl_m_nf dr src base s : nofault s ->
  add_base_post src base s (remove_base_impl_m dr src base s) (remove_base_impl dr (erase src) (erase base)).
Proof.
  intros Hnf. unfold remove_base_impl_m, remove_base_impl.
  change (scheme (erase base)) with (t_val (m_scheme base)).
  change (scheme (erase src)) with (t_val (m_scheme src)).
  destruct (t_val (m_scheme base)) as [sb|] eqn:Esb.
  2:{ unfold add_base_post. cbn [fst snd]. split; [reflexivity|]. split; [reflexivity|]. split; [apply bwf_empty|].
      split; [intros _ _ x Hx; discriminate Hx|apply st_le_refl]. }
  destruct (t_val (m_scheme src)) as [ss|] eqn:Ess.
  2:{ unfold add_base_post. cbn [fst snd]. split; [reflexivity|]. split; [reflexivity|]. split; [apply bwf_empty|].
      split; [intros _ _ x Hx; discriminate Hx|apply st_le_refl]. }
  cbv zeta.
  change (scheme (erase base)) with (t_val (m_scheme base)).
  change (scheme (erase src)) with (t_val (m_scheme src)).
  change (query (erase src)) with (t_val (m_query src)).
  change (fragment (erase src)) with (t_val (m_fragment src)).
  rewrite ?Esb, ?Ess.
  assert (forall d, bwf d -> bwf (set_m_fragment (borrow (m_fragment src)) (set_m_query (borrow (m_query src)) d))) as Kf
    by (intros d H; apply bwf_borrow_fragment, bwf_borrow_query, H).
  destruct (negb (range_eqb (Some ss) (Some sb))).
  - set (d0 := set_m_scheme (borrow (m_scheme src)) muri_empty).
    assert (bwf d0) as K0 by (apply bwf_borrow_scheme, bwf_empty).
    destruct (copy_authority_m_nf d0 src s Hnf) as (d1 & s1 & E1 & R1 & K1 & H1 & L1). rewrite E1. cbv beta iota. cbn [negb].
    pose proof (st_le_nofault _ _ L1 Hnf) as N1.
    destruct (copy_path_m_nf d1 src s1 N1) as (d2 & s2 & E2 & R2 & K2 & H2 & L2). rewrite E2. cbv beta iota. cbn [negb].
    unfold add_base_post. cbn [fst snd]. split; [reflexivity|]. split; [|split; [|split]].
    + rewrite erase_borrow_fragment, erase_borrow_query, R2, R1. unfold d0. rewrite erase_borrow_scheme, Ess.
      change (erase muri_empty) with empty_uri. reflexivity.
    + apply Kf, K2, K1, K0.
    + intros Hs _. apply H2, H1, Hs.
    + eapply st_le_trans; [exact L1|exact L2].
  - destruct (negb (equals_authority (erase src) (erase base))).
    + set (d0 := if negb (is_host_set (erase src)) && is_host_set (erase base)
                 then set_m_scheme (borrow (m_scheme src)) muri_empty else muri_empty).
      assert (bwf d0) as K0 by (unfold d0; destruct (negb (is_host_set (erase src)) && is_host_set (erase base));
                                [apply bwf_borrow_scheme, bwf_empty|apply bwf_empty]).
      destruct (copy_authority_m_nf d0 src s Hnf) as (d1 & s1 & E1 & R1 & K1 & H1 & L1). rewrite E1. cbv beta iota. cbn [negb].
      pose proof (st_le_nofault _ _ L1 Hnf) as N1.
      destruct (copy_path_m_nf d1 src s1 N1) as (d2 & s2 & E2 & R2 & K2 & H2 & L2). rewrite E2. cbv beta iota. cbn [negb].
      unfold add_base_post. cbn [fst snd]. split; [reflexivity|]. split; [|split; [|split]].
      * rewrite erase_borrow_fragment, erase_borrow_query, R2, R1. unfold d0.
        destruct (negb (is_host_set (erase src)) && is_host_set (erase base));
          [rewrite erase_borrow_scheme, Ess|]; change (erase muri_empty) with empty_uri; reflexivity.
      * apply Kf, K2, K1, K0.
      * intros Hs _. apply H2, H1, Hs.
      * eapply st_le_trans; [exact L1|exact L2].
    + destruct dr.
      * destruct (copy_path_m_nf muri_empty src s Hnf) as (d1 & s1 & E1 & R1 & K1 & H1 & L1). rewrite E1. cbv beta iota. cbn [negb].
        pose proof (st_le_nofault _ _ L1 Hnf) as N1.
        destruct (fet_m_step (set_m_abs true d1) s1) as (dt & st & Et & Rt & Kt & Ht & Lt). rewrite Et. cbv beta iota.
        pose proof (st_le_nofault _ _ Lt N1) as Nt.
        destruct (fix_ambiguity_m_step dt st Nt) as (d2 & s2 & E2 & R2 & K2 & H2 & L2). rewrite E2. cbv beta iota. cbn [negb].
        unfold add_base_post. cbn [fst snd]. split; [reflexivity|]. split; [|split; [|split]].
        -- rewrite erase_borrow_fragment, erase_borrow_query, R2, Rt, erase_set_abs, R1.
           change (erase muri_empty) with empty_uri. reflexivity.
        -- apply Kf, K2, Kt, bwf_set_abs, K1, bwf_empty.
        -- intros _ _. apply H2, Ht. apply (H1 (fun x (Hx : t_val (m_ipFuture muri_empty) = Some x) => ltac:(discriminate Hx))).
        -- eapply st_le_trans; [exact L1|]. eapply st_le_trans; [exact Lt|exact L2].
      * change (pathSegs (erase src)) with (map sg_text (m_segs src)).
        change (pathSegs (erase base)) with (map sg_text (m_segs base)).
        destruct (skip_common (map sg_text (m_segs src)) (map sg_text (m_segs base))) as [s' b'].
        destruct (append_segs_nf (parents b' ++ rest_segments (match parents b' with [] => true | _ => false end) s') [] s Hnf)
          as (segs & s1 & E1 & V1 & B1 & L1).
        rewrite E1. cbn [rev app]. unfold add_base_post. cbn [fst snd]. split; [reflexivity|]. split; [|split; [|split]].
        -- rewrite erase_borrow_fragment, erase_borrow_query.
           change (erase (set_m_segs segs muri_empty)) with (set_pathSegs (map sg_text segs) empty_uri). rewrite V1. reflexivity.
        -- apply Kf, bwf_set_segs; [apply bwf_empty|exact B1].
        -- intros _ _ x Hx. discriminate Hx.
        -- exact L1.
Qed.

Lemma remove_base_impl_error dr src base :
  fst (remove_base_impl dr src base) <> 0%N -> snd (remove_base_impl dr src base) = empty_uri.
Proof.
  unfold remove_base_impl. destruct (scheme base); [destruct (scheme src)|]; cbn [fst snd];
    try reflexivity. intros H; contradiction H; reflexivity.
Qed.

Lemma remove_base_m_erasure dr src base s : nofault s ->
  exists rc d s', remove_base_m dr src base s = (rc, d, s')
    /\ (rc, erase d) = remove_base dr (erase src) (erase base)
    /\ bwf d /\ (mwf_host src -> mwf_host base -> mwf d) /\ nofault s'.
Proof.
  intros Hnf. unfold remove_base_m, remove_base.
  pose proof (remove_base_impl_m_nf dr src base s Hnf) as H. unfold add_base_post in H.
  destruct (remove_base_impl_m dr src base s) as [[rc d] s1]. destruct H as (Hrc & He & Hb & Hh & L).
  destruct (remove_base_impl dr (erase src) (erase base)) as [prc pu] eqn:Ep. cbn [fst snd] in Hrc, He. subst prc. subst pu.
  destruct (rc =? 0)%N eqn:E0.
  - exists rc, d, s1. split; [reflexivity|]. split; [reflexivity|]. split; [exact Hb|].
    split; [intros A B; apply bwf_mwf; auto|apply (st_le_nofault _ _ L Hnf)].
  - apply N.eqb_neq in E0.
    pose proof (remove_base_impl_error dr (erase src) (erase base)) as Herr. rewrite Ep in Herr. cbn [fst snd] in Herr.
    specialize (Herr E0).
    pose proof (free_members_le d s1) as L2. destruct (bwf_free_members d s1 Hb) as [Hb' Hh'].
    pose proof (free_members_empty d s1 (proj1 Hb) Herr) as He'.
    destruct (free_members d s1) as [d' s']. cbn [fst snd] in *.
    exists rc, d', s'. split; [reflexivity|]. split; [rewrite He', Herr; reflexivity|]. split; [exact Hb'|].
    split; [intros A B; apply bwf_mwf; auto|]. apply (st_le_nofault _ _ L2). apply (st_le_nofault _ _ L Hnf).
Qed.

(* ================================================================ Part 6: the statements of Props/C12.v and Props/C19.v *)
(* every live block was handed out earlier: holds initially and is kept by the ledger operations *)
Definition ledger_wf (s : mstate) : Prop := Forall (fun p => fst p < ms_next s) (ms_live s).

Lemma ledger_wf_init p : ledger_wf (ms_init p).
Proof. constructor. Qed.
Lemma ledger_wf_alloc c sz s : ledger_wf s -> ledger_wf (snd (alloc c sz s)).
Proof.
  unfold ledger_wf, alloc. intros H. destruct (plan_fails (ms_plan s) (S (ms_requests s))); cbn [snd ms_live ms_next]; [exact H|].
  constructor; [cbn; lia|]. eapply Forall_impl; [|exact H]. cbn. intros; lia.
Qed.
Lemma remove_blk_sub b l : forall sz l', remove_blk b l = Some (sz, l') -> sublist l' l.
Proof.
  induction l as [|[i z] r IH]; intros sz l'; cbn [remove_blk]; [discriminate|].
  destruct (Nat.eqb i b).
  - intros H; injection H as <- <-. apply sl_skip, sublist_refl.
  - destruct (remove_blk b r) as [[sz' r']|]; [|discriminate]. intros H; injection H as <- <-.
    apply sl_cons. eapply IH. reflexivity.
Qed.
Lemma ledger_wf_free b s : ledger_wf s -> ledger_wf (free_blk b s).
Proof.
  unfold ledger_wf, free_blk. intros H. destruct (remove_blk b (ms_live s)) as [[sz l']|] eqn:E; cbn [ms_live ms_next]; [|exact H].
  eapply sublist_Forall; [eapply remove_blk_sub; exact E|exact H].
Qed.
Lemma fresh_not_live s l : ledger_wf s -> Forall (fun b => ms_next s <= b) l ->
  Forall (fun b => ~ In b (map fst (ms_live s))) l.
Proof.
  intros Hw Hl. eapply Forall_impl; [|exact Hl]. cbn. intros b Hb Hi.
  apply in_map_iff in Hi. destruct Hi as ([i z] & <- & Hin). unfold ledger_wf in Hw. rewrite Forall_forall in Hw.
  specialize (Hw _ Hin). cbn in *. lia.
Qed.

Lemma to_text_owner u : to_text (set_owner true u) = to_text u.
Proof. reflexivity. Qed.

Definition fresh_blocks (s s' : mstate) (m' : muri) : Prop :=
  NoDup (text_blocks m')
  /\ Forall (fun b => ms_next s <= b < ms_next s') (text_blocks m')
  /\ (ledger_wf s -> Forall (fun b => ~ In b (map fst (ms_live s))) (text_blocks m')).

Lemma fresh_blocks_intro s s' m' :
  NoDup (text_blocks m') -> Forall (fun b => ms_next s <= b < ms_next s') (text_blocks m') -> fresh_blocks s s' m'.
Proof.
  intros H1 H2. split; [exact H1|]. split; [exact H2|]. intros Hw. apply fresh_not_live; [exact Hw|].
  eapply Forall_impl; [|exact H2]. cbn. intros; lia.
Qed.

Lemma C12_make_owner_stmt csize m s : nofault s -> mwf m -> m_owner m = false ->
  exists m' s', make_owner_m csize m s = (URI_SUCCESS, m', s')
    /\ erase m' = make_owner (erase m) /\ to_text (erase m') = to_text (erase m)
    /\ m_owner m' = true /\ all_owned m' = true /\ depends_on_input m' = false
    /\ mwf m' /\ fresh_blocks s s' m' /\ nofault s'.
Proof.
  intros Hnf (Hh & _ & _ & Hb) Ho.
  destruct (make_owner_m_borrowed csize m s Hnf Ho Hh (Hb Ho)) as (m' & s' & E & R & W & A & Wf & ND & F & N).
  exists m', s'. split; [exact E|]. split; [exact R|]. split; [rewrite R; apply to_text_owner|]. split; [exact W|].
  split; [exact A|]. split; [unfold depends_on_input; rewrite A; reflexivity|]. split; [exact Wf|].
  split; [apply fresh_blocks_intro; assumption|exact N].
Qed.

Lemma C12_normalize_borrowed_stmt csize mask m s : nofault s -> mwf m -> m_owner m = false -> mask <> 0%N ->
  exists m' s', normalize_m csize mask m s = (URI_SUCCESS, m', s')
    /\ erase m' = normalize mask (erase m)
    /\ m_owner m' = true /\ all_owned m' = true /\ depends_on_input m' = false
    /\ mwf m' /\ fresh_blocks s s' m' /\ nofault s'.
Proof.
  intros Hnf (Hh & _ & _ & Hb) Ho Hmask.
  destruct (normalize_m_borrowed csize mask m s Hnf Ho Hh (Hb Ho) Hmask) as (m' & s' & E & R & W & A & Wf & ND & F & N).
  exists m', s'. split; [exact E|]. split; [exact R|]. split; [exact W|].
  split; [exact A|]. split; [unfold depends_on_input; rewrite A; reflexivity|]. split; [exact Wf|].
  split; [apply fresh_blocks_intro; assumption|exact N].
Qed.

(* owned object whose text blocks were handed out by this ledger: normalised in place; a text block of the
   result is a text block of the object or was handed out during the call, and the latter happens only when
   the guard against a path beginning with "//" inserts its "." segment *)
Lemma C12_normalize_owned_stmt csize mask m s : nofault s -> mwf m -> m_owner m = true ->
  Forall (fun b => b < ms_next s) (text_blocks m) -> mask <> 0%N ->
  exists m' s', normalize_m csize mask m s = (URI_SUCCESS, m', s')
    /\ erase m' = normalize mask (erase m)
    /\ m_owner m' = true /\ all_owned m' = true /\ depends_on_input m' = false
    /\ mwf m'
    /\ (forall b, In b (text_blocks m') -> In b (text_blocks m) \/ ms_next s <= b < ms_next s')
    /\ (path_guard mask (erase m) = false -> incl (text_blocks m') (text_blocks m))
    /\ nofault s'.
Proof.
  intros Hnf Hw Ho Hlt Hmask.
  destruct (normalize_m_owned csize mask m s Hnf Ho Hw Hlt Hmask) as (m' & s' & E & R & W & A & Wf & Fr & Sb & N).
  exists m', s'. split; [exact E|]. split; [exact R|]. split; [exact W|].
  split; [exact A|]. split; [unfold depends_on_input; rewrite A; reflexivity|]. split; [exact Wf|].
  split; [exact Fr|]. split; [intros Hg b Hb; eapply sublist_In; [exact (Sb Hg)|exact Hb]|exact N].
Qed.

(* value and ownership alone need no hypothesis on the block ids *)
Lemma C12_normalize_owned_value_stmt csize mask m s : nofault s -> mwf m -> m_owner m = true -> mask <> 0%N ->
  exists m' s', normalize_m csize mask m s = (URI_SUCCESS, m', s')
    /\ erase m' = normalize mask (erase m)
    /\ m_owner m' = true /\ all_owned m' = true /\ depends_on_input m' = false /\ nofault s'.
Proof.
  intros Hnf Hw Ho Hmask.
  destruct (normalize_m_owned_value csize mask m s Hnf Ho Hw Hmask) as (m' & s' & E & R & W & A & N).
  exists m', s'. split; [exact E|]. split; [exact R|]. split; [exact W|].
  split; [exact A|]. split; [unfold depends_on_input; rewrite A; reflexivity|exact N].
Qed.

Lemma C12_normalize_zero_stmt csize m s : normalize_m csize 0 m s = (URI_SUCCESS, m, s) /\ normalize 0 (erase m) = erase m.
Proof. split; reflexivity. Qed.

Lemma C12_add_base_stmt compat rel base s : nofault s ->
  exists rc d s', add_base_m compat rel base s = (rc, d, s')
    /\ (rc, erase d) = add_base compat (erase rel) (erase base)
    /\ m_owner d = false /\ text_blocks d = []
    /\ (mwf rel -> mwf base -> mwf d) /\ nofault s'.
Proof.
  intros Hnf. destruct (add_base_m_erasure compat rel base s Hnf) as (rc & d & s' & E & R & [B1 B2] & W & N).
  exists rc, d, s'. split; [exact E|]. split; [exact R|]. split; [exact B1|]. split; [exact B2|].
  split; [intros (H1 & _) (H2 & _); apply W; assumption|exact N].
Qed.

Lemma C12_remove_base_stmt dr src base s : nofault s ->
  exists rc d s', remove_base_m dr src base s = (rc, d, s')
    /\ (rc, erase d) = remove_base dr (erase src) (erase base)
    /\ m_owner d = false /\ text_blocks d = []
    /\ (mwf src -> mwf base -> mwf d) /\ nofault s'.
Proof.
  intros Hnf. destruct (remove_base_m_erasure dr src base s Hnf) as (rc & d & s' & E & R & [B1 B2] & W & N).
  exists rc, d, s'. split; [exact E|]. split; [exact R|]. split; [exact B1|]. split; [exact B2|].
  split; [intros (H1 & _) (H2 & _); apply W; assumption|exact N].
Qed.

(* ---- C19 *)
Lemma C19_make_owner_requests_stmt csize m s rc m' s' :
  nofault s -> mwf m -> m_owner m = false -> make_owner_m csize m s = (rc, m', s') ->
  new_events s s' = map (req_event csize) (owner_plan (erase m)).
Proof.
  intros Hnf (Hh & _ & _ & Hb) Ho E. apply extends_new_events.
  apply (make_owner_m_trace csize m s rc m' s' Hnf Ho Hh (Hb Ho) E).
Qed.

Definition normalize_plan (mask : N) (owned : bool) (u : uri) : list areq :=
  if owned then normalize_plan_o mask u else normalize_plan_b mask u.

Lemma C19_normalize_requests_stmt csize mask m s rc m' s' :
  nofault s -> mwf m -> mask <> 0%N -> normalize_m csize mask m s = (rc, m', s') ->
  allocs (trace_of s') = allocs (trace_of s) ++ map (req_event csize) (normalize_plan mask (m_owner m) (erase m)).
Proof.
  intros Hnf Hw Hmask E. apply aextends_trace_of. unfold normalize_plan. destruct (m_owner m) eqn:Ho.
  - apply (normalize_m_owned_trace csize mask m s rc m' s' Hnf Ho Hw Hmask E).
  - destruct Hw as (Hh & _ & _ & Hb). apply (normalize_m_borrowed_trace csize mask m s rc m' s' Hnf Ho Hh (Hb Ho) Hmask E).
Qed.

Lemma normalize_plan_kind mask owned u : Forall (req_kind (path_guard mask u)) (normalize_plan mask owned u).
Proof. unfold normalize_plan. destruct owned; [apply normalize_plan_o_kind|apply normalize_plan_b_kind]. Qed.

Lemma C19_plans_kind_stmt mask owned u :
  Forall text_or_node (owner_plan u)
  /\ Forall seg_or_text (normalize_plan mask owned u)
  /\ (path_guard mask u = false -> Forall text_or_node (normalize_plan mask owned u)).
Proof.
  split; [apply owner_plan_kind|]. pose proof (normalize_plan_kind mask owned u) as K.
  split; [eapply kind_seg; exact K|]. intros Hg. rewrite Hg in K. exact K.
Qed.

Lemma C19_normalize_two_sizes_stmt c1 c2 mask m s1 s2 :
  c1 <> 0%N -> c2 <> 0%N -> nofault s1 -> nofault s2 -> mwf m -> mask <> 0%N ->
  let r1 := normalize_m c1 mask m s1 in let r2 := normalize_m c2 mask m s2 in
  fst (fst r1) = fst (fst r2)
  /\ erase (snd (fst r1)) = erase (snd (fst r2))
  /\ exists ev1 ev2, allocs (trace_of (snd r1)) = allocs (trace_of s1) ++ ev1
                  /\ allocs (trace_of (snd r2)) = allocs (trace_of s2) ++ ev2
                  /\ (exists plan, Forall seg_or_text plan
                                   /\ ev1 = map (req_event c1) plan /\ ev2 = map (req_event c2) plan)
                  /\ (path_guard mask (erase m) = false -> trace_chars c1 ev1 = trace_chars c2 ev2).
Proof.
  intros H1 H2 N1 N2 Hw Hmask. cbv zeta.
  assert (exists m1 z1, normalize_m c1 mask m s1 = (URI_SUCCESS, m1, z1) /\ erase m1 = normalize mask (erase m)) as (m1 & z1 & E1 & R1).
  { destruct (m_owner m) eqn:Ho.
    - destruct (normalize_m_owned_value c1 mask m s1 N1 Ho Hw Hmask) as (a & b & E & R & _). exists a, b. split; assumption.
    - destruct Hw as (Hh & _ & _ & Hb). destruct (normalize_m_borrowed c1 mask m s1 N1 Ho Hh (Hb Ho) Hmask) as (a & b & E & R & _).
      exists a, b. split; assumption. }
  assert (exists m2 z2, normalize_m c2 mask m s2 = (URI_SUCCESS, m2, z2) /\ erase m2 = normalize mask (erase m)) as (m2 & z2 & E2 & R2).
  { destruct (m_owner m) eqn:Ho.
    - destruct (normalize_m_owned_value c2 mask m s2 N2 Ho Hw Hmask) as (a & b & E & R & _). exists a, b. split; assumption.
    - destruct Hw as (Hh & _ & _ & Hb). destruct (normalize_m_borrowed c2 mask m s2 N2 Ho Hh (Hb Ho) Hmask) as (a & b & E & R & _).
      exists a, b. split; assumption. }
  pose proof (C19_normalize_requests_stmt c1 mask m s1 _ _ _ N1 Hw Hmask E1) as T1.
  pose proof (C19_normalize_requests_stmt c2 mask m s2 _ _ _ N2 Hw Hmask E2) as T2.
  rewrite E1, E2. cbn [fst snd]. split; [reflexivity|]. split; [rewrite R1, R2; reflexivity|].
  destruct (C19_plans_kind_stmt mask (m_owner m) (erase m)) as (_ & K1 & K2).
  eexists; eexists. split; [exact T1|]. split; [exact T2|]. split.
  - exists (normalize_plan mask (m_owner m) (erase m)). split; [exact K1|]. split; reflexivity.
  - intros Hg. apply trace_chars_two; try assumption. apply K2. exact Hg.
Qed.

Lemma C19_make_owner_two_sizes_stmt c1 c2 m s1 s2 :
  c1 <> 0%N -> c2 <> 0%N -> nofault s1 -> nofault s2 -> mwf m -> m_owner m = false ->
  let r1 := make_owner_m c1 m s1 in let r2 := make_owner_m c2 m s2 in
  fst (fst r1) = fst (fst r2)
  /\ erase (snd (fst r1)) = erase (snd (fst r2))
  /\ trace_chars c1 (new_events s1 (snd r1)) = trace_chars c2 (new_events s2 (snd r2)).
Proof.
  intros H1 H2 N1 N2 (Hh & _ & _ & Hb) Ho. apply make_owner_two_sizes; auto.
Qed.

Lemma C12_ledger_wf_stmt p c sz b s :
  ledger_wf (ms_init p)
  /\ (ledger_wf s -> ledger_wf (snd (alloc c sz s)))
  /\ (ledger_wf s -> ledger_wf (free_blk b s)).
Proof. exact (conj (ledger_wf_init p) (conj (ledger_wf_alloc c sz s) (ledger_wf_free b s))). Qed.

(* ---- why three statements about normalisation changed with the guard of uriNormalizeSyntaxEngine
   (uriFixAmbiguity + a one-character copy in the path step): witnesses against the former conclusions *)
Definition guard_text : text := [47; 46; 47; 47; 120]%N.       (* "/.//x": dot removal leaves "//x" *)
Definition guard_parsed : muri * mstate :=
  match parse_m guard_text (ms_init NoFault) with
  | (MOk m, s1) => (m, s1)
  | (_, s1) => (muri_empty, s1)
  end.
Definition guard_owned : muri * mstate :=
  let '(_, m1, s2) := make_owner_m 1 (fst guard_parsed) (snd guard_parsed) in (m1, s2).

(* 1. in-place normalisation of an owned object can receive a text block (the copy of the "." of the guard
   segment): "the result holds no text block it did not hold before" fails *)
Lemma normalize_owned_new_block_witness :
  exists m s, nofault s /\ mwf m /\ m_owner m = true /\ Forall (fun b => b < ms_next s) (text_blocks m)
    /\ path_guard 8 (erase m) = true
    /\ exists m' s', normalize_m 1 8 m s = (URI_SUCCESS, m', s') /\ ~ incl (text_blocks m') (text_blocks m).
Proof.
  remember (fst guard_owned) as m eqn:Em. remember (snd guard_owned) as s eqn:Es. vm_compute in Em, Es.
  exists m, s. subst m s.
  split; [reflexivity|]. split.
  { split; [intros x H; discriminate H|]. split.
    - vm_compute. constructor; [intros [H|[]]; discriminate H|]. constructor; [intros []|constructor].
    - split; [intros _; reflexivity|intros H; discriminate H]. }
  split; [reflexivity|]. split; [vm_compute; repeat (constructor; [lia|]); constructor|]. split; [reflexivity|].
  eexists; eexists. split; [vm_compute; reflexivity|].
  vm_compute. intros H. destruct (H 6 (or_introl eq_refl)) as [H1|[H1|[]]]; discriminate H1.
Qed.

(* 2. nothing in [mwf m] relates the block ids of an owned object to the ledger; now that an owned
   normalisation can be handed a text block, an object that records a block id the ledger has not handed
   out yet gets that id a second time: [mwf m'] fails without the hypothesis on the ids *)
Definition future_owned : muri :=
  {| m_scheme := mt_none; m_userInfo := mt_none; m_hostText := mt_none; m_ip4 := None; m_ip6 := None;
     m_ipFuture := mt_none; m_portText := mt_none;
     m_segs := [ {| sg_text := [46%N]; sg_blk := Some 0; sg_node := 5 |};
                 {| sg_text := []; sg_blk := None; sg_node := 6 |};
                 {| sg_text := [120%N]; sg_blk := Some 1; sg_node := 7 |} ];
     m_query := mt_none; m_fragment := mt_none; m_abs := true; m_owner := true |}.
Lemma normalize_owned_future_block_witness :
  nofault (ms_init NoFault) /\ mwf future_owned /\ m_owner future_owned = true
  /\ exists m' s', normalize_m 1 8 future_owned (ms_init NoFault) = (URI_SUCCESS, m', s') /\ ~ mwf m'.
Proof.
  split; [reflexivity|]. split.
  { split; [intros x H; discriminate H|]. split.
    - vm_compute. constructor; [intros [H|[]]; discriminate H|]. constructor; [intros []|constructor].
    - split; [intros _; reflexivity|intros H; discriminate H]. }
  split; [reflexivity|]. eexists; eexists. split; [vm_compute; reflexivity|].
  intros (_ & Hn & _). vm_compute in Hn. apply NoDup_cons_iff in Hn. destruct Hn as [Hn _]. apply Hn. left. reflexivity.
Qed.

(* 3. the malloc'd node of the guard segment is an EvMalloc of SEG_SIZE bytes in every build; [trace_chars]
   divides it by the character size, so the two traces "in characters" differ (the lists ev1, ev2 are
   determined by the two equations) *)
Lemma normalize_two_sizes_trace_chars_witness :
  exists m s, nofault s /\ mwf m /\ m_owner m = false /\ path_guard 8 (erase m) = true
    /\ exists ev1 ev2, allocs (trace_of (snd (normalize_m 1 8 m s))) = allocs (trace_of s) ++ ev1
                    /\ allocs (trace_of (snd (normalize_m 4 8 m s))) = allocs (trace_of s) ++ ev2
                    /\ trace_chars 1 ev1 <> trace_chars 4 ev2.
Proof.
  remember (fst guard_parsed) as m eqn:Em. remember (snd guard_parsed) as s eqn:Es. vm_compute in Em, Es.
  exists m, s. subst m s.
  split; [reflexivity|]. split.
  { split; [intros x H; discriminate H|]. split; [vm_compute; constructor|].
    split; [intros H; discriminate H|intros _; reflexivity]. }
  split; [reflexivity|]. split; [reflexivity|].
  exists [EvMalloc 1 true; EvMalloc 1 true; EvMalloc 32 true; EvMalloc 1 true],
         [EvMalloc 4 true; EvMalloc 4 true; EvMalloc 32 true; EvMalloc 4 true].
  split; [vm_compute; reflexivity|]. split; [vm_compute; reflexivity|]. vm_compute. intros H. discriminate H.
Qed.
