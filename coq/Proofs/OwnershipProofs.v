(* C12 / C19 on the memory-tier model (Model/Mem.v, Model/ParseM.v, Model/OpsM.v).

   Part 0  vocabulary used by the statements of Props/C12.v and Props/C19.v
   Part 1  the ledger without faults
   Part 2  erasure of the parser: parse_m and parse agree
   Part 3  make-owner and normalisation: erasure, ownership, fresh and distinct blocks
   Part 4  size discipline: allocation requests are counted in characters
   Part 5  erasure of reference resolution and reference creation *)
From Coq Require Import List NArith Bool Lia Arith ZifyBool ZifyN.
From UP Require Import Base.Chars Base.Atoms Model.Uri Model.Ip4 Model.Parse Model.Common Model.Compare
  Model.Resolve Model.Shorten Model.Normalize Model.Mem Model.ParseM Model.OpsM.
Import ListNotations.

(* ================================================================ Part 0: vocabulary *)
(* a text needs no block when it is absent or empty; otherwise it is owned iff it is a heap block *)
Definition text_owned (t : mtext) : bool :=
  match t_val t with Some (_ :: _) => is_some (t_blk t) | _ => true end.
Definition seg_owned (sg : mseg) : bool :=
  match sg_text sg with _ :: _ => is_some (sg_blk sg) | [] => true end.
(* hostText of an IPvFuture host shares the range of ipFuture; the block is recorded there *)
Definition host_owned (m : muri) : bool :=
  match t_val (m_ipFuture m) with
  | Some _ => text_owned (m_ipFuture m)
  | None => text_owned (m_hostText m)
  end.
Definition all_owned (m : muri) : bool :=
  text_owned (m_scheme m) && text_owned (m_userInfo m) && host_owned m && text_owned (m_portText m)
  && forallb seg_owned (m_segs m) && text_owned (m_query m) && text_owned (m_fragment m).
(* some present non-empty text still points into the caller's string *)
Definition depends_on_input (m : muri) : bool := negb (all_owned m).

(* the heap blocks holding text (not the list nodes, not the address blocks).  A block recorded for
   an absent or empty text is never looked at by the C code (first == afterLast) and is not counted. *)
Definition text_blk (t : mtext) : list nat :=
  match t_val t with Some (_ :: _) => blk_list (t_blk t) | _ => [] end.
Definition seg_blk (sg : mseg) : list nat :=
  match sg_text sg with _ :: _ => blk_list (sg_blk sg) | [] => [] end.
Definition block_parts (m : muri) : list (list nat) :=
  [ text_blk (m_scheme m); text_blk (m_userInfo m); text_blk (m_hostText m); text_blk (m_ipFuture m);
    text_blk (m_portText m); flat_map seg_blk (m_segs m); text_blk (m_query m); text_blk (m_fragment m) ].
Definition text_blocks (m : muri) : list nat := concat (block_parts m).

(* well-formed memory-tier objects:
   - hostText and ipFuture are the same range when ipFuture is set;
   - the text blocks are pairwise distinct;
   - an owned object owns all its text; a borrowed object owns none. *)
Definition mwf_host (m : muri) : Prop :=
  forall x, t_val (m_ipFuture m) = Some x -> t_val (m_hostText m) = Some x.
Definition mwf (m : muri) : Prop :=
  mwf_host m /\ NoDup (text_blocks m)
  /\ (m_owner m = true -> all_owned m = true)
  /\ (m_owner m = false -> text_blocks m = []).

(* the events an operation added to the trace (oldest first) *)
Definition new_events (s s' : mstate) : list event :=
  skipn (length (ms_trace s)) (trace_of s').

(* an allocation request counted in characters, independent of the character type *)
Inductive areq := RText (chars : nat) | RNode (calloc : bool) | RIp4 | RIp6.
Definition req_event (csize : N) (r : areq) : event :=
  match r with
  | RText n => EvMalloc (N.of_nat n * csize)%N true
  | RNode true => EvCalloc SEG_SIZE true
  | RNode false => EvMalloc SEG_SIZE true
  | RIp4 => EvMalloc IP4_SIZE true
  | RIp6 => EvMalloc IP6_SIZE true
  end.
Definition is_alloc_event (e : event) : bool :=
  match e with EvMalloc _ _ | EvCalloc _ _ => true | _ => false end.

(* ================================================================ Part 1: the ledger without faults *)
Definition nofault (s : mstate) : Prop := ms_plan s = NoFault.

(* same plan, block ids only grow *)
Definition st_le (s s' : mstate) : Prop := ms_plan s' = ms_plan s /\ ms_next s <= ms_next s'.

Lemma st_le_refl s : st_le s s.
Proof. split; [reflexivity|lia]. Qed.
Lemma st_le_trans s1 s2 s3 : st_le s1 s2 -> st_le s2 s3 -> st_le s1 s3.
Proof. intros [A1 A2] [B1 B2]. split; [congruence|lia]. Qed.
Lemma st_le_nofault s s' : st_le s s' -> nofault s -> nofault s'.
Proof. intros [A _] H. unfold nofault in *. congruence. Qed.

Definition push_alloc (calloc : bool) (size : N) (s : mstate) : mstate :=
  {| ms_next := S (ms_next s); ms_live := (ms_next s, size) :: ms_live s; ms_requests := S (ms_requests s);
     ms_plan := ms_plan s;
     ms_trace := (if calloc then EvCalloc size true else EvMalloc size true) :: ms_trace s |}.

Lemma alloc_nf c sz s : nofault s -> alloc c sz s = (Some (ms_next s), push_alloc c sz s).
Proof. intros H. unfold alloc, push_alloc. unfold nofault in H. rewrite H. reflexivity. Qed.

Lemma push_alloc_le c sz s : st_le s (push_alloc c sz s).
Proof. split; cbn; [reflexivity|lia]. Qed.
Lemma push_alloc_next c sz s : ms_next (push_alloc c sz s) = S (ms_next s).
Proof. reflexivity. Qed.

Lemma free_blk_le b s : st_le s (free_blk b s).
Proof. unfold free_blk. destruct (remove_blk b (ms_live s)) as [[sz l]|]; split; cbn; (reflexivity || lia). Qed.
Lemma free_blk_next b s : ms_next (free_blk b s) = ms_next s.
Proof. unfold free_blk. destruct (remove_blk b (ms_live s)) as [[sz l]|]; reflexivity. Qed.
Lemma free_opt_le o s : st_le s (free_opt o s).
Proof. destruct o; [apply free_blk_le|apply st_le_refl]. Qed.
Lemma bad_free_le s : st_le s (bad_free s).
Proof. split; cbn; [reflexivity|lia]. Qed.

Lemma fold_free_le {A} (f : mstate -> A -> mstate) (l : list A) :
  (forall s x, st_le s (f s x)) -> forall s, st_le s (fold_left f l s).
Proof.
  intros Hf. induction l as [|x r IH]; intros s; cbn [fold_left]; [apply st_le_refl|].
  eapply st_le_trans; [apply Hf|apply IH].
Qed.

(* ================================================================ Part 2: erasure of the parser *)
(* What is known in a control state: [needs6 c] -- the IPv6 block has been allocated;
   [posthost c] -- the host may already have been stored (so no host action may follow). *)
Definition needs6 (c : ctrl) : bool :=
  match c with CV6 _ _ _ _ _ | CV6Colon _ _ | CV6CC _ => true | _ => false end.
Definition posthost (c : ctrl) : bool :=
  match c with
  | CAuth2 | CPort | CPathStart | CSeg KAuth | CTail | CTail2 | CQF _ => true
  | CPct1 (RSeg KAuth) | CPct2 (RSeg KAuth) | CPct1 (RQF _) | CPct2 (RQF _) => true
  | _ => false
  end.

(* abstract flags: (the IPv6 block is held, ipFuture may be set) *)
Definition act_ok (st : bool * bool) (a : action) : bool :=
  match a with
  | AHostIp6 => fst st && negb (snd st)
  | AHostEmptySafe | AHostReg | AHostEmptyAtEnd | AHostPort | AHostFuture => negb (snd st)
  | _ => true
  end.
Definition act_next (st : bool * bool) (a : action) : bool * bool :=
  match a with
  | AAllocIp6 => (true, snd st)
  | AHostFuture => (fst st, true)
  | _ => st
  end.
Fixpoint acts_ok (st : bool * bool) (acts : list action) : bool :=
  match acts with [] => true | a :: r => act_ok st a && acts_ok (act_next st a) r end.
Definition acts_next (st : bool * bool) (acts : list action) : bool * bool := fold_left act_next acts st.

Definition abs_of (c : ctrl) : bool * bool := (needs6 c, posthost c).
Definition abs_le (x y : bool * bool) : bool := implb (fst y) (fst x) && implb (snd x) (snd y).
(* x is at least as informative as y: holds the block if y says so, future set only if y allows *)

Definition step_ok (c : ctrl) (a : atom) : bool :=
  let '(acts, nx) := ptrans c a in
  acts_ok (abs_of c) acts
  && match nx with Go c' => abs_le (acts_next (abs_of c) acts) (abs_of c') | Stop _ => true end.
Definition finish_ok (c : ctrl) : bool := acts_ok (abs_of c) (fst (pfinish c)).

Lemma step_ok_all c a : step_ok c a = true.
Proof.
  destruct c as [| | | | | | | | | | | | | | | | | |z q l o i4|z q|q| |k| | |k|r|r];
    try (destruct a; vm_compute; reflexivity);
    try (destruct k; destruct a; vm_compute; reflexivity);
    try (destruct r as [|k| | | |k]; try destruct k; destruct a; vm_compute; reflexivity).
  - (* CV6 *)
    unfold step_ok, ptrans, t_v6, t_v6hex, t_v6ip4.
    destruct a; cbn [a_hexdig a_digit];
      repeat match goal with
             | |- context [if ?b then _ else _] => destruct b
             | |- context [match oct_over ?o with _ => _ end] => destruct (oct_over o)
             end; reflexivity.
  - unfold step_ok, ptrans, t_v6colon, t_v6hex.
    destruct a; cbn [a_hexdig a_digit];
      repeat match goal with
             | |- context [if ?b then _ else _] => destruct b
             | |- context [match oct_over ?o with _ => _ end] => destruct (oct_over o)
             end; reflexivity.
  - unfold step_ok, ptrans, t_v6cc, t_v6hex.
    destruct a; cbn [a_hexdig a_digit];
      repeat match goal with
             | |- context [if ?b then _ else _] => destruct b
             | |- context [match oct_over ?o with _ => _ end] => destruct (oct_over o)
             end; reflexivity.
Qed.

Lemma finish_ok_all c : finish_ok c = true.
Proof.
  destruct c as [| | | | | | | | | | | | | | | | | |z q l o i4|z q|q| |k| | |k|r|r];
    try reflexivity; try (destruct k; reflexivity).
Qed.

Definition pinv (d : pdata) (b : pblocks) : Prop :=
  let u := p_uri d in
  length (pb_nodes b) = length (pathSegs u)
  /\ (is_some (ip4 u) = true -> is_some (pb_ip4 b) = true)
  /\ (is_some (ip6 u) = true -> is_some (pb_ip6 b) = true)
  /\ owner u = false
  /\ (forall x, ipFuture u = Some x -> hostText u = Some x).
Definition cst (d : pdata) (b : pblocks) : bool * bool :=
  (is_some (pb_ip6 b), is_some (ipFuture (p_uri d))).

Ltac uri_cbn :=
  cbn [exec with_uri p_uri p_pend p_pend2 p_saved pb_nodes pb_ip4 pb_ip6
       scheme userInfo hostText ip4 ip6 ipFuture portText pathSegs query fragment absolutePath owner
       set_scheme set_userInfo set_hostText set_ip4 set_ip6 set_ipFuture set_portText set_pathSegs
       set_query set_fragment set_absolutePath set_owner fst snd is_some] in *.

Lemma exec_m_nf ch d b a s :
  nofault s -> pinv d b -> act_ok (cst d b) a = true ->
  exists b' s', exec_m ch d b a s = (Some (exec ch d a, b'), s')
    /\ pinv (exec ch d a) b' /\ st_le s s' /\ cst (exec ch d a) b' = act_next (cst d b) a.
Proof.
  intros Hnf (I1 & I2 & I3 & I4 & I5) Hok. unfold cst in *.
  destruct a; unfold exec_m; try rewrite (alloc_nf _ _ _ Hnf);
    try (eexists; eexists; split; [reflexivity|]; split; [|split; [apply st_le_refl || apply push_alloc_le|reflexivity]];
         unfold pinv; uri_cbn; repeat split; try assumption;
         try (rewrite !app_length; cbn [length]; lia); fail).
  - (* AHostEmptySafe *)
    eexists; eexists; split; [reflexivity|]. split; [|split; [apply st_le_refl|reflexivity]].
    unfold pinv; uri_cbn. repeat split; try assumption.
    intros x Hx. destruct (ipFuture (p_uri d)); [discriminate Hok|discriminate Hx].
  - (* AHostReg *)
    destruct (ip4 (p_uri (exec ch d AHostReg))) eqn:E4.
    + eexists; eexists; split; [reflexivity|]. split; [|split; [apply push_alloc_le|reflexivity]].
      unfold pinv; uri_cbn. repeat split; try assumption.
      intros x Hx. destruct (ipFuture (p_uri d)); [discriminate Hok|discriminate Hx].
    + eexists; eexists; split; [reflexivity|].
      split; [|split; [eapply st_le_trans; [apply push_alloc_le|apply free_blk_le]|reflexivity]].
      unfold pinv; uri_cbn. rewrite E4. repeat split; try assumption; try discriminate.
      intros x Hx. destruct (ipFuture (p_uri d)); [discriminate Hok|discriminate Hx].
  - (* AHostEmptyAtEnd *)
    eexists; eexists; split; [reflexivity|]. split; [|split; [apply st_le_refl|reflexivity]].
    unfold pinv; uri_cbn. repeat split; try assumption.
    intros x Hx. destruct (ipFuture (p_uri d)); [discriminate Hok|discriminate Hx].
  - (* AHostPort *)
    destruct (ip4 (p_uri (exec ch d AHostPort))) eqn:E4.
    + eexists; eexists; split; [reflexivity|]. split; [|split; [apply push_alloc_le|reflexivity]].
      unfold pinv; uri_cbn. repeat split; try assumption.
      intros x Hx. destruct (ipFuture (p_uri d)); [discriminate Hok|discriminate Hx].
    + eexists; eexists; split; [reflexivity|].
      split; [|split; [eapply st_le_trans; [apply push_alloc_le|apply free_blk_le]|reflexivity]].
      unfold pinv; uri_cbn. rewrite E4. repeat split; try assumption; try discriminate.
      intros x Hx. destruct (ipFuture (p_uri d)); [discriminate Hok|discriminate Hx].
  - (* AHostIp6 *)
    eexists; eexists; split; [reflexivity|]. split; [|split; [apply st_le_refl|reflexivity]].
    unfold pinv; uri_cbn. apply andb_prop in Hok. destruct Hok as [H6 Hf].
    repeat split; try assumption; try (intros _; exact H6).
    intros x Hx. destruct (ipFuture (p_uri d)); [discriminate Hf|discriminate Hx].
  - (* AHostFuture *)
    eexists; eexists; split; [reflexivity|]. split; [|split; [apply st_le_refl|reflexivity]].
    unfold pinv; uri_cbn. repeat split; try assumption. intros x Hx; exact Hx.
  - (* AFixEmptyTrail *)
    uri_cbn. unfold fix_empty_trail.
    destruct (negb (is_host_set (p_uri d))) eqn:Eh.
    + destruct (pathSegs (p_uri d)) as [|x [|y r]] eqn:Ep.
      * eexists; eexists; split; [reflexivity|]. split; [|split; [apply st_le_refl|reflexivity]].
        unfold pinv; uri_cbn. try rewrite Ep. repeat split; assumption.
      * destruct x as [|c x].
        -- uri_cbn. destruct (pb_nodes b) as [|n [|n2 nr]] eqn:En; try discriminate I1.
           eexists; eexists; split; [reflexivity|]. split; [|split; [apply free_blk_le|reflexivity]].
           unfold pinv; uri_cbn. repeat split; assumption.
        -- try rewrite Ep. eexists; eexists; split; [reflexivity|]. split; [|split; [apply st_le_refl|reflexivity]].
           unfold pinv; uri_cbn. try rewrite Ep. repeat split; assumption.
      * assert (pathSegs (p_uri {| p_uri := match x with [] => p_uri d | _ :: _ => p_uri d end;
                                   p_pend := p_pend d; p_pend2 := p_pend2 d; p_saved := p_saved d |})
                = x :: y :: r) as Ep' by (uri_cbn; destruct x; exact Ep).
        destruct x; try rewrite Ep.
        all: eexists; eexists; split; [reflexivity|]; split; [|split; [apply st_le_refl|reflexivity]].
        all: unfold pinv; uri_cbn; try rewrite Ep; repeat split; assumption.
    + destruct (pathSegs (p_uri d)) as [|x r] eqn:Ep.
      * eexists; eexists; split; [reflexivity|]. split; [|split; [apply st_le_refl|reflexivity]].
        unfold pinv; uri_cbn. try rewrite Ep. repeat split; assumption.
      * try rewrite Ep. eexists; eexists; split; [reflexivity|]. split; [|split; [apply st_le_refl|reflexivity]].
        unfold pinv; uri_cbn. try rewrite Ep. repeat split; assumption.
Qed.

Lemma abs_le_refl x : abs_le x x = true.
Proof. destruct x as [[|] [|]]; reflexivity. Qed.

Lemma acts_mono acts : forall x y, abs_le x y = true -> acts_ok y acts = true ->
  acts_ok x acts = true /\ abs_le (acts_next x acts) (acts_next y acts) = true.
Proof.
  induction acts as [|a r IH]; intros x y Hle Hok; [split; [reflexivity|exact Hle]|].
  cbn [acts_ok] in *. unfold acts_next in *. cbn [fold_left].
  apply andb_prop in Hok. destruct Hok as [Ha Hr].
  assert (act_ok x a = true /\ abs_le (act_next x a) (act_next y a) = true) as [Hxa Hn].
  { destruct x as [[|] [|]], y as [[|] [|]]; try discriminate Hle; destruct a; try discriminate Ha; split; reflexivity. }
  destruct (IH _ _ Hn Hr) as [H1 H2]. rewrite Hxa, H1. split; [reflexivity|exact H2].
Qed.

Lemma exec_all_m_nf ch acts : forall d b s,
  nofault s -> pinv d b -> acts_ok (cst d b) acts = true ->
  exists b' s', exec_all_m ch d b acts s = (Some (exec_all ch d acts, b'), b', s')
    /\ pinv (exec_all ch d acts) b' /\ st_le s s' /\ cst (exec_all ch d acts) b' = acts_next (cst d b) acts.
Proof.
  induction acts as [|a r IH]; intros d b s Hnf Hinv Hok.
  - exists b, s. split; [reflexivity|]. split; [exact Hinv|]. split; [apply st_le_refl|reflexivity].
  - cbn [acts_ok] in Hok. apply andb_prop in Hok. destruct Hok as [Ha Hr].
    destruct (exec_m_nf ch d b a s Hnf Hinv Ha) as (b1 & s1 & E1 & I1 & L1 & C1).
    rewrite <- C1 in Hr.
    destruct (IH _ _ s1 (st_le_nofault _ _ L1 Hnf) I1 Hr) as (b2 & s2 & E2 & I2 & L2 & C2).
    exists b2, s2. cbn [exec_all_m]. rewrite E1. unfold exec_all in *. cbn [fold_left].
    rewrite E2. split; [reflexivity|]. split; [exact I2|]. split; [eapply st_le_trans; eassumption|].
    rewrite C2, C1. reflexivity.
Qed.

Lemma abs_le_trans x y z : abs_le x y = true -> abs_le y z = true -> abs_le x z = true.
Proof. destruct x as [[|] [|]], y as [[|] [|]], z as [[|] [|]]; cbn; congruence. Qed.

Lemma free_partial_le b s : st_le s (free_partial b s).
Proof.
  unfold free_partial. eapply st_le_trans; [apply free_opt_le|].
  eapply st_le_trans; [apply free_opt_le|]. apply fold_free_le. intros; apply free_blk_le.
Qed.

Lemma prun_m_nf t : forall c d b i s,
  nofault s -> pinv d b -> abs_le (cst d b) (abs_of c) = true ->
  match prun c d i t with
  | POk u => exists d' b' s', prun_m c d b i t s = (MOk (muri_of u b'), s') /\ u = p_uri d' /\ pinv d' b' /\ st_le s s'
  | PSyntax pos => exists s', prun_m c d b i t s = (MSyntax pos, s') /\ st_le s s'
  end.
Proof.
  induction t as [|ch r IH]; intros c d b i s Hnf Hinv Hle.
  - cbn [prun prun_m]. pose proof (finish_ok_all c) as Hf. unfold finish_ok in Hf.
    destruct (pfinish c) as [acts f]. cbn [fst] in Hf. destruct f.
    + destruct (acts_mono acts _ _ Hle Hf) as [Hok _].
      destruct (exec_all_m_nf 0%N acts d b s Hnf Hinv Hok) as (b' & s' & E & I & L & _).
      rewrite E. exists (exec_all 0%N d acts), b', s'. split; [reflexivity|]. split; [reflexivity|]. split; assumption.
    + exists (free_partial b s). split; [reflexivity|apply free_partial_le].
  - cbn [prun prun_m]. pose proof (step_ok_all c (atom_of ch)) as Hs. unfold step_ok in Hs.
    destruct (ptrans c (atom_of ch)) as [acts nx]. apply andb_prop in Hs. destruct Hs as [Hs1 Hs2].
    destruct (acts_mono acts _ _ Hle Hs1) as [Hok Hn].
    destruct (exec_all_m_nf ch acts d b s Hnf Hinv Hok) as (b' & s' & E & I & L & C).
    rewrite E. destruct nx as [c'|off].
    + assert (abs_le (cst (exec_all ch d acts) b') (abs_of c') = true) as Hle'.
      { rewrite C. eapply abs_le_trans; eassumption. }
      specialize (IH c' (exec_all ch d acts) b' (S i) s' (st_le_nofault _ _ L Hnf) I Hle').
      destruct (prun c' (exec_all ch d acts) (S i) r).
      * destruct IH as (d2 & b2 & s2 & E2 & U2 & I2 & L2). exists d2, b2, s2.
        split; [exact E2|]. split; [exact U2|]. split; [exact I2|apply (st_le_trans _ _ _ L L2)].
      * destruct IH as (s2 & E2 & L2). exists s2. split; [exact E2|apply (st_le_trans _ _ _ L L2)].
    + exists (free_partial b' s'). split; [reflexivity|].
      eapply st_le_trans; [exact L|apply free_partial_le].
Qed.

Lemma zip_segs_text l : forall n, length n = length l -> map sg_text (zip_segs l n) = l.
Proof.
  induction l as [|x r IH]; intros [|k n] H; try discriminate H; [reflexivity|].
  cbn [zip_segs map sg_text]. f_equal. apply IH. cbn in H. lia.
Qed.
Lemma zip_segs_noblk l : forall n, flat_map seg_blk (zip_segs l n) = [].
Proof.
  induction l as [|x r IH]; intros [|k n]; try reflexivity.
  cbn [zip_segs flat_map]. rewrite IH. unfold seg_blk. cbn [sg_text sg_blk]. destruct x; reflexivity.
Qed.

Lemma erase_muri_of d b : pinv d b -> erase (muri_of (p_uri d) b) = p_uri d.
Proof.
  intros (I1 & I2 & I3 & I4 & I5). destruct (p_uri d) as [sc ui ht i4 i6 fu po segs q f ab ow].
  uri_cbn. unfold erase, muri_of. cbn. subst ow. f_equal.
  - destruct i4; [|reflexivity]. destruct (pb_ip4 b); [reflexivity|]. discriminate (I2 eq_refl).
  - destruct i6; [|reflexivity]. destruct (pb_ip6 b); [reflexivity|]. discriminate (I3 eq_refl).
  - apply zip_segs_text. exact I1.
Qed.

Lemma text_blk_noblk o : text_blk {| t_val := o; t_blk := None |} = [].
Proof. unfold text_blk. cbn. destruct o as [[|]|]; reflexivity. Qed.

Lemma muri_of_noblocks u b : text_blocks (muri_of u b) = [].
Proof.
  unfold text_blocks, block_parts, muri_of.
  cbn [m_scheme m_userInfo m_hostText m_ipFuture m_portText m_segs m_query m_fragment concat].
  rewrite !text_blk_noblk, zip_segs_noblk. reflexivity.
Qed.

Lemma muri_of_wf d b : pinv d b -> mwf (muri_of (p_uri d) b).
Proof.
  intros (I1 & I2 & I3 & I4 & I5). unfold mwf. rewrite muri_of_noblocks.
  split; [|split; [constructor|split; [discriminate|reflexivity]]].
  unfold mwf_host, muri_of; cbn. exact I5.
Qed.

Lemma pinv_init : pinv pdata_init pb_init.
Proof. unfold pinv; cbn. repeat split; try discriminate. Qed.

(* the erasure theorem of the parser *)
Lemma parse_m_erasure t s : nofault s ->
  (forall m, fst (parse_m t s) = MOk m -> parse t = POk (erase m) /\ mwf m /\ m_owner m = false)
  /\ (forall u, parse t = POk u -> exists m, fst (parse_m t s) = MOk m /\ erase m = u)
  /\ (forall pos, fst (parse_m t s) = MSyntax pos <-> parse t = PSyntax pos)
  /\ fst (parse_m t s) <> MMalloc
  /\ nofault (snd (parse_m t s)).
Proof.
  intros Hnf. unfold parse_m, parse.
  pose proof (prun_m_nf t CStart pdata_init pb_init 0 s Hnf pinv_init eq_refl) as H.
  destruct (prun CStart pdata_init 0 t) as [u|pos].
  - destruct H as (d' & b' & s' & E & U & I & L). rewrite E. cbn [fst snd]. subst u.
    split; [|split; [|split; [|split]]].
    + intros m Hm. injection Hm as <-. rewrite (erase_muri_of _ _ I). split; [reflexivity|].
      split; [apply muri_of_wf; exact I|reflexivity].
    + intros u Hu. injection Hu as <-. eexists. split; [reflexivity|apply erase_muri_of; exact I].
    + intros pos. split; discriminate.
    + discriminate.
    + apply (st_le_nofault _ _ L Hnf).
  - destruct H as (s' & E & L). rewrite E. cbn [fst snd].
    split; [|split; [|split; [|split]]].
    + discriminate.
    + discriminate.
    + intros p. split; intros Hp; injection Hp as <-; reflexivity.
    + discriminate.
    + apply (st_le_nofault _ _ L Hnf).
Qed.
