(* uriIsUnreserved (UriNormalizeBase.c), translated from the source: one case group (returning URI_TRUE),
   exactly the unreserved characters, which Model/Normalize.v writes as is_unreserved_code. *)
From Coq Require Import List NArith Bool Lia String.
From UP Require Import Base.Chars Base.Regex Base.Atoms Generated.SwitchTables Proofs.SwitchBase Model.Normalize.
Import ListNotations.
Local Open Scope N_scope.

Definition t_is_unreserved := table "UriNormalizeBase.c:uriIsUnreserved#1".

Theorem is_unreserved_switch :
  length t_is_unreserved = 1%nat
  /\ forall c, In c (concat t_is_unreserved) <-> is_unreserved_code c = true.
Proof.
  split; [vm_compute; reflexivity|].
  apply (set_is_sound _ is_unreserved_code is_unreserved_big). vm_compute. reflexivity.
Qed.
