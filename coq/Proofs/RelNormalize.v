(* C08, relative-path references: outside the five known shapes (findings D7a..D7e) the model of
   uriNormalizeSyntax computes exactly the specification's normal form of the path.

   The path of a relative-path reference (no scheme, no authority, rootless path) is normalized by the
   walk of uriRemoveDotSegmentsEx with its "relative" rule (Model.Common.rds_walk true): a leading ".."
   run is kept, and a "." is kept in front of a first segment containing ':' (the "essential dot").
   The specification is Spec.Normal.rel_path_normal (through Normal.path_normal false false, which first
   normalizes the percent-encodings of every segment).

   Main results
     walk_rel_spec        the walk's stack is the specification's stack, possibly on top of one kept "."
                          (invariant of the induction), as long as no ".." eats that "."
     rel_normalize_is_spec_segs / rel_normalize_is_spec
                          path_text (normalize 63 u) = Normal.path_normal false false (path_text u) for every
                          relative-path reference outside kf_cancels (D7a), kf_exposes_colon (D7b),
                          kf_exposes_empty (D7c), kf_stale_dot (D7d), kf_dot_eaten (D7e)
     *_refuted            each of the five carve-outs is necessary
     stmt_ok_exhaustive   the statement checked by computation on all lists of up to 5 segments over
                          {"", ".", "..", "a", "b:c", "%2e", "%2E%2e"} (a test, not the proof)
     kf_stale_dot_input   the carve-out for D7d, defined on the output of the model, is the same as following
                          the walk over the input (stale_dot, in the manner of CommuteProofs.eats_dot) *)
From Coq Require Import String List NArith ZArith Bool Lia ZifyBool ZifyN.
From UP Require Import Base.Chars Model.Uri Model.Common Model.Normalize Spec.NormalWf Spec.Split
  Proofs.DotSegments Proofs.ResolveProofs Proofs.NormalizeProofs Proofs.CommuteProofs.
From UP Require Spec.Normal Spec.Resolve Proofs.NormalizeLink.
Import ListNotations.
Local Open Scope N_scope.

(* the path as uriToString writes it: Proofs/NormalizeLink.v *)
Local Notation path_text := NormalizeLink.path_text.

(* ================================================================ 0. the carve-out for D7d *)
(* D7d, on the output alone: the result begins with a "." segment that is followed by a non-empty segment
   without ':' (or by nothing).  Such a "." is neither the essential dot of a first segment with ':' nor the
   guard in front of two empty segments (uriFixAmbiguity); normalizing again removes it. *)
Definition stale_shape (out : list text) : bool :=
  match out with
  | [46] :: rest => match rest with [] => true | s :: _ => negb (is_nil s) && negb (has_colon s) end
  | _ => false
  end.
Definition kf_stale_dot (u : uri) : bool := relative_ref u && stale_shape (pathSegs (normalize 63 u)).

(* ================================================================ 1. the specification, from a given stack *)
Lemma is_dot_seg s : Normal.is_dot s = seg_dot s.
Proof.
  unfold Normal.is_dot. destruct (seg_dot s) eqn:E.
  - apply seg_dot_true in E. subst s. reflexivity.
  - destruct (Resolve.text_eqb s [46]) eqn:T; [|reflexivity].
    apply text_eqb_true in T. subst s. discriminate E.
Qed.

Lemma is_dotdot_seg s : Normal.is_dotdot s = seg_dotdot s.
Proof.
  unfold Normal.is_dotdot. destruct (seg_dotdot s) eqn:E.
  - apply seg_dotdot_true in E. subst s. reflexivity.
  - destruct (Resolve.text_eqb s [46; 46]) eqn:T; [|reflexivity].
    apply text_eqb_true in T. subst s. discriminate E.
Qed.

(* one segment that is not the last one, on the specification's stack (most recent first) *)
Definition spec_step (st : list text) (w : text) : list text :=
  if seg_dot w then st
  else if seg_dotdot w then
    match st with
    | top :: st' => if seg_dotdot top then w :: st else st'
    | [] => [w]
    end
  else w :: st.

Fixpoint stack_rev (st segs : list text) : list text :=
  match segs with
  | [] => st
  | s :: r => stack_rev (spec_step st s) r
  end.

Lemma stack_rev_spec : forall segs st, Normal.rel_stack_rev st segs = stack_rev st segs.
Proof.
  induction segs as [|s r IH]; intros st; [reflexivity|].
  cbn [Normal.rel_stack_rev stack_rev]. unfold spec_step. rewrite is_dot_seg, is_dotdot_seg.
  destruct (seg_dot s); [apply IH|].
  destruct (seg_dotdot s); [|apply IH].
  destruct st as [|top st']; [apply IH|].
  rewrite is_dotdot_seg. destruct (seg_dotdot top); apply IH.
Qed.

(* Normal.rel_segments, started on the stack [st] *)
Definition rel_from (st rest : list text) : list text :=
  let st' := stack_rev st (removelast rest) in
  let l := last rest [] in
  if seg_dot l then rev ([] :: st')
  else if seg_dotdot l then
    match st' with
    | top :: st'' => if seg_dotdot top then rev (l :: st') else rev ([] :: st'')
    | [] => [l]
    end
  else rev (l :: st').

Lemma rel_segments_from segs : Normal.rel_segments segs = rel_from [] segs.
Proof.
  unfold Normal.rel_segments, rel_from. cbv zeta. rewrite stack_rev_spec, is_dot_seg, is_dotdot_seg.
  destruct (seg_dot _); [reflexivity|]. destruct (seg_dotdot _); [|reflexivity].
  destruct (stack_rev _ _) as [|top st'']; [reflexivity|]. rewrite is_dotdot_seg. reflexivity.
Qed.

Lemma rel_from_last st l :
  rel_from st [l] =
  if seg_dot l then rev ([] :: st)
  else if seg_dotdot l then
    match st with
    | top :: st'' => if seg_dotdot top then rev (l :: st) else rev ([] :: st'')
    | [] => [l]
    end
  else rev (l :: st).
Proof. reflexivity. Qed.

Lemma rel_from_cons st w nxt : nxt <> [] -> rel_from st (w :: nxt) = rel_from (spec_step st w) nxt.
Proof. destruct nxt as [|n1 nxt']; [congruence|reflexivity]. Qed.

(* ================================================================ 2. the walk, one segment *)
Definition first_colon (nxt : list text) : bool := match nxt with n1 :: _ => has_colon n1 | [] => false end.

Lemma walk_cons kept w nxt :
  rds_walk true false false kept (w :: nxt) =
  if seg_dot w then
    if is_nil kept && first_colon nxt then rds_walk true false false (w :: kept) nxt
    else match nxt with
         | _ :: _ => rds_walk true false false kept nxt
         | [] => match kept with [] => [] | _ => rev ([] :: kept) end
         end
  else if seg_dotdot w then
    if match kept with [] => true | p :: _ => seg_dotdot p end then rds_walk true false false (w :: kept) nxt
    else match nxt with
         | _ :: _ => rds_walk true false false (tl kept) nxt
         | [] => match tl kept with [] => [[]] | _ => rev ([] :: tl kept) end
         end
  else rds_walk true false false (w :: kept) nxt.
Proof.
  cbn [rds_walk andb]. unfold first_colon, is_nil.
  destruct (seg_dot w); [reflexivity|]. destruct (seg_dotdot w); [|reflexivity].
  destruct kept as [|p [|pp kk]]; [reflexivity| |]; destruct (seg_dotdot p), nxt; reflexivity.
Qed.

Lemma eats_cons kept w nxt :
  eats_dot kept (w :: nxt) =
  if seg_dot w then
    if is_nil kept && first_colon nxt then eats_dot (w :: kept) nxt else eats_dot kept nxt
  else if seg_dotdot w then
    match kept with
    | [] => eats_dot (w :: kept) nxt
    | p :: kk => if seg_dotdot p then eats_dot (w :: kept) nxt else seg_dot p || eats_dot kk nxt
    end
  else eats_dot (w :: kept) nxt.
Proof. reflexivity. Qed.

(* the kept "." (if any) is the oldest entry of the walk's stack *)
Definition dot_or_none (d : list text) : Prop := d = [] \/ d = [[46]].

Lemma rev_on_dot (x : text) st d : dot_or_none d -> rev (x :: st ++ d) = d ++ rev (x :: st).
Proof.
  intros [E|E]; subst d; [rewrite app_nil_r; reflexivity|].
  cbn [rev]. rewrite rev_app_distr. reflexivity.
Qed.

Lemma app_nil_both {A} (a b : list A) : a ++ b = [] -> a = [] /\ b = [].
Proof. destruct a; [intros; split; [reflexivity|assumption]|discriminate]. Qed.

(* ================================================================ 3. the invariant *)
(* Walking [rest] on the stack [st ++ d] -- the specification's stack [st], possibly on top of a kept "." --
   gives the specification's segments, possibly behind a kept "."; unless a ".." eats the kept "."
   (eats_dot).  The one exception: a lone final "." on an empty stack gives no segment where the
   specification has one empty segment. *)
Lemma walk_rel_spec : forall rest st d,
  dot_or_none d -> eats_dot (st ++ d) rest = false -> rest <> [] ->
  (exists d', dot_or_none d' /\ rds_walk true false false (st ++ d) rest = d' ++ rel_from st rest)
  \/ (rds_walk true false false (st ++ d) rest = [] /\ rel_from st rest = [[]]).
Proof.
  induction rest as [|w nxt IH]; intros st d Hd He Hne; [congruence|]. clear Hne.
  rewrite walk_cons. rewrite eats_cons in He.
  destruct nxt as [|n1 nxt'].
  - (* the last segment *)
    rewrite rel_from_last. unfold first_colon. rewrite andb_false_r.
    destruct (seg_dot w) eqn:Ed.
    { destruct (st ++ d) as [|p kk] eqn:Ek.
      - right. apply app_nil_both in Ek. destruct Ek; subst st d. split; reflexivity.
      - left. exists d. split; [exact Hd|]. rewrite <- Ek. apply rev_on_dot. exact Hd. }
    destruct (seg_dotdot w) eqn:Edd.
    { destruct st as [|p st'].
      - destruct Hd as [E|E]; subst d.
        + left. exists []. split; [left; reflexivity|]. reflexivity.
        + discriminate He.
      - cbn [app] in He |- *. destruct (seg_dotdot p) eqn:Ep.
        + left. exists d. split; [exact Hd|]. cbn [rds_walk]. exact (rev_on_dot w (p :: st') d Hd).
        + left. exists d. split; [exact Hd|]. cbn [tl].
          destruct (st' ++ d) as [|pp kk] eqn:Ek.
          * apply app_nil_both in Ek. destruct Ek; subst st' d. reflexivity.
          * rewrite <- Ek. apply rev_on_dot. exact Hd. }
    left. exists d. split; [exact Hd|]. cbn [rds_walk]. apply rev_on_dot. exact Hd.
  - (* a segment that is not the last one *)
    assert (n1 :: nxt' <> []) as Hn by discriminate.
    rewrite rel_from_cons by exact Hn. unfold spec_step.
    remember (n1 :: nxt') as nxt eqn:Enxt.
    destruct (seg_dot w) eqn:Ed.
    { destruct (is_nil (st ++ d) && first_colon nxt) eqn:Ess.
      - (* kept as essential: from now on the stack stands on a "." *)
        apply andb_prop in Ess. destruct Ess as [Ek _].
        destruct (st ++ d) as [|p kk] eqn:Ekd; [|discriminate Ek].
        apply app_nil_both in Ekd. destruct Ekd; subst st d.
        apply seg_dot_true in Ed. subst w.
        exact (IH [] [[46]] (or_intror eq_refl) He Hn).
      - rewrite Enxt at 1. rewrite <- Enxt. exact (IH st d Hd He Hn). }
    destruct (seg_dotdot w) eqn:Edd.
    { destruct st as [|p st'].
      - destruct Hd as [E|E]; subst d.
        + exact (IH [w] [] (or_introl eq_refl) He Hn).
        + discriminate He.
      - cbn [app] in He |- *. destruct (seg_dotdot p) eqn:Ep.
        + exact (IH (w :: p :: st') d Hd He Hn).
        + apply orb_false_elim in He. destruct He as [_ He].
          rewrite Enxt at 1. rewrite <- Enxt. cbn [tl]. exact (IH st' d Hd He Hn). }
    exact (IH (w :: st) d Hd He Hn).
Qed.

(* ================================================================ 4. from the segments to the text *)
(* Normal.rel_path_normal on the segments of the normal form *)
Definition spec_text (T : list text) : text :=
  match T with
  | [] | [[]] => [46; 47]
  | first :: _ =>
    if has_colon first || is_nil first then 46 :: 47 :: Normal.join_slash T else Normal.join_slash T
  end.

Lemma rel_path_normal_text p : p <> [] ->
  Normal.rel_path_normal p = spec_text (rel_from [] (split_on 47 p)).
Proof.
  intros Hp. unfold Normal.rel_path_normal. destruct p as [|c r]; [congruence|].
  rewrite rel_segments_from. unfold spec_text.
  destruct (rel_from [] (split_on 47 (c :: r))) as [|first T']; [reflexivity|].
  destruct first as [|x first']; destruct T'; reflexivity.
Qed.

Definition drop_lone (x : list text) : list text := match x with [[]] => [] | _ => x end.

Lemma nso_rel_steps segs : segs <> [] ->
  norm_segs_of true false false segs
  = drop_lone (guard_segs false false (rds_walk true false false [] (map fix_pct segs))).
Proof. destruct segs as [|s0 sr]; [congruence|reflexivity]. Qed.

Lemma join_dot_front T : T <> [] -> Normal.join_slash (@cons text [46] T) = 46 :: 47 :: Normal.join_slash T.
Proof. destruct T; [congruence|reflexivity]. Qed.

(* the segment list the model leaves, against the specification's text: the five shapes are all that differs *)
Lemma out_is_spec S : S <> [] -> eats_dot [] S = false ->
  let M := drop_lone (guard_segs false false (rds_walk true false false [] S)) in
  is_nil M = false ->                                                     (* not D7a *)
  match M with [] :: _ :: _ => true | _ => false end = false ->           (* not D7c *)
  match M with s :: _ => has_colon s | [] => false end = false ->         (* not D7b *)
  stale_shape M = false ->                                                (* not D7d *)
  Normal.join_slash M = spec_text (rel_from [] S).
Proof.
  intros HS He. cbv zeta.
  destruct (walk_rel_spec S [] [] (or_introl eq_refl) He HS) as [(d' & Hd' & EW)|(EW & ET)];
    cbn [app] in EW; rewrite EW; clear EW.
  2:{ intros Hc. discriminate Hc. }
  set (T := rel_from [] S). clearbody T.
  destruct Hd' as [E|E]; subst d'; cbn [app].
  - (* no kept ".": the walk's output is the specification's segment list *)
    destruct T as [|[|c s] [|[|e t] r]]; cbn [guard_segs drop_lone is_nil stale_shape];
      intros Hc He0 Hco Hst; try discriminate.
    + (* two empty segments in front: the guard's "." is the specification's "./" *)
      reflexivity.
    + unfold spec_text. rewrite Hco. reflexivity.
    + unfold spec_text. rewrite Hco. reflexivity.
    + unfold spec_text. rewrite Hco. reflexivity.
  - (* a kept "." in front *)
    assert (forall X, guard_segs false false (@cons text [46] X) = [46] :: X) as Eg by reflexivity.
    assert (forall X, drop_lone (@cons text [46] X) = [46] :: X) as Ed by reflexivity.
    rewrite Eg, Ed. cbn [is_nil stale_shape]. intros _ _ _ Hst.
    destruct T as [|first T']; [discriminate Hst|].
    rewrite join_dot_front by discriminate.
    destruct first as [|c s].
    + destruct T'; reflexivity.
    + cbn [is_nil negb andb] in Hst. apply negb_false_iff in Hst.
      unfold spec_text. rewrite Hst. reflexivity.
Qed.

(* ---- the specification's path text of a rootless path, through the percent-encoding engine ---- *)
Lemma map_pct_norm segs : forallb pct_wf segs = true -> map (Normal.pct_norm false) segs = map fix_pct segs.
Proof.
  intros Hwf. apply map_ext_in. intros s Hs. symmetry. apply fix_pct_spec.
  rewrite forallb_forall in Hwf. auto.
Qed.

Lemma map_fix_no_slash segs : forallb pct_wf segs = true -> Forall NormalizeLink.no_slash segs ->
  Forall NormalizeLink.no_slash (map fix_pct segs).
Proof.
  intros Hwf Hns. apply Forall_forall. intros x Hx. apply in_map_iff in Hx. destruct Hx as [s [Hs Hin]]. subst x.
  rewrite Forall_forall in Hns. rewrite forallb_forall in Hwf. apply NormalizeLink.fix_pct_no_slash; auto.
Qed.

(* for a path that begins with a non-empty segment, Normal.path_normal false false is rel_path_normal of the
   percent-normalized text *)
Lemma path_normal_rel (s0 : text) (sr : list text) : s0 <> [] -> let segs := s0 :: sr in
  forallb pct_wf segs = true -> Forall NormalizeLink.no_slash segs ->
  Normal.path_normal false false (Normal.join_slash segs)
  = Normal.rel_path_normal (Normal.join_slash (map fix_pct segs))
  /\ Normal.join_slash (map fix_pct segs) <> [].
Proof.
  intros Hs0. cbv zeta. intros Hwf Hns. set (segs := s0 :: sr) in *.
  assert (segs <> []) as Hne by discriminate.
  pose proof (map_fix_no_slash segs Hwf Hns) as Hns'.
  unfold Normal.path_normal. rewrite NormalizeLink.split_join by assumption.
  rewrite map_pct_norm by exact Hwf.
  assert (exists d tl', Normal.join_slash (map fix_pct segs) = d :: tl' /\ (d =? 47) = false) as (d & tl' & Ej & Hd).
  { unfold segs in *. cbn [map] in Hns' |- *.
    destruct (fix_pct s0) as [|d dr] eqn:Ef; [apply NormalizeLink.fix_pct_nil in Ef; contradiction|].
    destruct (NormalizeLink.join_head d dr (map fix_pct sr)) as [tl' E]. exists d, tl'. split; [exact E|].
    inversion Hns' as [|? ? Hd _]. apply (NormalizeLink.no_slash_head _ _ Hd). }
  rewrite Ej. cbn [head_is orb]. rewrite Hd. split; [reflexivity|discriminate].
Qed.

(* ================================================================ 5. the theorem *)
Lemma relative_ref_flags u : relative_ref u = true -> absolutePath u = false /\ is_host_set u = false.
Proof.
  unfold relative_ref. intros H. apply andb_prop in H. destruct H as [H Hh]. apply andb_prop in H. destruct H as [_ Ha].
  apply negb_true_iff in Ha. apply negb_true_iff in Hh. split; assumption.
Qed.

Lemma path_text_relative u : relative_ref u = true ->
  path_text (normalize 63 u) = Normal.join_slash (norm_segs_of true false false (pathSegs u))
  /\ path_text u = Normal.join_slash (pathSegs u)
  /\ pathSegs (normalize 63 u) = norm_segs_of true false false (pathSegs u).
Proof.
  intros Hrel. destruct (relative_ref_flags u Hrel) as [Ha Hh].
  destruct (normalized_fields u) as (_ & _ & _ & _ & _ & _ & _ & Eps & Eab & _ & _ & Ehs). cbv zeta in *.
  unfold NormalizeLink.path_text. rewrite Eps, Eab, Ehs, Ha, Hh. rewrite !andb_false_r. cbn [orb app].
  unfold norm_segs. rewrite Hrel, Ha, Hh. repeat split; reflexivity.
Qed.

(* segments contain no '/', percent-encodings well formed, the first segment is not empty (path-noscheme /
   path-rootless of RFC 3986): what every parsed relative-path reference satisfies *)
Theorem rel_normalize_is_spec_segs : forall u,
  forallb pct_wf (pathSegs u) = true -> Forall NormalizeLink.no_slash (pathSegs u) -> NormalizeLink.rootless_ok u ->
  relative_ref u = true ->
  kf_cancels u = false -> kf_dot_eaten u = false -> kf_exposes_empty u = false -> kf_exposes_colon u = false ->
  kf_stale_dot u = false ->
  path_text (normalize 63 u) = Normal.path_normal false false (path_text u).
Proof.
  intros u Hwf Hns Hroot Hrel Hca Hea Hem Hco Hst.
  destruct (relative_ref_flags u Hrel) as [Ha Hh].
  destruct (path_text_relative u Hrel) as (E1 & E2 & E3).
  unfold kf_cancels, kf_dot_eaten, kf_exposes_empty, kf_exposes_colon, kf_stale_dot in *.
  rewrite Hrel, ?E3 in *. cbn [andb] in *. rewrite E1, E2. clear E1 E2 E3.
  specialize (Hroot Ha Hh).
  destruct (pathSegs u) as [|s0 sr] eqn:Eps; [reflexivity|].
  destruct s0 as [|c0 cr]; [contradiction|].
  destruct (path_normal_rel (c0 :: cr) sr ltac:(discriminate) Hwf Hns) as [EN Hnn]. cbv zeta in EN. rewrite EN. clear EN.
  rewrite rel_path_normal_text by exact Hnn.
  rewrite NormalizeLink.split_join; [|discriminate|apply map_fix_no_slash; assumption].
  cbn [is_nil negb andb] in Hca.
  rewrite nso_rel_steps in * by discriminate.
  apply out_is_spec; try assumption. discriminate.
Qed.

Theorem rel_normalize_is_spec : forall u,
  uri_pct_wf u = true -> Forall NormalizeLink.no_slash (pathSegs u) -> NormalizeLink.rootless_ok u ->
  relative_ref u = true ->
  kf_cancels u = false -> kf_dot_eaten u = false -> kf_exposes_empty u = false -> kf_exposes_colon u = false ->
  kf_stale_dot u = false ->
  path_text (normalize 63 u) = Normal.path_normal false false (path_text u).
Proof.
  intros u Hwf. destruct (pct_wf_parts u Hwf) as (_ & _ & Hps & _). apply rel_normalize_is_spec_segs. exact Hps.
Qed.

(* where the percent-encoding engine has nothing to do, the specification is rel_path_normal of the text itself *)
Corollary rel_normalize_is_rel_path_normal : forall u,
  forallb pct_wf (pathSegs u) = true -> Forall NormalizeLink.no_slash (pathSegs u) -> NormalizeLink.rootless_ok u ->
  relative_ref u = true -> map fix_pct (pathSegs u) = pathSegs u ->
  kf_cancels u = false -> kf_dot_eaten u = false -> kf_exposes_empty u = false -> kf_exposes_colon u = false ->
  kf_stale_dot u = false ->
  path_text (normalize 63 u) = Normal.rel_path_normal (path_text u).
Proof.
  intros u Hwf Hns Hroot Hrel Hfix Hca Hea Hem Hco Hst.
  rewrite (rel_normalize_is_spec_segs u) by assumption.
  destruct (relative_ref_flags u Hrel) as [Ha Hh].
  destruct (path_text_relative u Hrel) as (_ & E2 & _). rewrite E2.
  specialize (Hroot Ha Hh).
  destruct (pathSegs u) as [|s0 sr] eqn:Eps; [reflexivity|].
  destruct s0 as [|c0 cr]; [contradiction|].
  destruct (path_normal_rel (c0 :: cr) sr ltac:(discriminate) Hwf Hns) as [EN _]. cbv zeta in EN. rewrite EN, Hfix. reflexivity.
Qed.

(* ================================================================ 6. D7d on the input *)
(* The same carve-out, read off the input: the walk of uriRemoveDotSegmentsEx in relative mode (host-less,
   not absolutePath), followed to its end, where the shape of what it leaves is looked at.  Same recursion
   as Model.Common.rds_walk true false false (and as CommuteProofs.eats_dot). *)
Fixpoint stale_dot (kept rest : list text) : bool :=
  match rest with
  | [] => stale_shape (rev kept)
  | w :: nxt =>
    if seg_dot w then
      if is_nil kept && first_colon nxt then stale_dot (w :: kept) nxt            (* the essential dot *)
      else match nxt with
           | _ :: _ => stale_dot kept nxt
           | [] => match kept with [] => false | _ => stale_shape (rev ([] :: kept)) end
           end
    else if seg_dotdot w then
      if match kept with [] => true | p :: _ => seg_dotdot p end then stale_dot (w :: kept) nxt
      else match nxt with
           | _ :: _ => stale_dot (tl kept) nxt
           | [] => match tl kept with [] => false | _ => stale_shape (rev ([] :: tl kept)) end
           end
    else stale_dot (w :: kept) nxt
  end.

Lemma stale_dot_walk : forall rest kept,
  stale_dot kept rest = stale_shape (rds_walk true false false kept rest).
Proof.
  induction rest as [|w nxt IH]; intros kept; [reflexivity|].
  rewrite walk_cons. cbn [stale_dot].
  destruct (seg_dot w).
  { destruct (is_nil kept && first_colon nxt); [apply IH|].
    destruct nxt as [|n1 nxt']; [|apply IH]. destruct kept; reflexivity. }
  destruct (seg_dotdot w); [|apply IH].
  destruct (match kept with [] => true | p :: _ => seg_dotdot p end); [apply IH|].
  destruct nxt as [|n1 nxt']; [|apply IH]. destruct (tl kept); reflexivity.
Qed.

(* the guard and the dropped lone empty segment neither make nor hide the shape *)
Lemma stale_shape_guard W : stale_shape (drop_lone (guard_segs false false W)) = stale_shape W.
Proof. destruct W as [|[|c s] [|[|e t] r]]; reflexivity. Qed.

Theorem kf_stale_dot_input u :
  kf_stale_dot u = relative_ref u && stale_dot [] (map fix_pct (pathSegs u)).
Proof.
  unfold kf_stale_dot. destruct (relative_ref u) eqn:Hrel; [|reflexivity]. cbn [andb].
  destruct (path_text_relative u Hrel) as (_ & _ & E3). rewrite E3, stale_dot_walk.
  destruct (pathSegs u) as [|s0 sr]; [reflexivity|].
  rewrite nso_rel_steps by discriminate. apply stale_shape_guard.
Qed.

(* ================================================================ 7. every carve-out is necessary *)
Definition rel_hyps (R : uri) : Prop :=
  uri_pct_wf R = true /\ Forall NormalizeLink.no_slash (pathSegs R) /\ NormalizeLink.rootless_ok R
  /\ relative_ref R = true.

Definition rel_hyps_b (R : uri) : bool :=
  uri_pct_wf R && forallb noslash (pathSegs R) && first_nonempty (pathSegs R) && relative_ref R.

Lemma noslash_no_slash s : noslash s = true -> NormalizeLink.no_slash s.
Proof.
  unfold noslash, NormalizeLink.no_slash. intros H. apply Forall_forall. intros c Hc.
  rewrite forallb_forall in H. specialize (H c Hc). apply negb_true_iff in H. apply N.eqb_neq. exact H.
Qed.

Lemma rel_hyps_of_b R : rel_hyps_b R = true -> rel_hyps R.
Proof.
  unfold rel_hyps_b, rel_hyps. intros H.
  apply andb_prop in H. destruct H as [H Hrel]. apply andb_prop in H. destruct H as [H Hf].
  apply andb_prop in H. destruct H as [Hwf Hns].
  repeat split; try assumption.
  - apply Forall_forall. intros s Hs. rewrite forallb_forall in Hns. apply noslash_no_slash. auto.
  - intros _ _. destruct (pathSegs R) as [|[|c s] r]; [exact I|discriminate Hf|exact I].
Qed.

(* ... in particular with the well-formedness of Proofs/ResolveProofs.v, which every parsed reference has
   (ResolveProofs.parsed_wf) *)
Lemma rel_hyps_of_wf u : uri_pct_wf u = true -> wf u = true -> relative_ref u = true -> rel_hyps u.
Proof.
  intros Hp Hwf Hrel. apply rel_hyps_of_b. unfold rel_hyps_b. rewrite Hp, Hrel, (wf_noslash u Hwf).
  destruct (relative_ref_flags u Hrel) as [Ha Hh]. unfold wf in Hwf. rewrite Ha, Hh in Hwf.
  apply andb_prop in Hwf. destruct Hwf as [Hwf _]. apply andb_prop in Hwf. destruct Hwf as [_ Hf].
  rewrite Hf. reflexivity.
Qed.

Theorem rel_normalize_is_spec_wf : forall u,
  uri_pct_wf u = true -> wf u = true -> relative_ref u = true ->
  kf_cancels u = false -> kf_dot_eaten u = false -> kf_exposes_empty u = false -> kf_exposes_colon u = false ->
  kf_stale_dot u = false ->
  path_text (normalize 63 u) = Normal.path_normal false false (path_text u).
Proof.
  intros u Hp Hwf Hrel. destruct (rel_hyps_of_wf u Hp Hwf Hrel) as (H1 & H2 & H3 & H4).
  apply rel_normalize_is_spec; assumption.
Qed.

Ltac witness :=
  eexists; split; [vm_compute; reflexivity|]; split; [apply rel_hyps_of_b; vm_compute; reflexivity|];
  repeat (split; [vm_compute; reflexivity|]); vm_compute; reflexivity.

(* D7a  "a/.." -> "", normal form "./" *)
Lemma rel_cancels_refuted :
  exists R, parsed "a/.." R /\ rel_hyps R
    /\ kf_cancels R = true /\ kf_dot_eaten R = false /\ kf_exposes_empty R = false
    /\ kf_exposes_colon R = false /\ kf_stale_dot R = false
    /\ path_text (normalize 63 R) = txt "" /\ Normal.path_normal false false (path_text R) = txt "./".
Proof. witness. Qed.

(* D7e  "./b:c/../../x" -> "x", normal form "../x" *)
Lemma rel_dot_eaten_refuted :
  exists R, parsed "./b:c/../../x" R /\ rel_hyps R
    /\ kf_cancels R = false /\ kf_dot_eaten R = true /\ kf_exposes_empty R = false
    /\ kf_exposes_colon R = false /\ kf_stale_dot R = false
    /\ path_text (normalize 63 R) = txt "x" /\ Normal.path_normal false false (path_text R) = txt "../x".
Proof. witness. Qed.

(* D7c  "a/..//b" -> "/b", normal form ".//b" *)
Lemma rel_exposes_empty_refuted :
  exists R, parsed "a/..//b" R /\ rel_hyps R
    /\ kf_cancels R = false /\ kf_dot_eaten R = false /\ kf_exposes_empty R = true
    /\ kf_exposes_colon R = false /\ kf_stale_dot R = false
    /\ path_text (normalize 63 R) = txt "/b" /\ Normal.path_normal false false (path_text R) = txt ".//b".
Proof. witness. Qed.

(* D7b  "a/../b:c" -> "b:c", normal form "./b:c" *)
Lemma rel_exposes_colon_refuted :
  exists R, parsed "a/../b:c" R /\ rel_hyps R
    /\ kf_cancels R = false /\ kf_dot_eaten R = false /\ kf_exposes_empty R = false
    /\ kf_exposes_colon R = true /\ kf_stale_dot R = false
    /\ path_text (normalize 63 R) = txt "b:c" /\ Normal.path_normal false false (path_text R) = txt "./b:c".
Proof. witness. Qed.

(* D7d  "./b:c/../x" -> "./x", normal form "x" *)
Lemma rel_stale_dot_refuted :
  exists R, parsed "./b:c/../x" R /\ rel_hyps R
    /\ kf_cancels R = false /\ kf_dot_eaten R = false /\ kf_exposes_empty R = false
    /\ kf_exposes_colon R = false /\ kf_stale_dot R = true
    /\ path_text (normalize 63 R) = txt "./x" /\ Normal.path_normal false false (path_text R) = txt "x".
Proof. witness. Qed.

(* the first segment must not be empty: the object with segments "", "a" and no absolutePath flag is written
   "/a", which the specification reads as an absolute path; the walk keeps the empty segment *)
Lemma rel_first_empty_refuted :
  let R := mkUri None None None None None None None [[]; [46]; [97]] None None false false in
  uri_pct_wf R = true /\ Forall NormalizeLink.no_slash (pathSegs R) /\ relative_ref R = true
  /\ kf_cancels R = false /\ kf_dot_eaten R = false /\ kf_exposes_empty R = true
  /\ path_text R = txt "/./a" /\ path_text (normalize 63 R) = txt "/a".
Proof.
  cbv zeta. split; [reflexivity|]. split; [repeat constructor; discriminate|].
  repeat (split; [vm_compute; reflexivity|]). vm_compute; reflexivity.
Qed.

(* the hypotheses hold on inputs with dot segments of every kind *)
Lemma rel_example_dots :             (* leading "..", ".", "x/.." *)
  exists R, parsed "../a/./b/../c" R /\ rel_hyps R
    /\ kf_cancels R = false /\ kf_dot_eaten R = false /\ kf_exposes_empty R = false
    /\ kf_exposes_colon R = false /\ kf_stale_dot R = false
    /\ path_text (normalize 63 R) = txt "../a/c".
Proof. witness. Qed.

Lemma rel_example_essential_dot :    (* the essential dot stays *)
  exists R, parsed "./a:b/c" R /\ rel_hyps R
    /\ kf_cancels R = false /\ kf_dot_eaten R = false /\ kf_exposes_empty R = false
    /\ kf_exposes_colon R = false /\ kf_stale_dot R = false
    /\ path_text (normalize 63 R) = txt "./a:b/c".
Proof. witness. Qed.

Lemma rel_example_pct :              (* percent-encoded dot segments, a "." in front of a "x:y" segment behind a kept
                                        "..", a final ".." that leaves a trailing slash *)
  exists R, parsed "%2e%2E/x/%2e%2e/./b:c/%7e/d/.." R /\ rel_hyps R
    /\ kf_cancels R = false /\ kf_dot_eaten R = false /\ kf_exposes_empty R = false
    /\ kf_exposes_colon R = false /\ kf_stale_dot R = false
    /\ path_text (normalize 63 R) = txt "../b:c/~/".
Proof. witness. Qed.

Lemma rel_example_guard :            (* two empty segments exposed: the guard of uriFixAmbiguity is the "./" of
                                        the specification (the shape repaired as D14) *)
  exists R, parsed "a/..//" R /\ rel_hyps R
    /\ kf_cancels R = false /\ kf_dot_eaten R = false /\ kf_exposes_empty R = false
    /\ kf_exposes_colon R = false /\ kf_stale_dot R = false
    /\ path_text (normalize 63 R) = txt ".//" /\ Normal.path_normal false false (path_text R) = txt ".//".
Proof. witness. Qed.

(* ================================================================ 8. the statement, tested by computation *)
(* all segment lists of length <= 5 over {"", ".", "..", "a", "b:c", "%2e", "%2E%2e"} *)
Definition rel_uri (segs : list text) : uri := mkUri None None None None None None None segs None None false false.
Definition test_alphabet : list text :=
  [[]; [46]; [46; 46]; [97]; [98; 58; 99]; [37; 50; 101]; [37; 50; 69; 37; 50; 101]].
Fixpoint lists_upto (n : nat) : list (list text) :=
  match n with
  | O => [[]]
  | S k => [] :: flat_map (fun l => map (fun a => a :: l) test_alphabet) (lists_upto k)
  end.

Definition carved (u : uri) : bool :=
  kf_cancels u || kf_dot_eaten u || kf_exposes_empty u || kf_exposes_colon u || kf_stale_dot u.
Definition agrees (u : uri) : bool :=
  Resolve.text_eqb (path_text (normalize 63 u)) (Normal.path_normal false false (path_text u)).

(* the statement of rel_normalize_is_spec as a boolean *)
Definition stmt_ok (segs : list text) : bool :=
  let u := rel_uri segs in
  if rel_hyps_b u && negb (carved u) then agrees u else true.

(* 19608 lists, 16807 of them with a non-empty first segment, 13134 of these outside the five shapes: the
   statement holds on all; and on this scope the carve-outs are exact: every well-formed list inside one of the
   shapes deviates from the specification *)
Lemma stmt_ok_exhaustive :
  forallb stmt_ok (lists_upto 5) = true
  /\ forallb (fun segs => let u := rel_uri segs in
                          if rel_hyps_b u && carved u then negb (agrees u) else true) (lists_upto 5) = true
  /\ N.of_nat (length (lists_upto 5)) = 19608
  /\ N.of_nat (length (filter (fun segs => rel_hyps_b (rel_uri segs)) (lists_upto 5))) = 16807
  /\ N.of_nat (length (filter (fun segs => rel_hyps_b (rel_uri segs) && negb (carved (rel_uri segs)))
                              (lists_upto 5))) = 13134.
Proof. vm_compute. repeat split. Qed.

Print Assumptions rel_normalize_is_spec.
Print Assumptions rel_normalize_is_spec_wf.
Print Assumptions kf_stale_dot_input.
