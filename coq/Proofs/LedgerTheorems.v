(* The allocation ledger: the statements used by Props/C13.v and Props/C14.v, in the vocabulary of
   [Permutation] on live block ids, [bad_frees] (releases of blocks that are not live), [owns]
   (the object is consistent with its owner flag and all its blocks are live and distinct) and
   [fails_between] (the fault plan failed a request made during the call). *)
From Coq Require Import List NArith Bool Arith Lia Permutation.
From UP Require Import Base.Chars Base.Atoms Model.Uri Model.Ip4 Model.Parse Model.Common Model.Compare
  Model.Resolve Model.Shorten Model.Normalize Model.Mem Model.ParseM Model.OpsM
  Proofs.LedgerProofs Proofs.LedgerOps Proofs.LedgerBase Proofs.LedgerNormalize.
Import ListNotations.

(* ---------------------------------------------------------------- parsed objects have a non-empty scheme / IPvFuture text *)
(* (uriPreventLeakage relies on it: it releases these two without comparing first and afterLast) *)
Definition sane (m : muri) : Prop := t_val (m_scheme m) <> Some [] /\ t_val (m_ipFuture m) <> Some [].

Definition pend_ne (c : ctrl) : bool :=
  match c with CSchemeOrSeg | CFutV | CFutHex | CFutLoop1 | CFutLoop => true | _ => false end.
(* abstract effect of an action on "the pending text is not empty"; None = a scheme / IPvFuture would be set from an empty text *)
Definition aeff2 (a : action) (ne : bool) : option bool :=
  match a with
  | AApp | AMerge => Some true
  | AApp2 | APushSaved | ASetAbs | AAllocIp6 | AFixEmptyTrail => Some ne
  | ASetScheme | AHostFuture => if ne then Some false else None
  | _ => Some false
  end.
Fixpoint acts_eff2 (acts : list action) (ne : bool) : option bool :=
  match acts with
  | [] => Some ne
  | a :: r => match aeff2 a ne with Some ne' => acts_eff2 r ne' | None => None end
  end.
Definition impb (a b : bool) : bool := negb a || b.
Definition tr_ok2 (ne : bool) (t : tr) : bool :=
  match acts_eff2 (fst t) ne with
  | Some ne' => match snd t with Go c' => impb (pend_ne c') ne' | Stop _ => true end
  | None => false
  end.
Lemma tr_ok2_pre ne acts t : tr_ok2 ne (pre acts t) = match acts_eff2 acts ne with Some ne' => tr_ok2 ne' t | None => false end.
Proof.
  unfold tr_ok2, pre. cbn [fst snd]. revert ne. induction acts as [|a r IH]; intros ne; cbn [acts_eff2 app]; [reflexivity|].
  destruct (aeff2 a ne); [apply IH|reflexivity].
Qed.

Lemma ptrans_ok2 c a : tr_ok2 (pend_ne c) (ptrans c a) = true.
Proof.
  destruct c; try (destruct r); try (destruct k); destruct a; cbn [ptrans pend_ne];
  unfold t_start, t_schemeorseg, t_mustbeseg, t_hier, t_part2, t_auth, t_uh, t_uhnz, t_portuser, t_user, t_ownhost, t_host2,
    t_auth2, t_port, t_iplit, t_futv, t_futhex, t_futloop1, t_futloop, t_v6, t_v6colon, t_v6cc, t_v6hex, t_v6ip4,
    t_pathstart, t_seg, t_tail, t_tail2, t_qf, t_pct1, t_pct2;
  cbn [a_alpha a_digit a_subdelim a_hexdig a_unreserved a_sub_unres a_pchar_np a_uh_start a_fut orb andb negb];
  rewrite ?tr_ok2_pre; cbn [acts_eff2 aeff2]; ifs; rewrite ?tr_ok2_pre; cbn [acts_eff2 aeff2 app seg_end path_exit seg_next];
  try reflexivity; repeat match goal with |- context [match oct_over ?o with _ => _ end] => destruct (oct_over o) end; reflexivity.
Qed.

Definition fin_ok2 (ne : bool) (f : list action * fin) : bool :=
  match snd f with Acc => match acts_eff2 (fst f) ne with Some _ => true | None => false end | StopEnd => true end.
Lemma pfinish_ok2 c : fin_ok2 (pend_ne c) (pfinish c) = true.
Proof. destruct c; try (destruct r); try (destruct k); reflexivity. Qed.

Definition dsane (ne : bool) (d : pdata) : Prop :=
  (ne = true -> p_pend d <> []) /\ scheme (p_uri d) <> Some [] /\ ipFuture (p_uri d) <> Some [].

Lemma exec_dsane ch d a ne ne' : dsane ne d -> aeff2 a ne = Some ne' -> dsane ne' (exec ch d a).
Proof.
  intros (Hp & Hs & Hf) A.
  assert (App : forall l, l ++ [ch] <> []) by (intros [|? ?]; discriminate).
  destruct a; cbn [aeff2] in A; try (destruct ne; [|discriminate]); injection A as <-; cbn [exec];
    unfold dsane, with_uri; cbn [p_uri p_pend scheme ipFuture set_scheme set_userInfo set_hostText set_ip4 set_ip6 set_ipFuture
                                 set_portText set_pathSegs set_query set_fragment set_absolutePath];
    try (split; [first [discriminate | exact Hp | (intros _; apply App)]|split; assumption]).
  - split; [intros _|split; assumption]. destruct (p_pend d); discriminate.
  - split; [discriminate|]. split; [|exact Hf]. intros H. injection H as H. apply Hp; auto.
  - split; [discriminate|]. split; [exact Hs|]. intros H. injection H as H. apply Hp; auto.
  - split; [exact Hp|]. unfold fix_empty_trail. destruct (negb (is_host_set (p_uri d))); [|split; assumption].
    destruct (pathSegs (p_uri d)) as [|[|? ?] [|? ?]]; split; assumption.
Qed.

Lemma exec_m_data ch d b a s d' b' s' : exec_m ch d b a s = (Some (d', b'), s') -> d' = exec ch d a.
Proof.
  destruct a; cbn [exec_m]; try (intros H; injection H as <- _ _; reflexivity).
  - destruct (alloc true SEG_SIZE s) as [[id|] s1]; [|discriminate]. intros H; injection H as <- _ _; reflexivity.
  - destruct (alloc true SEG_SIZE s) as [[id|] s1]; [|discriminate]. intros H; injection H as <- _ _; reflexivity.
  - destruct (alloc false IP4_SIZE s) as [[id|] s1]; [|discriminate].
    destruct (ip4 (p_uri (exec ch d AHostReg))); intros H; injection H as <- _ _; reflexivity.
  - destruct (alloc false IP4_SIZE s) as [[id|] s1]; [|discriminate].
    destruct (ip4 (p_uri (exec ch d AHostPort))); intros H; injection H as <- _ _; reflexivity.
  - destruct (alloc false IP6_SIZE s) as [[id|] s1]; [|discriminate]. intros H; injection H as <- _ _; reflexivity.
  - destruct (pathSegs (p_uri d)); [intros H; injection H as <- _ _; reflexivity|].
    destruct (pathSegs (p_uri (exec ch d AFixEmptyTrail))); [|intros H; injection H as <- _ _; reflexivity].
    destruct (pb_nodes b); intros H; injection H as <- _ _; reflexivity.
Qed.

Lemma exec_all_m_dsane ch acts : forall d b s ne ne' d' b' bh s', dsane ne d -> acts_eff2 acts ne = Some ne' ->
  exec_all_m ch d b acts s = (Some (d', b'), bh, s') -> dsane ne' d'.
Proof.
  induction acts as [|a r IH]; intros d b s ne ne' d' b' bh s' D A E; cbn [exec_all_m acts_eff2] in *.
  - injection A as <-. injection E as <- _ _ _. exact D.
  - destruct (aeff2 a ne) as [ne1|] eqn:EA; [|discriminate].
    destruct (exec_m ch d b a s) as [[[d1 b1]|] s1] eqn:EM; [|discriminate].
    apply exec_m_data in EM. subst d1. eapply IH; [|exact A|exact E]. eapply exec_dsane; eauto.
Qed.

Lemma dsane_weaken ne ne' d : impb ne' ne = true -> dsane ne d -> dsane ne' d.
Proof. intros H (a & b & c). split; [|split; assumption]. intros ->. destruct ne; [auto|discriminate]. Qed.

Lemma prun_m_sane t : forall c d b i s m s', dsane (pend_ne c) d -> prun_m c d b i t s = (MOk m, s') -> sane m.
Proof.
  induction t as [|ch r IH]; intros c d b i s m s' D E; cbn [prun_m] in E.
  - pose proof (pfinish_ok2 c) as FO. unfold fin_ok2 in FO. destruct (pfinish c) as [acts [|]]; cbn [fst snd] in FO; [|discriminate].
    destruct (acts_eff2 acts (pend_ne c)) as [ne'|] eqn:EA; [|discriminate].
    destruct (exec_all_m 0%N d b acts s) as [[[[d1 b1]|] bh] s1] eqn:EX; [|discriminate].
    injection E as <- _. destruct (exec_all_m_dsane _ _ _ _ _ _ _ _ _ _ _ D EA EX) as (_ & Hs & Hf). split; assumption.
  - pose proof (ptrans_ok2 c (atom_of ch)) as TO. unfold tr_ok2 in TO. destruct (ptrans c (atom_of ch)) as [acts nx]. cbn [fst snd] in TO.
    destruct (acts_eff2 acts (pend_ne c)) as [ne'|] eqn:EA; [|discriminate].
    destruct (exec_all_m ch d b acts s) as [[[[d1 b1]|] bh] s1] eqn:EX; [|discriminate].
    destruct nx as [c'|off]; [|discriminate].
    eapply IH; [|exact E]. eapply dsane_weaken; [exact TO|]. eapply exec_all_m_dsane; eauto.
Qed.

Theorem parse_m_sane t s m s' : parse_m t s = (MOk m, s') -> sane m.
Proof.
  apply prun_m_sane. split; [discriminate|]. split; discriminate.
Qed.

(* ---------------------------------------------------------------- translation to permutations *)
Lemma acct_perm m s m' s' : acct m s m' s' <-> Permutation (live_ids s' ++ muri_blocks m) (muri_blocks m' ++ live_ids s).
Proof. rewrite cnt_Permutation. unfold acct, L. split; intros H x; specialize (H x); rewrite !cnt_app in *; exact H. Qed.

Lemma rel_perm_live s s' R : rel s s' R -> Permutation (live_ids s) (R ++ live_ids s').
Proof. intros (_ & _ & _ & _ & H). apply cnt_Permutation. intros x. specialize (H x). unfold L in H. rewrite cnt_app. lia. Qed.

Lemma acct_owns m s m' s' : wf s' -> consistent m' -> holds m s -> acct m s m' s' -> owns m' s'.
Proof. intros W C H A. split; [exact C|]. eapply acct_holds; eauto. Qed.

(* everything that was live and is not a block of the object operated on is still live *)
Lemma acct_frame m s m' s' x : holds m s -> acct m s m' s' -> In x (live_ids s) -> ~ In x (muri_blocks m) -> In x (live_ids s').
Proof.
  intros H A Hi Hn. apply cnt_In. apply cnt_In in Hi. specialize (H x). specialize (A x). unfold L in *.
  assert (cnt (muri_blocks m) x = 0) by (destruct (Nat.eq_dec (cnt (muri_blocks m) x) 0); [assumption|exfalso; apply Hn; apply cnt_In; lia]). lia.
Qed.

(* ---------------------------------------------------------------- uriFreeUriMembersMm *)
Theorem free_members_releases m s m' s' : wf s -> owns m s -> free_members m s = (m', s') ->
  wf s' /\ Permutation (live_ids s) (muri_blocks m ++ live_ids s') /\ bad_frees s' = bad_frees s
  /\ ms_requests s' = ms_requests s /\ ms_plan s' = ms_plan s /\ muri_blocks m' = [] /\ owns m' s' /\ m_owner m' = m_owner m.
Proof.
  intros W O E. destruct (free_members_rel m s m' s' W O E) as (Rl & Eb & C & Ow & _).
  pose proof (rel_perm_live _ _ _ Rl) as P. destruct Rl as (W' & Ex & Q & _ & _).
  split; [exact W'|]. split; [exact P|]. split; [apply Ex|]. split; [exact Q|]. split; [apply Ex|]. split; [exact Eb|].
  split; [|exact Ow]. split; [exact C|]. intros x. rewrite Eb. cbn. lia.
Qed.

Theorem free_members_idempotent m s m' s' : wf s -> owns m s -> free_members m s = (m', s') ->
  free_members m' s' = (m', s').
Proof. intros W O E. apply (free_members_rel m s m' s' W O E). Qed.

(* the caller's clean-up after an in-place operation: whatever the return code, exactly the blocks the
   object held before the call have left the ledger, and no release hit a block that was not live *)
Lemma cleanup_inplace m s m' s' m'' s'' : wf s -> holds m s -> wf s' -> ext s s' -> consistent m' -> acct m s m' s' ->
  free_members m' s' = (m'', s'') ->
  wf s'' /\ bad_frees s'' = bad_frees s /\ Permutation (live_ids s) (muri_blocks m ++ live_ids s'') /\ muri_blocks m'' = []
  /\ free_members m'' s'' = (m'', s'').
Proof.
  intros W H W' E C A EF. pose proof (acct_owns _ _ _ _ W' C H A) as O'.
  destruct (free_members_rel m' s' m'' s'' W' O' EF) as (Rl & Eb & C2 & Ow & Idem).
  drel Rl W2 E2 Q2 N2 H2. split; [exact W2|]. split; [rewrite (ext_bad _ _ E2); apply E|]. split; [|split; assumption].
  apply cnt_Permutation. intros x. rewrite cnt_app. unfold acct in A. specialize (A x). specialize (H2 x). unfold L in *. lia.
Qed.

(* ---------------------------------------------------------------- uriMakeOwnerMm *)
Theorem make_owner_m_balanced csize m s : wf s -> owns m s ->
  match make_owner_m csize m s with
  | (rc, m', s') =>
    wf s' /\ bad_frees s' = bad_frees s /\ owns m' s'
    /\ Permutation (live_ids s' ++ muri_blocks m) (muri_blocks m' ++ live_ids s)
    /\ ((rc = URI_SUCCESS /\ m_owner m' = true) \/ (rc = URI_ERROR_MALLOC /\ m_owner m' = false /\ fails_between s s'))
  end.
Proof.
  intros W O. pose proof (make_owner_m_spec csize m s W O) as R. destruct (make_owner_m csize m s) as [[rc m'] s'].
  destruct R as (W' & E' & C' & A' & Rc). split; [exact W'|]. split; [apply E'|]. split; [eapply acct_owns; eauto; apply O|].
  split; [apply acct_perm; exact A'|exact Rc].
Qed.

Theorem make_owner_m_cleanup csize m s rc m' s' m'' s'' : wf s -> owns m s ->
  make_owner_m csize m s = (rc, m', s') -> free_members m' s' = (m'', s'') ->
  (rc = URI_SUCCESS \/ rc = URI_ERROR_MALLOC) /\ (rc = URI_ERROR_MALLOC -> fails_between s s')
  /\ (ms_plan s = NoFault -> rc = URI_SUCCESS)
  /\ wf s'' /\ bad_frees s'' = bad_frees s /\ Permutation (live_ids s) (muri_blocks m ++ live_ids s'') /\ muri_blocks m'' = []
  /\ free_members m'' s'' = (m'', s'').
Proof.
  intros W O E EF. pose proof (make_owner_m_spec csize m s W O) as R. rewrite E in R.
  destruct R as (W' & E' & C' & A' & Rc).
  split; [destruct Rc as [[? _]|[? _]]; auto|]. split; [intros H; destruct Rc as [[H1 _]|[_ [_ Fl]]]; [rewrite H1 in H; discriminate|exact Fl]|].
  split; [intros P; destruct Rc as [[? _]|[_ [_ Fl]]]; [assumption|exfalso; exact (no_fault_no_fail _ _ P Fl)]|].
  eapply cleanup_inplace; eauto. apply O.
Qed.

(* ---------------------------------------------------------------- uriNormalizeSyntaxExMm *)
Theorem normalize_m_balanced csize mask m s : wf s -> owns m s -> (m_owner m = false -> sane m) ->
  match normalize_m csize mask m s with
  | (rc, m', s') =>
    wf s' /\ bad_frees s' = bad_frees s /\ owns m' s'
    /\ Permutation (live_ids s' ++ muri_blocks m) (muri_blocks m' ++ live_ids s)
    /\ ((rc = URI_SUCCESS /\ (mask <> 0%N -> m_owner m' = true) /\ (mask = 0%N -> m' = m /\ s' = s))
        \/ (rc = URI_ERROR_MALLOC /\ m_owner m' = m_owner m /\ fails_between s s'))
  end.
Proof.
  intros W O Sn. pose proof (normalize_m_spec csize mask m s W O Sn) as R. destruct (normalize_m csize mask m s) as [[rc m'] s'].
  destruct R as (W' & E' & C' & A' & Rc). split; [exact W'|]. split; [apply E'|]. split; [eapply acct_owns; eauto; apply O|].
  split; [apply acct_perm; exact A'|exact Rc].
Qed.

Theorem normalize_m_cleanup csize mask m s rc m' s' m'' s'' : wf s -> owns m s -> (m_owner m = false -> sane m) ->
  normalize_m csize mask m s = (rc, m', s') -> free_members m' s' = (m'', s'') ->
  (rc = URI_SUCCESS \/ rc = URI_ERROR_MALLOC) /\ (rc = URI_ERROR_MALLOC -> fails_between s s')
  /\ (ms_plan s = NoFault -> rc = URI_SUCCESS)
  /\ wf s'' /\ bad_frees s'' = bad_frees s /\ Permutation (live_ids s) (muri_blocks m ++ live_ids s'') /\ muri_blocks m'' = []
  /\ free_members m'' s'' = (m'', s'').
Proof.
  intros W O Sn E EF. pose proof (normalize_m_spec csize mask m s W O Sn) as R. rewrite E in R.
  destruct R as (W' & E' & C' & A' & Rc).
  split; [destruct Rc as [[? _]|[? _]]; auto|]. split; [intros H; destruct Rc as [[H1 _]|[_ [_ Fl]]]; [rewrite H1 in H; discriminate|exact Fl]|].
  split; [intros P; destruct Rc as [[? _]|[_ [_ Fl]]]; [assumption|exfalso; exact (no_fault_no_fail _ _ P Fl)]|].
  eapply cleanup_inplace; eauto. apply O.
Qed.

(* ---------------------------------------------------------------- uriAddBaseUriExMm / uriRemoveBaseUriMm *)
Lemma over_incl s s' B : over s' B (L s) -> incl (live_ids s) (live_ids s').
Proof. intros O x Hx. apply cnt_In. apply cnt_In in Hx. specialize (O x). unfold L in *. lia. Qed.

Theorem add_base_m_balanced compat rel base s : wf s ->
  match add_base_m compat rel base s with
  | (rc, d, s') =>
    wf s' /\ bad_frees s' = bad_frees s /\ owns d s' /\ m_owner d = false
    /\ Permutation (live_ids s') (muri_blocks d ++ live_ids s)
    /\ (rc = URI_SUCCESS \/ rc = URI_ERROR_ADDBASE_REL_BASE \/ (rc = URI_ERROR_MALLOC /\ fails_between s s'))
    /\ (rc <> URI_SUCCESS -> muri_blocks d = [] /\ free_members d s' = (d, s'))
  end.
Proof.
  intros W. pose proof (add_base_m_spec compat rel base s W) as R. destruct (add_base_m compat rel base s) as [[rc d] s'].
  destruct R as (W' & E' & C' & Ow & O' & Rc & Cl). split; [exact W'|]. split; [apply E'|].
  split; [split; [exact C'|intros x; rewrite (O' x); lia]|]. split; [exact Ow|]. split; [apply over_perm; exact O'|]. split; assumption.
Qed.

Theorem remove_base_m_balanced domain_root src base s : wf s ->
  match remove_base_m domain_root src base s with
  | (rc, d, s') =>
    wf s' /\ bad_frees s' = bad_frees s /\ owns d s' /\ m_owner d = false
    /\ Permutation (live_ids s') (muri_blocks d ++ live_ids s)
    /\ (rc = URI_SUCCESS \/ rc = URI_ERROR_REMOVEBASE_REL_BASE \/ rc = URI_ERROR_REMOVEBASE_REL_SOURCE
        \/ (rc = URI_ERROR_MALLOC /\ fails_between s s'))
    /\ (rc <> URI_SUCCESS -> muri_blocks d = [] /\ free_members d s' = (d, s'))
  end.
Proof.
  intros W. pose proof (remove_base_m_spec domain_root src base s W) as R. destruct (remove_base_m domain_root src base s) as [[rc d] s'].
  destruct R as (W' & E' & C' & Ow & O' & Rc & Cl). split; [exact W'|]. split; [apply E'|].
  split; [split; [exact C'|intros x; rewrite (O' x); lia]|]. split; [exact Ow|]. split; [apply over_perm; exact O'|]. split; assumption.
Qed.

(* the caller's clean-up of the destination; the blocks of the read-only arguments (of anything that was
   live) are still live, in the same number *)
Lemma cleanup_dest s d s' d'' s'' : wf s' -> owns d s' -> Permutation (live_ids s') (muri_blocks d ++ live_ids s) ->
  bad_frees s' = bad_frees s -> free_members d s' = (d'', s'') ->
  wf s'' /\ bad_frees s'' = bad_frees s /\ Permutation (live_ids s'') (live_ids s) /\ muri_blocks d'' = []
  /\ free_members d'' s'' = (d'', s'').
Proof.
  intros W' O P B EF. destruct (free_members_rel d s' d'' s'' W' O EF) as (Rl & Eb & C2 & Ow & Idem).
  pose proof (rel_perm_live _ _ _ Rl) as P2. drel Rl W2 E2 Q2 N2 H2.
  split; [exact W2|]. split; [rewrite (ext_bad _ _ E2); exact B|]. split; [|split; assumption].
  apply (Permutation_app_inv_l (muri_blocks d)). rewrite <- P2. exact P.
Qed.

Theorem add_base_m_cleanup compat rel base s rc d s' d'' s'' : wf s ->
  add_base_m compat rel base s = (rc, d, s') -> free_members d s' = (d'', s'') ->
  (rc = URI_SUCCESS \/ rc = URI_ERROR_ADDBASE_REL_BASE \/ rc = URI_ERROR_MALLOC)
  /\ (rc = URI_ERROR_MALLOC -> fails_between s s') /\ (ms_plan s = NoFault -> rc <> URI_ERROR_MALLOC)
  /\ incl (live_ids s) (live_ids s')
  /\ wf s'' /\ bad_frees s'' = bad_frees s /\ Permutation (live_ids s'') (live_ids s) /\ muri_blocks d'' = []
  /\ free_members d'' s'' = (d'', s'').
Proof.
  intros W E EF. pose proof (add_base_m_balanced compat rel base s W) as R. rewrite E in R.
  destruct R as (W' & B' & O' & Ow & P' & Rc & Cl).
  split; [destruct Rc as [?|[?|[? _]]]; auto|].
  split; [intros H; destruct Rc as [H1|[H1|[_ Fl]]]; [rewrite H1 in H; discriminate|rewrite H1 in H; discriminate|exact Fl]|].
  split; [intros P H; destruct Rc as [H1|[H1|[_ Fl]]]; [rewrite H1 in H; discriminate|rewrite H1 in H; discriminate|exact (no_fault_no_fail _ _ P Fl)]|].
  split; [intros x Hx; apply (Permutation_in x (Permutation_sym P')); apply in_or_app; right; exact Hx|].
  eapply cleanup_dest; eauto.
Qed.

Theorem remove_base_m_cleanup domain_root src base s rc d s' d'' s'' : wf s ->
  remove_base_m domain_root src base s = (rc, d, s') -> free_members d s' = (d'', s'') ->
  (rc = URI_SUCCESS \/ rc = URI_ERROR_REMOVEBASE_REL_BASE \/ rc = URI_ERROR_REMOVEBASE_REL_SOURCE \/ rc = URI_ERROR_MALLOC)
  /\ (rc = URI_ERROR_MALLOC -> fails_between s s') /\ (ms_plan s = NoFault -> rc <> URI_ERROR_MALLOC)
  /\ incl (live_ids s) (live_ids s')
  /\ wf s'' /\ bad_frees s'' = bad_frees s /\ Permutation (live_ids s'') (live_ids s) /\ muri_blocks d'' = []
  /\ free_members d'' s'' = (d'', s'').
Proof.
  intros W E EF. pose proof (remove_base_m_balanced domain_root src base s W) as R. rewrite E in R.
  destruct R as (W' & B' & O' & Ow & P' & Rc & Cl).
  split; [destruct Rc as [?|[?|[?|[? _]]]]; auto|].
  split; [intros H; destruct Rc as [H1|[H1|[H1|[_ Fl]]]]; [rewrite H1 in H; discriminate|rewrite H1 in H; discriminate|rewrite H1 in H; discriminate|exact Fl]|].
  split; [intros P H; destruct Rc as [H1|[H1|[H1|[_ Fl]]]]; [rewrite H1 in H; discriminate|rewrite H1 in H; discriminate|rewrite H1 in H; discriminate|exact (no_fault_no_fail _ _ P Fl)]|].
  split; [intros x Hx; apply (Permutation_in x (Permutation_sym P')); apply in_or_app; right; exact Hx|].
  eapply cleanup_dest; eauto.
Qed.

(* ---------------------------------------------------------------- uriParseSingleUriExMm *)
Theorem parse_m_cleanup t s0 m s1 m' s2 : wf s0 -> parse_m t s0 = (MOk m, s1) -> free_members m s1 = (m', s2) ->
  wf s2 /\ bad_frees s2 = bad_frees s0 /\ Permutation (live_ids s2) (live_ids s0) /\ muri_blocks m' = []
  /\ free_members m' s2 = (m', s2).
Proof.
  intros W E EF. pose proof (parse_m_no_residue t s0 W) as R. rewrite E in R. destruct R as (W1 & E1 & O1 & _ & P1).
  eapply cleanup_dest; eauto. apply E1.
Qed.

Theorem parse_m_oom t s0 : wf s0 ->
  match parse_m t s0 with
  | (MMalloc, s') => fails_between s0 s' /\ Permutation (live_ids s') (live_ids s0) /\ bad_frees s' = bad_frees s0
  | (_, s') => bad_frees s' = bad_frees s0
  end /\ (ms_plan s0 = NoFault -> fst (parse_m t s0) <> MMalloc).
Proof.
  intros W. split; [|apply parse_m_nofault; exact W].
  pose proof (parse_m_no_residue t s0 W) as R. destruct (parse_m t s0) as [[m|pos|] s'].
  - apply R.
  - apply R.
  - destruct R as (_ & E & P & Fl). split; [exact Fl|]. split; [exact P|apply E].
Qed.

(* ---------------------------------------------------------------- whole histories from the empty ledger *)
Lemma perm_nil_live s : Permutation (live_ids s) [] -> ms_live s = [].
Proof. intros P. apply Permutation_sym, Permutation_nil in P. unfold live_ids in P. destruct (ms_live s); [reflexivity|discriminate]. Qed.

(* parse, normalize (or make owner when the mask is 0 is not implied: mask 0 is a no-op), release: nothing is left,
   for every text, mask, character width and fault plan, whatever the calls returned *)
Theorem history_parse_normalize_free csize p t mask :
  match parse_m t (ms_init p) with
  | (MOk m, s1) =>
    let '(rc, m', s2) := normalize_m csize mask m s1 in
    let '(m'', s3) := free_members m' s2 in
    ms_live s3 = [] /\ bad_frees s3 = 0 /\ free_members m'' s3 = (m'', s3)
  | (_, s1) => ms_live s1 = [] /\ bad_frees s1 = 0
  end.
Proof.
  pose proof (parse_m_no_residue t (ms_init p) (wf_init p)) as R.
  destruct (parse_m t (ms_init p)) as [[m|pos|] s1] eqn:EP.
  - destruct R as (W1 & E1 & O1 & Ow & P1).
    destruct (normalize_m csize mask m s1) as [[rc m'] s2] eqn:EN. destruct (free_members m' s2) as [m'' s3] eqn:EF.
    destruct (normalize_m_cleanup csize mask m s1 rc m' s2 m'' s3 W1 O1 (fun _ => parse_m_sane _ _ _ _ EP) EN EF)
      as (_ & _ & _ & W3 & B3 & P3 & _ & Idem).
    split; [|split; [rewrite B3; apply E1|exact Idem]].
    apply perm_nil_live. cbn [ms_init live_ids ms_live map app] in P1. rewrite app_nil_r in P1.
    apply (Permutation_app_inv_l (muri_blocks m)). rewrite app_nil_r. rewrite <- P3. exact P1.
  - destruct R as (_ & E & P). split; [apply perm_nil_live; exact P|apply E].
  - destruct R as (_ & E & P & _). split; [apply perm_nil_live; exact P|apply E].
Qed.

Theorem history_parse_make_owner_free csize p t :
  match parse_m t (ms_init p) with
  | (MOk m, s1) =>
    let '(rc, m', s2) := make_owner_m csize m s1 in
    let '(m'', s3) := free_members m' s2 in
    ms_live s3 = [] /\ bad_frees s3 = 0 /\ free_members m'' s3 = (m'', s3)
  | (_, s1) => ms_live s1 = [] /\ bad_frees s1 = 0
  end.
Proof.
  pose proof (parse_m_no_residue t (ms_init p) (wf_init p)) as R.
  destruct (parse_m t (ms_init p)) as [[m|pos|] s1] eqn:EP.
  - destruct R as (W1 & E1 & O1 & Ow & P1).
    destruct (make_owner_m csize m s1) as [[rc m'] s2] eqn:EN. destruct (free_members m' s2) as [m'' s3] eqn:EF.
    destruct (make_owner_m_cleanup csize m s1 rc m' s2 m'' s3 W1 O1 EN EF) as (_ & _ & _ & W3 & B3 & P3 & _ & Idem).
    split; [|split; [rewrite B3; apply E1|exact Idem]].
    apply perm_nil_live. cbn [ms_init live_ids ms_live map app] in P1. rewrite app_nil_r in P1.
    apply (Permutation_app_inv_l (muri_blocks m)). rewrite app_nil_r. rewrite <- P3. exact P1.
  - destruct R as (_ & E & P). split; [apply perm_nil_live; exact P|apply E].
  - destruct R as (_ & E & P & _). split; [apply perm_nil_live; exact P|apply E].
Qed.

(* parse two texts, resolve one against the other, release all three objects *)
Theorem history_parse_add_base_free p compat tr tb :
  match parse_m tr (ms_init p) with
  | (MOk rel, s1) =>
    match parse_m tb s1 with
    | (MOk base, s2) =>
      let '(rc, d, s3) := add_base_m compat rel base s2 in
      let '(d', s4) := free_members d s3 in
      let '(rel', s5) := free_members rel s4 in
      let '(base', s6) := free_members base s5 in
      ms_live s6 = [] /\ bad_frees s6 = 0
    | (_, s2) => let '(rel', s3) := free_members rel s2 in ms_live s3 = [] /\ bad_frees s3 = 0
    end
  | (_, s1) => ms_live s1 = [] /\ bad_frees s1 = 0
  end.
Proof.
  pose proof (parse_m_no_residue tr (ms_init p) (wf_init p)) as R.
  destruct (parse_m tr (ms_init p)) as [[rel|pos|] s1] eqn:EP.
  2:{ destruct R as (_ & E & P). split; [apply perm_nil_live; exact P|apply E]. }
  2:{ destruct R as (_ & E & P & _). split; [apply perm_nil_live; exact P|apply E]. }
  destruct R as (W1 & E1 & O1 & _ & P1). cbn [ms_init live_ids ms_live map app] in P1. rewrite app_nil_r in P1.
  assert (B1 : bad_frees s1 = 0) by apply E1.
  (* releasing rel from any state whose live blocks are exactly those of rel *)
  assert (RelOnly : forall s, wf s -> Permutation (live_ids s) (muri_blocks rel) -> bad_frees s = 0 ->
            let '(rel', s') := free_members rel s in ms_live s' = [] /\ bad_frees s' = 0).
  { intros s W P B. destruct (free_members rel s) as [rel' s'] eqn:EF.
    assert (O : owns rel s) by (split; [apply O1|intros x; apply cnt_Permutation with (x := x) in P; unfold L; lia]).
    destruct (free_members_releases rel s rel' s' W O EF) as (_ & P' & B' & _).
    split; [|congruence]. apply perm_nil_live. apply (Permutation_app_inv_l (muri_blocks rel)). rewrite app_nil_r, <- P'. exact P. }
  pose proof (parse_m_no_residue tb s1 W1) as R2.
  destruct (parse_m tb s1) as [[base|pos|] s2] eqn:EP2.
  2:{ destruct R2 as (W2 & E2 & P2). apply RelOnly; [exact W2|rewrite P2; exact P1|rewrite (ext_bad _ _ E2); exact B1]. }
  2:{ destruct R2 as (W2 & E2 & P2 & _). apply RelOnly; [exact W2|rewrite P2; exact P1|rewrite (ext_bad _ _ E2); exact B1]. }
  destruct R2 as (W2 & E2 & O2 & _ & P2).
  destruct (add_base_m compat rel base s2) as [[rc d] s3] eqn:EA. destruct (free_members d s3) as [d' s4] eqn:EF.
  destruct (add_base_m_cleanup compat rel base s2 rc d s3 d' s4 W2 EA EF) as (_ & _ & _ & _ & W4 & B4 & P4 & _).
  assert (P4' : Permutation (live_ids s4) (muri_blocks base ++ muri_blocks rel)) by (rewrite P4, P2; apply Permutation_app_head; exact P1).
  destruct (free_members rel s4) as [rel' s5] eqn:EF5.
  assert (Orel : owns rel s4).
  { split; [apply O1|]. intros x. apply cnt_Permutation with (x := x) in P4'. unfold L. rewrite P4', cnt_app. lia. }
  destruct (free_members_releases rel s4 rel' s5 W4 Orel EF5) as (W5 & P5 & B5 & _).
  assert (P5' : Permutation (live_ids s5) (muri_blocks base)).
  { apply (Permutation_app_inv_l (muri_blocks rel)). rewrite <- P5, P4'. apply Permutation_app_comm. }
  destruct (free_members base s5) as [base' s6] eqn:EF6.
  assert (Obase : owns base s5).
  { split; [apply O2|]. intros x. apply cnt_Permutation with (x := x) in P5'. unfold L. lia. }
  destruct (free_members_releases base s5 base' s6 W5 Obase EF6) as (W6 & P6 & B6 & _).
  split.
  - apply perm_nil_live. apply (Permutation_app_inv_l (muri_blocks base)). rewrite app_nil_r, <- P6. exact P5'.
  - rewrite B6, B5, B4, (ext_bad _ _ E2). exact B1.
Qed.

(* ---------------------------------------------------------------- the hypothesis [sane] cannot be dropped *)
(* a hand-built borrowed object whose scheme (resp. IPvFuture text) is present but empty: uriPreventLeakage
   releases scheme.first (resp. ipFuture.first) although it was never handed out *)
Definition w_empty_scheme : muri := set_m_userInfo (mt_borrowed [65%N]) (set_m_scheme (mt_borrowed []) muri_empty).
Definition w_empty_future : muri :=
  set_m_userInfo (mt_borrowed [65%N]) (set_m_hostText (mt_borrowed []) (set_m_ipFuture (mt_borrowed []) muri_empty)).

Theorem normalize_m_insane_refuted :
  exists m mask p, owns m (ms_init p) /\ m_owner m = false /\ ~ sane m
    /\ let '(rc, m', s') := normalize_m 1 mask m (ms_init p) in rc = URI_ERROR_MALLOC /\ bad_frees s' = 1.
Proof.
  exists w_empty_scheme, 3%N, (FailOnce 1). split; [|split; [reflexivity|split]].
  - split.
    + unfold consistent. apply inv_false_intro; try reflexivity. constructor.
    + intros x. cbn. lia.
  - intros [H _]. apply H. reflexivity.
  - vm_compute. split; reflexivity.
Qed.

Theorem normalize_m_insane_future_refuted :
  exists m mask p, owns m (ms_init p) /\ m_owner m = false /\ ~ sane m /\ t_val (m_scheme m) <> Some []
    /\ let '(rc, m', s') := normalize_m 1 mask m (ms_init p) in rc = URI_ERROR_MALLOC /\ bad_frees s' = 1.
Proof.
  exists w_empty_future, 6%N, (FailOnce 1). split; [|split; [reflexivity|split; [|split]]].
  - split.
    + unfold consistent. apply inv_false_intro; try reflexivity. constructor.
    + intros x. cbn. lia.
  - intros [_ H]. apply H. reflexivity.
  - discriminate.
  - vm_compute. split; reflexivity.
Qed.

Lemma ext_meaning s s' : ext s s' ->
  bad_frees s' = bad_frees s /\ ms_plan s' = ms_plan s /\ ms_requests s <= ms_requests s' /\ ms_next s <= ms_next s'.
Proof. intros [a b c d]. auto. Qed.

Lemma fails_between_meaning s s' : fails_between s s' <->
  exists n, ms_requests s < n <= ms_requests s' /\ plan_fails (ms_plan s) n = true.
Proof. reflexivity. Qed.

Lemma wf_meaning s : wf s <-> (NoDup (live_ids s) /\ forall id, In id (live_ids s) -> id < ms_next s).
Proof.
  unfold wf. split.
  - intros [H1 H2]. split; [apply cnt_NoDup; exact H1|]. intros id Hi. apply cnt_In in Hi.
    destruct (Nat.lt_ge_cases id (ms_next s)) as [?|Hge]; [assumption|]. specialize (H2 id Hge). unfold L in H2. lia.
  - intros [H1 H2]. split; [apply cnt_NoDup; exact H1|]. intros x Hx. unfold L.
    destruct (Nat.eq_dec (cnt (live_ids s) x) 0) as [?|Hn]; [assumption|]. exfalso.
    assert (In x (live_ids s)) as Hi by (apply cnt_In; lia). specialize (H2 x Hi). lia.
Qed.

Lemma owns_meaning m s : wf s -> owns m s <-> (consistent m /\ NoDup (muri_blocks m) /\ incl (muri_blocks m) (live_ids s)).
Proof. intros W. unfold owns. rewrite (holds_incl m s W). tauto. Qed.

(* the "no residue" clause in the form C03 uses: after a syntax error or out-of-memory as many blocks are live
   as before the call (indeed the same ones: parse_m_no_residue), and no release hit a block that was not live *)
Corollary parse_m_no_residue_count t s0 : wf s0 ->
  match parse_m t s0 with
  | (MOk m, s') => live_count s' = length (muri_blocks m) + live_count s0
  | (_, s') => live_count s' = live_count s0
  end /\ bad_frees (snd (parse_m t s0)) = bad_frees s0.
Proof.
  intros W. pose proof (parse_m_no_residue t s0 W) as R. unfold live_count.
  assert (Len : forall s, length (ms_live s) = length (live_ids s)) by (intros; unfold live_ids; rewrite map_length; reflexivity).
  destruct (parse_m t s0) as [[m|pos|] s']; cbn [snd].
  - destruct R as (_ & E & _ & _ & P). split; [|apply E]. rewrite !Len, (Permutation_length P), app_length. reflexivity.
  - destruct R as (_ & E & P). split; [|apply E]. rewrite !Len. apply (Permutation_length P).
  - destruct R as (_ & E & P & _). split; [|apply E]. rewrite !Len. apply (Permutation_length P).
Qed.
