(* C06 for parsed texts: the object-level resolution theorems of Proofs/ResolveProofs.v, with their
   well-formedness hypotheses discharged for parser output (Proofs/ParseWf.v) and the five components of
   the objects replaced by the five components of the texts parsed (Proofs/NormalizeText.v
   parsed_five_of_text).

     1. resolve_parsed_five, resolve_parsed_corner, resolve_parsed_rel_base
     2. host_as_written, resolve_text_written (every host kind, objects), resolve_parsed_text_rendered,
        resolve_parsed_text_no_ip6
     3. canon_host through add_base; resolve_parsed_text_canon (every host kind, IPv6 literals through
        Spec.Recompose.canon_ip6)
     4. the invariants of the result; the hypotheses cannot be dropped *)
From Coq Require Import List NArith Bool.
From UP Require Import Base.Chars Model.Uri Model.Common Model.Resolve Model.Recompose Model.Parse Spec.Resolve
  Spec.NormalWf Proofs.DotSegments Proofs.ResolveProofs.
From UP Require Spec.Recompose Proofs.ParseWf Proofs.ParseRecompose Proofs.ParseAssemble Proofs.NormalizeText
  Proofs.Ip6Proofs.
Import ListNotations.
Local Open Scope N_scope.

Module NT := NormalizeText.
Module PA := ParseAssemble.

(* ================================================================ 1. the five components *)
Lemma parsed_wf s u : parse s = POk u -> wf u = true.
Proof. intros H. exact (proj1 (ParseWf.parse_wf_resolution s u H)). Qed.

Lemma parsed_one_kind s u : parse s = POk u -> one_kind u = true.
Proof. intros H. exact (proj2 (ParseWf.parse_wf_resolution s u H)). Qed.

(* the scheme of a parsed object is the scheme RFC 3986 appendix B finds in the text *)
Lemma parsed_scheme_text s u : parse s = POk u -> scheme u = f_scheme (five_of_text s).
Proof. intros H. rewrite <- (NT.parsed_five_of_text s u H). reflexivity. Qed.

Theorem resolve_parsed_five compat b r B R : parse b = POk B -> parse r = POk R -> scheme B <> None ->
  unspecified_corner (negb compat) (five_of_text b) (five_of_text r) = false ->
  fst (add_base compat R B) = URI_SUCCESS
  /\ five_of_uri (snd (add_base compat R B))
     = guard_slashes (transform (negb compat) (five_of_text b) (five_of_text r)).
Proof.
  intros HB HR Hs Hc.
  rewrite <- (NT.parsed_five_of_text b B HB), <- (NT.parsed_five_of_text r R HR) in Hc |- *.
  apply resolve_five; [exact (parsed_wf r R HR)|exact (parsed_wf b B HB)|exact Hs|exact Hc].
Qed.

(* the same with the hypothesis on the base read off its text *)
Theorem resolve_parsed_five_text compat b r B R : parse b = POk B -> parse r = POk R ->
  f_scheme (five_of_text b) <> None ->
  unspecified_corner (negb compat) (five_of_text b) (five_of_text r) = false ->
  fst (add_base compat R B) = URI_SUCCESS
  /\ five_of_uri (snd (add_base compat R B))
     = guard_slashes (transform (negb compat) (five_of_text b) (five_of_text r)).
Proof.
  intros HB HR Hs. apply resolve_parsed_five; try assumption. rewrite (parsed_scheme_text b B HB). exact Hs.
Qed.

(* the corner of the specification, evaluated on the texts, is the object-level corner *)
Theorem resolve_parsed_corner compat b r B R : parse b = POk B -> parse r = POk R -> scheme B <> None ->
  unspecified_corner (negb compat) (five_of_text b) (five_of_text r) = corner_obj compat R B.
Proof.
  intros HB HR Hs.
  rewrite <- (NT.parsed_five_of_text b B HB), <- (NT.parsed_five_of_text r R HR).
  exact (corner_obj_spec compat R B (parsed_wf r R HR) (parsed_wf b B HB) Hs).
Qed.

(* a text without scheme as base *)
Theorem resolve_parsed_rel_base compat b r B R : parse b = POk B -> parse r = POk R ->
  f_scheme (five_of_text b) = None ->
  add_base compat R B = (URI_ERROR_ADDBASE_REL_BASE, empty_uri).
Proof.
  intros HB _ Hs. apply add_base_rel_base. rewrite (parsed_scheme_text b B HB). exact Hs.
Qed.

(* ================================================================ 2. the text, hosts written as held *)
(* what uriToString copies for the host is the host text of the object (in brackets for a literal):
   a registered name; an IPv4 host whose octets print as its text; an IPvFuture literal whose ipFuture
   range is its host text; an IPv6 literal whose host text is the eight-group lower-case form *)
Definition host_as_written (u : uri) : bool :=
  text_eqb (concat (NT.host_pieces u)) (host_written u).

Lemma host_as_written_eq u : host_as_written u = true -> concat (NT.host_pieces u) = host_written u.
Proof. unfold host_as_written. apply text_eqb_true. Qed.

Lemma text_eqb_refl t : text_eqb t t = true.
Proof. induction t as [|c t IH]; [reflexivity|]. cbn [text_eqb]. rewrite N.eqb_refl. exact IH. Qed.

Lemma host_as_written_auth a b : auth_fields a = auth_fields b -> host_as_written a = host_as_written b.
Proof.
  unfold auth_fields, host_as_written, NT.host_pieces, host_written. intros H.
  injection H as _ -> -> -> -> _. reflexivity.
Qed.

Lemma no_ip_as_written u : no_ip u = true -> host_as_written u = true.
Proof.
  unfold no_ip, host_as_written, NT.host_pieces, host_written.
  destruct (ip4 u); [discriminate|]. destruct (ip6 u); [discriminate|]. destruct (ipFuture u); [discriminate|].
  intros _. destruct (hostText u); cbn [concat]; rewrite ?app_nil_r; apply text_eqb_refl.
Qed.

Lemma rendered_as_written u : NT.auth_wfb u = true -> NT.ip4_rendered u = true -> NT.ip6_rendered u = true ->
  host_as_written u = true.
Proof.
  unfold NT.auth_wfb, NT.ip4_rendered, NT.ip6_rendered, host_as_written, NT.host_pieces, host_written.
  intros Ha H4 H6. destruct (hostText u) as [h|] eqn:Eh.
  2:{ unfold is_host_set in Ha. rewrite Eh in Ha.
      destruct (ip4 u), (ip6 u), (ipFuture u); try discriminate Ha. reflexivity. }
  apply andb_prop in Ha. destruct Ha as [_ Hk].
  destruct (ip4 u) as [o|], (ip6 u) as [b|], (ipFuture u) as [f|]; try discriminate Hk.
  - exact H4.
  - apply text_eqb_true in H6. rewrite !concat_app. cbn [concat app]. rewrite H6, ?app_nil_r. apply text_eqb_refl.
  - apply andb_prop in Hk. destruct Hk as [Hk _]. apply andb_prop in Hk. destruct Hk as [_ Ef].
    apply text_eqb_true in Ef. subst f. cbn [concat app]. rewrite ?app_nil_r. apply text_eqb_refl.
  - cbn [concat]. rewrite app_nil_r. apply text_eqb_refl.
Qed.

(* the authority of the result is the reference's or the base's, so it is written as held when theirs are *)
Lemma resolve_as_written compat rel base : one_kind rel = true -> one_kind base = true -> scheme base <> None ->
  host_as_written rel = true -> host_as_written base = true ->
  host_as_written (snd (add_base compat rel base)) = true.
Proof.
  intros Kr Kb Hs Hr Hb.
  rewrite (host_as_written_auth _ _ (resolve_authority compat rel base Kr Kb Hs)).
  destruct (keeps_scheme compat (scheme base) rel || is_host_set rel); assumption.
Qed.

(* C06_text without [no_ip]: every host kind, for hosts written as held *)
Theorem resolve_text_written compat rel base :
  wf rel = true -> wf base = true -> scheme base <> None -> corner_obj compat rel base = false ->
  one_kind rel = true -> one_kind base = true ->
  host_as_written rel = true -> host_as_written base = true ->
  to_text (snd (add_base compat rel base))
  = recompose (guard_slashes (transform (negb compat) (five_of_uri base) (five_of_uri rel))).
Proof.
  intros Hwr Hwb Hs Hc Kr Kb Hr Hb.
  destruct (resolve_five_obj compat rel base Hwr Hwb Hs Hc) as [_ E]. rewrite <- E.
  apply NT.to_text_recompose_host. apply host_as_written_eq.
  exact (resolve_as_written compat rel base Kr Kb Hs Hr Hb).
Qed.

Lemma parsed_as_written s u : parse s = POk u -> NT.ip6_rendered u = true -> host_as_written u = true.
Proof.
  intros H H6. destruct (NT.parsed_meets_hyps s u H) as [Hh H4].
  unfold NT.text_hyps in Hh. apply andb_prop in Hh. destruct Hh as [_ Ha].
  exact (rendered_as_written u Ha H4 H6).
Qed.

(* parse, parse, resolve, write: the text is the recomposition of the RFC's target of the two texts, for
   IPv6 literals (if any) in the form uriToString writes *)
Theorem resolve_parsed_text_rendered compat b r B R : parse b = POk B -> parse r = POk R -> scheme B <> None ->
  unspecified_corner (negb compat) (five_of_text b) (five_of_text r) = false ->
  NT.ip6_rendered B = true -> NT.ip6_rendered R = true ->
  to_text (snd (add_base compat R B))
  = recompose (guard_slashes (transform (negb compat) (five_of_text b) (five_of_text r))).
Proof.
  intros HB HR Hs Hc B6 R6.
  rewrite (resolve_parsed_corner compat b r B R HB HR Hs) in Hc.
  rewrite <- (NT.parsed_five_of_text b B HB), <- (NT.parsed_five_of_text r R HR).
  apply resolve_text_written; try assumption.
  - exact (parsed_wf r R HR).
  - exact (parsed_wf b B HB).
  - exact (parsed_one_kind r R HR).
  - exact (parsed_one_kind b B HB).
  - exact (parsed_as_written r R HR R6).
  - exact (parsed_as_written b B HB B6).
Qed.

Theorem resolve_parsed_text_no_ip6 compat b r B R : parse b = POk B -> parse r = POk R -> scheme B <> None ->
  unspecified_corner (negb compat) (five_of_text b) (five_of_text r) = false ->
  ip6 B = None -> ip6 R = None ->
  to_text (snd (add_base compat R B))
  = recompose (guard_slashes (transform (negb compat) (five_of_text b) (five_of_text r))).
Proof.
  intros HB HR Hs Hc B6 R6.
  apply resolve_parsed_text_rendered; try assumption; apply NT.ip6_none_rendered; assumption.
Qed.

(* ================================================================ 3. IPv6 literals as uriToString writes them *)
(* [PA.canon_host u]: the object with the text of an IPv6 host in the eight-group form; it is what the
   text [canon_ip6 s] parses to (PA.parse_reparse_full, PA.parse_to_text_full) *)
Lemma ch_scheme u : scheme (PA.canon_host u) = scheme u.
Proof. destruct u as [sc ui ht i4 i6 ifu po ps qu fr ab ow]; unfold PA.canon_host; cbn [ip6]; destruct i6; reflexivity. Qed.
Lemma ch_pathSegs u : pathSegs (PA.canon_host u) = pathSegs u.
Proof. destruct u as [sc ui ht i4 i6 ifu po ps qu fr ab ow]; unfold PA.canon_host; cbn [ip6]; destruct i6; reflexivity. Qed.
Lemma ch_absolutePath u : absolutePath (PA.canon_host u) = absolutePath u.
Proof. destruct u as [sc ui ht i4 i6 ifu po ps qu fr ab ow]; unfold PA.canon_host; cbn [ip6]; destruct i6; reflexivity. Qed.
Lemma ch_query u : query (PA.canon_host u) = query u.
Proof. destruct u as [sc ui ht i4 i6 ifu po ps qu fr ab ow]; unfold PA.canon_host; cbn [ip6]; destruct i6; reflexivity. Qed.
Lemma ch_fragment u : fragment (PA.canon_host u) = fragment u.
Proof. destruct u as [sc ui ht i4 i6 ifu po ps qu fr ab ow]; unfold PA.canon_host; cbn [ip6]; destruct i6; reflexivity. Qed.
Lemma ch_is_host_set u : is_host_set (PA.canon_host u) = is_host_set u.
Proof.
  destruct u as [sc ui ht i4 i6 ifu po ps qu fr ab ow]. unfold PA.canon_host, is_host_set. cbn [ip6].
  destruct i6; [|reflexivity]. cbn [set_hostText hostText ip4 ip6 ipFuture]. destruct ht, i4; reflexivity.
Qed.

Ltac ch_record u :=
  destruct u as [sc ui ht i4 i6 ifu po ps qu fr ab ow]; unfold PA.canon_host;
  cbn [scheme userInfo hostText ip4 ip6 ipFuture portText pathSegs query fragment absolutePath owner
       set_scheme set_userInfo set_hostText set_ip4 set_ip6 set_ipFuture set_portText set_pathSegs
       set_query set_fragment set_absolutePath]; destruct i6; reflexivity.

Lemma ch_set_scheme v u : set_scheme v (PA.canon_host u) = PA.canon_host (set_scheme v u).
Proof. ch_record u. Qed.
Lemma ch_set_query v u : set_query v (PA.canon_host u) = PA.canon_host (set_query v u).
Proof. ch_record u. Qed.
Lemma ch_set_fragment v u : set_fragment v (PA.canon_host u) = PA.canon_host (set_fragment v u).
Proof. ch_record u. Qed.
Lemma ch_set_pathSegs v u : set_pathSegs v (PA.canon_host u) = PA.canon_host (set_pathSegs v u).
Proof. ch_record u. Qed.
Lemma ch_set_absolutePath v u : set_absolutePath v (PA.canon_host u) = PA.canon_host (set_absolutePath v u).
Proof. ch_record u. Qed.

Lemma ch_copy_path_l d src : copy_path (PA.canon_host d) src = PA.canon_host (copy_path d src).
Proof. unfold copy_path. rewrite ch_set_pathSegs, ch_set_absolutePath. reflexivity. Qed.
Lemma ch_copy_path_r d src : copy_path d (PA.canon_host src) = copy_path d src.
Proof. unfold copy_path. rewrite ch_pathSegs, ch_absolutePath. reflexivity. Qed.

Lemma ch_rds u : remove_dot_segments_absolute (PA.canon_host u) = PA.canon_host (remove_dot_segments_absolute u).
Proof. rewrite !rds_nf, ch_is_host_set, ch_absolutePath, ch_pathSegs. apply ch_set_pathSegs. Qed.
Lemma ch_fixamb u : fix_ambiguity (PA.canon_host u) = PA.canon_host (fix_ambiguity u).
Proof. rewrite !fixamb_nf, ch_is_host_set, ch_absolutePath, ch_pathSegs. apply ch_set_pathSegs. Qed.
Lemma ch_fixtrail u : fix_empty_trail_segment (PA.canon_host u) = PA.canon_host (fix_empty_trail_segment u).
Proof. rewrite !fixtrail_nf, ch_is_host_set, ch_pathSegs. apply ch_set_pathSegs. Qed.
Lemma ch_merge_l w rel : merge_path (PA.canon_host w) rel = PA.canon_host (merge_path w rel).
Proof. rewrite !merge_nf, ch_pathSegs. apply ch_set_pathSegs. Qed.
Lemma ch_merge_r w rel : merge_path w (PA.canon_host rel) = merge_path w rel.
Proof. unfold merge_path. rewrite ch_pathSegs. reflexivity. Qed.
Lemma ch_resabs u : resolve_abs_flag (PA.canon_host u) = PA.canon_host (resolve_abs_flag u).
Proof.
  rewrite !resabs_nf, ch_is_host_set, ch_absolutePath, ch_pathSegs.
  destruct (is_host_set u && absolutePath u); [|reflexivity].
  rewrite ch_set_pathSegs. apply ch_set_absolutePath.
Qed.

(* uriCopyAuthority keeps one host kind: the IPv6 bytes survive it when there is no IPv4 value *)
Lemma ch_copy_authority d src : one_kind src = true ->
  copy_authority d (PA.canon_host src) = PA.canon_host (copy_authority d src).
Proof.
  destruct src as [sc ui ht i4 i6 ifu po ps qu fr ab ow], d as [dsc dui dht di4 di6 difu dpo dps dqu dfr dab dow].
  unfold one_kind, PA.canon_host, copy_authority.
  cbn [scheme userInfo hostText ip4 ip6 ipFuture portText pathSegs query fragment absolutePath owner
       set_scheme set_userInfo set_hostText set_ip4 set_ip6 set_ipFuture set_portText set_pathSegs
       set_query set_fragment set_absolutePath].
  destruct i4, i6, ifu; intros H; try discriminate H; reflexivity.
Qed.

Lemma ch_empty : PA.canon_host empty_uri = empty_uri.
Proof. reflexivity. Qed.

#[local] Hint Rewrite ch_scheme ch_pathSegs ch_absolutePath ch_query ch_fragment ch_is_host_set
  ch_set_scheme ch_set_query ch_set_fragment ch_copy_path_l ch_copy_path_r ch_rds ch_fixamb ch_fixtrail
  ch_merge_l ch_merge_r ch_resabs : ch_db.

(* resolution does not look at the host text: it commutes with the rewriting of IPv6 host texts *)
Theorem add_base_canon_host compat rel base : one_kind rel = true -> one_kind base = true ->
  add_base compat (PA.canon_host rel) (PA.canon_host base)
  = (fst (add_base compat rel base), PA.canon_host (snd (add_base compat rel base))).
Proof.
  intros Kr Kb. unfold add_base, add_base_impl. rewrite !ch_scheme.
  destruct (scheme base) as [sb|]; [|reflexivity]. cbv zeta. cbn [fst snd]. f_equal.
  rewrite !ch_is_host_set, !ch_pathSegs, !ch_absolutePath, !ch_query, !ch_fragment.
  destruct (is_some (scheme rel) && negb (compat && is_some (scheme rel) && range_eqb (Some sb) (scheme rel))).
  - rewrite (ch_copy_authority _ rel Kr). autorewrite with ch_db. reflexivity.
  - destruct (is_host_set rel).
    + rewrite (ch_copy_authority _ rel Kr). autorewrite with ch_db. reflexivity.
    + rewrite (ch_copy_authority _ base Kb).
      destruct (pathSegs rel), (absolutePath rel); autorewrite with ch_db; reflexivity.
Qed.

(* uriToString prints an IPv6 host from its bytes *)
Lemma to_text_canon_host u : to_text (PA.canon_host u) = to_text u.
Proof.
  unfold PA.canon_host. destruct (ip6 u) eqn:E6; [|reflexivity].
  apply NT.to_text_set_hostText_ip6. rewrite E6. discriminate.
Qed.

(* the canonical text parses to the canonical object, whose IPv6 host text is what uriToString writes *)
Lemma parse_canon s u : parse s = POk u -> parse (Spec.Recompose.canon_ip6 s) = POk (PA.canon_host u).
Proof. intros H. rewrite <- (PA.parse_to_text_full s u H). exact (PA.parse_reparse_full s u H). Qed.

Lemma canon_host_rendered s u : parse s = POk u -> NT.ip6_rendered (PA.canon_host u) = true.
Proof.
  intros H. unfold NT.ip6_rendered, PA.canon_host. destruct (ip6 u) as [b|] eqn:E6; [|rewrite E6; reflexivity].
  destruct (ParseWf.parse_wf s u H) as (_ & (_ & Hf) & _ & _).
  destruct (hostText u) as [h|] eqn:Eh; [|destruct Hf as (_ & Hf & _); rewrite Hf in E6; discriminate E6].
  destruct Hf as [_ Hf]. rewrite E6 in Hf. destruct (ipFuture u) as [f|]; [contradiction|].
  destruct Hf as (_ & Eb & _).
  assert (Mh : Regex.matches Rfc3986.IPv6address h)
    by (apply (PA.parsed_ip6_matches s u h H Eh); rewrite E6; discriminate).
  destruct (Ip6Proofs.ip6_bytes_value h Mh) as [_ Hl16]. pose proof (Ip6Proofs.ip6_bytes_octets h Mh) as Ho.
  rewrite <- Eb in Hl16, Ho.
  destruct u as [sc ui ht i4 i6 fu po ps qu fr ab ow]. cbn [ip6 hostText set_hostText] in *. rewrite E6.
  rewrite (Ip6Proofs.ip6_render b Hl16 Ho). apply text_eqb_refl.
Qed.

Lemma corner_obj_canon_host compat rel base :
  corner_obj compat (PA.canon_host rel) (PA.canon_host base) = corner_obj compat rel base.
Proof.
  unfold corner_obj, keeps_scheme.
  rewrite !ch_is_host_set, !ch_absolutePath, !ch_scheme, !ch_pathSegs. reflexivity.
Qed.

(* the corner does not depend on the spelling of an IPv6 literal *)
Theorem corner_canon_ip6 compat b r B R : parse b = POk B -> parse r = POk R -> scheme B <> None ->
  unspecified_corner (negb compat) (five_of_text (Spec.Recompose.canon_ip6 b))
                     (five_of_text (Spec.Recompose.canon_ip6 r))
  = unspecified_corner (negb compat) (five_of_text b) (five_of_text r).
Proof.
  intros HB HR Hs.
  rewrite (resolve_parsed_corner compat b r B R HB HR Hs).
  rewrite (resolve_parsed_corner compat _ _ _ _ (parse_canon b B HB) (parse_canon r R HR))
    by (rewrite ch_scheme; exact Hs).
  apply corner_obj_canon_host.
Qed.

(* THE TEXT, every host kind: parse, parse, resolve, write gives the recomposition of the RFC's target of
   the two texts with their IPv6 literals (if any) in the form uriToString writes *)
Theorem resolve_parsed_text_canon compat b r B R : parse b = POk B -> parse r = POk R -> scheme B <> None ->
  unspecified_corner (negb compat) (five_of_text b) (five_of_text r) = false ->
  to_text (snd (add_base compat R B))
  = recompose (guard_slashes (transform (negb compat) (five_of_text (Spec.Recompose.canon_ip6 b))
                                        (five_of_text (Spec.Recompose.canon_ip6 r)))).
Proof.
  intros HB HR Hs Hc.
  rewrite <- (to_text_canon_host (snd (add_base compat R B))).
  assert (PA.canon_host (snd (add_base compat R B)) = snd (add_base compat (PA.canon_host R) (PA.canon_host B))) as E
    by (rewrite (add_base_canon_host compat R B (parsed_one_kind r R HR) (parsed_one_kind b B HB)); reflexivity).
  rewrite E.
  apply resolve_parsed_text_rendered.
  - exact (parse_canon b B HB).
  - exact (parse_canon r R HR).
  - rewrite ch_scheme. exact Hs.
  - rewrite (corner_canon_ip6 compat b r B R HB HR Hs). exact Hc.
  - exact (canon_host_rendered b B HB).
  - exact (canon_host_rendered r R HR).
Qed.

(* ================================================================ 4. the invariants of the result *)
(* what the theorems about parsed texts use of their arguments, and the result of a resolution has again:
   well formed for resolution (outside the corner), one host kind, the host written as held *)
Definition auth_of (compat : bool) (rel base : uri) : uri :=
  if keeps_scheme compat (scheme base) rel || is_host_set rel then rel else base.

Theorem resolve_parsed_authority compat b r B R : parse b = POk B -> parse r = POk R -> scheme B <> None ->
  auth_fields (snd (add_base compat R B)) = auth_fields (auth_of compat R B)
  /\ auth_text (snd (add_base compat R B)) = auth_text (auth_of compat R B)
  /\ one_kind (snd (add_base compat R B)) = true
  /\ NT.auth_wfb (snd (add_base compat R B)) = true
  /\ NT.ip4_rendered (snd (add_base compat R B)) = true
  /\ NT.ip6_rendered (snd (add_base compat R B)) = NT.ip6_rendered (auth_of compat R B).
Proof.
  intros HB HR Hs.
  pose proof (resolve_authority compat R B (parsed_one_kind r R HR) (parsed_one_kind b B HB) Hs) as E.
  fold (auth_of compat R B) in E.
  assert (parse (if keeps_scheme compat (scheme B) R || is_host_set R then r else b) = POk (auth_of compat R B)) as HX
    by (unfold auth_of; destruct (keeps_scheme compat (scheme B) R || is_host_set R); assumption).
  set (x := if keeps_scheme compat (scheme B) R || is_host_set R then r else b) in HX.
  set (X := auth_of compat R B) in *. set (d := snd (add_base compat R B)) in *.
  destruct (NT.parsed_meets_hyps x X HX) as [Hh H4].
  unfold NT.text_hyps in Hh. apply andb_prop in Hh. destruct Hh as [_ Ha].
  pose proof (parsed_one_kind x X HX) as K.
  assert (is_host_set d = is_host_set X) as Eh
    by (revert E; unfold auth_fields, is_host_set; intros E; injection E as _ -> -> -> -> _; reflexivity).
  split; [exact E|]. unfold auth_fields in E. injection E as E1 E2 E3 E4 E5 E6.
  repeat split.
  - unfold auth_text, host_written. rewrite Eh, E1, E2, E3, E4, E5, E6. reflexivity.
  - unfold one_kind in K |- *. rewrite E3, E4, E5. exact K.
  - unfold NT.auth_wfb in Ha |- *. rewrite Eh, E1, E2, E3, E4, E5, E6. exact Ha.
  - unfold NT.ip4_rendered in H4 |- *. rewrite E2, E3. exact H4.
  - unfold NT.ip6_rendered. rewrite E2, E4. reflexivity.
Qed.

(* ================================================================ the hypotheses cannot be dropped *)
(* an IPv6 literal that is not in uriToString's form: base "s://[::A]/x", reference "y": the text written
   is "s://[0000:0000:0000:0000:0000:0000:0000:000a]/y", the RFC's target of the texts keeps "[::A]" *)
Lemma resolve_text_ip6_as_written_refuted :
  exists b r B R, parse b = POk B /\ parse r = POk R /\ scheme B <> None
    /\ unspecified_corner true (five_of_text b) (five_of_text r) = false
    /\ NT.ip6_rendered B = false
    /\ to_text (snd (add_base false R B))
       <> recompose (guard_slashes (transform true (five_of_text b) (five_of_text r))).
Proof.
  exists [115; 58; 47; 47; 91; 58; 58; 65; 93; 47; 120], [121]. do 2 eexists.
  split; [vm_compute; reflexivity|]. split; [vm_compute; reflexivity|].
  split; [discriminate|]. split; [reflexivity|]. split; [reflexivity|]. vm_compute. discriminate.
Qed.

(* the corner: base "s:a", reference ".///c" (C06_corner_necessary), on the texts *)
Lemma resolve_parsed_corner_refuted :
  exists b r B R, parse b = POk B /\ parse r = POk R /\ scheme B <> None
    /\ unspecified_corner true (five_of_text b) (five_of_text r) = true
    /\ five_of_uri (snd (add_base false R B))
       <> guard_slashes (transform true (five_of_text b) (five_of_text r)).
Proof.
  exists [115; 58; 97], [46; 47; 47; 47; 99]. do 2 eexists.
  split; [vm_compute; reflexivity|]. split; [vm_compute; reflexivity|].
  split; [discriminate|]. split; [reflexivity|]. vm_compute. discriminate.
Qed.
