(* C12, second part: liveness, distinctness of all blocks, two objects in one ledger, the resolution
   pipeline, whole histories.

   Proofs/OwnershipProofs.v proves the value side of C12 (erasure, ownership, fresh text blocks) for the plan
   NoFault; the ledger development (Proofs/LedgerProofs.v ... LedgerHistory.v) proves for every plan what is
   live and who holds it.  This file joins the two:

   Part A  vocabulary bridges: [wf] implies [ledger_wf]; the text blocks are blocks of the object
   Part B  counting lemmas about two objects held by one ledger
   Part C  make-owner / normalisation: the result holds all its blocks (text, nodes, addresses), pairwise
           distinct and live; nothing outside the object moved
   Part D  two objects: an owned result and any other object of the ledger; releasing the other one
   Part E  the pipelines parse-twice, add-base + make-owner, remove-base + make-owner
   Part F  whole histories under NoFault: the store invariant
   Part G  make-owner of a borrowed object that records blocks (the hypothesis [text_blocks m = []])
   Part H  a successful make-owner releases nothing
   Part I  normalisation of a borrowed object that records blocks: the run agrees with the run on the
           stripped object (a simulation through every stage, the done-mask says which components are equal) *)
From Coq Require Import List NArith Bool Lia Arith Permutation.
From UP Require Import Base.Chars Model.Uri Model.Parse Model.Common Model.Normalize Model.Resolve Model.Shorten
  Model.Recompose Model.Mem Model.ParseM Model.OpsM
  Proofs.OwnershipProofs
  Proofs.LedgerProofs Proofs.LedgerOps Proofs.LedgerBase Proofs.LedgerNormalize Proofs.LedgerTheorems
  Proofs.LedgerSane Proofs.LedgerHistory.
Import ListNotations.

(* ================================================================ Part A: bridges *)
Lemma wf_ledger_wf s : wf s -> ledger_wf s.
Proof.
  intros [_ W2]. unfold ledger_wf. apply Forall_forall. intros [i z] Hin. cbn [fst].
  destruct (lt_dec i (ms_next s)) as [Hlt|Hge]; [exact Hlt|exfalso].
  assert (Hi : In i (live_ids s)) by (unfold live_ids; apply in_map_iff; exists (i, z); split; [reflexivity|exact Hin]).
  apply cnt_In in Hi. specialize (W2 i ltac:(lia)). unfold L in W2. lia.
Qed.

Lemma text_blk_incl t : incl (text_blk t) (blk_list (t_blk t)).
Proof. unfold text_blk. destruct (t_val t) as [[|c x]|]; intros b Hb; solve [exact Hb | destruct Hb]. Qed.

Lemma seg_blk_incl segs : incl (flat_map seg_blk segs) (flat_map (fun s => sg_node s :: blk_list (sg_blk s)) segs).
Proof.
  induction segs as [|sg r IH]; intros b Hb; [destruct Hb|]. cbn [flat_map] in *. apply in_app_iff in Hb. apply in_app_iff.
  destruct Hb as [Hb|Hb]; [left|right; apply IH; exact Hb].
  right. unfold seg_blk in Hb. destruct (sg_text sg); [destruct Hb|exact Hb].
Qed.

(* every text block is one of the blocks of the object (any object, no hypothesis) *)
Lemma text_blocks_incl m : incl (text_blocks m) (muri_blocks m).
Proof.
  intros b Hb. unfold text_blocks, block_parts in Hb. cbn [concat] in Hb. unfold muri_blocks.
  repeat rewrite in_app_iff in Hb. repeat rewrite in_app_iff.
  destruct Hb as [Hb|[Hb|[Hb|[Hb|[Hb|[Hb|[Hb|[Hb|Hb]]]]]]]].
  - left. apply text_blk_incl. exact Hb.
  - right; left. apply text_blk_incl. exact Hb.
  - right; right; left. apply text_blk_incl. exact Hb.
  - right; right; right; right; right; left. apply text_blk_incl. exact Hb.
  - right; right; right; right; right; right; left. apply text_blk_incl. exact Hb.
  - right; right; right; right; right; right; right; left. apply seg_blk_incl. exact Hb.
  - right; right; right; right; right; right; right; right; left. apply text_blk_incl. exact Hb.
  - right; right; right; right; right; right; right; right; right. apply text_blk_incl. exact Hb.
  - destruct Hb.
Qed.

(* what "the ledger holds the object" means in list vocabulary, text blocks included *)
Lemma holds_live m s : wf s -> holds m s ->
  NoDup (muri_blocks m) /\ incl (muri_blocks m) (live_ids s) /\ incl (text_blocks m) (live_ids s).
Proof.
  intros W H. destruct (proj1 (holds_incl m s W) H) as [N I]. split; [exact N|]. split; [exact I|].
  intros b Hb. apply I. apply text_blocks_incl. exact Hb.
Qed.

(* the text blocks of an object the ledger holds were handed out earlier *)
Lemma held_below m s : wf s -> holds m s -> Forall (fun b => b < ms_next s) (text_blocks m).
Proof.
  intros W H. destruct (holds_live m s W H) as (_ & _ & It). apply Forall_forall. intros b Hb.
  destruct (lt_dec b (ms_next s)) as [Hlt|Hge]; [exact Hlt|exfalso].
  specialize (It b Hb). apply cnt_In in It. destruct W as [_ W2]. specialize (W2 b ltac:(lia)). unfold L in W2. lia.
Qed.

(* ================================================================ Part B: two objects, one ledger *)
(* no block in common *)
Definition apart (m1 m2 : muri) : Prop := forall b, In b (muri_blocks m1) -> ~ In b (muri_blocks m2).

(* both held, counted together *)
Definition holds2 (m1 m2 : muri) (s : mstate) : Prop :=
  forall x, cnt (muri_blocks m1) x + cnt (muri_blocks m2) x <= L s x.

Lemma cnt_zero l x : ~ In x l -> cnt l x = 0.
Proof. intros H. destruct (Nat.eq_dec (cnt l x) 0) as [E|E]; [exact E|]. exfalso. apply H. apply cnt_In. lia. Qed.

Lemma holds2_intro m1 m2 s : wf s -> holds m1 s -> holds m2 s -> apart m1 m2 -> holds2 m1 m2 s.
Proof.
  intros W H1 H2 A x. specialize (H1 x). specialize (H2 x).
  destruct (in_dec Nat.eq_dec x (muri_blocks m1)) as [Hi|Hn].
  - rewrite (cnt_zero (muri_blocks m2) x (A x Hi)). lia.
  - rewrite (cnt_zero _ _ Hn). lia.
Qed.

Lemma holds2_elim m1 m2 s : wf s -> holds2 m1 m2 s -> holds m1 s /\ holds m2 s /\ apart m1 m2.
Proof.
  intros [W1 _] H. split; [intros x; specialize (H x); lia|]. split; [intros x; specialize (H x); lia|].
  intros b Hb1 Hb2. apply cnt_In in Hb1. apply cnt_In in Hb2. specialize (H b). specialize (W1 b). lia.
Qed.

Lemma holds2_sym m1 m2 s : holds2 m1 m2 s -> holds2 m2 m1 s.
Proof. intros H x. specialize (H x). lia. Qed.

(* an in-place operation on m2 (accounted for: [acct]) does not disturb m1 *)
Lemma holds2_acct m1 m2 s m2' s' : holds2 m1 m2 s -> acct m2 s m2' s' -> holds2 m1 m2' s'.
Proof. intros H A x. specialize (H x). specialize (A x). lia. Qed.

(* a new object d whose blocks are exactly what the ledger gained *)
Lemma holds2_new m1 d s s' : holds m1 s -> (forall x, L s' x = cnt (muri_blocks d) x + L s x) -> holds2 m1 d s'.
Proof. intros H O x. specialize (H x). specialize (O x). lia. Qed.

(* releasing m1 leaves m2 held *)
Lemma free_other m1 m2 s m1' s1 : wf s -> consistent m1 -> holds2 m1 m2 s -> free_members m1 s = (m1', s1) ->
  wf s1 /\ holds m2 s1 /\ bad_frees s1 = bad_frees s /\ ms_plan s1 = ms_plan s
  /\ (forall x, L s x = cnt (muri_blocks m1) x + L s1 x).
Proof.
  intros W C H E. assert (O : owns m1 s) by (split; [exact C|intros x; specialize (H x); lia]).
  destruct (free_members_releases m1 s m1' s1 W O E) as (W1 & P & B & _ & Pl & _).
  assert (Q : forall x, L s x = cnt (muri_blocks m1) x + L s1 x).
  { intros x. apply cnt_Permutation with (x := x) in P. unfold L. rewrite P, cnt_app. reflexivity. }
  split; [exact W1|]. split; [intros x; specialize (H x); specialize (Q x); lia|]. split; [exact B|]. split; [exact Pl|exact Q].
Qed.

(* ================================================================ Part C: the result holds all its blocks *)
(* what the ledger development says about an in-place operation, in list vocabulary *)
Definition inplace_ok (m : muri) (s : mstate) (m' : muri) (s' : mstate) : Prop :=
  wf s' /\ owns m' s' /\ bad_frees s' = bad_frees s
  /\ NoDup (muri_blocks m') /\ incl (muri_blocks m') (live_ids s') /\ incl (text_blocks m') (live_ids s')
  /\ Permutation (live_ids s' ++ muri_blocks m) (muri_blocks m' ++ live_ids s)
  /\ (forall b, In b (live_ids s) -> ~ In b (muri_blocks m) -> In b (live_ids s')).

Lemma inplace_ok_intro m s m' s' : holds m s -> wf s' -> owns m' s' -> bad_frees s' = bad_frees s ->
  acct m s m' s' -> inplace_ok m s m' s'.
Proof.
  intros H W' O' B A. destruct (holds_live m' s' W' (proj2 O')) as (N & I & It).
  split; [exact W'|]. split; [exact O'|]. split; [exact B|]. split; [exact N|]. split; [exact I|]. split; [exact It|].
  split; [apply acct_perm; exact A|]. intros b Hb Hn. eapply acct_frame; eauto.
Qed.

Lemma inplace_ok_acct m s m' s' : inplace_ok m s m' s' -> acct m s m' s'.
Proof. intros (_ & _ & _ & _ & _ & _ & P & _). apply acct_perm. exact P. Qed.

(* make-owner of a borrowed object: everything C12_make_owner says, and the ledger side *)
Lemma make_owner_live csize m s : wf s -> nofault s -> owns m s -> mwf m -> m_owner m = false ->
  exists m' s', make_owner_m csize m s = (URI_SUCCESS, m', s')
    /\ erase m' = make_owner (erase m) /\ to_text (erase m') = to_text (erase m)
    /\ m_owner m' = true /\ all_owned m' = true /\ depends_on_input m' = false
    /\ mwf m' /\ fresh_blocks s s' m' /\ nofault s'
    /\ inplace_ok m s m' s'.
Proof.
  intros W Hnf O Hw Ho.
  destruct (C12_make_owner_stmt csize m s Hnf Hw Ho) as (m' & s' & E & R & T & Ow & A & D & Wf & F & N).
  exists m', s'. pose proof (make_owner_m_balanced csize m s W O) as Bal. rewrite E in Bal.
  destruct Bal as (W' & B' & O' & P & _).
  repeat (split; [assumption|]). apply inplace_ok_intro; try assumption; [apply O|apply acct_perm; exact P].
Qed.

(* normalisation with a non-zero mask, borrowed or owned.  [sane]: scheme and IPvFuture text are not present
   and empty -- true of every parsed object and kept by every operation (LedgerSane.v); it is a hypothesis of
   the ledger theorem normalize_m_spec, which is reused here *)
Lemma normalize_live csize mask m s : wf s -> nofault s -> owns m s -> mwf m -> (m_owner m = false -> sane m) ->
  mask <> 0%N ->
  exists m' s', normalize_m csize mask m s = (URI_SUCCESS, m', s')
    /\ erase m' = normalize mask (erase m)
    /\ m_owner m' = true /\ all_owned m' = true /\ depends_on_input m' = false
    /\ mwf m' /\ (m_owner m = false -> fresh_blocks s s' m')
    /\ (m_owner m = true ->
          (forall b, In b (text_blocks m') -> In b (text_blocks m) \/ ms_next s <= b < ms_next s')
          /\ (path_guard mask (erase m) = false -> incl (text_blocks m') (text_blocks m)))
    /\ nofault s'
    /\ inplace_ok m s m' s'.
Proof.
  intros W Hnf O Hw Sn Hmask.
  assert (X : exists m' s', normalize_m csize mask m s = (URI_SUCCESS, m', s')
    /\ erase m' = normalize mask (erase m)
    /\ m_owner m' = true /\ all_owned m' = true /\ depends_on_input m' = false
    /\ mwf m' /\ (m_owner m = false -> fresh_blocks s s' m')
    /\ (m_owner m = true ->
          (forall b, In b (text_blocks m') -> In b (text_blocks m) \/ ms_next s <= b < ms_next s')
          /\ (path_guard mask (erase m) = false -> incl (text_blocks m') (text_blocks m)))
    /\ nofault s').
  { destruct (m_owner m) eqn:Ho.
    - destruct (C12_normalize_owned_stmt csize mask m s Hnf Hw Ho (held_below m s W (proj2 O)) Hmask)
        as (m' & s' & E & R & Ow & A & D & Wf & Fr & I & N).
      exists m', s'. repeat (split; [assumption|]). split; [intros H; discriminate H|]. split; [intros _; split; [exact Fr|exact I]|exact N].
    - destruct (C12_normalize_borrowed_stmt csize mask m s Hnf Hw Ho Hmask) as (m' & s' & E & R & Ow & A & D & Wf & F & N).
      exists m', s'. repeat (split; [assumption|]). split; [intros _; exact F|]. split; [intros H; discriminate H|exact N]. }
  destruct X as (m' & s' & E & R & Ow & A & D & Wf & F & I & N). exists m', s'.
  pose proof (normalize_m_balanced csize mask m s W O Sn) as Bal. rewrite E in Bal.
  destruct Bal as (W' & B' & O' & P & _).
  repeat (split; [assumption|]). apply inplace_ok_intro; try assumption; [apply O|apply acct_perm; exact P].
Qed.

(* [wf] (and with it [ledger_wf], the hypothesis of [fresh_blocks]) is kept by every whole operation *)
Lemma wf_kept csize s : wf s ->
  ledger_wf s
  /\ (forall t, wf (snd (parse_m t s)))
  /\ (forall m, owns m s -> wf (snd (make_owner_m csize m s)))
  /\ (forall mask m, owns m s -> (m_owner m = false -> sane m) -> wf (snd (normalize_m csize mask m s)))
  /\ (forall compat rel base, wf (snd (add_base_m compat rel base s)))
  /\ (forall dr src base, wf (snd (remove_base_m dr src base s)))
  /\ (forall m, owns m s -> wf (snd (free_members m s))).
Proof.
  intros W. split; [apply wf_ledger_wf; exact W|]. split; [|split; [|split; [|split; [|split]]]].
  - intros t. pose proof (parse_m_no_residue t s W) as R. destruct (parse_m t s) as [[m|pos|] s']; cbn [snd]; apply R.
  - intros m O. pose proof (make_owner_m_balanced csize m s W O) as R. destruct (make_owner_m csize m s) as [[rc m'] s']. apply R.
  - intros mask m O Sn. pose proof (normalize_m_balanced csize mask m s W O Sn) as R.
    destruct (normalize_m csize mask m s) as [[rc m'] s']. apply R.
  - intros compat rel base. pose proof (add_base_m_balanced compat rel base s W) as R.
    destruct (add_base_m compat rel base s) as [[rc d] s']. apply R.
  - intros dr src base. pose proof (remove_base_m_balanced dr src base s W) as R.
    destruct (remove_base_m dr src base s) as [[rc d] s']. apply R.
  - intros m O. destruct (free_members m s) as [m' s'] eqn:E. cbn [snd]. apply (free_members_releases m s m' s' W O E).
Qed.

(* ================================================================ Part D: an owned result and another object *)
(* releasing m1 -- any object the ledger holds apart from m2 -- leaves every block of m2 live *)
Lemma release_other m1 m2 s m1' s1 : wf s -> owns m1 s -> owns m2 s -> apart m1 m2 -> free_members m1 s = (m1', s1) ->
  wf s1 /\ owns m2 s1 /\ bad_frees s1 = bad_frees s
  /\ NoDup (muri_blocks m2) /\ incl (muri_blocks m2) (live_ids s1) /\ incl (text_blocks m2) (live_ids s1)
  /\ Permutation (live_ids s) (muri_blocks m1 ++ live_ids s1).
Proof.
  intros W [C1 H1] [C2 H2] A E. pose proof (holds2_intro m1 m2 s W H1 H2 A) as H.
  destruct (free_other m1 m2 s m1' s1 W C1 H E) as (W1 & Hh & B & _ & Q).
  destruct (holds_live m2 s1 W1 Hh) as (N & I & It).
  split; [exact W1|]. split; [split; assumption|]. split; [exact B|]. split; [exact N|]. split; [exact I|]. split; [exact It|].
  apply over_perm. exact Q.
Qed.

(* m2 is made owner while m1 sits in the same ledger: m1 is not touched, the result shares no block with it,
   and releasing m1 afterwards leaves the result whole *)
Lemma make_owner_beside csize m1 m2 s : wf s -> nofault s -> owns m1 s -> owns m2 s -> apart m1 m2 ->
  mwf m2 -> m_owner m2 = false ->
  exists m2' s', make_owner_m csize m2 s = (URI_SUCCESS, m2', s')
    /\ erase m2' = make_owner (erase m2) /\ all_owned m2' = true /\ depends_on_input m2' = false
    /\ wf s' /\ owns m1 s' /\ owns m2' s' /\ apart m1 m2'
    /\ (forall m1' s1, free_members m1 s' = (m1', s1) ->
          wf s1 /\ owns m2' s1 /\ bad_frees s1 = bad_frees s
          /\ NoDup (muri_blocks m2') /\ incl (muri_blocks m2') (live_ids s1) /\ incl (text_blocks m2') (live_ids s1)).
Proof.
  intros W Hnf O1 O2 A Hw Ho.
  destruct (make_owner_live csize m2 s W Hnf O2 Hw Ho) as (m2' & s' & E & R & _ & _ & Ao & D & _ & _ & _ & IP).
  exists m2', s'. pose proof (inplace_ok_acct _ _ _ _ IP) as Ac. destruct IP as (W' & O' & B' & _).
  pose proof (holds2_acct m1 m2 s m2' s' (holds2_intro m1 m2 s W (proj2 O1) (proj2 O2) A) Ac) as H'.
  destruct (holds2_elim m1 m2' s' W' H') as (H1' & _ & A').
  repeat (split; [assumption|]). split; [split; [apply O1|exact H1']|]. split; [exact O'|]. split; [exact A'|].
  intros m1' s1 EF.
  destruct (release_other m1 m2' s' m1' s1 W' (conj (proj1 O1) H1') O' A' EF) as (W1 & O2' & B1 & N & I & It & _).
  split; [exact W1|]. split; [exact O2'|]. split; [congruence|]. split; [exact N|]. split; assumption.
Qed.

Lemma normalize_beside csize mask m1 m2 s : wf s -> nofault s -> owns m1 s -> owns m2 s -> apart m1 m2 ->
  mwf m2 -> (m_owner m2 = false -> sane m2) -> mask <> 0%N ->
  exists m2' s', normalize_m csize mask m2 s = (URI_SUCCESS, m2', s')
    /\ erase m2' = normalize mask (erase m2) /\ all_owned m2' = true /\ depends_on_input m2' = false
    /\ wf s' /\ owns m1 s' /\ owns m2' s' /\ apart m1 m2'
    /\ (forall m1' s1, free_members m1 s' = (m1', s1) ->
          wf s1 /\ owns m2' s1 /\ bad_frees s1 = bad_frees s
          /\ NoDup (muri_blocks m2') /\ incl (muri_blocks m2') (live_ids s1) /\ incl (text_blocks m2') (live_ids s1)).
Proof.
  intros W Hnf O1 O2 A Hw Sn Hmask.
  destruct (normalize_live csize mask m2 s W Hnf O2 Hw Sn Hmask) as (m2' & s' & E & R & _ & Ao & D & _ & _ & _ & _ & IP).
  exists m2', s'. pose proof (inplace_ok_acct _ _ _ _ IP) as Ac. destruct IP as (W' & O' & B' & _).
  pose proof (holds2_acct m1 m2 s m2' s' (holds2_intro m1 m2 s W (proj2 O1) (proj2 O2) A) Ac) as H'.
  destruct (holds2_elim m1 m2' s' W' H') as (H1' & _ & A').
  repeat (split; [assumption|]). split; [split; [apply O1|exact H1']|]. split; [exact O'|]. split; [exact A'|].
  intros m1' s1 EF.
  destruct (release_other m1 m2' s' m1' s1 W' (conj (proj1 O1) H1') O' A' EF) as (W1 & O2' & B1 & N & I & It & _).
  split; [exact W1|]. split; [exact O2'|]. split; [congruence|]. split; [exact N|]. split; assumption.
Qed.

(* ================================================================ Part E: pipelines *)
(* release the members of the objects [srcs] one after the other *)
Fixpoint release_all (srcs : list muri) (s : mstate) : mstate :=
  match srcs with [] => s | m :: r => release_all r (snd (free_members m s)) end.

(* every block of the object -- text, list nodes, address blocks -- is live, and they are pairwise distinct *)
Definition whole (m : muri) (s : mstate) : Prop :=
  NoDup (muri_blocks m) /\ incl (muri_blocks m) (live_ids s) /\ incl (text_blocks m) (live_ids s).

Lemma whole_intro m s : wf s -> holds m s -> whole m s.
Proof. exact (holds_live m s). Qed.

Definition held_with (srcs : list muri) (m : muri) (s : mstate) : Prop :=
  forall x, cnt (all_blocks srcs) x + cnt (muri_blocks m) x <= L s x.

Lemma all_blocks_cons a r x : cnt (all_blocks (a :: r)) x = cnt (muri_blocks a) x + cnt (all_blocks r) x.
Proof. unfold all_blocks. cbn [flat_map]. apply cnt_app. Qed.

Lemma in_all_blocks srcs o x : In o srcs -> cnt (muri_blocks o) x <= cnt (all_blocks srcs) x.
Proof.
  induction srcs as [|a r IH]; intros H; [destruct H|]. rewrite all_blocks_cons. destruct H as [->|H]; [lia|].
  specialize (IH H). lia.
Qed.

Lemma release_all_keeps srcs : forall s m, wf s -> Forall consistent srcs -> held_with srcs m s ->
  wf (release_all srcs s) /\ holds m (release_all srcs s) /\ bad_frees (release_all srcs s) = bad_frees s
  /\ ms_plan (release_all srcs s) = ms_plan s
  /\ forall x, L s x = cnt (all_blocks srcs) x + L (release_all srcs s) x.
Proof.
  induction srcs as [|a r IH]; intros s m W F H; cbn [release_all].
  - split; [exact W|]. split; [intros x; specialize (H x); lia|]. split; [reflexivity|]. split; [reflexivity|]. intros x. reflexivity.
  - inversion F as [|? ? Ca Fr]; subst. destruct (free_members a s) as [a' s1] eqn:E. cbn [snd].
    assert (O : owns a s) by (split; [exact Ca|intros x; specialize (H x); rewrite all_blocks_cons in H; lia]).
    destruct (free_members_releases a s a' s1 W O E) as (W1 & P & B & _ & Pl & _).
    assert (Q : forall x, L s x = cnt (muri_blocks a) x + L s1 x).
    { intros x. apply cnt_Permutation with (x := x) in P. unfold L. rewrite P, cnt_app. reflexivity. }
    assert (H1 : held_with r m s1) by (intros x; specialize (H x); specialize (Q x); rewrite all_blocks_cons in H; lia).
    destruct (IH s1 m W1 Fr H1) as (Wf & Hf & Bf & Pf & Qf).
    split; [exact Wf|]. split; [exact Hf|]. split; [congruence|]. split; [congruence|].
    intros x. rewrite all_blocks_cons. specialize (Q x). specialize (Qf x). lia.
Qed.

(* the object d' in the ledger s2, made owner beside the objects [srcs] that the ledger s held before d' was
   built: it owns all its text in fresh blocks, all its blocks are live and pairwise distinct, the sources are
   untouched and share no block with it, the ledger gained exactly its blocks, and releasing every source
   leaves it whole *)
Definition owned_beside (srcs : list muri) (s : mstate) (d' : muri) (s2 : mstate) : Prop :=
  m_owner d' = true /\ all_owned d' = true /\ depends_on_input d' = false /\ mwf d'
  /\ fresh_blocks s s2 d' /\ nofault s2 /\ wf s2 /\ owns d' s2 /\ whole d' s2
  /\ (forall o, In o srcs -> owns o s2 /\ apart o d')
  /\ incl (live_ids s) (live_ids s2) /\ Permutation (live_ids s2) (muri_blocks d' ++ live_ids s)
  /\ bad_frees s2 = bad_frees s
  /\ (let sf := release_all srcs s2 in wf sf /\ owns d' sf /\ whole d' sf /\ bad_frees sf = bad_frees s).

Lemma owned_beside_meaning srcs s d' s2 : owned_beside srcs s d' s2 <->
  (m_owner d' = true /\ all_owned d' = true /\ depends_on_input d' = false /\ mwf d'
   /\ fresh_blocks s s2 d' /\ nofault s2 /\ wf s2 /\ owns d' s2 /\ whole d' s2
   /\ (forall o, In o srcs -> owns o s2 /\ apart o d')
   /\ incl (live_ids s) (live_ids s2) /\ Permutation (live_ids s2) (muri_blocks d' ++ live_ids s)
   /\ bad_frees s2 = bad_frees s
   /\ (let sf := release_all srcs s2 in wf sf /\ owns d' sf /\ whole d' sf /\ bad_frees sf = bad_frees s)).
Proof. unfold owned_beside. apply iff_refl. Qed.

Lemma whole_meaning m s : whole m s <->
  (NoDup (muri_blocks m) /\ incl (muri_blocks m) (live_ids s) /\ incl (text_blocks m) (live_ids s)).
Proof. apply iff_refl. Qed.

(* a new borrowed object d (the ledger grew by exactly its blocks, from s to s1) is made owner *)
Lemma own_new csize srcs d s s1 : wf s -> wf s1 -> nofault s1 -> ext s s1 ->
  Forall consistent srcs -> (forall x, cnt (all_blocks srcs) x <= L s x) ->
  consistent d -> m_owner d = false -> mwf d -> over s1 (muri_blocks d) (L s) ->
  exists d' s2, make_owner_m csize d s1 = (URI_SUCCESS, d', s2)
    /\ erase d' = make_owner (erase d) /\ to_text (erase d') = to_text (erase d)
    /\ owned_beside srcs s d' s2.
Proof.
  intros W W1 Hnf1 Ex Fc Hs Cd Ho Hw Ov.
  assert (Od : owns d s1) by (split; [exact Cd|intros x; rewrite (Ov x); lia]).
  destruct (make_owner_live csize d s1 W1 Hnf1 Od Hw Ho) as (d' & s2 & E & R & T & Ow & Ao & D & Wf & Fr & N2 & IP).
  exists d', s2. split; [exact E|]. split; [exact R|]. split; [exact T|].
  pose proof (inplace_ok_acct _ _ _ _ IP) as Ac. destruct IP as (W2 & O2 & B2 & ND & I2 & It2 & _ & _).
  assert (Q : forall x, L s2 x = cnt (muri_blocks d') x + L s x).
  { intros x. specialize (Ac x). specialize (Ov x). lia. }
  assert (Hh : held_with srcs d' s2) by (intros x; specialize (Hs x); specialize (Q x); lia).
  unfold owned_beside. split; [exact Ow|]. split; [exact Ao|]. split; [exact D|]. split; [exact Wf|].
  split.
  { destruct Fr as (F1 & F2 & _). apply fresh_blocks_intro; [exact F1|]. eapply Forall_impl; [|exact F2]. cbn.
    intros b Hb. pose proof (ext_next _ _ Ex). lia. }
  split; [exact N2|]. split; [exact W2|]. split; [exact O2|]. split; [split; [exact ND|split; assumption]|].
  split.
  { intros o Hin. assert (Hoh : holds2 o d' s2).
    { intros x. pose proof (in_all_blocks srcs o x Hin). specialize (Hh x). lia. }
    destruct (holds2_elim o d' s2 W2 Hoh) as (H1 & _ & A). split; [|exact A]. split; [|exact H1].
    rewrite Forall_forall in Fc. apply Fc. exact Hin. }
  split; [intros b Hb; apply cnt_In; apply cnt_In in Hb; specialize (Q b); unfold L in *; lia|].
  split; [apply over_perm; exact Q|]. split; [rewrite B2; apply Ex|].
  cbv zeta. destruct (release_all_keeps srcs s2 d' W2 Fc Hh) as (Wf' & Hf & Bf & _ & _).
  split; [exact Wf'|]. split; [split; [apply O2|exact Hf]|]. split; [apply whole_intro; assumption|].
  rewrite Bf, B2. apply Ex.
Qed.

(* two sources held apart by one ledger *)
Lemma two_sources rel base s : wf s -> owns rel s -> owns base s -> apart rel base ->
  Forall consistent [rel; base] /\ forall x, cnt (all_blocks [rel; base]) x <= L s x.
Proof.
  intros W O1 O2 A. split; [constructor; [apply O1|constructor; [apply O2|constructor]]|].
  intros x. pose proof (holds2_intro rel base s W (proj2 O1) (proj2 O2) A x) as H.
  rewrite !all_blocks_cons. unfold all_blocks. cbn [flat_map]. rewrite cnt_nil. lia.
Qed.

(* uriAddBaseUriExMm, then uriMakeOwnerMm on the result, then the sources may go *)
Lemma resolve_then_own csize compat rel base s : wf s -> nofault s -> owns rel s -> owns base s -> apart rel base ->
  mwf rel -> mwf base ->
  exists rc d s1 d' s2, add_base_m compat rel base s = (rc, d, s1)
    /\ (rc, erase d) = add_base compat (erase rel) (erase base)
    /\ make_owner_m csize d s1 = (URI_SUCCESS, d', s2)
    /\ erase d' = make_owner (snd (add_base compat (erase rel) (erase base)))
    /\ to_text (erase d') = to_text (snd (add_base compat (erase rel) (erase base)))
    /\ owned_beside [rel; base] s d' s2.
Proof.
  intros W Hnf O1 O2 A Hw1 Hw2.
  destruct (C12_add_base_stmt compat rel base s Hnf) as (rc & d & s1 & E & R & Ow & _ & Wd & N1).
  pose proof (add_base_m_spec compat rel base s W) as Sp. rewrite E in Sp. destruct Sp as (W1 & Ex & Cd & _ & Ov & _).
  destruct (two_sources rel base s W O1 O2 A) as (Fc & Hs).
  destruct (own_new csize [rel; base] d s s1 W W1 N1 Ex Fc Hs Cd Ow (Wd Hw1 Hw2) Ov) as (d' & s2 & E2 & R2 & T2 & OB).
  exists rc, d, s1, d', s2. split; [exact E|]. split; [exact R|]. split; [exact E2|]. rewrite <- R. cbn [snd].
  split; [exact R2|]. split; [exact T2|exact OB].
Qed.

(* uriRemoveBaseUriMm, then uriMakeOwnerMm on the result *)
Lemma shorten_then_own csize dr src base s : wf s -> nofault s -> owns src s -> owns base s -> apart src base ->
  mwf src -> mwf base ->
  exists rc d s1 d' s2, remove_base_m dr src base s = (rc, d, s1)
    /\ (rc, erase d) = remove_base dr (erase src) (erase base)
    /\ make_owner_m csize d s1 = (URI_SUCCESS, d', s2)
    /\ erase d' = make_owner (snd (remove_base dr (erase src) (erase base)))
    /\ to_text (erase d') = to_text (snd (remove_base dr (erase src) (erase base)))
    /\ owned_beside [src; base] s d' s2.
Proof.
  intros W Hnf O1 O2 A Hw1 Hw2.
  destruct (C12_remove_base_stmt dr src base s Hnf) as (rc & d & s1 & E & R & Ow & _ & Wd & N1).
  pose proof (remove_base_m_spec dr src base s W) as Sp. rewrite E in Sp. destruct Sp as (W1 & Ex & Cd & _ & Ov & _).
  destruct (two_sources src base s W O1 O2 A) as (Fc & Hs).
  destruct (own_new csize [src; base] d s s1 W W1 N1 Ex Fc Hs Cd Ow (Wd Hw1 Hw2) Ov) as (d' & s2 & E2 & R2 & T2 & OB).
  exists rc, d, s1, d', s2. split; [exact E|]. split; [exact R|]. split; [exact E2|]. rewrite <- R. cbn [snd].
  split; [exact R2|]. split; [exact T2|exact OB].
Qed.

(* the same text (or two texts) parsed into two objects; the second is made owner; the first may go *)
Lemma parse_twice_own csize t1 t2 s m1 s1 m2 s2 : wf s -> nofault s ->
  parse_m t1 s = (MOk m1, s1) -> parse_m t2 s1 = (MOk m2, s2) ->
  exists m2' s3, make_owner_m csize m2 s2 = (URI_SUCCESS, m2', s3)
    /\ parse t2 = POk (erase m2) /\ erase m2' = make_owner (erase m2) /\ to_text (erase m2') = to_text (erase m2)
    /\ (t1 = t2 -> erase m2 = erase m1)
    /\ owned_beside [m1] s1 m2' s3.
Proof.
  intros W Hnf E1 E2.
  pose proof (parse_m_no_residue t1 s W) as R1. rewrite E1 in R1. destruct R1 as (W1 & Ex1 & O1 & _ & P1).
  destruct (parse_m_erasure t1 s Hnf) as (K1 & _ & _ & _ & N1). rewrite E1 in K1, N1. cbn [fst snd] in K1, N1.
  destruct (K1 m1 eq_refl) as (Pp1 & _ & _).
  pose proof (parse_m_no_residue t2 s1 W1) as R2. rewrite E2 in R2. destruct R2 as (W2 & Ex2 & O2 & Ow2 & P2).
  destruct (parse_m_erasure t2 s1 N1) as (K2 & _ & _ & _ & N2). rewrite E2 in K2, N2. cbn [fst snd] in K2, N2.
  destruct (K2 m2 eq_refl) as (Pp2 & Wf2 & _).
  assert (Fc : Forall consistent [m1]) by (constructor; [apply O1|constructor]).
  assert (Hs : forall x, cnt (all_blocks [m1]) x <= L s1 x).
  { intros x. rewrite all_blocks_cons. unfold all_blocks. cbn [flat_map]. rewrite cnt_nil. pose proof (proj2 O1 x). lia. }
  destruct (own_new csize [m1] m2 s1 s2 W1 W2 N2 Ex2 Fc Hs (proj1 O2) Ow2 Wf2 (proj2 (over_perm s2 _ s1) P2))
    as (m2' & s3 & E3 & R3 & T3 & OB).
  exists m2', s3. split; [exact E3|]. split; [exact Pp2|]. split; [exact R3|]. split; [exact T3|]. split; [|exact OB].
  intros <-. rewrite Pp1 in Pp2. assert (X : forall a b : uri, POk a = POk b -> a = b) by (intros a b H; inversion H; reflexivity).
  symmetry. apply X. exact Pp2.
Qed.

(* ================================================================ Part F: whole histories under NoFault *)
Lemma free_members_mwf m s : mwf m -> mwf (fst (free_members m s)).
Proof.
  intros (Hh & Hnd & Ha & Hb). destruct (m_owner m) eqn:Ho.
  - unfold free_members. rewrite Ho. cbn [fst]. split; [intros x H; discriminate H|].
    split; [constructor|]. split; [intros _; reflexivity|intros H; discriminate H].
  - assert (B : bwf m) by (split; [exact Ho|apply Hb; reflexivity]).
    destruct (bwf_free_members m s B) as [B' Hh']. apply bwf_mwf; [exact B'|apply Hh'; exact Hh].
Qed.

Lemma free_members_nofault m s : nofault s -> nofault (snd (free_members m s)).
Proof. intros H. eapply st_le_nofault; [apply free_members_le|exact H]. Qed.

(* one step of a history keeps: the plan NoFault, well-formedness of every object of the store *)
Lemma hstep_mwf csize objs s op : balanced objs s -> nofault s -> Forall mwf objs ->
  nofault (snd (hstep csize (objs, s) op)) /\ Forall mwf (fst (hstep csize (objs, s) op)).
Proof.
  intros Bal Hnf F. destruct op as [t|i mask|i|compat i j|dr i j|i]; cbn [hstep].
  - destruct (parse_m_erasure t s Hnf) as (K & _ & _ & _ & N). destruct (parse_m t s) as [[m|pos|] s']; cbn [fst snd] in *.
    + split; [exact N|]. apply Forall_app. split; [exact F|]. constructor; [apply (K m eq_refl)|constructor].
    + split; assumption.
    + split; assumption.
  - destruct (nth_error objs i) as [m|] eqn:EN; [|split; assumption].
    pose proof (nth_Forall _ _ _ _ F EN) as Hw.
    destruct (N.eq_dec mask 0) as [->|Hmask].
    + rewrite normalize_m_zero. cbn [fst snd]. split; [exact Hnf|]. apply upd_Forall; assumption.
    + destruct (m_owner m) eqn:Ho.
      * destruct (balanced_owns objs s i m Bal EN) as [Om _].
        destruct (C12_normalize_owned_stmt csize mask m s Hnf Hw Ho (held_below m s (proj1 Bal) (proj2 Om)) Hmask)
          as (m' & s' & E & _ & _ & _ & _ & Wf & _ & _ & N).
        rewrite E. cbn [fst snd]. split; [exact N|]. apply upd_Forall; assumption.
      * destruct (C12_normalize_borrowed_stmt csize mask m s Hnf Hw Ho Hmask) as (m' & s' & E & _ & _ & _ & _ & Wf & _ & N).
        rewrite E. cbn [fst snd]. split; [exact N|]. apply upd_Forall; assumption.
  - destruct (nth_error objs i) as [m|] eqn:EN; [|split; assumption].
    pose proof (nth_Forall _ _ _ _ F EN) as Hw. destruct (m_owner m) eqn:Ho.
    + rewrite (make_owner_m_owned csize m s Ho). cbn [fst snd]. split; [exact Hnf|]. apply upd_Forall; assumption.
    + destruct (C12_make_owner_stmt csize m s Hnf Hw Ho) as (m' & s' & E & _ & _ & _ & _ & _ & Wf & _ & N).
      rewrite E. cbn [fst snd]. split; [exact N|]. apply upd_Forall; assumption.
  - destruct (nth_error objs i) as [r|] eqn:EI; [|split; assumption].
    destruct (nth_error objs j) as [b|] eqn:EJ; [|split; assumption].
    destruct (C12_add_base_stmt compat r b s Hnf) as (rc & d & s' & E & _ & _ & _ & Wd & N). rewrite E. cbn [fst snd].
    split; [exact N|]. apply Forall_app. split; [exact F|]. constructor; [|constructor].
    apply Wd; eapply nth_Forall; eauto.
  - destruct (nth_error objs i) as [r|] eqn:EI; [|split; assumption].
    destruct (nth_error objs j) as [b|] eqn:EJ; [|split; assumption].
    destruct (C12_remove_base_stmt dr r b s Hnf) as (rc & d & s' & E & _ & _ & _ & Wd & N). rewrite E. cbn [fst snd].
    split; [exact N|]. apply Forall_app. split; [exact F|]. constructor; [|constructor].
    apply Wd; eapply nth_Forall; eauto.
  - destruct (nth_error objs i) as [m|] eqn:EN; [|split; assumption].
    pose proof (nth_Forall _ _ _ _ F EN) as Hw. pose proof (free_members_nofault m s Hnf) as N.
    pose proof (free_members_mwf m s Hw) as Wf. destruct (free_members m s) as [m' s']. cbn [fst snd] in *.
    split; [exact N|]. apply upd_Forall; assumption.
Qed.

(* the store invariant of a fault-free history: [balanced] (the ledger is well formed and holds exactly the
   blocks of the objects, each object is consistent and sane), the plan is NoFault, every object is [mwf] *)
Definition store_ok (objs : list muri) (s : mstate) : Prop :=
  balanced objs s /\ nofault s /\ Forall mwf objs.

Lemma hstep_store_ok csize objs s op : store_ok objs s ->
  store_ok (fst (hstep csize (objs, s) op)) (snd (hstep csize (objs, s) op))
  /\ bad_frees (snd (hstep csize (objs, s) op)) = bad_frees s.
Proof.
  intros (Bal & Hnf & F). destruct (hstep_balanced csize objs s op Bal) as (B' & Bf & _).
  destruct (hstep_mwf csize objs s op Bal Hnf F) as (N' & F'). split; [split; [exact B'|split; assumption]|exact Bf].
Qed.

Lemma hrun_store_ok csize ops : forall objs s, store_ok objs s ->
  store_ok (fst (hrun csize ops (objs, s))) (snd (hrun csize ops (objs, s)))
  /\ bad_frees (snd (hrun csize ops (objs, s))) = bad_frees s.
Proof.
  unfold hrun. induction ops as [|op r IH]; intros objs s H; cbn [fold_left]; [split; [exact H|reflexivity]|].
  destruct (hstep_store_ok csize objs s op H) as (H' & Bf). destruct (hstep csize (objs, s) op) as [objs' s']. cbn [fst snd] in *.
  destruct (IH objs' s' H') as (H'' & Bf'). split; [exact H''|congruence].
Qed.

Lemma store_ok_init : store_ok [] (ms_init NoFault).
Proof. split; [|split; [reflexivity|constructor]]. split; [apply wf_init|]. split; [constructor|]. intros x. reflexivity. Qed.

(* two different slots of a store *)
Lemma nth_blocks2 objs : forall i j m1 m2 x, i <> j -> nth_error objs i = Some m1 -> nth_error objs j = Some m2 ->
  cnt (muri_blocks m1) x + cnt (muri_blocks m2) x <= cnt (all_blocks objs) x.
Proof.
  induction objs as [|a r IH]; intros [|i] [|j] m1 m2 x Hij H1 H2; cbn [nth_error] in H1, H2; try discriminate;
    try (exfalso; apply Hij; reflexivity); rewrite all_blocks_cons.
  - injection H1 as ->. pose proof (nth_blocks r j m2 x H2). lia.
  - injection H2 as ->. pose proof (nth_blocks r i m1 x H1). lia.
  - assert (Hij' : i <> j) by (intros ->; apply Hij; reflexivity). specialize (IH i j m1 m2 x Hij' H1 H2). lia.
Qed.

(* what the store invariant gives for the hypotheses of the theorems above *)
Lemma store_ok_objects objs s : store_ok objs s ->
  wf s /\ ledger_wf s /\ nofault s
  /\ Permutation (live_ids s) (flat_map muri_blocks objs)
  /\ (forall i m, nth_error objs i = Some m -> owns m s /\ mwf m /\ sane m /\ whole m s)
  /\ (forall i j m1 m2, i <> j -> nth_error objs i = Some m1 -> nth_error objs j = Some m2 -> apart m1 m2).
Proof.
  intros (Bal & Hnf & F). pose proof Bal as (W & Fc & B).
  split; [exact W|]. split; [apply wf_ledger_wf; exact W|]. split; [exact Hnf|].
  split; [apply (balanced_meaning objs s); exact Bal|]. split.
  - intros i m EN. destruct (balanced_owns objs s i m Bal EN) as [O Sn]. split; [exact O|].
    split; [eapply nth_Forall; eauto|]. split; [exact Sn|]. apply whole_intro; [exact W|apply O].
  - intros i j m1 m2 Hij E1 E2. assert (H : holds2 m1 m2 s).
    { intros x. rewrite (B x). apply (nth_blocks2 objs i j); assumption. }
    apply (holds2_elim m1 m2 s W H).
Qed.

(* any fault-free history from the empty store *)
Lemma history_store_ok csize ops :
  store_ok (fst (hrun csize ops ([], ms_init NoFault))) (snd (hrun csize ops ([], ms_init NoFault)))
  /\ bad_frees (snd (hrun csize ops ([], ms_init NoFault))) = 0.
Proof. exact (hrun_store_ok csize ops [] (ms_init NoFault) store_ok_init). Qed.

(* in a reachable store: object j owns all its text (it went through make-owner or normalisation, or holds no
   text at all); then it refers to no caller memory, and releasing any other object i leaves it whole *)
Lemma history_release_other csize ops i j m1 m2 :
  let st := hrun csize ops ([], ms_init NoFault) in
  i <> j -> nth_error (fst st) i = Some m1 -> nth_error (fst st) j = Some m2 ->
  whole m2 (snd st) /\ apart m1 m2
  /\ (let s1 := snd (free_members m1 (snd st)) in whole m2 s1 /\ owns m2 s1 /\ bad_frees s1 = 0)
  /\ (m_owner m2 = true -> all_owned m2 = true /\ depends_on_input m2 = false).
Proof.
  cbv zeta. intros Hij E1 E2. destruct (history_store_ok csize ops) as (St & Bf).
  destruct (store_ok_objects _ _ St) as (W & _ & _ & _ & Ob & Ap).
  destruct (Ob i m1 E1) as (O1 & _ & _ & _). destruct (Ob j m2 E2) as (O2 & Wf2 & _ & Wh2).
  pose proof (Ap i j m1 m2 Hij E1 E2) as A. split; [exact Wh2|]. split; [exact A|]. split.
  - destruct (free_members m1 (snd (hrun csize ops ([], ms_init NoFault)))) as [m1' s1] eqn:EF. cbn [snd].
    destruct (release_other m1 m2 _ m1' s1 W O1 O2 A EF) as (W1 & O2' & B1 & N & I & It & _).
    split; [split; [exact N|split; assumption]|]. split; [exact O2'|congruence].
  - intros Ho. destruct Wf2 as (_ & _ & Ha & _). specialize (Ha Ho). split; [exact Ha|].
    unfold depends_on_input. rewrite Ha. reflexivity.
Qed.

Lemma vocabulary_meaning srcs s d' s2 m m1 m2 objs :
  (whole m s <-> (NoDup (muri_blocks m) /\ incl (muri_blocks m) (live_ids s) /\ incl (text_blocks m) (live_ids s)))
  /\ (apart m1 m2 <-> (forall b, In b (muri_blocks m1) -> ~ In b (muri_blocks m2)))
  /\ (store_ok objs s <-> (balanced objs s /\ nofault s /\ Forall mwf objs))
  /\ (owned_beside srcs s d' s2 <->
      (m_owner d' = true /\ all_owned d' = true /\ depends_on_input d' = false /\ mwf d'
       /\ fresh_blocks s s2 d' /\ nofault s2 /\ wf s2 /\ owns d' s2 /\ whole d' s2
       /\ (forall o, In o srcs -> owns o s2 /\ apart o d')
       /\ incl (live_ids s) (live_ids s2) /\ Permutation (live_ids s2) (muri_blocks d' ++ live_ids s)
       /\ bad_frees s2 = bad_frees s
       /\ (let sf := release_all srcs s2 in wf sf /\ owns d' sf /\ whole d' sf /\ bad_frees sf = bad_frees s))).
Proof. split; [apply iff_refl|]. split; [apply iff_refl|]. split; [apply iff_refl|apply owned_beside_meaning]. Qed.

(* ================================================================ Part G: recorded blocks of a borrowed object *)
(* forget the block recorded for a present non-empty text *)
Definition strip_t (t : mtext) : mtext :=
  match t_val t with Some (_ :: _) => {| t_val := t_val t; t_blk := None |} | _ => t end.
Definition strip_seg (sg : mseg) : mseg :=
  match sg_text sg with _ :: _ => {| sg_text := sg_text sg; sg_blk := None; sg_node := sg_node sg |} | [] => sg end.
Definition strip (m : muri) : muri :=
  {| m_scheme := strip_t (m_scheme m); m_userInfo := strip_t (m_userInfo m); m_hostText := strip_t (m_hostText m);
     m_ip4 := m_ip4 m; m_ip6 := m_ip6 m; m_ipFuture := strip_t (m_ipFuture m); m_portText := strip_t (m_portText m);
     m_segs := map strip_seg (m_segs m); m_query := strip_t (m_query m); m_fragment := strip_t (m_fragment m);
     m_abs := m_abs m; m_owner := m_owner m |}.

Lemma strip_t_val t : t_val (strip_t t) = t_val t.
Proof. unfold strip_t. destruct (t_val t) as [[|c x]|] eqn:E; cbn [t_val]; congruence. Qed.
Lemma strip_t_blk t : text_blk (strip_t t) = [].
Proof. unfold strip_t, text_blk. destruct (t_val t) as [[|c x]|] eqn:E; cbn [t_val t_blk blk_list]; try rewrite E; reflexivity. Qed.
Lemma strip_seg_text sg : sg_text (strip_seg sg) = sg_text sg.
Proof. unfold strip_seg. destruct (sg_text sg) eqn:E; cbn [sg_text]; congruence. Qed.
Lemma strip_seg_node sg : sg_node (strip_seg sg) = sg_node sg.
Proof. unfold strip_seg. destruct (sg_text sg) eqn:E; reflexivity. Qed.
Lemma strip_segs_blk segs : flat_map seg_blk (map strip_seg segs) = [].
Proof.
  induction segs as [|sg r IH]; [reflexivity|]. cbn [map flat_map]. rewrite IH, app_nil_r.
  unfold strip_seg, seg_blk. destruct (sg_text sg) eqn:E; cbn [sg_text sg_blk blk_list]; try rewrite E; reflexivity.
Qed.

Lemma erase_strip m : erase (strip m) = erase m.
Proof.
  unfold erase, strip. cbn [m_scheme m_userInfo m_hostText m_ip4 m_ip6 m_ipFuture m_portText m_segs m_query m_fragment m_abs m_owner].
  rewrite !strip_t_val, map_map. f_equal. apply map_ext. exact strip_seg_text.
Qed.
Lemma text_blocks_strip m : text_blocks (strip m) = [].
Proof.
  unfold text_blocks, block_parts, strip.
  cbn [m_scheme m_userInfo m_hostText m_ip4 m_ip6 m_ipFuture m_portText m_segs m_query m_fragment concat].
  rewrite !strip_t_blk, strip_segs_blk. reflexivity.
Qed.
Lemma mwf_strip m : mwf_host m -> m_owner m = false -> mwf (strip m).
Proof.
  intros Hh Ho. split; [|rewrite text_blocks_strip; split; [constructor|split; [|reflexivity]]].
  - intros x. unfold strip. cbn [m_ipFuture m_hostText]. rewrite !strip_t_val. apply Hh.
  - intros H. unfold strip in H. cbn [m_owner] in H. congruence.
Qed.

Section Strip.
Variable cs : N.

Definition clear (done b : N) : bool := (N.land done b =? 0)%N.

Lemma dup_text_strip t s : dup_text cs (strip_t t) s = dup_text cs t s.
Proof. unfold dup_text, strip_t. destruct t as [[[|c x]|] b]; reflexivity. Qed.

Lemma range_owner_strip done b t s : clear done b = true -> range_owner cs done b (strip_t t) s = range_owner cs done b t s.
Proof.
  unfold clear. intros H. unfold range_owner. rewrite H. cbn [negb]. rewrite strip_t_val.
  destruct (t_val t) as [[|c x]|] eqn:E; try (unfold strip_t; rewrite E; reflexivity).
  rewrite dup_text_strip. reflexivity.
Qed.

Lemma range_owner_clear done b t s t' done' s' b2 :
  range_owner cs done b t s = (Some (t', done'), s') -> clear done b2 = true -> clear b b2 = true -> clear done' b2 = true.
Proof.
  unfold range_owner, clear. intros H H1 H2.
  assert (X : (N.land (N.lor done b) b2 =? 0)%N = true).
  { rewrite N.land_lor_distr_l. apply N.eqb_eq in H1, H2. rewrite H1, H2. reflexivity. }
  destruct (negb (N.land done b =? 0)%N); [injection H as _ <- _; exact H1|].
  destruct (t_val t) as [[|c x]|]; try (injection H as _ <- _; exact H1).
  destruct (dup_text cs t s) as [[t1|] s1]; [|discriminate H]. injection H as _ <- _. exact X.
Qed.

Lemma fold_free_nodes_strip rest : forall s,
  fold_left (fun st x => free_blk (sg_node x) st) (map strip_seg rest) s = fold_left (fun st x => free_blk (sg_node x) st) rest s.
Proof. induction rest as [|sg r IH]; intros s; [reflexivity|]. cbn [map fold_left]. rewrite strip_seg_node. apply IH. Qed.

Lemma own_segs_strip rest : forall acc s, own_segs cs acc (map strip_seg rest) s = own_segs cs acc rest s.
Proof.
  induction rest as [|sg r IH]; intros acc s; [reflexivity|]. cbn [map own_segs]. rewrite strip_seg_text.
  destruct (sg_text sg) as [|c x] eqn:E.
  - unfold strip_seg at 1. rewrite E. apply IH.
  - rewrite strip_seg_node. destruct (alloc false (tlen (c :: x) * cs) s) as [[id|] s1].
    + apply IH.
    + change (strip_seg sg :: map strip_seg r) with (map strip_seg (sg :: r)). rewrite fold_free_nodes_strip. reflexivity.
Qed.

Lemma strip_t_none t : t_val t = None -> strip_t t = t.
Proof. intros H. unfold strip_t. rewrite H. reflexivity. Qed.

Ltac mcbn :=
  cbn [m_scheme m_userInfo m_hostText m_ip4 m_ip6 m_ipFuture m_portText m_segs m_query m_fragment m_abs m_owner
       set_m_scheme set_m_userInfo set_m_query set_m_fragment set_m_hostText set_m_ipFuture set_m_segs set_m_portText] in *.

(* the tail of the engine: path, then port *)
Ltac tail Cp :=
  unfold path_step; unfold clear in Cp; rewrite Cp; cbn [negb]; mcbn; rewrite own_segs_strip;
  match goal with |- context [own_segs cs [] ?l ?z] => destruct (own_segs cs [] l z) as [[sg'|] z6] end;
  [|intros H; discriminate H]; mcbn; rewrite dup_text_strip;
  match goal with |- context [dup_text cs ?t ?z] => destruct (dup_text cs t z) as [[t7|] z7] end;
  [|intros H; discriminate H]; intros H; injection H as <- <- <-; mcbn.

Lemma engine_strip m s m' d' s' :
  make_owner_engine cs (strip m) 0 s = (true, m', d', s') -> make_owner_engine cs m 0 s = (true, m', d', s').
Proof.
  intros H. rewrite engine_unfold in H. rewrite engine_unfold. revert H. unfold engine'.
  destruct m as [sch usr hst i4 i6 fut prt segs qry frg ab ow]. unfold strip. mcbn.
  rewrite (range_owner_strip 0 B_SCHEME sch s eq_refl).
  destruct (range_owner cs 0 B_SCHEME sch s) as [[[t1 d1]|] z1] eqn:E1; [|intros H; discriminate H].
  pose proof (range_owner_clear _ _ _ _ _ _ _ B_USER E1 eq_refl eq_refl) as C1u.
  pose proof (range_owner_clear _ _ _ _ _ _ _ B_QUERY E1 eq_refl eq_refl) as C1q.
  pose proof (range_owner_clear _ _ _ _ _ _ _ B_FRAG E1 eq_refl eq_refl) as C1f.
  pose proof (range_owner_clear _ _ _ _ _ _ _ B_HOST E1 eq_refl eq_refl) as C1h.
  pose proof (range_owner_clear _ _ _ _ _ _ _ B_PATH E1 eq_refl eq_refl) as C1p.
  rewrite (range_owner_strip d1 B_USER usr z1 C1u).
  destruct (range_owner cs d1 B_USER usr z1) as [[[t2 d2]|] z2] eqn:E2; [|intros H; discriminate H].
  pose proof (range_owner_clear _ _ _ _ _ _ _ B_QUERY E2 C1q eq_refl) as C2q.
  pose proof (range_owner_clear _ _ _ _ _ _ _ B_FRAG E2 C1f eq_refl) as C2f.
  pose proof (range_owner_clear _ _ _ _ _ _ _ B_HOST E2 C1h eq_refl) as C2h.
  pose proof (range_owner_clear _ _ _ _ _ _ _ B_PATH E2 C1p eq_refl) as C2p.
  rewrite (range_owner_strip d2 B_QUERY qry z2 C2q).
  destruct (range_owner cs d2 B_QUERY qry z2) as [[[t3 d3]|] z3] eqn:E3; [|intros H; discriminate H].
  pose proof (range_owner_clear _ _ _ _ _ _ _ B_FRAG E3 C2f eq_refl) as C3f.
  pose proof (range_owner_clear _ _ _ _ _ _ _ B_HOST E3 C2h eq_refl) as C3h.
  pose proof (range_owner_clear _ _ _ _ _ _ _ B_PATH E3 C2p eq_refl) as C3p.
  rewrite (range_owner_strip d3 B_FRAG frg z3 C3f).
  destruct (range_owner cs d3 B_FRAG frg z3) as [[[t4 d4]|] z4] eqn:E4; [|intros H; discriminate H].
  pose proof (range_owner_clear _ _ _ _ _ _ _ B_HOST E4 C3h eq_refl) as C4h.
  pose proof (range_owner_clear _ _ _ _ _ _ _ B_PATH E4 C3p eq_refl) as C4p.
  unfold host_step. mcbn. pose proof C4h as C4h'. unfold clear in C4h'. rewrite C4h'. cbn [negb]. rewrite !strip_t_val.
  destruct (t_val fut) as [xf|] eqn:Ef.
  - rewrite (range_owner_strip d4 B_HOST fut z4 C4h).
    destruct (range_owner cs d4 B_HOST fut z4) as [[[t5 d5]|] z5] eqn:E5; [|intros H; discriminate H].
    pose proof (range_owner_clear _ _ _ _ _ _ _ B_PATH E5 C4p eq_refl) as C5p.
    tail C5p. reflexivity.
  - destruct (t_val hst) as [xh|] eqn:Eh.
    + rewrite (range_owner_strip d4 B_HOST hst z4 C4h).
      destruct (range_owner cs d4 B_HOST hst z4) as [[[t5 d5]|] z5] eqn:E5; [|intros H; discriminate H].
      pose proof (range_owner_clear _ _ _ _ _ _ _ B_PATH E5 C4p eq_refl) as C5p.
      tail C5p. rewrite (strip_t_none fut Ef). reflexivity.
    + tail C4p. rewrite (strip_t_none fut Ef), (strip_t_none hst Eh). reflexivity.
Qed.

(* make-owner of a borrowed object, whatever blocks it records: the hypothesis "a borrowed object records no
   text block" (the fourth clause of mwf) is not needed; the recorded blocks are forgotten, not released *)
Lemma make_owner_any_blocks m s : nofault s -> mwf_host m -> m_owner m = false ->
  exists m' s', make_owner_m cs m s = (URI_SUCCESS, m', s')
    /\ erase m' = make_owner (erase m) /\ to_text (erase m') = to_text (erase m)
    /\ m_owner m' = true /\ all_owned m' = true /\ depends_on_input m' = false
    /\ mwf m' /\ fresh_blocks s s' m' /\ nofault s'.
Proof.
  intros Hnf Hh Ho. assert (Ho' : m_owner (strip m) = false) by exact Ho.
  destruct (C12_make_owner_stmt cs (strip m) s Hnf (mwf_strip m Hh Ho) Ho') as (m' & s' & E & R).
  exists m', s'. rewrite erase_strip in R. split; [|exact R].
  unfold make_owner_m in *. rewrite Ho' in E. rewrite Ho.
  destruct (make_owner_engine cs (strip m) 0 s) as [[[[|] m1] d1] s1] eqn:EE.
  - rewrite (engine_strip m s m1 d1 s1 EE). exact E.
  - destruct (prevent_leakage m1 d1 s1) as [m2 s2]. discriminate E.
Qed.
End Strip.

(* ================================================================ Part H: make-owner releases nothing *)
Section Keeps.
Variable cs : N.

Lemma own_segs_nodes rest : forall acc s segs s', own_segs cs acc rest s = (Some segs, s') ->
  map sg_node segs = rev (map sg_node acc) ++ map sg_node rest.
Proof.
  induction rest as [|sg r IH]; intros acc s segs s' H; cbn [own_segs] in H.
  - injection H as <- _. rewrite map_rev, app_nil_r. reflexivity.
  - destruct (sg_text sg) as [|c x].
    + rewrite (IH _ _ _ _ H). cbn [map rev]. rewrite <- app_assoc. reflexivity.
    + destruct (alloc false (tlen (c :: x) * cs) s) as [[id|] s1]; [|discriminate H].
      rewrite (IH _ _ _ _ H). cbn [map rev sg_node]. rewrite <- app_assoc. reflexivity.
Qed.

(* the engine keeps the address blocks and the list nodes *)
Lemma engine_keeps m done s m' d' s' : make_owner_engine cs m done s = (true, m', d', s') ->
  m_ip4 m' = m_ip4 m /\ m_ip6 m' = m_ip6 m /\ map sg_node (m_segs m') = map sg_node (m_segs m).
Proof.
  rewrite engine_unfold. unfold engine'.
  destruct (range_owner cs done B_SCHEME (m_scheme m) s) as [[[t1 d1]|] z1]; [|intros H; discriminate H].
  destruct (range_owner cs d1 B_USER _ z1) as [[[t2 d2]|] z2]; [|intros H; discriminate H].
  destruct (range_owner cs d2 B_QUERY _ z2) as [[[t3 d3]|] z3]; [|intros H; discriminate H].
  destruct (range_owner cs d3 B_FRAG _ z3) as [[[t4 d4]|] z4]; [|intros H; discriminate H].
  set (m4 := set_m_fragment t4 (set_m_query t3 (set_m_userInfo t2 (set_m_scheme t1 m)))).
  assert (K4 : m_ip4 m4 = m_ip4 m /\ m_ip6 m4 = m_ip6 m /\ m_segs m4 = m_segs m) by (repeat split; reflexivity).
  clearbody m4. destruct K4 as (K4a & K4b & K4c).
  destruct (host_step cs m4 d4 z4) as [[[m5 d5]|] z5] eqn:E5; [|intros H; discriminate H].
  assert (K5 : m_ip4 m5 = m_ip4 m4 /\ m_ip6 m5 = m_ip6 m4 /\ m_segs m5 = m_segs m4).
  { unfold host_step in E5. destruct (negb (N.land d4 B_HOST =? 0)%N); [injection E5 as <- _ _; repeat split; reflexivity|].
    destruct (t_val (m_ipFuture m4)).
    - destruct (range_owner cs d4 B_HOST (m_ipFuture m4) z4) as [[[t5 d5']|] z5']; [|discriminate E5].
      injection E5 as <- _ _. repeat split; reflexivity.
    - destruct (t_val (m_hostText m4)); [|injection E5 as <- _ _; repeat split; reflexivity].
      destruct (range_owner cs d4 B_HOST (m_hostText m4) z4) as [[[t5 d5']|] z5']; [|discriminate E5].
      injection E5 as <- _ _. repeat split; reflexivity. }
  destruct K5 as (K5a & K5b & K5c).
  destruct (path_step cs m5 d5 z5) as [[[m6 d6]|] z6] eqn:E6; [|intros H; discriminate H].
  assert (K6 : m_ip4 m6 = m_ip4 m5 /\ m_ip6 m6 = m_ip6 m5 /\ map sg_node (m_segs m6) = map sg_node (m_segs m5)).
  { unfold path_step in E6. destruct (negb (N.land d5 B_PATH =? 0)%N); [injection E6 as <- _ _; repeat split; reflexivity|].
    destruct (own_segs cs [] (m_segs m5) z5) as [[segs|] z6'] eqn:EO; [|discriminate E6].
    injection E6 as <- _ _. split; [reflexivity|]. split; [reflexivity|]. exact (own_segs_nodes _ _ _ _ _ EO). }
  destruct K6 as (K6a & K6b & K6c).
  destruct (dup_text cs (m_portText m6) z6) as [[t7|] z7]; [|intros H; discriminate H].
  intros H. injection H as <- _ _. cbn [set_m_portText m_ip4 m_ip6 m_segs].
  split; [congruence|]. split; congruence.
Qed.

Lemma cnt_nodes_le l x : cnt (map sg_node l) x <= cnt (seg_blocks l) x.
Proof.
  induction l as [|sg r IH]; [reflexivity|]. rewrite seg_blocks_cons. cbn [map].
  rewrite (cnt_cons (sg_node sg) (map sg_node r)), (cnt_cons (sg_node sg) (blk_list (sg_blk sg) ++ seg_blocks r)), cnt_app. lia.
Qed.

Lemma make_owner_keeps_blocks m s m' s' : consistent m -> m_owner m = false ->
  make_owner_m cs m s = (URI_SUCCESS, m', s') -> forall x, cnt (muri_blocks m) x <= cnt (muri_blocks m') x.
Proof.
  intros C Ho E x. unfold consistent in C. rewrite Ho in C.
  destruct (inv_false_blk m C) as (e1 & e2 & e3 & e4 & e5 & e6 & e7 & Fs).
  unfold make_owner_m in E. rewrite Ho in E.
  destruct (make_owner_engine cs m 0 s) as [[[[|] m1] d1] s1] eqn:EE.
  - injection E as <- _. rewrite bl_owner. destruct (engine_keeps m 0 s m1 d1 s1 EE) as (K4 & K6 & Kn).
    rewrite !muri_blocks_eq, e1, e2, e3, e4, e5, e6, e7. cbn [blk_list app]. rewrite !cnt_app, K4, K6.
    rewrite (sfld_false_blocks _ Fs), <- Kn. pose proof (cnt_nodes_le (m_segs m1) x). rewrite !cnt_nil. lia.
  - destruct (prevent_leakage m1 d1 s1) as [m2 s2]. discriminate E.
Qed.
End Keeps.

(* a successful make-owner of a borrowed object releases nothing, whatever the plan: every block that was live
   is still live, and the result holds every block (nodes, address blocks) the input held *)
Lemma make_owner_releases_nothing csize m s m' s' : wf s -> owns m s -> m_owner m = false ->
  make_owner_m csize m s = (URI_SUCCESS, m', s') ->
  incl (muri_blocks m) (muri_blocks m') /\ incl (live_ids s) (live_ids s').
Proof.
  intros W O Ho E. pose proof (make_owner_keeps_blocks csize m s m' s' (proj1 O) Ho E) as K.
  pose proof (make_owner_m_spec csize m s W O) as Sp. rewrite E in Sp. destruct Sp as (_ & _ & _ & A & _).
  split; intros b Hb; apply cnt_In; apply cnt_In in Hb.
  - specialize (K b). lia.
  - specialize (K b). specialize (A b). unfold L in *. lia.
Qed.

(* ================================================================ Part I: normalisation of a borrowed object that records blocks *)
(* two texts that agree once the block of a non-empty text is forgotten ([c] = true), or agree exactly *)
Definition eqd (c : bool) (x y : mtext) : Prop := (if c then strip_t x else x) = (if c then strip_t y else y).
Definition eqs (c : bool) (x y : list mseg) : Prop :=
  (if c then map strip_seg x else x) = (if c then map strip_seg y else y).

Lemma eqd_refl c x : eqd c x x. Proof. reflexivity. Qed.
Lemma eqs_refl c x : eqs c x x. Proof. reflexivity. Qed.
Lemma eqd_strip c x y : eqd c x y -> strip_t x = strip_t y.
Proof. unfold eqd. destruct c; [auto|intros ->; reflexivity]. Qed.
Lemma eqs_strip c x y : eqs c x y -> map strip_seg x = map strip_seg y.
Proof. unfold eqs. destruct c; [auto|intros ->; reflexivity]. Qed.
Lemma eqd_val c x y : eqd c x y -> t_val x = t_val y.
Proof. intros H. apply eqd_strip in H. rewrite <- (strip_t_val x), <- (strip_t_val y), H. reflexivity. Qed.
Lemma eqd_false x y : eqd false x y -> x = y. Proof. auto. Qed.
Lemma eqs_false x y : eqs false x y -> x = y. Proof. auto. Qed.
Lemma eqd_none c x y : eqd c x y -> t_val x = None -> x = y.
Proof.
  intros H E. pose proof (eqd_val c x y H) as V. apply eqd_strip in H.
  rewrite (strip_t_none x E), (strip_t_none y) in H by congruence. exact H.
Qed.
Lemma eqs_text c x y : eqs c x y -> map sg_text x = map sg_text y.
Proof.
  intros H. apply eqs_strip in H. assert (X : forall l, map sg_text (map strip_seg l) = map sg_text l).
  { intros l. rewrite map_map. apply map_ext. exact strip_seg_text. }
  rewrite <- (X x), <- (X y), H. reflexivity.
Qed.

Section Sim.
Variable cs : N.

Lemma clear_lor_other done b b2 : clear b b2 = true -> clear (N.lor done b) b2 = clear done b2.
Proof. unfold clear. intros H. apply N.eqb_eq in H. rewrite N.land_lor_distr_l, H, N.lor_0_r. reflexivity. Qed.
Lemma clear_lor_self done b : clear b b = false -> clear (N.lor done b) b = false.
Proof.
  unfold clear. intros H. apply N.eqb_neq in H. apply N.eqb_neq. rewrite N.land_lor_distr_l. intros E.
  apply N.lor_eq_0_iff in E. apply H. apply E.
Qed.

Lemma norm_text_strip f t s : norm_text cs false f (strip_t t) s = norm_text cs false f t s.
Proof. unfold norm_text, strip_t. destruct t as [[[|c x]|] b]; reflexivity. Qed.
Lemma eqd_norm_text c f x y s : eqd c x y -> norm_text cs false f x s = norm_text cs false f y s.
Proof. intros H. apply eqd_strip in H. rewrite <- (norm_text_strip f x), <- (norm_text_strip f y), H. reflexivity. Qed.
Lemma eqd_dup c x y s : eqd c x y -> dup_text cs x s = dup_text cs y s.
Proof. intros H. apply eqd_strip in H. rewrite <- (dup_text_strip cs x), <- (dup_text_strip cs y), H. reflexivity. Qed.
Lemma eqd_range_owner done b x y s : eqd (clear done b) x y -> range_owner cs done b x s = range_owner cs done b y s.
Proof.
  destruct (clear done b) eqn:C; intros H; [|rewrite (eqd_false _ _ H); reflexivity].
  rewrite <- (range_owner_strip cs done b x s C), <- (range_owner_strip cs done b y s C). unfold eqd in H. rewrite H. reflexivity.
Qed.
Lemma range_owner_done done b t s t' done' s' b2 :
  range_owner cs done b t s = (Some (t', done'), s') -> clear b b2 = true -> clear done' b2 = clear done b2.
Proof.
  unfold range_owner. intros H H2.
  destruct (negb (N.land done b =? 0)%N); [injection H as _ <- _; reflexivity|].
  destruct (t_val t) as [[|c x]|]; try (injection H as _ <- _; reflexivity).
  destruct (dup_text cs t s) as [[t1|] s1]; [|discriminate H]. injection H as _ <- _. apply clear_lor_other. exact H2.
Qed.

Lemma fold_free_nodes_strip' rest : forall s,
  fold_left (fun st x => free_blk (sg_node x) st) (map strip_seg rest) s = fold_left (fun st x => free_blk (sg_node x) st) rest s.
Proof. induction rest as [|sg r IH]; intros s; [reflexivity|]. cbn [map fold_left]. rewrite strip_seg_node. apply IH. Qed.

Lemma norm_segs_malloc_strip rest : forall acc s,
  norm_segs_malloc cs acc (map strip_seg rest) s = norm_segs_malloc cs acc rest s.
Proof.
  induction rest as [|sg r IH]; intros acc s; [reflexivity|]. cbn [map norm_segs_malloc]. rewrite strip_seg_text.
  destruct (sg_text sg) as [|c x] eqn:E.
  - unfold strip_seg at 1. rewrite E. apply IH.
  - rewrite strip_seg_node. destruct (alloc false (tlen (c :: x) * cs) s) as [[id|] s1].
    + apply IH.
    + change (strip_seg sg :: map strip_seg r) with (map strip_seg (sg :: r)). rewrite fold_free_nodes_strip'. reflexivity.
Qed.

(* the relation between the run on the stripped object (a) and the run on the object itself (b): components
   whose bit is set in the done-mask have been replaced and are equal; the others agree up to forgotten blocks *)
Definition sim (done : N) (a b : muri) : Prop :=
  eqd (clear done B_SCHEME) (m_scheme a) (m_scheme b) /\ eqd (clear done B_USER) (m_userInfo a) (m_userInfo b)
  /\ eqd (clear done B_HOST) (m_hostText a) (m_hostText b) /\ eqd (clear done B_HOST) (m_ipFuture a) (m_ipFuture b)
  /\ eqd true (m_portText a) (m_portText b) /\ eqs (clear done B_PATH) (m_segs a) (m_segs b)
  /\ eqd (clear done B_QUERY) (m_query a) (m_query b) /\ eqd (clear done B_FRAG) (m_fragment a) (m_fragment b)
  /\ m_ip4 a = m_ip4 b /\ m_ip6 a = m_ip6 b /\ m_abs a = m_abs b /\ m_owner a = m_owner b.

Lemma sim_start m : sim 0 (strip m) m.
Proof.
  assert (X : forall t, strip_t (strip_t t) = strip_t t).
  { intros t. unfold strip_t at 1. rewrite strip_t_val. destruct (t_val t) as [[|c x]|] eqn:E; try reflexivity.
    unfold strip_t. rewrite E. reflexivity. }
  assert (Y : forall sg, strip_seg (strip_seg sg) = strip_seg sg).
  { intros sg. unfold strip_seg at 1. rewrite strip_seg_text. destruct (sg_text sg) eqn:E; try reflexivity.
    rewrite strip_seg_node. unfold strip_seg. rewrite E. reflexivity. }
  unfold sim, strip, eqd, eqs. cbn. rewrite !X, map_map. repeat split. apply map_ext. exact Y.
Qed.

Lemma sim_erase done a b : sim done a b -> erase a = erase b.
Proof.
  intros (h1 & h2 & h3 & h4 & h5 & h6 & h7 & h8 & h9 & h10 & h11 & h12). unfold erase.
  rewrite (eqd_val _ _ _ h1), (eqd_val _ _ _ h2), (eqd_val _ _ _ h3), (eqd_val _ _ _ h4), (eqd_val _ _ _ h5),
    (eqs_text _ _ _ h6), (eqd_val _ _ _ h7), (eqd_val _ _ _ h8), h9, h10, h11, h12. reflexivity.
Qed.

Ltac dsim H := destruct H as (h1 & h2 & h3 & h4 & h5 & h6 & h7 & h8 & h9 & h10 & h11 & h12).
Ltac mcbn :=
  cbn [m_scheme m_userInfo m_hostText m_ip4 m_ip6 m_ipFuture m_portText m_segs m_query m_fragment m_abs m_owner
       set_m_scheme set_m_userInfo set_m_query set_m_fragment set_m_hostText set_m_ipFuture set_m_segs set_m_portText
       set_m_owner] in *.
Ltac sim_done := unfold sim; mcbn;
  repeat match goal with |- context [clear (N.lor ?d ?b) ?b2] => rewrite (clear_lor_other d b b2 eq_refl) end;
  repeat split; first [assumption | apply eqd_refl | apply eqs_refl | idtac].

(* ---- the text stages of normalisation *)
Lemma n_scheme_sim cond f a b done s a' d' s' : sim done a b ->
  n_text cs cond f B_SCHEME m_scheme set_m_scheme a done s = (Some (a', d'), s') ->
  exists b', n_text cs cond f B_SCHEME m_scheme set_m_scheme b done s = (Some (b', d'), s') /\ sim d' a' b'.
Proof.
  intros S. pose proof S as S'. dsim S'. unfold n_text. rewrite (eqd_val _ _ _ h1), (eqd_norm_text _ f _ _ s h1).
  destruct (cond && is_some (t_val (m_scheme b))).
  - destruct (norm_text cs false f (m_scheme b) s) as [[t|] z]; [|intros H; discriminate H]. intros H. injection H as <- <- <-.
    eexists. split; [reflexivity|]. sim_done.
  - intros H. injection H as <- <- <-. exists b. split; [reflexivity|exact S].
Qed.
Lemma n_user_sim cond f a b done s a' d' s' : sim done a b ->
  n_text cs cond f B_USER m_userInfo set_m_userInfo a done s = (Some (a', d'), s') ->
  exists b', n_text cs cond f B_USER m_userInfo set_m_userInfo b done s = (Some (b', d'), s') /\ sim d' a' b'.
Proof.
  intros S. pose proof S as S'. dsim S'. unfold n_text. rewrite (eqd_val _ _ _ h2), (eqd_norm_text _ f _ _ s h2).
  destruct (cond && is_some (t_val (m_userInfo b))).
  - destruct (norm_text cs false f (m_userInfo b) s) as [[t|] z]; [|intros H; discriminate H]. intros H. injection H as <- <- <-.
    eexists. split; [reflexivity|]. sim_done.
  - intros H. injection H as <- <- <-. exists b. split; [reflexivity|exact S].
Qed.
Lemma n_query_sim cond f a b done s a' d' s' : sim done a b ->
  n_text cs cond f B_QUERY m_query set_m_query a done s = (Some (a', d'), s') ->
  exists b', n_text cs cond f B_QUERY m_query set_m_query b done s = (Some (b', d'), s') /\ sim d' a' b'.
Proof.
  intros S. pose proof S as S'. dsim S'. unfold n_text. rewrite (eqd_val _ _ _ h7), (eqd_norm_text _ f _ _ s h7).
  destruct (cond && is_some (t_val (m_query b))).
  - destruct (norm_text cs false f (m_query b) s) as [[t|] z]; [|intros H; discriminate H]. intros H. injection H as <- <- <-.
    eexists. split; [reflexivity|]. sim_done.
  - intros H. injection H as <- <- <-. exists b. split; [reflexivity|exact S].
Qed.
Lemma n_frag_sim cond f a b done s a' d' s' : sim done a b ->
  n_text cs cond f B_FRAG m_fragment set_m_fragment a done s = (Some (a', d'), s') ->
  exists b', n_text cs cond f B_FRAG m_fragment set_m_fragment b done s = (Some (b', d'), s') /\ sim d' a' b'.
Proof.
  intros S. pose proof S as S'. dsim S'. unfold n_text. rewrite (eqd_val _ _ _ h8), (eqd_norm_text _ f _ _ s h8).
  destruct (cond && is_some (t_val (m_fragment b))).
  - destruct (norm_text cs false f (m_fragment b) s) as [[t|] z]; [|intros H; discriminate H]. intros H. injection H as <- <- <-.
    eexists. split; [reflexivity|]. sim_done.
  - intros H. injection H as <- <- <-. exists b. split; [reflexivity|exact S].
Qed.

(* ---- the host stage *)
Lemma n_host_sim mask a b done s a' d' s' : sim done a b ->
  OwnershipProofs.n_host cs mask a done s = (Some (a', d'), s') ->
  exists b', OwnershipProofs.n_host cs mask b done s = (Some (b', d'), s') /\ sim d' a' b'.
Proof.
  intros S. pose proof S as S'. dsim S'. unfold OwnershipProofs.n_host.
  destruct (bit mask M_HOST); [|intros H; injection H as <- <- <-; exists b; split; [reflexivity|exact S]].
  rewrite (eqd_val _ _ _ h4), (eqd_val _ _ _ h3), h9, h10.
  destruct (t_val (m_ipFuture b)) as [xf|] eqn:Ef.
  - rewrite (eqd_norm_text _ lowercase _ _ s h4).
    destruct (norm_text cs false lowercase (m_ipFuture b) s) as [[t|] z]; [|intros H; discriminate H].
    intros H. injection H as <- <- <-. eexists. split; [reflexivity|]. sim_done.
  - assert (Fa : m_ipFuture a = m_ipFuture b) by (apply (eqd_none _ _ _ h4); rewrite (eqd_val _ _ _ h4); exact Ef).
    destruct (t_val (m_hostText b)) as [xh|] eqn:Eh;
      [|intros H; injection H as <- <- <-; exists b; split; [reflexivity|exact S]].
    destruct (m_ip4 b) eqn:E4b; [intros H; injection H as <- <- <-; exists b; split; [reflexivity|exact S]|].
    destruct (m_ip6 b) eqn:E6b; [intros H; injection H as <- <- <-; exists b; split; [reflexivity|exact S]|].
    rewrite (eqd_norm_text _ (fun x => lowercase_except_pct (fix_pct x)) _ _ s h3).
    destruct (norm_text cs false (fun x => lowercase_except_pct (fix_pct x)) (m_hostText b) s) as [[t|] z]; [|intros H; discriminate H].
    intros H. injection H as <- <- <-. eexists. split; [reflexivity|]. sim_done; try congruence. rewrite Fa. apply eqd_refl.
Qed.

(* ---- the path stage *)
Lemma rds_frame rel owned m m' s : m_segs m' = m_segs m -> m_abs m' = m_abs m -> m_host_set m' = m_host_set m ->
  remove_dot_segments_m rel owned m' s =
  (let '(ok, m2, s2) := remove_dot_segments_m rel owned m s in (ok, set_m_segs (m_segs m2) m', s2)).
Proof.
  intros E1 E2 E3. assert (X : set_m_segs (m_segs m) m' = m') by (rewrite <- E1; apply set_m_segs_same).
  unfold remove_dot_segments_m. rewrite E1, E2, E3. destruct (m_segs m) as [|sg r] eqn:Es.
  - rewrite Es, X. reflexivity.
  - destruct (rds_walk_m rel (m_host_set m) (m_abs m) owned [] (sg :: r) s) as [[ok segs'] s2]. reflexivity.
Qed.

Lemma fet_frame m m' s : m_segs m' = m_segs m -> m_host_set m' = m_host_set m ->
  fix_empty_trail_m m' s = (let '(m3, s3) := fix_empty_trail_m m s in (set_m_segs (m_segs m3) m', s3)).
Proof.
  intros E1 E2. assert (X : set_m_segs (m_segs m) m' = m') by (rewrite <- E1; apply set_m_segs_same).
  unfold fix_empty_trail_m. rewrite E1, E2.
  destruct (negb (m_host_set m)); [|rewrite X; reflexivity].
  destruct (m_segs m) as [|sg [|sg2 r]] eqn:Es; try (rewrite Es, X; reflexivity).
  destruct (sg_text sg); [reflexivity|]. rewrite Es, X. reflexivity.
Qed.

Lemma fao_frame m m' s : m_segs m' = m_segs m -> m_abs m' = m_abs m -> m_host_set m' = m_host_set m ->
  fix_ambiguity_owned_m cs m' s =
  (let '(ok, m2, s2) := fix_ambiguity_owned_m cs m s in (ok, set_m_segs (m_segs m2) m', s2)).
Proof.
  intros E1 E2 E3. assert (X : set_m_segs (m_segs m) m' = m') by (rewrite <- E1; apply set_m_segs_same).
  unfold fix_ambiguity_owned_m. rewrite E1, E2, E3.
  destruct (match m_abs m with true => _ | false => _ end); [|rewrite X; reflexivity].
  destruct (alloc false SEG_SIZE s) as [[id|] s1]; [|rewrite X; reflexivity].
  destruct (alloc false _ s1) as [[b|] s2]; [reflexivity|rewrite X; reflexivity].
Qed.

Lemma n_path_sim mask a b done s a' d' x y s' : sim done a b ->
  n_path_full cs mask a done s = (Some (a', d'), x, y, s') ->
  exists b' xb yb, n_path_full cs mask b done s = (Some (b', d'), xb, yb, s') /\ sim d' a' b'.
Proof.
  intros S. pose proof S as S'. dsim S'. unfold n_path_full.
  destruct (bit mask M_PATH); [|intros H; injection H as <- <- _ _ <-; exists b, b, done; split; [reflexivity|exact S]].
  assert (Hh : m_host_set a = m_host_set b) by (unfold m_host_set; rewrite (sim_erase _ _ _ S); reflexivity).
  rewrite (eqd_val _ _ _ h1), h11, Hh.
  set (rel := negb (is_some (t_val (m_scheme b))) && negb (m_abs b) && negb (m_host_set b)).
  rewrite <- (norm_segs_malloc_strip (m_segs a)), (eqs_strip _ _ _ h6), norm_segs_malloc_strip.
  destruct (norm_segs_malloc cs [] (m_segs b) s) as [[ok segs] s1]. destruct ok; [|intros H; discriminate H].
  set (ow := false || negb (N.land (N.lor done B_PATH) B_PATH =? 0)%N).
  rewrite (rds_frame rel ow (set_m_segs segs b) (set_m_segs segs a) s1 eq_refl h11 Hh).
  pose proof (rds_frame rel ow (set_m_segs segs b) (set_m_segs segs b) s1 eq_refl eq_refl eq_refl) as Fb.
  destruct (remove_dot_segments_m rel ow (set_m_segs segs b) s1) as [[ok2 b2] s2]. injection Fb as Fb.
  destruct ok2; [|intros H; discriminate H].
  assert (Hs2 : m_segs (set_m_segs (m_segs b2) (set_m_segs segs a)) = m_segs b2) by reflexivity.
  assert (Hh2 : m_host_set (set_m_segs (m_segs b2) (set_m_segs segs a)) = m_host_set b2) by (rewrite Fb; exact Hh).
  assert (Ha2 : m_abs (set_m_segs (m_segs b2) (set_m_segs segs a)) = m_abs b2) by (rewrite Fb; exact h11).
  rewrite (fao_frame b2 _ s2 Hs2 Ha2 Hh2).
  pose proof (fao_frame b2 b2 s2 eq_refl eq_refl eq_refl) as Fg.
  destruct (fix_ambiguity_owned_m cs b2 s2) as [[okA bA] sA]. injection Fg as Fg.
  destruct okA; [|intros H; discriminate H].
  assert (Hs3 : m_segs (set_m_segs (m_segs bA) (set_m_segs (m_segs b2) (set_m_segs segs a))) = m_segs bA) by reflexivity.
  assert (Hh3 : m_host_set (set_m_segs (m_segs bA) (set_m_segs (m_segs b2) (set_m_segs segs a))) = m_host_set bA)
    by (rewrite Fg; exact Hh2).
  rewrite (fet_frame bA _ sA Hs3 Hh3).
  pose proof (fet_frame bA bA sA eq_refl eq_refl) as Fc.
  destruct (fix_empty_trail_m bA sA) as [b3 s3]. injection Fc as Fc.
  intros H. injection H as <- <- _ _ <-. exists b3, b3, (N.lor done B_PATH). split; [reflexivity|].
  rewrite Fc, Fg, Fb. sim_done.
Qed.

(* ---- the engine, started with any done-mask *)
Ltac tail3 d h5 h6 ga :=
  unfold path_step; mcbn; change (N.land d B_PATH =? 0)%N with (clear d B_PATH);
  let Cp := fresh "Cp" in
  destruct (clear d B_PATH) eqn:Cp; cbn [negb];
  [ rewrite <- (own_segs_strip cs _ []), (eqs_strip _ _ _ h6), own_segs_strip;
    match goal with |- context [own_segs cs [] ?l ?z] => destruct (own_segs cs [] l z) as [[sg'|] z6] end;
    [|intros H; discriminate H]
  | apply eqs_false in h6; subst ga ];
  mcbn; rewrite (eqd_dup _ _ _ _ h5);
  match goal with |- context [dup_text cs ?t ?z] => destruct (dup_text cs t z) as [[t7|] z7] end;
  [|intros H; discriminate H | |intros H; discriminate H]; intros H; exact H.

Lemma engine_sim a b done s m' d' s' : sim done a b ->
  make_owner_engine cs a done s = (true, m', d', s') -> make_owner_engine cs b done s = (true, m', d', s').
Proof.
  intros S H. rewrite engine_unfold in H. rewrite engine_unfold. revert H. unfold engine'.
  destruct a as [sa ua ha i4a i6a fa pa ga qa ra aba owa]. destruct b as [sb ub hb i4b i6b fb pb gb qb rb abb owb].
  dsim S. mcbn. subst i4b i6b abb owb.
  rewrite (eqd_range_owner done B_SCHEME sa sb s h1).
  destruct (range_owner cs done B_SCHEME sb s) as [[[t1 d1]|] z1] eqn:E1; [|intros H; discriminate H].
  rewrite <- (range_owner_done _ _ _ _ _ _ _ B_USER E1 eq_refl) in h2.
  rewrite <- (range_owner_done _ _ _ _ _ _ _ B_HOST E1 eq_refl) in h3, h4.
  rewrite <- (range_owner_done _ _ _ _ _ _ _ B_PATH E1 eq_refl) in h6.
  rewrite <- (range_owner_done _ _ _ _ _ _ _ B_QUERY E1 eq_refl) in h7.
  rewrite <- (range_owner_done _ _ _ _ _ _ _ B_FRAG E1 eq_refl) in h8.
  rewrite (eqd_range_owner d1 B_USER ua ub z1 h2).
  destruct (range_owner cs d1 B_USER ub z1) as [[[t2 d2]|] z2] eqn:E2; [|intros H; discriminate H].
  rewrite <- (range_owner_done _ _ _ _ _ _ _ B_HOST E2 eq_refl) in h3, h4.
  rewrite <- (range_owner_done _ _ _ _ _ _ _ B_PATH E2 eq_refl) in h6.
  rewrite <- (range_owner_done _ _ _ _ _ _ _ B_QUERY E2 eq_refl) in h7.
  rewrite <- (range_owner_done _ _ _ _ _ _ _ B_FRAG E2 eq_refl) in h8.
  rewrite (eqd_range_owner d2 B_QUERY qa qb z2 h7).
  destruct (range_owner cs d2 B_QUERY qb z2) as [[[t3 d3]|] z3] eqn:E3; [|intros H; discriminate H].
  rewrite <- (range_owner_done _ _ _ _ _ _ _ B_HOST E3 eq_refl) in h3, h4.
  rewrite <- (range_owner_done _ _ _ _ _ _ _ B_PATH E3 eq_refl) in h6.
  rewrite <- (range_owner_done _ _ _ _ _ _ _ B_FRAG E3 eq_refl) in h8.
  rewrite (eqd_range_owner d3 B_FRAG ra rb z3 h8).
  destruct (range_owner cs d3 B_FRAG rb z3) as [[[t4 d4]|] z4] eqn:E4; [|intros H; discriminate H].
  rewrite <- (range_owner_done _ _ _ _ _ _ _ B_HOST E4 eq_refl) in h3, h4.
  rewrite <- (range_owner_done _ _ _ _ _ _ _ B_PATH E4 eq_refl) in h6.
  unfold host_step. mcbn. rewrite (eqd_val _ _ _ h4), (eqd_val _ _ _ h3).
  change (N.land d4 B_HOST =? 0)%N with (clear d4 B_HOST).
  destruct (clear d4 B_HOST) eqn:Ch; cbn [negb].
  - destruct (t_val fb) as [xf|] eqn:Ef.
    + rewrite (eqd_range_owner d4 B_HOST fa fb z4) by (rewrite Ch; exact h4).
      destruct (range_owner cs d4 B_HOST fb z4) as [[[t5 d5]|] z5] eqn:E5; [|intros H; discriminate H].
      rewrite <- (range_owner_done _ _ _ _ _ _ _ B_PATH E5 eq_refl) in h6.
      tail3 d5 h5 h6 ga.
    + assert (Fa : fa = fb) by (apply (eqd_none _ _ _ h4); rewrite (eqd_val _ _ _ h4); exact Ef). subst fa.
      destruct (t_val hb) as [xh|] eqn:Eh.
      * rewrite (eqd_range_owner d4 B_HOST ha hb z4) by (rewrite Ch; exact h3).
        destruct (range_owner cs d4 B_HOST hb z4) as [[[t5 d5]|] z5] eqn:E5; [|intros H; discriminate H].
        rewrite <- (range_owner_done _ _ _ _ _ _ _ B_PATH E5 eq_refl) in h6.
        tail3 d5 h5 h6 ga.
      * assert (Ha : ha = hb) by (apply (eqd_none _ _ _ h3); rewrite (eqd_val _ _ _ h3); exact Eh). subst ha.
        tail3 d4 h5 h6 ga.
  - apply eqd_false in h3, h4. subst ha fa. tail3 d4 h5 h6 ga.
Qed.

(* ---- uriNormalizeSyntaxExMm on a borrowed object: the run on the object agrees with the run on the stripped one *)
Ltac failcase :=
  match goal with |- context [prevent_leakage ?x ?d ?z] => destruct (prevent_leakage x d z) end;
  let H := fresh in intros H; discriminate H.

Lemma normalize_strip mask m s m' s' : m_owner m = false -> mask <> 0%N ->
  normalize_m cs mask (strip m) s = (URI_SUCCESS, m', s') -> normalize_m cs mask m s = (URI_SUCCESS, m', s').
Proof.
  intros Ho Hmask. assert (Ho' : m_owner (strip m) = false) by exact Ho.
  rewrite (normalize_b_eq cs mask _ s Ho'), (normalize_b_eq cs mask _ s Ho). unfold normalize_b.
  apply N.eqb_neq in Hmask. rewrite Hmask.
  destruct (n_text cs (bit mask M_SCHEME) lowercase B_SCHEME m_scheme set_m_scheme (strip m) 0%N s) as [[[a1 d1]|] z1] eqn:E1;
    [|failcase].
  destruct (n_scheme_sim _ _ _ _ _ _ _ _ _ (sim_start m) E1) as (b1 & F1 & S1). rewrite F1.
  destruct (OwnershipProofs.n_host cs mask a1 d1 z1) as [[[a2 d2]|] z2] eqn:E2; [|failcase].
  destruct (n_host_sim _ _ _ _ _ _ _ _ S1 E2) as (b2 & F2 & S2). rewrite F2.
  destruct (n_text cs (bit mask M_USER_INFO) fix_pct B_USER m_userInfo set_m_userInfo a2 d2 z2) as [[[a3 d3]|] z3] eqn:E3;
    [|failcase].
  destruct (n_user_sim _ _ _ _ _ _ _ _ _ S2 E3) as (b3 & F3 & S3). rewrite F3.
  destruct (n_path_full cs mask a3 d3 z3) as [[[[[a4 d4]|] x4] y4] z4] eqn:E4; [|failcase].
  destruct (n_path_sim _ _ _ _ _ _ _ _ _ _ S3 E4) as (b4 & xb & yb & F4 & S4). rewrite F4.
  destruct (n_text cs (bit mask M_QUERY) fix_pct B_QUERY m_query set_m_query a4 d4 z4) as [[[a5 d5]|] z5] eqn:E5;
    [|failcase].
  destruct (n_query_sim _ _ _ _ _ _ _ _ _ S4 E5) as (b5 & F5 & S5). rewrite F5.
  destruct (n_text cs (bit mask M_FRAGMENT) fix_pct B_FRAG m_fragment set_m_fragment a5 d5 z5) as [[[a6 d6]|] z6] eqn:E6;
    [|failcase].
  destruct (n_frag_sim _ _ _ _ _ _ _ _ _ S5 E6) as (b6 & F6 & S6). rewrite F6.
  destruct (make_owner_engine cs a6 d6 z6) as [[[[|] a7] d7] z7] eqn:E7; [|failcase].
  rewrite (engine_sim a6 b6 d6 z6 a7 d7 z7 S6 E7). intros H; exact H.
Qed.

(* C12_normalize_borrowed without "a borrowed object records no text block" *)
Lemma normalize_any_blocks mask m s : nofault s -> mwf_host m -> m_owner m = false -> mask <> 0%N ->
  exists m' s', normalize_m cs mask m s = (URI_SUCCESS, m', s')
    /\ erase m' = normalize mask (erase m)
    /\ m_owner m' = true /\ all_owned m' = true /\ depends_on_input m' = false
    /\ mwf m' /\ fresh_blocks s s' m' /\ nofault s'.
Proof.
  intros Hnf Hh Ho Hmask. assert (Ho' : m_owner (strip m) = false) by exact Ho.
  destruct (C12_normalize_borrowed_stmt cs mask (strip m) s Hnf (mwf_strip m Hh Ho) Ho' Hmask) as (m' & s' & E & R).
  exists m', s'. rewrite erase_strip in R. split; [|exact R]. apply normalize_strip; assumption.
Qed.
End Sim.

