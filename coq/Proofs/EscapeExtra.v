(* Additional facts about the Escape model used by the query and filename proofs. *)
From UP Require Import Base.Chars Model.Escape Spec.PctSpec Proofs.EscapeProofs.
From Coq Require Import ZArith ZifyBool ZifyN Lia.
Local Open Scope N_scope.

(* ---------- until_nul --------------------------------------------------------- *)
Lemma until_nul_id l : Forall (fun c => c <> 0) l -> until_nul l = l.
Proof.
  induction 1 as [|c r Hc Hr IH]; [reflexivity|]. cbn [until_nul].
  destruct (c =? 0) eqn:E; [lia|]. now rewrite IH.
Qed.

Lemma all_1_255_nonzero l : all_1_255 l -> Forall (fun c => c <> 0) l.
Proof. apply Forall_impl. intros c H. lia. Qed.

Lemma all_1_255_app a b : all_1_255 (a ++ b) <-> all_1_255 a /\ all_1_255 b.
Proof. apply Forall_app. Qed.

(* ---------- characters of an escaped text ---------------------------------------- *)
Definition esc_char (c : N) : bool := is_unreserved c || (c =? 43) || (c =? 37).

Lemma upper_hexdig_unreserved c : is_upper_hexdig c = true -> is_unreserved c = true.
Proof.
  unfold is_upper_hexdig, is_unreserved, is_alpha, is_upper, is_lower, is_digit, is_hex_upper,
    is_unres_mark, in_range. lia.
Qed.

Lemma escaped_form_chars pa : forall l, escaped_form pa l = true -> forallb esc_char l = true.
Proof.
  fix IH 1. intros l H. destruct l as [|c r]; [reflexivity|].
  cbn [escaped_form] in H. cbn [forallb].
  destruct (c =? 37) eqn:E.
  - destruct r as [|a [|b r2]]; try discriminate.
    apply andb_prop in H. destruct H as [H H3]. apply andb_prop in H. destruct H as [H1 H2].
    cbn [forallb]. apply upper_hexdig_unreserved in H1. apply upper_hexdig_unreserved in H2.
    rewrite (IH _ H3).
    assert (esc_char c = true) as -> by (unfold esc_char; rewrite E; apply orb_true_r).
    assert (esc_char a = true) as -> by (unfold esc_char; rewrite H1; reflexivity).
    assert (esc_char b = true) as -> by (unfold esc_char; rewrite H2; reflexivity).
    reflexivity.
  - apply andb_prop in H. destruct H as [H1 H2]. rewrite (IH _ H2).
    assert (esc_char c = true) as ->; [|reflexivity].
    clear IH H2. unfold esc_char. destruct pa; cbn [andb] in H1; lia.
Qed.

Lemma escape_chars stp nb l : forallb esc_char (escape stp nb l) = true.
Proof. apply (escaped_form_chars stp). apply escape_charset. Qed.

Lemma escape_char_in stp nb l c : In c (escape stp nb l) -> esc_char c = true.
Proof. intros H. pose proof (escape_chars stp nb l) as F. rewrite forallb_forall in F. auto. Qed.

(* none of  NUL & = / : \  is produced by escaping *)
Lemma esc_char_not_special c : esc_char c = true ->
  c <> 0 /\ c <> 38 /\ c <> 61 /\ c <> 47 /\ c <> 58 /\ c <> 92.
Proof.
  unfold esc_char, is_unreserved, is_alpha, is_upper, is_lower, is_digit, is_unres_mark, in_range. lia.
Qed.

(* ---------- escaping a non-empty text gives a non-empty text ---------------------- *)
Lemma escape_loop_nonempty stp nb c r : c <> 0 -> escape_loop stp nb false (c :: r) <> [].
Proof.
  intros Hc. cbn [escape_loop].
  destruct (c =? 0) eqn:E0; [lia|].
  destruct (c =? 32). { destruct stp; discriminate. }
  destruct (is_unreserved c). { discriminate. }
  destruct (c =? 10). { destruct nb; discriminate. }
  destruct (c =? 13). { destruct nb; discriminate. }
  cbv zeta. discriminate.
Qed.

Lemma escape_nil_iff stp nb l : Forall (fun c => c <> 0) l -> (escape stp nb l = [] <-> l = []).
Proof.
  intros H. split; [|intros ->; reflexivity].
  destruct l as [|c r]; [reflexivity|]. inversion H; subst.
  intros E. exfalso. revert E. apply escape_loop_nonempty. assumption.
Qed.

(* ---------- round trip with a continuation ---------------------------------------- *)
Lemma roundtrip_loop_app stp nb pts rest : (stp = true -> pts = true) ->
  forall l pc pc', all_1_255 l ->
  unescape_loop pts BrDontTouch pc' (escape_loop stp nb pc l ++ rest)
  = (if nb then crlf_from pc l else l) ++ unescape_loop pts BrDontTouch false rest.
Proof.
  intros Hm. induction l as [|c r IH]; intros pc pc' Hall.
  { cbn [escape_loop crlf_from app]. rewrite unescape_dt_cr. destruct nb; reflexivity. }
  inversion Hall as [|? ? Hc Hr]; subst.
  cbn [escape_loop crlf_from].
  destruct (c =? 0) eqn:E0; [lia|].
  destruct (c =? 32) eqn:E32.
  { apply N.eqb_eq in E32. subst c. change (32 =? 13) with false. change (32 =? 10) with false. cbv iota.
    destruct stp.
    - assert (pts = true) as Ep by auto. rewrite Ep in *. cbn [app]. rewrite unescape_plus. rewrite IH by assumption. destruct nb; reflexivity.
    - cbn [app].
      change (37 :: 50 :: 48 :: ?x) with (37 :: hex_to_letter (32 / 16) :: hex_to_letter (32 mod 16) :: x).
      rewrite unescape_enc_byte by lia. rewrite IH by assumption. destruct nb; reflexivity. }
  destruct (is_unreserved c) eqn:EU.
  { pose proof (unreserved_not_special _ EU) as U. cbn [app].
    rewrite unescape_plain by tauto. rewrite IH by assumption.
    destruct (c =? 13) eqn:E13; [lia|]. destruct (c =? 10) eqn:E10; [lia|]. destruct nb; reflexivity. }
  destruct (c =? 10) eqn:E10.
  { apply N.eqb_eq in E10. subst c. change (10 =? 13) with false. cbv iota.
    destruct nb.
    - destruct pc; cbn [app].
      + apply IH; assumption.
      + change (37 :: 48 :: 68 :: 37 :: 48 :: 65 :: ?x)
          with (37 :: hex_to_letter (13 / 16) :: hex_to_letter (13 mod 16) ::
                37 :: hex_to_letter (10 / 16) :: hex_to_letter (10 mod 16) :: x).
        rewrite unescape_enc_byte by lia. rewrite unescape_enc_byte by lia. rewrite IH by assumption. reflexivity.
    - cbn [app]. change (37 :: 48 :: 65 :: ?x) with (37 :: hex_to_letter (10 / 16) :: hex_to_letter (10 mod 16) :: x).
      rewrite unescape_enc_byte by lia. rewrite IH by assumption. reflexivity. }
  destruct (c =? 13) eqn:E13.
  { apply N.eqb_eq in E13. subst c. destruct nb; cbn [app].
    - change (37 :: 48 :: 68 :: 37 :: 48 :: 65 :: ?x)
          with (37 :: hex_to_letter (13 / 16) :: hex_to_letter (13 mod 16) ::
                37 :: hex_to_letter (10 / 16) :: hex_to_letter (10 mod 16) :: x).
      rewrite unescape_enc_byte by lia. rewrite unescape_enc_byte by lia. rewrite IH by assumption. reflexivity.
    - change (37 :: 48 :: 68 :: ?x) with (37 :: hex_to_letter (13 / 16) :: hex_to_letter (13 mod 16) :: x).
      rewrite unescape_enc_byte by lia. rewrite IH by assumption. reflexivity. }
  cbv zeta. rewrite N.mod_small by lia. cbn [app].
  rewrite unescape_enc_byte by lia. rewrite IH by assumption. destruct nb; reflexivity.
Qed.

Lemma unescape_escape_app stp nb pts l rest : (stp = true -> pts = true) -> all_1_255 l ->
  unescape_loop pts BrDontTouch false (escape stp nb l ++ rest)
  = (if nb then crlf l else l) ++ unescape_loop pts BrDontTouch false rest.
Proof. intros Hm Hall. apply roundtrip_loop_app; assumption. Qed.

(* the result of a round trip stays within 1..255 *)
Lemma crlf_from_1_255 : forall l pc, all_1_255 l -> all_1_255 (crlf_from pc l).
Proof.
  induction l as [|c r IH]; intros pc H; [constructor|]. inversion H; subst.
  cbn [crlf_from]. destruct (c =? 13).
  - constructor; [lia|]. constructor; [lia|]. apply IH; assumption.
  - destruct (c =? 10).
    + apply Forall_app. split; [|apply IH; assumption]. destruct pc; repeat constructor; lia.
    + constructor; [assumption|]. apply IH; assumption.
Qed.

(* ---------- unescaping never lengthens ---------------------------------------------- *)
Lemma until_nul_length l : (length (until_nul l) <= length l)%nat.
Proof. induction l as [|c r IH]; [cbn; lia|]. cbn [until_nul]. destruct (c =? 0); cbn [length]; lia. Qed.

Lemma unescape_loop_length pts bc : forall n l pc, (length l <= n)%nat ->
  (length (unescape_loop pts bc pc l) <= length l)%nat.
Proof.
  induction n as [|n IH]; intros l pc Hn.
  { destruct l; [cbn; lia|cbn [length] in Hn; lia]. }
  destruct l as [|c r]; [cbn; lia|]. cbn [length] in Hn. cbn [unescape_loop].
  destruct (c =? 0); [cbn; lia|].
  destruct (c =? 37).
  - destruct r as [|a r1].
    + cbn [unescape_loop length]. lia.
    + cbn [length] in *. destruct (is_hexdig a).
      * destruct r1 as [|b r2].
        -- cbn [unescape_loop length]. lia.
        -- cbn [length] in *. destruct (is_hexdig b).
           ++ assert (forall x, (length x <= 2)%nat ->
                (length (x ++ unescape_loop pts bc false r2) <= S (S (S (length r2))))%nat) as A.
              { intros x Hx. rewrite app_length. specialize (IH r2 false ltac:(lia)). lia. }
              assert (forall x, (length x <= 2)%nat ->
                (length (x ++ unescape_loop pts bc true r2) <= S (S (S (length r2))))%nat) as B.
              { intros x Hx. rewrite app_length. specialize (IH r2 true ltac:(lia)). lia. }
              destruct (_ =? 10).
              { apply A. destruct bc, pc; cbn; lia. }
              destruct (_ =? 13).
              { apply B. destruct bc; cbn; lia. }
              cbn [length]. specialize (IH r2 false ltac:(lia)). lia.
           ++ cbn [length]. specialize (IH (b :: r2) false ltac:(cbn [length]; lia)). cbn [length] in IH. lia.
      * cbn [length]. specialize (IH (a :: r1) false ltac:(cbn [length]; lia)). cbn [length] in IH. lia.
  - destruct (c =? 43); cbn [length]; specialize (IH r false ltac:(lia)); lia.
Qed.

Lemma unescape_length pts bc l : (length (unescape pts bc l) <= length l)%nat.
Proof. apply (unescape_loop_length pts bc (length l)). lia. Qed.
