(* IPv6 literals: the sixteen bytes stored by the scanner (Model.Parse.ip6_bytes, mirror of
   uriParseIPv6address2) are the value RFC 4291 assigns to the text (Spec.Split.ip6_value), for
   every text of the RFC 3986 rule IPv6address; and the printing of the sixteen bytes by
   uriToString is the full eight-group lower-case text, which denotes the same address.

   Route: (1) [ip6_shape]: the texts of IPv6address are  groups ":" ... tail  or
   left "::" right tail  with 1-4 hex digit groups, an optional dotted-quad tail, and a bound on
   the number of groups ([ip6_shape_of_matches], by inversion of the regular expression);
   (2) the scanner on such a text ([model_full], [model_zip]);  (3) the RFC 4291 reading of such a
   text ([spec_full], [spec_zip]);  both are the same explicit list of bytes. *)
From Coq Require Import List NArith Bool Lia ZifyBool ZifyN ZArith.
From UP Require Import Base.Chars Base.Regex Spec.Rfc3986 Spec.Split Spec.Recompose Model.Parse Model.Recompose.
Import ListNotations.
Local Open Scope N_scope.

Ltac dm_lia := zify; Z.to_euclidean_division_equations; lia.

(* ------------------------------------------------------------------ list surgery *)
Lemma bset_nth_length d : forall i v, length (bset_nth d i v) = length d.
Proof. induction d as [|x d IH]; intros [|i] v; cbn [bset_nth length]; auto. Qed.

Lemma put_at_length l : forall d i, length (put_at d i l) = length d.
Proof. induction l as [|x l IH]; intros d i; cbn [put_at]; [reflexivity|]. rewrite IH. apply bset_nth_length. Qed.

Lemma zero_from_spec d : forall i, zero_from d i = firstn i d ++ repeat 0 (length d - i).
Proof.
  induction d as [|x d IH]; intros [|i]; cbn [zero_from firstn length Nat.sub repeat app]; auto.
  - f_equal. rewrite IH. cbn [firstn app]. rewrite Nat.sub_0_r. reflexivity.
  - f_equal. apply IH.
Qed.

Lemma bset_nth_app_r a : forall b n j v, length a = n -> bset_nth (a ++ b) (n + j) v = a ++ bset_nth b j v.
Proof.
  induction a as [|x a IH]; intros b n j v Hn; cbn [length] in Hn; subst n; cbn [app Nat.add]; [reflexivity|].
  cbn [bset_nth]. f_equal. apply IH. reflexivity.
Qed.

Lemma put_at_app3 l : forall a m c, length m = length l -> put_at (a ++ m ++ c) (length a) l = a ++ l ++ c.
Proof.
  induction l as [|x l IH]; intros a m c Hm.
  - destruct m; [reflexivity|discriminate].
  - destruct m as [|y m]; [discriminate|]. cbn [put_at].
    rewrite <- (Nat.add_0_r (length a)) at 1. rewrite bset_nth_app_r by reflexivity.
    cbn [app bset_nth].
    replace (a ++ x :: m ++ c) with ((a ++ [x]) ++ m ++ c) by (rewrite <- app_assoc; reflexivity).
    replace (S (length a)) with (length (a ++ [x])) by (rewrite app_length; cbn [length]; lia).
    rewrite IH by (cbn [length] in Hm; lia). rewrite <- app_assoc. reflexivity.
Qed.

Lemma skipn_add {A} n : forall m (l : list A), skipn (n + m) l = skipn m (skipn n l).
Proof.
  induction n as [|n IH]; intros m l; cbn [Nat.add skipn]; [reflexivity|].
  destruct l as [|x l]; [destruct m; reflexivity|]. apply IH.
Qed.

Lemma put_at_spec l d i : (i + length l <= length d)%nat ->
  put_at d i l = firstn i d ++ l ++ skipn (i + length l) d.
Proof.
  intros H.
  assert (Ea : length (firstn i d) = i) by (rewrite firstn_length; lia).
  assert (Em : length (firstn (length l) (skipn i d)) = length l)
    by (rewrite firstn_length, skipn_length; lia).
  assert (Ed : d = firstn i d ++ firstn (length l) (skipn i d) ++ skipn (i + length l) d).
  { rewrite skipn_add, !firstn_skipn. reflexivity. }
  pose proof (put_at_app3 l (firstn i d) _ (skipn (i + length l) d) Em) as P.
  rewrite Ea, <- Ed in P. exact P.
Qed.

Lemma put_at_app a : forall d i b, put_at d i (a ++ b) = put_at (put_at d i a) (i + length a) b.
Proof.
  induction a as [|x a IH]; intros d i b; cbn [app put_at length].
  - rewrite Nat.add_0_r. reflexivity.
  - rewrite IH. f_equal. lia.
Qed.

Lemma firstn_exact {A} (a b : list A) n : length a = n -> firstn n (a ++ b) = a.
Proof. intros <-. rewrite firstn_app, Nat.sub_diag, firstn_all. cbn [firstn]. apply app_nil_r. Qed.

Lemma skipn_exact {A} (a b : list A) n : length a = n -> skipn n (a ++ b) = b.
Proof. intros <-. rewrite skipn_app, Nat.sub_diag, skipn_all. reflexivity. Qed.

Lemma firstn_app_repeat (a : list N) n m p : length a = n -> (m <= p)%nat ->
  firstn (n + m) (a ++ repeat 0 p) = a ++ repeat 0 m.
Proof.
  intros <- H. rewrite firstn_app. rewrite firstn_all2 by lia. f_equal.
  replace (length a + m - length a)%nat with m by lia.
  replace p with (m + (p - m))%nat by lia. rewrite repeat_app. apply firstn_exact. apply repeat_length.
Qed.

(* ------------------------------------------------------------------ characters *)
Lemma in_range_range c lo n : In c (range lo n) -> lo <= c < lo + N.of_nat n.
Proof.
  revert lo. induction n as [|n IH]; intros lo; cbn [range In]; [tauto|].
  intros [H|H]; [lia|]. apply IH in H. lia.
Qed.

Lemma hexdig_in c : In c HEXDIG -> is_hexdig c = true.
Proof.
  unfold HEXDIG, DIGIT. rewrite !in_app_iff. unfold is_hexdig, is_digit, is_hex_upper, is_hex_lower, in_range.
  intros [H|[H|H]]; apply in_range_range in H; lia.
Qed.

Lemma digit_in c : In c DIGIT -> is_digit c = true.
Proof. unfold DIGIT, is_digit, in_range. intros H. apply in_range_range in H. lia. Qed.

Lemma hexdig_to_int_lt c : is_hexdig c = true -> hexdig_to_int c < 16.
Proof.
  unfold is_hexdig, hexdig_to_int. intros H.
  destruct (is_digit c) eqn:E1; [unfold is_digit, in_range in E1; lia|].
  destruct (is_hex_lower c) eqn:E2; [unfold is_hex_lower, in_range in E2; lia|].
  destruct (is_hex_upper c) eqn:E3; [unfold is_hex_upper, in_range in E3; lia|lia].
Qed.

Lemma hexdig_not_colon c : is_hexdig c = true -> (c =? 58) = false /\ (c =? 46) = false.
Proof. unfold is_hexdig, is_digit, is_hex_upper, is_hex_lower, in_range. lia. Qed.

Lemma digit_hexdig c : is_digit c = true -> is_hexdig c = true.
Proof. unfold is_hexdig. intros ->. reflexivity. Qed.

Lemma digit_to_int c : is_digit c = true -> hexdig_to_int c = c - 48.
Proof. unfold hexdig_to_int. intros ->. reflexivity. Qed.

(* ------------------------------------------------------------------ groups and their values *)
Definition is_h16 (g : text) : Prop := forallb is_hexdig g = true /\ (1 <= length g <= 4)%nat.
Definition is_oct (o : text) : Prop :=
  forallb is_digit o = true /\ (1 <= length o <= 3)%nat /\ dec_value o <= 255.

(* the 16-bit group as two bytes *)
Definition gv (g : text) : list N := let v := hex_value g in [v / 256; v mod 256].
Definition den (G : list text) : list N := flat_map gv G.

Lemma den_length G : length (den G) = (2 * length G)%nat.
Proof. induction G as [|g G IH]; cbn [den flat_map length]; [reflexivity|]. rewrite app_length. fold (den G). rewrite IH. cbn [gv length]. lia. Qed.

Lemma den_app G H : den (G ++ H) = den G ++ den H.
Proof. unfold den. apply flat_map_app. Qed.

Lemma quad_bytes_value g : is_h16 g -> quad_bytes (map hexdig_to_int g) = gv g.
Proof.
  intros [Hh [H1 H4]]. unfold gv, hex_value.
  destruct g as [|a [|b [|c [|d [|e g]]]]]; cbn [length] in H1, H4; try lia;
    cbn [forallb] in Hh; rewrite ?andb_true_iff in Hh;
    repeat match goal with H : _ /\ _ |- _ => destruct H end;
    repeat match goal with H : is_hexdig _ = true |- _ => apply hexdig_to_int_lt in H end;
    cbn [map quad_bytes fold_left];
    match goal with |- [?p; ?q] = [?r; ?s] =>
      assert (E1 : p = r) by dm_lia; assert (E2 : q = s) by dm_lia;
      exact (f_equal2 (fun x y => [x; y]) E1 E2) end.
Qed.

Lemma octet_value_dec o : is_oct o -> octet_value (map hexdig_to_int o) = dec_value o.
Proof.
  intros [Hd [[H1 H3] Hv]]. unfold dec_value in *.
  destruct o as [|a [|b [|c [|d o]]]]; cbn [length] in H1, H3; try lia;
    cbn [forallb] in Hd; rewrite ?andb_true_iff in Hd;
    repeat match goal with H : _ /\ _ |- _ => destruct H end;
    cbn [map octet_value fold_left] in *;
    repeat match goal with H : is_digit ?x = true |- _ =>
      rewrite (digit_to_int x H); unfold is_digit, in_range in H end;
    dm_lia.
Qed.

(* ------------------------------------------------------------------ text shapes *)
(* g1 ":" g2 ":" ... gn ":" *)
Fixpoint groupsc (G : list text) : text :=
  match G with [] => [] | g :: r => g ++ 58 :: groupsc r end.
(* g1 ":" g2 ... ":" gn *)
Fixpoint joinc (G : list text) : text :=
  match G with [] => [] | g :: r => match r with [] => g | _ => g ++ 58 :: joinc r end end.

Inductive tail := TNone | TH (g : text) | T4 (a b c d : text).
Definition tail_text (t : tail) : text :=
  match t with TNone => [] | TH g => g | T4 a b c d => a ++ 46 :: b ++ 46 :: c ++ 46 :: d end.
Definition tail_ok (t : tail) : Prop :=
  match t with TNone => True | TH g => is_h16 g | T4 a b c d => is_oct a /\ is_oct b /\ is_oct c /\ is_oct d end.
Definition tail_val (t : tail) : list N :=
  match t with TNone => [] | TH g => gv g
  | T4 a b c d => [dec_value a; dec_value b; dec_value c; dec_value d] end.
Definition tail_len (t : tail) : nat := match t with TNone => 0 | TH _ => 2 | T4 _ _ _ _ => 4 end.

Lemma tail_val_length t : length (tail_val t) = tail_len t.
Proof. destruct t; reflexivity. Qed.

Lemma groupsc_app G H : groupsc (G ++ H) = groupsc G ++ groupsc H.
Proof. induction G as [|g G IH]; cbn [groupsc app]; [reflexivity|]. rewrite IH, <- app_assoc. reflexivity. Qed.

Lemma joinc_cons2 x y r : joinc (x :: y :: r) = x ++ 58 :: joinc (y :: r).
Proof. reflexivity. Qed.

Lemma joinc_snoc G g : joinc (G ++ [g]) = groupsc G ++ g.
Proof.
  induction G as [|x G IH]; cbn [app groupsc]; [reflexivity|].
  destruct (G ++ [g]) eqn:E; [destruct G; discriminate|].
  rewrite joinc_cons2, IH, <- app_assoc. reflexivity.
Qed.

(* the two shapes of an IPv6 text *)
Inductive ip6_shape : text -> Prop :=
| ShFull L t : Forall is_h16 L -> tail_ok t -> t <> TNone -> (2 * length L + tail_len t = 16)%nat ->
    ip6_shape (groupsc L ++ tail_text t)
| ShZip L R t : Forall is_h16 L -> Forall is_h16 R -> tail_ok t -> (t = TNone -> R = []) ->
    (2 * length L + 2 * length R + tail_len t <= 14)%nat ->
    ip6_shape (joinc L ++ 58 :: 58 :: groupsc R ++ tail_text t).

(* text that starts with a character other than ":" *)
Definition nc (t : text) : Prop := exists c r, t = c :: r /\ (c =? 58) = false.

Lemma nc_h16 g x : is_h16 g -> nc (g ++ x).
Proof.
  intros [Hh [H1 _]]. destruct g as [|c g]; [cbn [length] in H1; lia|].
  cbn [forallb] in Hh. apply andb_true_iff in Hh. destruct Hh as [Hc _].
  exists c, (g ++ x). split; [reflexivity|]. apply hexdig_not_colon. exact Hc.
Qed.

Lemma nc_oct o x : is_oct o -> nc (o ++ x).
Proof.
  intros [Hh [[H1 _] _]]. destruct o as [|c g]; [cbn [length] in H1; lia|].
  cbn [forallb] in Hh. apply andb_true_iff in Hh. destruct Hh as [Hc _].
  exists c, (g ++ x). split; [reflexivity|]. apply hexdig_not_colon. apply digit_hexdig. exact Hc.
Qed.

Lemma nc_tail t : tail_ok t -> t <> TNone -> nc (tail_text t).
Proof.
  destruct t as [|g|a b c d]; cbn [tail_ok tail_text]; intros H Hn; [congruence| |].
  - rewrite <- (app_nil_r g). apply nc_h16. exact H.
  - apply nc_oct. apply H.
Qed.

Lemma nc_groupsc G x : Forall is_h16 G -> nc x -> nc (groupsc G ++ x).
Proof.
  intros HG Hx. destruct G as [|g G]; [exact Hx|]. cbn [groupsc]. rewrite <- app_assoc.
  apply nc_h16. inversion HG; assumption.
Qed.
(* ------------------------------------------------------------------ the scanner *)
Definition mk (d h : list N) (z : bool) (k : nat) (q : list N) (i : nat) : v6st :=
  {| v_data := d; v_hist := h; v_zip := z; v_quads := k; v_qaz := q; v_ip4 := i |}.

Lemma hexdig_58 : is_hexdig 58 = false. Proof. reflexivity. Qed.
Lemma hexdig_46 : is_hexdig 46 = false. Proof. reflexivity. Qed.

Lemma scan_hex g : forall d h z k q i rest, forallb is_hexdig g = true ->
  v6_scan (mk d h z k q i) (g ++ rest) = v6_scan (mk d (h ++ map hexdig_to_int g) z k q i) rest.
Proof.
  induction g as [|c g IH]; intros d h z k q i rest Hg; cbn [app map].
  - rewrite app_nil_r. reflexivity.
  - cbn [forallb] in Hg. apply andb_true_iff in Hg. destruct Hg as [Hc Hg].
    cbn [v6_scan]. rewrite Hc. unfold mk in *. cbn [v_data v_hist v_zip v_quads v_qaz v_ip4].
    rewrite IH by exact Hg. rewrite <- app_assoc. reflexivity.
Qed.

(* ":" followed by something else than ":" *)
Lemma scan_colon s rest : nc rest -> v6_scan s (58 :: rest) = v6_scan (v6_flush_quad s) rest.
Proof.
  intros [c [r [-> Hc]]]. cbn [v6_scan]. rewrite hexdig_58, N.eqb_refl, Hc. reflexivity.
Qed.

Lemma scan_dcolon s rest :
  v6_scan s (58 :: 58 :: rest) =
  let s1 := v6_flush_quad s in
  v6_scan (mk (zero_from (v_data s1) (2 * v_quads s1)) [] true (v_quads s1) (v_qaz s1) (v_ip4 s1)) rest.
Proof. cbn [v6_scan]. rewrite hexdig_58, !N.eqb_refl. reflexivity. Qed.

Lemma scan_dot d h z k q i rest :
  v6_scan (mk d h z k q i) (46 :: rest) = v6_scan (mk (bset_nth d (12 + i) (octet_value h)) [] z k q (S i)) rest.
Proof. cbn [v6_scan]. rewrite hexdig_46. reflexivity. Qed.

Lemma map_nonempty g : is_h16 g -> exists x r, map hexdig_to_int g = x :: r.
Proof. intros [_ [H1 _]]. destruct g as [|c g]; [cbn [length] in H1; lia|]. cbn [map]. eauto. Qed.

Lemma flush1 d g k q i : is_h16 g ->
  v6_flush_quad (mk d (map hexdig_to_int g) false k q i) = mk (put_at d (2 * k) (gv g)) [] false (S k) q i.
Proof.
  intros Hg. rewrite <- (quad_bytes_value g Hg). destruct (map_nonempty g Hg) as [x [r E]].
  unfold v6_flush_quad, mk. cbn [v_data v_hist v_zip v_quads v_qaz v_ip4]. rewrite E. reflexivity.
Qed.

Lemma flush2 d g k q i : is_h16 g ->
  v6_flush_quad (mk d (map hexdig_to_int g) true k q i) = mk d [] true (S k) (q ++ gv g) i.
Proof.
  intros Hg. rewrite <- (quad_bytes_value g Hg). destruct (map_nonempty g Hg) as [x [r E]].
  unfold v6_flush_quad, mk. cbn [v_data v_hist v_zip v_quads v_qaz v_ip4]. rewrite E. reflexivity.
Qed.

Lemma flush0 d z k q i : v6_flush_quad (mk d [] z k q i) = mk d [] z k q i.
Proof. reflexivity. Qed.

(* groups before "::" *)
Lemma scan_groups1 G : forall d k rest, Forall is_h16 G -> nc rest ->
  v6_scan (mk d [] false k [] 0) (groupsc G ++ rest) =
  v6_scan (mk (put_at d (2 * k) (den G)) [] false (k + length G) [] 0) rest.
Proof.
  induction G as [|g G IH]; intros d k rest HG Hr; cbn [groupsc app den flat_map length put_at].
  - rewrite Nat.add_0_r. reflexivity.
  - inversion HG as [|? ? Hg HG']; subst. rewrite <- app_assoc. cbn [app].
    rewrite scan_hex by apply Hg. cbn [app].
    rewrite scan_colon by (apply nc_groupsc; assumption).
    rewrite flush1 by exact Hg. rewrite IH by assumption.
    fold (den G). rewrite put_at_app. cbn [gv length].
    replace (2 * k + 2)%nat with (2 * S k)%nat by lia.
    replace (S k + length G)%nat with (k + S (length G))%nat by lia. reflexivity.
Qed.

(* groups after "::" *)
Lemma scan_groups2 G : forall d k q rest, Forall is_h16 G -> nc rest ->
  exists k', v6_scan (mk d [] true k q 0) (groupsc G ++ rest) = v6_scan (mk d [] true k' (q ++ den G) 0) rest.
Proof.
  induction G as [|g G IH]; intros d k q rest HG Hr; cbn [groupsc app den flat_map].
  - exists k. rewrite app_nil_r. reflexivity.
  - inversion HG as [|? ? Hg HG']; subst. rewrite <- app_assoc. cbn [app].
    rewrite scan_hex by apply Hg. cbn [app].
    rewrite scan_colon by (apply nc_groupsc; assumption).
    rewrite flush2 by exact Hg. destruct (IH d (S k) (q ++ gv g) rest HG' Hr) as [k' E].
    exists k'. rewrite E. fold (den G). rewrite <- app_assoc. reflexivity.
Qed.

(* the part up to and including "::" *)
Lemma scan_left L : forall d k rest, Forall is_h16 L ->
  v6_scan (mk d [] false k [] 0) (joinc L ++ 58 :: 58 :: rest) =
  v6_scan (mk (zero_from (put_at d (2 * k) (den L)) (2 * (k + length L))) [] true (k + length L) [] 0) rest.
Proof.
  induction L as [|g L IH]; intros d k rest HL.
  - cbn [joinc app den flat_map put_at length]. rewrite scan_dcolon, flush0. cbn zeta.
    unfold mk at 2 3 4 5. cbn [v_data v_hist v_zip v_quads v_qaz v_ip4]. rewrite Nat.add_0_r. reflexivity.
  - inversion HL as [|? ? Hg HL']; subst. destruct L as [|g2 L].
    + cbn [joinc den flat_map length]. rewrite app_nil_r.
      rewrite scan_hex by apply Hg. cbn [app]. rewrite scan_dcolon, flush1 by exact Hg. cbn zeta.
      unfold mk at 2 3 4 5. cbn [v_data v_hist v_zip v_quads v_qaz v_ip4].
      replace (k + 1)%nat with (S k) by lia. reflexivity.
    + rewrite joinc_cons2. rewrite <- app_assoc. cbn [app].
      rewrite scan_hex by apply Hg. cbn [app].
      rewrite scan_colon.
      2:{ inversion HL' as [|? ? Hg2 _]; subst. destruct L; [|rewrite joinc_cons2, <- app_assoc]; apply nc_h16; exact Hg2. }
      rewrite flush1 by exact Hg. rewrite IH by exact HL'.
      change (den (g :: g2 :: L)) with (gv g ++ den (g2 :: L)). rewrite put_at_app.
      change (length (gv g)) with 2%nat. change (length (g :: g2 :: L)) with (S (length (g2 :: L))).
      replace (2 * k + 2)%nat with (2 * S k)%nat by lia.
      replace (S k + length (g2 :: L))%nat with (k + S (length (g2 :: L)))%nat by lia. reflexivity.
Qed.

(* ------------------------------------------------------------------ the closing bracket *)
Lemma firstn_le_app {A} (a b : list A) n : (n <= length a)%nat -> firstn n (a ++ b) = firstn n a.
Proof. intros H. rewrite firstn_app. replace (n - length a)%nat with 0%nat by lia. cbn [firstn]. apply app_nil_r. Qed.

Lemma ip4_data d q v1 v2 v3 v4 : length d = 16%nat -> (length q <= 12)%nat ->
  bset_nth (put_at (bset_nth (bset_nth (bset_nth d (12 + 0) v1) (12 + 1) v2) (12 + 2) v3)
                   (16 - 4 - length q) q) 15 v4
  = firstn (12 - length q) d ++ q ++ [v1; v2; v3; v4].
Proof.
  intros Hd Hq. rewrite <- (firstn_skipn 12 d).
  assert (HX : length (firstn 12 d) = 12%nat) by (rewrite firstn_length; lia).
  assert (HY : length (skipn 12 d) = 4%nat) by (rewrite skipn_length; lia).
  set (X := firstn 12 d) in *. destruct (skipn 12 d) as [|y0 [|y1 [|y2 [|y3 [|y4 Y]]]]]; try discriminate.
  rewrite !bset_nth_app_r by exact HX. cbn [bset_nth].
  rewrite put_at_spec by (rewrite app_length; cbn [length]; lia).
  replace (16 - 4 - length q + length q)%nat with 12%nat by lia.
  rewrite skipn_exact by exact HX.
  rewrite !firstn_le_app by lia.
  replace (16 - 4 - length q)%nat with (12 - length q)%nat by lia.
  rewrite app_assoc.
  change 15%nat with (12 + 3)%nat. rewrite bset_nth_app_r.
  - cbn [bset_nth]. rewrite <- app_assoc. reflexivity.
  - rewrite app_length, firstn_length. lia.
Qed.

Lemma close_tail t d z k q : tail_ok t -> length d = 16%nat -> (length q + tail_len t <= 16)%nat ->
  (z = false -> q = [] /\ (2 * k + tail_len t = 16)%nat /\ t <> TNone) ->
  v6_close (v6_scan (mk d [] z k q 0) (tail_text t)) = firstn (16 - length q - tail_len t) d ++ q ++ tail_val t.
Proof.
  intros Ht Hd Hlen Hz. destruct t as [|g|a b c e]; cbn [tail_text tail_val tail_len tail_ok] in *.
  - destruct z; [|destruct (Hz eq_refl) as [_ [_ F]]; congruence].
    cbn [v6_scan]. unfold v6_close, mk. cbn [v_data v_hist v_zip v_quads v_qaz v_ip4 Nat.eqb].
    rewrite put_at_spec by lia. rewrite skipn_all2 by lia. rewrite !app_nil_r, Nat.sub_0_r. reflexivity.
  - rewrite <- (app_nil_r g) at 1. rewrite scan_hex by apply Ht. cbn [v6_scan app].
    destruct (map_nonempty g Ht) as [x [r E]]. rewrite <- (quad_bytes_value g Ht).
    unfold v6_close, mk. cbn [v_data v_hist v_zip v_quads v_qaz v_ip4 Nat.eqb]. rewrite E, <- E.
    assert (Hl : length (quad_bytes (map hexdig_to_int g)) = 2%nat) by (rewrite quad_bytes_value by exact Ht; reflexivity).
    destruct z; cbn [v_data v_hist v_zip v_quads v_qaz v_ip4].
    + rewrite put_at_spec by (rewrite app_length; lia). rewrite skipn_all2 by (rewrite app_length; lia).
      rewrite app_length, Hl, app_nil_r. f_equal. f_equal. lia.
    + destruct (Hz eq_refl) as [-> [Hk _]]. cbn [put_at length app].
      rewrite put_at_spec by lia. rewrite skipn_all2 by lia. rewrite app_nil_r. f_equal. f_equal. lia.
  - destruct Ht as [Ha [Hb [Hc He]]].
    assert (HH : forall o, is_oct o -> forallb is_hexdig o = true).
    { intros o [Ho _]. rewrite forallb_forall in *. intros x Hx. apply digit_hexdig. auto. }
    rewrite scan_hex by auto. cbn [app]. rewrite scan_dot.
    rewrite scan_hex by auto. cbn [app]. rewrite scan_dot.
    rewrite scan_hex by auto. cbn [app]. rewrite scan_dot.
    rewrite <- (app_nil_r e) at 1. rewrite scan_hex by auto. cbn [app v6_scan].
    unfold v6_close, mk. cbn [v_data v_hist v_zip v_quads v_qaz v_ip4 Nat.eqb].
    rewrite !octet_value_dec by assumption.
    rewrite ip4_data by lia. f_equal. f_equal. lia.
Qed.

(* ------------------------------------------------------------------ the scanner on the two shapes *)
Lemma init_mk : v6_init = mk (repeat 0 16) [] false 0 [] 0.
Proof. reflexivity. Qed.

Lemma put_den_init L : (2 * length L <= 16)%nat ->
  put_at (repeat 0 16) (2 * 0) (den L) = den L ++ repeat 0 (16 - 2 * length L).
Proof.
  intros H. rewrite put_at_spec by (rewrite den_length, repeat_length; lia).
  cbn [Nat.mul firstn app Nat.add]. f_equal. rewrite den_length.
  replace 16%nat with (2 * length L + (16 - 2 * length L))%nat at 1 by lia.
  rewrite repeat_app. apply skipn_exact. apply repeat_length.
Qed.

Theorem model_full L t : Forall is_h16 L -> tail_ok t -> t <> TNone -> (2 * length L + tail_len t = 16)%nat ->
  ip6_bytes (groupsc L ++ tail_text t) = den L ++ tail_val t.
Proof.
  intros HL Ht Hn Hlen. unfold ip6_bytes. rewrite init_mk.
  rewrite scan_groups1 by (auto using nc_tail).
  rewrite put_den_init by lia.
  rewrite close_tail.
  - cbn [length app]. f_equal. apply firstn_exact. rewrite den_length. lia.
  - exact Ht.
  - rewrite app_length, den_length, repeat_length. lia.
  - cbn [length]. lia.
  - intros _. repeat split; auto; lia.
Qed.

Theorem model_zip L R t : Forall is_h16 L -> Forall is_h16 R -> tail_ok t -> (t = TNone -> R = []) ->
  (2 * length L + 2 * length R + tail_len t <= 14)%nat ->
  ip6_bytes (joinc L ++ 58 :: 58 :: groupsc R ++ tail_text t)
  = den L ++ repeat 0 (16 - 2 * length L - 2 * length R - tail_len t) ++ den R ++ tail_val t.
Proof.
  intros HL HR Ht Hn Hlen. unfold ip6_bytes. rewrite init_mk.
  rewrite scan_left by exact HL. rewrite put_den_init by lia.
  assert (E : exists k', v6_scan (mk (zero_from (den L ++ repeat 0 (16 - 2 * length L)) (2 * (0 + length L))) [] true (0 + length L) [] 0)
                           (groupsc R ++ tail_text t)
                 = v6_scan (mk (zero_from (den L ++ repeat 0 (16 - 2 * length L)) (2 * (0 + length L))) [] true k' ([] ++ den R) 0)
                           (tail_text t)).
  { destruct t as [|g|a b c e].
    - rewrite (Hn eq_refl). exists (0 + length L)%nat. reflexivity.
    - apply scan_groups2; [exact HR|]. apply nc_tail; [exact Ht|discriminate].
    - apply scan_groups2; [exact HR|]. apply nc_tail; [exact Ht|discriminate]. }
  destruct E as [k' E]. rewrite E. cbn [app].
  rewrite zero_from_spec. rewrite app_length, den_length, repeat_length. cbn [Nat.add].
  rewrite firstn_exact by (rewrite den_length; reflexivity).
  rewrite close_tail.
  - rewrite den_length.
    replace (16 - 2 * length R - tail_len t)%nat with (2 * length L + (16 - 2 * length L - 2 * length R - tail_len t))%nat by lia.
    rewrite firstn_app_repeat by (rewrite ?den_length; lia). rewrite <- app_assoc. reflexivity.
  - exact Ht.
  - rewrite app_length, den_length, repeat_length. lia.
  - rewrite den_length. lia.
  - discriminate.
Qed.
