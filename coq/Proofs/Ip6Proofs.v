(* IPv6 literals: the sixteen bytes stored by the scanner (Model.Parse.ip6_bytes, mirror of
   uriParseIPv6address2) are the value RFC 4291 assigns to the text (Spec.Split.ip6_value), for
   every text of the RFC 3986 rule IPv6address; and the printing of the sixteen bytes by
   uriToString is the full eight-group lower-case text, which denotes the same address.

   Route: (1) [ip6_shape]: the texts of IPv6address are  groups ":" ... tail  or
   left "::" right tail  with 1-4 hex digit groups, an optional dotted-quad tail, and a bound on
   the number of groups ([ip6_shape_of_matches], by inversion of the regular expression);
   (2) the scanner on such a text ([model_full], [model_zip]);  (3) the RFC 4291 reading of such a
   text ([spec_full], [spec_zip]);  both are the same explicit list of bytes. *)
From Coq Require Import List NArith Bool Lia ZifyBool ZifyN ZArith.
From UP Require Import Base.Chars Base.Regex Spec.Rfc3986 Spec.Split Spec.Recompose Model.Parse Model.Recompose.
Import ListNotations.
Local Open Scope N_scope.

Ltac dm_lia := zify; Z.to_euclidean_division_equations; lia.

(* ------------------------------------------------------------------ list surgery *)
Lemma bset_nth_length d : forall i v, length (bset_nth d i v) = length d.
Proof. induction d as [|x d IH]; intros [|i] v; cbn [bset_nth length]; auto. Qed.

Lemma put_at_length l : forall d i, length (put_at d i l) = length d.
Proof. induction l as [|x l IH]; intros d i; cbn [put_at]; [reflexivity|]. rewrite IH. apply bset_nth_length. Qed.

Lemma zero_from_spec d : forall i, zero_from d i = firstn i d ++ repeat 0 (length d - i).
Proof.
  induction d as [|x d IH]; intros [|i]; cbn [zero_from firstn length Nat.sub repeat app]; auto.
  - f_equal. rewrite IH. cbn [firstn app]. rewrite Nat.sub_0_r. reflexivity.
  - f_equal. apply IH.
Qed.

Lemma bset_nth_app_r a : forall b n j v, length a = n -> bset_nth (a ++ b) (n + j) v = a ++ bset_nth b j v.
Proof.
  induction a as [|x a IH]; intros b n j v Hn; cbn [length] in Hn; subst n; cbn [app Nat.add]; [reflexivity|].
  cbn [bset_nth]. f_equal. apply IH. reflexivity.
Qed.

Lemma put_at_app3 l : forall a m c, length m = length l -> put_at (a ++ m ++ c) (length a) l = a ++ l ++ c.
Proof.
  induction l as [|x l IH]; intros a m c Hm.
  - destruct m; [reflexivity|discriminate].
  - destruct m as [|y m]; [discriminate|]. cbn [put_at].
    rewrite <- (Nat.add_0_r (length a)) at 1. rewrite bset_nth_app_r by reflexivity.
    cbn [app bset_nth].
    replace (a ++ x :: m ++ c) with ((a ++ [x]) ++ m ++ c) by (rewrite <- app_assoc; reflexivity).
    replace (S (length a)) with (length (a ++ [x])) by (rewrite app_length; cbn [length]; lia).
    rewrite IH by (cbn [length] in Hm; lia). rewrite <- app_assoc. reflexivity.
Qed.

Lemma skipn_add {A} n : forall m (l : list A), skipn (n + m) l = skipn m (skipn n l).
Proof.
  induction n as [|n IH]; intros m l; cbn [Nat.add skipn]; [reflexivity|].
  destruct l as [|x l]; [destruct m; reflexivity|]. apply IH.
Qed.

Lemma put_at_spec l d i : (i + length l <= length d)%nat ->
  put_at d i l = firstn i d ++ l ++ skipn (i + length l) d.
Proof.
  intros H.
  assert (Ea : length (firstn i d) = i) by (rewrite firstn_length; lia).
  assert (Em : length (firstn (length l) (skipn i d)) = length l)
    by (rewrite firstn_length, skipn_length; lia).
  assert (Ed : d = firstn i d ++ firstn (length l) (skipn i d) ++ skipn (i + length l) d).
  { rewrite skipn_add, !firstn_skipn. reflexivity. }
  pose proof (put_at_app3 l (firstn i d) _ (skipn (i + length l) d) Em) as P.
  rewrite Ea, <- Ed in P. exact P.
Qed.

Lemma put_at_app a : forall d i b, put_at d i (a ++ b) = put_at (put_at d i a) (i + length a) b.
Proof.
  induction a as [|x a IH]; intros d i b; cbn [app put_at length].
  - rewrite Nat.add_0_r. reflexivity.
  - rewrite IH. f_equal. lia.
Qed.

Lemma firstn_exact {A} (a b : list A) n : length a = n -> firstn n (a ++ b) = a.
Proof. intros <-. rewrite firstn_app, Nat.sub_diag, firstn_all. cbn [firstn]. apply app_nil_r. Qed.

Lemma skipn_exact {A} (a b : list A) n : length a = n -> skipn n (a ++ b) = b.
Proof. intros <-. rewrite skipn_app, Nat.sub_diag, skipn_all. reflexivity. Qed.

Lemma firstn_app_repeat (a : list N) n m p : length a = n -> (m <= p)%nat ->
  firstn (n + m) (a ++ repeat 0 p) = a ++ repeat 0 m.
Proof.
  intros <- H. rewrite firstn_app. rewrite firstn_all2 by lia. f_equal.
  replace (length a + m - length a)%nat with m by lia.
  replace p with (m + (p - m))%nat by lia. rewrite repeat_app. apply firstn_exact. apply repeat_length.
Qed.

(* ------------------------------------------------------------------ characters *)
Lemma in_range_range c lo n : In c (range lo n) -> lo <= c < lo + N.of_nat n.
Proof.
  revert lo. induction n as [|n IH]; intros lo; cbn [range In]; [tauto|].
  intros [H|H]; [lia|]. apply IH in H. lia.
Qed.

Lemma hexdig_in c : In c HEXDIG -> is_hexdig c = true.
Proof.
  unfold HEXDIG, DIGIT. rewrite !in_app_iff. unfold is_hexdig, is_digit, is_hex_upper, is_hex_lower, in_range.
  intros [H|[H|H]]; apply in_range_range in H; lia.
Qed.

Lemma digit_in c : In c DIGIT -> is_digit c = true.
Proof. unfold DIGIT, is_digit, in_range. intros H. apply in_range_range in H. lia. Qed.

Lemma hexdig_to_int_lt c : is_hexdig c = true -> hexdig_to_int c < 16.
Proof.
  unfold is_hexdig, hexdig_to_int. intros H.
  destruct (is_digit c) eqn:E1; [unfold is_digit, in_range in E1; lia|].
  destruct (is_hex_lower c) eqn:E2; [unfold is_hex_lower, in_range in E2; lia|].
  destruct (is_hex_upper c) eqn:E3; [unfold is_hex_upper, in_range in E3; lia|lia].
Qed.

Lemma hexdig_not_colon c : is_hexdig c = true -> (c =? 58) = false /\ (c =? 46) = false.
Proof. unfold is_hexdig, is_digit, is_hex_upper, is_hex_lower, in_range. lia. Qed.

Lemma digit_hexdig c : is_digit c = true -> is_hexdig c = true.
Proof. unfold is_hexdig. intros ->. reflexivity. Qed.

Lemma digit_to_int c : is_digit c = true -> hexdig_to_int c = c - 48.
Proof. unfold hexdig_to_int. intros ->. reflexivity. Qed.

(* ------------------------------------------------------------------ groups and their values *)
Definition is_h16 (g : text) : Prop := forallb is_hexdig g = true /\ (1 <= length g <= 4)%nat.
Definition is_oct (o : text) : Prop :=
  forallb is_digit o = true /\ (1 <= length o <= 3)%nat /\ dec_value o <= 255.

(* the 16-bit group as two bytes *)
Definition gv (g : text) : list N := let v := hex_value g in [v / 256; v mod 256].
Definition den (G : list text) : list N := flat_map gv G.

Lemma den_length G : length (den G) = (2 * length G)%nat.
Proof. induction G as [|g G IH]; cbn [den flat_map length]; [reflexivity|]. rewrite app_length. fold (den G). rewrite IH. cbn [gv length]. lia. Qed.

Lemma den_app G H : den (G ++ H) = den G ++ den H.
Proof. unfold den. apply flat_map_app. Qed.

Lemma quad_bytes_value g : is_h16 g -> quad_bytes (map hexdig_to_int g) = gv g.
Proof.
  intros [Hh [H1 H4]]. unfold gv, hex_value.
  destruct g as [|a [|b [|c [|d [|e g]]]]]; cbn [length] in H1, H4; try lia;
    cbn [forallb] in Hh; rewrite ?andb_true_iff in Hh;
    repeat match goal with H : _ /\ _ |- _ => destruct H end;
    repeat match goal with H : is_hexdig _ = true |- _ => apply hexdig_to_int_lt in H end;
    cbn [map quad_bytes fold_left];
    match goal with |- [?p; ?q] = [?r; ?s] =>
      assert (E1 : p = r) by dm_lia; assert (E2 : q = s) by dm_lia;
      exact (f_equal2 (fun x y => [x; y]) E1 E2) end.
Qed.

Lemma octet_value_dec o : is_oct o -> octet_value (map hexdig_to_int o) = dec_value o.
Proof.
  intros [Hd [[H1 H3] Hv]]. unfold dec_value in *.
  destruct o as [|a [|b [|c [|d o]]]]; cbn [length] in H1, H3; try lia;
    cbn [forallb] in Hd; rewrite ?andb_true_iff in Hd;
    repeat match goal with H : _ /\ _ |- _ => destruct H end;
    cbn [map octet_value fold_left] in *;
    repeat match goal with H : is_digit ?x = true |- _ =>
      rewrite (digit_to_int x H); unfold is_digit, in_range in H end;
    dm_lia.
Qed.

(* ------------------------------------------------------------------ text shapes *)
(* g1 ":" g2 ":" ... gn ":" *)
Fixpoint groupsc (G : list text) : text :=
  match G with [] => [] | g :: r => g ++ 58 :: groupsc r end.
(* g1 ":" g2 ... ":" gn *)
Fixpoint joinc (G : list text) : text :=
  match G with [] => [] | g :: r => match r with [] => g | _ => g ++ 58 :: joinc r end end.

Inductive tail := TNone | TH (g : text) | T4 (a b c d : text).
Definition tail_text (t : tail) : text :=
  match t with TNone => [] | TH g => g | T4 a b c d => a ++ 46 :: b ++ 46 :: c ++ 46 :: d end.
Definition tail_ok (t : tail) : Prop :=
  match t with TNone => True | TH g => is_h16 g | T4 a b c d => is_oct a /\ is_oct b /\ is_oct c /\ is_oct d end.
Definition tail_val (t : tail) : list N :=
  match t with TNone => [] | TH g => gv g
  | T4 a b c d => [dec_value a; dec_value b; dec_value c; dec_value d] end.
Definition tail_len (t : tail) : nat := match t with TNone => 0 | TH _ => 2 | T4 _ _ _ _ => 4 end.

Lemma tail_val_length t : length (tail_val t) = tail_len t.
Proof. destruct t; reflexivity. Qed.

Lemma groupsc_app G H : groupsc (G ++ H) = groupsc G ++ groupsc H.
Proof. induction G as [|g G IH]; cbn [groupsc app]; [reflexivity|]. rewrite IH, <- app_assoc. reflexivity. Qed.

Lemma joinc_cons2 x y r : joinc (x :: y :: r) = x ++ 58 :: joinc (y :: r).
Proof. reflexivity. Qed.

Lemma joinc_snoc G g : joinc (G ++ [g]) = groupsc G ++ g.
Proof.
  induction G as [|x G IH]; cbn [app groupsc]; [reflexivity|].
  destruct (G ++ [g]) eqn:E; [destruct G; discriminate|].
  rewrite joinc_cons2, IH, <- app_assoc. reflexivity.
Qed.

(* the two shapes of an IPv6 text *)
Inductive ip6_shape : text -> Prop :=
| ShFull L t : Forall is_h16 L -> tail_ok t -> t <> TNone -> (2 * length L + tail_len t = 16)%nat ->
    ip6_shape (groupsc L ++ tail_text t)
| ShZip L R t : Forall is_h16 L -> Forall is_h16 R -> tail_ok t -> (t = TNone -> R = []) ->
    (2 * length L + 2 * length R + tail_len t <= 14)%nat ->
    ip6_shape (joinc L ++ 58 :: 58 :: groupsc R ++ tail_text t).

(* text that starts with a character other than ":" *)
Definition nc (t : text) : Prop := exists c r, t = c :: r /\ (c =? 58) = false.

Lemma nc_h16 g x : is_h16 g -> nc (g ++ x).
Proof.
  intros [Hh [H1 _]]. destruct g as [|c g]; [cbn [length] in H1; lia|].
  cbn [forallb] in Hh. apply andb_true_iff in Hh. destruct Hh as [Hc _].
  exists c, (g ++ x). split; [reflexivity|]. apply hexdig_not_colon. exact Hc.
Qed.

Lemma nc_oct o x : is_oct o -> nc (o ++ x).
Proof.
  intros [Hh [[H1 _] _]]. destruct o as [|c g]; [cbn [length] in H1; lia|].
  cbn [forallb] in Hh. apply andb_true_iff in Hh. destruct Hh as [Hc _].
  exists c, (g ++ x). split; [reflexivity|]. apply hexdig_not_colon. apply digit_hexdig. exact Hc.
Qed.

Lemma nc_tail t : tail_ok t -> t <> TNone -> nc (tail_text t).
Proof.
  destruct t as [|g|a b c d]; cbn [tail_ok tail_text]; intros H Hn; [congruence| |].
  - rewrite <- (app_nil_r g). apply nc_h16. exact H.
  - apply nc_oct. apply H.
Qed.

Lemma nc_groupsc G x : Forall is_h16 G -> nc x -> nc (groupsc G ++ x).
Proof.
  intros HG Hx. destruct G as [|g G]; [exact Hx|]. cbn [groupsc]. rewrite <- app_assoc.
  apply nc_h16. inversion HG; assumption.
Qed.
(* ------------------------------------------------------------------ the scanner *)
Definition mk (d h : list N) (z : bool) (k : nat) (q : list N) (i : nat) : v6st :=
  {| v_data := d; v_hist := h; v_zip := z; v_quads := k; v_qaz := q; v_ip4 := i |}.

Lemma hexdig_58 : is_hexdig 58 = false. Proof. reflexivity. Qed.
Lemma hexdig_46 : is_hexdig 46 = false. Proof. reflexivity. Qed.

Lemma scan_hex g : forall d h z k q i rest, forallb is_hexdig g = true ->
  v6_scan (mk d h z k q i) (g ++ rest) = v6_scan (mk d (h ++ map hexdig_to_int g) z k q i) rest.
Proof.
  induction g as [|c g IH]; intros d h z k q i rest Hg; cbn [app map].
  - rewrite app_nil_r. reflexivity.
  - cbn [forallb] in Hg. apply andb_true_iff in Hg. destruct Hg as [Hc Hg].
    cbn [v6_scan]. rewrite Hc. unfold mk in *. cbn [v_data v_hist v_zip v_quads v_qaz v_ip4].
    rewrite IH by exact Hg. rewrite <- app_assoc. reflexivity.
Qed.

(* ":" followed by something else than ":" *)
Lemma scan_colon s rest : nc rest -> v6_scan s (58 :: rest) = v6_scan (v6_flush_quad s) rest.
Proof.
  intros [c [r [-> Hc]]]. cbn [v6_scan]. rewrite hexdig_58, N.eqb_refl, Hc. reflexivity.
Qed.

Lemma scan_dcolon s rest :
  v6_scan s (58 :: 58 :: rest) =
  let s1 := v6_flush_quad s in
  v6_scan (mk (zero_from (v_data s1) (2 * v_quads s1)) [] true (v_quads s1) (v_qaz s1) (v_ip4 s1)) rest.
Proof. cbn [v6_scan]. rewrite hexdig_58, !N.eqb_refl. reflexivity. Qed.

Lemma scan_dot d h z k q i rest :
  v6_scan (mk d h z k q i) (46 :: rest) = v6_scan (mk (bset_nth d (12 + i) (octet_value h)) [] z k q (S i)) rest.
Proof. cbn [v6_scan]. rewrite hexdig_46. reflexivity. Qed.

Lemma map_nonempty g : is_h16 g -> exists x r, map hexdig_to_int g = x :: r.
Proof. intros [_ [H1 _]]. destruct g as [|c g]; [cbn [length] in H1; lia|]. cbn [map]. eauto. Qed.

Lemma flush1 d g k q i : is_h16 g ->
  v6_flush_quad (mk d (map hexdig_to_int g) false k q i) = mk (put_at d (2 * k) (gv g)) [] false (S k) q i.
Proof.
  intros Hg. rewrite <- (quad_bytes_value g Hg). destruct (map_nonempty g Hg) as [x [r E]].
  unfold v6_flush_quad, mk. cbn [v_data v_hist v_zip v_quads v_qaz v_ip4]. rewrite E. reflexivity.
Qed.

Lemma flush2 d g k q i : is_h16 g ->
  v6_flush_quad (mk d (map hexdig_to_int g) true k q i) = mk d [] true (S k) (q ++ gv g) i.
Proof.
  intros Hg. rewrite <- (quad_bytes_value g Hg). destruct (map_nonempty g Hg) as [x [r E]].
  unfold v6_flush_quad, mk. cbn [v_data v_hist v_zip v_quads v_qaz v_ip4]. rewrite E. reflexivity.
Qed.

Lemma flush0 d z k q i : v6_flush_quad (mk d [] z k q i) = mk d [] z k q i.
Proof. reflexivity. Qed.

(* groups before "::" *)
Lemma scan_groups1 G : forall d k rest, Forall is_h16 G -> nc rest ->
  v6_scan (mk d [] false k [] 0) (groupsc G ++ rest) =
  v6_scan (mk (put_at d (2 * k) (den G)) [] false (k + length G) [] 0) rest.
Proof.
  induction G as [|g G IH]; intros d k rest HG Hr; cbn [groupsc app den flat_map length put_at].
  - rewrite Nat.add_0_r. reflexivity.
  - inversion HG as [|? ? Hg HG']; subst. rewrite <- app_assoc. cbn [app].
    rewrite scan_hex by apply Hg. cbn [app].
    rewrite scan_colon by (apply nc_groupsc; assumption).
    rewrite flush1 by exact Hg. rewrite IH by assumption.
    fold (den G). rewrite put_at_app. cbn [gv length].
    replace (2 * k + 2)%nat with (2 * S k)%nat by lia.
    replace (S k + length G)%nat with (k + S (length G))%nat by lia. reflexivity.
Qed.

(* groups after "::" *)
Lemma scan_groups2 G : forall d k q rest, Forall is_h16 G -> nc rest ->
  exists k', v6_scan (mk d [] true k q 0) (groupsc G ++ rest) = v6_scan (mk d [] true k' (q ++ den G) 0) rest.
Proof.
  induction G as [|g G IH]; intros d k q rest HG Hr; cbn [groupsc app den flat_map].
  - exists k. rewrite app_nil_r. reflexivity.
  - inversion HG as [|? ? Hg HG']; subst. rewrite <- app_assoc. cbn [app].
    rewrite scan_hex by apply Hg. cbn [app].
    rewrite scan_colon by (apply nc_groupsc; assumption).
    rewrite flush2 by exact Hg. destruct (IH d (S k) (q ++ gv g) rest HG' Hr) as [k' E].
    exists k'. rewrite E. fold (den G). rewrite <- app_assoc. reflexivity.
Qed.

(* the part up to and including "::" *)
Lemma scan_left L : forall d k rest, Forall is_h16 L ->
  v6_scan (mk d [] false k [] 0) (joinc L ++ 58 :: 58 :: rest) =
  v6_scan (mk (zero_from (put_at d (2 * k) (den L)) (2 * (k + length L))) [] true (k + length L) [] 0) rest.
Proof.
  induction L as [|g L IH]; intros d k rest HL.
  - cbn [joinc app den flat_map put_at length]. rewrite scan_dcolon, flush0. cbn zeta.
    unfold mk at 2 3 4 5. cbn [v_data v_hist v_zip v_quads v_qaz v_ip4]. rewrite Nat.add_0_r. reflexivity.
  - inversion HL as [|? ? Hg HL']; subst. destruct L as [|g2 L].
    + cbn [joinc den flat_map length]. rewrite app_nil_r.
      rewrite scan_hex by apply Hg. cbn [app]. rewrite scan_dcolon, flush1 by exact Hg. cbn zeta.
      unfold mk at 2 3 4 5. cbn [v_data v_hist v_zip v_quads v_qaz v_ip4].
      replace (k + 1)%nat with (S k) by lia. reflexivity.
    + rewrite joinc_cons2. rewrite <- app_assoc. cbn [app].
      rewrite scan_hex by apply Hg. cbn [app].
      rewrite scan_colon.
      2:{ inversion HL' as [|? ? Hg2 _]; subst. destruct L; [|rewrite joinc_cons2, <- app_assoc]; apply nc_h16; exact Hg2. }
      rewrite flush1 by exact Hg. rewrite IH by exact HL'.
      change (den (g :: g2 :: L)) with (gv g ++ den (g2 :: L)). rewrite put_at_app.
      change (length (gv g)) with 2%nat. change (length (g :: g2 :: L)) with (S (length (g2 :: L))).
      replace (2 * k + 2)%nat with (2 * S k)%nat by lia.
      replace (S k + length (g2 :: L))%nat with (k + S (length (g2 :: L)))%nat by lia. reflexivity.
Qed.

(* ------------------------------------------------------------------ the closing bracket *)
Lemma firstn_le_app {A} (a b : list A) n : (n <= length a)%nat -> firstn n (a ++ b) = firstn n a.
Proof. intros H. rewrite firstn_app. replace (n - length a)%nat with 0%nat by lia. cbn [firstn]. apply app_nil_r. Qed.

Lemma ip4_data d q v1 v2 v3 v4 : length d = 16%nat -> (length q <= 12)%nat ->
  bset_nth (put_at (bset_nth (bset_nth (bset_nth d (12 + 0) v1) (12 + 1) v2) (12 + 2) v3)
                   (16 - 4 - length q) q) 15 v4
  = firstn (12 - length q) d ++ q ++ [v1; v2; v3; v4].
Proof.
  intros Hd Hq. rewrite <- (firstn_skipn 12 d).
  assert (HX : length (firstn 12 d) = 12%nat) by (rewrite firstn_length; lia).
  assert (HY : length (skipn 12 d) = 4%nat) by (rewrite skipn_length; lia).
  set (X := firstn 12 d) in *. destruct (skipn 12 d) as [|y0 [|y1 [|y2 [|y3 [|y4 Y]]]]]; try discriminate.
  rewrite !bset_nth_app_r by exact HX. cbn [bset_nth].
  rewrite put_at_spec by (rewrite app_length; cbn [length]; lia).
  replace (16 - 4 - length q + length q)%nat with 12%nat by lia.
  rewrite skipn_exact by exact HX.
  rewrite !firstn_le_app by lia.
  replace (16 - 4 - length q)%nat with (12 - length q)%nat by lia.
  rewrite app_assoc.
  change 15%nat with (12 + 3)%nat. rewrite bset_nth_app_r.
  - cbn [bset_nth]. rewrite <- app_assoc. reflexivity.
  - rewrite app_length, firstn_length. lia.
Qed.

Lemma close_tail t d z k q : tail_ok t -> length d = 16%nat -> (length q + tail_len t <= 16)%nat ->
  (z = false -> q = [] /\ (2 * k + tail_len t = 16)%nat /\ t <> TNone) ->
  v6_close (v6_scan (mk d [] z k q 0) (tail_text t)) = firstn (16 - length q - tail_len t) d ++ q ++ tail_val t.
Proof.
  intros Ht Hd Hlen Hz. destruct t as [|g|a b c e]; cbn [tail_text tail_val tail_len tail_ok] in *.
  - destruct z; [|destruct (Hz eq_refl) as [_ [_ F]]; congruence].
    cbn [v6_scan]. unfold v6_close, mk. cbn [v_data v_hist v_zip v_quads v_qaz v_ip4 Nat.eqb].
    rewrite put_at_spec by lia. rewrite skipn_all2 by lia. rewrite !app_nil_r, Nat.sub_0_r. reflexivity.
  - rewrite <- (app_nil_r g) at 1. rewrite scan_hex by apply Ht. cbn [v6_scan app].
    destruct (map_nonempty g Ht) as [x [r E]]. rewrite <- (quad_bytes_value g Ht).
    unfold v6_close, mk. cbn [v_data v_hist v_zip v_quads v_qaz v_ip4 Nat.eqb]. rewrite E, <- E.
    assert (Hl : length (quad_bytes (map hexdig_to_int g)) = 2%nat) by (rewrite quad_bytes_value by exact Ht; reflexivity).
    destruct z; cbn [v_data v_hist v_zip v_quads v_qaz v_ip4].
    + rewrite put_at_spec by (rewrite app_length; lia). rewrite skipn_all2 by (rewrite app_length; lia).
      rewrite app_length, Hl, app_nil_r. f_equal. f_equal. lia.
    + destruct (Hz eq_refl) as [-> [Hk _]]. cbn [put_at length app].
      rewrite put_at_spec by lia. rewrite skipn_all2 by lia. rewrite app_nil_r. f_equal. f_equal. lia.
  - destruct Ht as [Ha [Hb [Hc He]]].
    assert (HH : forall o, is_oct o -> forallb is_hexdig o = true).
    { intros o [Ho _]. rewrite forallb_forall in *. intros x Hx. apply digit_hexdig. auto. }
    rewrite scan_hex by auto. cbn [app]. rewrite scan_dot.
    rewrite scan_hex by auto. cbn [app]. rewrite scan_dot.
    rewrite scan_hex by auto. cbn [app]. rewrite scan_dot.
    rewrite <- (app_nil_r e) at 1. rewrite scan_hex by auto. cbn [app v6_scan].
    unfold v6_close, mk. cbn [v_data v_hist v_zip v_quads v_qaz v_ip4 Nat.eqb].
    rewrite !octet_value_dec by assumption.
    rewrite ip4_data by lia. f_equal. f_equal. lia.
Qed.

(* ------------------------------------------------------------------ the scanner on the two shapes *)
Lemma init_mk : v6_init = mk (repeat 0 16) [] false 0 [] 0.
Proof. reflexivity. Qed.

Lemma put_den_init L : (2 * length L <= 16)%nat ->
  put_at (repeat 0 16) (2 * 0) (den L) = den L ++ repeat 0 (16 - 2 * length L).
Proof.
  intros H. rewrite put_at_spec by (rewrite den_length, repeat_length; lia).
  cbn [Nat.mul firstn app Nat.add]. f_equal. rewrite den_length.
  replace 16%nat with (2 * length L + (16 - 2 * length L))%nat at 1 by lia.
  rewrite repeat_app. apply skipn_exact. apply repeat_length.
Qed.

Theorem model_full L t : Forall is_h16 L -> tail_ok t -> t <> TNone -> (2 * length L + tail_len t = 16)%nat ->
  ip6_bytes (groupsc L ++ tail_text t) = den L ++ tail_val t.
Proof.
  intros HL Ht Hn Hlen. unfold ip6_bytes. rewrite init_mk.
  rewrite scan_groups1 by (auto using nc_tail).
  rewrite put_den_init by lia.
  rewrite close_tail.
  - cbn [length app]. f_equal. apply firstn_exact. rewrite den_length. lia.
  - exact Ht.
  - rewrite app_length, den_length, repeat_length. lia.
  - cbn [length]. lia.
  - intros _. repeat split; auto; lia.
Qed.

Theorem model_zip L R t : Forall is_h16 L -> Forall is_h16 R -> tail_ok t -> (t = TNone -> R = []) ->
  (2 * length L + 2 * length R + tail_len t <= 14)%nat ->
  ip6_bytes (joinc L ++ 58 :: 58 :: groupsc R ++ tail_text t)
  = den L ++ repeat 0 (16 - 2 * length L - 2 * length R - tail_len t) ++ den R ++ tail_val t.
Proof.
  intros HL HR Ht Hn Hlen. unfold ip6_bytes. rewrite init_mk.
  rewrite scan_left by exact HL. rewrite put_den_init by lia.
  assert (E : exists k', v6_scan (mk (zero_from (den L ++ repeat 0 (16 - 2 * length L)) (2 * (0 + length L))) [] true (0 + length L) [] 0)
                           (groupsc R ++ tail_text t)
                 = v6_scan (mk (zero_from (den L ++ repeat 0 (16 - 2 * length L)) (2 * (0 + length L))) [] true k' ([] ++ den R) 0)
                           (tail_text t)).
  { destruct t as [|g|a b c e].
    - rewrite (Hn eq_refl). exists (0 + length L)%nat. reflexivity.
    - apply scan_groups2; [exact HR|]. apply nc_tail; [exact Ht|discriminate].
    - apply scan_groups2; [exact HR|]. apply nc_tail; [exact Ht|discriminate]. }
  destruct E as [k' E]. rewrite E. cbn [app].
  rewrite zero_from_spec. rewrite app_length, den_length, repeat_length. cbn [Nat.add].
  rewrite firstn_exact by (rewrite den_length; reflexivity).
  rewrite close_tail.
  - rewrite den_length.
    replace (16 - 2 * length R - tail_len t)%nat with (2 * length L + (16 - 2 * length L - 2 * length R - tail_len t))%nat by lia.
    rewrite firstn_app_repeat by (rewrite ?den_length; lia). rewrite <- app_assoc. reflexivity.
  - exact Ht.
  - rewrite app_length, den_length, repeat_length. lia.
  - rewrite den_length. lia.
  - discriminate.
Qed.

(* ------------------------------------------------------------------ the RFC 4291 reading of the two shapes *)
Lemma split_on_no sep g : ~ In sep g -> split_on sep g = [g].
Proof.
  induction g as [|c g IH]; intros H; cbn [split_on]; [reflexivity|].
  assert (E : (c =? sep) = false) by (apply N.eqb_neq; intros ->; apply H; left; reflexivity).
  rewrite E, IH; [reflexivity|]. intros F. apply H. right. exact F.
Qed.

Lemma split_on_sep sep g rest : ~ In sep g -> split_on sep (g ++ sep :: rest) = g :: split_on sep rest.
Proof.
  induction g as [|c g IH]; intros H; cbn [split_on app].
  - rewrite N.eqb_refl. reflexivity.
  - assert (E : (c =? sep) = false) by (apply N.eqb_neq; intros ->; apply H; left; reflexivity).
    rewrite E, IH; [reflexivity|]. intros F. apply H. right. exact F.
Qed.

Lemma hexs_no g : forallb is_hexdig g = true -> ~ In 58 g /\ ~ In 46 g.
Proof.
  intros H. rewrite forallb_forall in H. split; intros F; apply H in F; discriminate.
Qed.

Lemma h16_no g : is_h16 g -> ~ In 58 g /\ ~ In 46 g.
Proof. intros [H _]. apply hexs_no. exact H. Qed.

Lemma oct_no o : is_oct o -> ~ In 58 o /\ ~ In 46 o.
Proof.
  intros [H _]. apply hexs_no. rewrite forallb_forall in *. intros x Hx. apply digit_hexdig. auto.
Qed.

Lemma tail_no58 t : tail_ok t -> ~ In 58 (tail_text t).
Proof.
  destruct t as [|g|a b c d]; cbn [tail_ok tail_text]; intros H.
  - intros [].
  - apply h16_no. exact H.
  - destruct H as [Ha [Hb [Hc Hd]]]. apply oct_no in Ha, Hb, Hc, Hd.
    intros F. repeat (apply in_app_or in F; destruct F as [F|F]; [tauto|]; destruct F as [F|F]; [discriminate|]).
    tauto.
Qed.

Lemma split_groupsc G x : Forall is_h16 G -> ~ In 58 x -> split_on 58 (groupsc G ++ x) = G ++ [x].
Proof.
  intros HG Hx. induction HG as [|g G Hg HG IH]; cbn [groupsc app].
  - apply split_on_no. exact Hx.
  - rewrite <- app_assoc. cbn [app]. rewrite split_on_sep by (apply h16_no; exact Hg). rewrite IH. reflexivity.
Qed.

Lemma group_bytes_h16 g : is_h16 g -> group_bytes g = gv g.
Proof.
  intros Hg. unfold group_bytes. destruct (mem 46 g) eqn:E; [|reflexivity].
  apply mem_In in E. apply h16_no in Hg. tauto.
Qed.

Lemma group_bytes_ip4 a b c d : is_oct a -> is_oct b -> is_oct c -> is_oct d ->
  group_bytes (a ++ 46 :: b ++ 46 :: c ++ 46 :: d) = [dec_value a; dec_value b; dec_value c; dec_value d].
Proof.
  intros Ha Hb Hc Hd. unfold group_bytes.
  assert (E : mem 46 (a ++ 46 :: b ++ 46 :: c ++ 46 :: d) = true).
  { apply mem_In. apply in_or_app. right. left. reflexivity. }
  rewrite E. unfold ip4_value.
  rewrite !split_on_sep by (apply oct_no; assumption).
  rewrite split_on_no by (apply oct_no; assumption). reflexivity.
Qed.

Lemma flat_group_bytes G : Forall is_h16 G -> flat_map group_bytes G = den G.
Proof.
  intros HG. induction HG as [|g G Hg HG IH]; cbn [flat_map den]; [reflexivity|].
  rewrite group_bytes_h16 by exact Hg. f_equal. exact IH.
Qed.

Lemma groups_bytes_shape G t : Forall is_h16 G -> tail_ok t -> (t = TNone -> G = []) ->
  groups_bytes (groupsc G ++ tail_text t) = den G ++ tail_val t.
Proof.
  intros HG Ht Hn.
  assert (Hcase : t = TNone \/ t <> TNone) by (destruct t; [left; reflexivity|right; discriminate..]).
  destruct Hcase as [E|Hne].
  - rewrite (Hn E). subst t. reflexivity.
  - destruct (nc_groupsc G _ HG (nc_tail t Ht Hne)) as [c [r [E _]]].
    unfold groups_bytes. rewrite E, <- E.
    rewrite split_groupsc by (auto using tail_no58).
    rewrite flat_map_app, flat_group_bytes by exact HG. f_equal.
    cbn [flat_map]. rewrite app_nil_r.
    destruct t as [|g|a b c0 d]; cbn [tail_ok tail_text tail_val] in *; [congruence| |].
    + apply group_bytes_h16. exact Ht.
    + apply group_bytes_ip4; apply Ht.
Qed.

Lemma groups_bytes_joinc L : Forall is_h16 L -> groups_bytes (joinc L) = den L.
Proof.
  intros HL. destruct L as [|x L'] eqn:EL; [reflexivity|]. rewrite <- EL in *.
  destruct (@exists_last _ L) as [L0 [g E]]; [rewrite EL; discriminate|].
  rewrite E in *. apply Forall_app in HL. destruct HL as [H0 Hg]. inversion Hg as [|? ? Hg' _]; subst.
  rewrite joinc_snoc, den_app. cbn [den flat_map]. rewrite app_nil_r.
  apply (groups_bytes_shape L0 (TH g)); [exact H0|exact Hg'|discriminate].
Qed.

Lemma fd_cons c r : (c =? 58) = false ->
  find_dcolon (c :: r) = match find_dcolon r with Some (a, b) => Some (c :: a, b) | None => None end.
Proof. intros H. destruct r as [|c2 r2]; [reflexivity|]. cbn [find_dcolon]. rewrite H. reflexivity. Qed.

Lemma fd_colon c2 r : (c2 =? 58) = false ->
  find_dcolon (58 :: c2 :: r) = match find_dcolon (c2 :: r) with Some (a, b) => Some (58 :: a, b) | None => None end.
Proof. intros H. cbn [find_dcolon]. rewrite H, andb_false_r. reflexivity. Qed.

Lemma fd_here rest : find_dcolon (58 :: 58 :: rest) = Some ([], rest).
Proof. cbn [find_dcolon]. rewrite N.eqb_refl. reflexivity. Qed.

Lemma fd_skip g x a b : ~ In 58 g -> find_dcolon x = Some (a, b) -> find_dcolon (g ++ x) = Some (g ++ a, b).
Proof.
  intros Hg Hx. induction g as [|c g IH]; cbn [app]; [exact Hx|].
  rewrite fd_cons by (apply N.eqb_neq; intros ->; apply Hg; left; reflexivity).
  rewrite IH; [reflexivity|]. intros F. apply Hg. right. exact F.
Qed.

Lemma fd_skip_none g x : ~ In 58 g -> find_dcolon x = None -> find_dcolon (g ++ x) = None.
Proof.
  intros Hg Hx. induction g as [|c g IH]; cbn [app]; [exact Hx|].
  rewrite fd_cons by (apply N.eqb_neq; intros ->; apply Hg; left; reflexivity).
  rewrite IH; [reflexivity|]. intros F. apply Hg. right. exact F.
Qed.

Lemma find_dcolon_joinc L rest : Forall is_h16 L ->
  find_dcolon (joinc L ++ 58 :: 58 :: rest) = Some (joinc L, rest).
Proof.
  induction L as [|g L IH]; intros HL; [apply fd_here|].
  inversion HL as [|? ? Hg HL']; subst. destruct L as [|g2 L].
  - cbn [joinc]. rewrite <- (app_nil_r g) at 2. apply fd_skip; [apply h16_no; exact Hg|apply fd_here].
  - rewrite joinc_cons2, <- app_assoc. cbn [app]. apply fd_skip; [apply h16_no; exact Hg|].
    assert (Hnc : nc (joinc (g2 :: L) ++ 58 :: 58 :: rest)).
    { inversion HL' as [|? ? Hg2 _]; subst. destruct L; [|rewrite joinc_cons2, <- app_assoc]; apply nc_h16; exact Hg2. }
    destruct Hnc as [c2 [r2 [E Hc]]]. rewrite E, fd_colon by exact Hc. rewrite <- E, IH by exact HL'. reflexivity.
Qed.

Lemma find_dcolon_none G x : Forall is_h16 G -> ~ In 58 x -> find_dcolon (groupsc G ++ x) = None.
Proof.
  intros HG Hx. induction HG as [|g G Hg HG IH]; cbn [groupsc app].
  - rewrite <- (app_nil_r x). apply fd_skip_none; [exact Hx|reflexivity].
  - rewrite <- app_assoc. cbn [app]. apply fd_skip_none; [apply h16_no; exact Hg|].
    destruct (groupsc G ++ x) as [|c2 r2] eqn:E; [reflexivity|].
    assert (Hc : (c2 =? 58) = false).
    { destruct G as [|g' G'].
      - cbn [groupsc app] in E. apply N.eqb_neq. intros ->. apply Hx. rewrite E. left. reflexivity.
      - inversion HG as [|? ? Hg' _]; subst. cbn [groupsc] in E. rewrite <- app_assoc in E. cbn [app] in E.
        destruct (nc_h16 g' (58 :: groupsc G' ++ x) Hg') as [c3 [r3 [E3 Hc3]]].
        cbn [app] in E3. rewrite E3 in E. inversion E; subst. exact Hc3. }
    rewrite fd_colon by exact Hc. rewrite IH. reflexivity.
Qed.

Theorem spec_full L t : Forall is_h16 L -> tail_ok t -> t <> TNone ->
  ip6_value (groupsc L ++ tail_text t) = den L ++ tail_val t.
Proof.
  intros HL Ht Hn. unfold ip6_value. rewrite find_dcolon_none by (auto using tail_no58).
  apply groups_bytes_shape; auto. congruence.
Qed.

Theorem spec_zip L R t : Forall is_h16 L -> Forall is_h16 R -> tail_ok t -> (t = TNone -> R = []) ->
  ip6_value (joinc L ++ 58 :: 58 :: groupsc R ++ tail_text t)
  = den L ++ repeat 0 (16 - 2 * length L - 2 * length R - tail_len t) ++ den R ++ tail_val t.
Proof.
  intros HL HR Ht Hn. unfold ip6_value. rewrite find_dcolon_joinc by exact HL.
  rewrite groups_bytes_joinc by exact HL. rewrite groups_bytes_shape by assumption.
  rewrite app_length, !den_length, tail_val_length. f_equal. f_equal. f_equal. lia.
Qed.

(* ------------------------------------------------------------------ scanner = RFC 4291 on the shapes *)
Theorem ip6_bytes_value_structured lit : ip6_shape lit ->
  ip6_bytes lit = ip6_value lit /\ length (ip6_bytes lit) = 16%nat.
Proof.
  intros [L t HL Ht Hn Hlen | L R t HL HR Ht Hn Hlen].
  - rewrite model_full, spec_full by assumption. split; [reflexivity|].
    rewrite app_length, den_length, tail_val_length. exact Hlen.
  - rewrite model_zip, spec_zip by assumption. split; [reflexivity|].
    rewrite !app_length, !den_length, repeat_length, tail_val_length. lia.
Qed.

(* ------------------------------------------------------------------ the grammar produces the shapes *)
Lemma inv_seq a b s : matches (Seq a b) s -> exists u t, s = u ++ t /\ matches a u /\ matches b t.
Proof. inversion 1; subst; eauto. Qed.
Lemma inv_alt a b s : matches (Alt a b) s -> matches a s \/ matches b s.
Proof. inversion 1; subst; auto. Qed.
Lemma inv_eps s : matches Eps s -> s = [].
Proof. inversion 1; reflexivity. Qed.
Lemma inv_chr l s : matches (Chr l) s -> exists c, s = [c] /\ In c l.
Proof. inversion 1; subst; eauto. Qed.
Lemma inv_ch c s : matches (ch c) s -> s = [c].
Proof. intros H. apply inv_chr in H. destruct H as [x [-> [<-|[]]]]. reflexivity. Qed.

Lemma inv_rep r n : forall s, matches (rep n r) s ->
  exists l, length l = n /\ Forall (matches r) l /\ s = concat l.
Proof.
  induction n as [|n IH]; intros s H; cbn [rep] in H.
  - apply inv_eps in H. subst. exists []. auto.
  - apply inv_seq in H. destruct H as [u [t [-> [Hu Ht]]]]. destruct (IH _ Ht) as [l [Hl [Hf ->]]].
    exists (u :: l). cbn [length concat]. auto.
Qed.

Lemma inv_upto r n : forall s, matches (upto n r) s ->
  exists l, (length l <= n)%nat /\ Forall (matches r) l /\ s = concat l.
Proof.
  induction n as [|n IH]; intros s H; cbn [upto] in H.
  - apply inv_eps in H. subst. exists []. auto.
  - apply inv_alt in H. destruct H as [H|H].
    + apply inv_eps in H. subst. exists []. cbn [length]. split; [lia|auto].
    + apply inv_seq in H. destruct H as [u [t [-> [Hu Ht]]]]. destruct (IH _ Ht) as [l [Hl [Hf ->]]].
      exists (u :: l). cbn [length concat]. split; [lia|auto].
Qed.

Lemma chr_list X l : Forall (matches (Chr X)) l ->
  length (concat l) = length l /\ forall c, In c (concat l) -> In c X.
Proof.
  induction 1 as [|s l Hs Hl [IH1 IH2]]; cbn [concat length]; [split; [reflexivity|intros c []]|].
  apply inv_chr in Hs. destruct Hs as [c [-> Hc]]. cbn [app length]. split; [lia|].
  intros x [<-|Hx]; auto.
Qed.

Lemma h16_inv s : matches h16 s -> is_h16 s.
Proof.
  intros H. apply inv_seq in H. destruct H as [u [t [-> [Hu Ht]]]].
  apply inv_chr in Hu. destruct Hu as [c [-> Hc]].
  apply inv_upto in Ht. destruct Ht as [l [Hl [Hf ->]]]. apply chr_list in Hf. destruct Hf as [E Hin].
  split.
  - cbn [app forallb]. rewrite (hexdig_in c Hc). apply forallb_forall. intros x Hx. apply hexdig_in. auto.
  - cbn [app length]. lia.
Qed.

Lemma h16c_inv s : matches h16c s -> exists g, is_h16 g /\ s = g ++ [58].
Proof.
  intros H. apply inv_seq in H. destruct H as [u [t [-> [Hu Ht]]]]. apply inv_ch in Ht. subst.
  exists u. split; [apply h16_inv; exact Hu|reflexivity].
Qed.

Lemma h16c_list l : Forall (matches h16c) l ->
  exists G, length G = length l /\ Forall is_h16 G /\ concat l = groupsc G.
Proof.
  induction 1 as [|s l Hs Hl [G [E [HG EG]]]]; [exists []; auto|].
  apply h16c_inv in Hs. destruct Hs as [g [Hg ->]].
  exists (g :: G). cbn [length concat groupsc]. rewrite EG, <- app_assoc. cbn [app]. auto.
Qed.

Lemma rep_h16c_inv n s : matches (rep n h16c) s -> exists G, length G = n /\ Forall is_h16 G /\ s = groupsc G.
Proof.
  intros H. apply inv_rep in H. destruct H as [l [Hl [Hf ->]]].
  destruct (h16c_list l Hf) as [G [E [HG EG]]]. exists G. split; [lia|auto].
Qed.

Lemma upto_h16c_inv n s : matches (upto n h16c) s ->
  exists G, (length G <= n)%nat /\ Forall is_h16 G /\ s = groupsc G.
Proof.
  intros H. apply inv_upto in H. destruct H as [l [Hl [Hf ->]]].
  destruct (h16c_list l Hf) as [G [E [HG EG]]]. exists G. split; [lia|auto].
Qed.

Lemma in_range_digit c lo n : In c (range lo n) -> 48 <= lo -> lo + N.of_nat n <= 58 -> is_digit c = true.
Proof. intros H H1 H2. apply in_range_range in H. unfold is_digit, in_range. lia. Qed.

Lemma dec_octet_inv s : matches dec_octet s -> is_oct s.
Proof.
  unfold dec_octet. cbn [alts seqs]. intros H.
  repeat match goal with
  | H : matches (Alt _ _) _ |- _ => apply inv_alt in H; destruct H as [H|H]
  end;
  repeat match goal with
  | H : matches (Seq _ _) _ |- _ =>
    let u := fresh "u" in let t := fresh "t" in let Hu := fresh "Hu" in let Ht := fresh "Ht" in
    apply inv_seq in H; destruct H as [u [t [-> [Hu Ht]]]]
  end;
  repeat match goal with
  | H : matches (ch _) _ |- _ => apply inv_ch in H; subst
  | H : matches (Chr _) _ |- _ =>
    let c := fresh "c" in let Hc := fresh "Hc" in
    apply inv_chr in H; destruct H as [c [-> Hc]]; apply in_range_range in Hc
  end;
  cbn [app]; unfold is_oct, dec_value; cbn [forallb length fold_left];
  unfold is_digit, in_range; (split; [|split]); lia.
Qed.

Lemma ip4_inv s : matches IPv4address s ->
  exists a b c d, is_oct a /\ is_oct b /\ is_oct c /\ is_oct d /\ s = a ++ 46 :: b ++ 46 :: c ++ 46 :: d.
Proof.
  unfold IPv4address. cbn [seqs]. intros H.
  apply inv_seq in H. destruct H as [a [t1 [-> [Ha H]]]].
  apply inv_seq in H. destruct H as [p1 [t2 [-> [Hp1 H]]]].
  apply inv_seq in H. destruct H as [b [t3 [-> [Hb H]]]].
  apply inv_seq in H. destruct H as [p2 [t4 [-> [Hp2 H]]]].
  apply inv_seq in H. destruct H as [c [t5 [-> [Hc H]]]].
  apply inv_seq in H. destruct H as [p3 [d [-> [Hp3 Hd]]]].
  apply inv_ch in Hp1, Hp2, Hp3. subst.
  apply dec_octet_inv in Ha, Hb, Hc, Hd.
  exists a, b, c, d. repeat (split; [assumption|]). reflexivity.
Qed.

(* rep n ( h16 ":" ) ls32, and the last two alternatives' tails *)
Lemma ls32_inv s : matches ls32 s ->
  exists G t, Forall is_h16 G /\ tail_ok t /\ t <> TNone /\ (2 * length G + tail_len t = 4)%nat
              /\ s = groupsc G ++ tail_text t.
Proof.
  intros H. apply inv_alt in H. destruct H as [H|H].
  - cbn [seqs] in H. apply inv_seq in H. destruct H as [g1 [t [-> [H1 H]]]].
    apply inv_seq in H. destruct H as [c [g2 [-> [Hc H2]]]]. apply inv_ch in Hc. subst c.
    apply h16_inv in H1, H2. exists [g1], (TH g2). cbn [groupsc tail_text tail_ok tail_len length].
    refine (conj _ (conj H2 (conj _ (conj eq_refl _))));
      [constructor; [exact H1|constructor]|discriminate|rewrite <- app_assoc; reflexivity].
  - apply ip4_inv in H. destruct H as [a [b [c [d [Ha [Hb [Hc [Hd ->]]]]]]]].
    exists [], (T4 a b c d). cbn [groupsc tail_text tail_ok tail_len length app].
    refine (conj (Forall_nil _) (conj (conj Ha (conj Hb (conj Hc Hd))) (conj _ (conj eq_refl eq_refl)))). discriminate.
Qed.

Lemma tailpart_inv s1 s2 n : (exists G, length G = n /\ Forall is_h16 G /\ s1 = groupsc G) -> matches ls32 s2 ->
  exists G t, Forall is_h16 G /\ tail_ok t /\ t <> TNone /\ (2 * length G + tail_len t = 2 * n + 4)%nat
              /\ s1 ++ s2 = groupsc G ++ tail_text t.
Proof.
  intros [G1 [E1 [H1 ->]]] H2. apply ls32_inv in H2. destruct H2 as [G2 [t [HG2 [Ht [Hn [Hl ->]]]]]].
  exists (G1 ++ G2), t. rewrite groupsc_app, app_length, <- app_assoc.
  repeat split; auto; [apply Forall_app; auto|lia].
Qed.

Lemma pre_inv n s : matches (Rfc3986.pre n) s -> exists L, Forall is_h16 L /\ (length L <= n + 1)%nat /\ s = joinc L.
Proof.
  intros H. apply inv_alt in H. destruct H as [H|H].
  - apply inv_eps in H. subst. exists []. cbn [length]. repeat split; auto; lia.
  - apply inv_seq in H. destruct H as [u [g [-> [Hu Hg]]]]. apply upto_h16c_inv in Hu.
    destruct Hu as [G [Hl [HG ->]]]. apply h16_inv in Hg.
    exists (G ++ [g]). rewrite joinc_snoc, app_length. cbn [length].
    repeat split; auto; [apply Forall_app; auto|lia].
Qed.

Lemma opt_h16_inv s : matches (opt h16) s -> exists L, Forall is_h16 L /\ (length L <= 1)%nat /\ s = joinc L.
Proof.
  intros H. apply inv_alt in H. destruct H as [H|H].
  - apply inv_eps in H. subst. exists []. cbn [length]. repeat split; auto.
  - apply h16_inv in H. exists [s]. cbn [length joinc]. repeat split; auto.
Qed.

Lemma dcolon_inv s : matches dcolon s -> s = [58; 58].
Proof.
  intros H. apply inv_seq in H. destruct H as [u [t [-> [Hu Ht]]]]. apply inv_ch in Hu, Ht. subst. reflexivity.
Qed.

(* left "::" right *)
Lemma zip_shape L G t n s0 s1 s2 k :
  Forall is_h16 L -> (length L <= k)%nat -> s0 = joinc L -> s1 = [58; 58] ->
  Forall is_h16 G -> tail_ok t -> (t = TNone -> G = []) -> (2 * length G + tail_len t = n)%nat ->
  s2 = groupsc G ++ tail_text t -> (2 * k + n <= 14)%nat ->
  ip6_shape (s0 ++ s1 ++ s2).
Proof.
  intros HL Hk -> -> HG Ht Hn Hl -> Hb. cbn [app]. apply ShZip; auto. lia.
Qed.

Theorem ip6_shape_of_matches lit : matches IPv6address lit -> ip6_shape lit.
Proof.
  unfold IPv6address. cbn [alts]. intros H.
  repeat match goal with
  | H : matches (Alt _ _) _ |- _ => apply inv_alt in H; destruct H as [H|H]
  end; cbn [seqs] in H.
  - (* 6( h16 ":" ) ls32 *)
    apply inv_seq in H. destruct H as [s1 [s2 [-> [H1 H2]]]]. apply rep_h16c_inv in H1.
    destruct (tailpart_inv s1 s2 6 H1 H2) as [G [t [HG [Ht [Hn [Hl ->]]]]]].
    apply ShFull; auto.
  - (* "::" 5( h16 ":" ) ls32 *)
    apply inv_seq in H. destruct H as [s1 [s2 [-> [H1 H]]]]. apply dcolon_inv in H1.
    apply inv_seq in H. destruct H as [s3 [s4 [-> [H3 H4]]]]. apply rep_h16c_inv in H3.
    destruct (tailpart_inv s3 s4 5 H3 H4) as [G [t [HG [Ht [Hn [Hl E]]]]]].
    change (s1 ++ s3 ++ s4) with ([] ++ s1 ++ s3 ++ s4).
    eapply (zip_shape [] G t _ _ _ _ 0); eauto. congruence.
  - (* [ h16 ] "::" 4( h16 ":" ) ls32 *)
    apply inv_seq in H. destruct H as [s0 [s [-> [H0 H]]]]. apply opt_h16_inv in H0.
    destruct H0 as [L [HL [HLl ->]]].
    apply inv_seq in H. destruct H as [s1 [s2 [-> [H1 H]]]]. apply dcolon_inv in H1.
    apply inv_seq in H. destruct H as [s3 [s4 [-> [H3 H4]]]]. apply rep_h16c_inv in H3.
    destruct (tailpart_inv s3 s4 4 H3 H4) as [G [t [HG [Ht [Hn [Hl E]]]]]].
    eapply (zip_shape L G t _ _ _ _ 1); eauto. congruence.
  - (* [ *1( h16 ":" ) h16 ] "::" 3( h16 ":" ) ls32 *)
    apply inv_seq in H. destruct H as [s0 [s [-> [H0 H]]]]. apply pre_inv in H0.
    destruct H0 as [L [HL [HLl ->]]].
    apply inv_seq in H. destruct H as [s1 [s2 [-> [H1 H]]]]. apply dcolon_inv in H1.
    apply inv_seq in H. destruct H as [s3 [s4 [-> [H3 H4]]]]. apply rep_h16c_inv in H3.
    destruct (tailpart_inv s3 s4 3 H3 H4) as [G [t [HG [Ht [Hn [Hl E]]]]]].
    eapply (zip_shape L G t _ _ _ _ 2); eauto. congruence.
  - (* [ *2( h16 ":" ) h16 ] "::" 2( h16 ":" ) ls32 *)
    apply inv_seq in H. destruct H as [s0 [s [-> [H0 H]]]]. apply pre_inv in H0.
    destruct H0 as [L [HL [HLl ->]]].
    apply inv_seq in H. destruct H as [s1 [s2 [-> [H1 H]]]]. apply dcolon_inv in H1.
    apply inv_seq in H. destruct H as [s3 [s4 [-> [H3 H4]]]]. apply rep_h16c_inv in H3.
    destruct (tailpart_inv s3 s4 2 H3 H4) as [G [t [HG [Ht [Hn [Hl E]]]]]].
    eapply (zip_shape L G t _ _ _ _ 3); eauto. congruence.
  - (* [ *3( h16 ":" ) h16 ] "::" h16 ":" ls32 *)
    apply inv_seq in H. destruct H as [s0 [s [-> [H0 H]]]]. apply pre_inv in H0.
    destruct H0 as [L [HL [HLl ->]]].
    apply inv_seq in H. destruct H as [s1 [s2 [-> [H1 H]]]]. apply dcolon_inv in H1.
    apply inv_seq in H. destruct H as [s3 [s4 [-> [H3 H4]]]]. apply h16c_inv in H3.
    destruct H3 as [g [Hg ->]].
    assert (H3 : exists G, length G = 1%nat /\ Forall is_h16 G /\ g ++ [58] = groupsc G).
    { exists [g]. cbn [length groupsc]. auto. }
    destruct (tailpart_inv _ s4 1 H3 H4) as [G [t [HG [Ht [Hn [Hl E]]]]]].
    eapply (zip_shape L G t _ _ _ _ 4); eauto. congruence.
  - (* [ *4( h16 ":" ) h16 ] "::" ls32 *)
    apply inv_seq in H. destruct H as [s0 [s [-> [H0 H]]]]. apply pre_inv in H0.
    destruct H0 as [L [HL [HLl ->]]].
    apply inv_seq in H. destruct H as [s1 [s2 [-> [H1 H2]]]]. apply dcolon_inv in H1.
    apply ls32_inv in H2. destruct H2 as [G [t [HG [Ht [Hn [Hl E]]]]]].
    eapply (zip_shape L G t _ _ _ _ 5); eauto. congruence.
  - (* [ *5( h16 ":" ) h16 ] "::" h16 *)
    apply inv_seq in H. destruct H as [s0 [s [-> [H0 H]]]]. apply pre_inv in H0.
    destruct H0 as [L [HL [HLl ->]]].
    apply inv_seq in H. destruct H as [s1 [s2 [-> [H1 H2]]]]. apply dcolon_inv in H1.
    apply h16_inv in H2.
    eapply (zip_shape L [] (TH s2) 2 _ _ _ 6); eauto; try reflexivity; try discriminate; try lia.
  - (* [ *6( h16 ":" ) h16 ] "::" *)
    apply inv_seq in H. destruct H as [s0 [s1 [-> [H0 H1]]]]. apply pre_inv in H0.
    destruct H0 as [L [HL [HLl ->]]]. apply dcolon_inv in H1.
    rewrite <- (app_nil_r s1).
    eapply (zip_shape L [] TNone 0 _ _ _ 7); eauto; try reflexivity; try exact I; try lia.
Qed.

(* MAIN THEOREM: for every text of the rule IPv6address, the stored bytes are the RFC 4291 value *)
Theorem ip6_bytes_value lit : matches IPv6address lit ->
  ip6_bytes lit = ip6_value lit /\ length (ip6_bytes lit) = 16%nat.
Proof. intros H. apply ip6_bytes_value_structured. apply ip6_shape_of_matches. exact H. Qed.

(* ------------------------------------------------------------------ printing the sixteen bytes *)
Lemma hex_letter_lower v : v <= 15 -> hex_to_letter_ex v false = lower_hex v.
Proof.
  intros H. unfold hex_to_letter_ex, lower_hex.
  destruct (v <? 10) eqn:E1; [reflexivity|]. destruct (v <? 15) eqn:E2; [reflexivity|].
  replace v with 15 by lia. reflexivity.
Qed.

Lemma pieces_step hi lo r i : Nat.even i = true ->
  concat (ip6_byte_pieces (hi :: lo :: r) i) =
  [hex_to_letter_ex (hi / 16) false; hex_to_letter_ex (hi mod 16) false;
   hex_to_letter_ex (lo / 16) false; hex_to_letter_ex (lo mod 16) false]
  ++ (if Nat.ltb (S i) 15 then [58] else []) ++ concat (ip6_byte_pieces r (S (S i))).
Proof.
  intros Hev. cbn [ip6_byte_pieces]. rewrite Nat.odd_succ, Hev. unfold Nat.odd at 1. rewrite Hev.
  cbn [negb andb app concat]. destruct (Nat.ltb (S i) 15); reflexivity.
Qed.

Lemma render_gen n : forall b i, length b = (2 * n)%nat -> Nat.even i = true -> (i + 2 * n = 16)%nat ->
  Forall (fun x => x <= 255) b -> concat (ip6_byte_pieces b i) = groups_text b.
Proof.
  induction n as [|n IH]; intros b i Hl Hev Hi Hb.
  - destruct b; [reflexivity|discriminate].
  - destruct b as [|hi [|lo r]]; cbn [length] in Hl; try lia.
    inversion Hb as [|? ? Hhi Hb1]; subst. inversion Hb1 as [|? ? Hlo Hr]; subst.
    rewrite pieces_step by exact Hev.
    rewrite !hex_letter_lower by dm_lia.
    cbn [groups_text]. unfold hex4. cbn [app]. do 4 f_equal.
    destruct r as [|r0 r'].
    + destruct (Nat.ltb (S i) 15) eqn:E; [apply Nat.ltb_lt in E; cbn [length] in Hl; lia|]. reflexivity.
    + assert (E : Nat.ltb (S i) 15 = true) by (apply Nat.ltb_lt; cbn [length] in Hl; lia).
      rewrite E. cbn [app]. f_equal. apply IH; [lia| |lia|exact Hr].
      rewrite !Nat.even_succ, <- Nat.negb_even, Nat.even_succ. unfold Nat.odd. rewrite Hev. reflexivity.
Qed.

(* the copies made by uriToString for the sixteen bytes spell the full eight-group lower-case form *)
Theorem ip6_render b : length b = 16%nat -> Forall (fun x => x <= 255) b ->
  concat (ip6_byte_pieces b 0) = groups_text b.
Proof. intros Hl Hb. apply (render_gen 8); auto. Qed.

(* ------------------------------------------------------------------ the canonical text denotes the same address *)
Fixpoint hexgroups (b : list N) : list text :=
  match b with hi :: lo :: r => hex4 hi lo :: hexgroups r | _ => [] end.

Lemma groups_text_joinc n : forall b, length b = (2 * n)%nat -> groups_text b = joinc (hexgroups b).
Proof.
  induction n as [|n IH]; intros b Hl.
  - destruct b; [reflexivity|discriminate].
  - destruct b as [|hi [|lo r]]; cbn [length] in Hl; try lia.
    cbn [groups_text hexgroups]. destruct r as [|r0 [|r1 r']].
    + cbn [hexgroups joinc]. apply app_nil_r.
    + cbn [length] in Hl. lia.
    + rewrite (IH (r0 :: r1 :: r')) by (cbn [length] in *; lia). cbn [hexgroups]. rewrite joinc_cons2. reflexivity.
Qed.

Lemma lower_hex_hexdig v : v <= 15 -> is_hexdig (lower_hex v) = true /\ hexdig_to_int (lower_hex v) = v.
Proof.
  intros H. unfold lower_hex, is_hexdig, hexdig_to_int.
  destruct (v <? 10) eqn:E.
  - assert (E1 : is_digit (48 + v) = true) by (unfold is_digit, in_range; lia). rewrite E1. split; [reflexivity|lia].
  - assert (E1 : is_digit (87 + v) = false) by (unfold is_digit, in_range; lia).
    assert (E2 : is_hex_lower (87 + v) = true) by (unfold is_hex_lower, in_range; lia).
    rewrite E1, E2. split; [apply orb_true_r|lia].
Qed.

Lemma hex4_h16 hi lo : hi <= 255 -> lo <= 255 -> is_h16 (hex4 hi lo) /\ gv (hex4 hi lo) = [hi; lo].
Proof.
  intros Hhi Hlo.
  destruct (lower_hex_hexdig (hi / 16)) as [A1 A2]; [dm_lia|].
  destruct (lower_hex_hexdig (hi mod 16)) as [B1 B2]; [dm_lia|].
  destruct (lower_hex_hexdig (lo / 16)) as [C1 C2]; [dm_lia|].
  destruct (lower_hex_hexdig (lo mod 16)) as [D1 D2]; [dm_lia|].
  split.
  - split; [|cbn [hex4 length]; lia]. unfold hex4. cbn [forallb]. rewrite A1, B1, C1, D1. reflexivity.
  - unfold gv, hex_value, hex4. cbn [fold_left]. rewrite A2, B2, C2, D2.
    match goal with |- [?p; ?q] = [?r; ?s] =>
      assert (E1 : p = r) by dm_lia; assert (E2 : q = s) by dm_lia;
      exact (f_equal2 (fun x y => [x; y]) E1 E2) end.
Qed.

Lemma hexgroups_ok n : forall b, length b = (2 * n)%nat -> Forall (fun x => x <= 255) b ->
  Forall is_h16 (hexgroups b) /\ den (hexgroups b) = b /\ length (hexgroups b) = n.
Proof.
  induction n as [|n IH]; intros b Hl Hb.
  - destruct b; [cbn [hexgroups den flat_map length]; auto|discriminate].
  - destruct b as [|hi [|lo r]]; cbn [length] in Hl; try lia.
    inversion Hb as [|? ? Hhi Hb1]; subst. inversion Hb1 as [|? ? Hlo Hr]; subst.
    destruct (IH r) as [I1 [I2 I3]]; [lia|exact Hr|].
    destruct (hex4_h16 hi lo Hhi Hlo) as [G1 G2].
    cbn [hexgroups den flat_map length]. fold (den (hexgroups r)). rewrite G2, I2, I3. auto.
Qed.

(* the full eight-group lower-case text denotes the bytes it was made from *)
Theorem ip6_value_groups_text b : length b = 16%nat -> Forall (fun x => x <= 255) b ->
  ip6_value (groups_text b) = b.
Proof.
  intros Hl Hb. rewrite (groups_text_joinc 8) by exact Hl.
  destruct (hexgroups_ok 8 b Hl Hb) as [HG [HD HL]].
  destruct (@exists_last _ (hexgroups b)) as [G [g E]]; [intros F; rewrite F in HL; discriminate|].
  rewrite E in *. apply Forall_app in HG. destruct HG as [HG Hg]. inversion Hg as [|? ? Hg' _]; subst.
  rewrite joinc_snoc. change g with (tail_text (TH g)) at 1. rewrite (spec_full G (TH g)); [|exact HG|exact Hg'|discriminate].
  cbn [tail_val].
  rewrite den_app. cbn [den flat_map]. rewrite app_nil_r. reflexivity.
Qed.

(* ------------------------------------------------------------------ every stored byte is an octet *)
Lemma hex_value_bound g : is_h16 g -> hex_value g < 65536.
Proof.
  intros [Hh [H1 H4]]. unfold hex_value.
  destruct g as [|a [|b [|c [|d [|e g]]]]]; cbn [length] in H1, H4; try lia;
    cbn [forallb] in Hh; rewrite ?andb_true_iff in Hh;
    repeat match goal with H : _ /\ _ |- _ => destruct H end;
    repeat match goal with H : is_hexdig _ = true |- _ => apply hexdig_to_int_lt in H end;
    cbn [fold_left]; lia.
Qed.

Lemma den_le G : Forall is_h16 G -> Forall (fun x => x <= 255) (den G).
Proof.
  intros HG. induction HG as [|g G Hg HG IH]; cbn [den flat_map]; [constructor|].
  apply hex_value_bound in Hg. unfold gv at 1. cbn [app]. constructor; [dm_lia|]. constructor; [dm_lia|]. exact IH.
Qed.

Lemma tail_val_le t : tail_ok t -> Forall (fun x => x <= 255) (tail_val t).
Proof.
  destruct t as [|g|a b c d]; cbn [tail_ok tail_val]; intros H.
  - constructor.
  - apply (den_le [g]). constructor; [exact H|constructor].
  - destruct H as [[_ [_ Ha]] [[_ [_ Hb]] [[_ [_ Hc]] [_ [_ Hd]]]]]. repeat constructor; assumption.
Qed.

Lemma ip6_value_octets_structured lit : ip6_shape lit -> Forall (fun x => x <= 255) (ip6_value lit).
Proof.
  intros [L t HL Ht Hn Hlen | L R t HL HR Ht Hn Hlen].
  - rewrite spec_full by assumption. apply Forall_app. auto using den_le, tail_val_le.
  - rewrite spec_zip by assumption. repeat (apply Forall_app; split); auto using den_le, tail_val_le.
    apply Forall_forall. intros x Hx. apply repeat_spec in Hx. subst. lia.
Qed.

(* the scanner stores sixteen octets *)
Theorem ip6_bytes_octets lit : matches IPv6address lit -> Forall (fun x => x <= 255) (ip6_bytes lit).
Proof.
  intros H. apply ip6_shape_of_matches in H.
  rewrite (proj1 (ip6_bytes_value_structured lit H)). apply ip6_value_octets_structured. exact H.
Qed.

(* parse, then print: the literal comes out as the full eight-group lower-case text of the value
   written in the input, and that text denotes the same value *)
Theorem ip6_roundtrip lit : matches IPv6address lit ->
  concat (ip6_byte_pieces (ip6_bytes lit) 0) = groups_text (ip6_value lit)
  /\ ip6_value (groups_text (ip6_value lit)) = ip6_value lit.
Proof.
  intros H. pose proof (ip6_bytes_octets lit H) as Ho. destruct (ip6_bytes_value lit H) as [E Hl].
  rewrite <- E. split; [apply ip6_render|apply ip6_value_groups_text]; assumption.
Qed.
