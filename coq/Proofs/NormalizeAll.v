(* C08 for EVERY parsed reference: the glue between Proofs/NormalizeText.v (references that are not
   relative-path references) and Proofs/RelNormalize.v (relative-path references outside the five shapes
   D7a..D7e), and idempotence.

     A. c08_deviates u            the five shapes, as one boolean (false for every non-relative reference)
        normalize_text_is_spec_all, normalize_to_text_is_spec_all
                                  the five components / the text of [normalize 63 u] are the specification's
                                  normal form, for every object meeting text_hyps outside the shapes
        parsed_normal_five_all, parsed_normal_text_all
                                  ... for every parsed text
     B. walk_shape                what the relative walk of uriRemoveDotSegmentsEx leaves: a ".." run followed
                                  by no dot segment, or one "." followed by no dot segment
        normalize_idempotent_iff  a relative-path reference is a fixed point of a second normalization exactly
                                  when the "." in front of its first result (if any) is needed (dot_needed)
        normalize_idempotent_shapes, normalize_idempotent_all_partial
                                  idempotence outside D7d of the reference and D7a / D7c of its normal form
        normalize_idempotent_all_refuted
                                  "outside the five shapes" alone is not enough: "./b:c/.." -> "./" -> "" *)
From Coq Require Import String List NArith Bool Lia ZifyBool ZifyN.
From UP Require Import Base.Chars Model.Uri Model.Common Model.Normalize Model.Recompose Model.Parse
  Spec.NormalWf Proofs.DotSegments Proofs.NormalizeProofs Proofs.NormalizeLink Proofs.CommuteProofs
  Proofs.RelNormalize Proofs.NormalizeText.
From UP Require Spec.Normal Spec.Resolve Spec.Recompose Proofs.ResolveProofs Proofs.ParseRecompose Proofs.ParseWf.
Import ListNotations.
Local Open Scope N_scope.

(* ================================================================ A. the text of every parsed reference *)
(* the five shapes in which the C code leaves the specification (Props/C08rel.v); each is a conjunction with
   [relative_ref u] *)
Definition c08_deviates (u : uri) : bool :=
  kf_cancels u || kf_dot_eaten u || kf_exposes_empty u || kf_exposes_colon u || kf_stale_dot u.

Lemma c08_deviates_parts u : c08_deviates u = false ->
  kf_cancels u = false /\ kf_dot_eaten u = false /\ kf_exposes_empty u = false /\ kf_exposes_colon u = false
  /\ kf_stale_dot u = false.
Proof.
  unfold c08_deviates. intros H.
  apply orb_false_elim in H. destruct H as [H H5]. apply orb_false_elim in H. destruct H as [H H4].
  apply orb_false_elim in H. destruct H as [H H3]. apply orb_false_elim in H. destruct H as [H1 H2].
  repeat split; assumption.
Qed.

Lemma c08_deviates_non_relative u : relative_ref u = false -> c08_deviates u = false.
Proof.
  intros H. unfold c08_deviates, kf_cancels, kf_dot_eaten, kf_exposes_empty, kf_exposes_colon, kf_stale_dot.
  rewrite H. reflexivity.
Qed.

Lemma c08_deviates_carved u : c08_deviates u = carved u.
Proof. reflexivity. Qed.

(* ---- the guard of the specification does nothing to the model's relative result ---- *)
(* uriFixAmbiguity has put a "." in front of two empty segments: the result never begins with them *)
Lemma guarded_no_dslash W :
  match drop_lone (guard_segs false false W) with [] :: [] :: _ => true | _ => false end = false.
Proof. destruct W as [|[|c s] [|[|e t] r]]; reflexivity. Qed.

Lemma no_slash_dot : no_slash [46].
Proof. repeat constructor. discriminate. Qed.

Lemma norm_segs_of_no_slash rel segs : forallb pct_wf segs = true -> Forall no_slash segs ->
  Forall no_slash (norm_segs_of rel false false segs).
Proof.
  intros Hwf Hns. rewrite norm_segs_of_steps. unfold walk0.
  pose proof (map_fix_no_slash segs Hwf Hns) as Hm.
  set (S := map fix_pct segs) in *. clearbody S.
  assert (Forall no_slash (match S with [] => [] | _ :: _ => rds_walk rel false false [] S end)) as HW.
  { destruct S as [|s0 sr]; [constructor|]. apply rds_walk_Forall; [constructor|constructor|exact Hm]. }
  set (W := match S with [] => [] | _ :: _ => rds_walk rel false false [] S end) in *. clearbody W.
  assert (Forall no_slash (guard_segs false false W)) as HG.
  { destruct W as [|[|c s] [|[|e t] r]]; cbn [guard_segs]; try exact HW. constructor; [exact no_slash_dot|exact HW]. }
  unfold fet_segs. cbn [negb].
  destruct (guard_segs false false W) as [|[|c s] [|? ?]]; try exact HG. constructor.
Qed.

Lemma norm_segs_of_rel_no_dslash segs :
  match norm_segs_of true false false segs with [] :: [] :: _ => true | _ => false end = false.
Proof. rewrite norm_segs_of_steps. apply (guarded_no_dslash (walk0 true false false (map fix_pct segs))). Qed.

(* the path text of the normalized relative-path reference neither begins with "//" nor is "/" *)
Lemma rel_path_text_unguarded u : forallb pct_wf (pathSegs u) = true -> Forall no_slash (pathSegs u) ->
  relative_ref u = true -> forall rootless,
  Normal.guard_path rootless false (path_text (normalize 63 u)) = path_text (normalize 63 u).
Proof.
  intros Hwf Hns Hrel rootless. destruct (path_text_relative u Hrel) as (E1 & _ & _). rewrite E1.
  pose proof (dslash_rootless _ (norm_segs_of_no_slash true (pathSegs u) Hwf Hns)) as Hd.
  rewrite norm_segs_of_rel_no_dslash in Hd. unfold Normal.guard_path.
  apply orb_false_elim in Hd. destruct Hd as [Hd1 Hd2].
  destruct rootless; [rewrite Hd1, Hd2|rewrite Hd1]; reflexivity.
Qed.

(* ---- the five components of any object, relative-path references outside the shapes included ---- *)
Theorem normalize_text_is_spec_all u : text_hyps u = true -> c08_deviates u = false ->
  RP.five_of_uri (normalize 63 u)
  = Normal.guard_normal (RP.five_of_uri u) (Normal.five_normal (RP.five_of_uri u)).
Proof.
  intros H Hdev. destruct (relative_ref u) eqn:Hrel; [|exact (normalize_text_is_spec u H Hrel)].
  destruct (c08_deviates_parts u Hdev) as (K1 & K2 & K3 & K4 & K5).
  unfold text_hyps in H. apply andb_prop in H. destruct H as [H Ha]. apply andb_prop in H. destruct H as [Hp Hw].
  destruct (pct_wf_parts u Hp) as (_ & _ & Hps & Hqu & Hfr).
  destruct (relative_ref_flags u Hrel) as [Hab Hh].
  assert (scheme u = None) as Hsc.
  { unfold relative_ref in Hrel. destruct (scheme u); [discriminate Hrel|reflexivity]. }
  pose proof (forallb_noslash_no_slash _ (RP.wf_noslash u Hw)) as Hns.
  pose proof (rel_normalize_is_spec_wf u Hp Hw Hrel K1 K2 K3 K4 K5) as Epath.
  pose proof (rel_path_text_unguarded u Hps Hns Hrel (Normal.is_rootless (path_text u))) as Eguard.
  unfold RP.five_of_uri at 1.
  rewrite scheme_link, (auth_link u Hp Ha), (query_link u Hqu), (fragment_link u Hfr), rp_path_text.
  unfold Normal.guard_normal, Normal.five_normal, RP.five_of_uri.
  cbn [Resolve.f_scheme Resolve.f_auth Resolve.f_path Resolve.f_query Resolve.f_frag].
  rewrite rp_path_text.
  assert (RP.auth_text u = None) as Eau by (unfold RP.auth_text; rewrite Hh; reflexivity).
  rewrite Eau, Hsc. cbn [omap Resolve.is_some_t].
  rewrite <- Epath, Eguard. reflexivity.
Qed.

Theorem normalize_to_text_is_spec_all u :
  text_hyps u = true -> ip4_rendered u = true -> ip6_rendered u = true -> c08_deviates u = false ->
  to_text (normalize 63 u)
  = Resolve.recompose (Normal.guard_normal (RP.five_of_uri u) (Normal.five_normal (RP.five_of_uri u))).
Proof.
  intros H H4 H6 Hdev. rewrite <- (normalize_text_is_spec_all u H Hdev).
  apply to_text_recompose_host. unfold text_hyps in H. apply andb_prop in H. destruct H as [H Ha].
  apply andb_prop in H. destruct H as [Hp _]. exact (host_pieces_normalized u Hp Ha H4 H6).
Qed.

(* ---- parsed texts ---- *)
Theorem parsed_normal_five_all s u : parse s = POk u -> c08_deviates u = false ->
  RP.five_of_uri (normalize 63 u)
  = Normal.guard_normal (Resolve.five_of_text s) (Normal.five_normal (Resolve.five_of_text s)).
Proof.
  intros H Hdev. rewrite <- (parsed_five_of_text s u H).
  apply normalize_text_is_spec_all; [exact (proj1 (parsed_meets_hyps s u H))|exact Hdev].
Qed.

Lemma relative_ref_no_ip6 u : relative_ref u = true -> ip6 u = None.
Proof.
  intros Hrel. destruct (relative_ref_flags u Hrel) as [_ Hh]. unfold is_host_set in Hh.
  destruct (ip6 u); [|reflexivity]. rewrite !orb_true_r in Hh. cbn [is_some orb] in Hh.
  rewrite ?orb_true_r in Hh. discriminate Hh.
Qed.

(* THE TEXT, every parsed reference: parse, normalize, write = the specification's normal form of the text
   parsed (its IPv6 literal, if any, in the form uriToString writes) *)
Theorem parsed_normal_text_all s u : parse s = POk u -> c08_deviates u = false ->
  to_text (normalize 63 u) = Normal.normal_text (Spec.Recompose.canon_ip6 s).
Proof.
  intros H Hdev. destruct (relative_ref u) eqn:Hrel; [|exact (parsed_normal_text_canon s u H Hrel)].
  pose proof (relative_ref_no_ip6 u Hrel) as E6.
  rewrite (ParseRecompose.canon_ip6_id s u H E6).
  unfold Normal.normal_text. cbv zeta. rewrite <- (parsed_five_of_text s u H).
  destruct (parsed_meets_hyps s u H) as [Hh H4].
  exact (normalize_to_text_is_spec_all u Hh H4 (ip6_none_rendered u E6) Hdev).
Qed.

(* without an IPv6 host: the normal form of the text itself *)
Corollary parsed_normal_text_all_no_ip6 s u : parse s = POk u -> c08_deviates u = false -> ip6 u = None ->
  to_text (normalize 63 u) = Normal.normal_text s.
Proof.
  intros H Hdev E6. rewrite (parsed_normal_text_all s u H Hdev), (ParseRecompose.canon_ip6_id s u H E6). reflexivity.
Qed.

(* ================================================================ B. idempotence *)
(* ---- what the relative walk leaves ---- *)
(* the walk's stack (most recent first): segments that are no dot segments on top of a ".." run, or on top of
   the one "." kept in front of a first segment containing ':' *)
Fixpoint kept_ok (k : list text) : bool :=
  match k with
  | [] => true
  | s :: r => if seg_dotdot s then forallb seg_dotdot r else if seg_dot s then is_nil r else kept_ok r
  end.

Lemma kept_ok_tl p r : kept_ok (p :: r) = true -> seg_dotdot p = false -> kept_ok r = true.
Proof.
  cbn [kept_ok]. intros H Hp. rewrite Hp in H. destruct (seg_dot p); [|exact H].
  destruct r; [reflexivity|discriminate H].
Qed.

Lemma walk_kept_ok : forall rest kept, kept_ok kept = true ->
  exists k', kept_ok k' = true /\ rds_walk true false false kept rest = rev k'.
Proof.
  induction rest as [|w nxt IH]; intros kept Hk.
  - exists kept. split; [exact Hk|reflexivity].
  - rewrite walk_cons. destruct (seg_dot w) eqn:Ed.
    { destruct (is_nil kept && first_colon nxt) eqn:Ess.
      - apply andb_prop in Ess. destruct Ess as [Ek _]. destruct kept as [|p kk]; [|discriminate Ek].
        apply IH. cbn [kept_ok]. rewrite Ed. apply seg_dot_true in Ed. subst w. reflexivity.
      - destruct nxt as [|n1 nxt']; [|apply IH; exact Hk].
        destruct kept as [|p kk]; [exists []; split; reflexivity|].
        exists ([] :: p :: kk). split; [exact Hk|reflexivity]. }
    destruct (seg_dotdot w) eqn:Edd.
    { destruct (match kept with [] => true | p :: _ => seg_dotdot p end) eqn:Ekeep.
      - apply IH. cbn [kept_ok]. rewrite Edd. destruct kept as [|p kk]; [reflexivity|].
        cbn [kept_ok] in Hk. rewrite Ekeep in Hk. cbn [forallb]. rewrite Ekeep, Hk. reflexivity.
      - destruct kept as [|p kk]; [discriminate Ekeep|]. pose proof (kept_ok_tl p kk Hk Ekeep) as Hkk. cbn [tl].
        destruct nxt as [|n1 nxt']; [|apply IH; exact Hkk].
        destruct kk as [|pp kk']; [exists [[]]; split; reflexivity|].
        exists ([] :: pp :: kk'). split; [exact Hkk|reflexivity]. }
    apply IH. cbn [kept_ok]. rewrite Edd, Ed. exact Hk.
Qed.

Lemma no_dots_app a b : no_dots (a ++ b) = no_dots a && no_dots b.
Proof. unfold no_dots. apply forallb_app. Qed.

Lemma drop_dotdots_all l : forallb seg_dotdot l = true -> drop_dotdots l = [].
Proof.
  induction l as [|s r IH]; [reflexivity|]. cbn [forallb drop_dotdots]. intros H. apply andb_prop in H.
  destruct H as [Hs Hr]. rewrite Hs. exact (IH Hr).
Qed.

Lemma drop_dotdots_snoc l s : seg_dot s = false -> seg_dotdot s = false ->
  no_dots (drop_dotdots l) = true -> no_dots (drop_dotdots (l ++ [s])) = true.
Proof.
  intros Hd Hdd. induction l as [|x r IH]; intros H.
  - cbn [app drop_dotdots]. rewrite Hdd. unfold no_dots. cbn [forallb]. rewrite Hd, Hdd. reflexivity.
  - cbn [app drop_dotdots] in *. destruct (seg_dotdot x); [exact (IH H)|].
    change (x :: r ++ [s]) with ((x :: r) ++ [s]). rewrite no_dots_app, H. unfold no_dots. cbn [forallb].
    rewrite Hd, Hdd. reflexivity.
Qed.

(* read from the front: a ".." run followed by no dot segment, or one "." followed by no dot segment *)
Lemma kept_ok_rev k : kept_ok k = true ->
  no_dots (drop_dotdots (rev k)) = true \/ exists a, rev k = @cons text [46] a /\ no_dots a = true.
Proof.
  induction k as [|s r IH]; intros H; [left; reflexivity|].
  cbn [kept_ok] in H. cbn [rev]. destruct (seg_dotdot s) eqn:Edd.
  - left. rewrite drop_dotdots_all; [reflexivity|]. rewrite forallb_app, forallb_rev. cbn [forallb].
    rewrite H, Edd. reflexivity.
  - destruct (seg_dot s) eqn:Ed.
    + destruct r; [|discriminate H]. apply seg_dot_true in Ed. subst s. right. exists []. split; reflexivity.
    + destruct (IH H) as [Hl|(a & Ea & Ha)].
      * left. apply drop_dotdots_snoc; assumption.
      * right. exists (a ++ [s]). rewrite Ea. split; [reflexivity|]. rewrite no_dots_app, Ha. unfold no_dots.
        cbn [forallb]. rewrite Ed, Edd. reflexivity.
Qed.

Theorem walk_shape segs :
  let out := walk0 true false false segs in
  no_dots (drop_dotdots out) = true \/ exists a, out = @cons text [46] a /\ no_dots a = true.
Proof.
  cbv zeta. unfold walk0. destruct segs as [|s0 sr]; [left; reflexivity|].
  destruct (walk_kept_ok (s0 :: sr) [] eq_refl) as (k' & Hk & E). rewrite E. exact (kept_ok_rev k' Hk).
Qed.

(* ---- the "." in front of the result ---- *)
(* a result that begins with a "." segment keeps it under a second normalization exactly when the "." stands
   in front of a segment containing ':' (the essential dot) or in front of two empty segments (the guard of
   uriFixAmbiguity); a result that does not begin with "." is a fixed point *)
Definition dot_needed (out : list text) : bool :=
  match out with
  | d :: rest =>
    if seg_dot d then
      match rest with
      | s :: _ => has_colon s || match rest with [] :: [] :: _ => true | _ => false end
      | [] => false
      end
    else true
  | [] => true
  end.
Definition kf_dot_unneeded (u : uri) : bool :=
  relative_ref u && negb (dot_needed (pathSegs (normalize 63 u))).

Lemma pathSegs_relative u : relative_ref u = true ->
  pathSegs (normalize 63 u)
  = fet_segs false (guard_segs false false (walk0 true false false (map fix_pct (pathSegs u)))).
Proof.
  intros Hrel. destruct (path_text_relative u Hrel) as (_ & _ & E). rewrite E. apply norm_segs_of_steps.
Qed.

Lemma dotted_result a : fet_segs false (guard_segs false false (@cons text [46] a)) = @cons text [46] a.
Proof. reflexivity. Qed.

Lemma not_dot_result out : no_dots (drop_dotdots out) = true ->
  dot_needed (fet_segs false (guard_segs false false out)) = true.
Proof.
  intros H. destruct out as [|h t]; [reflexivity|]. destruct (seg_dot h) eqn:Ed.
  - apply seg_dot_true in Ed. subst h. cbn [drop_dotdots] in H. change (seg_dotdot [46]) with false in H.
    cbv iota in H. unfold no_dots in H. cbn [forallb] in H. change (seg_dot [46]) with true in H. discriminate H.
  - destruct h as [|c s].
    + destruct t as [|[|e t'] r]; reflexivity.
    + assert (fet_segs false (guard_segs false false (@cons text (c :: s) t)) = (c :: s) :: t) as E
        by (destruct t as [|[|e t'] r]; reflexivity).
      rewrite E. unfold dot_needed. rewrite Ed. reflexivity.
Qed.

Lemma no_dots_Forall' a : no_dots a = true -> Forall (fun s => seg_dot s = false /\ seg_dotdot s = false) a.
Proof. apply no_dots_Forall. Qed.

(* the second walk on a result "." :: a *)
Lemma walk_dotted a : no_dots a = true ->
  rds_walk true false false [] (@cons text [46] a)
  = match a with
    | [] => []
    | s :: _ => if has_colon s then [46] :: a else a
    end.
Proof.
  intros Ha. rewrite walk_cons. change (seg_dot [46]) with true. cbv iota. cbn [is_nil andb]. unfold first_colon.
  destruct a as [|s r]; [reflexivity|]. destruct (has_colon s).
  - rewrite rds_walk_no_dots by (apply no_dots_Forall; exact Ha). reflexivity.
  - rewrite rds_walk_no_dots by (apply no_dots_Forall; exact Ha). reflexivity.
Qed.

Lemma pct_wf_segs u : uri_pct_wf u = true -> forallb pct_wf (pathSegs u) = true.
Proof. intros H. exact (proj1 (proj2 (proj2 (pct_wf_parts u H)))). Qed.

(* the path of the second normalization, from the result of the first walk *)
Lemma second_pass u : uri_pct_wf u = true -> relative_ref u = true ->
  let M := pathSegs (normalize 63 u) in
  pathSegs (normalize 63 (normalize 63 u))
  = fet_segs false (guard_segs false false (walk0 true false false M))
  /\ M = fet_segs false (guard_segs false false (walk0 true false false (map fix_pct (pathSegs u)))).
Proof.
  intros Hwf Hrel. cbv zeta. destruct (normalize_flags u) as (Hr & _ & _ & _).
  rewrite Hrel in Hr. split; [|exact (pathSegs_relative u Hrel)].
  rewrite (pathSegs_relative (normalize 63 u) Hr). f_equal. f_equal. f_equal.
  apply map_fixed. rewrite (pathSegs_relative u Hrel).
  pose proof (walk0_fixed true false false (pathSegs u) (pct_wf_segs u Hwf)) as Hf.
  set (W := walk0 true false false (map fix_pct (pathSegs u))) in *. clearbody W.
  assert (Forall (fun s => fix_pct s = s) (guard_segs false false W)) as HG.
  { destruct W as [|[|c s] [|[|e t] r]]; cbn [guard_segs]; try exact Hf. constructor; [reflexivity|exact Hf]. }
  unfold fet_segs. cbn [negb]. destruct (guard_segs false false W) as [|[|c s] [|? ?]]; try exact HG. constructor.
Qed.

Lemma components_pathSegs u v : components u = components v -> pathSegs u = pathSegs v.
Proof. unfold components. intros H. injection H. auto. Qed.

Lemma length_guarded W : (length (fet_segs false (guard_segs false false W)) <= S (length W))%nat
  /\ (match W with [] :: [] :: _ => false | _ => true end = true ->
      (length (fet_segs false (guard_segs false false W)) <= length W)%nat).
Proof. destruct W as [|[|c s] [|[|e t] r]]; cbn [guard_segs fet_segs negb length]; split; intros; try lia; discriminate. Qed.

(* EXACTLY: a second normalization changes nothing iff the reference is not a relative-path reference whose
   first result carries a "." that is not needed *)
Theorem normalize_idempotent_exact u : uri_pct_wf u = true ->
  (components (normalize 63 (normalize 63 u)) = components (normalize 63 u) <-> kf_dot_unneeded u = false).
Proof.
  intros Hwf. unfold kf_dot_unneeded. destruct (relative_ref u) eqn:Hrel.
  2:{ split; [reflexivity|]. intros _. exact (normalize_idem u Hwf Hrel). }
  cbn [andb]. destruct (relative_ref_flags u Hrel) as [Hab Hh].
  destruct (second_pass u Hwf Hrel) as [E2 E1]. cbv zeta in E2, E1.
  assert (forall out, out = walk0 true false false (map fix_pct (pathSegs u)) ->
                      rds_walk true false false [] out = out ->
                      components (normalize 63 (normalize 63 u)) = components (normalize 63 u)) as Hwalk.
  { intros out -> Hw. apply normalize_idem_walk; [exact Hwf|]. cbv zeta. rewrite Hrel, Hab, Hh. exact Hw. }
  destruct (walk_shape (map fix_pct (pathSegs u))) as [Hl|(a & Ea & Ha)]; cbv zeta in *.
  - (* no "." in front of the walk's output: stable *)
    rewrite E1, (not_dot_result _ Hl). split; [reflexivity|]. intros _.
    apply (Hwalk _ eq_refl). apply (rds_walk_dotdot_run false false _ []); [constructor|exact Hl].
  - rewrite Ea, dotted_result in E1. rewrite E1 in E2 |- *.
    unfold walk0 in E2. cbv iota in E2. rewrite (walk_dotted a Ha) in E2.
    destruct a as [|s r].
    + (* "." alone *)
      cbn [dot_needed negb]. split; [|discriminate]. intros H. apply components_pathSegs in H.
      rewrite E2, E1 in H. discriminate H.
    + cbn [dot_needed]. destruct (has_colon s) eqn:Ec.
      * (* the essential dot *)
        cbn [orb negb]. split; [reflexivity|]. intros _. apply (Hwalk _ (eq_sym Ea)).
        rewrite (walk_dotted (s :: r) Ha), Ec. reflexivity.
      * cbn [orb]. destruct (match s :: r with [] :: [] :: _ => true | _ => false end) eqn:Eg.
        -- (* the guard *)
           cbn [negb]. split; [reflexivity|]. intros _. apply normalize_idem_core; [exact Hwf|].
           destruct (normalize_flags (normalize 63 u)) as (_ & _ & _ & Hp). rewrite <- Hp, E2, E1.
           destruct s as [|c s']; [|discriminate Eg]. destruct r as [|[|e t] r']; try discriminate Eg. reflexivity.
        -- cbn [negb]. split; [|discriminate]. intros H. apply components_pathSegs in H. rewrite E2, E1 in H.
           apply (f_equal (@length text)) in H. cbn [length] in H.
           assert (match s :: r with [] :: [] :: _ => false | _ => true end = true) as Hg
             by (destruct s as [|? ?]; [destruct r as [|[|? ?] ?]; [reflexivity|discriminate Eg|reflexivity]|reflexivity]).
           pose proof (proj2 (length_guarded (s :: r)) Hg) as Hlen.
           cbn [length] in Hlen. lia.
Qed.

Corollary normalize_idempotent_dot_needed u : uri_pct_wf u = true -> kf_dot_unneeded u = false ->
  components (normalize 63 (normalize 63 u)) = components (normalize 63 u).
Proof. intros Hwf H. apply (normalize_idempotent_exact u Hwf). exact H. Qed.

(* for relative-path references, on the result alone *)
Corollary normalize_idempotent_iff u : uri_pct_wf u = true -> relative_ref u = true ->
  (components (normalize 63 (normalize 63 u)) = components (normalize 63 u)
   <-> dot_needed (pathSegs (normalize 63 u)) = true).
Proof.
  intros Hwf Hrel. rewrite (normalize_idempotent_exact u Hwf). unfold kf_dot_unneeded. rewrite Hrel. cbn [andb].
  destruct (dot_needed _); split; intros H; try reflexivity; discriminate H.
Qed.

(* ---- in the vocabulary of the findings ---- *)
(* an unneeded "." is the stale dot D7d of the reference itself, or its removal by the second normalization
   is D7a ("./" -> "") or D7c (".//x" -> "/x") of the normal form *)
Lemma dot_unneeded_shapes u : uri_pct_wf u = true -> kf_dot_unneeded u = true ->
  kf_stale_dot u = true \/ kf_cancels (normalize 63 u) = true \/ kf_exposes_empty (normalize 63 u) = true.
Proof.
  intros Hwf H. unfold kf_dot_unneeded in H. apply andb_prop in H. destruct H as [Hrel H].
  apply negb_true_iff in H.
  destruct (second_pass u Hwf Hrel) as [E2 E1]. cbv zeta in E2, E1.
  destruct (normalize_flags u) as (Hr & _ & _ & _). rewrite Hrel in Hr.
  unfold kf_stale_dot, kf_cancels, kf_exposes_empty. rewrite Hrel, Hr. cbn [andb].
  destruct (walk_shape (map fix_pct (pathSegs u))) as [Hl|(a & Ea & Ha)]; cbv zeta in *.
  - rewrite E1, (not_dot_result _ Hl) in H. discriminate H.
  - rewrite Ea, dotted_result in E1. rewrite E1 in E2, H |- *.
    unfold walk0 in E2. cbv iota in E2. rewrite (walk_dotted a Ha) in E2. rewrite E2.
    unfold dot_needed in H. change (seg_dot [46]) with true in H. cbv iota in H.
    destruct a as [|s r]; [left; reflexivity|].
    apply orb_false_elim in H. destruct H as [Hc Hg]. rewrite Hc.
    destruct s as [|c s'].
    + destruct r as [|[|e t] r'].
      * right. left. reflexivity.
      * discriminate Hg.
      * right. right. reflexivity.
    + left. cbn [stale_shape is_nil negb andb]. rewrite Hc. reflexivity.
Qed.

(* idempotence, every object: outside D7d of the reference and D7a / D7c of its normal form *)
Theorem normalize_idempotent_shapes u : uri_pct_wf u = true ->
  kf_stale_dot u = false -> kf_cancels (normalize 63 u) = false -> kf_exposes_empty (normalize 63 u) = false ->
  components (normalize 63 (normalize 63 u)) = components (normalize 63 u).
Proof.
  intros Hwf H1 H2 H3. apply (normalize_idempotent_dot_needed u Hwf).
  destruct (kf_dot_unneeded u) eqn:E; [|reflexivity].
  destruct (dot_unneeded_shapes u Hwf E) as [H|[H|H]]; congruence.
Qed.

(* every parsed reference: the reference and its normal form outside the five shapes *)
Theorem normalize_idempotent_all_partial s u : parse s = POk u ->
  c08_deviates u = false -> c08_deviates (normalize 63 u) = false ->
  components (normalize 63 (normalize 63 u)) = components (normalize 63 u).
Proof.
  intros H Hd Hd2.
  destruct (c08_deviates_parts u Hd) as (_ & _ & _ & _ & K5).
  destruct (c08_deviates_parts _ Hd2) as (K1 & _ & K3 & _ & _).
  apply normalize_idempotent_shapes; try assumption.
  exact (proj1 (ParseWf.parsed_wf_normalization u (ParseWf.parse_wf s u H))).
Qed.

(* "outside the five shapes" alone is not enough: "./b:c/.." is outside them and agrees with the
   specification ("./"), its normal form "./" is D7a: the second normalization leaves "" *)
Lemma normalize_idempotent_all_refuted :
  exists s u, parse s = POk u /\ c08_deviates u = false
              /\ to_text (normalize 63 u) = Normal.normal_text s
              /\ kf_cancels (normalize 63 u) = true
              /\ components (normalize 63 (normalize 63 u)) <> components (normalize 63 u).
Proof.
  exists wit_cancel. eexists. split; [vm_compute; reflexivity|].
  split; [vm_compute; reflexivity|]. split; [vm_compute; reflexivity|]. split; [vm_compute; reflexivity|].
  vm_compute. discriminate.
Qed.

(* and D7c of the normal form: "./b:c/..//x" -> ".//x" (as the specification) -> "/x" *)
Lemma normalize_idempotent_exposes_refuted :
  exists s u, parse s = POk u /\ c08_deviates u = false
              /\ to_text (normalize 63 u) = Normal.normal_text s
              /\ kf_exposes_empty (normalize 63 u) = true
              /\ components (normalize 63 (normalize 63 u)) <> components (normalize 63 u).
Proof.
  exists [46; 47; 98; 58; 99; 47; 46; 46; 47; 47; 120]. eexists. split; [vm_compute; reflexivity|].
  split; [vm_compute; reflexivity|]. split; [vm_compute; reflexivity|]. split; [vm_compute; reflexivity|].
  vm_compute. discriminate.
Qed.

(* the specification itself is idempotent on these two: the normal form of "./" is "./", of ".//x" is ".//x" *)
Lemma spec_idempotent_on_witnesses :
  Normal.normal_text (Normal.normal_text wit_cancel) = Normal.normal_text wit_cancel
  /\ Normal.normal_text (Normal.normal_text [46; 47; 98; 58; 99; 47; 46; 46; 47; 47; 120])
     = Normal.normal_text [46; 47; 98; 58; 99; 47; 46; 46; 47; 47; 120].
Proof. split; vm_compute; reflexivity. Qed.

(* ---- the statement tested by computation (a test, not the proof) ---- *)
(* all lists of up to five segments over {"", ".", "..", "a", "b:c", "%2e", "%2E%2e"} (RelNormalize.lists_upto):
   on every well-formed one, idempotence holds exactly when kf_dot_unneeded is false *)
Fixpoint segs_eqb (a b : list text) : bool :=
  match a, b with
  | [], [] => true
  | x :: a', y :: b' => Resolve.text_eqb x y && segs_eqb a' b'
  | _, _ => false
  end.
Definition idem_segs (u : uri) : bool :=
  segs_eqb (pathSegs (normalize 63 (normalize 63 u))) (pathSegs (normalize 63 u)).

Lemma idempotence_tested :
  forallb (fun segs => let u := rel_uri segs in
                       if rel_hyps_b u then Bool.eqb (idem_segs u) (negb (kf_dot_unneeded u)) else true)
          (lists_upto 5) = true
  /\ N.of_nat (length (filter (fun segs => let u := rel_uri segs in
                                           rel_hyps_b u && negb (carved u) && negb (idem_segs u)) (lists_upto 5))) = 224
  /\ forallb (fun segs => let u := rel_uri segs in
                          if rel_hyps_b u && negb (carved u) && negb (carved (normalize 63 u)) then idem_segs u else true)
             (lists_upto 5) = true.
Proof. vm_compute. repeat split. Qed.

Print Assumptions parsed_normal_text_all.
Print Assumptions parsed_normal_five_all.
Print Assumptions normalize_idempotent_exact.
Print Assumptions normalize_idempotent_all_partial.
