(* C08 for EVERY parsed reference: the glue between Proofs/NormalizeText.v (references that are not
   relative-path references) and Proofs/RelNormalize.v (relative-path references outside the five shapes
   D7a..D7e), and idempotence.

     A. c08_deviates u            the five shapes, as one boolean (false for every non-relative reference)
        normalize_text_is_spec_all, normalize_to_text_is_spec_all
                                  the five components / the text of [normalize 63 u] are the specification's
                                  normal form, for every object meeting text_hyps outside the shapes
        parsed_normal_five_all, parsed_normal_text_all
                                  ... for every parsed text
     B. walk_shape                what the relative walk of uriRemoveDotSegmentsEx leaves: a ".." run followed
                                  by no dot segment, or one "." followed by no dot segment
        normalize_idempotent_iff  a relative-path reference is a fixed point of a second normalization exactly
                                  when the "." in front of its first result (if any) is needed (dot_needed)
        normalize_idempotent_shapes, normalize_idempotent_all_partial
                                  idempotence outside D7d of the reference and D7a / D7c of its normal form
        normalize_idempotent_all_refuted
                                  "outside the five shapes" alone is not enough: "./b:c/.." -> "./" -> "" *)
From Coq Require Import String List NArith Bool Lia ZifyBool ZifyN.
From UP Require Import Base.Chars Model.Uri Model.Common Model.Normalize Model.Recompose Model.Parse
  Spec.NormalWf Proofs.DotSegments Proofs.NormalizeProofs Proofs.NormalizeLink Proofs.CommuteProofs
  Proofs.RelNormalize Proofs.NormalizeText.
From UP Require Spec.Normal Spec.Resolve Spec.Recompose Proofs.ResolveProofs Proofs.ParseRecompose Proofs.ParseWf.
Import ListNotations.
Local Open Scope N_scope.

(* ================================================================ A. the text of every parsed reference *)
(* the five shapes in which the C code leaves the specification (Props/C08rel.v); each is a conjunction with
   [relative_ref u] *)
Definition c08_deviates (u : uri) : bool :=
  kf_cancels u || kf_dot_eaten u || kf_exposes_empty u || kf_exposes_colon u || kf_stale_dot u.

Lemma c08_deviates_parts u : c08_deviates u = false ->
  kf_cancels u = false /\ kf_dot_eaten u = false /\ kf_exposes_empty u = false /\ kf_exposes_colon u = false
  /\ kf_stale_dot u = false.
Proof.
  unfold c08_deviates. intros H.
  apply orb_false_elim in H. destruct H as [H H5]. apply orb_false_elim in H. destruct H as [H H4].
  apply orb_false_elim in H. destruct H as [H H3]. apply orb_false_elim in H. destruct H as [H1 H2].
  repeat split; assumption.
Qed.

Lemma c08_deviates_non_relative u : relative_ref u = false -> c08_deviates u = false.
Proof.
  intros H. unfold c08_deviates, kf_cancels, kf_dot_eaten, kf_exposes_empty, kf_exposes_colon, kf_stale_dot.
  rewrite H. reflexivity.
Qed.

Lemma c08_deviates_carved u : c08_deviates u = carved u.
Proof. reflexivity. Qed.

(* ---- the guard of the specification does nothing to the model's relative result ---- *)
(* uriFixAmbiguity has put a "." in front of two empty segments: the result never begins with them *)
Lemma guarded_no_dslash W :
  match drop_lone (guard_segs false false W) with [] :: [] :: _ => true | _ => false end = false.
Proof. destruct W as [|[|c s] [|[|e t] r]]; reflexivity. Qed.

Lemma no_slash_dot : no_slash [46].
Proof. repeat constructor. discriminate. Qed.

Lemma norm_segs_of_no_slash rel segs : forallb pct_wf segs = true -> Forall no_slash segs ->
  Forall no_slash (norm_segs_of rel false false segs).
Proof.
  intros Hwf Hns. rewrite norm_segs_of_steps. unfold walk0.
  pose proof (map_fix_no_slash segs Hwf Hns) as Hm.
  set (S := map fix_pct segs) in *. clearbody S.
  assert (Forall no_slash (match S with [] => [] | _ :: _ => rds_walk rel false false [] S end)) as HW.
  { destruct S as [|s0 sr]; [constructor|]. apply rds_walk_Forall; [constructor|constructor|exact Hm]. }
  set (W := match S with [] => [] | _ :: _ => rds_walk rel false false [] S end) in *. clearbody W.
  assert (Forall no_slash (guard_segs false false W)) as HG.
  { destruct W as [|[|c s] [|[|e t] r]]; cbn [guard_segs]; try exact HW. constructor; [exact no_slash_dot|exact HW]. }
  unfold fet_segs. cbn [negb].
  destruct (guard_segs false false W) as [|[|c s] [|? ?]]; try exact HG. constructor.
Qed.

Lemma norm_segs_of_rel_no_dslash segs :
  match norm_segs_of true false false segs with [] :: [] :: _ => true | _ => false end = false.
Proof. rewrite norm_segs_of_steps. apply (guarded_no_dslash (walk0 true false false (map fix_pct segs))). Qed.

(* the path text of the normalized relative-path reference neither begins with "//" nor is "/" *)
Lemma rel_path_text_unguarded u : forallb pct_wf (pathSegs u) = true -> Forall no_slash (pathSegs u) ->
  relative_ref u = true -> forall rootless,
  Normal.guard_path rootless false (path_text (normalize 63 u)) = path_text (normalize 63 u).
Proof.
  intros Hwf Hns Hrel rootless. destruct (path_text_relative u Hrel) as (E1 & _ & _). rewrite E1.
  pose proof (dslash_rootless _ (norm_segs_of_no_slash true (pathSegs u) Hwf Hns)) as Hd.
  rewrite norm_segs_of_rel_no_dslash in Hd. unfold Normal.guard_path.
  apply orb_false_elim in Hd. destruct Hd as [Hd1 Hd2].
  destruct rootless; [rewrite Hd1, Hd2|rewrite Hd1]; reflexivity.
Qed.

(* ---- the five components of any object, relative-path references outside the shapes included ---- *)
Theorem normalize_text_is_spec_all u : text_hyps u = true -> c08_deviates u = false ->
  RP.five_of_uri (normalize 63 u)
  = Normal.guard_normal (RP.five_of_uri u) (Normal.five_normal (RP.five_of_uri u)).
Proof.
  intros H Hdev. destruct (relative_ref u) eqn:Hrel; [|exact (normalize_text_is_spec u H Hrel)].
  destruct (c08_deviates_parts u Hdev) as (K1 & K2 & K3 & K4 & K5).
  unfold text_hyps in H. apply andb_prop in H. destruct H as [H Ha]. apply andb_prop in H. destruct H as [Hp Hw].
  destruct (pct_wf_parts u Hp) as (_ & _ & Hps & Hqu & Hfr).
  destruct (relative_ref_flags u Hrel) as [Hab Hh].
  assert (scheme u = None) as Hsc.
  { unfold relative_ref in Hrel. destruct (scheme u); [discriminate Hrel|reflexivity]. }
  pose proof (forallb_noslash_no_slash _ (RP.wf_noslash u Hw)) as Hns.
  pose proof (rel_normalize_is_spec_wf u Hp Hw Hrel K1 K2 K3 K4 K5) as Epath.
  pose proof (rel_path_text_unguarded u Hps Hns Hrel (Normal.is_rootless (path_text u))) as Eguard.
  unfold RP.five_of_uri at 1.
  rewrite scheme_link, (auth_link u Hp Ha), (query_link u Hqu), (fragment_link u Hfr), rp_path_text.
  unfold Normal.guard_normal, Normal.five_normal, RP.five_of_uri.
  cbn [Resolve.f_scheme Resolve.f_auth Resolve.f_path Resolve.f_query Resolve.f_frag].
  rewrite rp_path_text.
  assert (RP.auth_text u = None) as Eau by (unfold RP.auth_text; rewrite Hh; reflexivity).
  rewrite Eau, Hsc. cbn [omap Resolve.is_some_t].
  rewrite <- Epath, Eguard. reflexivity.
Qed.

Theorem normalize_to_text_is_spec_all u :
  text_hyps u = true -> ip4_rendered u = true -> ip6_rendered u = true -> c08_deviates u = false ->
  to_text (normalize 63 u)
  = Resolve.recompose (Normal.guard_normal (RP.five_of_uri u) (Normal.five_normal (RP.five_of_uri u))).
Proof.
  intros H H4 H6 Hdev. rewrite <- (normalize_text_is_spec_all u H Hdev).
  apply to_text_recompose_host. unfold text_hyps in H. apply andb_prop in H. destruct H as [H Ha].
  apply andb_prop in H. destruct H as [Hp _]. exact (host_pieces_normalized u Hp Ha H4 H6).
Qed.

(* ---- parsed texts ---- *)
Theorem parsed_normal_five_all s u : parse s = POk u -> c08_deviates u = false ->
  RP.five_of_uri (normalize 63 u)
  = Normal.guard_normal (Resolve.five_of_text s) (Normal.five_normal (Resolve.five_of_text s)).
Proof.
  intros H Hdev. rewrite <- (parsed_five_of_text s u H).
  apply normalize_text_is_spec_all; [exact (proj1 (parsed_meets_hyps s u H))|exact Hdev].
Qed.

Lemma relative_ref_no_ip6 u : relative_ref u = true -> ip6 u = None.
Proof.
  intros Hrel. destruct (relative_ref_flags u Hrel) as [_ Hh]. unfold is_host_set in Hh.
  destruct (ip6 u); [|reflexivity]. rewrite !orb_true_r in Hh. cbn [is_some orb] in Hh.
  rewrite ?orb_true_r in Hh. discriminate Hh.
Qed.

(* THE TEXT, every parsed reference: parse, normalize, write = the specification's normal form of the text
   parsed (its IPv6 literal, if any, in the form uriToString writes) *)
Theorem parsed_normal_text_all s u : parse s = POk u -> c08_deviates u = false ->
  to_text (normalize 63 u) = Normal.normal_text (Spec.Recompose.canon_ip6 s).
Proof.
  intros H Hdev. destruct (relative_ref u) eqn:Hrel; [|exact (parsed_normal_text_canon s u H Hrel)].
  pose proof (relative_ref_no_ip6 u Hrel) as E6.
  rewrite (ParseRecompose.canon_ip6_id s u H E6).
  unfold Normal.normal_text. cbv zeta. rewrite <- (parsed_five_of_text s u H).
  destruct (parsed_meets_hyps s u H) as [Hh H4].
  exact (normalize_to_text_is_spec_all u Hh H4 (ip6_none_rendered u E6) Hdev).
Qed.

(* without an IPv6 host: the normal form of the text itself *)
Corollary parsed_normal_text_all_no_ip6 s u : parse s = POk u -> c08_deviates u = false -> ip6 u = None ->
  to_text (normalize 63 u) = Normal.normal_text s.
Proof.
  intros H Hdev E6. rewrite (parsed_normal_text_all s u H Hdev), (ParseRecompose.canon_ip6_id s u H E6). reflexivity.
Qed.
