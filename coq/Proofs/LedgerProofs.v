(* The allocation ledger of the memory tier (Model/Mem.v, Model/ParseM.v, Model/OpsM.v):
   what is live, who holds it, what a release call returns, for every input, every fault plan
   and unbounded sizes.  Used by Props/C13.v, Props/C14.v (and the "no residue" clause of C03).

   Method.  A multiset of block ids is handled through its counting function
   [cnt l x = count_occ l x]; "the live blocks of s' are those of s plus the blocks B" reads
   [forall x, L s' x = cnt B x + L s x], which [lia] decides pointwise.  The public statements
   are translated back to [Permutation] / [NoDup] at the end. *)
From Coq Require Import List NArith Bool Arith Lia Permutation.
From UP Require Import Base.Chars Base.Atoms Model.Uri Model.Ip4 Model.Parse Model.Common Model.Compare
  Model.Resolve Model.Shorten Model.Normalize Model.Mem Model.ParseM Model.OpsM.
Import ListNotations.

(* ================================================================ counting *)
Definition cnt (l : list nat) (x : nat) : nat := count_occ Nat.eq_dec l x.

Lemma cnt_nil x : cnt [] x = 0.
Proof. reflexivity. Qed.
Lemma cnt_app a b x : cnt (a ++ b) x = cnt a x + cnt b x.
Proof. apply count_occ_app. Qed.
Lemma cnt_cons a l x : cnt (a :: l) x = cnt [a] x + cnt l x.
Proof. exact (count_occ_app Nat.eq_dec [a] l x). Qed.
Lemma cnt_self a : cnt [a] a = 1.
Proof. unfold cnt. cbn. destruct (Nat.eq_dec a a); [reflexivity|contradiction]. Qed.
Lemma cnt_other a x : a <> x -> cnt [a] x = 0.
Proof. unfold cnt. cbn. destruct (Nat.eq_dec a x); [contradiction|reflexivity]. Qed.
Lemma cnt_one_le a x : cnt [a] x <= 1.
Proof. unfold cnt. cbn. destruct (Nat.eq_dec a x); lia. Qed.
Lemma cnt_rev l x : cnt (rev l) x = cnt l x.
Proof. apply count_occ_rev. Qed.
Lemma cnt_In l x : In x l <-> 1 <= cnt l x.
Proof. unfold cnt. rewrite (count_occ_In Nat.eq_dec). lia. Qed.
Lemma cnt_NoDup l : NoDup l <-> forall x, cnt l x <= 1.
Proof. apply NoDup_count_occ. Qed.
Lemma cnt_Permutation l1 l2 : Permutation l1 l2 <-> forall x, cnt l1 x = cnt l2 x.
Proof. apply Permutation_count_occ. Qed.

(* ================================================================ the ledger *)
Definition live_ids (s : mstate) : list nat := map fst (ms_live s).
Definition L (s : mstate) (x : nat) : nat := cnt (live_ids s) x.

(* live ids are pairwise distinct and below the next id *)
Definition wf (s : mstate) : Prop :=
  (forall x, L s x <= 1) /\ (forall x, ms_next s <= x -> L s x = 0).

Lemma wf_init p : wf (ms_init p).
Proof. split; intros; reflexivity || (cbv; lia). Qed.

Lemma wf_NoDup s : wf s -> NoDup (live_ids s).
Proof. intros [H _]. apply cnt_NoDup. exact H. Qed.

(* the part of a state the fault plan can look at is the request counter; [same_frame] says
   that the plan and counters moved forward only *)
Definition fails_between (s s' : mstate) : Prop :=
  exists n, ms_requests s < n <= ms_requests s' /\ plan_fails (ms_plan s) n = true.

Record ext (s s' : mstate) : Prop := {
  ext_plan : ms_plan s' = ms_plan s;
  ext_req : ms_requests s <= ms_requests s';
  ext_next : ms_next s <= ms_next s';
  ext_bad : bad_frees s' = bad_frees s }.

Lemma ext_refl s : ext s s.
Proof. split; auto. Qed.
Lemma ext_trans s1 s2 s3 : ext s1 s2 -> ext s2 s3 -> ext s1 s3.
Proof. intros [a b c d] [a' b' c' d']. split; try congruence; lia. Qed.

Lemma fails_mono s0 s1 s2 s3 : ext s0 s1 -> ext s2 s3 -> ms_requests s1 <= ms_requests s2 -> ms_plan s1 = ms_plan s2 \/ True ->
  ext s1 s2 -> fails_between s1 s2 -> fails_between s0 s3.
Proof.
  intros [a b _ _] [a' b' _ _] _ _ [a'' b'' _ _] (n & Hn & Hf). exists n. split; [lia|congruence].
Qed.

Lemma fails_left s0 s1 s2 : ext s0 s1 -> ext s1 s2 -> fails_between s0 s1 -> fails_between s0 s2.
Proof. intros [a b _ _] [a' b' _ _] (n & Hn & Hf). exists n. split; [lia|congruence]. Qed.
Lemma fails_right s0 s1 s2 : ext s0 s1 -> ext s1 s2 -> fails_between s1 s2 -> fails_between s0 s2.
Proof. intros [a b _ _] [a' b' _ _] (n & Hn & Hf). exists n. split; [lia|congruence]. Qed.

(* ---------------------------------------------------------------- alloc *)
Lemma alloc_some c sz s id s' : wf s -> alloc c sz s = (Some id, s') ->
  wf s' /\ ext s s' /\ (forall x, L s' x = cnt [id] x + L s x) /\ L s id = 0
  /\ plan_fails (ms_plan s) (S (ms_requests s)) = false /\ ms_requests s' = S (ms_requests s).
Proof.
  intros [W1 W2] H. unfold alloc in H.
  destruct (plan_fails (ms_plan s) (S (ms_requests s))) eqn:E; [discriminate|].
  injection H as <- <-.
  assert (HL : forall x, L {| ms_next := S (ms_next s); ms_live := (ms_next s, sz) :: ms_live s;
                             ms_requests := S (ms_requests s); ms_plan := ms_plan s;
                             ms_trace := (if c then EvCalloc sz true else EvMalloc sz true) :: ms_trace s |} x
                       = cnt [ms_next s] x + L s x).
  { intros x. unfold L, live_ids. cbn [ms_live map fst]. rewrite cnt_cons. reflexivity. }
  assert (H0 : L s (ms_next s) = 0) by (apply W2; lia).
  repeat split; cbn [ms_next ms_plan ms_requests]; auto.
  - intros x. rewrite HL. destruct (Nat.eq_dec (ms_next s) x) as [<-|N].
    + rewrite cnt_self, H0. lia.
    + rewrite cnt_other by exact N. apply W1.
  - intros x Hx. rewrite HL. rewrite cnt_other by lia. rewrite W2 by lia. reflexivity.
  - unfold bad_frees. cbn [ms_trace filter]. destruct c; reflexivity.
Qed.

Lemma alloc_none c sz s s' : wf s -> alloc c sz s = (None, s') ->
  wf s' /\ ext s s' /\ (forall x, L s' x = L s x)
  /\ plan_fails (ms_plan s) (S (ms_requests s)) = true /\ ms_requests s' = S (ms_requests s).
Proof.
  intros [W1 W2] H. unfold alloc in H.
  destruct (plan_fails (ms_plan s) (S (ms_requests s))) eqn:E; [|discriminate].
  injection H as <-.
  repeat split; cbn [ms_next ms_plan ms_requests]; auto.
  unfold bad_frees. cbn [ms_trace filter]. destruct c; reflexivity.
Qed.

Lemma alloc_none_fails c sz s s' : wf s -> alloc c sz s = (None, s') -> fails_between s s'.
Proof.
  intros W H. destruct (alloc_none _ _ _ _ W H) as (_ & _ & _ & Hf & Hr).
  exists (S (ms_requests s)). split; [lia|exact Hf].
Qed.

(* ---------------------------------------------------------------- free *)
Lemma remove_blk_spec id l :
  match remove_blk id l with
  | Some (_, l') => forall x, cnt (map fst l') x + cnt [id] x = cnt (map fst l) x
  | None => cnt (map fst l) id = 0
  end.
Proof.
  induction l as [|[i sz] r IH]; cbn [remove_blk]; [reflexivity|].
  destruct (Nat.eqb i id) eqn:E.
  - apply Nat.eqb_eq in E. subst i. intros x. cbn [map fst]. rewrite (cnt_cons id (map fst r)). lia.
  - apply Nat.eqb_neq in E. destruct (remove_blk id r) as [[sz' r']|].
    + intros x. cbn [map fst]. rewrite (cnt_cons i (map fst r')), (cnt_cons i (map fst r)).
      specialize (IH x). lia.
    + cbn [map fst]. rewrite cnt_cons, cnt_other by exact E. exact IH.
Qed.

Lemma free_blk_ok id s : wf s -> 1 <= L s id ->
  wf (free_blk id s) /\ ext s (free_blk id s) /\ ms_requests (free_blk id s) = ms_requests s
  /\ ms_next (free_blk id s) = ms_next s
  /\ (forall x, L (free_blk id s) x + cnt [id] x = L s x).
Proof.
  intros [W1 W2] H. unfold free_blk. pose proof (remove_blk_spec id (ms_live s)) as R.
  destruct (remove_blk id (ms_live s)) as [[sz l']|].
  - assert (HL : forall x, L {| ms_next := ms_next s; ms_live := l'; ms_requests := ms_requests s;
                               ms_plan := ms_plan s; ms_trace := EvFree sz :: ms_trace s |} x + cnt [id] x = L s x)
      by exact R.
    repeat split; cbn [ms_next ms_plan ms_requests]; auto.
    + intros x. specialize (HL x). specialize (W1 x). lia.
    + intros x Hx. specialize (HL x). specialize (W2 x Hx). lia.
  - unfold L, live_ids in H. lia.
Qed.

(* a release of something that is not live is recorded, and nothing else happens *)
Lemma free_blk_bad id s : L s id = 0 -> bad_frees (free_blk id s) = S (bad_frees s).
Proof.
  intros H. unfold free_blk. pose proof (remove_blk_spec id (ms_live s)) as R.
  destruct (remove_blk id (ms_live s)) as [[sz l']|]; [|reflexivity].
  specialize (R id). rewrite cnt_self in R. unfold L, live_ids in H. lia.
Qed.

(* ---------------------------------------------------------------- pointwise automation *)
Ltac pw_wf x :=
  repeat match goal with
  | W : wf ?s |- _ =>
    lazymatch goal with
    | _ : L s x <= 1 |- _ => fail
    | _ => pose proof (proj1 W x)
    end
  end.
Ltac pw x :=
  pw_wf x;
  repeat match goal with
  | H : forall y : nat, @?P y = @?Q y |- _ => specialize (H x); cbv beta in H
  | H : forall y : nat, @?P y <= @?Q y |- _ => specialize (H x); cbv beta in H
  end;
  rewrite ?cnt_app, ?cnt_nil, ?cnt_rev, ?cnt_self in *.
Ltac pwl := let x := fresh "x" in intros x; pw x; lia.

Ltac cnt_norm :=
  repeat match goal with
  | |- context [cnt (?a :: ?l) ?x] => lazymatch l with [] => fail | _ => rewrite (cnt_cons a l x) end
  | H : context [cnt (?a :: ?l) ?x] |- _ => lazymatch l with [] => fail | _ => rewrite (cnt_cons a l x) in H end
  end.

(* a pure release: the blocks R leave the ledger, nothing else moves *)
Definition rel (s s' : mstate) (R : list nat) : Prop :=
  wf s' /\ ext s s' /\ ms_requests s' = ms_requests s /\ ms_next s' = ms_next s
  /\ forall x, L s' x + cnt R x = L s x.

Lemma rel_refl s : wf s -> rel s s [].
Proof. intros W. split; [exact W|]. split; [apply ext_refl|]. split; [reflexivity|]. split; [reflexivity|]. intros x. rewrite cnt_nil. lia. Qed.

Lemma rel_trans s s1 s2 R1 R2 : rel s s1 R1 -> rel s1 s2 R2 -> rel s s2 (R1 ++ R2).
Proof.
  intros (W1 & E1 & Q1 & N1 & H1) (W2 & E2 & Q2 & N2 & H2).
  split; [exact W2|]. split; [eapply ext_trans; eauto|]. split; [congruence|]. split; [congruence|]. pwl.
Qed.

Lemma rel_perm s s' R R' : (forall x, cnt R x = cnt R' x) -> rel s s' R -> rel s s' R'.
Proof. intros HP (W & E & Q & N & H). split; [exact W|]. split; [exact E|]. split; [exact Q|]. split; [exact N|]. pwl. Qed.

Lemma rel_free id s : wf s -> 1 <= L s id -> rel s (free_blk id s) [id].
Proof. intros W H. exact (free_blk_ok id s W H). Qed.

Lemma rel_free_opt o s : wf s -> (forall x, cnt (blk_list o) x <= L s x) -> rel s (free_opt o s) (blk_list o).
Proof.
  intros W H. destruct o as [b|]; cbn [free_opt blk_list]; [|apply rel_refl; exact W].
  apply rel_free; [exact W|]. specialize (H b). cbn [blk_list] in H. rewrite cnt_self in H. exact H.
Qed.

(* ================================================================ objects *)
Definition nonempty_t (t : text) : bool := match t with _ :: _ => true | [] => false end.
Definition nonempty (o : option text) : bool := match o with Some t => nonempty_t t | None => false end.

(* a text has a block of its own exactly when it is held ([own]) and not empty *)
Definition fld (own : bool) (t : mtext) : Prop := is_some (t_blk t) = own && nonempty (t_val t).
Definition sfld (own : bool) (sg : mseg) : Prop := is_some (sg_blk sg) = own && nonempty_t (sg_text sg).

Definition bitb (done b : N) : bool := negb (N.land done b =? 0)%N.

(* ownership consistency of an object whose [owner] flag is [o] and, while uriMakeOwnerEngine /
   uriNormalizeSyntaxEngine are at work on a borrowed object, whose components named in the
   done-mask are already copies *)
Record inv6 (o bs bu bh bp bq bf : bool) (m : muri) : Prop := {
  i_scheme : fld (o || bs) (m_scheme m);
  i_scheme_ne : o = false -> bs = true -> nonempty (t_val (m_scheme m)) = true;
  i_user : fld (o || bu) (m_userInfo m);
  i_host : match t_val (m_ipFuture m) with
           | Some _ => t_blk (m_hostText m) = None /\ fld (o || bh) (m_ipFuture m)
                       /\ (o = false -> bh = true -> nonempty (t_val (m_ipFuture m)) = true)
           | None => t_blk (m_ipFuture m) = None /\ fld (o || bh) (m_hostText m)
           end;
  i_port : fld o (m_portText m);
  i_segs : Forall (sfld (o || bp)) (m_segs m);
  i_query : fld (o || bq) (m_query m);
  i_frag : fld (o || bf) (m_fragment m) }.
Definition inv (o : bool) (done : N) (m : muri) : Prop :=
  inv6 o (bitb done B_SCHEME) (bitb done B_USER) (bitb done B_HOST) (bitb done B_PATH) (bitb done B_QUERY) (bitb done B_FRAG) m.

Definition consistent (m : muri) : Prop := inv (m_owner m) 0 m.

Definition seg_blocks (l : list mseg) : list nat := flat_map (fun s => sg_node s :: blk_list (sg_blk s)) l.
Lemma seg_blocks_app a b : seg_blocks (a ++ b) = seg_blocks a ++ seg_blocks b.
Proof. apply flat_map_app. Qed.
Lemma seg_blocks_cons sg l : seg_blocks (sg :: l) = sg_node sg :: blk_list (sg_blk sg) ++ seg_blocks l.
Proof. reflexivity. Qed.
Lemma cnt_seg_blocks_rev l x : cnt (seg_blocks (rev l)) x = cnt (seg_blocks l) x.
Proof.
  induction l as [|a l IH]; [reflexivity|].
  cbn [rev]. rewrite seg_blocks_app, cnt_app, IH, !seg_blocks_cons. cbn [seg_blocks flat_map].
  rewrite app_nil_r, (cnt_cons (sg_node a) (blk_list (sg_blk a) ++ seg_blocks l)), (cnt_cons (sg_node a) (blk_list (sg_blk a))), cnt_app. lia.
Qed.

(* the object holds its blocks in [s]: all live, pairwise distinct (the ledger has no duplicates) *)
Definition holds (m : muri) (s : mstate) : Prop := forall x, cnt (muri_blocks m) x <= L s x.
Definition owns (m : muri) (s : mstate) : Prop := consistent m /\ holds m s.

(* ---------------------------------------------------------------- uriFreeUriMembersMm *)
Lemma free_text_rel o t s : wf s -> fld o t -> (forall x, cnt (blk_list (t_blk t)) x <= L s x) ->
  rel s (free_text o t s) (blk_list (t_blk t)).
Proof.
  intros W F H. unfold free_text, fld in *. destruct t as [v b]; cbn [t_val t_blk] in *.
  destruct o; cbn [andb] in F.
  - destruct v as [[|c r]|]; cbn [nonempty nonempty_t] in F.
    + destruct b; [discriminate|]. apply rel_refl; exact W.
    + destruct b as [b|]; [|discriminate]. apply rel_free; [exact W|].
      specialize (H b). cbn [blk_list] in H. rewrite cnt_self in H. exact H.
    + destruct b; [discriminate|]. apply rel_refl; exact W.
  - destruct b; [discriminate|]. apply rel_refl; exact W.
Qed.

Lemma free_seg_rel o sg s : wf s -> sfld o sg -> (forall x, cnt (seg_blocks [sg]) x <= L s x) ->
  rel s (free_seg o sg s) (seg_blocks [sg]).
Proof.
  intros W F H. unfold free_seg, sfld in *. destruct sg as [v b n]; cbn [sg_text sg_blk sg_node] in *.
  cbn [seg_blocks flat_map sg_node sg_blk] in *. rewrite app_nil_r in *.
  assert (X : exists s1, s1 = (if o then match v with
       | [] => s | _ :: _ => match b with Some b0 => free_blk b0 s | None =>
          {| ms_next := ms_next s; ms_live := ms_live s; ms_requests := ms_requests s; ms_plan := ms_plan s; ms_trace := EvBadFree :: ms_trace s |} end end else s)
       /\ rel s s1 (blk_list b)).
  { eexists; split; [reflexivity|]. destruct o; cbn [andb] in F.
    - destruct v as [|c r]; cbn [nonempty_t] in F.
      + destruct b; [discriminate|]. apply rel_refl; exact W.
      + destruct b as [b|]; [|discriminate]. apply rel_free; [exact W|].
        specialize (H b). cbn [blk_list] in H. cnt_norm. rewrite !cnt_self in H. lia.
    - destruct b; [discriminate|]. apply rel_refl; exact W. }
  destruct X as (s1 & -> & R1).
  eapply rel_perm; [|eapply rel_trans; [exact R1|apply rel_free]].
  - intros x. cnt_norm. rewrite !cnt_app. cnt_norm. lia.
  - apply R1.
  - destruct R1 as (_ & _ & _ & _ & R1). pose proof (H n) as Hn. pw n. cnt_norm. rewrite ?cnt_self in *. lia.
Qed.

Lemma free_segs_rel o segs : forall s, wf s -> Forall (sfld o) segs -> (forall x, cnt (seg_blocks segs) x <= L s x) ->
  rel s (fold_left (fun st sg => free_seg o sg st) segs s) (seg_blocks segs).
Proof.
  induction segs as [|sg r IH]; intros s W F H; cbn [fold_left].
  - apply rel_refl; exact W.
  - inversion F as [|? ? F1 F2]; subst.
    assert (R1 : rel s (free_seg o sg s) (seg_blocks [sg])).
    { apply free_seg_rel; auto. intros x. specialize (H x). change (sg :: r) with ([sg] ++ r) in H.
      rewrite seg_blocks_app, cnt_app in H. lia. }
    eapply rel_perm; [|eapply rel_trans; [exact R1|apply IH]]; auto.
    + intros x. change (sg :: r) with ([sg] ++ r). rewrite seg_blocks_app. reflexivity.
    + apply R1.
    + destruct R1 as (_ & _ & _ & _ & R1). intros x. specialize (H x). specialize (R1 x).
      change (sg :: r) with ([sg] ++ r) in H. rewrite seg_blocks_app, cnt_app in H. lia.
Qed.

Lemma inv_true_0_fields m : inv true 0 m ->
  fld true (m_scheme m) /\ fld true (m_userInfo m) /\ fld true (m_portText m) /\ Forall (sfld true) (m_segs m)
  /\ fld true (m_query m) /\ fld true (m_fragment m).
Proof. intros [a b c d e f g h]. repeat split; assumption. Qed.

Definition ip_blk (o : option (list N * nat)) : list nat := match o with Some (_, b) => [b] | None => [] end.
Lemma muri_blocks_eq m : muri_blocks m =
  blk_list (t_blk (m_scheme m)) ++ blk_list (t_blk (m_userInfo m)) ++ blk_list (t_blk (m_hostText m))
  ++ ip_blk (m_ip4 m) ++ ip_blk (m_ip6 m) ++ blk_list (t_blk (m_ipFuture m)) ++ blk_list (t_blk (m_portText m))
  ++ seg_blocks (m_segs m) ++ blk_list (t_blk (m_query m)) ++ blk_list (t_blk (m_fragment m)).
Proof. reflexivity. Qed.

Lemma rel_free_ip o s : wf s -> (forall x, cnt (ip_blk o) x <= L s x) ->
  rel s (match o with Some (_, b) => free_blk b s | None => s end) (ip_blk o).
Proof.
  intros W H. destruct o as [[v b]|]; cbn [ip_blk] in *; [|apply rel_refl; exact W].
  apply rel_free; [exact W|]. specialize (H b). rewrite cnt_self in H. exact H.
Qed.

Ltac drel R W E Q N H := destruct R as (W & E & Q & N & H).

Theorem free_members_rel m s m' s' : wf s -> owns m s -> free_members m s = (m', s') ->
  rel s s' (muri_blocks m) /\ muri_blocks m' = [] /\ consistent m' /\ m_owner m' = m_owner m
  /\ free_members m' s' = (m', s').
Proof.
  intros W [C Hh] E. unfold free_members in E. unfold consistent in C. unfold holds in Hh.
  rewrite muri_blocks_eq in Hh.
  set (o := m_owner m) in *.
  assert (Cs : fld o (m_scheme m)) by (destruct C as [a _ _ _ _ _ _ _]; rewrite orb_false_r in a; exact a).
  assert (Cu : fld o (m_userInfo m)) by (destruct C as [_ _ a _ _ _ _ _]; rewrite orb_false_r in a; exact a).
  assert (Cp : fld o (m_portText m)) by (destruct C as [_ _ _ _ a _ _ _]; exact a).
  assert (Cg : Forall (sfld o) (m_segs m)) by (destruct C as [_ _ _ _ _ a _ _]; rewrite orb_false_r in a; exact a).
  assert (Cq : fld o (m_query m)) by (destruct C as [_ _ _ _ _ _ a _]; rewrite orb_false_r in a; exact a).
  assert (Cf : fld o (m_fragment m)) by (destruct C as [_ _ _ _ _ _ _ a]; rewrite orb_false_r in a; exact a).
  pose proof (i_host _ _ _ _ _ _ _ _ C) as Ch. rewrite orb_false_r in Ch.
  set (s1 := free_text o (m_scheme m) s) in *.
  assert (R1 : rel s s1 (blk_list (t_blk (m_scheme m)))) by (apply free_text_rel; [exact W|exact Cs|pwl]).
  set (s2 := free_text o (m_userInfo m) s1) in *.
  assert (R2 : rel s1 s2 (blk_list (t_blk (m_userInfo m)))).
  { drel R1 W1 E1 Q1 N1 H1. apply free_text_rel; [exact W1|exact Cu|pwl]. }
  pose proof (rel_trans _ _ _ _ _ R1 R2) as R12. clearbody s2. clear R1 R2. clearbody s1.
  (* host *)
  set (s3 := free_text o (m_ipFuture m) s2) in *.
  set (s4 := match t_val (m_ipFuture m) with Some _ => s3 | None => free_text o (m_hostText m) s3 end) in *.
  assert (R34 : rel s2 s4 (blk_list (t_blk (m_hostText m)) ++ blk_list (t_blk (m_ipFuture m)))).
  { drel R12 W1 E1 Q1 N1 H1. subst s4 s3. destruct (t_val (m_ipFuture m)) eqn:EF.
    - destruct Ch as (Hn & Ff & _). rewrite Hn. cbn [blk_list app].
      apply free_text_rel; [exact W1|exact Ff|pwl].
    - destruct Ch as (Hn & Fh). unfold free_text at 2. rewrite EF. rewrite Hn.
      replace (if o then s2 else s2) with s2 by (destruct o; reflexivity).
      cbn [blk_list]. rewrite app_nil_r. apply free_text_rel; [exact W1|exact Fh|pwl]. }
  pose proof (rel_trans _ _ _ _ _ R12 R34) as R14. clearbody s4. clear R12 R34. clearbody s3.
  set (s5 := match m_ip4 m with Some (_, b) => free_blk b s4 | None => s4 end) in *.
  assert (R5 : rel s4 s5 (ip_blk (m_ip4 m))).
  { drel R14 W1 E1 Q1 N1 H1. apply rel_free_ip; [exact W1|pwl]. }
  pose proof (rel_trans _ _ _ _ _ R14 R5) as R15. clearbody s5. clear R14 R5.
  set (s6 := match m_ip6 m with Some (_, b) => free_blk b s5 | None => s5 end) in *.
  assert (R6 : rel s5 s6 (ip_blk (m_ip6 m))).
  { drel R15 W1 E1 Q1 N1 H1. apply rel_free_ip; [exact W1|pwl]. }
  pose proof (rel_trans _ _ _ _ _ R15 R6) as R16. clearbody s6. clear R15 R6.
  set (s7 := free_text o (m_portText m) s6) in *.
  assert (R7 : rel s6 s7 (blk_list (t_blk (m_portText m)))).
  { drel R16 W1 E1 Q1 N1 H1. apply free_text_rel; [exact W1|exact Cp|pwl]. }
  pose proof (rel_trans _ _ _ _ _ R16 R7) as R17. clearbody s7. clear R16 R7.
  set (s8 := fold_left (fun st sg => free_seg o sg st) (m_segs m) s7) in *.
  assert (R8 : rel s7 s8 (seg_blocks (m_segs m))).
  { drel R17 W1 E1 Q1 N1 H1. apply free_segs_rel; [exact W1|exact Cg|pwl]. }
  pose proof (rel_trans _ _ _ _ _ R17 R8) as R18. clearbody s8. clear R17 R8.
  set (s9 := free_text o (m_query m) s8) in *.
  assert (R9 : rel s8 s9 (blk_list (t_blk (m_query m)))).
  { drel R18 W1 E1 Q1 N1 H1. apply free_text_rel; [exact W1|exact Cq|pwl]. }
  pose proof (rel_trans _ _ _ _ _ R18 R9) as R19. clearbody s9. clear R18 R9.
  set (s10 := free_text o (m_fragment m) s9) in *.
  assert (R10 : rel s9 s10 (blk_list (t_blk (m_fragment m)))).
  { drel R19 W1 E1 Q1 N1 H1. apply free_text_rel; [exact W1|exact Cf|pwl]. }
  pose proof (rel_trans _ _ _ _ _ R19 R10) as R. clearbody s10. clear R19 R10.
  injection E as <- <-.
  split. { eapply rel_perm; [|exact R]. intros x. rewrite muri_blocks_eq. rewrite !cnt_app. lia. }
  destruct o eqn:Eo.
  - split; [reflexivity|]. split.
    { unfold consistent. cbn [m_owner]. split; cbn; try reflexivity; try (intros; discriminate); auto; split; reflexivity. }
    split; [reflexivity|]. reflexivity.
  - assert (Hs : t_blk (m_scheme m) = None) by (unfold fld in Cs; destruct (t_blk (m_scheme m)); [discriminate|reflexivity]).
    assert (Hu : t_blk (m_userInfo m) = None) by (unfold fld in Cu; destruct (t_blk (m_userInfo m)); [discriminate|reflexivity]).
    assert (Hp : t_blk (m_portText m) = None) by (unfold fld in Cp; destruct (t_blk (m_portText m)); [discriminate|reflexivity]).
    assert (Hq : t_blk (m_query m) = None) by (unfold fld in Cq; destruct (t_blk (m_query m)); [discriminate|reflexivity]).
    assert (Hf : t_blk (m_fragment m) = None) by (unfold fld in Cf; destruct (t_blk (m_fragment m)); [discriminate|reflexivity]).
    assert (Hhf : t_blk (m_hostText m) = None /\ t_blk (m_ipFuture m) = None).
    { destruct (t_val (m_ipFuture m)).
      - destruct Ch as (a & b & _). split; [exact a|]. unfold fld in b. destruct (t_blk (m_ipFuture m)); [discriminate|reflexivity].
      - destruct Ch as (a & b). split; [|exact a]. unfold fld in b. destruct (t_blk (m_hostText m)); [discriminate|reflexivity]. }
    destruct Hhf as [Hh1 Hh2].
    split. { rewrite muri_blocks_eq. cbn [m_scheme m_userInfo m_hostText m_ip4 m_ip6 m_ipFuture m_portText m_segs m_query m_fragment].
             rewrite Hs, Hu, Hp, Hq, Hf, Hh1, Hh2. reflexivity. }
    split.
    { unfold consistent. cbn [m_owner]. destruct C as [c1 c2 c3 c4 c5 c6 c7 c8].
      split; cbn [m_scheme m_userInfo m_hostText m_ip4 m_ip6 m_ipFuture m_portText m_segs m_query m_fragment]; auto. }
    split; [reflexivity|].
    unfold free_members. cbn [m_owner m_scheme m_userInfo m_hostText m_ip4 m_ip6 m_ipFuture m_portText m_segs m_query m_fragment free_text fold_left].
    destruct (t_val (m_ipFuture m)); reflexivity.
Qed.

(* ================================================================ the parser (Model/ParseM.v) *)
Definition pb_blocks (b : pblocks) : list nat := blk_list (pb_ip4 b) ++ blk_list (pb_ip6 b) ++ pb_nodes b.

Lemma free_nodes_rel nodes : forall s, wf s -> (forall x, cnt nodes x <= L s x) ->
  rel s (fold_left (fun st n => free_blk n st) nodes s) nodes.
Proof.
  induction nodes as [|n r IH]; intros s W H; cbn [fold_left].
  - apply rel_refl; exact W.
  - assert (R1 : rel s (free_blk n s) [n]).
    { apply rel_free; [exact W|]. specialize (H n). rewrite cnt_cons, cnt_self in H. lia. }
    change (n :: r) with ([n] ++ r). eapply rel_trans; [exact R1|]. drel R1 W1 E1 Q1 N1 H1.
    apply IH; [exact W1|]. intros x. specialize (H x). rewrite cnt_cons in H. specialize (H1 x). lia.
Qed.

Lemma free_partial_rel b s : wf s -> (forall x, cnt (pb_blocks b) x <= L s x) ->
  rel s (free_partial b s) (pb_blocks b).
Proof.
  intros W H. unfold free_partial, pb_blocks in *.
  assert (R1 : rel s (free_opt (pb_ip4 b) s) (blk_list (pb_ip4 b))) by (apply rel_free_opt; [exact W|pwl]).
  eapply rel_trans; [exact R1|]. drel R1 W1 E1 Q1 N1 H1.
  assert (R2 : rel (free_opt (pb_ip4 b) s) (free_opt (pb_ip6 b) (free_opt (pb_ip4 b) s)) (blk_list (pb_ip6 b)))
    by (apply rel_free_opt; [exact W1|pwl]).
  eapply rel_trans; [exact R2|]. drel R2 W2 E2 Q2 N2 H2.
  apply free_nodes_rel; [exact W2|pwl].
Qed.

(* which host blocks the URI under construction holds, as a function of the control state *)
Inductive phase := P0 | P1 | P2.
(* P0: no address block yet; P1: inside an IPv6 literal, its block allocated, ip6 not yet set;
   P2: the address fields of the URI and the blocks agree *)
Definition phase_of (c : ctrl) : phase :=
  match c with
  | CV6 _ _ _ _ _ | CV6Colon _ _ | CV6CC _ => P1
  | CAuth2 | CPort | CPathStart | CSeg _ | CTail | CTail2 | CQF _ => P2
  | CPct1 r | CPct2 r => match r with RSeg _ | RQF _ => P2 | _ => P0 end
  | _ => P0
  end.

Definition aeff (a : action) (p : phase) : option phase :=
  match a with
  | AHostReg | AHostPort => match p with P0 => Some P2 | _ => None end
  | AAllocIp6 => match p with P0 => Some P1 | _ => None end
  | AHostIp6 => match p with P1 => Some P2 | _ => None end
  | _ => Some p
  end.

Fixpoint acts_eff (acts : list action) (p : phase) : option phase :=
  match acts with
  | [] => Some p
  | a :: r => match aeff a p with Some p' => acts_eff r p' | None => None end
  end.

Definition pleb (p q : phase) : bool :=
  match p, q with P0, P0 | P1, P1 | P2, P2 | P0, P2 => true | _, _ => false end.

Definition tr_ok (p : phase) (t : tr) : bool :=
  match acts_eff (fst t) p with
  | Some p' => match snd t with Go c' => pleb p' (phase_of c') | Stop _ => true end
  | None => false
  end.

Lemma tr_ok_pre p acts t : tr_ok p (pre acts t) = match acts_eff acts p with Some p' => tr_ok p' t | None => false end.
Proof.
  unfold tr_ok, pre. cbn [fst snd]. revert p. induction acts as [|a r IH]; intros p; cbn [acts_eff app]; [reflexivity|].
  destruct (aeff a p); [apply IH|reflexivity].
Qed.

Ltac ifs := repeat match goal with |- context [if ?b then _ else _] => destruct b end.

Lemma ptrans_ok c a : tr_ok (phase_of c) (ptrans c a) = true.
Proof.
  destruct c; try (destruct r); try (destruct k); destruct a; cbn [ptrans phase_of];
  unfold t_start, t_schemeorseg, t_mustbeseg, t_hier, t_part2, t_auth, t_uh, t_uhnz, t_portuser, t_user, t_ownhost, t_host2,
    t_auth2, t_port, t_iplit, t_futv, t_futhex, t_futloop1, t_futloop, t_v6, t_v6colon, t_v6cc, t_v6hex, t_v6ip4,
    t_pathstart, t_seg, t_tail, t_tail2, t_qf, t_pct1, t_pct2;
  cbn [a_alpha a_digit a_subdelim a_hexdig a_unreserved a_sub_unres a_pchar_np a_uh_start a_fut orb andb negb];
  rewrite ?tr_ok_pre; cbn [acts_eff aeff]; ifs; rewrite ?tr_ok_pre; cbn [acts_eff aeff app seg_end path_exit seg_next];
  try reflexivity; repeat match goal with |- context [match oct_over ?o with _ => _ end] => destruct (oct_over o) end; reflexivity.
Qed.

Definition fin_ok (p : phase) (f : list action * fin) : bool :=
  match snd f with
  | Acc => match acts_eff (fst f) p with Some P0 | Some P2 => true | _ => false end
  | StopEnd => true
  end.
Lemma pfinish_ok c : fin_ok (phase_of c) (pfinish c) = true.
Proof. destruct c; try (destruct r); try (destruct k); reflexivity. Qed.

(* the data side: segments and nodes run in parallel; address fields and address blocks agree as
   the phase says *)
Definition dinv (p : phase) (d : pdata) (b : pblocks) : Prop :=
  length (pathSegs (p_uri d)) = length (pb_nodes b) /\
  match p with
  | P0 => ip4 (p_uri d) = None /\ pb_ip4 b = None /\ ip6 (p_uri d) = None /\ pb_ip6 b = None
  | P1 => ip4 (p_uri d) = None /\ pb_ip4 b = None /\ ip6 (p_uri d) = None /\ pb_ip6 b <> None
  | P2 => is_some (ip4 (p_uri d)) = is_some (pb_ip4 b) /\ is_some (ip6 (p_uri d)) = is_some (pb_ip6 b)
  end.

Lemma dinv_weaken p q d b : pleb p q = true -> dinv p d b -> dinv q d b.
Proof.
  destruct p, q; cbn; intros E; try discriminate; auto.
  intros (Hl & a & b' & c & e). split; [exact Hl|]. rewrite a, b', c, e. split; reflexivity.
Qed.

(* the state holds the blocks B on top of a frame F *)
Definition over (s : mstate) (B : list nat) (F : nat -> nat) : Prop := forall x, L s x = cnt B x + F x.

Lemma exec_m_spec ch d b a s p p' F : wf s -> dinv p d b -> aeff a p = Some p' -> over s (pb_blocks b) F ->
  match exec_m ch d b a s with
  | (Some (d', b'), s') => wf s' /\ ext s s' /\ dinv p' d' b' /\ over s' (pb_blocks b') F
  | (None, s') => wf s' /\ ext s s' /\ over s' (pb_blocks b) F /\ fails_between s s'
  end.
Proof.
  intros W (Dl & Dp) A O. unfold over in *.
  assert (Triv : forall d', length (pathSegs (p_uri d')) = length (pathSegs (p_uri d)) ->
                            ip4 (p_uri d') = ip4 (p_uri d) -> ip6 (p_uri d') = ip6 (p_uri d) -> p' = p ->
                            wf s /\ ext s s /\ dinv p' d' b /\ (forall x, L s x = cnt (pb_blocks b) x + F x)).
  { intros d' e1 e2 e3 ->. split; [exact W|]. split; [apply ext_refl|]. split; [|exact O].
    split; [congruence|]. rewrite e2, e3. exact Dp. }
  destruct a; cbn [exec_m];
    try (cbn [aeff] in A; injection A as <-; apply Triv; reflexivity).
  - (* APushSeg *)
    cbn [aeff] in A; injection A as <-.
    destruct (alloc true SEG_SIZE s) as [[id|] s'] eqn:EA.
    + destruct (alloc_some _ _ _ _ _ W EA) as (W' & E' & HL & Hf & _).
      split; [exact W'|]. split; [exact E'|]. split.
      * split. { cbn. rewrite !app_length. cbn. lia. } exact Dp.
      * unfold pb_blocks in *. cbn [pb_nodes pb_ip4 pb_ip6]. pwl.
    + destruct (alloc_none _ _ _ _ W EA) as (W' & E' & HL & _).
      split; [exact W'|]. split; [exact E'|]. split; [pwl|]. eapply alloc_none_fails; eauto.
  - (* APushSaved *)
    cbn [aeff] in A; injection A as <-.
    destruct (alloc true SEG_SIZE s) as [[id|] s'] eqn:EA.
    + destruct (alloc_some _ _ _ _ _ W EA) as (W' & E' & HL & Hf & _).
      split; [exact W'|]. split; [exact E'|]. split.
      * split. { cbn. rewrite !app_length. cbn. lia. } exact Dp.
      * unfold pb_blocks in *. cbn [pb_nodes pb_ip4 pb_ip6]. pwl.
    + destruct (alloc_none _ _ _ _ W EA) as (W' & E' & HL & _).
      split; [exact W'|]. split; [exact E'|]. split; [pwl|]. eapply alloc_none_fails; eauto.
  - (* AHostReg *)
    cbn [aeff] in A. destruct p; try discriminate. injection A as <-. destruct Dp as (d4 & b4 & d6 & b6).
    destruct (alloc false IP4_SIZE s) as [[id|] s'] eqn:EA.
    + destruct (alloc_some _ _ _ _ _ W EA) as (W' & E' & HL & Hf & _).
      destruct (ip4 (p_uri (exec ch d AHostReg))) eqn:E4.
      * split; [exact W'|]. split; [exact E'|]. split.
        { split; [exact Dl|]. cbn [pb_ip4 pb_ip6]. rewrite E4. split; [reflexivity|]. cbn. rewrite d6, b6. reflexivity. }
        unfold pb_blocks in *. cbn [pb_nodes pb_ip4 pb_ip6]. rewrite b4 in O. cbn [blk_list] in *. pwl.
      * assert (R : rel s' (free_blk id s') [id]).
        { apply rel_free; [exact W'|]. rewrite HL, cnt_self. lia. }
        drel R W2 E2 Q2 N2 H2.
        split; [exact W2|]. split; [eapply ext_trans; eauto|]. split.
        { split; [exact Dl|]. rewrite E4, b4. split; [reflexivity|]. cbn. rewrite d6, b6. reflexivity. }
        pwl.
    + destruct (alloc_none _ _ _ _ W EA) as (W' & E' & HL & _).
      split; [exact W'|]. split; [exact E'|]. split; [pwl|]. eapply alloc_none_fails; eauto.
  - (* AHostPort *)
    cbn [aeff] in A. destruct p; try discriminate. injection A as <-. destruct Dp as (d4 & b4 & d6 & b6).
    destruct (alloc false IP4_SIZE s) as [[id|] s'] eqn:EA.
    + destruct (alloc_some _ _ _ _ _ W EA) as (W' & E' & HL & Hf & _).
      destruct (ip4 (p_uri (exec ch d AHostPort))) eqn:E4.
      * split; [exact W'|]. split; [exact E'|]. split.
        { split; [exact Dl|]. cbn [pb_ip4 pb_ip6]. rewrite E4. split; [reflexivity|]. cbn. rewrite d6, b6. reflexivity. }
        unfold pb_blocks in *. cbn [pb_nodes pb_ip4 pb_ip6]. rewrite b4 in O. cbn [blk_list] in *. pwl.
      * assert (R : rel s' (free_blk id s') [id]).
        { apply rel_free; [exact W'|]. rewrite HL, cnt_self. lia. }
        drel R W2 E2 Q2 N2 H2.
        split; [exact W2|]. split; [eapply ext_trans; eauto|]. split.
        { split; [exact Dl|]. rewrite E4, b4. split; [reflexivity|]. cbn. rewrite d6, b6. reflexivity. }
        pwl.
    + destruct (alloc_none _ _ _ _ W EA) as (W' & E' & HL & _).
      split; [exact W'|]. split; [exact E'|]. split; [pwl|]. eapply alloc_none_fails; eauto.
  - (* AAllocIp6 *)
    cbn [aeff] in A. destruct p; try discriminate. injection A as <-. destruct Dp as (d4 & b4 & d6 & b6).
    destruct (alloc false IP6_SIZE s) as [[id|] s'] eqn:EA.
    + destruct (alloc_some _ _ _ _ _ W EA) as (W' & E' & HL & Hf & _).
      split; [exact W'|]. split; [exact E'|]. split.
      { split; [exact Dl|]. cbn [pb_ip4 pb_ip6 exec]. repeat split; auto. discriminate. }
      unfold pb_blocks in *. cbn [pb_nodes pb_ip4 pb_ip6]. rewrite b6 in O. cbn [blk_list] in *. pwl.
    + destruct (alloc_none _ _ _ _ W EA) as (W' & E' & HL & _).
      split; [exact W'|]. split; [exact E'|]. split; [pwl|]. eapply alloc_none_fails; eauto.
  - (* AHostIp6 *)
    cbn [aeff] in A. destruct p; try discriminate. injection A as <-. destruct Dp as (d4 & b4 & d6 & b6).
    split; [exact W|]. split; [apply ext_refl|]. split; [|exact O].
    split; [exact Dl|]. cbn. rewrite d4, b4. split; [reflexivity|]. destruct (pb_ip6 b); [reflexivity|contradiction].
  - (* AFixEmptyTrail *)
    cbn [aeff] in A; injection A as <-.
    set (d' := exec ch d AFixEmptyTrail).
    assert (Hd : (pathSegs (p_uri d) = [[]] /\ pathSegs (p_uri d') = [] /\ ip4 (p_uri d') = ip4 (p_uri d) /\ ip6 (p_uri d') = ip6 (p_uri d))
                 \/ (pathSegs (p_uri d') = pathSegs (p_uri d) /\ ip4 (p_uri d') = ip4 (p_uri d) /\ ip6 (p_uri d') = ip6 (p_uri d))).
    { subst d'. cbn [exec p_uri]. unfold fix_empty_trail. destruct (negb (is_host_set (p_uri d))); [|right; repeat split].
      destruct (pathSegs (p_uri d)) as [|[|c1 s1] [|s2 r]] eqn:EP; try (right; repeat split; (reflexivity || exact EP)).
      left. repeat split. }
    destruct Hd as [(e1 & e2 & e3 & e4)|(e1 & e3 & e4)].
    + rewrite e1, e2. rewrite e1 in Dl. destruct (pb_nodes b) as [|n [|n2 nr]] eqn:EN; cbn in Dl; try discriminate.
      assert (R : rel s (free_blk n s) [n]).
      { apply rel_free; [exact W|]. rewrite O. unfold pb_blocks. rewrite EN, !cnt_app, cnt_self. lia. }
      drel R W2 E2 Q2 N2 H2.
      split; [exact W2|]. split; [exact E2|]. split.
      { split; [cbn [pb_nodes]; rewrite e2; reflexivity|]. cbn [pb_ip4 pb_ip6]. rewrite e3, e4. exact Dp. }
      unfold pb_blocks in *. cbn [pb_nodes pb_ip4 pb_ip6]. rewrite EN in O. pwl.
    + rewrite e1. assert (X : match pathSegs (p_uri d) with
              | [] => (Some (d', b), s)
              | _ :: _ => match pathSegs (p_uri d) with
                  | [] => match pb_nodes b with
                      | [] => (Some (d', b), s)
                      | n :: _ => (Some (d', {| pb_nodes := []; pb_ip4 := pb_ip4 b; pb_ip6 := pb_ip6 b |}), free_blk n s)
                      end
                  | _ :: _ => (Some (d', b), s)
                  end
              end = (Some (d', b), s)) by (destruct (pathSegs (p_uri d)); reflexivity).
      rewrite X. apply Triv; auto. congruence.
Qed.

Lemma exec_all_m_spec ch acts : forall d b s p p' F, wf s -> dinv p d b -> acts_eff acts p = Some p' -> over s (pb_blocks b) F ->
  match exec_all_m ch d b acts s with
  | (Some (d', b'), _, s') => wf s' /\ ext s s' /\ dinv p' d' b' /\ over s' (pb_blocks b') F
  | (None, bh, s') => wf s' /\ ext s s' /\ over s' (pb_blocks bh) F /\ fails_between s s'
  end.
Proof.
  induction acts as [|a r IH]; intros d b s p p' F W D A O; cbn [exec_all_m acts_eff] in *.
  - injection A as <-. split; [exact W|]. split; [apply ext_refl|]. split; assumption.
  - destruct (aeff a p) as [p1|] eqn:EA; [|discriminate].
    pose proof (exec_m_spec ch d b a s p p1 F W D EA O) as H1.
    destruct (exec_m ch d b a s) as [[[d1 b1]|] s1].
    + destruct H1 as (W1 & E1 & D1 & O1).
      specialize (IH d1 b1 s1 p1 p' F W1 D1 A O1).
      destruct (exec_all_m ch d1 b1 r s1) as [[[[d2 b2]|] bh] s2].
      * destruct IH as (W2 & E2 & D2 & O2). split; [exact W2|]. split; [eapply ext_trans; eauto|]. split; assumption.
      * destruct IH as (W2 & E2 & O2 & Fl). split; [exact W2|]. split; [eapply ext_trans; eauto|]. split; [exact O2|].
        eapply fails_right; eauto.
    + exact H1.
Qed.

Lemma cnt_zip_segs texts : forall nodes x, length texts = length nodes -> cnt (seg_blocks (zip_segs texts nodes)) x = cnt nodes x.
Proof.
  induction texts as [|t r IH]; intros [|n nr] x Hl; cbn in Hl; try discriminate; [reflexivity|].
  cbn [zip_segs]. rewrite seg_blocks_cons. cbn [sg_node sg_blk blk_list app]. rewrite cnt_cons, (cnt_cons n nr), IH by lia. reflexivity.
Qed.

Lemma muri_of_blocks p d b x : dinv p d b -> p <> P1 ->
  cnt (muri_blocks (muri_of (p_uri d) b)) x = cnt (pb_blocks b) x.
Proof.
  intros (Dl & Dp) Hp. rewrite muri_blocks_eq. unfold muri_of, pb_blocks.
  cbn [m_scheme m_userInfo m_hostText m_ip4 m_ip6 m_ipFuture m_portText m_segs m_query m_fragment t_blk blk_list app].
  rewrite !cnt_app, cnt_zip_segs by exact Dl. rewrite !cnt_nil.
  assert (H4 : is_some (ip4 (p_uri d)) = is_some (pb_ip4 b) /\ is_some (ip6 (p_uri d)) = is_some (pb_ip6 b)).
  { destruct p; [|contradiction|exact Dp]. destruct Dp as (a & b' & c & e). rewrite a, b', c, e. split; reflexivity. }
  destruct H4 as [H4 H6].
  destruct (ip4 (p_uri d)), (pb_ip4 b); cbn in H4; try discriminate;
  destruct (ip6 (p_uri d)), (pb_ip6 b); cbn in H6; try discriminate; cbn [ip_blk blk_list]; rewrite ?cnt_nil; lia.
Qed.

Lemma zip_segs_sfld texts : forall nodes, Forall (sfld false) (zip_segs texts nodes).
Proof. induction texts as [|t r IH]; intros [|n nr]; cbn [zip_segs]; constructor; [reflexivity|apply IH]. Qed.

Lemma muri_of_consistent u b : consistent (muri_of u b).
Proof.
  unfold consistent. cbn [m_owner muri_of].
  split; cbn [m_scheme m_userInfo m_hostText m_ip4 m_ip6 m_ipFuture m_portText m_segs m_query m_fragment t_blk t_val muri_of];
    try reflexivity; try (intros; discriminate).
  - destruct (ipFuture u); repeat split; intros; discriminate.
  - apply zip_segs_sfld.
Qed.

(* the invariant of the run: [pblocks] lists exactly what has been allocated and not yet released *)
Lemma prun_m_spec t : forall c d b i s F, wf s -> dinv (phase_of c) d b -> over s (pb_blocks b) F ->
  match prun_m c d b i t s with
  | (MOk m, s') => wf s' /\ ext s s' /\ consistent m /\ m_owner m = false /\ over s' (muri_blocks m) F
  | (MSyntax _, s') => wf s' /\ ext s s' /\ over s' [] F
  | (MMalloc, s') => wf s' /\ ext s s' /\ over s' [] F /\ fails_between s s'
  end.
Proof.
  assert (Fin : forall b s s0 F, wf s -> ext s0 s -> over s (pb_blocks b) F ->
                wf (free_partial b s) /\ ext s0 (free_partial b s) /\ over (free_partial b s) [] F).
  { intros b s s0 F W E O. assert (R : rel s (free_partial b s) (pb_blocks b)) by (apply free_partial_rel; [exact W|unfold over in O; pwl]).
    drel R W2 E2 Q2 N2 H2. split; [exact W2|]. split; [eapply ext_trans; eauto|]. unfold over in *. pwl. }
  induction t as [|ch r IH]; intros c d b i s F W D O; cbn [prun_m].
  - pose proof (pfinish_ok c) as FO. unfold fin_ok in FO. destruct (pfinish c) as [acts [|]]; cbn [fst snd] in FO.
    + destruct (acts_eff acts (phase_of c)) as [p'|] eqn:EA; [|discriminate].
      pose proof (exec_all_m_spec 0%N acts d b s _ _ F W D EA O) as H1.
      destruct (exec_all_m 0%N d b acts s) as [[[[d1 b1]|] bh] s1].
      * destruct H1 as (W1 & E1 & D1 & O1). split; [exact W1|]. split; [exact E1|].
        split; [apply muri_of_consistent|]. split; [reflexivity|].
        intros x. rewrite (muri_of_blocks p' d1 b1 x D1) by (destruct p'; discriminate). apply O1.
      * destruct H1 as (W1 & E1 & O1 & Fl). destruct (Fin bh s1 s F W1 E1 O1) as (a & b' & c').
        split; [exact a|]. split; [exact b'|]. split; [exact c'|].
        assert (R : rel s1 (free_partial bh s1) (pb_blocks bh)) by (apply free_partial_rel; [exact W1|unfold over in O1; pwl]).
        apply (fails_left s s1 _ E1); [apply R|exact Fl].
    + apply Fin; auto. apply ext_refl.
  - pose proof (ptrans_ok c (atom_of ch)) as TO. unfold tr_ok in TO. destruct (ptrans c (atom_of ch)) as [acts nx]. cbn [fst snd] in TO.
    destruct (acts_eff acts (phase_of c)) as [p'|] eqn:EA; [|discriminate].
    pose proof (exec_all_m_spec ch acts d b s _ _ F W D EA O) as H1.
    destruct (exec_all_m ch d b acts s) as [[[[d1 b1]|] bh] s1].
    + destruct H1 as (W1 & E1 & D1 & O1). destruct nx as [c'|off].
      * specialize (IH c' d1 b1 (S i) s1 F W1 (dinv_weaken _ _ _ _ TO D1) O1).
        destruct (prun_m c' d1 b1 (S i) r s1) as [[m|pos|] s2].
        -- destruct IH as (a & b' & IH). split; [exact a|]. split; [eapply ext_trans; eauto|]. exact IH.
        -- destruct IH as (a & b' & IH). split; [exact a|]. split; [eapply ext_trans; eauto|]. exact IH.
        -- destruct IH as (a & b' & IH & Fl). split; [exact a|]. split; [eapply ext_trans; eauto|]. split; [exact IH|].
           eapply fails_right; eauto.
      * apply Fin; auto.
    + destruct H1 as (W1 & E1 & O1 & Fl). destruct (Fin bh s1 s F W1 E1 O1) as (a & b' & c').
      split; [exact a|]. split; [exact b'|]. split; [exact c'|].
      assert (R : rel s1 (free_partial bh s1) (pb_blocks bh)) by (apply free_partial_rel; [exact W1|unfold over in O1; pwl]).
      apply (fails_left s s1 _ E1); [apply R|exact Fl].
Qed.

(* ---------------------------------------------------------------- public vocabulary *)
Lemma over_perm s B s0 : (forall x, L s x = cnt B x + L s0 x) <-> Permutation (live_ids s) (B ++ live_ids s0).
Proof.
  rewrite cnt_Permutation. unfold L. split; intros H x; specialize (H x); rewrite cnt_app in *; exact H.
Qed.

Lemma holds_incl m s : wf s -> holds m s <-> (NoDup (muri_blocks m) /\ incl (muri_blocks m) (live_ids s)).
Proof.
  intros W. unfold holds. split.
  - intros H. split.
    + apply cnt_NoDup. intros x. specialize (H x). pose proof (proj1 W x). lia.
    + intros x Hx. apply cnt_In in Hx. apply cnt_In. specialize (H x). unfold L in H. lia.
  - intros [N I] x. pose proof (proj1 (cnt_NoDup _) N x) as H1.
    destruct (Nat.eq_dec (cnt (muri_blocks m) x) 0) as [E|E]; [lia|].
    assert (In x (muri_blocks m)) as Hin by (apply cnt_In; lia).
    apply I in Hin. apply cnt_In in Hin. unfold L. lia.
Qed.

(* uriParseSingleUriExMm: for every text, every ledger state and every fault plan.
   Success: the object is consistent (borrowed: it holds node and address blocks only), its blocks
   are exactly what the ledger gained.  Syntax error or out-of-memory: the ledger holds the same
   blocks as before the call (no residue), and out-of-memory is reported only if the plan failed a
   request made during the call.  No release of a block that is not live ([ext]: bad_frees unchanged). *)
Theorem parse_m_no_residue t s0 : wf s0 ->
  match parse_m t s0 with
  | (MOk m, s') => wf s' /\ ext s0 s' /\ owns m s' /\ m_owner m = false
                   /\ Permutation (live_ids s') (muri_blocks m ++ live_ids s0)
  | (MSyntax _, s') => wf s' /\ ext s0 s' /\ Permutation (live_ids s') (live_ids s0)
  | (MMalloc, s') => wf s' /\ ext s0 s' /\ Permutation (live_ids s') (live_ids s0) /\ fails_between s0 s'
  end.
Proof.
  intros W. unfold parse_m.
  assert (D : dinv (phase_of CStart) pdata_init pb_init) by (cbn; repeat split).
  assert (O : over s0 (pb_blocks pb_init) (L s0)) by (intros x; reflexivity).
  pose proof (prun_m_spec t CStart pdata_init pb_init 0 s0 (L s0) W D O) as H.
  destruct (prun_m CStart pdata_init pb_init 0 t s0) as [[m|pos|] s'].
  - destruct H as (W' & E' & C & Ow & Ov). split; [exact W'|]. split; [exact E'|]. split.
    { split; [exact C|]. intros x. rewrite (Ov x). lia. }
    split; [exact Ow|]. apply over_perm. exact Ov.
  - destruct H as (W' & E' & Ov). split; [exact W'|]. split; [exact E'|]. apply (over_perm s' [] s0). exact Ov.
  - destruct H as (W' & E' & Ov & Fl). split; [exact W'|]. split; [exact E'|]. split; [|exact Fl].
    apply (over_perm s' [] s0). exact Ov.
Qed.

Lemma no_fault_no_fail s s' : ms_plan s = NoFault -> ~ fails_between s s'.
Proof. intros H (n & _ & Hf). rewrite H in Hf. discriminate. Qed.

Corollary parse_m_nofault t s0 : wf s0 -> ms_plan s0 = NoFault -> fst (parse_m t s0) <> MMalloc.
Proof.
  intros W P E. pose proof (parse_m_no_residue t s0 W) as H. destruct (parse_m t s0) as [r s']. cbn in E. subst r.
  destruct H as (_ & _ & _ & Fl). exact (no_fault_no_fail _ _ P Fl).
Qed.

