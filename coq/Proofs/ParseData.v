(* What the data actions of Model/Parse.v build (property C02).

   Part 1: writing the parsed object back (Spec/Unparse.v) gives the input.  Proof: an invariant
   [InvU c d p] relating the control state, the data and the prefix [p] consumed so far, preserved
   by every transition and giving the claim at the end of the text. *)
From Coq Require Import List NArith Bool Lia Arith ZArith ZifyBool ZifyN.
From UP Require Import Base.Chars Base.Atoms Model.Uri Model.Ip4 Model.Parse Spec.NormalWf Spec.Unparse.
Import ListNotations.
Local Open Scope N_scope.

(* ---------------------------------------------------------------- atoms of a single character *)
Lemma atom_single ch :
  match atom_of ch with
  | A_d0 => ch = 48 | A_d1 => ch = 49 | A_d2 => ch = 50 | A_d5 => ch = 53
  | A_minus => ch = 45 | A_dot => ch = 46 | A_plus => ch = 43
  | A_colon => ch = 58 | A_at => ch = 64 | A_slash => ch = 47 | A_qm => ch = 63 | A_hash => ch = 35
  | A_lb => ch = 91 | A_rb => ch = 93 | A_pct => ch = 37
  | _ => True
  end.
Proof.
  unfold atom_of, in_range.
  repeat match goal with |- context [if ?b then _ else _] =>
    let E := fresh "E" in destruct b eqn:E; [try exact I; lia|] end.
  exact I.
Qed.

(* ---------------------------------------------------------------- lists *)
Lemma join_slash_snoc l x : join_slash (l ++ [x]) = concat (map (fun s => s ++ [47]) l) ++ x.
Proof.
  induction l as [|s r IH]; [reflexivity|].
  cbn [app join_slash map concat]. rewrite IH.
  destruct (r ++ [x]) eqn:E; [destruct r; discriminate|].
  rewrite <- !app_assoc. cbn [app]. reflexivity.
Qed.

Lemma concat_map_snoc {A B} (f : A -> list B) l x : concat (map f (l ++ [x])) = concat (map f l) ++ f x.
Proof. rewrite map_app, concat_app. cbn [map concat]. rewrite app_nil_r. reflexivity. Qed.

(* ---------------------------------------------------------------- the invariant *)
Definition PD (u : uri) (pend pend2 saved : text) : pdata :=
  {| p_uri := u; p_pend := pend; p_pend2 := pend2; p_saved := saved |}.

(* the URI while nothing after the scheme has been stored *)
Definition U0 (sch ui : option text) : uri := mkUri sch ui None None None None None [] None None false false.

(* control states inside a bracketed literal *)
Definition lit_state (c : ctrl) : bool :=
  match c with
  | CIpLit | CFutV | CFutHex | CFutLoop1 | CFutLoop | CV6 _ _ _ _ _ | CV6Colon _ _ | CV6CC _ => true
  | _ => false
  end.

Definition InvU0 (c : ctrl) (d : pdata) (p : text) : Prop :=
  match c with
  | CStart => d = pdata_init /\ p = []
  | CSchemeOrSeg | CMustBeSeg => exists pend, d = PD empty_uri pend [] [] /\ p = pend
  | CHier => exists s, d = PD (U0 (Some s) None) [] [] [] /\ p = s ++ [58]
  | CPart2 => exists sch, d = PD (U0 sch None) [] [] [] /\ p = opt_post sch [58] ++ [47]
  | CAuth => exists sch, d = PD (U0 sch None) [] [] [] /\ p = opt_post sch [58] ++ [47; 47]
  | CUH | CUser => exists sch pend, d = PD (U0 sch None) pend [] [] /\ p = opt_post sch [58] ++ [47; 47] ++ pend
  | CPortOrUser => exists sch pend pend2, d = PD (U0 sch None) pend pend2 [] /\
                     p = opt_post sch [58] ++ [47; 47] ++ pend ++ [58] ++ pend2
  | COwnHost => exists sch ui, d = PD (U0 sch ui) [] [] [] /\ p = opt_post sch [58] ++ [47; 47] ++ opt_post ui [64]
  | CHost2 => exists sch ui pend, d = PD (U0 sch ui) pend [] [] /\
                p = opt_post sch [58] ++ [47; 47] ++ opt_post ui [64] ++ pend
  | CIpLit | CFutV | CFutHex | CFutLoop1 | CFutLoop | CV6 _ _ _ _ _ | CV6Colon _ _ | CV6CC _ =>
      exists sch ui pend, d = PD (U0 sch ui) pend [] [] /\
        p = opt_post sch [58] ++ [47; 47] ++ opt_post ui [64] ++ [91] ++ pend
  | CAuth2 => exists u, d = PD u [] [] [] /\ is_some (hostText u) = true /\ portText u = None /\
                pathSegs u = [] /\ query u = None /\ fragment u = None /\
                p = scheme_part u ++ authority_part u
  | CPort => exists u pend, d = PD u pend [] [] /\ is_some (hostText u) = true /\ portText u = None /\
                pathSegs u = [] /\ query u = None /\ fragment u = None /\
                p = scheme_part u ++ authority_part u ++ [58] ++ pend
  | CSeg KAuth => exists u pend, d = PD u pend [] [] /\ is_some (hostText u) = true /\
                query u = None /\ fragment u = None /\
                p = scheme_part u ++ authority_part u ++ concat (map (fun s => 47 :: s) (pathSegs u)) ++ [47] ++ pend
  | CSeg KPlain => exists sch segs abs pend,
                d = PD (mkUri sch None None None None None None segs None None abs false) pend [] [] /\
                p = opt_post sch [58] ++ (if abs then [47] else []) ++ concat (map (fun s => s ++ [47]) segs) ++ pend
  | CSeg KDefer => exists saved pend, d = PD empty_uri pend [] saved /\ p = saved ++ [47] ++ pend
  | CQF QQuery => exists u pend, d = PD u pend [] [] /\ query u = None /\ fragment u = None /\
                p = unparse u ++ [63] ++ pend
  | CQF QFrag => exists u pend, d = PD u pend [] [] /\ fragment u = None /\ p = unparse u ++ [35] ++ pend
  | CPathStart | CTail | CTail2 => False       (* never resting states *)
  | CPct1 _ | CPct2 _ => False                 (* see InvU *)
  end.

(* inside a percent-encoding the data is that of the rule it returns to *)
Definition InvU (c : ctrl) (d : pdata) (p : text) : Prop :=
  match c with
  | CPct1 r | CPct2 r => InvU0 (ctrl_of_pret r) d p
  | _ => InvU0 c d p
  end.

(* ---------------------------------------------------------------- transitions inside a literal *)
Lemma lit_step c a acts c' : lit_state c = true -> ptrans c a = (acts, Go c') ->
  (lit_state c' = true /\ (acts = [AApp] \/ acts = [AAllocIp6; AApp]))
  \/ (a = A_rb /\ c' = CAuth2 /\ (acts = [AHostIp6] \/ acts = [AHostFuture])).
Proof.
  intros HL HT.
  destruct c; try discriminate HL; clear HL.
  1-5: destruct a; cbv in HT; try discriminate HT; inversion HT; subst; cbn [lit_state]; auto 6.
  all: cbn [ptrans] in HT;
    unfold t_v6, t_v6colon, t_v6cc, t_v6ip4, t_v6hex, pre in HT;
    destruct a; cbn [a_hexdig a_digit orb negb fst snd app] in HT;
    repeat match type of HT with
           | context [if ?b then _ else _] => destruct b
           | context [match oct_over ?o with _ => _ end] => destruct (oct_over o)
           end;
    try discriminate HT; inversion HT; subst; cbn [lit_state]; auto 6.
Qed.

(* ---------------------------------------------------------------- one step *)
Ltac open_inv H :=
  repeat match type of H with
         | exists _, _ => let x := fresh "x" in destruct H as [x H]
         | _ /\ _ => let H1 := fresh "H" in destruct H as [H1 H]
         end.

Ltac ufields :=
  cbn [is_some scheme userInfo hostText ip4 ip6 ipFuture portText pathSegs query fragment absolutePath owner] in *.

Ltac open_uri :=
  repeat match goal with
         | u : uri |- _ => destruct u as [sc ui ht i4 i6 fu po ps qu fr ab ow]; ufields; subst
         | H : is_some ?x = true |- _ => destruct x; [clear H|discriminate H]
         end.

Ltac fields :=
  cbv [exec_all fold_left exec PD with_uri U0 empty_uri pdata_init
       set_scheme set_userInfo set_hostText set_ip4 set_ip6 set_ipFuture set_portText set_pathSegs
       set_query set_fragment set_absolutePath fix_empty_trail is_host_set
       p_uri p_pend p_pend2 p_saved is_some orb negb
       scheme userInfo hostText ip4 ip6 ipFuture portText pathSegs query fragment absolutePath owner].

Ltac unp :=
  cbv [unparse scheme_part authority_part path_part host_part is_lit];
  cbn [opt_post opt_pre is_some orb
       scheme userInfo hostText ip4 ip6 ipFuture portText pathSegs query fragment absolutePath owner].

Ltac lists :=
  rewrite ?join_slash_snoc, ?concat_map_snoc; cbn [map concat join_slash];
  rewrite ?app_nil_r; rewrite <- ?app_assoc; cbn [app]; rewrite ?app_nil_r; try reflexivity.

Ltac close_inv :=
  repeat match goal with |- exists _, _ => eexists end;
  repeat match goal with |- _ /\ _ => split end;
  [reflexivity | ..]; try reflexivity; unp; lists.

Lemma stepU0 c d p ch acts c' :
  lit_state c = false ->
  InvU0 c d p -> ptrans c (atom_of ch) = (acts, Go c') -> InvU c' (exec_all ch d acts) (p ++ [ch]).
Proof.
  intros HL HI HT. pose proof (atom_single ch) as HS.
  destruct c as [ | | | | | | | | | | | | | | | | | | | | | | k | | | k | |]; try discriminate HL; clear HL; try destruct k;
    cbn [InvU0] in HI; try contradiction; open_inv HI; subst; open_uri.
  all: destruct (atom_of ch) eqn:Ea; cbv in HT; try discriminate HT; inversion HT; subst; clear HT.
  all: cbn [InvU InvU0 ctrl_of_pret]; fields.
  all: close_inv.
Qed.

(* appending to the pending text where a percent-encoding may occur *)
Lemma app_pendU r d p ch : InvU0 (ctrl_of_pret r) d p -> InvU0 (ctrl_of_pret r) (exec_all ch d [AApp]) (p ++ [ch]).
Proof.
  intros HI. destruct r as [|k| | | |k]; try destruct k; cbn [ctrl_of_pret InvU0] in *; open_inv HI; subst; open_uri;
    fields; close_inv.
Qed.

Lemma stepU c d p ch acts c' :
  InvU c d p -> ptrans c (atom_of ch) = (acts, Go c') -> InvU c' (exec_all ch d acts) (p ++ [ch]).
Proof.
  intros HI HT. destruct (lit_state c) eqn:HL.
  - pose proof (atom_single ch) as HS.
    destruct (lit_step _ _ _ _ HL HT) as [[HL' Ha]|[Ea [Ec Ha]]].
    + assert (InvU0 CIpLit d p) as HI' by (destruct c; try discriminate HL; exact HI).
      assert (InvU0 CIpLit (exec_all ch d acts) (p ++ [ch])) as G.
      { cbn [InvU0] in HI' |- *. open_inv HI'; subst. destruct Ha; subst; fields; close_inv. }
      destruct c'; try discriminate HL'; exact G.
    + assert (InvU0 CIpLit d p) as HI' by (destruct c; try discriminate HL; exact HI).
      rewrite Ea in HS. subst c' ch. cbn [InvU0 InvU] in HI' |- *. open_inv HI'; subst.
      destruct Ha; subst; fields; close_inv.
  - destruct c as [ | | | | | | | | | | | | | | | | | | | | | | | | | | r | r ]; try (eapply stepU0; eassumption).
    + cbn [ptrans] in HT. unfold t_pct1 in HT. destruct (a_hexdig (atom_of ch)); [|discriminate HT].
      inversion HT; subst. cbn [InvU] in *. apply app_pendU. exact HI.
    + cbn [ptrans] in HT. unfold t_pct2 in HT. destruct (a_hexdig (atom_of ch)); [|discriminate HT].
      inversion HT; subst. cbn [InvU] in *.
      assert (InvU0 (ctrl_of_pret r) (exec_all ch d [AApp]) (p ++ [ch])) as G by (apply app_pendU; exact HI).
      destruct r; exact G.
Qed.

(* ---------------------------------------------------------------- the end of the text *)
Lemma finishU c d p acts : InvU c d p -> pfinish c = (acts, Acc) -> unparse (p_uri (exec_all 0 d acts)) = p.
Proof.
  intros HI HF.
  destruct c as [ | | | | | | | | | | | | | | | | | | | | | | k | | | k | |]; try destruct k;
    cbv in HF; try discriminate HF; inversion HF; subst; clear HF;
    cbn [InvU InvU0] in HI; try contradiction; open_inv HI; subst; open_uri; fields; unp; lists.
Qed.

Lemma prunU s : forall c d i p u, InvU c d p -> prun c d i s = POk u -> unparse u = p ++ s.
Proof.
  induction s as [|ch s IH]; intros c d i p u HI HR; cbn [prun] in HR.
  - destruct (pfinish c) as [acts f] eqn:HF. destruct f; [|discriminate HR].
    inversion HR; subst. rewrite app_nil_r. eapply finishU; eassumption.
  - destruct (ptrans c (atom_of ch)) as [acts nx] eqn:HT. destruct nx as [c'|off]; [|discriminate HR].
    pose proof (stepU _ _ _ _ _ _ HI HT) as HI'.
    rewrite (IH _ _ _ _ _ HI' HR). rewrite <- app_assoc. reflexivity.
Qed.

Theorem parse_unparse s u : parse s = POk u -> unparse u = s.
Proof.
  intros H. unfold parse in H. apply (prunU s CStart pdata_init 0 []) in H; [exact H|].
  cbn [InvU InvU0]. auto.
Qed.
