(* Root-cause classes of the known round-trip failures of uriRemoveBaseUri (property C10), as a
   decidable classification of (mode, source, base) on URI objects.  A failing input is attributed
   to a listed finding only if the frozen model fails on it too and its class is listed. *)
From Coq Require Import List NArith Bool.
From UP Require Import Base.Chars Model.Uri Model.Common Model.Compare Model.Shorten.
Import ListNotations.
Local Open Scope N_scope.

Definition full_authority_eqb (a b : uri) : bool :=
  equals_authority a b && range_eqb (userInfo a) (userInfo b) && range_eqb (portText a) (portText b)
  && Bool.eqb (is_host_set a) (is_host_set b).

Definition c10_class (domain_root : bool) (s b : uri) : N :=
  if negb (is_some (scheme s)) || negb (is_some (scheme b)) then 0
  else if negb (range_eqb (scheme s) (scheme b)) then 0
  else if equals_authority s b && negb (full_authority_eqb s b) then 1       (* same host, user info or port differ *)
  else if negb (equals_authority s b) then
    (if negb (is_host_set s) && is_host_set b then 2 else 0)                  (* source has no authority, base has one *)
  else if domain_root then
    (if negb (is_host_set s) && negb (absolutePath s) then 3 else 0)          (* host-less rootless source, domain-root mode *)
  else if negb (is_host_set s) && negb (Bool.eqb (absolutePath s) (absolutePath b)) then 4   (* one rooted, one rootless *)
  else if existsb (fun x => seg_dot x || seg_dotdot x) (pathSegs b) then 8          (* the base path has dot segments *)
  else
    let '(s', b') := skip_common (pathSegs s) (pathSegs b) in
    match s', b' with
    | [], [] => if is_some (query b) && negb (is_some (query s)) then 5 else 0   (* equal paths, only the base has a query *)
    | [], _ => 6                                                                  (* source path is a prefix of the base path *)
    | _, [] => 7                                                                  (* base path is a prefix of the source path *)
    | _, _ => 0
    end.
