(* Arbitrary histories of the memory tier: a store of URI objects and a ledger, any sequence of parse,
   normalize, make owner, add base, remove base and free members on any of the objects, under any fault plan.
   The ledger always holds exactly the blocks of the objects of the store, no release ever hits a block that
   is not live, and once every object has been released the ledger is empty. *)
From Coq Require Import List NArith Bool Arith Lia Permutation.
From UP Require Import Base.Chars Model.Uri Model.Mem Model.ParseM Model.OpsM
  Proofs.LedgerProofs Proofs.LedgerOps Proofs.LedgerBase Proofs.LedgerNormalize Proofs.LedgerTheorems Proofs.LedgerTransparent Proofs.LedgerSane.
Import ListNotations.

Inductive hop :=
| HParse (t : text)                              (* a new object, if the text parses *)
| HNormalize (i : nat) (mask : N)                (* in place, on object i *)
| HMakeOwner (i : nat)
| HAddBase (compat : bool) (i j : nat)           (* a new object: object i resolved against object j *)
| HRemoveBase (domain_root : bool) (i j : nat)   (* a new object: object i relative to object j *)
| HFree (i : nat).                               (* uriFreeUriMembersMm on object i (which stays in the store) *)

Fixpoint upd {A} (l : list A) (i : nat) (a : A) : list A :=
  match l, i with
  | [], _ => []
  | _ :: r, O => a :: r
  | x :: r, S k => x :: upd r k a
  end.

Definition hstep (csize : N) (st : list muri * mstate) (op : hop) : list muri * mstate :=
  let (objs, s) := st in
  match op with
  | HParse t => match parse_m t s with (MOk m, s') => (objs ++ [m], s') | (_, s') => (objs, s') end
  | HNormalize i mask =>
    match nth_error objs i with
    | Some m => let '(_, m', s') := normalize_m csize mask m s in (upd objs i m', s')
    | None => st
    end
  | HMakeOwner i =>
    match nth_error objs i with
    | Some m => let '(_, m', s') := make_owner_m csize m s in (upd objs i m', s')
    | None => st
    end
  | HAddBase compat i j =>
    match nth_error objs i, nth_error objs j with
    | Some r, Some b => let '(_, d, s') := add_base_m compat r b s in (objs ++ [d], s')
    | _, _ => st
    end
  | HRemoveBase dr i j =>
    match nth_error objs i, nth_error objs j with
    | Some r, Some b => let '(_, d, s') := remove_base_m dr r b s in (objs ++ [d], s')
    | _, _ => st
    end
  | HFree i =>
    match nth_error objs i with
    | Some m => let '(m', s') := free_members m s in (upd objs i m', s')
    | None => st
    end
  end.

Definition all_blocks (objs : list muri) : list nat := flat_map muri_blocks objs.

(* the ledger holds exactly the blocks of the objects; every object is consistent with its owner flag *)
Definition balanced (objs : list muri) (s : mstate) : Prop :=
  wf s /\ Forall (fun m => consistent m /\ sane m) objs /\ forall x, L s x = cnt (all_blocks objs) x.

Lemma all_blocks_app a b : all_blocks (a ++ b) = all_blocks a ++ all_blocks b.
Proof. apply flat_map_app. Qed.

Lemma upd_blocks objs : forall i m m' x, nth_error objs i = Some m ->
  cnt (all_blocks (upd objs i m')) x + cnt (muri_blocks m) x = cnt (all_blocks objs) x + cnt (muri_blocks m') x.
Proof.
  induction objs as [|a r IH]; intros [|i] m m' x H; cbn in H; try discriminate.
  - injection H as ->. unfold all_blocks. cbn [upd flat_map]. rewrite !cnt_app. lia.
  - unfold all_blocks in *. cbn [upd flat_map]. rewrite !cnt_app. specialize (IH i m m' x H). lia.
Qed.
Lemma upd_Forall {A} (P : A -> Prop) objs : forall i a, Forall P objs -> P a -> Forall P (upd objs i a).
Proof.
  induction objs as [|b r IH]; intros [|i] a F Pa; cbn [upd]; auto; inversion F; subst; constructor; auto.
Qed.
Lemma nth_Forall {A} (P : A -> Prop) objs i a : Forall P objs -> nth_error objs i = Some a -> P a.
Proof. intros F H. apply nth_error_In in H. rewrite Forall_forall in F. auto. Qed.
Lemma nth_blocks objs : forall i m x, nth_error objs i = Some m -> cnt (muri_blocks m) x <= cnt (all_blocks objs) x.
Proof.
  induction objs as [|a r IH]; intros [|i] m x H; cbn in H; try discriminate; unfold all_blocks in *; cbn [flat_map]; rewrite cnt_app.
  - injection H as ->. lia.
  - specialize (IH i m x H). lia.
Qed.

Lemma balanced_owns objs s i m : balanced objs s -> nth_error objs i = Some m -> owns m s /\ sane m.
Proof.
  intros (W & F & B) H. destruct (nth_Forall _ _ _ _ F H) as [C Sn]. split; [|exact Sn]. split; [exact C|].
  intros x. rewrite (B x). apply (nth_blocks _ _ _ _ H).
Qed.

(* one step: the invariant is kept, nothing bad is released, plan and counters only move forward *)
Theorem hstep_balanced csize objs s op : balanced objs s ->
  let st' := hstep csize (objs, s) op in
  balanced (fst st') (snd st') /\ bad_frees (snd st') = bad_frees s /\ length objs <= length (fst st').
Proof.
  intros Bal. pose proof Bal as (W & F & B). cbv zeta. destruct op as [t|i mask|i|compat i j|dr i j|i]; cbn [hstep].
  - (* parse *)
    pose proof (parse_m_no_residue t s W) as R. destruct (parse_m t s) as [[m|pos|] s'] eqn:EP; cbn [fst snd].
    + destruct R as (W' & E' & O' & _ & P'). split; [|split; [apply E'|rewrite app_length; lia]].
      split; [exact W'|]. split.
      * apply Forall_app. split; [exact F|]. constructor; [|constructor]. split; [apply O'|exact (parse_m_sane _ _ _ _ EP)].
      * intros x. apply cnt_Permutation with (x := x) in P'. rewrite all_blocks_app, !cnt_app in *. unfold all_blocks at 2. cbn [flat_map].
        rewrite app_nil_r. specialize (B x). unfold L in *. lia.
    + destruct R as (W' & E' & P'). split; [|split; [apply E'|lia]]. split; [exact W'|]. split; [exact F|].
      intros x. apply cnt_Permutation with (x := x) in P'. unfold L in *. rewrite P'. apply B.
    + destruct R as (W' & E' & P' & _). split; [|split; [apply E'|lia]]. split; [exact W'|]. split; [exact F|].
      intros x. apply cnt_Permutation with (x := x) in P'. unfold L in *. rewrite P'. apply B.
  - (* normalize *)
    destruct (nth_error objs i) as [m|] eqn:EN; [|cbn [fst snd]; auto].
    destruct (balanced_owns _ _ _ _ Bal EN) as [O Sn].
    pose proof (normalize_m_spec csize mask m s W O (fun _ => Sn)) as R. pose proof (normalize_m_sane csize mask m s Sn) as Sn'.
    destruct (normalize_m csize mask m s) as [[rc m'] s']. cbn [fst snd] in *. destruct R as (W' & E' & C' & A' & _).
    split; [|split; [apply E'|]].
    + split; [exact W'|]. split; [apply upd_Forall; [exact F|split; assumption]|].
      intros x. pose proof (upd_blocks objs i m m' x EN). specialize (A' x). specialize (B x). lia.
    + clear -EN. revert i EN. induction objs as [|a r IH]; intros [|i] H; cbn in *; try discriminate; try lia. specialize (IH i H). lia.
  - (* make owner *)
    destruct (nth_error objs i) as [m|] eqn:EN; [|cbn [fst snd]; auto].
    destruct (balanced_owns _ _ _ _ Bal EN) as [O Sn].
    pose proof (make_owner_m_spec csize m s W O) as R. pose proof (make_owner_m_sane csize m s Sn) as Sn'.
    destruct (make_owner_m csize m s) as [[rc m'] s']. cbn [fst snd] in *. destruct R as (W' & E' & C' & A' & _).
    split; [|split; [apply E'|]].
    + split; [exact W'|]. split; [apply upd_Forall; [exact F|split; assumption]|].
      intros x. pose proof (upd_blocks objs i m m' x EN). specialize (A' x). specialize (B x). lia.
    + clear -EN. revert i EN. induction objs as [|a r IH]; intros [|i] H; cbn in *; try discriminate; try lia. specialize (IH i H). lia.
  - (* add base *)
    destruct (nth_error objs i) as [r|] eqn:EI; [|cbn [fst snd]; auto]. destruct (nth_error objs j) as [b|] eqn:EJ; [|cbn [fst snd]; auto].
    destruct (balanced_owns _ _ _ _ Bal EI) as [_ Sr]. destruct (balanced_owns _ _ _ _ Bal EJ) as [_ Sb].
    pose proof (add_base_m_spec compat r b s W) as R. pose proof (add_base_m_sane compat r b s Sr Sb) as Sd.
    destruct (add_base_m compat r b s) as [[rc d] s']. cbn [fst snd] in *. destruct R as (W' & E' & C' & _ & O' & _).
    split; [|split; [apply E'|rewrite app_length; lia]]. split; [exact W'|]. split.
    + apply Forall_app. split; [exact F|]. constructor; [split; assumption|constructor].
    + intros x. rewrite all_blocks_app, cnt_app. unfold all_blocks at 2. cbn [flat_map]. rewrite app_nil_r. rewrite (O' x), (B x). lia.
  - (* remove base *)
    destruct (nth_error objs i) as [r|] eqn:EI; [|cbn [fst snd]; auto]. destruct (nth_error objs j) as [b|] eqn:EJ; [|cbn [fst snd]; auto].
    destruct (balanced_owns _ _ _ _ Bal EI) as [_ Sr]. destruct (balanced_owns _ _ _ _ Bal EJ) as [_ Sb].
    pose proof (remove_base_m_spec dr r b s W) as R. pose proof (remove_base_m_sane dr r b s Sr Sb) as Sd.
    destruct (remove_base_m dr r b s) as [[rc d] s']. cbn [fst snd] in *. destruct R as (W' & E' & C' & _ & O' & _).
    split; [|split; [apply E'|rewrite app_length; lia]]. split; [exact W'|]. split.
    + apply Forall_app. split; [exact F|]. constructor; [split; assumption|constructor].
    + intros x. rewrite all_blocks_app, cnt_app. unfold all_blocks at 2. cbn [flat_map]. rewrite app_nil_r. rewrite (O' x), (B x). lia.
  - (* free members *)
    destruct (nth_error objs i) as [m|] eqn:EN; [|cbn [fst snd]; auto].
    destruct (balanced_owns _ _ _ _ Bal EN) as [O Sn].
    pose proof (free_members_sane m s Sn) as Sn'.
    destruct (free_members m s) as [m' s'] eqn:EF. cbn [fst snd] in *.
    destruct (free_members_rel m s m' s' W O EF) as (Rl & Eb & C' & _ & _). drel Rl W' E' Q' N' H'.
    split; [|split; [apply E'|]].
    + split; [exact W'|]. split; [apply upd_Forall; [exact F|split; assumption]|].
      intros x. pose proof (upd_blocks objs i m m' x EN) as U. rewrite Eb, cnt_nil in U. specialize (H' x). specialize (B x). lia.
    + clear -EN. revert i EN. induction objs as [|a r IH]; intros [|i] H; cbn in *; try discriminate; try lia. specialize (IH i H). lia.
Qed.

Definition hrun (csize : N) (ops : list hop) (st : list muri * mstate) : list muri * mstate := fold_left (hstep csize) ops st.

(* any history from the empty store and the empty ledger, under any plan *)
Theorem history_balanced csize p ops :
  let st := hrun csize ops ([], ms_init p) in balanced (fst st) (snd st) /\ bad_frees (snd st) = 0.
Proof.
  cbv zeta. unfold hrun.
  assert (G : forall ops objs s, balanced objs s -> bad_frees s = 0 ->
            balanced (fst (fold_left (hstep csize) ops (objs, s))) (snd (fold_left (hstep csize) ops (objs, s)))
            /\ bad_frees (snd (fold_left (hstep csize) ops (objs, s))) = 0).
  { clear ops. induction ops as [|op r IH]; intros objs s Bal Bf; cbn [fold_left]; [auto|].
    destruct (hstep_balanced csize objs s op Bal) as (B' & Bf' & _). destruct (hstep csize (objs, s) op) as [objs' s']. cbn [fst snd] in *.
    apply IH; [exact B'|congruence]. }
  apply G; [|reflexivity]. split; [apply wf_init|]. split; [constructor|]. intros x. reflexivity.
Qed.

(* ... and when every object of the store has been released at the end, no block is outstanding *)
Definition free_all (n : nat) : list hop := map HFree (seq 0 n).

Lemma balanced_no_blocks objs s : balanced objs s -> Forall (fun m => muri_blocks m = []) objs -> ms_live s = [].
Proof.
  intros (_ & _ & B) Fe. assert (E : all_blocks objs = []).
  { clear B. unfold all_blocks. induction Fe as [|m r Hm _ IH]; [reflexivity|]. cbn [flat_map]. rewrite Hm. exact IH. }
  rewrite E in B. apply perm_nil_live. apply cnt_Permutation. intros x. unfold L in B. rewrite B. reflexivity.
Qed.

Lemma upd_length {A} (l : list A) : forall i a, length (upd l i a) = length l.
Proof. induction l as [|b r IH]; intros [|i] a; cbn; auto. Qed.

Lemma firstn_upd_Forall {A} (P : A -> Prop) (l : list A) : forall i a a', nth_error l i = Some a -> P a' ->
  Forall P (firstn i l) -> Forall P (firstn (S i) (upd l i a')).
Proof.
  induction l as [|b r IH]; intros [|i] a a' EN Pa Fe; cbn in *; try discriminate.
  - constructor; [exact Pa|constructor].
  - inversion Fe; subst. constructor; [assumption|]. eapply IH; eauto.
Qed.

Lemma hfree_run csize : forall k objs s, balanced objs s -> k <= length objs ->
  Forall (fun m => muri_blocks m = []) (firstn (length objs - k) objs) ->
  let st := hrun csize (map HFree (seq (length objs - k) k)) (objs, s) in
  balanced (fst st) (snd st) /\ bad_frees (snd st) = bad_frees s /\ Forall (fun m => muri_blocks m = []) (fst st).
Proof.
  induction k as [|k IH]; intros objs s Bal Hk Fe; cbv zeta.
  - cbn [seq map hrun fold_left fst snd]. rewrite Nat.sub_0_r, firstn_all in Fe. auto.
  - cbn [seq map]. unfold hrun. cbn [fold_left].
    set (i := length objs - S k) in *. assert (Hi : i < length objs) by (subst i; lia).
    destruct (nth_error objs i) as [m|] eqn:EN; [|apply nth_error_None in EN; lia].
    pose proof (hstep_balanced csize objs s (HFree i) Bal) as (B' & Bf' & _). cbn [hstep] in *. rewrite EN in *.
    destruct (balanced_owns _ _ _ _ Bal EN) as [O _].
    destruct (free_members m s) as [m' s'] eqn:EF. cbn [fst snd] in *.
    destruct (free_members_rel m s m' s' (proj1 Bal) O EF) as (_ & Eb & _).
    assert (Hl : length (upd objs i m') = length objs) by apply upd_length.
    specialize (IH (upd objs i m') s' B'). rewrite Hl in IH.
    replace (S i) with (length objs - k) by (subst i; lia).
    assert (Fe' : Forall (fun m0 => muri_blocks m0 = []) (firstn (length objs - k) (upd objs i m'))).
    { replace (length objs - k) with (S i) by (subst i; lia). eapply firstn_upd_Forall; eauto. }
    destruct (IH (ltac:(lia)) Fe') as (a & b & c). unfold hrun in *. cbv zeta in *. split; [exact a|]. split; [congruence|exact c].
Qed.

Theorem history_then_release_leaves_nothing csize p ops :
  let st := hrun csize ops ([], ms_init p) in
  let st' := hrun csize (free_all (length (fst st))) st in
  ms_live (snd st') = [] /\ bad_frees (snd st') = 0.
Proof.
  cbv zeta. destruct (history_balanced csize p ops) as [Bal Bf]. cbv zeta in Bal, Bf.
  destruct (hrun csize ops ([], ms_init p)) as [objs s]. cbn [fst snd] in *.
  pose proof (hfree_run csize (length objs) objs s Bal (le_n _)) as H. rewrite Nat.sub_diag in H. cbn [firstn] in H.
  specialize (H (Forall_nil _)). cbv zeta in H. destruct H as (B' & Bf' & Fe).
  unfold free_all. split; [eapply balanced_no_blocks; eauto|congruence].
Qed.

Lemma balanced_meaning objs s : balanced objs s <->
  (wf s /\ Forall (fun m => consistent m /\ sane m) objs /\ Permutation (live_ids s) (flat_map muri_blocks objs)).
Proof.
  unfold balanced, all_blocks. rewrite cnt_Permutation. unfold L. tauto.
Qed.
