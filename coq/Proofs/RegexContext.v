(* Where a given character can occur in a text of a regular expression: [ctx c r] lists pairs
   (L, R) of expressions such that the texts of [r] containing [c] are exactly the texts
   x ++ c :: t with x in L and t in R for one of the pairs.  Used to cut a URI reference at the
   brackets of its IP literal (the RFC 3986 grammar mentions '[' and ']' in IP-literal only). *)
From Coq Require Import List NArith Bool Lia.
From UP Require Import Base.Regex.
Import ListNotations.
Local Open Scope N_scope.

Fixpoint ctx (c : N) (r : re) : list (re * re) :=
  match r with
  | Emp => []
  | Eps => []
  | Chr l => if mem c l then [(Eps, Eps)] else []
  | Seq a b => map (fun p => (fst p, seq (snd p) b)) (ctx c a)
               ++ map (fun p => (seq a (fst p), snd p)) (ctx c b)
  | Alt a b => ctx c a ++ ctx c b
  | Star a => map (fun p => (seq (Star a) (fst p), seq (snd p) (Star a))) (ctx c a)
  end.

(* ---- list and inversion helpers --------------------------------------------------- *)
Lemma app_eq_mid {A} (u v : list A) : forall x c t, u ++ v = x ++ c :: t ->
  (exists x2, x = u ++ x2 /\ v = x2 ++ c :: t) \/ (exists t1, u = x ++ c :: t1 /\ t = t1 ++ v).
Proof.
  induction u as [|a u IH]; intros x c t H.
  - left. exists x. split; [reflexivity|exact H].
  - destruct x as [|b x]; cbn [app] in H.
    + injection H as Ea Et. subst. right. exists u. split; reflexivity.
    + injection H as Ea Et. subst b. destruct (IH x c t Et) as [[x2 [E1 E2]]|[t1 [E1 E2]]].
      * left. exists x2. subst. split; reflexivity.
      * right. exists t1. subst. split; reflexivity.
Qed.

Lemma m_seq_inv a b s : matches (Seq a b) s -> exists u t, s = u ++ t /\ matches a u /\ matches b t.
Proof. inversion 1; subst; eauto. Qed.
Lemma m_eps_inv s : matches Eps s -> s = [].
Proof. inversion 1; reflexivity. Qed.
Lemma m_chr_inv l s : matches (Chr l) s -> exists c, s = [c] /\ In c l.
Proof. inversion 1; subst; eauto. Qed.
Lemma m_alt_inv a b s : matches (Alt a b) s -> matches a s \/ matches b s.
Proof. inversion 1; subst; auto. Qed.

Lemma star_app a p : matches (Star a) p -> forall w, matches (Star a) w -> matches (Star a) (p ++ w).
Proof.
  intros H. remember (Star a) as r eqn:Er. induction H as [| | | | |a0|a0 s t Hs _ Ht IHt]; try discriminate.
  - intros w Hw. exact Hw.
  - intros w Hw. rewrite <- app_assoc. constructor; [exact Hs|]. apply IHt; assumption.
Qed.

(* a character inside a text of a*: it lies in one of the iterations *)
Lemma star_mid a c w : matches (Star a) w -> forall x t, w = x ++ c :: t ->
  exists p x2 t1 t2, x = p ++ x2 /\ t = t1 ++ t2 /\ matches (Star a) p /\ matches a (x2 ++ c :: t1) /\ matches (Star a) t2.
Proof.
  intros H. remember (Star a) as r eqn:Er. induction H as [| | | | |a0|a0 s t0 Hs _ Ht IHt]; try discriminate.
  - intros x t E. destruct x; discriminate E.
  - injection Er as Ea. subst a0. intros x t E.
    destruct (app_eq_mid s t0 x c t E) as [[x2 [E1 E2]]|[t1 [E1 E2]]].
    + destruct (IHt eq_refl x2 t E2) as (p & x3 & t1 & t2 & Ex & Et & Hp & Hm & Ht2).
      exists (s ++ p), x3, t1, t2. subst. rewrite <- app_assoc. repeat split; try assumption.
      constructor; assumption.
    + exists [], x, t1, t0. subst. repeat split; try assumption. constructor.
Qed.

(* ---- the two directions -------------------------------------------------------------- *)
Lemma ctx_sound c r : forall x t, matches r (x ++ c :: t) ->
  exists p, In p (ctx c r) /\ matches (fst p) x /\ matches (snd p) t.
Proof.
  induction r as [| |l|a IHa b IHb|a IHa b IHb|a IHa]; intros x t H; cbn [ctx].
  - inversion H.
  - apply m_eps_inv in H. destruct x; discriminate H.
  - apply m_chr_inv in H. destruct H as (c0 & E & Hin).
    destruct x as [|y x]; cbn [app] in E.
    + injection E as Ec Et. subst. apply mem_In in Hin. rewrite Hin.
      exists (Eps, Eps). cbn [fst snd In]. repeat split; auto; constructor.
    + injection E as _ E. destruct x; discriminate E.
  - apply m_seq_inv in H. destruct H as (u & v & E & Hu & Hv). symmetry in E.
    destruct (app_eq_mid u v x c t E) as [[x2 [E1 E2]]|[t1 [E1 E2]]].
    + subst. destruct (IHb x2 t Hv) as (p & Hp & H1 & H2).
      exists (seq a (fst p), snd p). split.
      * apply in_or_app. right. apply in_map_iff. exists p. split; [reflexivity|exact Hp].
      * cbn [fst snd]. split; [|exact H2]. apply seq_spec. constructor; assumption.
    + subst. destruct (IHa x t1 Hu) as (p & Hp & H1 & H2).
      exists (fst p, seq (snd p) b). split.
      * apply in_or_app. left. apply in_map_iff. exists p. split; [reflexivity|exact Hp].
      * cbn [fst snd]. split; [exact H1|]. apply seq_spec. constructor; assumption.
  - apply m_alt_inv in H. destruct H as [H|H].
    + destruct (IHa x t H) as (p & Hp & H12). exists p. split; [apply in_or_app; left; exact Hp|exact H12].
    + destruct (IHb x t H) as (p & Hp & H12). exists p. split; [apply in_or_app; right; exact Hp|exact H12].
  - destruct (star_mid a c _ H x t eq_refl) as (p0 & x2 & t1 & t2 & Ex & Et & Hp0 & Hm & Ht2).
    destruct (IHa x2 t1 Hm) as (p & Hp & H1 & H2).
    exists (seq (Star a) (fst p), seq (snd p) (Star a)). split.
    + apply in_map_iff. exists p. split; [reflexivity|exact Hp].
    + cbn [fst snd]. subst. split; apply seq_spec; constructor; assumption.
Qed.

Lemma ctx_complete c r : forall p x t, In p (ctx c r) -> matches (fst p) x -> matches (snd p) t ->
  matches r (x ++ c :: t).
Proof.
  induction r as [| |l|a IHa b IHb|a IHa b IHb|a IHa]; intros p x t Hp Hx Ht; cbn [ctx] in Hp.
  - contradiction.
  - contradiction.
  - destruct (mem c l) eqn:E; [|contradiction]. destruct Hp as [Hp|[]]. subst p. cbn [fst snd] in *.
    inversion Hx; subst. inversion Ht; subst. cbn [app]. constructor. apply mem_In. exact E.
  - apply in_app_or in Hp. destruct Hp as [Hp|Hp]; apply in_map_iff in Hp; destruct Hp as (q & Eq & Hq); subst p; cbn [fst snd] in *.
    + apply seq_spec in Ht. apply m_seq_inv in Ht. destruct Ht as (t1 & t2 & E & H1 & H2). subst t.
      change (x ++ c :: t1 ++ t2) with (x ++ (c :: t1) ++ t2). rewrite app_assoc. constructor; [|exact H2].
      exact (IHa q x t1 Hq Hx H1).
    + apply seq_spec in Hx. apply m_seq_inv in Hx. destruct Hx as (x1 & x2 & E & H1 & H2). subst x.
      rewrite <- app_assoc. constructor; [exact H1|]. exact (IHb q x2 t Hq H2 Ht).
  - apply in_app_or in Hp. destruct Hp as [Hp|Hp]; [apply MAltL; eapply IHa|apply MAltR; eapply IHb]; eauto.
  - apply in_map_iff in Hp. destruct Hp as (q & Eq & Hq). subst p. cbn [fst snd] in *.
    apply seq_spec in Hx. apply m_seq_inv in Hx. destruct Hx as (x1 & x2 & E & H1 & H2). subst x.
    apply seq_spec in Ht. apply m_seq_inv in Ht. destruct Ht as (t1 & t2 & E & H3 & H4). subst t.
    rewrite <- app_assoc. apply star_app; [exact H1|].
    change (x2 ++ c :: t1 ++ t2) with (x2 ++ (c :: t1) ++ t2). rewrite app_assoc. constructor; [|exact H4].
    exact (IHa q x2 t1 Hq H2 H3).
Qed.

Theorem ctx_spec c r x t :
  matches r (x ++ c :: t) <-> exists p, In p (ctx c r) /\ matches (fst p) x /\ matches (snd p) t.
Proof.
  split; [apply ctx_sound|]. intros (p & Hp & Hx & Ht). exact (ctx_complete c r p x t Hp Hx Ht).
Qed.

(* every character of a text of [r] belongs to one of its character sets *)
Fixpoint re_all (cls : N -> bool) (r : re) : bool :=
  match r with
  | Emp | Eps => true
  | Chr l => forallb cls l
  | Seq a b | Alt a b => re_all cls a && re_all cls b
  | Star a => re_all cls a
  end.

Lemma re_all_spec cls r t : matches r t -> re_all cls r = true -> forallb cls t = true.
Proof.
  intros H. induction H as [|l c Hin|a b s t Hs IHs Ht IHt|a b s Hs IHs|a b s Hs IHs|a|a s t Hs IHs Ht IHt];
    cbn [re_all]; intros Hr.
  - reflexivity.
  - cbn [forallb]. rewrite forallb_forall in Hr. rewrite (Hr c Hin). reflexivity.
  - apply andb_true_iff in Hr. destruct Hr as [Ha Hb]. rewrite forallb_app, (IHs Ha), (IHt Hb). reflexivity.
  - apply andb_true_iff in Hr. apply IHs. apply Hr.
  - apply andb_true_iff in Hr. apply IHs. apply Hr.
  - reflexivity.
  - rewrite forallb_app, (IHs Hr), (IHt Hr). reflexivity.
Qed.
