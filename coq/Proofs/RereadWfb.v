(* Property C07: the condition [produced_wf] of Spec/Reread.v as a boolean function, so that it can be
   decided by computation for a given object ([produced_wfb u = true -> produced_wf u], and back),
   and [same_meaning] likewise. *)
From Coq Require Import List NArith Bool Lia Arith.
From UP Require Spec.Rfc3986.
From UP Require Import Base.Chars Base.Regex Model.Uri Spec.NormalWf Spec.Split Spec.Unparse Spec.Reread.
Import ListNotations.
Local Open Scope N_scope.

Fixpoint text_eqb (a b : list N) : bool :=
  match a, b with
  | [], [] => true
  | x :: a', y :: b' => (x =? y) && text_eqb a' b'
  | _, _ => false
  end.

Lemma text_eqb_eq a : forall b, text_eqb a b = true <-> a = b.
Proof.
  induction a as [|x a IH]; intros [|y b]; cbn [text_eqb]; try (split; [discriminate|discriminate]).
  - split; reflexivity.
  - rewrite andb_true_iff, N.eqb_eq, IH. split; [intros [-> ->]; reflexivity|intros E; inversion E; auto].
Qed.

Definition opt_okb (p : text -> bool) (o : option text) : bool :=
  match o with Some t => p t | None => true end.
Definition scheme_okb (s : text) : bool :=
  match s with c :: r => is_alpha c && forallb is_scheme_char r | [] => false end.
Definition text_okb (cls : N -> bool) (t : text) : bool := forallb cls t && pct_wf t.

Definition host_okb (u : uri) : bool :=
  match hostText u with
  | None => negb (is_some (ip4 u)) && negb (is_some (ip6 u)) && negb (is_some (ipFuture u))
  | Some h =>
    negb (absolutePath u) &&
    match ip4 u, ip6 u, ipFuture u with
    | None, None, None => text_okb is_regname_char h
    | Some o, None, None => matchb Rfc3986.IPv4address h && text_eqb o (ip4_value h)
    | None, Some b, None => Nat.eqb (length b) 16 && forallb (fun x => x <=? 255) b
    | None, None, Some f => text_eqb f h && matchb Rfc3986.IPvFuture h
    | _, _, _ => false
    end
  end.

Definition path_unambiguousb (u : uri) : bool :=
  match hostText u with
  | Some _ => true
  | None =>
    negb (head_is 47 (path_text u) && head_is 47 (tl (path_text u)))
    && (is_some (scheme u) || negb (mem 58 (fst (span_until [47] (path_text u)))))
  end.

Definition auth_okb (u : uri) : bool :=
  match hostText u with
  | None => negb (is_some (userInfo u)) && negb (is_some (portText u))
  | Some _ => true
  end.

Definition produced_wfb (u : uri) : bool :=
  opt_okb scheme_okb (scheme u)
  && opt_okb (text_okb is_userinfo_char) (userInfo u)
  && host_okb u
  && opt_okb (forallb is_digit) (portText u)
  && forallb (text_okb is_pchar) (pathSegs u)
  && opt_okb (text_okb is_qf_char) (query u)
  && opt_okb (text_okb is_qf_char) (fragment u)
  && path_unambiguousb u
  && auth_okb u.

Lemma opt_okb_spec (p : text -> bool) (P : text -> Prop) o :
  (forall t, p t = true <-> P t) -> (opt_okb p o = true <-> opt_ok P o).
Proof. intros H. destruct o as [t|]; cbn [opt_okb opt_ok]; [apply H|tauto]. Qed.

Lemma scheme_okb_spec s : scheme_okb s = true <-> scheme_ok s.
Proof. destruct s as [|c r]; cbn [scheme_okb scheme_ok]; [split; [discriminate|tauto]|apply andb_true_iff]. Qed.

Lemma text_okb_spec cls t : text_okb cls t = true <-> text_ok cls t.
Proof. unfold text_okb, text_ok. apply andb_true_iff. Qed.

Lemma not_some_none {A} (o : option A) : negb (is_some o) = true <-> o = None.
Proof. destruct o; cbn; split; intros H; try reflexivity; discriminate H. Qed.

Lemma host_okb_spec u : host_okb u = true <-> host_ok u.
Proof.
  unfold host_okb, host_ok. destruct (hostText u) as [h|].
  - rewrite andb_true_iff, negb_true_iff.
    apply and_iff_compat_l.
    destruct (ip4 u) as [o|], (ip6 u) as [b|], (ipFuture u) as [f|]; try (split; [discriminate|tauto]).
    + rewrite andb_true_iff, text_eqb_eq. tauto.
    + rewrite andb_true_iff, Nat.eqb_eq, forallb_forall, Forall_forall.
      split; intros [H1 H2]; (split; [exact H1|]); intros x Hx; specialize (H2 x Hx); apply N.leb_le; exact H2.
    + rewrite andb_true_iff, text_eqb_eq. tauto.
    + apply text_okb_spec.
  - rewrite !andb_true_iff, !not_some_none. tauto.
Qed.

Lemma path_unambiguousb_spec u : path_unambiguousb u = true <-> path_unambiguous u.
Proof.
  unfold path_unambiguousb, path_unambiguous. destruct (hostText u); [tauto|].
  rewrite andb_true_iff, negb_true_iff. apply and_iff_compat_l.
  destruct (scheme u) as [s|]; cbn [is_some orb].
  - split; [intros _ H; discriminate H|reflexivity].
  - rewrite negb_true_iff. split.
    + intros H _ Hi. apply mem_In in Hi. rewrite Hi in H. discriminate H.
    + intros H. destruct (mem 58 _) eqn:E; [|reflexivity]. apply mem_In in E. destruct (H eq_refl E).
Qed.

Lemma auth_okb_spec u : auth_okb u = true <-> auth_ok u.
Proof.
  unfold auth_okb, auth_ok. destruct (hostText u); [tauto|]. rewrite andb_true_iff, !not_some_none. tauto.
Qed.

Theorem produced_wfb_spec u : produced_wfb u = true <-> produced_wf u.
Proof.
  unfold produced_wfb, produced_wf. rewrite !andb_true_iff.
  rewrite (opt_okb_spec _ _ (scheme u) scheme_okb_spec).
  rewrite (opt_okb_spec _ _ (userInfo u) (text_okb_spec is_userinfo_char)).
  rewrite host_okb_spec.
  rewrite (opt_okb_spec (forallb is_digit) digits_ok (portText u)) by (intros t; reflexivity).
  rewrite (opt_okb_spec _ _ (query u) (text_okb_spec is_qf_char)).
  rewrite (opt_okb_spec _ _ (fragment u) (text_okb_spec is_qf_char)).
  rewrite path_unambiguousb_spec, auth_okb_spec.
  assert (forallb (text_okb is_pchar) (pathSegs u) = true <-> Forall (text_ok is_pchar) (pathSegs u)) as E.
  { rewrite forallb_forall, Forall_forall. split; intros H x Hx; apply text_okb_spec; apply H; exact Hx. }
  rewrite E. tauto.
Qed.

Corollary produced_wfb_sound u : produced_wfb u = true -> produced_wf u.
Proof. apply produced_wfb_spec. Qed.

(* ---- same_meaning, decided ---------------------------------------------------------------- *)
Definition opt_text_eqb (a b : option text) : bool :=
  match a, b with
  | Some x, Some y => text_eqb x y
  | None, None => true
  | _, _ => false
  end.

Lemma opt_text_eqb_eq a b : opt_text_eqb a b = true <-> a = b.
Proof.
  destruct a as [x|], b as [y|]; cbn [opt_text_eqb]; try (split; [discriminate|discriminate]).
  - rewrite text_eqb_eq. split; [intros ->; reflexivity|intros E; inversion E; reflexivity].
  - split; reflexivity.
Qed.

Definition host_meaning_eqb (a b : host_meaning) : bool :=
  match a, b with
  | HNone, HNone => true
  | HAddr6 x, HAddr6 y => text_eqb x y
  | HText x f, HText y g => text_eqb x y && Bool.eqb f g
  | _, _ => false
  end.

Lemma host_meaning_eqb_eq a b : host_meaning_eqb a b = true <-> a = b.
Proof.
  destruct a as [|x|x f], b as [|y|y g]; cbn [host_meaning_eqb]; try (split; [discriminate|discriminate]).
  - split; reflexivity.
  - rewrite text_eqb_eq. split; [intros ->; reflexivity|intros E; inversion E; reflexivity].
  - rewrite andb_true_iff, text_eqb_eq, Bool.eqb_true_iff.
    split; [intros [-> ->]; reflexivity|intros E; inversion E; auto].
Qed.

Definition same_meaningb (u v : uri) : bool :=
  opt_text_eqb (scheme u) (scheme v)
  && opt_text_eqb (userInfo u) (userInfo v)
  && host_meaning_eqb (host_of u) (host_of v)
  && opt_text_eqb (portText u) (portText v)
  && text_eqb (path_text u) (path_text v)
  && opt_text_eqb (query u) (query v)
  && opt_text_eqb (fragment u) (fragment v).

Theorem same_meaningb_spec u v : same_meaningb u v = true <-> same_meaning u v.
Proof.
  unfold same_meaningb, same_meaning.
  rewrite !andb_true_iff, !opt_text_eqb_eq, host_meaning_eqb_eq, text_eqb_eq. tauto.
Qed.
