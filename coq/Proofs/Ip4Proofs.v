(* uriParseIpFourAddress (Model/Ip4.v) against RFC 3986's dec-octet / IPv4address (Spec/Rfc3986.v),
   the numeric reading of Spec/Split.v and the printing of Model/Recompose.v.

   The pivot is the digit stack of the C parser: [stack_ok st] says that the digits st (values
   0..9, most significant first) are a decimal numeral without leading zero of a value <= 255.
   - the regular expression dec-octet matches exactly the texts [digit_chars st], stack_ok st;
   - uriParseDecOctet consumes exactly such a text (greedily) and leaves st on its stack;
   - uriToString's three-way branch prints exactly that text for the value of the stack. *)
From Coq Require Import List NArith Bool Lia ZifyBool ZifyN.
From UP Require Import Base.Chars Base.Regex Spec.Rfc3986 Spec.Split Model.Ip4 Model.Recompose.
Import ListNotations.
Local Open Scope N_scope.

(* ---------- ranges --------------------------------------------------------------------- *)
Lemma In_range c : forall n lo, In c (range lo n) <-> lo <= c < lo + N.of_nat n.
Proof.
  induction n as [|n IH]; intros lo; cbn [range In].
  - lia.
  - rewrite IH. lia.
Qed.

Lemma In_range_intro c n lo : lo <= c < lo + N.of_nat n -> In c (range lo n).
Proof. apply In_range. Qed.
Lemma In_range_elim c n lo : In c (range lo n) -> lo <= c < lo + N.of_nat n.
Proof. apply In_range. Qed.
Lemma In_DIGIT_intro c : 48 <= c <= 57 -> In c DIGIT.
Proof. intros H. apply In_range_intro. cbn [N.of_nat Pos.of_succ_nat Pos.succ]. lia. Qed.
Lemma In_DIGIT_elim c : In c DIGIT -> 48 <= c <= 57.
Proof. intros H. apply In_range_elim in H. cbn [N.of_nat Pos.of_succ_nat Pos.succ] in H. lia. Qed.

Lemma In_DIGIT c : In c DIGIT <-> 48 <= c <= 57.
Proof. split; [apply In_DIGIT_elim|apply In_DIGIT_intro]. Qed.

(* lifting a finite sweep *)
Lemma sweep_le (P : N -> bool) (n : nat) :
  forallb P (range 0 n) = true -> forall v, v < N.of_nat n -> P v = true.
Proof.
  intros H v Hv. rewrite forallb_forall in H. apply H. apply In_range_intro. lia.
Qed.

(* ---------- digit stacks ----------------------------------------------------------------- *)
Definition digit_chars (st : list N) : text := map (N.add 48) st.

Definition stack_ok (st : list N) : bool :=
  match st with
  | [a] => a <=? 9
  | [a; b] => (1 <=? a) && (a <=? 9) && (b <=? 9)
  | [a; b; c] => (1 <=? a) && (b <=? 9) && (c <=? 9) && (a * 100 + b * 10 + c <=? 255)
  | _ => false
  end.

(* the digits uriToString prints for a value *)
Definition octet_stack (v : N) : list N :=
  if 99 <? v then [v / 100; (v mod 100) / 10; v mod 10]
  else if 9 <? v then [v / 10; v mod 10]
  else [v].

Lemma octet_text_stack v : octet_text v = digit_chars (octet_stack v).
Proof.
  unfold octet_text, octet_stack, digit_chars.
  destruct (99 <? v); [reflexivity|]. destruct (9 <? v); reflexivity.
Qed.

Lemma octet_text_1 a : a <= 9 -> octet_text a = [48 + a].
Proof.
  intros H. unfold octet_text.
  destruct (99 <? a) eqn:E1; [lia|]. destruct (9 <? a) eqn:E2; [lia|]. reflexivity.
Qed.

Lemma octet_text_2 a b : 1 <= a -> a <= 9 -> b <= 9 -> octet_text (a * 10 + b) = [48 + a; 48 + b].
Proof.
  intros H1 H2 H3. unfold octet_text.
  destruct (99 <? a * 10 + b) eqn:E1; [lia|]. destruct (9 <? a * 10 + b) eqn:E2; [|lia].
  assert (Hd : (a * 10 + b) / 10 = a) by (symmetry; apply N.div_unique with (r := b); lia).
  assert (Hm : (a * 10 + b) mod 10 = b) by (symmetry; apply N.mod_unique with (q := a); lia).
  rewrite Hd, Hm. reflexivity.
Qed.

Lemma octet_text_3 a b c : 1 <= a -> b <= 9 -> c <= 9 ->
  octet_text (a * 100 + b * 10 + c) = [48 + a; 48 + b; 48 + c].
Proof.
  intros H1 H2 H3. unfold octet_text.
  destruct (99 <? a * 100 + b * 10 + c) eqn:E1; [|lia].
  assert (Hd : (a * 100 + b * 10 + c) / 100 = a)
    by (symmetry; apply N.div_unique with (r := b * 10 + c); lia).
  assert (Hm : (a * 100 + b * 10 + c) mod 100 = b * 10 + c)
    by (symmetry; apply N.mod_unique with (q := a); lia).
  assert (Hd2 : (b * 10 + c) / 10 = b) by (symmetry; apply N.div_unique with (r := c); lia).
  assert (Hm2 : (a * 100 + b * 10 + c) mod 10 = c)
    by (symmetry; apply N.mod_unique with (q := a * 10 + b); lia).
  rewrite Hd, Hm, Hd2, Hm2. reflexivity.
Qed.

(* a well-formed stack holds a value <= 255 (so the store into an unsigned char does not wrap),
   and the engine prints that value with exactly the digits of the stack *)
Lemma stack_ok_value st : stack_ok st = true ->
  stack_to_octet st <= 255 /\ octet_text (stack_to_octet st) = digit_chars st.
Proof.
  destruct st as [|a [|b [|c [|d st]]]]; cbn [stack_ok]; intros H; try discriminate;
    cbn [stack_to_octet digit_chars map].
  - split; [lia|]. apply octet_text_1. lia.
  - rewrite N.mod_small by lia. split; [lia|]. apply octet_text_2; lia.
  - rewrite N.mod_small by lia. split; [lia|]. apply octet_text_3; lia.
Qed.

Lemma stack_ok_digits st : stack_ok st = true -> Forall (fun d => d <= 9) st.
Proof.
  destruct st as [|a [|b [|c [|d st]]]]; cbn [stack_ok]; intros H; try discriminate;
    repeat constructor; lia.
Qed.

(* finite sweep: every value <= 255 is the value of the well-formed stack of its printed digits *)
Definition octet_stack_check (v : N) : bool :=
  stack_ok (octet_stack v) && (stack_to_octet (octet_stack v) =? v).

Lemma octet_stack_sweep : forallb octet_stack_check (range 0 256) = true.
Proof. vm_compute. reflexivity. Qed.

Lemma octet_stack_ok v : v <= 255 ->
  stack_ok (octet_stack v) = true /\ stack_to_octet (octet_stack v) = v.
Proof.
  intros H. assert (C : octet_stack_check v = true) by (apply (sweep_le _ 256 octet_stack_sweep); lia).
  unfold octet_stack_check in C. apply andb_true_iff in C. destruct C as [C1 C2].
  apply N.eqb_eq in C2. auto.
Qed.

(* the two descriptions of "decimal numeral of an octet" coincide *)
Lemma octet_texts t :
  (exists v, v <= 255 /\ t = octet_text v) <-> (exists st, stack_ok st = true /\ t = digit_chars st).
Proof.
  split.
  - intros [v [Hv E]]. exists (octet_stack v). split; [apply octet_stack_ok; exact Hv|].
    rewrite E. apply octet_text_stack.
  - intros [st [Hs E]]. exists (stack_to_octet st). destruct (stack_ok_value st Hs) as [Hv Ht].
    split; [exact Hv|]. rewrite Ht. exact E.
Qed.

(* ---------- the regular expression dec-octet --------------------------------------------- *)
Lemma chr_inv l s : matches (Chr l) s -> exists c, s = [c] /\ In c l.
Proof. inversion 1; subst. eauto. Qed.

Lemma seq_inv a b s : matches (Seq a b) s -> exists u v, s = u ++ v /\ matches a u /\ matches b v.
Proof. inversion 1; subst. eauto. Qed.
Lemma alt_inv a b s : matches (Alt a b) s -> matches a s \/ matches b s.
Proof. inversion 1; subst; auto. Qed.

Lemma m_chr l c : In c l -> matches (Chr l) [c].
Proof. apply MChr. Qed.
Lemma m_cons l c b s : In c l -> matches b s -> matches (Seq (Chr l) b) (c :: s).
Proof. intros H M. change (c :: s) with ([c] ++ s). constructor; [constructor|]; assumption. Qed.

Local Ltac inv_re :=
  repeat match goal with
  | H : matches (Alt _ _) _ |- _ => apply alt_inv in H; destruct H as [H|H]
  | H : matches (Seq _ _) _ |- _ =>
      apply seq_inv in H; let u := fresh "u" in let v := fresh "v" in let E := fresh "E" in
      let H' := fresh "M" in destruct H as [u [v [E [H H']]]]; subst
  | H : matches (Chr _) _ |- _ =>
      apply chr_inv in H; let c := fresh "c" in let E := fresh "E" in
      destruct H as [c [E H]]; subst
  end.

Local Ltac in_bounds :=
  repeat match goal with
  | H : In _ DIGIT |- _ => apply In_DIGIT_elim in H
  | H : In _ (range _ ?n) |- _ =>
      apply In_range_elim in H;
      let k := eval vm_compute in (N.of_nat n) in change (N.of_nat n) with k in H
  | H : In _ [_] |- _ => destruct H as [H|[]]
  end.

Local Ltac range_in :=
  apply In_range_intro;
  match goal with |- context [N.of_nat ?n] =>
    let k := eval vm_compute in (N.of_nat n) in change (N.of_nat n) with k
  end.

Lemma dec_octet_re_stack t :
  matches Rfc3986.dec_octet t <-> exists st, stack_ok st = true /\ t = digit_chars st.
Proof.
  split.
  - intros M. cbv [Rfc3986.dec_octet alts seqs ch] in M. inv_re; in_bounds; cbn [app].
    + exists [c - 48]. cbn [stack_ok digit_chars map]. split; [lia|]. f_equal. lia.
    + exists [c0 - 48; c - 48]. cbn [stack_ok digit_chars map]. split; [lia|]. repeat f_equal; lia.
    + exists [1; c0 - 48; c - 48]. cbn [stack_ok digit_chars map]. split; [lia|]. repeat f_equal; lia.
    + exists [2; c0 - 48; c - 48]. cbn [stack_ok digit_chars map]. split; [lia|]. repeat f_equal; lia.
    + exists [2; 5; c - 48]. cbn [stack_ok digit_chars map]. split; [lia|]. repeat f_equal; lia.
  - intros [st [Hs E]]. subst t.
    destruct st as [|a [|b [|c [|d st]]]]; cbn [stack_ok] in Hs; try discriminate;
      cbn [digit_chars map]; cbv [Rfc3986.dec_octet alts seqs ch].
    + apply MAltL. apply m_chr, In_DIGIT_intro. lia.
    + apply MAltR, MAltL. apply m_cons; [range_in; lia|apply m_chr, In_DIGIT_intro; lia].
    + apply MAltR, MAltR.
      assert (C : a = 1 \/ (a = 2 /\ b <= 4) \/ (a = 2 /\ b = 5 /\ c <= 5)) by lia.
      destruct C as [C|[C|C]].
      * apply MAltL. apply m_cons; [left; lia|]. apply m_cons; [apply In_DIGIT_intro; lia|].
        apply m_chr, In_DIGIT_intro; lia.
      * apply MAltR, MAltL. apply m_cons; [left; lia|]. apply m_cons; [range_in; lia|].
        apply m_chr, In_DIGIT_intro; lia.
      * apply MAltR, MAltR. apply m_cons; [left; lia|]. apply m_cons; [left; lia|].
        apply m_chr. range_in; lia.
Qed.

(* 1. dec-octet is the set of decimal numerals, without leading zero, of the values 0..255 *)
Lemma dec_octet_grammar t :
  matchb Rfc3986.dec_octet t = true <-> exists v, v <= 255 /\ t = octet_text v.
Proof. rewrite matchb_spec, dec_octet_re_stack. symmetry. apply octet_texts. Qed.

(* ---------- uriParseDecOctet ---------------------------------------------------------------- *)
Definition stops (r : text) : bool :=
  match r with [] => true | c :: _ => negb (is_digit c) end.

Local Ltac model_unfold :=
  cbv [Ip4.dec_octet dec_octet_one dec_octet_two dec_octet_three dec_octet_four is_digit in_range].

Local Ltac model_cases H :=
  repeat match type of H with
  | context [match ?x with _ => _ end] =>
      match x with
      | _ => is_var x; destruct x
      | _ => let E := fresh "E" in destruct x eqn:E
      end
  end.

(* what the function consumed is the digit text of the stack it leaves, and the stack is a
   proper octet numeral *)
Lemma dec_octet_sound s st r :
  Ip4.dec_octet s = Some (st, r) -> stack_ok st = true /\ s = digit_chars st ++ r.
Proof.
  intros H. revert H. model_unfold. intros H.
  model_cases H; try discriminate; inversion H; subst; clear H;
    cbn [stack_ok digit_chars map app]; (split; [lia|repeat f_equal; lia]).
Qed.

(* maximal munch: with a non-digit (or nothing) behind it, every octet numeral is consumed
   entirely *)
Lemma dec_octet_complete st r :
  stack_ok st = true -> stops r = true -> Ip4.dec_octet (digit_chars st ++ r) = Some (st, r).
Proof.
  intros Hs Hr.
  assert (R : r = [] \/ exists c r', r = c :: r' /\ (c < 48 \/ 57 < c)).
  { destruct r as [|c r']; [left; reflexivity|right]. exists c, r'. split; [reflexivity|].
    cbn [stops] in Hr. unfold is_digit, in_range in Hr. lia. }
  destruct st as [|a [|b [|c [|d st]]]]; cbn [stack_ok] in Hs; try discriminate;
    cbn [digit_chars map app]; model_unfold.
  all: destruct R as [R|[x [r' [R X]]]]; subst r.
  all: repeat match goal with
       | |- context [match ?x with _ => _ end] =>
           let E := fresh "E" in destruct x eqn:E; try lia
       end.
  all: cbn [app]; repeat f_equal; lia.
Qed.

(* ---------- one octet and a dot -------------------------------------------------------------- *)
Lemma octet_dot_sound s v r : octet_dot s = Some (v, r) ->
  exists st, stack_ok st = true /\ v = stack_to_octet st /\ s = digit_chars st ++ 46 :: r.
Proof.
  unfold octet_dot. destruct (Ip4.dec_octet s) as [[st r0]|] eqn:E; [|discriminate].
  destruct r0 as [|c r0]; [discriminate|]. destruct (c =? 46) eqn:Ec; [|discriminate].
  intros H. inversion H; subst; clear H. apply N.eqb_eq in Ec. subst c.
  apply dec_octet_sound in E. destruct E as [Hs E]. exists st. auto.
Qed.

Lemma octet_dot_complete st r : stack_ok st = true ->
  octet_dot (digit_chars st ++ 46 :: r) = Some (stack_to_octet st, r).
Proof.
  intros Hs. unfold octet_dot. rewrite (dec_octet_complete st (46 :: r) Hs) by reflexivity.
  reflexivity.
Qed.

(* ---------- uriParseIpFourAddress ------------------------------------------------------------ *)
Definition quad_text (s1 s2 s3 s4 : list N) : text :=
  digit_chars s1 ++ 46 :: digit_chars s2 ++ 46 :: digit_chars s3 ++ 46 :: digit_chars s4.

Lemma parse_ip4_unfold s :
  parse_ip4 s =
  match octet_dot s with
  | Some (o1, r1) =>
    match octet_dot r1 with
    | Some (o2, r2) =>
      match octet_dot r2 with
      | Some (o3, r3) =>
        match Ip4.dec_octet r3 with
        | Some (st, []) => Some [o1; o2; o3; stack_to_octet st]
        | _ => None
        end
      | None => None
      end
    | None => None
    end
  | None => None
  end.
Proof. destruct s; reflexivity. Qed.

Lemma parse_ip4_sound t o : parse_ip4 t = Some o ->
  exists s1 s2 s3 s4,
    stack_ok s1 = true /\ stack_ok s2 = true /\ stack_ok s3 = true /\ stack_ok s4 = true
    /\ o = [stack_to_octet s1; stack_to_octet s2; stack_to_octet s3; stack_to_octet s4]
    /\ t = quad_text s1 s2 s3 s4.
Proof.
  rewrite parse_ip4_unfold.
  destruct (octet_dot t) as [[o1 r1]|] eqn:E1; [|discriminate].
  destruct (octet_dot r1) as [[o2 r2]|] eqn:E2; [|discriminate].
  destruct (octet_dot r2) as [[o3 r3]|] eqn:E3; [|discriminate].
  destruct (Ip4.dec_octet r3) as [[s4 r4]|] eqn:E4; [|discriminate].
  destruct r4 as [|c r4]; [|discriminate].
  intros H. inversion H; subst; clear H.
  apply octet_dot_sound in E1. destruct E1 as [s1 [H1 [V1 T1]]].
  apply octet_dot_sound in E2. destruct E2 as [s2 [H2 [V2 T2]]].
  apply octet_dot_sound in E3. destruct E3 as [s3 [H3 [V3 T3]]].
  apply dec_octet_sound in E4. destruct E4 as [H4 T4].
  exists s1, s2, s3, s4. subst. rewrite app_nil_r. unfold quad_text. auto 10.
Qed.

Lemma parse_ip4_complete s1 s2 s3 s4 :
  stack_ok s1 = true -> stack_ok s2 = true -> stack_ok s3 = true -> stack_ok s4 = true ->
  parse_ip4 (quad_text s1 s2 s3 s4)
  = Some [stack_to_octet s1; stack_to_octet s2; stack_to_octet s3; stack_to_octet s4].
Proof.
  intros H1 H2 H3 H4. rewrite parse_ip4_unfold. unfold quad_text.
  rewrite (octet_dot_complete s1 _ H1), (octet_dot_complete s2 _ H2), (octet_dot_complete s3 _ H3).
  rewrite <- (app_nil_r (digit_chars s4)).
  rewrite (dec_octet_complete s4 [] H4) by reflexivity. reflexivity.
Qed.

(* ---------- IPv4address ------------------------------------------------------------------------ *)
Lemma IPv4address_quads t :
  matches IPv4address t <->
  exists s1 s2 s3 s4,
    stack_ok s1 = true /\ stack_ok s2 = true /\ stack_ok s3 = true /\ stack_ok s4 = true
    /\ t = quad_text s1 s2 s3 s4.
Proof.
  unfold IPv4address. cbn [seqs]. unfold ch. split.
  - intros M.
    inv_re.
    repeat match goal with
    | H : In _ [_] |- _ => destruct H as [H|[]]; subst
    | H : matches Rfc3986.dec_octet _ |- _ =>
        apply dec_octet_re_stack in H; let st := fresh "st" in let Hs := fresh "Hs" in
        destruct H as [st [Hs H]]; subst
    end.
    cbn [app].
    match goal with
    | |- context [digit_chars ?a ++ 46 :: digit_chars ?b ++ 46 :: digit_chars ?c ++ 46 :: digit_chars ?d] =>
        exists a, b, c, d
    end.
    repeat (split; [assumption|]). reflexivity.
  - intros [s1 [s2 [s3 [s4 [H1 [H2 [H3 [H4 E]]]]]]]]. subst t. unfold quad_text.
    assert (D : matches (Chr [46]) [46]) by (constructor; left; reflexivity).
    assert (M1 : matches Rfc3986.dec_octet (digit_chars s1)) by (apply dec_octet_re_stack; eauto).
    assert (M2 : matches Rfc3986.dec_octet (digit_chars s2)) by (apply dec_octet_re_stack; eauto).
    assert (M3 : matches Rfc3986.dec_octet (digit_chars s3)) by (apply dec_octet_re_stack; eauto).
    assert (M4 : matches Rfc3986.dec_octet (digit_chars s4)) by (apply dec_octet_re_stack; eauto).
    repeat (apply MSeq; [assumption|]; apply (MSeq _ _ [46]); [exact D|]). exact M4.
Qed.

(* 2. the C function accepts exactly the RFC's IPv4address *)
Lemma parse_ip4_grammar t : (exists o, parse_ip4 t = Some o) <-> matches IPv4address t.
Proof.
  rewrite IPv4address_quads. split.
  - intros [o H]. apply parse_ip4_sound in H.
    destruct H as [s1 [s2 [s3 [s4 [H1 [H2 [H3 [H4 [_ E]]]]]]]]]. exists s1, s2, s3, s4. auto 10.
  - intros [s1 [s2 [s3 [s4 [H1 [H2 [H3 [H4 E]]]]]]]]. subst t. eexists.
    apply parse_ip4_complete; assumption.
Qed.

(* ---------- the value of the text ---------------------------------------------------------- *)
Lemma split_on_nosep sep p : Forall (fun c => c <> sep) p ->
  (forall r, split_on sep (p ++ sep :: r) = p :: split_on sep r) /\ split_on sep p = [p].
Proof.
  induction 1 as [|c p Hc Hp [IH1 IH2]]; cbn [app split_on].
  - split; [|reflexivity]. intros r. rewrite N.eqb_refl. reflexivity.
  - apply N.eqb_neq in Hc. rewrite Hc. split.
    + intros r. rewrite IH1. reflexivity.
    + rewrite IH2. reflexivity.
Qed.

Lemma digit_chars_nodot st : stack_ok st = true -> Forall (fun c => c <> 46) (digit_chars st).
Proof.
  intros H. apply stack_ok_digits in H. unfold digit_chars. induction H as [|d st Hd _ IH]; cbn [map].
  - constructor.
  - constructor; [lia|exact IH].
Qed.

Lemma dec_value_stack st : stack_ok st = true -> dec_value (digit_chars st) = stack_to_octet st.
Proof.
  destruct st as [|a [|b [|c [|d st]]]]; cbn [stack_ok]; intros H; try discriminate;
    cbn [stack_to_octet digit_chars map]; unfold dec_value; cbn [fold_left].
  - lia.
  - rewrite N.mod_small by lia. lia.
  - rewrite N.mod_small by lia. lia.
Qed.

Lemma ip4_value_quad s1 s2 s3 s4 :
  stack_ok s1 = true -> stack_ok s2 = true -> stack_ok s3 = true -> stack_ok s4 = true ->
  ip4_value (quad_text s1 s2 s3 s4)
  = [stack_to_octet s1; stack_to_octet s2; stack_to_octet s3; stack_to_octet s4].
Proof.
  intros H1 H2 H3 H4. unfold ip4_value, quad_text.
  rewrite (proj1 (split_on_nosep 46 _ (digit_chars_nodot s1 H1))).
  rewrite (proj1 (split_on_nosep 46 _ (digit_chars_nodot s2 H2))).
  rewrite (proj1 (split_on_nosep 46 _ (digit_chars_nodot s3 H3))).
  rewrite (proj2 (split_on_nosep 46 _ (digit_chars_nodot s4 H4))).
  cbn [map]. rewrite !dec_value_stack by assumption. reflexivity.
Qed.

(* 3. the stored bytes are the values written in the text *)
Lemma parse_ip4_value t o : parse_ip4 t = Some o ->
  o = ip4_value t /\ length o = 4%nat /\ Forall (fun b => b <= 255) o.
Proof.
  intros H. apply parse_ip4_sound in H.
  destruct H as [s1 [s2 [s3 [s4 [H1 [H2 [H3 [H4 [Eo Et]]]]]]]]]. subst t.
  rewrite ip4_value_quad by assumption. subst o. split; [reflexivity|]. split; [reflexivity|].
  repeat constructor; apply stack_ok_value; assumption.
Qed.

(* ---------- printing -------------------------------------------------------------------------- *)
Lemma ip4_pieces_quad a b c d :
  concat (ip4_pieces [a; b; c; d] 0)
  = octet_text a ++ 46 :: octet_text b ++ 46 :: octet_text c ++ 46 :: octet_text d.
Proof.
  cbn [ip4_pieces Nat.ltb Nat.leb concat app]. rewrite app_nil_r. reflexivity.
Qed.

(* 4. printing the four bytes reproduces the host text character for character *)
Lemma parse_ip4_render t o : parse_ip4 t = Some o -> concat (ip4_pieces o 0) = t.
Proof.
  intros H. apply parse_ip4_sound in H.
  destruct H as [s1 [s2 [s3 [s4 [H1 [H2 [H3 [H4 [Eo Et]]]]]]]]]. subst t o.
  rewrite ip4_pieces_quad.
  rewrite (proj2 (stack_ok_value s1 H1)), (proj2 (stack_ok_value s2 H2)),
          (proj2 (stack_ok_value s3 H3)), (proj2 (stack_ok_value s4 H4)).
  reflexivity.
Qed.

(* 5. parsing the printed form of four bytes gives the four bytes back *)
Lemma parse_ip4_of_render a b c d : a <= 255 -> b <= 255 -> c <= 255 -> d <= 255 ->
  parse_ip4 (concat (ip4_pieces [a; b; c; d] 0)) = Some [a; b; c; d].
Proof.
  intros Ha Hb Hc Hd. rewrite ip4_pieces_quad, !octet_text_stack.
  destruct (octet_stack_ok a Ha) as [Sa Va]. destruct (octet_stack_ok b Hb) as [Sb Vb].
  destruct (octet_stack_ok c Hc) as [Sc Vc]. destruct (octet_stack_ok d Hd) as [Sd Vd].
  change (parse_ip4 (quad_text (octet_stack a) (octet_stack b) (octet_stack c) (octet_stack d))
          = Some [a; b; c; d]).
  rewrite parse_ip4_complete by assumption. rewrite Va, Vb, Vc, Vd. reflexivity.
Qed.

(* the host text of an accepted address is canonical: two accepted texts with the same bytes
   are the same text *)
Lemma parse_ip4_injective t t' o : parse_ip4 t = Some o -> parse_ip4 t' = Some o -> t = t'.
Proof.
  intros H H'. apply parse_ip4_render in H. apply parse_ip4_render in H'. congruence.
Qed.
