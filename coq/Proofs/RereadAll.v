(* Property C07 assembled: every object reachable by a finite history of parse, resolve,
   create-reference, normalize (any mask) and make-owner steps reads back with the same meaning,
   provided no normalization step of the history falls into the known defect shape D7b
   ([exposes_colon]; Proofs/RereadNormalize.v shows it is exact).  The second shape of earlier versions
   (D14, a path text beginning with "//") was repaired in the C code and is no longer a hypothesis. *)
From Coq Require Import List NArith Bool.
From UP Require Import Base.Chars Model.Uri Model.Parse Model.Normalize Model.History Model.Recompose
  Spec.Reread Proofs.ParsedProduced Proofs.RereadNormalize Proofs.RereadResolve Proofs.RereadProofs.
Import ListNotations.

(* a normalization step outside the defect shape *)
Definition norm_outside_findings (mask : N) (u : uri) : Prop :=
  exposes_colon mask u = false.

Theorem history_all_produced_wf : forall ops,
  normalize_steps_ok norm_outside_findings empty_store ops ->
  forall i u, run empty_store ops i = Some u -> produced_wf u.
Proof.
  intros ops Hok i u Hrun.
  apply (history_produced_wf norm_outside_findings) with (ops := ops) (i := i); try assumption.
  - exact parsed_produced_wf.
  - intros mask v Hv Hc. apply normalize_produced_wf; assumption.
  - exact make_owner_produced_wf.
Qed.

Theorem history_all_reread : forall ops,
  normalize_steps_ok norm_outside_findings empty_store ops ->
  forall i u, run empty_store ops i = Some u ->
  exists v, parse (to_text u) = POk v /\ same_meaning u v.
Proof.
  intros ops Hok i u Hrun. apply produced_reread. exact (history_all_produced_wf ops Hok i u Hrun).
Qed.

(* a host never coexists with the absolute-path flag, in every reachable object *)
Theorem history_all_host_flag : forall ops,
  normalize_steps_ok norm_outside_findings empty_store ops ->
  forall i u, run empty_store ops i = Some u -> hostText u <> None -> absolutePath u = false.
Proof.
  intros ops Hok i u Hrun Hh.
  destruct (history_all_produced_wf ops Hok i u Hrun) as (_ & _ & Hhost & _).
  unfold host_ok in Hhost. destruct (hostText u) as [h|]; [|contradiction]. exact (proj1 Hhost).
Qed.
