From Coq Require Import List Arith Lia.
From UP Require Import Spec.Footprint.
Import ListNotations.

Section Proofs.
Variable V : Type.
Variable owner : loc -> option nat.
Notation store := (store V).
Notation step := (step V).
Notation disciplined := (disciplined V owner).
Notation agree_on := (agree_on V owner).
Notation run_sched := (run_sched V).
Notation run_solo := (run_solo V).
Notation upd := (upd V).

Lemma run_solo_app a b m : run_solo (a ++ b) m = run_solo b (run_solo a m).
Proof. unfold Footprint.run_solo. apply fold_left_app. Qed.

(* the invariant: what thread i can see is what it would see had it run alone so far *)
Definition inv (P0 : program V) (m0 : store) (prog : program V) (m : store) : Prop :=
  forall i, exists pre, P0 i = pre ++ prog i /\ agree_on i m (run_solo pre m0).

Lemma inv_step P0 m0 prog m j f more :
  (forall i g, In g (P0 i) -> disciplined i g) ->
  inv P0 m0 prog m -> prog j = f :: more -> inv P0 m0 (upd prog j more) (f m).
Proof.
  intros HD HI Hj i. destruct (HI i) as [pre [E A]].
  unfold Footprint.upd. destruct (Nat.eqb i j) eqn:Eij.
  - apply Nat.eqb_eq in Eij. subst i. rewrite Hj in E.
    exists (pre ++ [f]). split; [rewrite <- app_assoc; exact E|].
    rewrite run_solo_app. cbn.
    assert (disciplined j f) as D by (apply HD; rewrite E; apply in_or_app; right; left; reflexivity).
    destruct D as [_ D2]. apply D2. exact A.
  - apply Nat.eqb_neq in Eij. exists pre. split; [exact E|].
    assert (disciplined j f) as D.
    { destruct (HI j) as [prej [Ej _]]. apply HD. rewrite Ej, Hj. apply in_or_app; right; left; reflexivity. }
    destruct D as [D1 _]. intros l Hl. rewrite D1; [apply A; exact Hl|].
    destruct Hl as [Hl|Hl]; rewrite Hl; [intros C; inversion C; congruence|discriminate].
Qed.

Lemma inv_run P0 m0 sched : forall prog m,
  (forall i g, In g (P0 i) -> disciplined i g) ->
  inv P0 m0 prog m -> inv P0 m0 (fst (run_sched prog sched m)) (snd (run_sched prog sched m)).
Proof.
  induction sched as [|j rest IH]; intros prog m HD HI; [exact HI|].
  cbn [Footprint.run_sched]. destruct (prog j) as [|f more] eqn:Hj; [apply IH; assumption|].
  apply IH; [assumption|]. eapply inv_step; eassumption.
Qed.

Lemma shared_unchanged sched l : owner l = None -> forall prog m,
  (forall i g, In g (prog i) -> disciplined i g) ->
  snd (run_sched prog sched m) l = m l.
Proof.
  intros Hl. induction sched as [|j rest IH]; intros prog m HD; [reflexivity|].
  cbn [Footprint.run_sched]. destruct (prog j) as [|f more] eqn:Hj; [apply IH; exact HD|].
  rewrite IH.
  - assert (disciplined j f) as D by (apply HD; rewrite Hj; left; reflexivity).
    destruct D as [D1 _]. apply D1. rewrite Hl. discriminate.
  - intros i g Hg. unfold Footprint.upd in Hg. destruct (Nat.eqb i j) eqn:E.
    + apply Nat.eqb_eq in E. subst i. apply HD. rewrite Hj. right. exact Hg.
    + apply HD. exact Hg.
Qed.

(* every interleaving: each thread sees, at every moment and at the end, exactly what it sees when
   it runs alone; shared locations never change *)
Theorem schedule_independent (P : program V) (m0 : store) (sched : list nat) :
  (forall i g, In g (P i) -> disciplined i g) ->
  let r := run_sched P sched m0 in
  (forall i, exists pre, P i = pre ++ fst r i /\ agree_on i (snd r) (run_solo pre m0))
  /\ (forall i, fst r i = [] -> agree_on i (snd r) (run_solo (P i) m0))
  /\ (forall l, owner l = None -> snd r l = m0 l).
Proof.
  intros HD r.
  assert (inv P m0 (fst r) (snd r)) as I.
  { apply inv_run; [exact HD|]. intros i. exists []. split; [reflexivity|]. intros l _. reflexivity. }
  split; [exact I|]. split.
  - intros i Hi. destruct (I i) as [pre [E A]]. rewrite Hi, app_nil_r in E. rewrite E. exact A.
  - intros l Hl. apply shared_unchanged; assumption.
Qed.

(* no two threads ever touch the same location with one of them writing: a location a step changes is
   owned by the stepping thread, and no other thread may look at it *)
Theorem no_conflict i j f m l : i <> j -> disciplined i f -> f m l <> m l ->
  owner l = Some i /\ ~ Footprint.visible owner j l.
Proof.
  intros Hij [D1 _] Hch.
  assert (owner l = Some i) as O.
  { destruct (owner l) as [k|] eqn:E.
    - destruct (Nat.eq_dec k i) as [->|N]; [reflexivity|]. exfalso. apply Hch. apply D1. rewrite E. intros C. inversion C. congruence.
    - exfalso. apply Hch. apply D1. rewrite E. discriminate. }
  split; [exact O|]. intros [H|H]; rewrite O in H; [inversion H; congruence|discriminate].
Qed.
End Proofs.
