(* C20, model side: the value an operation computes does not depend on the state of the allocator it is
   given, so it does not depend on what other threads allocated or released in the meantime through the
   same (thread-safe) allocator.  Corollaries of the erasure theorems of Proofs/OwnershipProofs.v:
   under a fault-free plan the erased result is the pure-tier function of the erased arguments. *)
From Coq Require Import List NArith.
From UP Require Import Base.Chars Model.Uri Model.Parse Model.Resolve Model.Shorten Model.Normalize
  Model.Mem Model.ParseM Model.OpsM Proofs.OwnershipProofs.
Import ListNotations.

(* what a parse result says, without the blocks *)
Definition mresult_value (r : mresult) : presult :=
  match r with MOk m => POk (erase m) | MSyntax p => PSyntax p | MMalloc => PSyntax 0 end.

Lemma parse_value_is_pure t s : nofault s -> mresult_value (fst (parse_m t s)) = parse t.
Proof.
  intros Hs. destruct (parse_m_erasure t s Hs) as (Hok & Hex & Hsyn & Hnm & _).
  destruct (fst (parse_m t s)) as [m|pos|] eqn:E; cbn [mresult_value].
  - destruct (Hok m eq_refl) as (Hp & _). symmetry. exact Hp.
  - symmetry. apply Hsyn. reflexivity.
  - exfalso. apply Hnm. reflexivity.
Qed.

Theorem parse_ledger_independent t s1 s2 : nofault s1 -> nofault s2 ->
  mresult_value (fst (parse_m t s1)) = mresult_value (fst (parse_m t s2)).
Proof. intros H1 H2. rewrite (parse_value_is_pure t s1 H1), (parse_value_is_pure t s2 H2). reflexivity. Qed.

Definition op_value (r : N * muri * mstate) : N * uri := (fst (fst r), erase (snd (fst r))).

Theorem add_base_ledger_independent compat rel base s1 s2 : nofault s1 -> nofault s2 ->
  op_value (add_base_m compat rel base s1) = op_value (add_base_m compat rel base s2).
Proof.
  intros H1 H2.
  destruct (C12_add_base_stmt compat rel base s1 H1) as (rc1 & d1 & t1 & E1 & V1 & _).
  destruct (C12_add_base_stmt compat rel base s2 H2) as (rc2 & d2 & t2 & E2 & V2 & _).
  rewrite E1, E2. unfold op_value. cbn [fst snd]. rewrite V1, V2. reflexivity.
Qed.

Theorem remove_base_ledger_independent dr src base s1 s2 : nofault s1 -> nofault s2 ->
  op_value (remove_base_m dr src base s1) = op_value (remove_base_m dr src base s2).
Proof.
  intros H1 H2.
  destruct (C12_remove_base_stmt dr src base s1 H1) as (rc1 & d1 & t1 & E1 & V1 & _).
  destruct (C12_remove_base_stmt dr src base s2 H2) as (rc2 & d2 & t2 & E2 & V2 & _).
  rewrite E1, E2. unfold op_value. cbn [fst snd]. rewrite V1, V2. reflexivity.
Qed.

Theorem make_owner_ledger_independent csize m s1 s2 : nofault s1 -> nofault s2 -> mwf m ->
  op_value (make_owner_m csize m s1) = op_value (make_owner_m csize m s2).
Proof.
  intros H1 H2 W. destruct (m_owner m) eqn:O.
  - rewrite !(make_owner_m_owned csize m _ O). reflexivity.
  - destruct (C12_make_owner_stmt csize m s1 H1 W O) as (m1 & t1 & E1 & V1 & _).
    destruct (C12_make_owner_stmt csize m s2 H2 W O) as (m2 & t2 & E2 & V2 & _).
    rewrite E1, E2. unfold op_value. cbn [fst snd]. rewrite V1, V2. reflexivity.
Qed.

Theorem normalize_ledger_independent csize mask m s1 s2 : nofault s1 -> nofault s2 -> mwf m ->
  op_value (normalize_m csize mask m s1) = op_value (normalize_m csize mask m s2).
Proof.
  intros H1 H2 W. destruct (N.eq_dec mask 0) as [Z|NZ].
  - subst mask. rewrite (proj1 (C12_normalize_zero_stmt csize m s1)), (proj1 (C12_normalize_zero_stmt csize m s2)). reflexivity.
  - destruct (m_owner m) eqn:O.
    + destruct (C12_normalize_owned_value_stmt csize mask m s1 H1 W O NZ) as (m1 & t1 & E1 & V1 & _).
      destruct (C12_normalize_owned_value_stmt csize mask m s2 H2 W O NZ) as (m2 & t2 & E2 & V2 & _).
      rewrite E1, E2. unfold op_value. cbn [fst snd]. rewrite V1, V2. reflexivity.
    + destruct (C12_normalize_borrowed_stmt csize mask m s1 H1 W O NZ) as (m1 & t1 & E1 & V1 & _).
      destruct (C12_normalize_borrowed_stmt csize mask m s2 H2 W O NZ) as (m2 & t2 & E2 & V2 & _).
      rewrite E1, E2. unfold op_value. cbn [fst snd]. rewrite V1, V2. reflexivity.
Qed.
