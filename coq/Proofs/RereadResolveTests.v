(* C07, resolution and reference creation: the two preservation theorems of Proofs/RereadResolve.v were
   first TESTED by computation over every pair of small objects -- segment lists of length <= 3 over
   {"", ".", "..", "a", "b:c"}, with and without scheme ("s" / "t"), host ("h" / "g") and absolute-path
   flag, filtered by [produced_wfb] -- before they were proved.  The tests are kept: they exercise the
   boolean form of the condition ([produced_wfb_iff]) on about two million calls. *)
From Coq Require Import List NArith Bool.
From UP Require Import Base.Chars Model.Uri Model.Resolve Model.Shorten Proofs.RereadResolve.
Import ListNotations.
Local Open Scope N_scope.

Definition atoms : list text := [[]; [46]; [46; 46]; [97]; [98; 58; 99]].
Fixpoint seglists (n : nat) : list (list text) :=
  match n with
  | O => [[]]
  | S k => [] :: flat_map (fun l => map (fun a => a :: l) atoms) (seglists k)
  end.
Definition small_paths : list (list text) := nodup (list_eq_dec (list_eq_dec N.eq_dec)) (seglists 3).

Definition mk (sc ho : option text) (ab : bool) (p : list text) : uri :=
  mkUri sc None ho None None None None p None None ab false.
Definition objs (scs hos : list (option text)) : list uri :=
  filter produced_wfb
    (flat_map (fun sc => flat_map (fun ho => flat_map (fun ab => map (mk sc ho ab) small_paths) [true; false]) hos) scs).

Definition sS : option text := Some [115].
Definition sT : option text := Some [116].
Definition hH : option text := Some [104].
Definition hG : option text := Some [103].

(* a reference with the base's scheme and the compatibility option behaves as one without scheme; with
   another scheme as the same reference without the option *)
Definition rels : list uri := objs [None; sS] [None; hH].
Definition bases : list uri := objs [sS] [None; hH].
Definition srcs : list uri := objs [sS] [None; hH; hG] ++ objs [sT] [None; hH].

Definition add_base_holds (compat : bool) (r b : uri) : bool :=
  let '(rc, d) := add_base compat r b in negb (rc =? URI_SUCCESS) || produced_wfb d.
Definition remove_base_holds (dr : bool) (s b : uri) : bool :=
  let '(rc, d) := remove_base dr s b in negb (rc =? URI_SUCCESS) || produced_wfb d.

Example sizes : (length small_paths, length rels, length bases, length srcs) = (156, 835, 433, 1022)%nat.
Proof. vm_compute. reflexivity. Qed.

Example add_base_small_scope :
  forallb (fun c => forallb (fun r => forallb (add_base_holds c r) bases) rels) [true; false] = true.
Proof. vm_cast_no_check (eq_refl true). Qed.

Example remove_base_small_scope :
  forallb (fun c => forallb (fun s => forallb (remove_base_holds c s) bases) srcs) [true; false] = true.
Proof. vm_cast_no_check (eq_refl true). Qed.
