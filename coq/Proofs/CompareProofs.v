(* Lemmas for C11: what uriEqualsUri (Model/Compare.v) decides.

   Plan.  uriCompareRange looks at a present range only through its length and, because of
   strncmp/wcsncmp, through the characters before its first NUL: [tkey].  So for *all* URI
   values [equals_uri_nn a b = true <-> ukey a = ukey b] where [ukey] collects what the
   comparison can see.  Being the kernel of a function, the relation is an equivalence with no
   hypothesis at all.  For NUL-free texts [tkey] is injective, which turns equality of keys into
   component-wise identity (Spec/Identity.v). *)
From Coq Require Import ZArith Lia List Bool.
From UP Require Import Base.Chars Model.Uri Model.Common Model.Compare Model.Recompose Spec.Identity.
Import ListNotations.
Local Open Scope N_scope.

(* ------------------------------------------------------------------ texts and ranges *)

Definition tkey (t : text) : nat * text := (length t, until_nul t).
Definition rkey (o : option text) : option (nat * text) := option_map tkey o.

Lemma strncmp_zero_iff x : forall y, length x = length y ->
  (strncmp x y = 0%Z <-> until_nul x = until_nul y).
Proof.
  induction x as [|c x IH]; intros [|d y] L; cbn [length] in L; try discriminate L.
  - cbn. tauto.
  - cbn [strncmp until_nul]. injection L as L.
    destruct (c =? d) eqn:E.
    + apply N.eqb_eq in E. subst d. destruct (c =? 0) eqn:C0.
      * tauto.
      * rewrite (IH y L). split; [intros ->; reflexivity | intros H; injection H; auto].
    + apply N.eqb_neq in E. split.
      * destruct (c <? d); intros H; discriminate H.
      * destruct (c =? 0) eqn:C0, (d =? 0) eqn:D0; intros H; try discriminate H.
        -- apply N.eqb_eq in C0, D0. congruence.
        -- injection H as H _. congruence.
Qed.

Lemma compare_range_some_zero x y :
  compare_range (Some x) (Some y) = 0%Z <-> length x = length y /\ strncmp x y = 0%Z.
Proof.
  unfold compare_range. cbv zeta.
  destruct (Z.ltb_spec 0 (Z.of_nat (length x) - Z.of_nat (length y))) as [H1|H1].
  - split; [intros H; discriminate H | intros [H _]; lia].
  - destruct (Z.ltb_spec (Z.of_nat (length x) - Z.of_nat (length y)) 0) as [H2|H2].
    + split; [intros H; discriminate H | intros [H _]; lia].
    + split; [intros H; split; [lia | exact H] | intros [_ H]; exact H].
Qed.

Lemma range_eqb_key a b : range_eqb a b = true <-> rkey a = rkey b.
Proof.
  unfold range_eqb. rewrite Z.eqb_eq. destruct a as [x|], b as [y|]; cbn [rkey option_map].
  - rewrite compare_range_some_zero. unfold tkey. split.
    + intros [L S]. apply (strncmp_zero_iff x y L) in S. congruence.
    + intros H. injection H as L U. split; [exact L|]. apply strncmp_zero_iff; assumption.
  - cbn. split; intros H; discriminate H.
  - cbn. split; intros H; discriminate H.
  - cbn. tauto.
Qed.

Lemma range_eqb_refl a : range_eqb a a = true.
Proof. apply range_eqb_key. reflexivity. Qed.

(* absent never equals empty (nor anything present) *)
Lemma range_eqb_absent :
  range_eqb None None = true
  /\ forall x, range_eqb None (Some x) = false /\ range_eqb (Some x) None = false.
Proof. split; [reflexivity | intros x; split; reflexivity]. Qed.

(* NUL-free texts *)
Lemma until_nul_nul_free t : nul_free t -> until_nul t = t.
Proof.
  unfold nul_free. induction t as [|c t IH]; intros H; [reflexivity|].
  cbn [until_nul]. destruct (c =? 0) eqn:E.
  - apply N.eqb_eq in E. subst c. exfalso. apply H. left. reflexivity.
  - f_equal. apply IH. intros I. apply H. right. exact I.
Qed.

Lemma until_nul_full t : length (until_nul t) = length t -> until_nul t = t.
Proof.
  induction t as [|c t IH]; [reflexivity|].
  cbn [until_nul]. destruct (c =? 0).
  - intros H. discriminate H.
  - cbn [length]. intros H. injection H as H. f_equal. apply IH. exact H.
Qed.

(* one NUL-free side is enough *)
Lemma tkey_inj_l x y : nul_free x -> tkey x = tkey y -> x = y.
Proof.
  intros Nx H. unfold tkey in H. injection H as L U.
  rewrite (until_nul_nul_free x Nx) in U.
  assert (length (until_nul y) = length y) as F by (rewrite <- U; exact L).
  rewrite (until_nul_full y F) in U. exact U.
Qed.

Lemma rkey_inj_l a b : opt_nul_free a -> rkey a = rkey b -> a = b.
Proof.
  destruct a as [x|], b as [y|]; cbn [rkey option_map opt_nul_free]; intros Nx H;
    try discriminate H; [|reflexivity].
  f_equal. apply tkey_inj_l; [exact Nx | congruence].
Qed.

Lemma map_tkey_inj_l sa : forall sb, Forall nul_free sa -> map tkey sa = map tkey sb -> sa = sb.
Proof.
  induction sa as [|x sa IH]; intros [|y sb] F H; cbn [map] in H; try discriminate H; [reflexivity|].
  assert (tkey x = tkey y) as H1 by congruence.
  assert (map tkey sa = map tkey sb) as H2 by congruence.
  inversion F as [|? ? Nx F']; subst. f_equal.
  - apply tkey_inj_l; assumption.
  - apply IH; assumption.
Qed.

Lemma range_eqb_some_iff_l x y : nul_free x -> (range_eqb (Some x) (Some y) = true <-> x = y).
Proof.
  intros Nx. rewrite range_eqb_key. cbn [rkey option_map]. split.
  - intros H. apply tkey_inj_l; [exact Nx | congruence].
  - intros ->. reflexivity.
Qed.

Lemma range_eqb_some_iff x y : nul_free x -> nul_free y -> (range_eqb (Some x) (Some y) = true <-> x = y).
Proof. intros Nx _. apply range_eqb_some_iff_l. exact Nx. Qed.

(* the hypothesis is needed: strncmp stops at the NUL *)
Lemma range_eqb_nul_blind : range_eqb (Some [0; 1]) (Some [0; 2]) = true.
Proof. reflexivity. Qed.

(* ------------------------------------------------------------------ bytes and segment lists *)

Lemma bytes_eqb_eq x : forall y, bytes_eqb x y = true <-> x = y.
Proof.
  induction x as [|c x IH]; intros [|d y]; cbn [bytes_eqb].
  - tauto.
  - split; intros H; discriminate H.
  - split; intros H; discriminate H.
  - rewrite andb_true_iff, N.eqb_eq, IH. split.
    + intros [-> ->]. reflexivity.
    + intros H. injection H as -> ->. split; reflexivity.
Qed.

Lemma opt_bytes_iff (x y : option (list N)) :
  Bool.eqb (is_some x) (is_some y) = true
  /\ match x, y with Some p, Some q => bytes_eqb p q | _, _ => true end = true
  <-> x = y.
Proof.
  destruct x as [p|], y as [q|]; cbn [is_some Bool.eqb].
  - rewrite bytes_eqb_eq. split; [intros [_ ->]; reflexivity | intros H; injection H as ->; split; reflexivity].
  - split; [intros [H _]; discriminate H | intros H; discriminate H].
  - split; [intros [H _]; discriminate H | intros H; discriminate H].
  - split; [reflexivity | split; reflexivity].
Qed.

Lemma opt_future_iff (x y : option text) :
  Bool.eqb (is_some x) (is_some y) = true /\ (if is_some x then range_eqb x y else true) = true
  <-> rkey x = rkey y.
Proof.
  destruct x as [p|], y as [q|]; cbn [is_some Bool.eqb].
  - rewrite range_eqb_key. tauto.
  - cbn. split; [intros [H _]; discriminate H | intros H; discriminate H].
  - cbn. split; [intros [H _]; discriminate H | intros H; discriminate H].
  - cbn. tauto.
Qed.

Lemma segs_eqb_key a' : forall x y b',
  segs_eqb (x :: a') (y :: b') = true <-> map tkey (x :: a') = map tkey (y :: b').
Proof.
  induction a' as [|x' a' IH]; intros x y [|y' b']; cbn [segs_eqb];
    rewrite andb_true_iff, range_eqb_key; cbn [rkey option_map map].
  - split; [intros [H _]; congruence | intros H; split; [congruence | reflexivity]].
  - split; [intros [_ H]; discriminate H | intros H; discriminate H].
  - split; [intros [_ H]; discriminate H | intros H; discriminate H].
  - rewrite (IH x' y' b'). cbn [map]. split.
    + intros [H1 H2]. congruence.
    + intros H. split; congruence.
Qed.

Definition path_eqb (sa sb : list text) : bool :=
  match sa, sb with
  | [], [] => true
  | _ :: _, _ :: _ => segs_eqb sa sb
  | _, _ => false
  end.

Lemma path_eqb_key sa sb : path_eqb sa sb = true <-> map tkey sa = map tkey sb.
Proof.
  destruct sa as [|x sa], sb as [|y sb]; unfold path_eqb.
  - cbn. tauto.
  - cbn. split; intros H; discriminate H.
  - cbn. split; intros H; discriminate H.
  - apply segs_eqb_key.
Qed.

(* ------------------------------------------------------------------ the key of a URI *)

(* the host text counts only when there is no IP data *)
Definition hkey (u : uri) : option (option (nat * text)) :=
  if has_ip_data u then None else Some (rkey (hostText u)).

Definition ukey (u : uri) :=
  (rkey (scheme u), absolutePath u, rkey (userInfo u), ip4 u, ip6 u, rkey (ipFuture u), hkey u,
   rkey (portText u), map tkey (pathSegs u), rkey (query u), rkey (fragment u)).

Lemma is_some_rkey (x y : option text) : rkey x = rkey y -> is_some x = is_some y.
Proof. destruct x, y; cbn; intros H; try discriminate H; reflexivity. Qed.

Lemma no_ip_test u :
  negb (is_some (ip4 u)) && negb (is_some (ip6 u)) && negb (is_some (ipFuture u)) = negb (has_ip_data u).
Proof. unfold has_ip_data. destruct (is_some (ip4 u)), (is_some (ip6 u)), (is_some (ipFuture u)); reflexivity. Qed.

Lemma has_ip_data_key a b :
  ip4 a = ip4 b -> ip6 a = ip6 b -> rkey (ipFuture a) = rkey (ipFuture b) -> has_ip_data a = has_ip_data b.
Proof. intros E4 E6 EF. unfold has_ip_data. rewrite E4, E6, (is_some_rkey _ _ EF). reflexivity. Qed.

Theorem equals_uri_nn_key a b : equals_uri_nn a b = true <-> ukey a = ukey b.
Proof.
  unfold equals_uri_nn.
  change (match pathSegs a with
          | [] => match pathSegs b with [] => true | _ :: _ => false end
          | _ :: _ => match pathSegs b with [] => false | _ :: _ => segs_eqb (pathSegs a) (pathSegs b) end
          end) with (path_eqb (pathSegs a) (pathSegs b)).
  rewrite no_ip_test. rewrite !andb_true_iff. split.
  - intros [[[[[[[[[[[[[Hs Ha] Hu] S4] S6] SF] B4] B6] BF] HH] Hp] Hpath] Hq] Hf].
    apply range_eqb_key in Hs, Hu, Hp, Hq, Hf. apply Bool.eqb_prop in Ha.
    apply path_eqb_key in Hpath.
    assert (ip4 a = ip4 b) as E4 by (apply opt_bytes_iff; split; assumption).
    assert (ip6 a = ip6 b) as E6 by (apply opt_bytes_iff; split; assumption).
    assert (rkey (ipFuture a) = rkey (ipFuture b)) as EF by (apply opt_future_iff; split; assumption).
    assert (hkey a = hkey b) as EH.
    { unfold hkey. rewrite <- (has_ip_data_key a b E4 E6 EF).
      destruct (has_ip_data a); [reflexivity|]. cbn [negb] in HH.
      apply range_eqb_key in HH. congruence. }
    unfold ukey. rewrite Hs, Ha, Hu, E4, E6, EF, EH, Hp, Hpath, Hq, Hf. reflexivity.
  - intros K. unfold ukey in K.
    injection K as Hs Ha Hu E4 E6 EF EH Hp Hpath Hq Hf.
    apply opt_bytes_iff in E4, E6. apply opt_future_iff in EF.
    destruct E4 as [S4 B4], E6 as [S6 B6], EF as [SF BF].
    repeat split; try assumption; try (apply range_eqb_key; assumption).
    + rewrite Ha. apply Bool.eqb_reflx.
    + unfold hkey in EH. destruct (has_ip_data a); [reflexivity|]. cbn [negb].
      destruct (has_ip_data b); [discriminate EH|]. injection EH as EH.
      apply range_eqb_key. exact EH.
    + apply path_eqb_key. exact Hpath.
Qed.

Definition okey (o : option uri) := option_map ukey o.

Theorem equals_uri_key a b : equals_uri a b = true <-> okey a = okey b.
Proof.
  destruct a as [x|], b as [y|]; cbn [equals_uri okey option_map].
  - rewrite equals_uri_nn_key. split; [intros ->; reflexivity | intros H; congruence].
  - split; intros H; discriminate H.
  - split; intros H; discriminate H.
  - tauto.
Qed.

(* ------------------------------------------------------------------ NULL arguments *)

Lemma equals_uri_null :
  equals_uri None None = true
  /\ forall a, equals_uri None (Some a) = false /\ equals_uri (Some a) None = false.
Proof. split; [reflexivity | intros a; split; reflexivity]. Qed.

(* ------------------------------------------------------------------ equivalence relation,
   for all arguments (NULL included, NUL-free or not) *)

Lemma equals_uri_refl a : equals_uri a a = true.
Proof. apply equals_uri_key. reflexivity. Qed.

Lemma equals_uri_sym a b : equals_uri a b = equals_uri b a.
Proof.
  destruct (equals_uri a b) eqn:E1, (equals_uri b a) eqn:E2; try reflexivity.
  - apply equals_uri_key in E1. symmetry in E1. apply equals_uri_key in E1. congruence.
  - apply equals_uri_key in E2. symmetry in E2. apply equals_uri_key in E2. congruence.
Qed.

Lemma equals_uri_trans a b c : equals_uri a b = true -> equals_uri b c = true -> equals_uri a c = true.
Proof. rewrite !equals_uri_key. intros -> ->. reflexivity. Qed.

(* ------------------------------------------------------------------ component-wise identity *)

Lemma has_ip_data_identical a b : components_identical a b -> has_ip_data a = has_ip_data b.
Proof. intros [? ? E4 E6 EF ? ? ? ? ? ?]. unfold has_ip_data. rewrite E4, E6, EF. reflexivity. Qed.

Lemma components_identical_refl a : components_identical a a.
Proof. constructor; reflexivity. Qed.

Lemma components_identical_sym a b : components_identical a b -> components_identical b a.
Proof.
  intros H. pose proof (has_ip_data_identical a b H) as I. destruct H as [H1 H2 H3 H4 H5 H6 H7 H8 H9 H10 H11].
  constructor; try (symmetry; assumption).
  intros Ib Ia. symmetry. apply H6; assumption.
Qed.

Lemma components_identical_trans a b c :
  components_identical a b -> components_identical b c -> components_identical a c.
Proof.
  intros H K. pose proof (has_ip_data_identical a b H) as I.
  destruct H as [H1 H2 H3 H4 H5 H6 H7 H8 H9 H10 H11], K as [K1 K2 K3 K4 K5 K6 K7 K8 K9 K10 K11].
  constructor; try (etransitivity; eassumption).
  intros Ia Ic. rewrite Ia in I. symmetry in I.
  transitivity (hostText b); [apply H6 | apply K6]; assumption.
Qed.

(* identical components compare equal: no hypothesis *)
Lemma identical_ukey a b : components_identical a b -> ukey a = ukey b.
Proof.
  intros H. pose proof (has_ip_data_identical a b H) as I.
  destruct H as [H1 H2 H3 H4 H5 H6 H7 H8 H9 H10 H11].
  assert (hkey a = hkey b) as EH.
  { unfold hkey. rewrite <- I. destruct (has_ip_data a) eqn:Ia; [reflexivity|].
    rewrite H6; [reflexivity | reflexivity | symmetry; exact I]. }
  unfold ukey. rewrite H1, H2, H3, H4, H5, EH, H7, H8, H9, H10, H11. reflexivity.
Qed.

Lemma identical_equals a b : components_identical a b -> equals_uri (Some a) (Some b) = true.
Proof. intros H. apply equals_uri_key. cbn [okey option_map]. f_equal. apply identical_ukey. exact H. Qed.

(* equal keys are identical components when one side is NUL-free *)
Lemma ukey_identical_l a b : uri_nul_free a -> ukey a = ukey b -> components_identical a b.
Proof.
  intros (Ns & Nu & Nh & NF & Np & Npath & Nq & Nf) K. unfold ukey in K.
  injection K as Hs Ha Hu E4 E6 EF EH Hp Hpath Hq Hf.
  constructor; try assumption; try (apply rkey_inj_l; assumption).
  - intros Ia Ib. unfold hkey in EH. rewrite Ia, Ib in EH. injection EH as EH.
    apply rkey_inj_l; assumption.
  - apply map_tkey_inj_l; assumption.
Qed.

Theorem equal_iff_identical_l a b : uri_nul_free a ->
  (equals_uri (Some a) (Some b) = true <-> components_identical a b).
Proof.
  intros Na. split.
  - intros E. cbn [equals_uri] in E. apply equals_uri_nn_key in E.
    apply ukey_identical_l; assumption.
  - apply identical_equals.
Qed.

Theorem equal_iff_identical_either a b : uri_nul_free a \/ uri_nul_free b ->
  (equals_uri (Some a) (Some b) = true <-> components_identical a b).
Proof.
  intros [Na|Nb]; [apply equal_iff_identical_l; exact Na|].
  rewrite equals_uri_sym, (equal_iff_identical_l b a Nb).
  split; apply components_identical_sym.
Qed.

Theorem equal_iff_identical a b : uri_nul_free a -> uri_nul_free b ->
  (equals_uri (Some a) (Some b) = true <-> components_identical a b).
Proof. intros Na _. apply equal_iff_identical_l. exact Na. Qed.

(* ------------------------------------------------------------------ recomposed text *)

Lemma is_host_set_identical a b : components_identical a b -> is_host_set a = is_host_set b.
Proof.
  intros H. pose proof (has_ip_data_identical a b H) as I.
  destruct H as [H1 H2 H3 H4 H5 H6 H7 H8 H9 H10 H11].
  unfold is_host_set. unfold has_ip_data in *. rewrite <- H3, <- H4, <- H5 in *.
  destruct (is_some (ip4 a)); [rewrite !orb_true_r; reflexivity|].
  destruct (is_some (ip6 a)); [rewrite !orb_true_r; reflexivity|].
  destruct (is_some (ipFuture a)); [rewrite !orb_true_r; reflexivity|].
  rewrite H6; reflexivity.
Qed.

(* no hypothesis: an IP host is printed from its data, not from the host text *)
Theorem identical_to_text a b : components_identical a b -> to_text a = to_text b.
Proof.
  intros H. pose proof (is_host_set_identical a b H) as S.
  destruct H as [H1 H2 H3 H4 H5 H6 H7 H8 H9 H10 H11].
  unfold to_text, pieces. rewrite <- S, <- H1, <- H2, <- H3, <- H4, <- H5, <- H7, <- H8, <- H9, <- H10, <- H11.
  unfold has_ip_data in H6. rewrite <- H3, <- H4, <- H5 in H6.
  destruct (ip4 a); [reflexivity|]. destruct (ip6 a); [reflexivity|]. destruct (ipFuture a); [reflexivity|].
  rewrite <- H6; reflexivity.
Qed.

(* equal => same text (for NUL-free URIs) *)
Corollary equal_to_text a b : uri_nul_free a -> uri_nul_free b ->
  equals_uri (Some a) (Some b) = true -> to_text a = to_text b.
Proof. intros Na Nb E. apply identical_to_text. apply (equal_iff_identical a b Na Nb). exact E. Qed.

(* ------------------------------------------------------------------ deciding the hypothesis
   (used by the Examples of Props/C11.v) *)

Definition nul_freeb (t : text) : bool := forallb (fun c => negb (c =? 0)) t.
Definition opt_nul_freeb (o : option text) : bool := match o with Some t => nul_freeb t | None => true end.
Definition uri_nul_freeb (u : uri) : bool :=
  opt_nul_freeb (scheme u) && opt_nul_freeb (userInfo u) && opt_nul_freeb (hostText u)
  && opt_nul_freeb (ipFuture u) && opt_nul_freeb (portText u) && forallb nul_freeb (pathSegs u)
  && opt_nul_freeb (query u) && opt_nul_freeb (fragment u).

Lemma nul_freeb_sound t : nul_freeb t = true -> nul_free t.
Proof.
  unfold nul_freeb, nul_free. rewrite forallb_forall. intros H I.
  specialize (H 0 I). discriminate H.
Qed.

Lemma opt_nul_freeb_sound o : opt_nul_freeb o = true -> opt_nul_free o.
Proof. destruct o as [t|]; cbn; [apply nul_freeb_sound | trivial]. Qed.

Lemma uri_nul_freeb_sound u : uri_nul_freeb u = true -> uri_nul_free u.
Proof.
  unfold uri_nul_freeb, uri_nul_free. rewrite !andb_true_iff.
  intros [[[[[[[H1 H2] H3] H4] H5] H6] H7] H8].
  repeat split; try (apply opt_nul_freeb_sound; assumption).
  apply Forall_forall. intros t I. apply nul_freeb_sound.
  rewrite forallb_forall in H6. apply H6. exact I.
Qed.
