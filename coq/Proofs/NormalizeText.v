(* C08, from the object to the text: the five components (as texts) of [normalize 63 u], and the text
   uriToString writes for it, are the specification's normal form (Spec/Normal.v: five_normal,
   guard_normal, normal_text) of the five components / of the text of [u], for URIs that are not
   relative-path references.

     1. rds_link_holds, path_link_closed   the hypothesis of Proofs/NormalizeLink.v discharged from
                                           Proofs/DotSegments.v (rds_walk_rfc)
     2. scheme_link, query_link, fragment_link, auth_link
     3. normalize_text_is_spec, normalize_to_text_is_spec, parsed_meets_hyps
     4. parsed_five_of_text, parsed_normal_five, parsed_normal_text, parsed_normal_text_canon *)
From Coq Require Import List NArith Bool Lia ZifyBool ZifyN Arith.
From UP Require Import Base.Chars Base.Regex Model.Uri Model.Common Model.Normalize Model.Recompose Model.Ip4 Model.Parse
  Spec.NormalWf Spec.Split Spec.Unparse Proofs.NormalizeProofs Proofs.NormalizeLink Proofs.DotSegments
  Proofs.ParseData Proofs.ParseWfStep Proofs.ParseWf Proofs.ParseSplit.
From UP Require Spec.Normal Spec.Resolve Spec.Rfc3986 Spec.Recompose Proofs.ResolveProofs Proofs.Ip4Proofs Proofs.Ip6Proofs
  Proofs.ParseRecompose Proofs.ParseAssemble.
Import ListNotations.
Local Open Scope N_scope.

(* ================================================================ 1. the dot-segment link *)
Lemma no_slash_noslash s : no_slash s -> noslash s = true.
Proof.
  unfold no_slash, noslash. intros H. apply forallb_forall. intros c Hc. rewrite Forall_forall in H.
  apply negb_true_iff. apply N.eqb_neq. exact (H c Hc).
Qed.

Lemma noslash_no_slash s : noslash s = true -> no_slash s.
Proof.
  unfold no_slash, noslash. intros H. apply Forall_forall. intros c Hc. rewrite forallb_forall in H.
  specialize (H c Hc). apply negb_true_iff in H. apply N.eqb_neq in H. exact H.
Qed.

Lemma Forall_no_slash_noslash segs : Forall no_slash segs -> forallb noslash segs = true.
Proof.
  intros H. apply forallb_forall. intros s Hs. rewrite Forall_forall in H. apply no_slash_noslash. exact (H s Hs).
Qed.

Lemma forallb_noslash_no_slash segs : forallb noslash segs = true -> Forall no_slash segs.
Proof.
  intros H. apply Forall_forall. intros s Hs. rewrite forallb_forall in H. apply noslash_no_slash. exact (H s Hs).
Qed.

Lemma join_text_slash segs : join_text segs = Normal.join_slash segs.
Proof. apply path_pieces_join. Qed.

Lemma rooted_text_join w : rooted_text w = 47 :: Normal.join_slash w.
Proof.
  destruct w as [|s r]; [reflexivity|]. unfold rooted_text.
  rewrite <- (join_rooted (s :: r)) by discriminate. rewrite join_text_slash. reflexivity.
Qed.

Lemma rds_link_holds : rds_link.
Proof.
  intros host abs segs Hne Hns.
  rewrite <- rooted_text_join.
  rewrite (rds_walk_rfc host abs segs Hne (Forall_no_slash_noslash segs Hns)).
  rewrite <- (join_rooted segs Hne). rewrite join_text_slash. reflexivity.
Qed.

(* [path_link] of Proofs/NormalizeLink.v without its hypothesis *)
Lemma path_link_closed u :
  forallb pct_wf (pathSegs u) = true -> Forall no_slash (pathSegs u) -> rootless_ok u ->
  (is_host_set u = true -> absolutePath u = false) ->
  relative_ref u = false ->
  path_text (normalize 63 u)
  = Normal.guard_path (Normal.is_rootless (path_text u)) (is_host_set u)
      (Normal.path_normal (is_some (scheme u)) (is_host_set u) (path_text u)).
Proof. exact (path_link rds_link_holds u). Qed.

(* ================================================================ 2. the other components *)
Module RP := ResolveProofs.

Lemma scheme_link u : scheme (normalize 63 u) = omap (map Normal.lower) (scheme u).
Proof.
  rewrite (normalize_fields 63 u ltac:(discriminate)). cbn [scheme]. change (bit 63 M_SCHEME) with true. cbv iota.
  destruct (scheme u) as [t|]; [|reflexivity]. cbn [omap]. rewrite lowercase_is_map_lower. reflexivity.
Qed.

Lemma query_link u : opt_pct_wf (query u) = true ->
  query (normalize 63 u) = omap (Normal.pct_norm false) (query u).
Proof.
  intros H. rewrite (normalize_fields 63 u ltac:(discriminate)). cbn [query]. change (bit 63 M_QUERY) with true. cbv iota.
  destruct (query u) as [t|]; [|reflexivity]. cbn [omap]. rewrite (fix_pct_spec t H). reflexivity.
Qed.

Lemma fragment_link u : opt_pct_wf (fragment u) = true ->
  fragment (normalize 63 u) = omap (Normal.pct_norm false) (fragment u).
Proof.
  intros H. rewrite (normalize_fields 63 u ltac:(discriminate)). cbn [fragment]. change (bit 63 M_FRAGMENT) with true.
  cbv iota. destruct (fragment u) as [t|]; [|reflexivity]. cbn [omap]. rewrite (fix_pct_spec t H). reflexivity.
Qed.

(* ---- the authority ---- *)
(* no character of the text is one of [stops] (the boolean of Proofs/ParseSplit.v [avoid]) *)
Definition avoidb (stops : list N) (t : text) : bool := forallb (fun c => negb (mem c stops)) t.
Definition opt_avoidb (stops : list N) (o : option text) : bool :=
  match o with Some t => avoidb stops t | None => true end.
(* digits and dots *)
Definition is_ip4_text (h : text) : bool := forallb (fun c => is_digit c || (c =? 46)) h.

(* What the authority text of a URI object must look like for [Spec.Split.split_authority] to find the
   object's own user info, host and port in it again, and for the host kinds to be the ones the text shows:
     - a host is set only together with a host text (uriIsHostSet looks at the address data as well);
     - no "@" in user info, host and port;
     - registered name: no ":" and no "[" in the host text;
     - IPv4: the host text consists of digits and dots (it is left alone by uriNormalizeSyntax);
     - IPv6 literal: no "]" in the host text, which does not begin with "v" / "V";
     - IPvFuture literal: no "]" in the host text, which begins with "v" / "V" and is the ipFuture range;
     - exactly one host kind.
   Every parsed object satisfies this (parsed_auth_wfb below). *)
Definition auth_wfb (u : uri) : bool :=
  match hostText u with
  | None => negb (is_host_set u)
  | Some h =>
    opt_avoidb [64] (userInfo u) && avoidb [64] h && opt_avoidb [64] (portText u)
    && match ip4 u, ip6 u, ipFuture u with
       | None, None, None => avoidb [58] h && avoidb [91] h
       | Some _, None, None => is_ip4_text h
       | None, Some _, None => avoidb [93] h && negb (v_start h)
       | None, None, Some f => avoidb [93] h && Resolve.text_eqb f h && v_start h
       | _, _, _ => false
       end
  end.

Lemma avoidb_notin k t : avoidb [k] t = true -> ~ In k t.
Proof. intros H. apply (avoid_notin [k] t k H). cbn [mem]. rewrite N.eqb_refl. reflexivity. Qed.

Lemma auth_normal_parts ui h (lit : bool) po :
  opt_avoidb [64] ui = true -> avoidb [64] h = true -> opt_avoidb [64] po = true ->
  (if lit then avoidb [93] h = true else avoidb [58] h = true /\ avoidb [91] h = true) ->
  Normal.auth_normal (opt_post ui [64] ++ (if lit then [91] ++ h ++ [93] else h) ++ opt_pre [58] po)
  = (match ui with Some u => Normal.pct_norm false u ++ [64] | None => [] end)
    ++ (if lit then 91 :: (if v_start h then map Normal.lower h else h) ++ [93] else Normal.pct_norm true h)
    ++ (match po with Some p => 58 :: p | None => [] end).
Proof.
  intros Hui Hh Hpo Hl. unfold Normal.auth_normal.
  rewrite (split_authority_parts ui h lit po).
  - destruct lit; [|reflexivity]. f_equal. f_equal. unfold v_start. destruct h as [|c r]; [reflexivity|].
    cbn [head_is]. reflexivity.
  - destruct ui; [exact Hui|exact I].
  - apply avoidb_notin. exact Hh.
  - destruct po as [p|]; [|exact I]. cbn [opt_ok]. apply avoidb_notin. exact Hpo.
  - destruct lit; exact Hl.
Qed.

Lemma is_ip4_text_avoid k h : is_digit k = false -> k <> 46 -> is_ip4_text h = true -> avoidb [k] h = true.
Proof.
  intros Hk Hd. unfold is_ip4_text, avoidb. apply forallb_mono. intros c Hc. cbn [mem]. rewrite orb_false_r.
  apply negb_true_iff. apply N.eqb_neq. intros E. subst c. rewrite Hk in Hc. cbn [orb] in Hc.
  apply N.eqb_eq in Hc. contradiction.
Qed.

(* a dotted quad has neither upper-case letters nor percent-encodings *)
Lemma pct_norm_ip4_text h : is_ip4_text h = true -> Normal.pct_norm true h = h.
Proof.
  induction h as [|c r IH]; intros H; [reflexivity|].
  unfold is_ip4_text in H. cbn [forallb] in H. apply andb_prop in H. destruct H as [Hc Hr].
  assert (c <> 37) as H37 by (clear - Hc; arith).
  rewrite (pct_norm_other true c r H37). rewrite (IH Hr). f_equal. clear - Hc. arith.
Qed.

Lemma text_eqb_eq a b : Resolve.text_eqb a b = true -> a = b.
Proof. apply text_eqb_true. Qed.

Lemma auth_link u : uri_pct_wf u = true -> auth_wfb u = true ->
  RP.auth_text (normalize 63 u) = omap Normal.auth_normal (RP.auth_text u).
Proof.
  intros Hwf Ha. rewrite (normalize_full_fields u Hwf).
  assert (opt_pct_wf (userInfo u) = true) as _ by (unfold uri_pct_wf in Hwf; repeat (apply andb_prop in Hwf; destruct Hwf as [Hwf ?]); exact Hwf).
  destruct u as [sc ui ht i4 i6 ifu po ps qu fr ab ow].
  unfold auth_wfb in Ha. unfold RP.auth_text, RP.host_written, is_host_set, is_regname.
  cbn [scheme userInfo hostText ip4 ip6 ipFuture portText pathSegs query fragment absolutePath owner] in Ha |- *.
  destruct ht as [h|].
  2:{ unfold is_host_set in Ha. cbn [hostText ip4 ip6 ipFuture] in Ha.
      destruct i4, i6, ifu; try discriminate Ha. reflexivity. }
  apply andb_prop in Ha. destruct Ha as [Ha Hk]. apply andb_prop in Ha. destruct Ha as [Ha Hpo].
  apply andb_prop in Ha. destruct Ha as [Hui Hh].
  assert (forall (lit : bool) (x : text),
    (match ui with Some i => i ++ [64] | None => [] end) ++ (if lit then [91] ++ x ++ [93] else x)
      ++ (match po with Some p => 58 :: p | None => [] end)
    = opt_post ui [64] ++ (if lit then [91] ++ x ++ [93] else x) ++ opt_pre [58] po) as Eform
    by (intros; destruct ui, po; reflexivity).
  destruct i4 as [o|], i6 as [b|], ifu as [f|]; try discriminate Hk.
  - (* IPv4 *)
    cbn [is_some orb negb andb omap].
    rewrite (Eform false h). rewrite (auth_normal_parts ui h false po Hui Hh Hpo).
    + rewrite (pct_norm_ip4_text h Hk). destruct ui; reflexivity.
    + split; apply is_ip4_text_avoid; try exact Hk; try reflexivity; discriminate.
  - (* IPv6 literal: the host text is left alone *)
    apply andb_prop in Hk. destruct Hk as [H93 Hv]. apply negb_true_iff in Hv.
    cbn [is_some orb negb andb omap].
    rewrite (Eform true h). rewrite (auth_normal_parts ui h true po Hui Hh Hpo H93). rewrite Hv.
    destruct ui; reflexivity.
  - (* IPvFuture literal: lower case *)
    apply andb_prop in Hk. destruct Hk as [Hk Hv]. apply andb_prop in Hk. destruct Hk as [H93 Ef].
    apply text_eqb_eq in Ef. subst f.
    cbn [is_some orb negb andb omap].
    rewrite (Eform true h). rewrite (auth_normal_parts ui h true po Hui Hh Hpo H93). rewrite Hv.
    destruct ui; reflexivity.
  - (* registered name *)
    apply andb_prop in Hk. destruct Hk as [H58 H91].
    cbn [is_some orb negb andb omap].
    rewrite (Eform false h). rewrite (auth_normal_parts ui h false po Hui Hh Hpo (conj H58 H91)).
    destruct ui; reflexivity.
Qed.

(* ================================================================ 3. the five components, and the text *)
Lemma rp_path_text u : RP.path_text u = path_text u.
Proof. unfold RP.path_text, path_text_of, path_text. rewrite join_text_slash. reflexivity. Qed.

Lemma is_some_t_some (o : option text) : Resolve.is_some_t o = is_some o.
Proof. destruct o; reflexivity. Qed.

Lemma auth_text_is_some u : Resolve.is_some_t (RP.auth_text u) = is_host_set u.
Proof. unfold RP.auth_text. destruct (is_host_set u); reflexivity. Qed.

(* The hypotheses of the theorem, as one boolean; every parsed object meets them (parsed_meets_hyps):
     uri_pct_wf u   every "%" of user info, registered name, path segments, query and fragment starts a
                    triplet "%" HEXDIG HEXDIG                                         (Spec/NormalWf.v)
     RP.wf u        no "/" inside a segment; with a host the absolutePath flag is off; a host-less path
                    neither prints as "//..." nor (rootless) begins with an empty segment; no NUL in
                    the scheme                                                  (Proofs/ResolveProofs.v)
     auth_wfb u     the authority text splits into the object's own user info, host and port *)
Definition text_hyps (u : uri) : bool := uri_pct_wf u && RP.wf u && auth_wfb u.

Theorem normalize_text_is_spec u : text_hyps u = true -> relative_ref u = false ->
  RP.five_of_uri (normalize 63 u)
  = Normal.guard_normal (RP.five_of_uri u) (Normal.five_normal (RP.five_of_uri u)).
Proof.
  intros H Hrel. unfold text_hyps in H. apply andb_prop in H. destruct H as [H Ha].
  apply andb_prop in H. destruct H as [Hp Hw].
  pose proof Hp as Hp'. unfold uri_pct_wf in Hp'.
  apply andb_prop in Hp'. destruct Hp' as [Hp' Hfr]. apply andb_prop in Hp'. destruct Hp' as [Hp' Hqu].
  apply andb_prop in Hp'. destruct Hp' as [_ Hps].
  assert (RP.path_text (normalize 63 u)
          = Normal.guard_path (Normal.is_rootless (RP.path_text u))
              (Resolve.is_some_t (omap Normal.auth_normal (RP.auth_text u)))
              (Normal.path_normal (Resolve.is_some_t (scheme u)) (Resolve.is_some_t (RP.auth_text u))
                 (RP.path_text u))) as Epath.
  { rewrite !rp_path_text.
    assert (Resolve.is_some_t (omap Normal.auth_normal (RP.auth_text u)) = is_host_set u) as E1
      by (rewrite <- auth_text_is_some; destruct (RP.auth_text u); reflexivity).
    rewrite E1, is_some_t_some, auth_text_is_some.
    apply path_link_closed.
    - exact Hps.
    - apply forallb_noslash_no_slash. exact (RP.wf_noslash u Hw).
    - intros Hab Hh. pose proof (RP.wf_rootless_first u Hw Hh Hab) as Hf. unfold RP.first_nonempty in Hf.
      destruct (pathSegs u) as [|[|c s] r]; [exact I|discriminate Hf|exact I].
    - exact (RP.wf_host_abs u Hw).
    - exact Hrel. }
  unfold RP.five_of_uri at 1.
  rewrite scheme_link, (auth_link u Hp Ha), Epath, (query_link u Hqu), (fragment_link u Hfr).
  reflexivity.
Qed.

(* ---- the text uriToString writes ---- *)
(* the octets of an IPv4 host print as the host text (uriToString prints the octets, not the text) *)
Definition ip4_rendered (u : uri) : bool :=
  match ip4 u with
  | Some o => Resolve.text_eqb (concat (ip4_pieces o 0)) (match hostText u with Some t => t | None => [] end)
  | None => true
  end.

(* the pieces uriToString copies for the host *)
Definition host_pieces (u : uri) : list text :=
  match ip4 u, ip6 u, ipFuture u, hostText u with
  | Some o, _, _, _ => ip4_pieces o 0
  | None, Some b, _, _ => [[91]] ++ ip6_byte_pieces b 0 ++ [[93]]
  | None, None, Some t, _ => [[91]; t; [93]]
  | None, None, None, Some t => [t]
  | None, None, None, None => []
  end.

(* uriToString's text is the RFC 5.3 recomposition of the five components whenever the host is printed as
   [host_written] gives it *)
Lemma to_text_recompose_host u : concat (host_pieces u) = RP.host_written u ->
  to_text u = Resolve.recompose (RP.five_of_uri u).
Proof.
  intros Hh. unfold to_text, pieces, Resolve.recompose, RP.five_of_uri, RP.auth_text, RP.path_text, path_text_of.
  cbn [Resolve.f_scheme Resolve.f_auth Resolve.f_path Resolve.f_query Resolve.f_frag].
  fold (host_pieces u). rewrite <- Hh.
  rewrite !concat_app. rewrite !RP.concat_opt_pieces. cbn [concat app].
  f_equal.
  assert (forall (o : option text) c, match o with Some t => c :: t ++ [] | None => [] end
                                      = match o with Some t => c :: t | None => [] end) as Etail
    by (intros o c; destruct o; rewrite ?app_nil_r; reflexivity).
  rewrite !Etail. rewrite <- !app_assoc.
  f_equal.
  { destruct (is_host_set u); [|reflexivity]. cbn [concat]. f_equal.
    rewrite !concat_app. rewrite !RP.concat_opt_pieces. cbn [concat app]. rewrite Etail.
    reflexivity. }
  f_equal.
  destruct (absolutePath u || negb match pathSegs u with [] => true | _ :: _ => false end && is_host_set u); reflexivity.
Qed.

(* the bytes of an IPv6 host print as the host text: the literal is in the full eight-group lower-case
   form uriToString writes (for any other literal uriToString's text differs from the text parsed, and
   the specification's normal form keeps the literal as written) *)
Definition ip6_rendered (u : uri) : bool :=
  match ip6 u with
  | Some b => Resolve.text_eqb (concat (ip6_byte_pieces b 0)) (match hostText u with Some t => t | None => [] end)
  | None => true
  end.

Lemma ip6_none_rendered u : ip6 u = None -> ip6_rendered u = true.
Proof. unfold ip6_rendered. intros ->. reflexivity. Qed.

Lemma host_pieces_normalized u : uri_pct_wf u = true -> auth_wfb u = true ->
  ip4_rendered u = true -> ip6_rendered u = true ->
  concat (host_pieces (normalize 63 u)) = RP.host_written (normalize 63 u).
Proof.
  intros Hwf Ha H4 H6. rewrite (normalize_full_fields u Hwf).
  destruct u as [sc ui ht i4 i6 ifu po ps qu fr ab ow].
  unfold auth_wfb, ip4_rendered, ip6_rendered in *. unfold host_pieces, RP.host_written, is_regname.
  cbn [scheme userInfo hostText ip4 ip6 ipFuture portText pathSegs query fragment absolutePath owner] in *.
  destruct ht as [h|].
  2:{ unfold is_host_set in Ha. cbn [hostText ip4 ip6 ipFuture] in Ha.
      destruct i4, i6, ifu; try discriminate Ha. reflexivity. }
  apply andb_prop in Ha. destruct Ha as [_ Hk].
  destruct i4 as [o|], i6 as [b|], ifu as [f|]; try discriminate Hk.
  - apply text_eqb_eq in H4. cbn [is_some negb andb omap]. exact H4.
  - apply text_eqb_eq in H6. cbn [is_some negb andb omap]. rewrite !concat_app. cbn [concat app].
    rewrite H6. reflexivity.
  - cbn [omap concat app]. reflexivity.
  - cbn [is_some negb andb omap concat app]. rewrite app_nil_r. reflexivity.
Qed.

(* hosts: registered names, IPv4 addresses whose octets print as the host text, IPvFuture literals, and
   IPv6 literals in uriToString's form *)
Theorem normalize_to_text_is_spec u : text_hyps u = true -> ip4_rendered u = true -> ip6_rendered u = true ->
  relative_ref u = false ->
  to_text (normalize 63 u)
  = Resolve.recompose (Normal.guard_normal (RP.five_of_uri u) (Normal.five_normal (RP.five_of_uri u))).
Proof.
  intros H H4 H6 Hrel. rewrite <- (normalize_text_is_spec u H Hrel).
  apply to_text_recompose_host. unfold text_hyps in H. apply andb_prop in H. destruct H as [H Ha].
  apply andb_prop in H. destruct H as [Hp _]. exact (host_pieces_normalized u Hp Ha H4 H6).
Qed.

(* ---- every parsed object meets the hypotheses ---- *)
Lemma digit_chars_ip4_text st : Ip4Proofs.stack_ok st = true -> is_ip4_text (Ip4Proofs.digit_chars st) = true.
Proof.
  intros H. apply Ip4Proofs.stack_ok_digits in H. unfold is_ip4_text, Ip4Proofs.digit_chars.
  induction H as [|d r Hd _ IH]; [reflexivity|]. cbn [map forallb]. rewrite IH. rewrite andb_true_r.
  clear - Hd. unfold is_digit, in_range. lia.
Qed.

Lemma parse_ip4_is_ip4_text h o : parse_ip4 h = Some o -> is_ip4_text h = true.
Proof.
  intros H. apply Ip4Proofs.parse_ip4_sound in H.
  destruct H as [s1 [s2 [s3 [s4 [H1 [H2 [H3 [H4 [_ Et]]]]]]]]]. subst h.
  unfold Ip4Proofs.quad_text, is_ip4_text.
  repeat (rewrite forallb_app; cbn [forallb]).
  fold (is_ip4_text (Ip4Proofs.digit_chars s1)). fold (is_ip4_text (Ip4Proofs.digit_chars s2)).
  fold (is_ip4_text (Ip4Proofs.digit_chars s3)). fold (is_ip4_text (Ip4Proofs.digit_chars s4)).
  rewrite !digit_chars_ip4_text by assumption. reflexivity.
Qed.

Lemma parsed_auth_wfb u : parsed_wf parse_ip4 ip6_bytes u -> auth_wfb u = true.
Proof.
  intros (Hc & Hf & _ & _). destruct Hc as (_ & Hu & Hh & Hpo & _). destruct Hf as [_ Hf].
  unfold auth_wfb. destruct (hostText u) as [h|] eqn:Eh.
  2:{ destruct Hf as (E4 & E6 & Ef). unfold is_host_set. rewrite Eh, E4, E6, Ef. reflexivity. }
  destruct Hf as [_ Hf].
  assert (opt_avoidb [64] (userInfo u) = true) as Aui.
  { destruct (userInfo u) as [t|]; [|reflexivity]. destruct Hu as [Hu _].
    exact (class_avoid is_userinfo_char [64] t eq_refl Hu). }
  assert (opt_avoidb [64] (portText u) = true) as Apo.
  { destruct (portText u) as [t|]; [|reflexivity]. exact (class_avoid is_digit [64] t eq_refl Hpo). }
  rewrite Aui, Apo. cbn [andb]. rewrite andb_true_r.
  destruct (ip6 u) as [b|] eqn:E6; destruct (ipFuture u) as [f|] eqn:Ef; cbn [is_some] in Hh.
  - contradiction.
  - destruct Hf as (E4 & _ & Hv & _). rewrite E4, Hv.
    rewrite (class_avoid is_ip6_char [64] h eq_refl Hh : avoidb [64] h = true).
    rewrite (class_avoid is_ip6_char [93] h eq_refl Hh : avoidb [93] h = true). reflexivity.
  - destruct Hf as (E4 & Efh & Hv). subst f. rewrite E4, Hv. rewrite text_eqb_refl.
    rewrite (class_avoid is_lit_char [64] h eq_refl Hh : avoidb [64] h = true).
    rewrite (class_avoid is_lit_char [93] h eq_refl Hh : avoidb [93] h = true). reflexivity.
  - destruct Hh as [Hh _].
    rewrite (class_avoid is_regname_char [64] h eq_refl Hh : avoidb [64] h = true). cbn [andb].
    destruct (ip4 u) as [o|] eqn:E4.
    + symmetry in Hf. exact (parse_ip4_is_ip4_text h o Hf).
    + rewrite (class_avoid is_regname_char [58] h eq_refl Hh : avoidb [58] h = true).
      rewrite (class_avoid is_regname_char [91] h eq_refl Hh : avoidb [91] h = true). reflexivity.
Qed.

Lemma parsed_ip4_rendered u : parsed_wf parse_ip4 ip6_bytes u -> ip4_rendered u = true.
Proof.
  intros (_ & Hf & _ & _). destruct Hf as [_ Hf]. unfold ip4_rendered.
  destruct (ip4 u) as [o|] eqn:E4; [|reflexivity].
  destruct (hostText u) as [h|].
  - destruct Hf as [_ Hf]. destruct (ip6 u), (ipFuture u); try contradiction;
      try (discriminate (proj1 Hf)).
    symmetry in Hf. rewrite (Ip4Proofs.parse_ip4_render h o Hf). apply text_eqb_refl.
  - destruct Hf as [Hf _]. discriminate Hf.
Qed.

Lemma parsed_wf_meets_hyps u : parsed_wf parse_ip4 ip6_bytes u -> text_hyps u = true /\ ip4_rendered u = true.
Proof.
  intros H. split; [|exact (parsed_ip4_rendered u H)]. unfold text_hyps.
  rewrite (proj1 (parsed_wf_normalization u H)), (proj1 (parsed_wf_resolution u H)), (parsed_auth_wfb u H).
  reflexivity.
Qed.

Theorem parsed_meets_hyps s u : parse s = POk u -> text_hyps u = true /\ ip4_rendered u = true.
Proof. intros H. exact (parsed_wf_meets_hyps u (parse_wf s u H)). Qed.

(* ================================================================ 4. from the object to the text *)
(* Spec.Resolve.five_of_text (RFC 3986 appendix B) in the stages of Proofs/ParseSplit.v; the only
   difference with Spec.Split.split_spec is the test for a scheme (here: any non-empty prefix in front of
   the first ":" that comes before any "/", "?", "#") *)
Lemma rspan stops s : Resolve.span_until stops s = span_until stops s.
Proof.
  induction s as [|c r IH]; [reflexivity|]. cbn [Resolve.span_until span_until]. rewrite IH. reflexivity.
Qed.

Definition ft_scheme (s : text) : option text * text :=
  let (pfx, rest0) := span_until [58; 47; 63; 35] s in
  match pfx, strip_char 58 rest0 with
  | _ :: _, Some r => (Some pfx, r)
  | _, _ => (None, s)
  end.

Lemma ft_auth rest1 :
  (if Resolve.starts_with [47; 47] rest1
   then let (a, r') := span_until [47; 63; 35] (skipn 2 rest1) in (Some a, r')
   else (None, rest1)) = sp_auth rest1.
Proof.
  unfold sp_auth. destruct rest1 as [|a [|b r]]; cbn [Resolve.starts_with strip_char skipn].
  - reflexivity.
  - rewrite (N.eqb_sym 47 a). destruct (a =? 47); reflexivity.
  - rewrite (N.eqb_sym 47 a), (N.eqb_sym 47 b). destruct (a =? 47); [|reflexivity]. cbn [andb strip_char].
    destruct (b =? 47); reflexivity.
Qed.

Lemma five_of_text_stages s :
  Resolve.five_of_text s =
  let (sch, rest1) := ft_scheme s in
  let (auth, rest2) := sp_auth rest1 in
  let (path, rest3) := span_until [63; 35] rest2 in
  let (qry, rest4) := sp_query rest3 in
  Resolve.mkFive sch auth path qry (strip_char 35 rest4).
Proof.
  unfold Resolve.five_of_text, ft_scheme, sp_query. rewrite !rspan.
  destruct (span_until [58; 47; 63; 35] s) as [pfx rest0].
  assert (forall rest1 sch,
    (let '(auth, rest2) :=
       if Resolve.starts_with [47; 47] rest1
       then let (a, r') := Resolve.span_until [47; 63; 35] (skipn 2 rest1) in (Some a, r')
       else (None, rest1) in
     let (path, rest3) := Resolve.span_until [63; 35] rest2 in
     let '(qry, rest4) :=
       match strip_char 63 rest3 with
       | Some r => let (q, r') := Resolve.span_until [35] r in (Some q, r')
       | None => (None, rest3)
       end in
     Resolve.mkFive sch auth path qry (strip_char 35 rest4))
    = (let (auth, rest2) := sp_auth rest1 in
       let (path, rest3) := span_until [63; 35] rest2 in
       let (qry, rest4) :=
         match strip_char 63 rest3 with
         | Some r => let (q, r') := span_until [35] r in (Some q, r')
         | None => (None, rest3)
         end in
       Resolve.mkFive sch auth path qry (strip_char 35 rest4))) as Hrest.
  { intros rest1 sch. rewrite <- ft_auth. rewrite !rspan.
    destruct (Resolve.starts_with [47; 47] rest1).
    - destruct (span_until [47; 63; 35] (skipn 2 rest1)) as [a r']. rewrite !rspan.
      destruct (span_until [63; 35] r') as [path rest3]. destruct (strip_char 63 rest3) as [r|]; [|reflexivity].
      rewrite rspan. reflexivity.
    - rewrite !rspan. destruct (span_until [63; 35] rest1) as [path rest3].
      destruct (strip_char 63 rest3) as [r|]; [|reflexivity]. rewrite rspan. reflexivity. }
  destruct pfx as [|c pr]; [apply Hrest|]. destruct (strip_char 58 rest0) as [r|]; apply Hrest.
Qed.

Lemma ft_scheme_some sc R : scheme_ok sc -> ft_scheme (sc ++ [58] ++ R) = (Some sc, R).
Proof.
  intros H. unfold ft_scheme. rewrite span_app.
  - cbn [app]. rewrite strip_char_cons. destruct sc as [|c r]; [destruct H|reflexivity].
  - destruct (scheme_ok_class _ H) as [_ Hc]. revert Hc. apply class_avoid. vm_compute. reflexivity.
  - cbn. reflexivity.
Qed.

Lemma ft_scheme_none a r : avoid [58; 47; 63; 35] a -> stops_at [47; 63; 35] r -> ft_scheme (a ++ r) = (None, a ++ r).
Proof.
  intros Ha Hr. unfold ft_scheme. rewrite span_app.
  - rewrite (strip_char_stops 58 [47; 63; 35] r eq_refl Hr). destruct a; reflexivity.
  - exact Ha.
  - destruct r as [|x r]; [exact I|]. cbn [stops_at] in *. cbn [mem] in *. rewrite Hr. apply orb_true_r.
Qed.

Lemma ft_scheme_opt sc R : opt_ok scheme_ok sc ->
  (sc = None -> exists a r, R = a ++ r /\ avoid [58; 47; 63; 35] a /\ stops_at [47; 63; 35] r) ->
  ft_scheme (opt_post sc [58] ++ R) = (sc, R).
Proof.
  intros Hs Hn. destruct sc as [s|]; cbn [opt_post opt_ok] in *.
  - rewrite <- app_assoc. apply ft_scheme_some. exact Hs.
  - cbn [app]. destruct (Hn eq_refl) as (a & r & -> & Ha & Hr). apply ft_scheme_none; assumption.
Qed.

Lemma join_text_unparse ps : join_text ps = join_slash ps.
Proof.
  unfold join_text. induction ps as [|s [|s2 r] IH]; [reflexivity|cbn; apply app_nil_r|].
  change (path_pieces (s :: s2 :: r)) with (s :: [47] :: path_pieces (s2 :: r)).
  change (join_slash (s :: s2 :: r)) with (s ++ [47] ++ join_slash (s2 :: r)).
  cbn [concat]. rewrite IH. reflexivity.
Qed.

(* the five components of the text written back from a well-formed object are the object's *)
Theorem five_unparse u : parsed_wf parse_ip4 ip6_bytes u -> Resolve.five_of_text (unparse u) = RP.five_of_uri u.
Proof.
  intros Hwf. pose proof (wf_is_host_set u (proj1 (proj2 Hwf))) as Hhs. revert Hwf Hhs.
  destruct u as [sc ui ht i4 i6 fu po ps qu fr ab ow].
  unfold parsed_wf, chars_ok, flags_ok, path_ok, auth_ok, unparse, scheme_part, authority_part,
    path_part, host_part, is_lit, RP.five_of_uri, RP.auth_text, RP.host_written, RP.path_text, path_text_of.
  cbn [scheme userInfo hostText ip4 ip6 ipFuture portText pathSegs query fragment absolutePath owner].
  intros ((Hsc & Hui & Hh & Hpo & Hps & Hqu & Hfr) & (How & Hfl) & Hpa & Hau) Hhs.
  rewrite Hhs. cbn [hostText]. clear Hhs.
  subst ow. rewrite five_of_text_stages. rewrite join_text_unparse.
  pose proof (segs_noslash _ Hps) as Hns.
  pose proof (segs_avoid [63; 35] _ eq_refl Hps) as Hps2.
  assert (opt_ok (avoid [35]) qu) as Hq35.
  { revert Hqu. apply opt_ok_impl. intros t [Hc _]. revert Hc. apply class_avoid. reflexivity. }
  destruct (sp_query_qf qu fr Hq35) as [Eq Ef].
  fold (qf_part qu fr).
  destruct ht as [h|]; cbn [is_some].
  - (* with an authority *)
    destruct Hfl as [-> Hfl].
    set (lit := is_some i6 || is_some fu).
    match goal with |- context [([47; 47] ++ ?X) ++ _] => set (A := X) end.
    change (concat (map (fun s : text => 47 :: s) ps)) with (slashed ps).
    assert (opt_post sc [58] ++ ([47; 47] ++ A) ++ slashed ps ++ qf_part qu fr
            = opt_post sc [58] ++ [47; 47] ++ A ++ slashed ps ++ qf_part qu fr) as E0
      by (rewrite <- !app_assoc; reflexivity).
    rewrite E0. clear E0.
    rewrite ft_scheme_opt; [|exact Hsc|].
    2:{ intros _. exists [], ([47; 47] ++ A ++ slashed ps ++ qf_part qu fr). repeat split; reflexivity. }
    cbv beta iota.
    assert (opt_ok (avoid [47; 63; 35; 64]) ui) as Hui'.
    { revert Hui. apply opt_ok_impl. intros t [Hc _]. revert Hc. apply class_avoid. reflexivity. }
    assert (opt_ok (avoid [47; 63; 35; 64]) po) as Hpo'.
    { revert Hpo. apply opt_ok_impl. intros t Hc. revert Hc. apply class_avoid. reflexivity. }
    assert (avoid [47; 63; 35; 64] h) as Hh'.
    { unfold lit. destruct (is_some i6); cbn [orb].
      - revert Hh; apply class_avoid; reflexivity.
      - destruct (is_some fu).
        + revert Hh; apply class_avoid; reflexivity.
        + destruct Hh as [Hh _]. revert Hh; apply class_avoid; reflexivity. }
    assert (forall t, avoid [47; 63; 35; 64] t -> avoid [47; 63; 35] t) as Hsub.
    { intros t. apply avoid_sub. intros c. cbn [mem]. intros H. rewrite !orb_true_iff in *. tauto. }
    assert (avoid [47; 63; 35] A) as HA.
    { unfold A. apply avoid_app; [apply avoid_opt_post; [revert Hui'; apply opt_ok_impl; exact Hsub|reflexivity]|].
      apply avoid_app; [|apply avoid_opt_pre; [revert Hpo'; apply opt_ok_impl; exact Hsub|reflexivity]].
      destruct lit; [|exact (Hsub _ Hh')]. apply avoid_app; [reflexivity|]. apply avoid_app; [exact (Hsub _ Hh')|reflexivity]. }
    rewrite sp_auth_some; [|exact HA|apply slashed_stops; apply qf_stops3]. cbv beta iota.
    rewrite span_app; [|apply avoid_slashed; [reflexivity|exact Hps2]|apply qf_stops]. cbv beta iota.
    rewrite Eq. cbv beta iota zeta. rewrite Ef.
    f_equal.
    + (* the authority text *)
      f_equal. unfold A, lit.
      destruct i6 as [b|], fu as [f|]; cbn [is_some orb] in *; try contradiction.
      * destruct Hfl as (-> & _). destruct ui, po; reflexivity.
      * destruct Hfl as (-> & _). destruct ui, po; reflexivity.
      * destruct i4; destruct ui, po; reflexivity.
    + (* the path text *)
      cbn [orb andb]. rewrite andb_true_r. destruct ps as [|s r]; [reflexivity|].
      rewrite slashed_join by discriminate. reflexivity.
  - (* without *)
    destruct Hfl as (-> & -> & ->). destruct Hau as [-> ->]. cbn [app].
    assert (match ps with [] :: _ => False | _ => True end) as Hne.
    { destruct ps as [|[|c s] r]; auto. destruct Hpa as [Hpa _]. apply Hpa. reflexivity. }
    pose proof (segs_avoid [47; 63; 35] _ eq_refl Hps) as Hps3.
    assert (forall c s r, ps = (c :: s) :: r -> c <> 47) as Hc47.
    { intros c s r ->. inversion Hns as [|? ? H1 _]; subst. intros ->. apply H1. left. reflexivity. }
    assert (forall qu fr, head_is 47 (qf_part qu fr) = false) as Hqf47 by (intros [?|] [?|]; reflexivity).
    set (P := (if ab then [47] else []) ++ join_slash ps).
    assert (avoid [63; 35] P) as HP.
    { unfold P. apply avoid_app; [destruct ab; reflexivity|].
      destruct ps as [|s r]; [reflexivity|]. rewrite join_slash_cons.
      inversion Hps2; subst. apply avoid_app; [assumption|]. apply avoid_slashed; [reflexivity|assumption]. }
    assert (no_dslash_start (P ++ qf_part qu fr)) as Hnd.
    { unfold no_dslash_start, P. destruct ab; cbn [app head_is tl].
      - change (47 =? 47) with true. cbn [andb]. destruct ps as [|[|c s] r]; [apply Hqf47|contradiction|].
        rewrite join_slash_cons. cbn [app head_is]. apply N.eqb_neq. exact (Hc47 c s r eq_refl).
      - destruct ps as [|[|c s] r]; [|contradiction|].
        + cbn [join_slash app]. rewrite Hqf47. reflexivity.
        + rewrite join_slash_cons. cbn [app head_is]. pose proof (Hc47 c s r eq_refl) as Hc.
          apply N.eqb_neq in Hc. rewrite Hc. reflexivity. }
    rewrite ft_scheme_opt; [|exact Hsc|].
    2:{ intros ->. unfold P. destruct ab.
        - exists [], (([47] ++ join_slash ps) ++ qf_part qu fr). repeat split; reflexivity.
        - cbn [app]. destruct ps as [|s r].
          + exists [], (qf_part qu fr). split; [reflexivity|]. split; [reflexivity|apply qf_stops3].
          + exists s, (slashed r ++ qf_part qu fr). rewrite join_slash_cons, <- app_assoc.
            split; [reflexivity|]. split; [|apply slashed_stops; apply qf_stops3].
            destruct Hpa as [_ Hpa]. specialize (Hpa eq_refl eq_refl).
            inversion Hps3 as [|? ? H1 _]; subst. unfold avoid in *. rewrite forallb_forall in *.
            intros c Hc. specialize (H1 c Hc). cbn [mem] in *.
            destruct (c =? 58) eqn:E; [apply N.eqb_eq in E; subst; contradiction|exact H1]. }
    cbv beta iota. rewrite sp_auth_none by exact Hnd. cbv beta iota.
    rewrite span_app; [|exact HP|apply qf_stops]. cbv beta iota.
    rewrite Eq. cbv beta iota zeta. rewrite Ef.
    unfold P. rewrite andb_false_r, orb_false_r. reflexivity.
Qed.

(* the five components of a parsed object are those RFC 3986 appendix B assigns to the text (every host
   kind: the authority text of the object has the host as it was written, in brackets for a literal) *)
Theorem parsed_five_of_text s u : parse s = POk u -> RP.five_of_uri u = Resolve.five_of_text s.
Proof.
  intros H. rewrite <- (parse_unparse s u H) at 1. symmetry. apply five_unparse. exact (parse_wf s u H).
Qed.

(* the five components of the normalized object are the normal form of the five components of the text *)
Theorem parsed_normal_five s u : parse s = POk u -> relative_ref u = false ->
  RP.five_of_uri (normalize 63 u)
  = Normal.guard_normal (Resolve.five_of_text s) (Normal.five_normal (Resolve.five_of_text s)).
Proof.
  intros H Hrel. rewrite <- (parsed_five_of_text s u H).
  apply normalize_text_is_spec; [exact (proj1 (parsed_meets_hyps s u H))|exact Hrel].
Qed.

(* THE TEXT: uriToString of the normalized object is the specification's normal form of the text *)
Theorem parsed_normal_text s u : parse s = POk u -> relative_ref u = false -> ip6 u = None ->
  to_text (normalize 63 u) = Normal.normal_text s.
Proof.
  intros H Hrel H6. unfold Normal.normal_text. cbv zeta. rewrite <- (parsed_five_of_text s u H).
  destruct (parsed_meets_hyps s u H) as [Hh H4].
  exact (normalize_to_text_is_spec u Hh H4 (ip6_none_rendered u H6) Hrel).
Qed.

(* ---- IPv6 literals ---- *)
(* uriToString writes an IPv6 host from its sixteen bytes, in full eight-group lower-case form, whatever
   the literal parsed was; the specification's normal form keeps a literal as written.  So for an IPv6
   host the text of the normalized object is the normal form of the text with the literal rewritten
   in that form: Spec.Recompose.canon_ip6 (Spec/Recompose.v, property C04: to_text u = canon_ip6 s), which
   is the identity on every text without an IPv6 literal. *)
Lemma to_text_set_hostText_ip6 x u : ip6 u <> None -> to_text (set_hostText x u) = to_text u.
Proof.
  destruct u as [sc ui ht i4 i6 fu po ps qu fr ab ow]. cbn [ip6]. intros H. destruct i6 as [b|]; [|contradiction].
  unfold to_text, pieces, set_hostText, is_host_set.
  cbn [scheme userInfo hostText ip4 ip6 ipFuture portText pathSegs query fragment absolutePath owner].
  destruct x, ht, i4; reflexivity.
Qed.

Lemma normalize_set_hostText_ip6 x u : ip6 u <> None -> ipFuture u = None ->
  normalize 63 (set_hostText (Some x) u) = set_hostText (Some x) (normalize 63 u).
Proof.
  intros H6 Hf. rewrite !(normalize_fields 63 _ ltac:(discriminate)).
  change (bit 63 M_SCHEME) with true. change (bit 63 M_USER_INFO) with true. change (bit 63 M_HOST) with true.
  change (bit 63 M_PATH) with true. change (bit 63 M_QUERY) with true. change (bit 63 M_FRAGMENT) with true.
  cbv iota.
  destruct u as [sc ui ht i4 i6 fu po ps qu fr ab ow].
  cbn [scheme userInfo hostText ip4 ip6 ipFuture portText pathSegs query fragment absolutePath owner set_hostText] in *.
  subst fu. destruct i6 as [b|]; [|contradiction].
  unfold norm_host_text, norm_segs, relative_ref, is_host_set.
  cbn [scheme userInfo hostText ip4 ip6 ipFuture portText pathSegs query fragment absolutePath owner omap].
  destruct ht, i4; reflexivity.
Qed.

Theorem parsed_normal_text_canon s u : parse s = POk u -> relative_ref u = false ->
  to_text (normalize 63 u) = Normal.normal_text (Spec.Recompose.canon_ip6 s).
Proof.
  intros H Hrel. destruct (ip6 u) as [b|] eqn:E6.
  2:{ rewrite (ParseRecompose.canon_ip6_id s u H E6). exact (parsed_normal_text s u H Hrel E6). }
  pose proof (ParseAssemble.parse_reparse_full s u H) as H2.
  rewrite (ParseAssemble.parse_to_text_full s u H) in H2.
  destruct (parse_wf s u H) as (_ & (_ & Hf) & _ & _).
  destruct (hostText u) as [h|] eqn:Eh; [|destruct Hf as (_ & Hf & _); rewrite Hf in E6; discriminate E6].
  destruct Hf as [_ Hf]. rewrite E6 in Hf. destruct (ipFuture u) as [f|] eqn:Efu; [contradiction|].
  destruct Hf as (_ & Eb & _).
  assert (Mh : matches Rfc3986.IPv6address h)
    by (apply (ParseAssemble.parsed_ip6_matches s u h H Eh); rewrite E6; discriminate).
  destruct (Ip6Proofs.ip6_bytes_value h Mh) as [_ Hl16]. pose proof (Ip6Proofs.ip6_bytes_octets h Mh) as Ho.
  rewrite <- Eb in Hl16, Ho.
  pose proof (Ip6Proofs.ip6_render b Hl16 Ho) as Eg.
  assert (ParseAssemble.canon_host u = set_hostText (Some (Spec.Recompose.groups_text b)) u) as Ev
    by (unfold ParseAssemble.canon_host; rewrite E6; reflexivity).
  rewrite Ev in H2. set (v := set_hostText (Some (Spec.Recompose.groups_text b)) u) in *.
  assert (ip6 u <> None) as N6 by (rewrite E6; discriminate).
  assert (to_text (normalize 63 u) = to_text (normalize 63 v)) as Et.
  { unfold v. rewrite (normalize_set_hostText_ip6 _ u N6 Efu). rewrite to_text_set_hostText_ip6; [reflexivity|].
    rewrite (proj1 (proj2 (normalize_untouched 63 u))). exact N6. }
  rewrite Et. unfold Normal.normal_text. cbv zeta. rewrite <- (parsed_five_of_text _ v H2).
  destruct (parsed_meets_hyps _ v H2) as [Hh H4].
  apply normalize_to_text_is_spec; [exact Hh|exact H4| |].
  - unfold ip6_rendered, v. destruct u as [sc ui ht i4 i6 fu po ps qu fr ab ow].
    cbn [ip6 hostText set_hostText] in *. rewrite E6, Eg. apply text_eqb_refl.
  - unfold v. revert Hrel. unfold relative_ref, is_host_set. destruct u as [sc ui ht i4 i6 fu po ps qu fr ab ow].
    cbn [scheme ip6 ip4 ipFuture hostText absolutePath set_hostText] in *. rewrite E6.
    intros _. rewrite !orb_true_r. cbn [orb negb]. apply andb_false_r.
Qed.

(* ================================================================ the hypotheses cannot be dropped *)
(* relative-path references: "a/.." -- uriparser leaves the empty text, the specification "./" (finding
   D7; Props/C08.v, end of file) *)
Lemma normal_text_relative_refuted :
  exists s u, parse s = POk u /\ relative_ref u = true /\ to_text (normalize 63 u) <> Normal.normal_text s.
Proof. exists [97; 47; 46; 46]. eexists. split; [vm_compute; reflexivity|]. split; [reflexivity|]. vm_compute. discriminate. Qed.

(* an IPv6 literal that is not in uriToString's form: "s://[::A]/x/../y" is written back as
   "s://[0000:0000:0000:0000:0000:0000:0000:000a]/y", its normal form keeps "[::A]" *)
Lemma normal_text_ip6_as_written_refuted :
  exists s u, parse s = POk u /\ relative_ref u = false /\ ip6 u <> None
              /\ to_text (normalize 63 u) <> Normal.normal_text s.
Proof.
  exists [115; 58; 47; 47; 91; 58; 58; 65; 93; 47; 120; 47; 46; 46; 47; 121]. eexists.
  split; [vm_compute; reflexivity|]. split; [reflexivity|]. split; vm_compute; discriminate.
Qed.

(* an object (not a parsed one) whose authority text does not split into its own fields: user info "A@B",
   host "h" -- written "A@B@h", which the specification reads as user info "A", host "B@h" *)
Lemma auth_wfb_needed_refuted :
  exists u, uri_pct_wf u = true /\ RP.wf u = true /\ relative_ref u = false /\ auth_wfb u = false
            /\ RP.five_of_uri (normalize 63 u)
               <> Normal.guard_normal (RP.five_of_uri u) (Normal.five_normal (RP.five_of_uri u)).
Proof.
  exists (mkUri None (Some [65; 64; 66]) (Some [104]) None None None None [] None None false false).
  repeat split; try reflexivity. vm_compute. discriminate.
Qed.
