(* C08, from the object to the text: the five components (as texts) of [normalize 63 u], and the text
   uriToString writes for it, are the specification's normal form (Spec/Normal.v: five_normal,
   guard_normal, normal_text) of the five components / of the text of [u], for URIs that are not
   relative-path references.

     1. rds_link_holds, path_link_closed   the hypothesis of Proofs/NormalizeLink.v discharged from
                                           Proofs/DotSegments.v (rds_walk_rfc)
     2. scheme_link, query_link, fragment_link, auth_link
     3. normalize_text_is_spec, normalize_to_text_is_spec, parsed_meets_hyps
     4. parsed_five_of_text, parsed_normal_text *)
From Coq Require Import List NArith Bool Lia ZifyBool ZifyN Arith.
From UP Require Import Base.Chars Base.Regex Model.Uri Model.Common Model.Normalize Model.Recompose Model.Ip4 Model.Parse
  Spec.NormalWf Spec.Split Spec.Unparse Proofs.NormalizeProofs Proofs.NormalizeLink Proofs.DotSegments
  Proofs.ParseWfStep Proofs.ParseWf Proofs.ParseSplit.
From UP Require Spec.Normal Spec.Resolve Proofs.ResolveProofs Proofs.Ip4Proofs.
Import ListNotations.
Local Open Scope N_scope.

(* ================================================================ 1. the dot-segment link *)
Lemma no_slash_noslash s : no_slash s -> noslash s = true.
Proof.
  unfold no_slash, noslash. intros H. apply forallb_forall. intros c Hc. rewrite Forall_forall in H.
  apply negb_true_iff. apply N.eqb_neq. exact (H c Hc).
Qed.

Lemma noslash_no_slash s : noslash s = true -> no_slash s.
Proof.
  unfold no_slash, noslash. intros H. apply Forall_forall. intros c Hc. rewrite forallb_forall in H.
  specialize (H c Hc). apply negb_true_iff in H. apply N.eqb_neq in H. exact H.
Qed.

Lemma Forall_no_slash_noslash segs : Forall no_slash segs -> forallb noslash segs = true.
Proof.
  intros H. apply forallb_forall. intros s Hs. rewrite Forall_forall in H. apply no_slash_noslash. exact (H s Hs).
Qed.

Lemma forallb_noslash_no_slash segs : forallb noslash segs = true -> Forall no_slash segs.
Proof.
  intros H. apply Forall_forall. intros s Hs. rewrite forallb_forall in H. apply noslash_no_slash. exact (H s Hs).
Qed.

Lemma join_text_slash segs : join_text segs = Normal.join_slash segs.
Proof. apply path_pieces_join. Qed.

Lemma rooted_text_join w : rooted_text w = 47 :: Normal.join_slash w.
Proof.
  destruct w as [|s r]; [reflexivity|]. unfold rooted_text.
  rewrite <- (join_rooted (s :: r)) by discriminate. rewrite join_text_slash. reflexivity.
Qed.

Lemma rds_link_holds : rds_link.
Proof.
  intros host abs segs Hne Hns.
  rewrite <- rooted_text_join.
  rewrite (rds_walk_rfc host abs segs Hne (Forall_no_slash_noslash segs Hns)).
  rewrite <- (join_rooted segs Hne). rewrite join_text_slash. reflexivity.
Qed.

(* [path_link] of Proofs/NormalizeLink.v without its hypothesis *)
Lemma path_link_closed u :
  forallb pct_wf (pathSegs u) = true -> Forall no_slash (pathSegs u) -> rootless_ok u ->
  (is_host_set u = true -> absolutePath u = false) ->
  relative_ref u = false ->
  path_text (normalize 63 u)
  = Normal.guard_path (Normal.is_rootless (path_text u)) (is_host_set u)
      (Normal.path_normal (is_some (scheme u)) (is_host_set u) (path_text u)).
Proof. exact (path_link rds_link_holds u). Qed.

(* ================================================================ 2. the other components *)
Module RP := ResolveProofs.

Lemma scheme_link u : scheme (normalize 63 u) = omap (map Normal.lower) (scheme u).
Proof.
  rewrite (normalize_fields 63 u ltac:(discriminate)). cbn [scheme]. change (bit 63 M_SCHEME) with true. cbv iota.
  destruct (scheme u) as [t|]; [|reflexivity]. cbn [omap]. rewrite lowercase_is_map_lower. reflexivity.
Qed.

Lemma query_link u : opt_pct_wf (query u) = true ->
  query (normalize 63 u) = omap (Normal.pct_norm false) (query u).
Proof.
  intros H. rewrite (normalize_fields 63 u ltac:(discriminate)). cbn [query]. change (bit 63 M_QUERY) with true. cbv iota.
  destruct (query u) as [t|]; [|reflexivity]. cbn [omap]. rewrite (fix_pct_spec t H). reflexivity.
Qed.

Lemma fragment_link u : opt_pct_wf (fragment u) = true ->
  fragment (normalize 63 u) = omap (Normal.pct_norm false) (fragment u).
Proof.
  intros H. rewrite (normalize_fields 63 u ltac:(discriminate)). cbn [fragment]. change (bit 63 M_FRAGMENT) with true.
  cbv iota. destruct (fragment u) as [t|]; [|reflexivity]. cbn [omap]. rewrite (fix_pct_spec t H). reflexivity.
Qed.

(* ---- the authority ---- *)
(* no character of the text is one of [stops] (the boolean of Proofs/ParseSplit.v [avoid]) *)
Definition avoidb (stops : list N) (t : text) : bool := forallb (fun c => negb (mem c stops)) t.
Definition opt_avoidb (stops : list N) (o : option text) : bool :=
  match o with Some t => avoidb stops t | None => true end.
(* digits and dots *)
Definition is_ip4_text (h : text) : bool := forallb (fun c => is_digit c || (c =? 46)) h.

(* What the authority text of a URI object must look like for [Spec.Split.split_authority] to find the
   object's own user info, host and port in it again, and for the host kinds to be the ones the text shows:
     - a host is set only together with a host text (uriIsHostSet looks at the address data as well);
     - no "@" in user info, host and port;
     - registered name: no ":" and no "[" in the host text;
     - IPv4: the host text consists of digits and dots (it is left alone by uriNormalizeSyntax);
     - IPv6 literal: no "]" in the host text, which does not begin with "v" / "V";
     - IPvFuture literal: no "]" in the host text, which begins with "v" / "V" and is the ipFuture range;
     - exactly one host kind.
   Every parsed object satisfies this (parsed_auth_wfb below). *)
Definition auth_wfb (u : uri) : bool :=
  match hostText u with
  | None => negb (is_host_set u)
  | Some h =>
    opt_avoidb [64] (userInfo u) && avoidb [64] h && opt_avoidb [64] (portText u)
    && match ip4 u, ip6 u, ipFuture u with
       | None, None, None => avoidb [58] h && avoidb [91] h
       | Some _, None, None => is_ip4_text h
       | None, Some _, None => avoidb [93] h && negb (v_start h)
       | None, None, Some f => avoidb [93] h && Resolve.text_eqb f h && v_start h
       | _, _, _ => false
       end
  end.

Lemma avoidb_notin k t : avoidb [k] t = true -> ~ In k t.
Proof. intros H. apply (avoid_notin [k] t k H). cbn [mem]. rewrite N.eqb_refl. reflexivity. Qed.

Lemma auth_normal_parts ui h (lit : bool) po :
  opt_avoidb [64] ui = true -> avoidb [64] h = true -> opt_avoidb [64] po = true ->
  (if lit then avoidb [93] h = true else avoidb [58] h = true /\ avoidb [91] h = true) ->
  Normal.auth_normal (opt_post ui [64] ++ (if lit then [91] ++ h ++ [93] else h) ++ opt_pre [58] po)
  = (match ui with Some u => Normal.pct_norm false u ++ [64] | None => [] end)
    ++ (if lit then 91 :: (if v_start h then map Normal.lower h else h) ++ [93] else Normal.pct_norm true h)
    ++ (match po with Some p => 58 :: p | None => [] end).
Proof.
  intros Hui Hh Hpo Hl. unfold Normal.auth_normal.
  rewrite (split_authority_parts ui h lit po).
  - destruct lit; [|reflexivity]. f_equal. f_equal. unfold v_start. destruct h as [|c r]; [reflexivity|].
    cbn [head_is]. reflexivity.
  - destruct ui; [exact Hui|exact I].
  - apply avoidb_notin. exact Hh.
  - destruct po as [p|]; [|exact I]. cbn [opt_ok]. apply avoidb_notin. exact Hpo.
  - destruct lit; exact Hl.
Qed.

Lemma is_ip4_text_avoid k h : is_digit k = false -> k <> 46 -> is_ip4_text h = true -> avoidb [k] h = true.
Proof.
  intros Hk Hd. unfold is_ip4_text, avoidb. apply forallb_mono. intros c Hc. cbn [mem]. rewrite orb_false_r.
  apply negb_true_iff. apply N.eqb_neq. intros E. subst c. rewrite Hk in Hc. cbn [orb] in Hc.
  apply N.eqb_eq in Hc. contradiction.
Qed.

(* a dotted quad has neither upper-case letters nor percent-encodings *)
Lemma pct_norm_ip4_text h : is_ip4_text h = true -> Normal.pct_norm true h = h.
Proof.
  induction h as [|c r IH]; intros H; [reflexivity|].
  unfold is_ip4_text in H. cbn [forallb] in H. apply andb_prop in H. destruct H as [Hc Hr].
  assert (c <> 37) as H37 by (clear - Hc; arith).
  rewrite (pct_norm_other true c r H37). rewrite (IH Hr). f_equal. clear - Hc. arith.
Qed.

Lemma text_eqb_eq a b : Resolve.text_eqb a b = true -> a = b.
Proof. apply text_eqb_true. Qed.

Lemma auth_link u : uri_pct_wf u = true -> auth_wfb u = true ->
  RP.auth_text (normalize 63 u) = omap Normal.auth_normal (RP.auth_text u).
Proof.
  intros Hwf Ha. rewrite (normalize_full_fields u Hwf).
  assert (opt_pct_wf (userInfo u) = true) as _ by (unfold uri_pct_wf in Hwf; repeat (apply andb_prop in Hwf; destruct Hwf as [Hwf ?]); exact Hwf).
  destruct u as [sc ui ht i4 i6 ifu po ps qu fr ab ow].
  unfold auth_wfb in Ha. unfold RP.auth_text, RP.host_written, is_host_set, is_regname.
  cbn [scheme userInfo hostText ip4 ip6 ipFuture portText pathSegs query fragment absolutePath owner] in Ha |- *.
  destruct ht as [h|].
  2:{ unfold is_host_set in Ha. cbn [hostText ip4 ip6 ipFuture] in Ha.
      destruct i4, i6, ifu; try discriminate Ha. reflexivity. }
  apply andb_prop in Ha. destruct Ha as [Ha Hk]. apply andb_prop in Ha. destruct Ha as [Ha Hpo].
  apply andb_prop in Ha. destruct Ha as [Hui Hh].
  assert (forall (lit : bool) (x : text),
    (match ui with Some i => i ++ [64] | None => [] end) ++ (if lit then [91] ++ x ++ [93] else x)
      ++ (match po with Some p => 58 :: p | None => [] end)
    = opt_post ui [64] ++ (if lit then [91] ++ x ++ [93] else x) ++ opt_pre [58] po) as Eform
    by (intros; destruct ui, po; reflexivity).
  destruct i4 as [o|], i6 as [b|], ifu as [f|]; try discriminate Hk.
  - (* IPv4 *)
    cbn [is_some orb negb andb omap].
    rewrite (Eform false h). rewrite (auth_normal_parts ui h false po Hui Hh Hpo).
    + rewrite (pct_norm_ip4_text h Hk). destruct ui; reflexivity.
    + split; apply is_ip4_text_avoid; try exact Hk; try reflexivity; discriminate.
  - (* IPv6 literal: the host text is left alone *)
    apply andb_prop in Hk. destruct Hk as [H93 Hv]. apply negb_true_iff in Hv.
    cbn [is_some orb negb andb omap].
    rewrite (Eform true h). rewrite (auth_normal_parts ui h true po Hui Hh Hpo H93). rewrite Hv.
    destruct ui; reflexivity.
  - (* IPvFuture literal: lower case *)
    apply andb_prop in Hk. destruct Hk as [Hk Hv]. apply andb_prop in Hk. destruct Hk as [H93 Ef].
    apply text_eqb_eq in Ef. subst f.
    cbn [is_some orb negb andb omap].
    rewrite (Eform true h). rewrite (auth_normal_parts ui h true po Hui Hh Hpo H93). rewrite Hv.
    destruct ui; reflexivity.
  - (* registered name *)
    apply andb_prop in Hk. destruct Hk as [H58 H91].
    cbn [is_some orb negb andb omap].
    rewrite (Eform false h). rewrite (auth_normal_parts ui h false po Hui Hh Hpo (conj H58 H91)).
    destruct ui; reflexivity.
Qed.

(* ================================================================ 3. the five components, and the text *)
Lemma rp_path_text u : RP.path_text u = path_text u.
Proof. unfold RP.path_text, path_text_of, path_text. rewrite join_text_slash. reflexivity. Qed.

Lemma is_some_t_some (o : option text) : Resolve.is_some_t o = is_some o.
Proof. destruct o; reflexivity. Qed.

Lemma auth_text_is_some u : Resolve.is_some_t (RP.auth_text u) = is_host_set u.
Proof. unfold RP.auth_text. destruct (is_host_set u); reflexivity. Qed.

(* The hypotheses of the theorem, as one boolean; every parsed object meets them (parsed_meets_hyps):
     uri_pct_wf u   every "%" of user info, registered name, path segments, query and fragment starts a
                    triplet "%" HEXDIG HEXDIG                                         (Spec/NormalWf.v)
     RP.wf u        no "/" inside a segment; with a host the absolutePath flag is off; a host-less path
                    neither prints as "//..." nor (rootless) begins with an empty segment; no NUL in
                    the scheme                                                  (Proofs/ResolveProofs.v)
     auth_wfb u     the authority text splits into the object's own user info, host and port *)
Definition text_hyps (u : uri) : bool := uri_pct_wf u && RP.wf u && auth_wfb u.

Theorem normalize_text_is_spec u : text_hyps u = true -> relative_ref u = false ->
  RP.five_of_uri (normalize 63 u)
  = Normal.guard_normal (RP.five_of_uri u) (Normal.five_normal (RP.five_of_uri u)).
Proof.
  intros H Hrel. unfold text_hyps in H. apply andb_prop in H. destruct H as [H Ha].
  apply andb_prop in H. destruct H as [Hp Hw].
  pose proof Hp as Hp'. unfold uri_pct_wf in Hp'.
  apply andb_prop in Hp'. destruct Hp' as [Hp' Hfr]. apply andb_prop in Hp'. destruct Hp' as [Hp' Hqu].
  apply andb_prop in Hp'. destruct Hp' as [_ Hps].
  assert (RP.path_text (normalize 63 u)
          = Normal.guard_path (Normal.is_rootless (RP.path_text u))
              (Resolve.is_some_t (omap Normal.auth_normal (RP.auth_text u)))
              (Normal.path_normal (Resolve.is_some_t (scheme u)) (Resolve.is_some_t (RP.auth_text u))
                 (RP.path_text u))) as Epath.
  { rewrite !rp_path_text.
    assert (Resolve.is_some_t (omap Normal.auth_normal (RP.auth_text u)) = is_host_set u) as E1
      by (rewrite <- auth_text_is_some; destruct (RP.auth_text u); reflexivity).
    rewrite E1, is_some_t_some, auth_text_is_some.
    apply path_link_closed.
    - exact Hps.
    - apply forallb_noslash_no_slash. exact (RP.wf_noslash u Hw).
    - intros Hab Hh. pose proof (RP.wf_rootless_first u Hw Hh Hab) as Hf. unfold RP.first_nonempty in Hf.
      destruct (pathSegs u) as [|[|c s] r]; [exact I|discriminate Hf|exact I].
    - exact (RP.wf_host_abs u Hw).
    - exact Hrel. }
  unfold RP.five_of_uri at 1.
  rewrite scheme_link, (auth_link u Hp Ha), Epath, (query_link u Hqu), (fragment_link u Hfr).
  reflexivity.
Qed.

(* ---- the text uriToString writes ---- *)
(* the octets of an IPv4 host print as the host text (uriToString prints the octets, not the text) *)
Definition ip4_rendered (u : uri) : bool :=
  match ip4 u with
  | Some o => Resolve.text_eqb (concat (ip4_pieces o 0)) (match hostText u with Some t => t | None => [] end)
  | None => true
  end.

(* the pieces uriToString copies for the host *)
Definition host_pieces (u : uri) : list text :=
  match ip4 u, ip6 u, ipFuture u, hostText u with
  | Some o, _, _, _ => ip4_pieces o 0
  | None, Some b, _, _ => [[91]] ++ ip6_byte_pieces b 0 ++ [[93]]
  | None, None, Some t, _ => [[91]; t; [93]]
  | None, None, None, Some t => [t]
  | None, None, None, None => []
  end.

(* uriToString's text is the RFC 5.3 recomposition of the five components whenever the host is printed as
   [host_written] gives it *)
Lemma to_text_recompose_host u : concat (host_pieces u) = RP.host_written u ->
  to_text u = Resolve.recompose (RP.five_of_uri u).
Proof.
  intros Hh. unfold to_text, pieces, Resolve.recompose, RP.five_of_uri, RP.auth_text, RP.path_text, path_text_of.
  cbn [Resolve.f_scheme Resolve.f_auth Resolve.f_path Resolve.f_query Resolve.f_frag].
  fold (host_pieces u). rewrite <- Hh.
  rewrite !concat_app. rewrite !RP.concat_opt_pieces. cbn [concat app].
  f_equal.
  assert (forall (o : option text) c, match o with Some t => c :: t ++ [] | None => [] end
                                      = match o with Some t => c :: t | None => [] end) as Etail
    by (intros o c; destruct o; rewrite ?app_nil_r; reflexivity).
  rewrite !Etail. rewrite <- !app_assoc.
  f_equal.
  { destruct (is_host_set u); [|reflexivity]. cbn [concat]. f_equal.
    rewrite !concat_app. rewrite !RP.concat_opt_pieces. cbn [concat app]. rewrite Etail.
    reflexivity. }
  f_equal.
  destruct (absolutePath u || negb match pathSegs u with [] => true | _ :: _ => false end && is_host_set u); reflexivity.
Qed.

Lemma host_pieces_normalized u : uri_pct_wf u = true -> auth_wfb u = true -> ip6 u = None ->
  ip4_rendered u = true ->
  concat (host_pieces (normalize 63 u)) = RP.host_written (normalize 63 u).
Proof.
  intros Hwf Ha H6 H4. rewrite (normalize_full_fields u Hwf).
  destruct u as [sc ui ht i4 i6 ifu po ps qu fr ab ow].
  unfold auth_wfb, ip4_rendered in *. unfold host_pieces, RP.host_written, is_regname.
  cbn [scheme userInfo hostText ip4 ip6 ipFuture portText pathSegs query fragment absolutePath owner] in *.
  subst i6.
  destruct ht as [h|].
  2:{ unfold is_host_set in Ha. cbn [hostText ip4 ip6 ipFuture] in Ha.
      destruct i4, ifu; try discriminate Ha. reflexivity. }
  apply andb_prop in Ha. destruct Ha as [_ Hk].
  destruct i4 as [o|], ifu as [f|]; try discriminate Hk.
  - apply text_eqb_eq in H4. cbn [is_some negb andb omap]. exact H4.
  - cbn [omap concat app]. reflexivity.
  - cbn [is_some negb andb omap concat app]. rewrite app_nil_r. reflexivity.
Qed.

Theorem normalize_to_text_is_spec u : text_hyps u = true -> ip4_rendered u = true -> ip6 u = None ->
  relative_ref u = false ->
  to_text (normalize 63 u)
  = Resolve.recompose (Normal.guard_normal (RP.five_of_uri u) (Normal.five_normal (RP.five_of_uri u))).
Proof.
  intros H H4 H6 Hrel. rewrite <- (normalize_text_is_spec u H Hrel).
  apply to_text_recompose_host. unfold text_hyps in H. apply andb_prop in H. destruct H as [H Ha].
  apply andb_prop in H. destruct H as [Hp _]. exact (host_pieces_normalized u Hp Ha H6 H4).
Qed.

(* ---- every parsed object meets the hypotheses ---- *)
Lemma digit_chars_ip4_text st : Ip4Proofs.stack_ok st = true -> is_ip4_text (Ip4Proofs.digit_chars st) = true.
Proof.
  intros H. apply Ip4Proofs.stack_ok_digits in H. unfold is_ip4_text, Ip4Proofs.digit_chars.
  induction H as [|d r Hd _ IH]; [reflexivity|]. cbn [map forallb]. rewrite IH. rewrite andb_true_r.
  clear - Hd. unfold is_digit, in_range. lia.
Qed.

Lemma parse_ip4_is_ip4_text h o : parse_ip4 h = Some o -> is_ip4_text h = true.
Proof.
  intros H. apply Ip4Proofs.parse_ip4_sound in H.
  destruct H as [s1 [s2 [s3 [s4 [H1 [H2 [H3 [H4 [_ Et]]]]]]]]]. subst h.
  unfold Ip4Proofs.quad_text, is_ip4_text.
  repeat (rewrite forallb_app; cbn [forallb]).
  fold (is_ip4_text (Ip4Proofs.digit_chars s1)). fold (is_ip4_text (Ip4Proofs.digit_chars s2)).
  fold (is_ip4_text (Ip4Proofs.digit_chars s3)). fold (is_ip4_text (Ip4Proofs.digit_chars s4)).
  rewrite !digit_chars_ip4_text by assumption. reflexivity.
Qed.

Lemma parsed_auth_wfb u : parsed_wf parse_ip4 ip6_bytes u -> auth_wfb u = true.
Proof.
  intros (Hc & Hf & _ & _). destruct Hc as (_ & Hu & Hh & Hpo & _). destruct Hf as [_ Hf].
  unfold auth_wfb. destruct (hostText u) as [h|] eqn:Eh.
  2:{ destruct Hf as (E4 & E6 & Ef). unfold is_host_set. rewrite Eh, E4, E6, Ef. reflexivity. }
  destruct Hf as [_ Hf].
  assert (opt_avoidb [64] (userInfo u) = true) as Aui.
  { destruct (userInfo u) as [t|]; [|reflexivity]. destruct Hu as [Hu _].
    exact (class_avoid is_userinfo_char [64] t eq_refl Hu). }
  assert (opt_avoidb [64] (portText u) = true) as Apo.
  { destruct (portText u) as [t|]; [|reflexivity]. exact (class_avoid is_digit [64] t eq_refl Hpo). }
  rewrite Aui, Apo. cbn [andb]. rewrite andb_true_r.
  destruct (ip6 u) as [b|] eqn:E6; destruct (ipFuture u) as [f|] eqn:Ef; cbn [is_some] in Hh.
  - contradiction.
  - destruct Hf as (E4 & _ & Hv & _). rewrite E4, Hv.
    rewrite (class_avoid is_ip6_char [64] h eq_refl Hh : avoidb [64] h = true).
    rewrite (class_avoid is_ip6_char [93] h eq_refl Hh : avoidb [93] h = true). reflexivity.
  - destruct Hf as (E4 & Efh & Hv). subst f. rewrite E4, Hv. rewrite text_eqb_refl.
    rewrite (class_avoid is_lit_char [64] h eq_refl Hh : avoidb [64] h = true).
    rewrite (class_avoid is_lit_char [93] h eq_refl Hh : avoidb [93] h = true). reflexivity.
  - destruct Hh as [Hh _].
    rewrite (class_avoid is_regname_char [64] h eq_refl Hh : avoidb [64] h = true). cbn [andb].
    destruct (ip4 u) as [o|] eqn:E4.
    + symmetry in Hf. exact (parse_ip4_is_ip4_text h o Hf).
    + rewrite (class_avoid is_regname_char [58] h eq_refl Hh : avoidb [58] h = true).
      rewrite (class_avoid is_regname_char [91] h eq_refl Hh : avoidb [91] h = true). reflexivity.
Qed.

Lemma parsed_ip4_rendered u : parsed_wf parse_ip4 ip6_bytes u -> ip4_rendered u = true.
Proof.
  intros (_ & Hf & _ & _). destruct Hf as [_ Hf]. unfold ip4_rendered.
  destruct (ip4 u) as [o|] eqn:E4; [|reflexivity].
  destruct (hostText u) as [h|].
  - destruct Hf as [_ Hf]. destruct (ip6 u), (ipFuture u); try contradiction;
      try (discriminate (proj1 Hf)).
    symmetry in Hf. rewrite (Ip4Proofs.parse_ip4_render h o Hf). apply text_eqb_refl.
  - destruct Hf as [Hf _]. discriminate Hf.
Qed.

Lemma parsed_wf_meets_hyps u : parsed_wf parse_ip4 ip6_bytes u -> text_hyps u = true /\ ip4_rendered u = true.
Proof.
  intros H. split; [|exact (parsed_ip4_rendered u H)]. unfold text_hyps.
  rewrite (proj1 (parsed_wf_normalization u H)), (proj1 (parsed_wf_resolution u H)), (parsed_auth_wfb u H).
  reflexivity.
Qed.

Theorem parsed_meets_hyps s u : parse s = POk u -> text_hyps u = true /\ ip4_rendered u = true.
Proof. intros H. exact (parsed_wf_meets_hyps u (parse_wf s u H)). Qed.
