(* C08, from the object to the text: the five components (as texts) of [normalize 63 u], and the text
   uriToString writes for it, are the specification's normal form (Spec/Normal.v: five_normal,
   guard_normal, normal_text) of the five components / of the text of [u], for URIs that are not
   relative-path references.

     1. rds_link_holds, path_link_closed   the hypothesis of Proofs/NormalizeLink.v discharged from
                                           Proofs/DotSegments.v (rds_walk_rfc)
     2. scheme_link, query_link, fragment_link, auth_link
     3. normalize_text_is_spec, normalize_to_text_is_spec, parsed_meets_hyps
     4. parsed_five_of_text, parsed_normal_text *)
From Coq Require Import List NArith Bool Lia ZifyBool ZifyN Arith.
From UP Require Import Base.Chars Base.Regex Model.Uri Model.Common Model.Normalize Model.Recompose Model.Parse
  Spec.NormalWf Spec.Split Spec.Unparse Proofs.NormalizeProofs Proofs.NormalizeLink Proofs.DotSegments
  Proofs.ParseWfStep Proofs.ParseWf Proofs.ParseSplit.
From UP Require Spec.Normal Spec.Resolve Proofs.ResolveProofs.
Import ListNotations.
Local Open Scope N_scope.

(* ================================================================ 1. the dot-segment link *)
Lemma no_slash_noslash s : no_slash s -> noslash s = true.
Proof.
  unfold no_slash, noslash. intros H. apply forallb_forall. intros c Hc. rewrite Forall_forall in H.
  apply negb_true_iff. apply N.eqb_neq. exact (H c Hc).
Qed.

Lemma noslash_no_slash s : noslash s = true -> no_slash s.
Proof.
  unfold no_slash, noslash. intros H. apply Forall_forall. intros c Hc. rewrite forallb_forall in H.
  specialize (H c Hc). apply negb_true_iff in H. apply N.eqb_neq in H. exact H.
Qed.

Lemma Forall_no_slash_noslash segs : Forall no_slash segs -> forallb noslash segs = true.
Proof.
  intros H. apply forallb_forall. intros s Hs. rewrite Forall_forall in H. apply no_slash_noslash. exact (H s Hs).
Qed.

Lemma forallb_noslash_no_slash segs : forallb noslash segs = true -> Forall no_slash segs.
Proof.
  intros H. apply Forall_forall. intros s Hs. rewrite forallb_forall in H. apply noslash_no_slash. exact (H s Hs).
Qed.

Lemma join_text_slash segs : join_text segs = Normal.join_slash segs.
Proof. apply path_pieces_join. Qed.

Lemma rooted_text_join w : rooted_text w = 47 :: Normal.join_slash w.
Proof.
  destruct w as [|s r]; [reflexivity|]. unfold rooted_text.
  rewrite <- (join_rooted (s :: r)) by discriminate. rewrite join_text_slash. reflexivity.
Qed.

Lemma rds_link_holds : rds_link.
Proof.
  intros host abs segs Hne Hns.
  rewrite <- rooted_text_join.
  rewrite (rds_walk_rfc host abs segs Hne (Forall_no_slash_noslash segs Hns)).
  rewrite <- (join_rooted segs Hne). rewrite join_text_slash. reflexivity.
Qed.

(* [path_link] of Proofs/NormalizeLink.v without its hypothesis *)
Lemma path_link_closed u :
  forallb pct_wf (pathSegs u) = true -> Forall no_slash (pathSegs u) -> rootless_ok u ->
  (is_host_set u = true -> absolutePath u = false) ->
  relative_ref u = false ->
  path_text (normalize 63 u)
  = Normal.guard_path (Normal.is_rootless (path_text u)) (is_host_set u)
      (Normal.path_normal (is_some (scheme u)) (is_host_set u) (path_text u)).
Proof. exact (path_link rds_link_holds u). Qed.

(* ================================================================ 2. the other components *)
Module RP := ResolveProofs.

Lemma scheme_link u : scheme (normalize 63 u) = omap (map Normal.lower) (scheme u).
Proof.
  rewrite (normalize_fields 63 u ltac:(discriminate)). cbn [scheme]. change (bit 63 M_SCHEME) with true. cbv iota.
  destruct (scheme u) as [t|]; [|reflexivity]. cbn [omap]. rewrite lowercase_is_map_lower. reflexivity.
Qed.

Lemma query_link u : opt_pct_wf (query u) = true ->
  query (normalize 63 u) = omap (Normal.pct_norm false) (query u).
Proof.
  intros H. rewrite (normalize_fields 63 u ltac:(discriminate)). cbn [query]. change (bit 63 M_QUERY) with true. cbv iota.
  destruct (query u) as [t|]; [|reflexivity]. cbn [omap]. rewrite (fix_pct_spec t H). reflexivity.
Qed.

Lemma fragment_link u : opt_pct_wf (fragment u) = true ->
  fragment (normalize 63 u) = omap (Normal.pct_norm false) (fragment u).
Proof.
  intros H. rewrite (normalize_fields 63 u ltac:(discriminate)). cbn [fragment]. change (bit 63 M_FRAGMENT) with true.
  cbv iota. destruct (fragment u) as [t|]; [|reflexivity]. cbn [omap]. rewrite (fix_pct_spec t H). reflexivity.
Qed.

(* ---- the authority ---- *)
(* no character of the text is one of [stops] (the boolean of Proofs/ParseSplit.v [avoid]) *)
Definition avoidb (stops : list N) (t : text) : bool := forallb (fun c => negb (mem c stops)) t.
Definition opt_avoidb (stops : list N) (o : option text) : bool :=
  match o with Some t => avoidb stops t | None => true end.
(* digits and dots *)
Definition is_ip4_text (h : text) : bool := forallb (fun c => is_digit c || (c =? 46)) h.

(* What the authority text of a URI object must look like for [Spec.Split.split_authority] to find the
   object's own user info, host and port in it again, and for the host kinds to be the ones the text shows:
     - a host is set only together with a host text (uriIsHostSet looks at the address data as well);
     - no "@" in user info, host and port;
     - registered name: no ":" and no "[" in the host text;
     - IPv4: the host text consists of digits and dots (it is left alone by uriNormalizeSyntax);
     - IPv6 literal: no "]" in the host text, which does not begin with "v" / "V";
     - IPvFuture literal: no "]" in the host text, which begins with "v" / "V" and is the ipFuture range;
     - exactly one host kind.
   Every parsed object satisfies this (parsed_auth_wfb below). *)
Definition auth_wfb (u : uri) : bool :=
  match hostText u with
  | None => negb (is_host_set u)
  | Some h =>
    opt_avoidb [64] (userInfo u) && avoidb [64] h && opt_avoidb [64] (portText u)
    && match ip4 u, ip6 u, ipFuture u with
       | None, None, None => avoidb [58] h && avoidb [91] h
       | Some _, None, None => is_ip4_text h
       | None, Some _, None => avoidb [93] h && negb (v_start h)
       | None, None, Some f => avoidb [93] h && Resolve.text_eqb f h && v_start h
       | _, _, _ => false
       end
  end.

Lemma avoidb_notin k t : avoidb [k] t = true -> ~ In k t.
Proof. intros H. apply (avoid_notin [k] t k H). cbn [mem]. rewrite N.eqb_refl. reflexivity. Qed.

Lemma auth_normal_parts ui h (lit : bool) po :
  opt_avoidb [64] ui = true -> avoidb [64] h = true -> opt_avoidb [64] po = true ->
  (if lit then avoidb [93] h = true else avoidb [58] h = true /\ avoidb [91] h = true) ->
  Normal.auth_normal (opt_post ui [64] ++ (if lit then [91] ++ h ++ [93] else h) ++ opt_pre [58] po)
  = (match ui with Some u => Normal.pct_norm false u ++ [64] | None => [] end)
    ++ (if lit then 91 :: (if v_start h then map Normal.lower h else h) ++ [93] else Normal.pct_norm true h)
    ++ (match po with Some p => 58 :: p | None => [] end).
Proof.
  intros Hui Hh Hpo Hl. unfold Normal.auth_normal.
  rewrite (split_authority_parts ui h lit po).
  - destruct lit; [|reflexivity]. f_equal. f_equal. unfold v_start. destruct h as [|c r]; [reflexivity|].
    cbn [head_is]. reflexivity.
  - destruct ui; [exact Hui|exact I].
  - apply avoidb_notin. exact Hh.
  - destruct po as [p|]; [|exact I]. cbn [opt_ok]. apply avoidb_notin. exact Hpo.
  - destruct lit; exact Hl.
Qed.

Lemma is_ip4_text_avoid k h : is_digit k = false -> k <> 46 -> is_ip4_text h = true -> avoidb [k] h = true.
Proof.
  intros Hk Hd. unfold is_ip4_text, avoidb. apply forallb_mono. intros c Hc. cbn [mem]. rewrite orb_false_r.
  apply negb_true_iff. apply N.eqb_neq. intros E. subst c. rewrite Hk in Hc. cbn [orb] in Hc.
  apply N.eqb_eq in Hc. contradiction.
Qed.

(* a dotted quad has neither upper-case letters nor percent-encodings *)
Lemma pct_norm_ip4_text h : is_ip4_text h = true -> Normal.pct_norm true h = h.
Proof.
  induction h as [|c r IH]; intros H; [reflexivity|].
  unfold is_ip4_text in H. cbn [forallb] in H. apply andb_prop in H. destruct H as [Hc Hr].
  assert (c <> 37) as H37 by (clear - Hc; arith).
  rewrite (pct_norm_other true c r H37). rewrite (IH Hr). f_equal. clear - Hc. arith.
Qed.

Lemma text_eqb_eq a b : Resolve.text_eqb a b = true -> a = b.
Proof. apply text_eqb_true. Qed.

Lemma auth_link u : uri_pct_wf u = true -> auth_wfb u = true ->
  RP.auth_text (normalize 63 u) = omap Normal.auth_normal (RP.auth_text u).
Proof.
  intros Hwf Ha. rewrite (normalize_full_fields u Hwf).
  assert (opt_pct_wf (userInfo u) = true) as _ by (unfold uri_pct_wf in Hwf; repeat (apply andb_prop in Hwf; destruct Hwf as [Hwf ?]); exact Hwf).
  destruct u as [sc ui ht i4 i6 ifu po ps qu fr ab ow].
  unfold auth_wfb in Ha. unfold RP.auth_text, RP.host_written, is_host_set, is_regname.
  cbn [scheme userInfo hostText ip4 ip6 ipFuture portText pathSegs query fragment absolutePath owner] in Ha |- *.
  destruct ht as [h|].
  2:{ unfold is_host_set in Ha. cbn [hostText ip4 ip6 ipFuture] in Ha.
      destruct i4, i6, ifu; try discriminate Ha. reflexivity. }
  apply andb_prop in Ha. destruct Ha as [Ha Hk]. apply andb_prop in Ha. destruct Ha as [Ha Hpo].
  apply andb_prop in Ha. destruct Ha as [Hui Hh].
  assert (forall (lit : bool) (x : text),
    (match ui with Some i => i ++ [64] | None => [] end) ++ (if lit then [91] ++ x ++ [93] else x)
      ++ (match po with Some p => 58 :: p | None => [] end)
    = opt_post ui [64] ++ (if lit then [91] ++ x ++ [93] else x) ++ opt_pre [58] po) as Eform
    by (intros; destruct ui, po; reflexivity).
  destruct i4 as [o|], i6 as [b|], ifu as [f|]; try discriminate Hk.
  - (* IPv4 *)
    cbn [is_some orb negb andb omap].
    rewrite (Eform false h). rewrite (auth_normal_parts ui h false po Hui Hh Hpo).
    + rewrite (pct_norm_ip4_text h Hk). destruct ui; reflexivity.
    + split; apply is_ip4_text_avoid; try exact Hk; try reflexivity; discriminate.
  - (* IPv6 literal: the host text is left alone *)
    apply andb_prop in Hk. destruct Hk as [H93 Hv]. apply negb_true_iff in Hv.
    cbn [is_some orb negb andb omap].
    rewrite (Eform true h). rewrite (auth_normal_parts ui h true po Hui Hh Hpo H93). rewrite Hv.
    destruct ui; reflexivity.
  - (* IPvFuture literal: lower case *)
    apply andb_prop in Hk. destruct Hk as [Hk Hv]. apply andb_prop in Hk. destruct Hk as [H93 Ef].
    apply text_eqb_eq in Ef. subst f.
    cbn [is_some orb negb andb omap].
    rewrite (Eform true h). rewrite (auth_normal_parts ui h true po Hui Hh Hpo H93). rewrite Hv.
    destruct ui; reflexivity.
  - (* registered name *)
    apply andb_prop in Hk. destruct Hk as [H58 H91].
    cbn [is_some orb negb andb omap].
    rewrite (Eform false h). rewrite (auth_normal_parts ui h false po Hui Hh Hpo (conj H58 H91)).
    destruct ui; reflexivity.
Qed.
