(* C08, from the object to the text: the five components (as texts) of [normalize 63 u], and the text
   uriToString writes for it, are the specification's normal form (Spec/Normal.v: five_normal,
   guard_normal, normal_text) of the five components / of the text of [u], for URIs that are not
   relative-path references.

     1. rds_link_holds, path_link_closed   the hypothesis of Proofs/NormalizeLink.v discharged from
                                           Proofs/DotSegments.v (rds_walk_rfc)
     2. scheme_link, query_link, fragment_link, auth_link
     3. normalize_text_is_spec, normalize_to_text_is_spec, parsed_meets_hyps
     4. parsed_five_of_text, parsed_normal_text *)
From Coq Require Import List NArith Bool Lia ZifyBool ZifyN Arith.
From UP Require Import Base.Chars Model.Uri Model.Common Model.Normalize Model.Recompose Spec.NormalWf
  Spec.Split Proofs.NormalizeProofs Proofs.NormalizeLink Proofs.DotSegments.
From UP Require Spec.Normal Spec.Resolve.
Import ListNotations.
Local Open Scope N_scope.

(* ================================================================ 1. the dot-segment link *)
Lemma no_slash_noslash s : no_slash s -> noslash s = true.
Proof.
  unfold no_slash, noslash. intros H. apply forallb_forall. intros c Hc. rewrite Forall_forall in H.
  apply negb_true_iff. apply N.eqb_neq. exact (H c Hc).
Qed.

Lemma noslash_no_slash s : noslash s = true -> no_slash s.
Proof.
  unfold no_slash, noslash. intros H. apply Forall_forall. intros c Hc. rewrite forallb_forall in H.
  specialize (H c Hc). apply negb_true_iff in H. apply N.eqb_neq in H. exact H.
Qed.

Lemma Forall_no_slash_noslash segs : Forall no_slash segs -> forallb noslash segs = true.
Proof.
  intros H. apply forallb_forall. intros s Hs. rewrite Forall_forall in H. apply no_slash_noslash. exact (H s Hs).
Qed.

Lemma forallb_noslash_no_slash segs : forallb noslash segs = true -> Forall no_slash segs.
Proof.
  intros H. apply Forall_forall. intros s Hs. rewrite forallb_forall in H. apply noslash_no_slash. exact (H s Hs).
Qed.

Lemma join_text_slash segs : join_text segs = Normal.join_slash segs.
Proof. apply path_pieces_join. Qed.

Lemma rooted_text_join w : rooted_text w = 47 :: Normal.join_slash w.
Proof.
  destruct w as [|s r]; [reflexivity|]. unfold rooted_text.
  rewrite <- (join_rooted (s :: r)) by discriminate. rewrite join_text_slash. reflexivity.
Qed.

Lemma rds_link_holds : rds_link.
Proof.
  intros host abs segs Hne Hns.
  rewrite <- rooted_text_join.
  rewrite (rds_walk_rfc host abs segs Hne (Forall_no_slash_noslash segs Hns)).
  rewrite <- (join_rooted segs Hne). rewrite join_text_slash. reflexivity.
Qed.

(* [path_link] of Proofs/NormalizeLink.v without its hypothesis *)
Lemma path_link_closed u :
  forallb pct_wf (pathSegs u) = true -> Forall no_slash (pathSegs u) -> rootless_ok u ->
  (is_host_set u = true -> absolutePath u = false) ->
  relative_ref u = false ->
  path_text (normalize 63 u)
  = Normal.guard_path (Normal.is_rootless (path_text u)) (is_host_set u)
      (Normal.path_normal (is_some (scheme u)) (is_host_set u) (path_text u)).
Proof. exact (path_link rds_link_holds u). Qed.
