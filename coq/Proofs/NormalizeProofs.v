(* Proofs for C08: the model of src/UriNormalize.c (Model/Normalize.v) against the syntax-based
   normal form of RFC 3986 6.2.2 (Spec/Normal.v). *)
From Coq Require Import List NArith Bool Lia ZifyBool ZifyN Arith.
From UP Require Import Base.Chars Model.Uri Model.Common Model.Normalize Model.Parse Spec.NormalWf.
From UP Require Spec.Normal.
Import ListNotations.
Local Open Scope N_scope.

(* ------------------------------------------------------------------ character arithmetic *)
Ltac chars :=
  unfold is_unreserved_code, hexdig_to_int, hex_to_letter, hex_to_letter_ex, Normal.upper_hex, Normal.lower,
         is_unreserved, is_hexdig, is_alpha, is_unres_mark, is_upper, is_lower, is_digit,
         is_hex_upper, is_hex_lower, in_range in *.
Ltac ifs :=
  repeat match goal with
         | |- context [if ?b then _ else _] => destruct b eqn:?
         | H : context [if ?b then _ else _] |- _ => destruct b eqn:?
         end.
Ltac arith := intros; chars; ifs; try split; intros; ifs; try lia.

Lemma hexdig_lt16 a : is_hexdig a = true -> hexdig_to_int a < 16.
Proof. arith. Qed.

Lemma letter_is_upper_hex v : v < 16 -> hex_to_letter v = Normal.upper_hex v.
Proof. arith. Qed.

Lemma letter_hexdig v : is_hexdig (hex_to_letter v) = true.
Proof. arith. Qed.

Lemma letter_not_lower_hex v : in_range 97 102 (hex_to_letter v) = false.
Proof. arith. Qed.

Lemma int_of_letter v : v < 16 -> hexdig_to_int (hex_to_letter v) = v.
Proof. arith. Qed.

(* writing the value of a hex digit back in upper case gives the digit iff it was not lower case *)
Lemma letter_of_int a : is_hexdig a = true ->
  (hex_to_letter (hexdig_to_int a) = a <-> in_range 97 102 a = false).
Proof. arith. Qed.

Lemma unreserved_not_pct v : is_unreserved_code v = true -> v <> 37.
Proof. arith. Qed.

Lemma lower_not_pct c : c <> 37 -> Normal.lower c <> 37.
Proof. arith. Qed.

Lemma lower_lower c : Normal.lower (Normal.lower c) = Normal.lower c.
Proof. arith. Qed.

Lemma lower_not_upper c : in_range 65 90 (Normal.lower c) = false.
Proof. arith. Qed.

(* ------------------------------------------------------------------ induction over pct_wf texts *)
Lemma pct_wf_ind (P : text -> Prop) :
  P [] ->
  (forall c r, c <> 37 -> pct_wf r = true -> P r -> P (c :: r)) ->
  (forall a b r, is_hexdig a = true -> is_hexdig b = true -> pct_wf r = true -> P r -> P (37 :: a :: b :: r)) ->
  forall t, pct_wf t = true -> P t.
Proof.
  intros H0 H1 H3 t.
  remember (length t) as n eqn:Hn. revert t Hn.
  induction n as [n IH] using lt_wf_ind. intros t Hn Hwf.
  destruct t as [|c r]; [exact H0|].
  cbn [pct_wf] in Hwf. destruct (c =? 37) eqn:Ec.
  - apply N.eqb_eq in Ec. subst c.
    destruct r as [|a [|b r2]]; try discriminate.
    apply andb_prop in Hwf. destruct Hwf as [Hab Hr]. apply andb_prop in Hab. destruct Hab as [Ha Hb].
    apply H3; try assumption. apply (IH (length r2)); [cbn [length] in Hn; lia|reflexivity|assumption].
  - apply N.eqb_neq in Ec. apply H1; try assumption.
    apply (IH (length r)); [cbn [length] in Hn; lia|reflexivity|assumption].
Qed.

Lemma text_len_ind (P : text -> Prop) :
  (forall t, (forall s, (length s < length t)%nat -> P s) -> P t) -> forall t, P t.
Proof.
  intros H t. remember (length t) as n eqn:Hn. revert t Hn.
  induction n as [n IH] using lt_wf_ind. intros t Hn. apply H. intros s Hs. apply (IH (length s)); [lia|reflexivity].
Qed.

Ltac wf_induction t Hwf :=
  pattern t; apply pct_wf_ind; [ | | | exact Hwf]; clear t Hwf;
  [ | intros c r Hc Hr IH | intros a b r Ha Hb Hr IH ].

(* ------------------------------------------------------------------ A. percent-encoding *)
Lemma fix_pct_other c s : c <> 37 -> fix_pct (c :: s) = c :: fix_pct s.
Proof.
  intros Hc. apply N.eqb_neq in Hc. cbn [fix_pct]. rewrite Hc.
  destruct s as [|a [|b r2]]; reflexivity.
Qed.

Lemma fix_pct_triplet a b r :
  fix_pct (37 :: a :: b :: r) =
  if is_unreserved_code (16 * hexdig_to_int a + hexdig_to_int b)
  then (16 * hexdig_to_int a + hexdig_to_int b) :: fix_pct r
  else 37 :: hex_to_letter (hexdig_to_int a) :: hex_to_letter (hexdig_to_int b) :: fix_pct r.
Proof. reflexivity. Qed.

Lemma pct_norm_other lc c s : c <> 37 ->
  Normal.pct_norm lc (c :: s) = (if lc then Normal.lower c else c) :: Normal.pct_norm lc s.
Proof.
  intros Hc. apply N.eqb_neq in Hc. cbn [Normal.pct_norm]. rewrite Hc. cbn [andb].
  destruct s as [|a [|b r2]]; destruct lc; reflexivity.
Qed.

Lemma pct_norm_triplet lc a b r : is_hexdig a = true -> is_hexdig b = true ->
  Normal.pct_norm lc (37 :: a :: b :: r) =
  let v := 16 * hexdig_to_int a + hexdig_to_int b in
  if is_unreserved v then (if lc then Normal.lower v else v) :: Normal.pct_norm lc r
  else 37 :: Normal.upper_hex (hexdig_to_int a) :: Normal.upper_hex (hexdig_to_int b) :: Normal.pct_norm lc r.
Proof. intros Ha Hb. cbn [Normal.pct_norm]. rewrite Ha, Hb. reflexivity. Qed.

(* the engine is the specification's percent-encoding normalization *)
Lemma fix_pct_spec t : pct_wf t = true -> fix_pct t = Normal.pct_norm false t.
Proof.
  intros Hwf. wf_induction t Hwf; [reflexivity| |].
  - rewrite fix_pct_other, pct_norm_other by exact Hc. rewrite IH. reflexivity.
  - rewrite fix_pct_triplet, pct_norm_triplet by assumption. cbv zeta. unfold is_unreserved_code.
    rewrite !letter_is_upper_hex by (apply hexdig_lt16; assumption). rewrite IH. reflexivity.
Qed.

(* the output never is longer than the input: uriFixPercentEncodingInplace writes behind its reader *)
Lemma fix_pct_length t : (length (fix_pct t) <= length t)%nat.
Proof.
  induction t as [t IH] using text_len_ind.
  destruct t as [|c [|a [|b r]]]; try (cbn; lia).
  destruct (N.eq_dec c 37) as [E|E].
  - subst c. rewrite fix_pct_triplet. specialize (IH r). cbn [length] in *.
    destruct (is_unreserved_code _); cbn [length]; lia.
  - rewrite fix_pct_other by exact E. specialize (IH (a :: b :: r)). cbn [length] in *. lia.
Qed.

Lemma fix_pct_wf t : pct_wf t = true -> pct_wf (fix_pct t) = true.
Proof.
  intros Hwf. wf_induction t Hwf; [reflexivity| |].
  - rewrite fix_pct_other by exact Hc. cbn [pct_wf]. apply N.eqb_neq in Hc. rewrite Hc. exact IH.
  - rewrite fix_pct_triplet. destruct (is_unreserved_code _) eqn:Eu.
    + apply unreserved_not_pct in Eu. apply N.eqb_neq in Eu. cbn [pct_wf]. rewrite Eu. exact IH.
    + cbn [pct_wf]. rewrite N.eqb_refl, !letter_hexdig, IH. reflexivity.
Qed.

Lemma contains_ugly_other c s : c <> 37 -> contains_ugly (c :: s) = contains_ugly s.
Proof.
  intros Hc. apply N.eqb_neq in Hc. cbn [contains_ugly]. rewrite Hc.
  destruct s as [|a [|b r2]]; reflexivity.
Qed.

Lemma hexdig_not_pct a : is_hexdig a = true -> a <> 37.
Proof. arith. Qed.

Lemma contains_ugly_triplet a b r : is_hexdig a = true -> is_hexdig b = true ->
  contains_ugly (37 :: a :: b :: r) =
  (in_range 97 102 a || in_range 97 102 b
   || is_unreserved_code (16 * hexdig_to_int a + hexdig_to_int b)) || contains_ugly r.
Proof.
  intros Ha Hb. change (contains_ugly (37 :: a :: b :: r)) with
    (((37 =? 37) && (in_range 97 102 a || in_range 97 102 b
       || is_unreserved_code (16 * hexdig_to_int a + hexdig_to_int b))) || contains_ugly (a :: b :: r)).
  rewrite !contains_ugly_other by (apply hexdig_not_pct; assumption). reflexivity.
Qed.

(* the test of the mask query is exact on well-formed texts *)
Lemma contains_ugly_exact t : pct_wf t = true -> (contains_ugly t = false <-> fix_pct t = t).
Proof.
  intros Hwf. wf_induction t Hwf.
  - split; reflexivity.
  - rewrite contains_ugly_other, fix_pct_other by exact Hc. rewrite IH.
    split; intros H; [rewrite H; reflexivity|injection H; trivial].
  - rewrite contains_ugly_triplet, fix_pct_triplet by assumption.
    destruct (is_unreserved_code _) eqn:Eu.
    + rewrite orb_true_r. cbn [orb]. split; [discriminate|].
      intros H. injection H as H _. apply unreserved_not_pct in Eu. contradiction.
    + rewrite orb_false_r. split.
      * intros H. apply orb_false_elim in H. destruct H as [Hab Hu]. apply orb_false_elim in Hab.
        destruct Hab as [Hla Hlb].
        apply (letter_of_int a Ha) in Hla. apply (letter_of_int b Hb) in Hlb. apply IH in Hu.
        rewrite Hla, Hlb, Hu. reflexivity.
      * intros H. injection H as Hla Hlb Hu.
        apply (letter_of_int a Ha) in Hla. apply (letter_of_int b Hb) in Hlb. apply IH in Hu.
        rewrite Hla, Hlb, Hu. reflexivity.
Qed.

Lemma fix_pct_not_ugly t : pct_wf t = true -> contains_ugly (fix_pct t) = false.
Proof.
  intros Hwf. wf_induction t Hwf; [reflexivity| |].
  - rewrite fix_pct_other, contains_ugly_other by exact Hc. exact IH.
  - rewrite fix_pct_triplet. destruct (is_unreserved_code _) eqn:Eu.
    + rewrite contains_ugly_other by (apply unreserved_not_pct; exact Eu). exact IH.
    + rewrite contains_ugly_triplet by apply letter_hexdig.
      rewrite !letter_not_lower_hex, !int_of_letter by (apply hexdig_lt16; assumption).
      rewrite Eu, IH. reflexivity.
Qed.

Lemma fix_pct_idem t : pct_wf t = true -> fix_pct (fix_pct t) = fix_pct t.
Proof.
  intros Hwf. apply contains_ugly_exact; [apply fix_pct_wf|apply fix_pct_not_ugly]; exact Hwf.
Qed.

(* ------------------------------------------------------------------ B. case *)
Lemma lowercase_is_map_lower t : lowercase t = map Normal.lower t.
Proof. reflexivity. Qed.

Lemma lowercase_idem t : lowercase (lowercase t) = lowercase t.
Proof.
  unfold lowercase. rewrite map_map. apply map_ext. intros c. apply (lower_lower c).
Qed.

Lemma lowercase_length t : length (lowercase t) = length t.
Proof. apply map_length. Qed.

Lemma lower_fix c : Normal.lower c = c <-> in_range 65 90 c = false.
Proof. arith. Qed.

Lemma contains_upper_exact t : contains_upper t = false <-> lowercase t = t.
Proof.
  induction t as [|c r IH]; [split; reflexivity|].
  change (contains_upper (c :: r)) with (in_range 65 90 c || contains_upper r).
  change (lowercase (c :: r)) with (Normal.lower c :: lowercase r).
  split.
  - intros H. apply orb_false_elim in H. destruct H as [Hc Hr].
    apply lower_fix in Hc. apply IH in Hr. rewrite Hc, Hr. reflexivity.
  - intros H. injection H as Hc Hr. apply lower_fix in Hc. apply IH in Hr. rewrite Hc, Hr. reflexivity.
Qed.

Lemma contains_upper_lowercase t : contains_upper (lowercase t) = false.
Proof. apply contains_upper_exact. apply lowercase_idem. Qed.

Lemma lep_other c s : c <> 37 -> lowercase_except_pct (c :: s) = Normal.lower c :: lowercase_except_pct s.
Proof.
  intros Hc. apply N.eqb_neq in Hc. cbn [lowercase_except_pct]. unfold Normal.lower.
  destruct (in_range 65 90 c); [reflexivity|]. rewrite Hc. reflexivity.
Qed.

Lemma lep_triplet a b r : lowercase_except_pct (37 :: a :: b :: r) = 37 :: a :: b :: lowercase_except_pct r.
Proof. reflexivity. Qed.

(* the host text of a registered name: engine then percent-aware lower-casing = the specification *)
Lemma host_norm_spec t : pct_wf t = true -> lowercase_except_pct (fix_pct t) = Normal.pct_norm true t.
Proof.
  intros Hwf. wf_induction t Hwf; [reflexivity| |].
  - rewrite fix_pct_other, pct_norm_other, lep_other by exact Hc. rewrite IH. reflexivity.
  - rewrite fix_pct_triplet, pct_norm_triplet by assumption. cbv zeta. unfold is_unreserved_code.
    destruct (is_unreserved _) eqn:Eu.
    + rewrite lep_other by (apply unreserved_not_pct; exact Eu). rewrite IH. reflexivity.
    + rewrite lep_triplet, IH, !letter_is_upper_hex by (apply hexdig_lt16; assumption). reflexivity.
Qed.

(* the host normal form is a fixed point of both steps *)
Lemma host_norm_fixed t : pct_wf t = true ->
  let s := lowercase_except_pct (fix_pct t) in
  pct_wf s = true /\ fix_pct s = s /\ lowercase_except_pct s = s.
Proof.
  intros Hwf. cbv zeta.
  wf_induction t Hwf.
  - repeat split.
  - destruct IH as [I1 [I2 I3]].
    rewrite fix_pct_other, lep_other by exact Hc. pose proof (lower_not_pct c Hc) as Hl.
    rewrite fix_pct_other, lep_other by exact Hl. rewrite I2, I3, lower_lower.
    cbn [pct_wf]. apply N.eqb_neq in Hl. rewrite Hl. auto.
  - destruct IH as [I1 [I2 I3]].
    rewrite fix_pct_triplet. destruct (is_unreserved_code _) eqn:Eu.
    + pose proof (unreserved_not_pct _ Eu) as Hc. pose proof (lower_not_pct _ Hc) as Hl.
      rewrite lep_other by exact Hc. rewrite fix_pct_other, lep_other by exact Hl. rewrite I2, I3, lower_lower.
      cbn [pct_wf]. apply N.eqb_neq in Hl. rewrite Hl. auto.
    + rewrite lep_triplet, fix_pct_triplet, lep_triplet.
      rewrite !int_of_letter by (apply hexdig_lt16; assumption). rewrite Eu, I2, I3.
      cbn [pct_wf]. rewrite N.eqb_refl, !letter_hexdig, I1. auto.
Qed.

(* without upper-case letters the percent-aware lower-casing changes nothing *)
Lemma lep_no_upper t : contains_upper t = false -> lowercase_except_pct t = t.
Proof.
  induction t as [t IH] using text_len_ind. intros H.
  destruct t as [|c r]; [reflexivity|].
  change (contains_upper (c :: r)) with (in_range 65 90 c || contains_upper r) in H.
  apply orb_false_elim in H. destruct H as [Hc Hr].
  cbn [lowercase_except_pct]. rewrite Hc. destruct (c =? 37).
  - destruct r as [|a [|b r2]]; try reflexivity.
    rewrite IH; [reflexivity|cbn [length]; lia|].
    change (contains_upper (a :: b :: r2)) with (in_range 65 90 a || (in_range 65 90 b || contains_upper r2)) in Hr.
    apply orb_false_elim in Hr. destruct Hr as [_ Hr]. apply orb_false_elim in Hr. tauto.
  - rewrite IH; [reflexivity|cbn [length]; lia|exact Hr].
Qed.

(* ------------------------------------------------------------------ C. the result, field by field *)
(* host text after host normalization *)
Definition norm_host_text (u : uri) : option text :=
  match ipFuture u with
  | Some t => Some (lowercase t)
  | None =>
    match hostText u, ip4 u, ip6 u with
    | Some t, None, None => Some (lowercase_except_pct (fix_pct t))
    | _, _, _ => hostText u
    end
  end.

(* uriFixAmbiguity on the segment list *)
Definition guard_segs (host abs : bool) (l : list text) : list text :=
  match abs, l with
  | true, [] :: _ :: _ => [46] :: l
  | false, [] :: [] :: _ => if host then l else [46] :: l
  | _, _ => l
  end.

(* segment list after path normalization: percent-encodings, dot segments, the "." guard, lone empty segment *)
Definition norm_segs_of (rel host abs : bool) (segs : list text) : list text :=
  let segs := map fix_pct segs in
  let out := match segs with
             | [] => []
             | _ => rds_walk rel host abs [] segs
             end in
  let out := guard_segs host abs out in
  if negb host then match out with [[]] => [] | _ => out end else out.
Definition norm_segs (u : uri) : list text :=
  norm_segs_of (relative_ref u) (is_host_set u) (absolutePath u) (pathSegs u).

Definition st_scheme (b : bool) (u : uri) : uri :=
  if b then set_scheme (omap lowercase (scheme u)) u else u.
Definition st_host (b : bool) (u : uri) : uri :=
  if b then
    match ipFuture u with
    | Some t => let t' := lowercase t in set_hostText (Some t') (set_ipFuture (Some t') u)
    | None =>
      match hostText u, ip4 u, ip6 u with
      | Some t, None, None => set_hostText (Some (lowercase_except_pct (fix_pct t))) u
      | _, _, _ => u
      end
    end
  else u.
Definition st_ui (b : bool) (u : uri) : uri :=
  if b then set_userInfo (omap fix_pct (userInfo u)) u else u.
Definition st_path (b : bool) (u : uri) : uri :=
  if b then
    let relative := negb (is_some (scheme u)) && negb (absolutePath u) && negb (is_host_set u) in
    let u := set_pathSegs (map fix_pct (pathSegs u)) u in
    fix_empty_trail_segment (fix_ambiguity (remove_dot_segments relative u))
  else u.
Definition st_query (b : bool) (u : uri) : uri :=
  if b then set_query (omap fix_pct (query u)) u else u.
Definition st_frag (b : bool) (u : uri) : uri :=
  if b then set_fragment (omap fix_pct (fragment u)) u else u.

Lemma normalize_steps mask u : mask <> 0 ->
  normalize mask u =
  set_owner true (st_frag (bit mask M_FRAGMENT) (st_query (bit mask M_QUERY) (st_path (bit mask M_PATH)
    (st_ui (bit mask M_USER_INFO) (st_host (bit mask M_HOST) (st_scheme (bit mask M_SCHEME) u)))))).
Proof. intros Hm. apply N.eqb_neq in Hm. unfold normalize. rewrite Hm. reflexivity. Qed.

Lemma st_scheme_eq b u : st_scheme b u =
  mkUri (if b then omap lowercase (scheme u) else scheme u) (userInfo u) (hostText u) (ip4 u) (ip6 u)
        (ipFuture u) (portText u) (pathSegs u) (query u) (fragment u) (absolutePath u) (owner u).
Proof. destruct b, u; reflexivity. Qed.

Lemma st_ui_eq b u : st_ui b u =
  mkUri (scheme u) (if b then omap fix_pct (userInfo u) else userInfo u) (hostText u) (ip4 u) (ip6 u)
        (ipFuture u) (portText u) (pathSegs u) (query u) (fragment u) (absolutePath u) (owner u).
Proof. destruct b, u; reflexivity. Qed.

Lemma st_query_eq b u : st_query b u =
  mkUri (scheme u) (userInfo u) (hostText u) (ip4 u) (ip6 u)
        (ipFuture u) (portText u) (pathSegs u) (if b then omap fix_pct (query u) else query u)
        (fragment u) (absolutePath u) (owner u).
Proof. destruct b, u; reflexivity. Qed.

Lemma st_frag_eq b u : st_frag b u =
  mkUri (scheme u) (userInfo u) (hostText u) (ip4 u) (ip6 u)
        (ipFuture u) (portText u) (pathSegs u) (query u)
        (if b then omap fix_pct (fragment u) else fragment u) (absolutePath u) (owner u).
Proof. destruct b, u; reflexivity. Qed.

Lemma st_host_eq b u : st_host b u =
  mkUri (scheme u) (userInfo u) (if b then norm_host_text u else hostText u) (ip4 u) (ip6 u)
        (if b then omap lowercase (ipFuture u) else ipFuture u) (portText u) (pathSegs u) (query u)
        (fragment u) (absolutePath u) (owner u).
Proof.
  destruct b, u as [sc ui ht i4 i6 fu po ps qu fr ab ow]; [|reflexivity].
  unfold st_host, norm_host_text; cbn [ipFuture hostText ip4 ip6].
  destruct fu; [reflexivity|]. destruct ht; [|reflexivity]. destruct i4; [reflexivity|]. destruct i6; reflexivity.
Qed.

Lemma st_path_eq b u : st_path b u =
  mkUri (scheme u) (userInfo u) (hostText u) (ip4 u) (ip6 u)
        (ipFuture u) (portText u) (if b then norm_segs u else pathSegs u) (query u)
        (fragment u) (absolutePath u) (owner u).
Proof.
  destruct b; [|destruct u; reflexivity].
  unfold st_path, norm_segs, norm_segs_of, relative_ref. cbv zeta.
  set (rel := negb (is_some (scheme u)) && negb (absolutePath u) && negb (is_host_set u)).
  assert (forall v, is_host_set (set_pathSegs v u) = is_host_set u) as Hh by (intros v; destruct u; reflexivity).
  unfold remove_dot_segments. cbn [pathSegs set_pathSegs].
  rewrite Hh.
  assert (absolutePath (set_pathSegs (map fix_pct (pathSegs u)) u) = absolutePath u) as Ha by (destruct u; reflexivity).
  rewrite Ha.
  assert (forall v w, set_pathSegs w (set_pathSegs v u) = set_pathSegs w u) as Hss by (intros; destruct u; reflexivity).
  assert (forall w, fix_empty_trail_segment (set_pathSegs w u) =
                    set_pathSegs (if negb (is_host_set u) then match w with [[]] => [] | _ => w end else w) u) as Hf.
  { intros w. unfold fix_empty_trail_segment. rewrite Hh.
    assert (pathSegs (set_pathSegs w u) = w) as Hw by (destruct u; reflexivity). rewrite Hw.
    destruct (negb (is_host_set u)); [|reflexivity].
    destruct w as [|[|? ?] [|? ?]]; reflexivity. }
  assert (forall w, fix_ambiguity (set_pathSegs w u) =
                    set_pathSegs (guard_segs (is_host_set u) (absolutePath u) w) u) as Hg.
  { intros w. unfold fix_ambiguity, guard_segs. rewrite Hh.
    assert (pathSegs (set_pathSegs w u) = w) as Hw by (destruct u; reflexivity).
    assert (absolutePath (set_pathSegs w u) = absolutePath u) as Ha' by (destruct u; reflexivity).
    rewrite Hw, Ha'.
    destruct (absolutePath u); destruct w as [|[|? ?] [|[|? ?] ?]]; try reflexivity;
      try (destruct (is_host_set u)); rewrite ?Hss; reflexivity. }
  assert (forall w, set_pathSegs w u = mkUri (scheme u) (userInfo u) (hostText u) (ip4 u) (ip6 u)
        (ipFuture u) (portText u) w (query u) (fragment u) (absolutePath u) (owner u)) as Hm by reflexivity.
  destruct (map fix_pct (pathSegs u)) as [|s0 sl] eqn:E.
  - rewrite Hg, Hf, Hm. destruct (absolutePath u), (negb (is_host_set u)); reflexivity.
  - rewrite Hss, Hg, Hf, Hm. reflexivity.
Qed.

Lemma is_some_omap_if (b : bool) f o : is_some (if b then omap f o else o) = is_some o.
Proof. destruct b, o; reflexivity. Qed.

Lemma norm_host_is_some u :
  is_some (norm_host_text u) || is_some (ip4 u) || is_some (ip6 u) || is_some (omap lowercase (ipFuture u))
  = is_host_set u.
Proof.
  unfold norm_host_text, is_host_set. destruct (ipFuture u), (hostText u), (ip4 u), (ip6 u); reflexivity.
Qed.

Lemma norm_segs_ext u v :
  is_some (scheme u) = is_some (scheme v) -> is_host_set u = is_host_set v ->
  absolutePath u = absolutePath v -> pathSegs u = pathSegs v -> norm_segs u = norm_segs v.
Proof. intros H1 H2 H3 H4. unfold norm_segs, relative_ref. rewrite H1, H2, H3, H4. reflexivity. Qed.

Lemma normalize_fields mask u : mask <> 0 ->
  normalize mask u =
  mkUri (if bit mask M_SCHEME then omap lowercase (scheme u) else scheme u)
        (if bit mask M_USER_INFO then omap fix_pct (userInfo u) else userInfo u)
        (if bit mask M_HOST then norm_host_text u else hostText u)
        (ip4 u) (ip6 u)
        (if bit mask M_HOST then omap lowercase (ipFuture u) else ipFuture u)
        (portText u)
        (if bit mask M_PATH then norm_segs u else pathSegs u)
        (if bit mask M_QUERY then omap fix_pct (query u) else query u)
        (if bit mask M_FRAGMENT then omap fix_pct (fragment u) else fragment u)
        (absolutePath u) true.
Proof.
  intros Hm. rewrite (normalize_steps mask u Hm).
  rewrite st_scheme_eq.
  rewrite st_host_eq; cbn [scheme userInfo hostText ip4 ip6 ipFuture portText pathSegs query fragment absolutePath owner].
  rewrite st_ui_eq; cbn [scheme userInfo hostText ip4 ip6 ipFuture portText pathSegs query fragment absolutePath owner].
  rewrite st_path_eq; cbn [scheme userInfo hostText ip4 ip6 ipFuture portText pathSegs query fragment absolutePath owner].
  rewrite st_query_eq; cbn [scheme userInfo hostText ip4 ip6 ipFuture portText pathSegs query fragment absolutePath owner].
  rewrite st_frag_eq; cbn [scheme userInfo hostText ip4 ip6 ipFuture portText pathSegs query fragment absolutePath owner set_owner].
  match goal with |- context [norm_segs ?x] => rewrite (norm_segs_ext x u) end; try reflexivity.
  - cbn [scheme]. apply is_some_omap_if.
  - unfold is_host_set at 1. cbn [hostText ip4 ip6 ipFuture].
    destruct (bit mask M_HOST); [|reflexivity].
    rewrite <- norm_host_is_some. reflexivity.
Qed.

(* ---- C. mask exactness --------------------------------------------------------------- *)
Lemma normalize_zero u : normalize 0 u = u.
Proof. reflexivity. Qed.

Lemma normalize_owner mask u : mask <> 0 -> owner (normalize mask u) = true.
Proof. intros Hm. rewrite normalize_fields by exact Hm. reflexivity. Qed.

(* never touched, whatever the mask *)
Lemma normalize_untouched mask u :
  ip4 (normalize mask u) = ip4 u /\ ip6 (normalize mask u) = ip6 u
  /\ portText (normalize mask u) = portText u /\ absolutePath (normalize mask u) = absolutePath u.
Proof.
  destruct (N.eq_dec mask 0) as [E|E]; [subst mask; rewrite normalize_zero; auto|].
  rewrite normalize_fields by exact E. cbn. auto.
Qed.

Lemma mask_clear_unchanged mask u :
  (bit mask M_SCHEME = false -> scheme (normalize mask u) = scheme u)
  /\ (bit mask M_USER_INFO = false -> userInfo (normalize mask u) = userInfo u)
  /\ (bit mask M_HOST = false ->
      hostText (normalize mask u) = hostText u /\ ipFuture (normalize mask u) = ipFuture u)
  /\ (bit mask M_PATH = false -> pathSegs (normalize mask u) = pathSegs u)
  /\ (bit mask M_QUERY = false -> query (normalize mask u) = query u)
  /\ (bit mask M_FRAGMENT = false -> fragment (normalize mask u) = fragment u).
Proof.
  destruct (N.eq_dec mask 0) as [E|E]; [subst mask; rewrite normalize_zero; tauto|].
  rewrite normalize_fields by exact E.
  cbn [scheme userInfo hostText ip4 ip6 ipFuture portText pathSegs query fragment absolutePath owner].
  repeat match goal with |- _ /\ _ => split end; intros H; rewrite H; auto.
Qed.

Lemma mask_set_full mask u :
  (bit mask M_SCHEME = true -> scheme (normalize mask u) = scheme (normalize 63 u))
  /\ (bit mask M_USER_INFO = true -> userInfo (normalize mask u) = userInfo (normalize 63 u))
  /\ (bit mask M_HOST = true ->
      hostText (normalize mask u) = hostText (normalize 63 u)
      /\ ipFuture (normalize mask u) = ipFuture (normalize 63 u))
  /\ (bit mask M_PATH = true -> pathSegs (normalize mask u) = pathSegs (normalize 63 u))
  /\ (bit mask M_QUERY = true -> query (normalize mask u) = query (normalize 63 u))
  /\ (bit mask M_FRAGMENT = true -> fragment (normalize mask u) = fragment (normalize 63 u)).
Proof.
  destruct (N.eq_dec mask 0) as [E|E].
  - subst mask. repeat match goal with |- _ /\ _ => split end; intros H; discriminate H.
  - rewrite (normalize_fields mask u E), (normalize_fields 63 u ltac:(discriminate)).
    cbn [scheme userInfo hostText ip4 ip6 ipFuture portText pathSegs query fragment absolutePath owner].
    repeat match goal with |- _ /\ _ => split end; intros H; rewrite H; auto.
Qed.

(* full normalization, field by field, in the vocabulary of the specification *)
Lemma normalize_full_fields u : uri_pct_wf u = true ->
  normalize 63 u =
  mkUri (omap (map Normal.lower) (scheme u))
        (omap (Normal.pct_norm false) (userInfo u))
        (match ipFuture u with
         | Some f => Some (map Normal.lower f)
         | None => if is_regname u then omap (Normal.pct_norm true) (hostText u) else hostText u
         end)
        (ip4 u) (ip6 u)
        (omap (map Normal.lower) (ipFuture u))
        (portText u)
        (let segs := map (Normal.pct_norm false) (pathSegs u) in
         let out := match segs with
                    | [] => []
                    | _ => rds_walk (relative_ref u) (is_host_set u) (absolutePath u) [] segs
                    end in
         let out := match absolutePath u, out with
                    | true, [] :: _ :: _ => [46] :: out
                    | false, [] :: [] :: _ => if is_host_set u then out else [46] :: out
                    | _, _ => out
                    end in
         if negb (is_host_set u) then match out with [[]] => [] | _ => out end else out)
        (omap (Normal.pct_norm false) (query u))
        (omap (Normal.pct_norm false) (fragment u))
        (absolutePath u) true.
Proof.
  intros Hwf. rewrite (normalize_fields 63 u ltac:(discriminate)).
  change (bit 63 M_SCHEME) with true. change (bit 63 M_USER_INFO) with true. change (bit 63 M_HOST) with true.
  change (bit 63 M_PATH) with true. change (bit 63 M_QUERY) with true. change (bit 63 M_FRAGMENT) with true.
  cbv iota.
  unfold uri_pct_wf in Hwf. apply andb_prop in Hwf. destruct Hwf as [Hwf Hfr].
  apply andb_prop in Hwf. destruct Hwf as [Hwf Hqu]. apply andb_prop in Hwf. destruct Hwf as [Hwf Hps].
  apply andb_prop in Hwf. destruct Hwf as [Hui Hho].
  assert (forall o, opt_pct_wf o = true -> omap fix_pct o = omap (Normal.pct_norm false) o) as Ho.
  { intros [t|] H; [|reflexivity]. cbn [omap]. rewrite fix_pct_spec by exact H. reflexivity. }
  rewrite (Ho _ Hui), (Ho _ Hqu), (Ho _ Hfr).
  assert (map fix_pct (pathSegs u) = map (Normal.pct_norm false) (pathSegs u)) as Hm.
  { apply map_ext_in. intros s Hs. apply fix_pct_spec. rewrite forallb_forall in Hps. apply Hps. exact Hs. }
  unfold norm_segs, norm_segs_of, guard_segs. rewrite Hm. cbv zeta.
  assert (norm_host_text u = match ipFuture u with
         | Some f => Some (map Normal.lower f)
         | None => if is_regname u then omap (Normal.pct_norm true) (hostText u) else hostText u
         end) as Hh.
  { unfold norm_host_text, is_regname in *. destruct (ipFuture u); [reflexivity|].
    destruct (hostText u) as [t|]; [|reflexivity]. destruct (ip4 u); [reflexivity|]. destruct (ip6 u); [reflexivity|].
    cbn in Hho |- *. rewrite host_norm_spec by exact Hho. reflexivity. }
  rewrite Hh. reflexivity.
Qed.

(* ------------------------------------------------------------------ path lemmas *)
(* a segment that path normalization leaves alone: no dot segment, percent-encodings in normal form *)
Definition seg_clean (s : text) : Prop := seg_dot s = false /\ seg_dotdot s = false /\ fix_pct s = s.

Lemma seg_clean_nil : seg_clean [].
Proof. repeat split. Qed.

Lemma rds_walk_no_dots rel host abs rest : forall kept,
  Forall (fun s => seg_dot s = false /\ seg_dotdot s = false) rest ->
  rds_walk rel host abs kept rest = rev kept ++ rest.
Proof.
  induction rest as [|w nxt IH]; intros kept H.
  - cbn [rds_walk]. rewrite app_nil_r. reflexivity.
  - inversion H as [|? ? [Hd Hdd] Hn]; subst. cbn [rds_walk]. rewrite Hd, Hdd.
    rewrite IH by exact Hn. cbn [rev]. rewrite <- app_assoc. reflexivity.
Qed.

(* segments without dot segments and ugly percent-encodings are a fixed point *)
Lemma norm_segs_of_clean rel host abs segs :
  Forall seg_clean segs -> (host = false -> segs <> [[]]) -> guard_segs host abs segs = segs ->
  norm_segs_of rel host abs segs = segs.
Proof.
  intros Hc Hl Hg. unfold norm_segs_of.
  assert (map fix_pct segs = segs) as Hm.
  { clear Hl Hg. induction Hc as [|s r [_ [_ Hs]] Hr IH]; [reflexivity|]. cbn [map]. rewrite Hs, IH. reflexivity. }
  rewrite Hm. cbv zeta.
  assert (match segs with [] => [] | _ => rds_walk rel host abs [] segs end = segs) as Hw.
  { destruct segs as [|s r]; [reflexivity|]. rewrite rds_walk_no_dots; [reflexivity|].
    eapply Forall_impl; [|exact Hc]. intros x [H1 [H2 _]]. auto. }
  rewrite Hw, Hg. destruct host; [reflexivity|]. cbn [negb].
  destruct segs as [|[|? ?] [|? ?]]; try reflexivity. exfalso. apply Hl; reflexivity.
Qed.

(* without the relative rule the walk leaves no dot segment *)
Lemma rds_walk_abs_clean host abs rest : forall kept,
  Forall seg_clean kept -> Forall (fun s => fix_pct s = s) rest ->
  Forall seg_clean (rds_walk false host abs kept rest).
Proof.
  assert (forall k, Forall seg_clean k -> Forall seg_clean (rev k)) as Hrev.
  { intros k Hk. apply Forall_forall. intros x Hx. apply in_rev in Hx. rewrite Forall_forall in Hk. auto. }
  pose proof seg_clean_nil as Hnil.
  induction rest as [|w nxt IH]; intros kept Hk Hr.
  - cbn [rds_walk]. auto.
  - inversion Hr as [|? ? Hw Hn]; subst. cbn [rds_walk andb].
    destruct (seg_dot w) eqn:Ed.
    + destruct nxt as [|n1 n2]; [|apply IH; assumption].
      destruct kept as [|p k]; [destruct host; repeat constructor; exact Hnil|].
      apply Hrev. constructor; assumption.
    + destruct (seg_dotdot w) eqn:Edd.
      * destruct kept as [|p [|pp kk]].
        -- destruct nxt as [|n1 n2]; [destruct abs; repeat constructor; exact Hnil|apply IH; auto].
        -- destruct nxt as [|n1 n2]; [destruct abs; repeat constructor; exact Hnil|apply IH; auto].
        -- inversion Hk as [|? ? _ Hk']; subst.
           destruct nxt as [|n1 n2]; [apply Hrev; constructor; assumption|apply IH; assumption].
      * apply IH; [|exact Hn]. constructor; [|exact Hk]. repeat split; assumption.
Qed.

(* the three steps of [norm_segs_of] by name *)
Definition walk0 (rel host abs : bool) (segs : list text) : list text :=
  match segs with [] => [] | _ => rds_walk rel host abs [] segs end.
Definition fet_segs (host : bool) (out : list text) : list text :=
  if negb host then match out with [[]] => [] | _ => out end else out.
Lemma norm_segs_of_steps rel host abs segs :
  norm_segs_of rel host abs segs = fet_segs host (guard_segs host abs (walk0 rel host abs (map fix_pct segs))).
Proof. reflexivity. Qed.

(* what comes out of the absolute walk is clean; the guard may then put one "." in front of it *)
Lemma walk0_abs_clean host abs segs : forallb pct_wf segs = true ->
  Forall seg_clean (walk0 false host abs (map fix_pct segs)).
Proof.
  intros Hwf. unfold walk0.
  assert (Forall (fun s => fix_pct s = s) (map fix_pct segs)) as Hf.
  { apply Forall_forall. intros x Hx. apply in_map_iff in Hx. destruct Hx as [s [Hs Hin]]. subst x.
    apply fix_pct_idem. rewrite forallb_forall in Hwf. auto. }
  destruct (map fix_pct segs) as [|s0 sl]; [constructor|]. apply rds_walk_abs_clean; [constructor|exact Hf].
Qed.

Lemma norm_segs_of_not_lone rel abs segs : norm_segs_of rel false abs segs <> [[]].
Proof.
  unfold norm_segs_of. cbv zeta. cbn [negb].
  match goal with |- (match ?o with _ => _ end) <> _ => destruct o as [|[|? ?] [|? ?]] end; discriminate.
Qed.

(* segment lists on which the walk of uriRemoveDotSegmentsEx changes nothing: no dot segment at all, or
   (relative rule only) a leading ".." run followed by none, or a leading "." in front of a first
   segment containing ':' followed by none *)
Definition no_dots (l : list text) : bool := forallb (fun s => negb (seg_dot s) && negb (seg_dotdot s)) l.
Fixpoint drop_dotdots (l : list text) : list text :=
  match l with
  | s :: r => if seg_dotdot s then drop_dotdots r else l
  | [] => []
  end.
Definition stable_path (relative : bool) (segs : list text) : bool :=
  no_dots segs
  || (relative && (no_dots (drop_dotdots segs)
                   || match segs with
                      | d :: n :: r => seg_dot d && has_colon n && no_dots (n :: r)
                      | _ => false
                      end)).

Lemma no_dots_Forall l : no_dots l = true -> Forall (fun s => seg_dot s = false /\ seg_dotdot s = false) l.
Proof.
  intros H. apply Forall_forall. intros s Hs. unfold no_dots in H. rewrite forallb_forall in H.
  specialize (H s Hs). apply andb_prop in H. destruct H as [H1 H2].
  apply negb_true_iff in H1. apply negb_true_iff in H2. auto.
Qed.

Lemma Forall_no_dots l : Forall (fun s => seg_dot s = false /\ seg_dotdot s = false) l -> no_dots l = true.
Proof.
  intros H. unfold no_dots. apply forallb_forall. intros s Hs. rewrite Forall_forall in H.
  destruct (H s Hs) as [H1 H2]. rewrite H1, H2. reflexivity.
Qed.

Ltac split_char a :=
  destruct a as [|a]; [try discriminate|];
  do 6 (try (destruct a as [a|a|]; try discriminate)).
Lemma seg_dotdot_eq s : seg_dotdot s = true -> s = [46; 46].
Proof.
  destruct s as [|a [|b [|c r]]]; try discriminate.
  - intros H. split_char a.
  - intros H. split_char a. split_char b. reflexivity.
  - intros H. split_char a. split_char b.
Qed.
Lemma dotdot_not_dot s : seg_dotdot s = true -> seg_dot s = false.
Proof. intros H. apply seg_dotdot_eq in H. subst s. reflexivity. Qed.

Lemma rds_walk_dotdot_run host abs segs : forall kept,
  Forall (fun s => seg_dotdot s = true) kept -> no_dots (drop_dotdots segs) = true ->
  rds_walk true host abs kept segs = rev kept ++ segs.
Proof.
  induction segs as [|s r IH]; intros kept Hk Hd.
  - cbn [rds_walk]. rewrite app_nil_r. reflexivity.
  - cbn [drop_dotdots] in Hd. destruct (seg_dotdot s) eqn:Edd.
    + cbn [rds_walk andb]. rewrite (dotdot_not_dot s Edd), Edd.
      assert (match kept with [] => true | p :: _ => seg_dotdot p end = true) as Hkeep.
      { destruct kept as [|p k]; [reflexivity|]. inversion Hk; assumption. }
      rewrite Hkeep. rewrite IH; [cbn [rev]; rewrite <- app_assoc; reflexivity|constructor; assumption|exact Hd].
    + apply rds_walk_no_dots. apply no_dots_Forall. exact Hd.
Qed.

Lemma rds_walk_essential host abs d nxt :
  seg_dot d = true -> match nxt with n1 :: _ => has_colon n1 | [] => false end = true ->
  rds_walk true host abs [] (d :: nxt) = rds_walk true host abs [d] nxt.
Proof. intros Hd Hc. cbn [rds_walk andb]. rewrite Hd, Hc. reflexivity. Qed.

Lemma rds_walk_stable rel host abs segs : stable_path rel segs = true ->
  rds_walk rel host abs [] segs = segs.
Proof.
  intros H. unfold stable_path in H. apply orb_prop in H. destruct H as [H|H].
  - apply (rds_walk_no_dots rel host abs segs []). apply no_dots_Forall. exact H.
  - apply andb_prop in H. destruct H as [Hr H]. subst rel. apply orb_prop in H. destruct H as [H|H].
    + apply (rds_walk_dotdot_run host abs segs []); [constructor|exact H].
    + destruct segs as [|d [|n r]]; try discriminate H.
      apply andb_prop in H. destruct H as [H Hn]. apply andb_prop in H. destruct H as [Hd Hc].
      rewrite rds_walk_essential by assumption.
      rewrite rds_walk_no_dots by (apply no_dots_Forall; exact Hn). reflexivity.
Qed.

Lemma norm_segs_of_fixed rel host abs segs :
  Forall (fun s => fix_pct s = s) segs -> rds_walk rel host abs [] segs = segs ->
  (host = false -> segs <> [[]]) -> guard_segs host abs segs = segs -> norm_segs_of rel host abs segs = segs.
Proof.
  intros Hc Hw Hl Hg. unfold norm_segs_of.
  assert (map fix_pct segs = segs) as Hm.
  { clear Hl Hw Hg. induction Hc as [|s r Hs Hr IH]; [reflexivity|]. cbn [map]. rewrite Hs, IH. reflexivity. }
  rewrite Hm. cbv zeta. rewrite Hw.
  assert (match segs with [] => [] | _ :: _ => segs end = segs) as Hw' by (destruct segs; reflexivity).
  rewrite Hw', Hg. destruct host; [reflexivity|]. cbn [negb].
  destruct segs as [|[|? ?] [|? ?]]; try reflexivity. exfalso. apply Hl; reflexivity.
Qed.

(* the walk keeps "every segment is a fixed point of the percent-encoding engine" *)
Lemma rds_walk_pct_fixed rel host abs rest : forall kept,
  Forall (fun s => fix_pct s = s) kept -> Forall (fun s => fix_pct s = s) rest ->
  Forall (fun s => fix_pct s = s) (rds_walk rel host abs kept rest).
Proof.
  assert (forall k, Forall (fun s => fix_pct s = s) k -> Forall (fun s => fix_pct s = s) (rev k)) as Hrev.
  { intros k Hk. apply Forall_forall. intros x Hx. apply in_rev in Hx. rewrite Forall_forall in Hk. auto. }
  induction rest as [|w nxt IH]; intros kept Hk Hr.
  - cbn [rds_walk]. auto.
  - inversion Hr as [|? ? Hw Hn]; subst. cbn [rds_walk].
    destruct (seg_dot w).
    + destruct (rel && _ && _); [apply IH; auto|].
      destruct nxt as [|n1 n2]; [|apply IH; assumption].
      destruct kept as [|p k]; [destruct host; repeat constructor|].
      apply Hrev. constructor; [reflexivity|assumption].
    + destruct (seg_dotdot w).
      * destruct (rel && _); [apply IH; auto|].
        destruct kept as [|p [|pp kk]].
        -- destruct nxt as [|n1 n2]; [destruct abs; repeat constructor|apply IH; auto].
        -- destruct nxt as [|n1 n2]; [destruct abs; repeat constructor|apply IH; auto].
        -- inversion Hk as [|? ? _ Hk']; subst.
           destruct nxt as [|n1 n2]; [apply Hrev; constructor; [reflexivity|assumption]|apply IH; assumption].
      * apply IH; auto.
Qed.

Lemma walk0_fixed rel host abs segs : forallb pct_wf segs = true ->
  Forall (fun s => fix_pct s = s) (walk0 rel host abs (map fix_pct segs)).
Proof.
  intros Hps. unfold walk0.
  assert (Forall (fun s => fix_pct s = s) (map fix_pct segs)) as Hf.
  { apply Forall_forall. intros x Hx. apply in_map_iff in Hx. destruct Hx as [s [Hs' Hin]]. subst x.
    apply fix_pct_idem. rewrite forallb_forall in Hps. auto. }
  destruct (map fix_pct segs) as [|s0 sl]; [constructor|]. apply rds_walk_pct_fixed; [constructor|exact Hf].
Qed.

Lemma map_fixed l : Forall (fun s => fix_pct s = s) l -> map fix_pct l = l.
Proof. induction 1 as [|s r Hs Hr IH]; [reflexivity|]. cbn [map]. rewrite Hs, IH. reflexivity. Qed.

(* path normalization applied to its own result gives that result again whenever the output of the first
   walk is stable under the walk: a guard segment "." is removed by the second walk (it is followed by an
   empty segment, so never "essential") and put back by the second guard *)
Lemma norm_segs_of_idem rel host abs segs :
  Forall (fun s => fix_pct s = s) (walk0 rel host abs (map fix_pct segs)) ->
  rds_walk rel host abs [] (walk0 rel host abs (map fix_pct segs)) = walk0 rel host abs (map fix_pct segs) ->
  norm_segs_of rel host abs (norm_segs_of rel host abs segs) = norm_segs_of rel host abs segs.
Proof.
  rewrite (norm_segs_of_steps rel host abs segs).
  set (out := walk0 rel host abs (map fix_pct segs)). intros Hf Hw.
  pose proof (map_fixed out Hf) as Hm.
  assert (rds_walk rel host abs [] (@cons text [46] out) = match out with [] => (if host then [[]] else []) | _ => rds_walk rel host abs [] out end
          \/ match out with n1 :: _ => has_colon n1 | [] => false end = true) as Hdot.
  { destruct out as [|n1 nn]; [left; cbn [rds_walk seg_dot andb]; rewrite ?andb_false_r; reflexivity|].
    destruct (has_colon n1) eqn:Ec; [right; reflexivity|left].
    cbn [rds_walk andb]. change (seg_dot [46]) with true. cbv iota. rewrite Ec, andb_false_r. reflexivity. }
  assert (forall l, l <> [] -> norm_segs_of rel host abs l = fet_segs host (guard_segs host abs (rds_walk rel host abs [] (map fix_pct l)))) as Hne.
  { intros l Hl. rewrite norm_segs_of_steps. unfold walk0. destruct l; [congruence|reflexivity]. }
  destruct abs, host, out as [|[|c0 x0] [|[|c1 x1] r]] eqn:Eo; cbn [guard_segs fet_segs negb]; cbv iota in Hdot;
    try reflexivity;
    try (rewrite Hne by discriminate; cbn [map]; cbn [map] in Hm; rewrite ?Hm;
         change (fix_pct [46]) with [46];
         try (destruct Hdot as [Hdot|Hdot]; [rewrite Hdot|discriminate Hdot]);
         rewrite ?Hw; reflexivity).
Qed.

(* ------------------------------------------------------------------ D. the mask query *)
Lemma mask_bits (c0 c1 c2 c3 c4 c5 : bool) :
  let m := (if c0 then 1 else 0) + (if c1 then 2 else 0) + (if c2 then 4 else 0)
           + (if c3 then 8 else 0) + (if c4 then 16 else 0) + (if c5 then 32 else 0) in
  bit m M_SCHEME = c0 /\ bit m M_USER_INFO = c1 /\ bit m M_HOST = c2 /\ bit m M_PATH = c3
  /\ bit m M_QUERY = c4 /\ bit m M_FRAGMENT = c5
  /\ (m = 0 <-> c0 = false /\ c1 = false /\ c2 = false /\ c3 = false /\ c4 = false /\ c5 = false).
Proof.
  destruct c0, c1, c2, c3, c4, c5; vm_compute; intuition discriminate.
Qed.

Definition need_scheme (u : uri) : bool := match scheme u with Some t => contains_upper t | None => false end.
Definition need_host (u : uri) : bool :=
  match hostText u with Some t => contains_upper t || contains_ugly t | None => false end.
Definition need_path (u : uri) : bool :=
  existsb (fun s => seg_dot s || seg_dotdot s || contains_ugly s) (pathSegs u).

Lemma mask_required_bits u :
  let m := mask_required u in
  bit m M_SCHEME = need_scheme u /\ bit m M_USER_INFO = ugly (userInfo u) /\ bit m M_HOST = need_host u
  /\ bit m M_PATH = need_path u /\ bit m M_QUERY = ugly (query u) /\ bit m M_FRAGMENT = ugly (fragment u)
  /\ (m = 0 <-> need_scheme u = false /\ ugly (userInfo u) = false /\ need_host u = false
                /\ need_path u = false /\ ugly (query u) = false /\ ugly (fragment u) = false).
Proof.
  exact (mask_bits (need_scheme u) (ugly (userInfo u)) (need_host u) (need_path u) (ugly (query u)) (ugly (fragment u))).
Qed.

(* a component the query does not flag is a fixed point of its normalization *)
Lemma unflagged_fixed u : uri_wf u ->
  (need_scheme u = false -> omap lowercase (scheme u) = scheme u)
  /\ (ugly (userInfo u) = false -> omap fix_pct (userInfo u) = userInfo u)
  /\ (need_host u = false -> norm_host_text u = hostText u /\ omap lowercase (ipFuture u) = ipFuture u)
  /\ (need_path u = false -> norm_segs u = pathSegs u)
  /\ (ugly (query u) = false -> omap fix_pct (query u) = query u)
  /\ (ugly (fragment u) = false -> omap fix_pct (fragment u) = fragment u).
Proof.
  intros [Hwf [Hfc [Hle Hamb]]].
  unfold uri_pct_wf in Hwf. apply andb_prop in Hwf. destruct Hwf as [Hwf Hfr].
  apply andb_prop in Hwf. destruct Hwf as [Hwf Hqu]. apply andb_prop in Hwf. destruct Hwf as [Hwf Hps].
  apply andb_prop in Hwf. destruct Hwf as [Hui Hho].
  assert (forall o, opt_pct_wf o = true -> ugly o = false -> omap fix_pct o = o) as Ho.
  { intros [t|] H1 H2; [|reflexivity]. cbn [omap]. f_equal. apply contains_ugly_exact; assumption. }
  repeat match goal with |- _ /\ _ => split end; auto.
  - unfold need_scheme. destruct (scheme u) as [t|]; [|reflexivity]. intros H. cbn [omap]. f_equal.
    apply contains_upper_exact. exact H.
  - unfold need_host, norm_host_text, future_consistent, is_regname in *. intros H.
    destruct (ipFuture u) as [f|].
    + rewrite (Hfc f eq_refl) in *. apply orb_false_elim in H. destruct H as [H _].
      apply contains_upper_exact in H. cbn [omap]. rewrite H. auto.
    + split; [|reflexivity]. destruct (hostText u) as [t|]; [|reflexivity].
      destruct (ip4 u); [reflexivity|]. destruct (ip6 u); [reflexivity|].
      cbn in Hho. apply orb_false_elim in H. destruct H as [H1 H2].
      apply (contains_ugly_exact t Hho) in H2. rewrite H2, (lep_no_upper t H1). reflexivity.
  - unfold need_path, norm_segs. intros H. apply norm_segs_of_clean.
    + apply Forall_forall. intros s Hs.
      assert (seg_dot s || seg_dotdot s || contains_ugly s = false) as Hf.
      { destruct (seg_dot s || seg_dotdot s || contains_ugly s) eqn:E; [|reflexivity].
        rewrite <- H. symmetry. apply existsb_exists. exists s. auto. }
      apply orb_false_elim in Hf. destruct Hf as [Hf H3]. apply orb_false_elim in Hf. destruct Hf as [H1 H2].
      repeat split; try assumption. apply contains_ugly_exact; [|exact H3].
      rewrite forallb_forall in Hps. auto.
    + intros Hh E. unfold lone_empty_hostless in Hle. rewrite Hh, E in Hle. discriminate Hle.
    + unfold ambiguous_path in Hamb. unfold guard_segs.
      destruct (absolutePath u), (pathSegs u) as [|[|? ?] [|[|? ?] ?]]; try reflexivity; try discriminate Hamb.
      destruct (is_host_set u); [reflexivity|discriminate Hamb].
Qed.

Lemma components_fields mask u : mask <> 0 ->
  components (normalize mask u) =
  (if bit mask M_SCHEME then omap lowercase (scheme u) else scheme u,
   if bit mask M_USER_INFO then omap fix_pct (userInfo u) else userInfo u,
   if bit mask M_HOST then norm_host_text u else hostText u,
   ip4 u, ip6 u,
   if bit mask M_HOST then omap lowercase (ipFuture u) else ipFuture u,
   portText u,
   if bit mask M_PATH then norm_segs u else pathSegs u,
   absolutePath u,
   if bit mask M_QUERY then omap fix_pct (query u) else query u,
   if bit mask M_FRAGMENT then omap fix_pct (fragment u) else fragment u).
Proof. intros Hm. rewrite normalize_fields by exact Hm. reflexivity. Qed.

(* zero from the query: full normalization changes no component *)
Lemma mask_zero_normal u : uri_wf u -> mask_required u = 0 -> components (normalize 63 u) = components u.
Proof.
  intros Hwf Hz. destruct (mask_required_bits u) as [_ [_ [_ [_ [_ [_ Hm]]]]]].
  apply Hm in Hz. destruct Hz as [H0 [H1 [H2 [H3 [H4 H5]]]]].
  destruct (unflagged_fixed u Hwf) as [F0 [F1 [F2 [F3 [F4 F5]]]]].
  rewrite components_fields by discriminate.
  change (bit 63 M_SCHEME) with true. change (bit 63 M_USER_INFO) with true. change (bit 63 M_HOST) with true.
  change (bit 63 M_PATH) with true. change (bit 63 M_QUERY) with true. change (bit 63 M_FRAGMENT) with true.
  cbv iota. destruct (F2 H2) as [F2a F2b].
  rewrite (F0 H0), (F1 H1), F2a, F2b, (F3 H3), (F4 H4), (F5 H5). reflexivity.
Qed.

(* the reported mask is sufficient *)
Lemma mask_required_sufficient u : uri_wf u ->
  components (normalize (mask_required u) u) = components (normalize 63 u).
Proof.
  intros Hwf. destruct (N.eq_dec (mask_required u) 0) as [E|E].
  - rewrite E, normalize_zero. symmetry. apply mask_zero_normal; assumption.
  - destruct (mask_required_bits u) as [B0 [B1 [B2 [B3 [B4 [B5 _]]]]]].
    destruct (unflagged_fixed u Hwf) as [F0 [F1 [F2 [F3 [F4 F5]]]]].
    rewrite (components_fields _ u E), (components_fields 63 u ltac:(discriminate)).
    change (bit 63 M_SCHEME) with true. change (bit 63 M_USER_INFO) with true. change (bit 63 M_HOST) with true.
    change (bit 63 M_PATH) with true. change (bit 63 M_QUERY) with true. change (bit 63 M_FRAGMENT) with true.
    cbv iota. rewrite B0, B1, B2, B3, B4, B5.
    destruct (need_scheme u); [|rewrite (F0 eq_refl)];
    (destruct (ugly (userInfo u)); [|rewrite (F1 eq_refl)]);
    (destruct (need_host u); [|destruct (F2 eq_refl) as [F2a F2b]; rewrite F2a, F2b]);
    (destruct (need_path u); [|rewrite (F3 eq_refl)]);
    (destruct (ugly (query u)); [|rewrite (F4 eq_refl)]);
    (destruct (ugly (fragment u)); [|rewrite (F5 eq_refl)]); reflexivity.
Qed.

Lemma mask_required_sufficient_eq u : uri_wf u -> mask_required u <> 0 ->
  normalize (mask_required u) u = normalize 63 u.
Proof.
  intros Hwf E. pose proof (mask_required_sufficient u Hwf) as H.
  pose proof (normalize_owner _ u E) as O1. pose proof (normalize_owner 63 u ltac:(discriminate)) as O2.
  unfold components in H.
  destruct (normalize (mask_required u) u), (normalize 63 u). cbn in *. congruence.
Qed.

(* ------------------------------------------------------------------ E. idempotence *)
Lemma omap_idem (f : text -> text) (P : text -> bool) o :
  (forall t, P t = true -> f (f t) = f t) -> match o with Some t => P t | None => true end = true ->
  omap f (omap f o) = omap f o.
Proof. intros H Ho. destruct o as [t|]; [|reflexivity]. cbn [omap]. rewrite H by exact Ho. reflexivity. Qed.

Lemma norm_host_idem u v : uri_pct_wf u = true ->
  hostText v = norm_host_text u -> ip4 v = ip4 u -> ip6 v = ip6 u -> ipFuture v = omap lowercase (ipFuture u) ->
  norm_host_text v = hostText v /\ omap lowercase (ipFuture v) = ipFuture v.
Proof.
  intros Hwf Hh H4 H6 Hf. unfold norm_host_text in *. rewrite Hf, H4, H6, Hh.
  destruct (ipFuture u) as [f|] eqn:Ef; cbn [omap].
  - rewrite lowercase_idem. auto.
  - split; [|reflexivity]. destruct (hostText u) as [t|] eqn:Et; [|reflexivity].
    destruct (ip4 u) eqn:E4; [reflexivity|]. destruct (ip6 u) eqn:E6; [reflexivity|].
    assert (pct_wf t = true) as Ht.
    { unfold uri_pct_wf, is_regname in Hwf. rewrite Et, E4, E6, Ef in Hwf. cbn in Hwf.
      apply andb_prop in Hwf. destruct Hwf as [Hwf _]. apply andb_prop in Hwf. destruct Hwf as [Hwf _].
      apply andb_prop in Hwf. destruct Hwf as [Hwf _]. apply andb_prop in Hwf. destruct Hwf as [_ Hwf]. exact Hwf. }
    destruct (host_norm_fixed t Ht) as [_ [F1 F2]]. rewrite F1, F2. reflexivity.
Qed.

(* full normalization is idempotent whenever path normalization is *)
Lemma normalize_idem_core u : uri_pct_wf u = true ->
  norm_segs (normalize 63 u) = pathSegs (normalize 63 u) ->
  components (normalize 63 (normalize 63 u)) = components (normalize 63 u).
Proof.
  intros Hwf Hp.
  pose proof Hwf as Hwf'. unfold uri_pct_wf in Hwf'. apply andb_prop in Hwf'. destruct Hwf' as [Hwf' Hfr].
  apply andb_prop in Hwf'. destruct Hwf' as [Hwf' Hqu]. apply andb_prop in Hwf'. destruct Hwf' as [Hwf' Hps].
  apply andb_prop in Hwf'. destruct Hwf' as [Hui Hho].
  set (v := normalize 63 u) in *.
  assert (v = mkUri (omap lowercase (scheme u)) (omap fix_pct (userInfo u)) (norm_host_text u) (ip4 u) (ip6 u)
                    (omap lowercase (ipFuture u)) (portText u) (norm_segs u) (omap fix_pct (query u))
                    (omap fix_pct (fragment u)) (absolutePath u) true) as Hv.
  { unfold v. rewrite (normalize_fields 63 u ltac:(discriminate)). reflexivity. }
  rewrite (components_fields 63 v ltac:(discriminate)).
  change (bit 63 M_SCHEME) with true. change (bit 63 M_USER_INFO) with true. change (bit 63 M_HOST) with true.
  change (bit 63 M_PATH) with true. change (bit 63 M_QUERY) with true. change (bit 63 M_FRAGMENT) with true.
  cbv iota.
  destruct (norm_host_idem u v Hwf) as [Hh1 Hh2]; try (rewrite Hv; reflexivity).
  rewrite Hh1, Hh2.
  assert (omap lowercase (scheme v) = scheme v) as Hs.
  { rewrite Hv. cbn [scheme]. destruct (scheme u); [|reflexivity]. cbn [omap]. rewrite lowercase_idem. reflexivity. }
  assert (forall o, opt_pct_wf o = true -> omap fix_pct (omap fix_pct o) = omap fix_pct o) as Ho.
  { intros [t|] H; [|reflexivity]. cbn [omap]. rewrite fix_pct_idem by exact H. reflexivity. }
  assert (omap fix_pct (userInfo v) = userInfo v) as H1 by (rewrite Hv; cbn [userInfo]; apply Ho; exact Hui).
  assert (omap fix_pct (query v) = query v) as H2 by (rewrite Hv; cbn [query]; apply Ho; exact Hqu).
  assert (omap fix_pct (fragment v) = fragment v) as H3 by (rewrite Hv; cbn [fragment]; apply Ho; exact Hfr).
  rewrite Hs, H1, H2, H3, Hp. reflexivity.
Qed.

(* the three flags path normalization reads are the same after normalization *)
Lemma normalize_flags u :
  relative_ref (normalize 63 u) = relative_ref u /\ is_host_set (normalize 63 u) = is_host_set u
  /\ absolutePath (normalize 63 u) = absolutePath u /\ pathSegs (normalize 63 u) = norm_segs u.
Proof.
  rewrite (normalize_fields 63 u ltac:(discriminate)).
  change (bit 63 M_SCHEME) with true. change (bit 63 M_HOST) with true. change (bit 63 M_PATH) with true. cbv iota.
  assert (forall a b c d e f g h, is_host_set (mkUri a b (norm_host_text u) (ip4 u) (ip6 u) (omap lowercase (ipFuture u)) c d e f g h)
           = is_host_set u) as Hh.
  { intros. unfold is_host_set at 1. cbn [hostText ip4 ip6 ipFuture]. apply norm_host_is_some. }
  repeat split.
  - unfold relative_ref. rewrite Hh. cbn [scheme absolutePath]. destruct (scheme u); reflexivity.
  - apply Hh.
Qed.

(* ... in particular whenever the output of the dot-segment walk is stable under the walk *)
Lemma normalize_idem_walk u : uri_pct_wf u = true ->
  (let out := walk0 (relative_ref u) (is_host_set u) (absolutePath u) (map fix_pct (pathSegs u)) in
   rds_walk (relative_ref u) (is_host_set u) (absolutePath u) [] out = out) ->
  components (normalize 63 (normalize 63 u)) = components (normalize 63 u).
Proof.
  intros Hwf Hw. apply normalize_idem_core; [exact Hwf|].
  destruct (normalize_flags u) as (Hr & Hh & Ha & Hp).
  unfold norm_segs at 1. rewrite Hr, Hh, Ha, Hp. unfold norm_segs.
  apply norm_segs_of_idem; [|exact Hw].
  apply walk0_fixed.
  unfold uri_pct_wf in Hwf. apply andb_prop in Hwf. destruct Hwf as [Hwf _].
  apply andb_prop in Hwf. destruct Hwf as [Hwf _]. apply andb_prop in Hwf. destruct Hwf as [_ Hwf]. exact Hwf.
Qed.

(* a stable result path carries no guard segment: the output of the walk was stable *)
Lemma stable_result_walk rel host abs out :
  stable_path rel (fet_segs host (guard_segs host abs out)) = true -> rds_walk rel host abs [] out = out.
Proof.
  intros H.
  assert (forall r, stable_path rel (@cons text [46] ([] :: r)) = false) as Hg.
  { intros r. unfold stable_path. cbn [no_dots forallb drop_dotdots]. change (seg_dot [46]) with true.
    change (seg_dotdot [46]) with false. cbn [negb andb orb]. change (has_colon []) with false.
    cbn [andb orb]. rewrite andb_false_r. reflexivity. }
  destruct abs, host, out as [|[|c0 x0] [|[|c1 x1] r]]; cbn [guard_segs fet_segs negb] in H;
    try (rewrite Hg in H; discriminate H); try (apply rds_walk_stable; exact H);
    try reflexivity.
  all: cbn [rds_walk]; change (seg_dot []) with false; change (seg_dotdot []) with false; reflexivity.
Qed.

(* full normalization is idempotent whenever the path of its result is stable *)
Lemma normalize_idem_stable u : uri_pct_wf u = true ->
  stable_path (relative_ref u) (pathSegs (normalize 63 u)) = true ->
  components (normalize 63 (normalize 63 u)) = components (normalize 63 u).
Proof.
  intros Hwf Hnd. apply normalize_idem_walk; [exact Hwf|]. cbv zeta.
  destruct (normalize_flags u) as (_ & _ & _ & Hp). rewrite Hp in Hnd.
  unfold norm_segs in Hnd. rewrite norm_segs_of_steps in Hnd.
  exact (stable_result_walk _ _ _ _ Hnd).
Qed.

Lemma normalize_idem_when_no_dots u : uri_pct_wf u = true ->
  Forall (fun s => seg_dot s = false /\ seg_dotdot s = false) (pathSegs (normalize 63 u)) ->
  components (normalize 63 (normalize 63 u)) = components (normalize 63 u).
Proof.
  intros Hwf Hnd. apply normalize_idem_stable; [exact Hwf|].
  unfold stable_path. rewrite (Forall_no_dots _ Hnd). reflexivity.
Qed.

(* not a relative-path reference: dot removal is the absolute walk, which leaves no dot segment; the only
   one in the result is the guard *)
Lemma normalize_idem u : uri_pct_wf u = true -> relative_ref u = false ->
  components (normalize 63 (normalize 63 u)) = components (normalize 63 u).
Proof.
  intros Hwf Hrel. apply normalize_idem_walk; [exact Hwf|]. cbv zeta. rewrite Hrel.
  apply (rds_walk_no_dots false _ _ _ []).
  eapply Forall_impl; [|apply walk0_abs_clean].
  - intros s [H1 [H2 _]]. auto.
  - unfold uri_pct_wf in Hwf. apply andb_prop in Hwf. destruct Hwf as [Hwf _].
    apply andb_prop in Hwf. destruct Hwf as [Hwf _]. apply andb_prop in Hwf. destruct Hwf as [_ Hwf]. exact Hwf.
Qed.

(* ------------------------------------------------------------------ refutation witnesses *)
Lemma uri_wf_intro u : uri_pct_wf u = true -> ipFuture u = None -> lone_empty_hostless u = false ->
  ambiguous_path u = false -> uri_wf u.
Proof. intros H1 H2 H3 H4. split; [exact H1|]. split; [|split; [exact H3|exact H4]]. intros f Hf. rewrite H2 in Hf. discriminate Hf. Qed.

(* "./b:c/.." -> "./" -> "" : known finding D7a, a relative-path reference whose dot segments cancel *)
Definition wit_cancel : text := [46; 47; 98; 58; 99; 47; 46; 46].
Lemma idempotent_refuted :
  exists s u, parse s = POk u /\ uri_wf u
              /\ components (normalize 63 (normalize 63 u)) <> components (normalize 63 u).
Proof.
  exists wit_cancel. eexists. split; [vm_compute; reflexivity|]. split.
  - apply uri_wf_intro; reflexivity.
  - vm_compute. discriminate.
Qed.

(* "./b:c/../x" -> "./x" -> "x" : the '.' kept in front of "b:c" survives the removal of "b:c"
   (a relative-path reference; not of the shape D7a) *)
Definition wit_stale_dot : text := [46; 47; 98; 58; 99; 47; 46; 46; 47; 120].
Lemma idempotent_refuted_stale_dot :
  exists u, parse wit_stale_dot = POk u /\ uri_wf u
            /\ pathSegs (normalize 63 u) = [[46]; [120]]
            /\ pathSegs (normalize 63 (normalize 63 u)) = [[120]].
Proof.
  eexists. split; [vm_compute; reflexivity|]. split; [apply uri_wf_intro; reflexivity|].
  split; vm_compute; reflexivity.
Qed.

(* "./b:c/../../x" -> "x" : that '.' is consumed by the second ".." as if it were a name; RFC 3986 gives "../x" *)
Definition wit_dot_eaten : text := [46; 47; 98; 58; 99; 47; 46; 46; 47; 46; 46; 47; 120].
Lemma relative_dot_eaten :
  exists u, parse wit_dot_eaten = POk u /\ uri_wf u /\ pathSegs (normalize 63 u) = [[120]].
Proof.
  eexists. split; [vm_compute; reflexivity|]. split; [apply uri_wf_intro; reflexivity|]. vm_compute; reflexivity.
Qed.

(* each hypothesis of [uri_wf] is needed for "mask 0 means normal form" on arbitrary URI objects *)
Lemma mask_zero_lone_empty_refuted :
  exists u, uri_pct_wf u = true /\ future_consistent u /\ ambiguous_path u = false /\ mask_required u = 0
            /\ components (normalize 63 u) <> components u.
Proof.
  exists (set_pathSegs [[]] empty_uri). split; [reflexivity|]. split; [intros f Hf; discriminate Hf|].
  split; [reflexivity|]. split; [reflexivity|]. vm_compute. discriminate.
Qed.

(* host-less, absolutePath, path = ["", "a"]: would be written "//a"; normalization puts "." in front *)
Lemma mask_zero_ambiguous_refuted :
  exists u, uri_pct_wf u = true /\ future_consistent u /\ lone_empty_hostless u = false /\ mask_required u = 0
            /\ components (normalize 63 u) <> components u.
Proof.
  exists (set_absolutePath true (set_pathSegs [[]; [97]] empty_uri)). split; [reflexivity|].
  split; [intros f Hf; discriminate Hf|]. split; [reflexivity|]. split; [reflexivity|]. vm_compute. discriminate.
Qed.

Lemma mask_zero_malformed_pct_refuted :            (* query "%zz" *)
  exists u, future_consistent u /\ lone_empty_hostless u = false /\ ambiguous_path u = false /\ mask_required u = 0
            /\ components (normalize 63 u) <> components u.
Proof.
  exists (set_query (Some [37; 122; 122]) empty_uri). split; [intros f Hf; discriminate Hf|].
  split; [reflexivity|]. split; [reflexivity|]. split; [reflexivity|]. vm_compute. discriminate.
Qed.

Lemma mask_zero_future_inconsistent_refuted :      (* ipFuture "vA.B" with hostText NULL *)
  exists u, uri_pct_wf u = true /\ lone_empty_hostless u = false /\ ambiguous_path u = false /\ mask_required u = 0
            /\ components (normalize 63 u) <> components u.
Proof.
  exists (set_ipFuture (Some [118; 65; 46; 66]) empty_uri). split; [reflexivity|].
  split; [reflexivity|]. split; [reflexivity|]. split; [reflexivity|]. vm_compute. discriminate.
Qed.

(* the converse "normal form implies mask 0" does not hold (and the property does not ask for it):
   "//%2F" is its own normal form but the query reports HOST, the upper-case test also sees the
   hex digits of triplets; "../a" is in normal form but the query reports PATH *)
Lemma mask_query_not_exact :
  exists s u, parse s = POk u /\ uri_wf u /\ components (normalize 63 u) = components u /\ mask_required u = 4.
Proof.
  exists [47; 47; 37; 50; 70]. eexists. split; [vm_compute; reflexivity|].
  split; [apply uri_wf_intro; reflexivity|]. split; vm_compute; reflexivity.
Qed.

(* the hypotheses of the positive theorems hold for a parsed URI that exercises every component:
   "hTTp://u%41@H%2f:8/a/./%7e/../b?q%3d#f" *)
Definition wit_rich : text :=
  [104;84;84;112;58;47;47;117;37;52;49;64;72;37;50;102;58;56;47;97;47;46;47;37;55;101;47;46;46;47;98;63;113;37;51;100;35;102].
Lemma wit_rich_ok :
  exists u, parse wit_rich = POk u /\ uri_wf u /\ relative_ref u = false /\ mask_required u = 31
            /\ components (normalize 63 u)
                = (Some [104;116;116;112], Some [117;65], Some [104;37;50;70], None, None, None, Some [56],
                   [[97];[98]], false, Some [113;37;51;68], Some [102]).
Proof.
  eexists. split; [vm_compute; reflexivity|]. split; [apply uri_wf_intro; reflexivity|].
  split; [reflexivity|]. split; vm_compute; reflexivity.
Qed.
