(* Property C03 at the level of the parser model: the parser consumes its range from left to right,
   one character at a time, and what it has done after a prefix depends on that prefix only.  In the
   model the range [first, afterLast) IS the argument list, so "reads nothing outside the range" holds
   by construction; what can be stated and proved is how the outcome on a text relates to the state
   reached on its prefixes, that a syntax error raised inside a prefix is the outcome whatever
   follows, that the reported position lies inside the range, and that the NUL-terminated entry
   points see nothing behind the terminator.  Also: the memory tier (Model/ParseM.v) reports the same
   outcome as the data tier (Model/Parse.v) unless an allocation failed, and releasing the reset
   structure a failed parse leaves behind does nothing. *)
From Coq Require Import List NArith Bool Lia.
From UP Require Spec.Rfc3986.
From UP Require Import Base.Chars Base.Regex Base.Atoms Model.Uri Model.Ip4 Model.Parse Model.Mem Model.ParseM
  Proofs.ParseAccept.
Import ListNotations.
Local Open Scope N_scope.

(* ---------------------------------------------------------------- left-to-right *)
(* the state reached after consuming a text (control, data, position of the next character), or
   the position of the syntax error raised on the way *)
Fixpoint psteps (c : ctrl) (d : pdata) (i : nat) (s : text) : (ctrl * pdata * nat) + nat :=
  match s with
  | [] => inl (c, d, i)
  | ch :: t =>
    match ptrans c (atom_of ch) with
    | (acts, Go c') => psteps c' (exec_all ch d acts) (S i) t
    | (_, Stop off) => inr (i - off)%nat
    end
  end.

(* running over s1 ++ s2 is running over s1 and continuing over s2 from the state reached *)
Theorem prun_app s1 : forall c d i s2,
  prun c d i (s1 ++ s2) =
  match psteps c d i s1 with
  | inl (c', d', i') => prun c' d' i' s2
  | inr e => PSyntax e
  end.
Proof.
  induction s1 as [|ch s1 IH]; intros c d i s2; cbn [app psteps]; [reflexivity|].
  cbn [prun]. destruct (ptrans c (atom_of ch)) as [acts [c'|off]]; [apply IH|reflexivity].
Qed.

Corollary parse_app s1 s2 :
  parse (s1 ++ s2) =
  match psteps CStart pdata_init 0 s1 with
  | inl (c', d', i') => prun c' d' i' s2
  | inr e => PSyntax e
  end.
Proof. apply prun_app. Qed.

(* the position reached is the number of characters consumed; an error raised on the way lies
   strictly before the end of the text consumed *)
Lemma psteps_position s : forall c d i,
  match psteps c d i s with
  | inl (_, _, i') => i' = (i + length s)%nat
  | inr e => (e < i + length s)%nat
  end.
Proof.
  induction s as [|ch s IH]; intros c d i; cbn [psteps length]; [lia|].
  destruct (ptrans c (atom_of ch)) as [acts [c'|off]].
  - specialize (IH c' (exec_all ch d acts) (S i)). destruct (psteps c' (exec_all ch d acts) (S i) s) as [[[c2 d2] i2]|e]; lia.
  - lia.
Qed.

(* a syntax error raised while reading a prefix is the outcome, whatever follows the prefix *)
Theorem parse_prefix_error s1 e : psteps CStart pdata_init 0 s1 = inr e ->
  forall s2, parse (s1 ++ s2) = PSyntax e /\ (e < length s1)%nat.
Proof.
  intros H s2. rewrite parse_app, H. split; [reflexivity|].
  pose proof (psteps_position s1 CStart pdata_init 0) as P. rewrite H in P. exact P.
Qed.

(* two texts with a common prefix: the parser is in the same state after it *)
Theorem parse_common_prefix s1 s2 s2' :
  match psteps CStart pdata_init 0 s1 with
  | inl (c', d', i') => parse (s1 ++ s2) = prun c' d' i' s2 /\ parse (s1 ++ s2') = prun c' d' i' s2' /\ i' = length s1
  | inr e => parse (s1 ++ s2) = PSyntax e /\ parse (s1 ++ s2') = PSyntax e
  end.
Proof.
  rewrite (parse_app s1 s2), (parse_app s1 s2').
  pose proof (psteps_position s1 CStart pdata_init 0) as P.
  destruct (psteps CStart pdata_init 0 s1) as [[[c' d'] i']|e]; auto.
Qed.

(* the reported error position lies inside the range (afterLast included: "unexpected end") *)
Theorem parse_error_inside s e : parse s = PSyntax e -> (e <= length s)%nat.
Proof. intros H. exact (proj2 (parse_error_position s e H)). Qed.

(* the NUL-terminated entry points: nothing behind the terminator matters *)
Lemma until_nul_app s junk : ~ In 0 s -> until_nul (s ++ 0 :: junk) = s.
Proof.
  induction s as [|c s IH]; intros H; cbn [app until_nul]; [reflexivity|].
  destruct (c =? 0) eqn:E.
  - apply N.eqb_eq in E. subst c. exfalso. apply H. left. reflexivity.
  - rewrite IH; [reflexivity|]. intros Hi. apply H. right. exact Hi.
Qed.

Theorem parse_cstr_ignores_rest s junk junk' : ~ In 0 s ->
  parse_cstr (s ++ 0 :: junk) = parse s /\ parse_cstr (s ++ 0 :: junk) = parse_cstr (s ++ 0 :: junk').
Proof. intros H. unfold parse_cstr. rewrite !until_nul_app by exact H. split; reflexivity. Qed.

(* ---------------------------------------------------------------- the memory tier reports the same outcome *)
Lemma exec_m_data ch d b a s d' b' s' : exec_m ch d b a s = (Some (d', b'), s') -> d' = exec ch d a.
Proof.
  unfold exec_m. destruct a;
    repeat match goal with
           | |- context [alloc ?z ?n ?st] => destruct (alloc z n st) as [[?|] ?]
           | |- context [match ip4 ?x with _ => _ end] => destruct (ip4 x)
           | |- context [match pathSegs ?x with _ => _ end] => destruct (pathSegs x)
           | |- context [match pb_nodes ?x with _ => _ end] => destruct (pb_nodes x)
           end;
    intros E; inversion E; reflexivity.
Qed.

Lemma exec_all_m_data ch acts : forall d b s d' b' bh s',
  exec_all_m ch d b acts s = (Some (d', b'), bh, s') -> d' = exec_all ch d acts.
Proof.
  induction acts as [|a acts IH]; intros d b s d' b' bh s' E; cbn [exec_all_m] in E.
  - inversion E. reflexivity.
  - destruct (exec_m ch d b a s) as [[[d1 b1]|] s1] eqn:E1; [|discriminate E].
    apply exec_m_data in E1. subst d1. unfold exec_all. cbn [fold_left]. exact (IH _ _ _ _ _ _ _ E).
Qed.

Lemma prun_m_agrees t : forall c d b i s,
  match fst (prun_m c d b i t s) with
  | MOk m => exists u, prun c d i t = POk u
  | MSyntax e => prun c d i t = PSyntax e
  | MMalloc => True
  end.
Proof.
  induction t as [|ch t IH]; intros c d b i s; cbn [prun_m prun].
  - destruct (pfinish c) as [acts [|]]; [|reflexivity].
    destruct (exec_all_m 0 d b acts s) as [[[[d' b']|] bh] s'] eqn:E; cbn [fst]; [eauto|exact I].
  - destruct (ptrans c (atom_of ch)) as [acts nx].
    destruct (exec_all_m ch d b acts s) as [[[[d' b']|] bh] s'] eqn:E; [|exact I].
    apply exec_all_m_data in E. subst d'. destruct nx as [c'|off]; [apply IH|reflexivity].
Qed.

(* uriParseSingleUriExMm reports success exactly where the parser model does and the same error
   position, unless it reports out-of-memory *)
Theorem parse_m_agrees t s :
  match fst (parse_m t s) with
  | MOk m => exists u, parse t = POk u
  | MSyntax e => parse t = PSyntax e
  | MMalloc => True
  end.
Proof. apply prun_m_agrees. Qed.

(* the structure a failed parse leaves is the reset one (the model returns no object; the C code
   resets the caller's structure): releasing its members does nothing, any number of times *)
Lemma free_members_reset s : free_members muri_empty s = (muri_empty, s).
Proof. reflexivity. Qed.

Fixpoint free_times (n : nat) (m : muri) (s : mstate) : muri * mstate :=
  match n with O => (m, s) | S k => let (m', s') := free_members m s in free_times k m' s' end.

Theorem free_reset_repeatedly n s : free_times n muri_empty s = (muri_empty, s).
Proof. induction n as [|n IH]; [reflexivity|]. cbn [free_times]. rewrite free_members_reset. exact IH. Qed.
