(* C09 for parsed texts: the theorems of Proofs/CommuteProofs.v with the object-level well-formedness
   hypotheses discharged for parser output, and the conclusion also as an equation between the texts
   uriToString writes.  What stays are the booleans on the parsed reference that name the known findings
   (kf_cancels D7a, kf_dot_eaten D7e, kf_exposes_empty D7c, kf_exposes_colon D7b) and no_pct_dot. *)
From Coq Require Import List NArith Bool.
From UP Require Import Base.Chars Model.Uri Model.Common Model.Resolve Model.Normalize Model.Parse Model.Recompose
  Spec.NormalWf Proofs.DotSegments Proofs.ResolveProofs Proofs.NormalizeProofs Proofs.CommuteProofs Proofs.ResolveText.
From UP Require Spec.Resolve Spec.Normal Spec.Recompose Spec.Reread Spec.Unparse Proofs.ParseWf Proofs.NormalizeText
  Proofs.ParseAssemble Proofs.ParsedProduced Proofs.RereadResolve.
Import ListNotations.
Local Open Scope N_scope.

(* uriToString reads every field but [owner] *)
Lemma to_text_components a b : components a = components b -> to_text a = to_text b.
Proof.
  destruct a as [sc ui ht i4 i6 ifu po ps qu fr ab ow], b as [sc' ui' ht' i4' i6' ifu' po' ps' qu' fr' ab' ow'].
  unfold components.
  cbn [scheme userInfo hostText ip4 ip6 ipFuture portText pathSegs query fragment absolutePath].
  intros H. injection H as -> -> -> -> -> -> -> -> -> -> ->. reflexivity.
Qed.

Lemma parsed_pct_wf s u : parse s = POk u -> uri_pct_wf u = true.
Proof. intros H. exact (proj1 (ParseWf.parse_wf_normalization s u H)). Qed.

Lemma scheme_side c r R : parse r = POk R ->
  (c = false \/ Resolve.f_scheme (Resolve.five_of_text r) = None) -> (c = false \/ scheme R = None).
Proof. intros HR [H|H]; [left; exact H|right]. rewrite (parsed_scheme_text r R HR). exact H. Qed.

(* N (resolve (N R) B) = N (resolve R B) for the objects parsed from any two texts, outside the two shapes *)
Theorem commute_parsed c b r B R : parse b = POk B -> parse r = POk R ->
  (c = false \/ Resolve.f_scheme (Resolve.five_of_text r) = None) ->
  no_pct_dot R = true -> kf_cancels R = false -> kf_dot_eaten R = false ->
  components (normalize 63 (snd (add_base c (normalize 63 R) B)))
  = components (normalize 63 (snd (add_base c R B))).
Proof.
  intros HB HR Hc Hnpd Hkc Hke.
  apply commute; try assumption.
  - exact (scheme_side c r R HR Hc).
  - exact (parsed_pct_wf r R HR).
  - exact (parsed_one_kind r R HR).
  - exact (wf_host_abs B (parsed_wf b B HB)).
Qed.

(* ... as texts: what uriToString writes for the two results *)
Theorem commute_parsed_text c b r B R : parse b = POk B -> parse r = POk R ->
  (c = false \/ Resolve.f_scheme (Resolve.five_of_text r) = None) ->
  no_pct_dot R = true -> kf_cancels R = false -> kf_dot_eaten R = false ->
  to_text (normalize 63 (snd (add_base c (normalize 63 R) B)))
  = to_text (normalize 63 (snd (add_base c R B))).
Proof. intros HB HR Hc Hnpd Hkc Hke. apply to_text_components. exact (commute_parsed c b r B R HB HR Hc Hnpd Hkc Hke). Qed.

(* a reference with a scheme, an authority or an absolute path: no carve-out *)
Theorem commute_parsed_not_relative c b r B R : parse b = POk B -> parse r = POk R ->
  (c = false \/ Resolve.f_scheme (Resolve.five_of_text r) = None) ->
  no_pct_dot R = true -> relative_ref R = false ->
  components (normalize 63 (snd (add_base c (normalize 63 R) B)))
  = components (normalize 63 (snd (add_base c R B)))
  /\ to_text (normalize 63 (snd (add_base c (normalize 63 R) B)))
     = to_text (normalize 63 (snd (add_base c R B))).
Proof.
  intros HB HR Hc Hnpd Hrel.
  assert (components (normalize 63 (snd (add_base c (normalize 63 R) B)))
          = components (normalize 63 (snd (add_base c R B)))) as E.
  { apply commute_not_relative; try assumption.
    - exact (scheme_side c r R HR Hc).
    - exact (parsed_pct_wf r R HR).
    - exact (parsed_one_kind r R HR). }
  split; [exact E|exact (to_text_components _ _ E)].
Qed.

(* the kind of a parsed reference with neither scheme nor authority *)
Theorem kind_kept_parsed r R : parse r = POk R ->
  Resolve.f_scheme (Resolve.five_of_text r) = None -> Resolve.f_auth (Resolve.five_of_text r) = None ->
  kf_cancels R = false -> kf_exposes_empty R = false -> kf_exposes_colon R = false ->
  path_kind (normalize 63 R) = path_kind R
  /\ reads_scheme (normalize 63 R) = false /\ reads_authority (normalize 63 R) = false.
Proof.
  intros HR Hs Ha. apply kind_kept.
  - rewrite (parsed_scheme_text r R HR). exact Hs.
  - rewrite <- (NormalizeText.parsed_five_of_text r R HR) in Ha. cbn [five_of_uri Resolve.f_auth] in Ha.
    unfold auth_text in Ha. destruct (is_host_set R); [discriminate Ha|reflexivity].
  - exact (parsed_wf r R HR).
Qed.

(* [no_pct_dot] is not a fact about parser output: "/a/%2e%2e/../b" (C09_commute_pct_dot_refuted) *)
Lemma no_pct_dot_parsed_refuted :
  exists r R, parse r = POk R /\ no_pct_dot R = false /\ relative_ref R = false.
Proof.
  exists [47; 97; 47; 37; 50; 101; 37; 50; 101; 47; 46; 46; 47; 98]. eexists.
  split; [vm_compute; reflexivity|]. split; reflexivity.
Qed.

(* ================================================================ resolve, then normalize: the text *)
(* C06 followed by C08 on parsed texts: the object a resolution yields meets the hypotheses of the C08
   text theorem (Proofs/NormalizeText.v normalize_to_text_is_spec) again. *)
Module NT := NormalizeText.
Module PA := ParseAssemble.

(* ---- the result of a resolution is well formed for resolution, outside the corner ---- *)
Lemma wf_build sc au segs ab q f :
  wf (build sc au segs ab q f)
  = forallb noslash segs
    && (if is_host_set au then negb ab else if ab then no_dslash segs else first_nonempty segs)
    && match sc with Some s => nonul s | None => true end.
Proof. unfold wf. rewrite host_build. reflexivity. Qed.

Lemma noslash_rds h a s : forallb noslash s = true -> forallb noslash (rds_p h a s) = true.
Proof. intros H. unfold rds_p. destruct s as [|x r]; [reflexivity|]. apply walk_forallb; [reflexivity|reflexivity|exact H]. Qed.

Lemma noslash_fixamb h a s : forallb noslash s = true -> forallb noslash (fixamb_p h a s) = true.
Proof.
  intros H. destruct (fixamb_cases h a s) as [E|(E & _)]; rewrite E; [exact H|].
  cbn [forallb]. rewrite H. reflexivity.
Qed.

Lemma noslash_fixtrail h s : forallb noslash s = true -> forallb noslash (fixtrail_p h s) = true.
Proof. intros H. unfold fixtrail_p. destruct (negb h); [|exact H]. destruct s as [|[|c x] [|y r]]; first [exact H|reflexivity]. Qed.

Lemma first_nonempty_guarded X : leading_empty X = false ->
  first_nonempty (fixtrail_p false (fixamb_p false false X)) = true.
Proof. destruct X as [|[|c x] [|y r]]; try reflexivity; intros H; discriminate H. Qed.

Lemma no_dslash_guarded X : no_dslash (fixtrail_p false (fixamb_p false true X)) = true.
Proof. destruct X as [|[|c x] [|y r]]; reflexivity. Qed.

Lemma no_dslash_fixtrail s : no_dslash s = true -> no_dslash (fixtrail_p false s) = true.
Proof. destruct s as [|[|c x] [|y r]]; intros H; first [exact H|reflexivity]. Qed.

Lemma first_nonempty_fixtrail s : first_nonempty s = true -> first_nonempty (fixtrail_p false s) = true.
Proof. destruct s as [|[|c x] [|y r]]; intros H; first [exact H|reflexivity]. Qed.

Theorem resolve_wf c R B : wf R = true -> wf B = true -> scheme B <> None -> corner_obj c R B = false ->
  wf (snd (add_base c R B)) = true.
Proof.
  intros Wr Wb Hs Hc. destruct (scheme B) as [sb|] eqn:Esb; [|congruence]. clear Hs.
  rewrite (add_base_build c R B sb Esb). cbv zeta.
  pose proof (wf_noslash R Wr) as Nr. pose proof (wf_noslash B Wb) as Nb.
  pose proof (wf_scheme B sb Wb Esb) as Nsb.
  unfold corner_obj in Hc. rewrite Esb in Hc.
  destruct (keeps_scheme c (Some sb) R) eqn:Hk.
  { (* the reference keeps its scheme *)
    rewrite wf_build.
    rewrite (noslash_fixtrail _ _ (noslash_fixamb _ _ _ (noslash_rds _ _ _ Nr))). cbn [andb].
    assert (match scheme R with Some s => nonul s | None => true end = true) as ->
      by (destruct (scheme R) as [sr|] eqn:Esr; [exact (wf_scheme R sr Wr Esr)|reflexivity]).
    rewrite andb_true_r.
    destruct (is_host_set R) eqn:Hh; [rewrite (wf_host_abs R Wr Hh); reflexivity|].
    cbn [orb] in Hc. destruct (absolutePath R); [apply no_dslash_guarded|].
    apply first_nonempty_guarded. exact Hc. }
  destruct (is_host_set R) eqn:Hh.
  { rewrite wf_build, Hh, (wf_host_abs R Wr Hh), Nsb.
    rewrite (noslash_fixtrail _ _ (noslash_rds _ _ _ Nr)). reflexivity. }
  cbn [orb] in Hc.
  destruct (is_nil (pathSegs R) && negb (absolutePath R)) eqn:En.
  { rewrite wf_build, Nsb, (noslash_fixtrail _ _ Nb). cbn [andb]. rewrite andb_true_r.
    destruct (is_host_set B) eqn:Hb; [rewrite (wf_host_abs B Wb Hb); reflexivity|].
    destruct (absolutePath B) eqn:Ab.
    - apply no_dslash_fixtrail. exact (wf_abs_nodslash B Wb Hb Ab).
    - apply first_nonempty_fixtrail. exact (wf_rootless_first B Wb Hb Ab). }
  destruct (absolutePath R) eqn:Ar.
  { rewrite wf_build, Nsb. rewrite andb_true_r.
    assert (forallb noslash (under_host (is_host_set B) (pathSegs R)) = true) as Nu
      by (unfold under_host; destruct (is_host_set B); [destruct (pathSegs R); [reflexivity|exact Nr]|exact Nr]).
    rewrite (noslash_fixtrail _ _ (noslash_fixamb _ _ _ (noslash_rds _ _ _ Nu))). cbn [andb].
    destruct (is_host_set B); [reflexivity|]. cbn [negb]. apply no_dslash_guarded. }
  (* the merge *)
  rewrite andb_true_r in En. unfold is_nil in En.
  destruct (pathSegs R) as [|r1 rs] eqn:Ep; [discriminate En|]. rewrite <- Ep in *.
  assert (pathSegs R <> []) as Hne by (rewrite Ep; discriminate).
  rewrite Ep in Hc. rewrite <- Ep in Hc.
  rewrite wf_build, Nsb. rewrite andb_true_r.
  assert (forallb noslash (removelast (pathSegs B) ++ pathSegs R) = true) as Nm
    by (rewrite forallb_app, (forallb_removelast _ _ Nb), Nr; reflexivity).
  rewrite (noslash_fixtrail _ _ (noslash_fixamb _ _ _ (noslash_rds _ _ _ Nm))). cbn [andb].
  destruct (is_host_set B) eqn:Hb; [rewrite (wf_host_abs B Wb Hb); reflexivity|].
  destruct (absolutePath B) eqn:Ab; [apply no_dslash_guarded|].
  cbn [orb] in Hc. apply first_nonempty_guarded.
  assert (removelast (pathSegs B) ++ pathSegs R <> []) as Hm
    by (intros E; apply app_eq_nil in E; destruct E; congruence).
  unfold rds_p. destruct (removelast (pathSegs B) ++ pathSegs R); [congruence|exact Hc].
Qed.

(* it has a scheme *)
Lemma resolve_has_scheme c R B : scheme B <> None -> is_some (scheme (snd (add_base c R B))) = true.
Proof.
  intros Hs. destruct (scheme B) as [sb|] eqn:Esb; [|congruence].
  rewrite (add_base_build c R B sb Esb). cbv zeta.
  destruct (keeps_scheme c (Some sb) R) eqn:Hk.
  - cbn [build scheme]. pose proof (RereadResolve.keeps_scheme_some c (Some sb) R Hk) as H.
    destruct (scheme R); [reflexivity|congruence].
  - destruct (is_host_set R); [reflexivity|]. destruct (is_nil (pathSegs R) && negb (absolutePath R)); [reflexivity|].
    destruct (absolutePath R); reflexivity.
Qed.

(* ---- percent-encodings: an object that reads back as itself has them well formed ---- *)
Lemma produced_pct_wf u : Reread.produced_wf u -> uri_pct_wf u = true.
Proof.
  intros (_ & Hui & Hh & _ & Hps & Hqu & Hfr & _).
  unfold uri_pct_wf, is_regname. repeat (apply andb_true_intro; split).
  - destruct (userInfo u); [exact (proj2 Hui)|reflexivity].
  - unfold Reread.host_ok in Hh. destruct (hostText u) as [h|]; [|reflexivity]. cbn [is_some andb opt_pct_wf].
    destruct Hh as [_ Hh]. destruct (ip4 u), (ip6 u), (ipFuture u); try reflexivity. exact (proj2 Hh).
  - apply forallb_forall. intros t Ht. rewrite Forall_forall in Hps. exact (proj2 (Hps t Ht)).
  - destruct (query u); [exact (proj2 Hqu)|reflexivity].
  - destruct (fragment u); [exact (proj2 Hfr)|reflexivity].
Qed.

Lemma resolve_parsed_pct_wf c b r B R : parse b = POk B -> parse r = POk R -> scheme B <> None ->
  uri_pct_wf (snd (add_base c R B)) = true.
Proof.
  intros HB HR Hs. apply produced_pct_wf.
  apply (RereadResolve.add_base_produced_wf c R B).
  - exact (ParsedProduced.parsed_produced_wf r R HR).
  - exact (ParsedProduced.parsed_produced_wf b B HB).
  - destruct (scheme B) as [sb|] eqn:Esb; [|congruence].
    rewrite (surjective_pairing (add_base c R B)), (add_base_success c R B sb Esb). reflexivity.
Qed.

(* ---- the hypotheses of the C08 text theorem hold of the result ---- *)
Theorem resolve_parsed_text_hyps c b r B R : parse b = POk B -> parse r = POk R -> scheme B <> None ->
  Resolve.unspecified_corner (negb c) (Resolve.five_of_text b) (Resolve.five_of_text r) = false ->
  NT.text_hyps (snd (add_base c R B)) = true
  /\ NT.ip4_rendered (snd (add_base c R B)) = true
  /\ relative_ref (snd (add_base c R B)) = false
  /\ one_kind (snd (add_base c R B)) = true.
Proof.
  intros HB HR Hs Hc. rewrite (resolve_parsed_corner c b r B R HB HR Hs) in Hc.
  destruct (resolve_parsed_authority c b r B R HB HR Hs) as (_ & _ & K & Ha & H4 & _).
  split; [|split; [exact H4|split; [|exact K]]].
  - unfold NT.text_hyps. rewrite (resolve_parsed_pct_wf c b r B R HB HR Hs), Ha.
    rewrite (resolve_wf c R B (parsed_wf r R HR) (parsed_wf b B HB) Hs Hc). reflexivity.
  - unfold relative_ref. rewrite (resolve_has_scheme c R B Hs). reflexivity.
Qed.

(* ---- the text ---- *)
(* parse, parse, resolve, normalize, write: the recomposition of the normal form (Spec/Normal.v) of the
   RFC's target (Spec/Resolve.v) of the two texts; IPv6 literals in uriToString's form *)
Theorem resolve_normalize_parsed_text_rendered c b r B R : parse b = POk B -> parse r = POk R -> scheme B <> None ->
  Resolve.unspecified_corner (negb c) (Resolve.five_of_text b) (Resolve.five_of_text r) = false ->
  NT.ip6_rendered B = true -> NT.ip6_rendered R = true ->
  let t := Resolve.guard_slashes (Resolve.transform (negb c) (Resolve.five_of_text b) (Resolve.five_of_text r)) in
  to_text (normalize 63 (snd (add_base c R B))) = Resolve.recompose (Normal.guard_normal t (Normal.five_normal t)).
Proof.
  intros HB HR Hs Hc B6 R6. cbv zeta.
  destruct (resolve_parsed_text_hyps c b r B R HB HR Hs Hc) as (Hh & H4 & Hrel & _).
  destruct (resolve_parsed_five c b r B R HB HR Hs Hc) as [_ E]. rewrite <- E.
  apply NT.normalize_to_text_is_spec; try assumption.
  destruct (resolve_parsed_authority c b r B R HB HR Hs) as (_ & _ & _ & _ & _ & E6). rewrite E6.
  unfold auth_of. destruct (keeps_scheme c (scheme B) R || is_host_set R); assumption.
Qed.

Lemma to_text_normalize_canon_host u : one_kind u = true ->
  to_text (normalize 63 (PA.canon_host u)) = to_text (normalize 63 u).
Proof.
  intros K. unfold PA.canon_host. destruct (ip6 u) as [x|] eqn:E6; [|reflexivity].
  assert (ip6 u <> None) as N6 by (rewrite E6; discriminate).
  assert (ipFuture u = None) as Ef
    by (unfold one_kind in K; rewrite E6 in K; destruct (ip4 u), (ipFuture u); try discriminate K; reflexivity).
  rewrite (NT.normalize_set_hostText_ip6 _ u N6 Ef). apply NT.to_text_set_hostText_ip6.
  rewrite (proj1 (proj2 (normalize_untouched 63 u))). exact N6.
Qed.

(* every host kind: IPv6 literals of the texts through Spec.Recompose.canon_ip6 *)
Theorem resolve_normalize_parsed_text c b r B R : parse b = POk B -> parse r = POk R -> scheme B <> None ->
  Resolve.unspecified_corner (negb c) (Resolve.five_of_text b) (Resolve.five_of_text r) = false ->
  let t := Resolve.guard_slashes (Resolve.transform (negb c) (Resolve.five_of_text (Spec.Recompose.canon_ip6 b))
                                                    (Resolve.five_of_text (Spec.Recompose.canon_ip6 r))) in
  to_text (normalize 63 (snd (add_base c R B))) = Resolve.recompose (Normal.guard_normal t (Normal.five_normal t)).
Proof.
  intros HB HR Hs Hc. cbv zeta.
  destruct (resolve_parsed_text_hyps c b r B R HB HR Hs Hc) as (_ & _ & _ & K).
  rewrite <- (to_text_normalize_canon_host _ K).
  assert (PA.canon_host (snd (add_base c R B)) = snd (add_base c (PA.canon_host R) (PA.canon_host B))) as E
    by (rewrite (add_base_canon_host c R B (parsed_one_kind r R HR) (parsed_one_kind b B HB)); reflexivity).
  rewrite E.
  apply (resolve_normalize_parsed_text_rendered c _ _ _ _ (parse_canon b B HB) (parse_canon r R HR)).
  - rewrite ch_scheme. exact Hs.
  - rewrite (corner_canon_ip6 c b r B R HB HR Hs). exact Hc.
  - exact (canon_host_rendered b B HB).
  - exact (canon_host_rendered r R HR).
Qed.

(* and, outside the two shapes, the same text when the reference is normalized first *)
Theorem normalize_resolve_normalize_parsed_text c b r B R : parse b = POk B -> parse r = POk R -> scheme B <> None ->
  Resolve.unspecified_corner (negb c) (Resolve.five_of_text b) (Resolve.five_of_text r) = false ->
  (c = false \/ Resolve.f_scheme (Resolve.five_of_text r) = None) ->
  no_pct_dot R = true -> kf_cancels R = false -> kf_dot_eaten R = false ->
  let t := Resolve.guard_slashes (Resolve.transform (negb c) (Resolve.five_of_text (Spec.Recompose.canon_ip6 b))
                                                    (Resolve.five_of_text (Spec.Recompose.canon_ip6 r))) in
  to_text (normalize 63 (snd (add_base c (normalize 63 R) B)))
  = Resolve.recompose (Normal.guard_normal t (Normal.five_normal t)).
Proof.
  intros HB HR Hs Hc Hsc Hnpd Hkc Hke. cbv zeta.
  rewrite (commute_parsed_text c b r B R HB HR Hsc Hnpd Hkc Hke).
  exact (resolve_normalize_parsed_text c b r B R HB HR Hs Hc).
Qed.
