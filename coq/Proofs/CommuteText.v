(* C09 for parsed texts: the theorems of Proofs/CommuteProofs.v with the object-level well-formedness
   hypotheses discharged for parser output, and the conclusion also as an equation between the texts
   uriToString writes.  What stays are the booleans on the parsed reference that name the known findings
   (kf_cancels D7a, kf_dot_eaten D7e, kf_exposes_empty D7c, kf_exposes_colon D7b) and no_pct_dot. *)
From Coq Require Import List NArith Bool.
From UP Require Import Base.Chars Model.Uri Model.Common Model.Resolve Model.Normalize Model.Parse Model.Recompose
  Spec.NormalWf Proofs.ResolveProofs Proofs.NormalizeProofs Proofs.CommuteProofs Proofs.ResolveText.
From UP Require Spec.Resolve Proofs.ParseWf Proofs.NormalizeText.
Import ListNotations.
Local Open Scope N_scope.

(* uriToString reads every field but [owner] *)
Lemma to_text_components a b : components a = components b -> to_text a = to_text b.
Proof.
  destruct a as [sc ui ht i4 i6 ifu po ps qu fr ab ow], b as [sc' ui' ht' i4' i6' ifu' po' ps' qu' fr' ab' ow'].
  unfold components.
  cbn [scheme userInfo hostText ip4 ip6 ipFuture portText pathSegs query fragment absolutePath].
  intros H. injection H as -> -> -> -> -> -> -> -> -> -> ->. reflexivity.
Qed.

Lemma parsed_pct_wf s u : parse s = POk u -> uri_pct_wf u = true.
Proof. intros H. exact (proj1 (ParseWf.parse_wf_normalization s u H)). Qed.

Lemma scheme_side c r R : parse r = POk R ->
  (c = false \/ Resolve.f_scheme (Resolve.five_of_text r) = None) -> (c = false \/ scheme R = None).
Proof. intros HR [H|H]; [left; exact H|right]. rewrite (parsed_scheme_text r R HR). exact H. Qed.

(* N (resolve (N R) B) = N (resolve R B) for the objects parsed from any two texts, outside the two shapes *)
Theorem commute_parsed c b r B R : parse b = POk B -> parse r = POk R ->
  (c = false \/ Resolve.f_scheme (Resolve.five_of_text r) = None) ->
  no_pct_dot R = true -> kf_cancels R = false -> kf_dot_eaten R = false ->
  components (normalize 63 (snd (add_base c (normalize 63 R) B)))
  = components (normalize 63 (snd (add_base c R B))).
Proof.
  intros HB HR Hc Hnpd Hkc Hke.
  apply commute; try assumption.
  - exact (scheme_side c r R HR Hc).
  - exact (parsed_pct_wf r R HR).
  - exact (parsed_one_kind r R HR).
  - exact (wf_host_abs B (parsed_wf b B HB)).
Qed.

(* ... as texts: what uriToString writes for the two results *)
Theorem commute_parsed_text c b r B R : parse b = POk B -> parse r = POk R ->
  (c = false \/ Resolve.f_scheme (Resolve.five_of_text r) = None) ->
  no_pct_dot R = true -> kf_cancels R = false -> kf_dot_eaten R = false ->
  to_text (normalize 63 (snd (add_base c (normalize 63 R) B)))
  = to_text (normalize 63 (snd (add_base c R B))).
Proof. intros HB HR Hc Hnpd Hkc Hke. apply to_text_components. exact (commute_parsed c b r B R HB HR Hc Hnpd Hkc Hke). Qed.

(* a reference with a scheme, an authority or an absolute path: no carve-out *)
Theorem commute_parsed_not_relative c b r B R : parse b = POk B -> parse r = POk R ->
  (c = false \/ Resolve.f_scheme (Resolve.five_of_text r) = None) ->
  no_pct_dot R = true -> relative_ref R = false ->
  components (normalize 63 (snd (add_base c (normalize 63 R) B)))
  = components (normalize 63 (snd (add_base c R B)))
  /\ to_text (normalize 63 (snd (add_base c (normalize 63 R) B)))
     = to_text (normalize 63 (snd (add_base c R B))).
Proof.
  intros HB HR Hc Hnpd Hrel.
  assert (components (normalize 63 (snd (add_base c (normalize 63 R) B)))
          = components (normalize 63 (snd (add_base c R B)))) as E.
  { apply commute_not_relative; try assumption.
    - exact (scheme_side c r R HR Hc).
    - exact (parsed_pct_wf r R HR).
    - exact (parsed_one_kind r R HR). }
  split; [exact E|exact (to_text_components _ _ E)].
Qed.

(* the kind of a parsed reference with neither scheme nor authority *)
Theorem kind_kept_parsed r R : parse r = POk R ->
  Resolve.f_scheme (Resolve.five_of_text r) = None -> Resolve.f_auth (Resolve.five_of_text r) = None ->
  kf_cancels R = false -> kf_exposes_empty R = false -> kf_exposes_colon R = false ->
  path_kind (normalize 63 R) = path_kind R
  /\ reads_scheme (normalize 63 R) = false /\ reads_authority (normalize 63 R) = false.
Proof.
  intros HR Hs Ha. apply kind_kept.
  - rewrite (parsed_scheme_text r R HR). exact Hs.
  - rewrite <- (NormalizeText.parsed_five_of_text r R HR) in Ha. cbn [five_of_uri Resolve.f_auth] in Ha.
    unfold auth_text in Ha. destruct (is_host_set R); [discriminate Ha|reflexivity].
  - exact (parsed_wf r R HR).
Qed.

(* [no_pct_dot] is not a fact about parser output: "/a/%2e%2e/../b" (C09_commute_pct_dot_refuted) *)
Lemma no_pct_dot_parsed_refuted :
  exists r R, parse r = POk R /\ no_pct_dot R = false /\ relative_ref R = false.
Proof.
  exists [47; 97; 47; 37; 50; 101; 37; 50; 101; 47; 46; 46; 47; 98]. eexists.
  split; [vm_compute; reflexivity|]. split; reflexivity.
Qed.
