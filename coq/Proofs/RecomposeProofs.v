From Coq Require Import ZArith Lia List.
From UP Require Import Base.Chars Model.Uri Model.Recompose.
Import ListNotations.
Local Open Scope Z_scope.

Definition plen (ps : list text) : Z := fold_left (fun acc p => acc + Z.of_nat (length p)) ps 0.

Lemma fold_len_shift ps : forall a, fold_left (fun acc p => acc + Z.of_nat (length p)) ps a = a + plen ps.
Proof.
  unfold plen. induction ps as [|p r IH]; intros a; cbn [fold_left]; [lia|].
  rewrite IH. rewrite (IH (0 + _)). lia.
Qed.

Lemma plen_cons p r : plen (p :: r) = Z.of_nat (length p) + plen r.
Proof. unfold plen. cbn [fold_left]. rewrite fold_len_shift. unfold plen. lia. Qed.

Lemma plen_concat ps : plen ps = Z.of_nat (length (concat ps)).
Proof.
  induction ps as [|p r IH]; [reflexivity|].
  rewrite plen_cons, IH. cbn [concat]. rewrite app_length. lia.
Qed.

Lemma plen_nonneg ps : 0 <= plen ps.
Proof. rewrite plen_concat. lia. Qed.

Lemma chars_required_exact u : chars_required u = Z.of_nat (length (to_text u)).
Proof. unfold chars_required, to_text. rewrite fold_len_shift. rewrite plen_concat. lia. Qed.

(* all logged writes stay below the capacity *)
Definition log_within (cap : Z) (log : list (Z * Z)) : Prop :=
  Forall (fun w => 0 <= fst w /\ 0 <= snd w /\ fst w + snd w <= cap) log.

Lemma emit_spec ps : forall w maxc acc log,
  0 <= w -> w <= maxc -> log_within (maxc + 1) log ->
  (w + plen ps <= maxc ->
     exists log', emit ps w maxc acc log = TsOk (acc ++ concat ps) (w + plen ps + 1) log' /\ log_within (maxc + 1) log')
  /\ (maxc < w + plen ps ->
     exists log', emit ps w maxc acc log = TsTooLong true log' /\ log_within (maxc + 1) log').
Proof.
  induction ps as [|p r IH]; intros w maxc acc log Hw Hm Hl.
  - cbn [emit concat]. unfold plen; cbn [fold_left]. split; intros H.
    + eexists. split; [rewrite app_nil_r; f_equal; lia|]. constructor; [cbn; lia|exact Hl].
    + lia.
  - cbn [emit]. rewrite plen_cons. pose proof (plen_nonneg r) as Hr.
    destruct (w + Z.of_nat (length p) <=? maxc) eqn:E.
    + apply Z.leb_le in E.
      assert (log_within (maxc + 1) ((w, Z.of_nat (length p)) :: log)) as Hl' by (constructor; [cbn; lia|exact Hl]).
      destruct (IH (w + Z.of_nat (length p)) maxc (acc ++ p) _ ltac:(lia) E Hl') as [I1 I2].
      split; intros H.
      * destruct I1 as [log' [E1 E2]]; [lia|]. exists log'. split; [|exact E2].
        rewrite E1. cbn [concat]. rewrite app_assoc. f_equal. lia.
      * apply I2. lia.
    + apply Z.leb_gt in E. split; intros H; [lia|].
      eexists. split; [reflexivity|]. constructor; [cbn; lia|exact Hl].
Qed.

Lemma to_string_fits u cap : Z.of_nat (length (to_text u)) + 1 <= cap ->
  exists log, to_string u cap = TsOk (to_text u) (Z.of_nat (length (to_text u)) + 1) log /\ log_within cap log.
Proof.
  intros H. unfold to_string. destruct (cap <? 1) eqn:E; [apply Z.ltb_lt in E; lia|].
  assert (log_within (cap - 1 + 1) [(0, 1)]) as Hl by (constructor; [cbn; lia|constructor]).
  destruct (emit_spec (pieces u) 0 (cap - 1) [] _ ltac:(lia) ltac:(lia) Hl) as [I1 _].
  unfold to_text in *. rewrite <- plen_concat in *.
  destruct I1 as [log' [E1 E2]]; [lia|]. exists log'. cbn [app] in E1. rewrite E1.
  split; [f_equal; lia|]. replace cap with (cap - 1 + 1) by lia. exact E2.
Qed.

Lemma to_string_too_long u cap : cap < Z.of_nat (length (to_text u)) + 1 ->
  exists log, to_string u cap = TsTooLong (1 <=? cap) log /\ log_within cap log.
Proof.
  intros H. unfold to_string. destruct (cap <? 1) eqn:E.
  - apply Z.ltb_lt in E. exists []. split; [|constructor]. f_equal. symmetry. apply Z.leb_gt. lia.
  - apply Z.ltb_ge in E.
    assert (log_within (cap - 1 + 1) [(0, 1)]) as Hl by (constructor; [cbn; lia|constructor]).
    destruct (emit_spec (pieces u) 0 (cap - 1) [] _ ltac:(lia) ltac:(lia) Hl) as [_ I2].
    unfold to_text in *. rewrite <- plen_concat in *.
    destruct I2 as [log' [E1 E2]]; [lia|]. exists log'. rewrite E1.
    split; [f_equal; symmetry; apply Z.leb_le; lia|]. replace cap with (cap - 1 + 1) by lia. exact E2.
Qed.
