(* C10: reference creation (Model/Shorten.v, remove_base = uriRemoveBaseUriMm) against reference
   resolution (Model/Resolve.v, add_base = uriAddBaseUriExMm) -- proofs.

   Contents
     1. error codes, the schemes-differ clause                       (remove_base_rel_base ...)
     2. what is left out of the reference                            (rb_scheme_omitted ...)
     3. equals_authority as equality of fields                       (equals_authority_fields)
     4. the common-prefix walk and the dot-segment walk              (skip_common_split, walk_roundtrip)
     5. the round trip under walk_ok                                 (roundtrip_walk ...)
     6. the round trip in the cases without a walk                   (roundtrip_copy ...)
     7. witnesses against the unrestricted round trip                (roundtrip_refuted ...) *)
From Coq Require Import List NArith ZArith Bool Lia String.
From UP Require Import Base.Chars Model.Uri Model.Common Model.Compare Model.Resolve Model.Shorten
  Model.Recompose Spec.NormalWf Proofs.DotSegments Proofs.ResolveProofs Proofs.Findings10.
Import ListNotations.
Local Open Scope N_scope.

(* ---------------------------------------------------------------- 1. error codes, other scheme *)
Lemma remove_base_rel_base m src base : scheme base = None ->
  remove_base m src base = (URI_ERROR_REMOVEBASE_REL_BASE, empty_uri).
Proof. intros Hb. unfold remove_base, remove_base_impl. rewrite Hb. reflexivity. Qed.

Lemma remove_base_rel_source m src base : scheme base <> None -> scheme src = None ->
  remove_base m src base = (URI_ERROR_REMOVEBASE_REL_SOURCE, empty_uri).
Proof.
  intros Hb Hs. unfold remove_base, remove_base_impl. rewrite Hs.
  destruct (scheme base); [reflexivity|congruence].
Qed.

(* the body of uriRemoveBaseUriMm once both schemes are there *)
Definition rb_body (m : bool) (src base : uri) : uri :=
  let d := empty_uri in
  if negb (range_eqb (scheme src) (scheme base)) then
    copy_path (copy_authority (set_scheme (scheme src) d) src) src
  else if negb (equals_authority src base) then
    let d := if negb (is_host_set src) && is_host_set base then set_scheme (scheme src) d else d in
    copy_path (copy_authority d src) src
  else if m then
    fix_ambiguity (set_absolutePath true (copy_path d src))
  else
    let '(s, b) := skip_common (pathSegs src) (pathSegs base) in
    let ups := parents b in
    let naked := match ups with [] => true | _ => false end in
    set_pathSegs (ups ++ rest_segments naked s) d.

Lemma remove_base_nf m src base : scheme src <> None -> scheme base <> None ->
  remove_base m src base
  = (URI_SUCCESS, set_fragment (fragment src) (set_query (query src) (rb_body m src base))).
Proof.
  intros Hs Hb. unfold remove_base, remove_base_impl, rb_body.
  destruct (scheme base); [|congruence]. destruct (scheme src); [|congruence]. reflexivity.
Qed.

Lemma remove_base_success m src base : scheme src <> None -> scheme base <> None ->
  fst (remove_base m src base) = URI_SUCCESS.
Proof. intros Hs Hb. rewrite (remove_base_nf m src base Hs Hb). reflexivity. Qed.

(* query and fragment of the reference are always those of the source *)
Lemma rb_query_fragment m src base : scheme src <> None -> scheme base <> None ->
  query (snd (remove_base m src base)) = query src
  /\ fragment (snd (remove_base m src base)) = fragment src.
Proof. intros Hs Hb. rewrite (remove_base_nf m src base Hs Hb). split; reflexivity. Qed.

Lemma components_copy d src : one_kind src = true ->
  components (set_fragment (fragment src) (set_query (query src)
                (copy_path (copy_authority (set_scheme (scheme src) d) src) src)))
  = components src.
Proof.
  destruct src as [sc ui ht i4 i6 ifu po ps qu fr ab ow]. unfold one_kind, components. usimpl.
  destruct i4, i6, ifu; intros H; try discriminate H; reflexivity.
Qed.

(* without the one-kind hypothesis: the fields as uriCopyAuthority leaves them *)
Lemma components_copy_gen d src :
  components (set_fragment (fragment src) (set_query (query src)
                (copy_path (copy_authority (set_scheme (scheme src) d) src) src)))
  = components (copy_authority src src).
Proof. destruct src as [sc ui ht i4 i6 ifu po ps qu fr ab ow]. reflexivity. Qed.

(* schemes differ: the reference is the source unchanged *)
Lemma remove_base_other_scheme m src base : scheme src <> None -> scheme base <> None ->
  range_eqb (scheme src) (scheme base) = false ->
  fst (remove_base m src base) = URI_SUCCESS
  /\ components (snd (remove_base m src base)) = components (copy_authority src src)
  /\ (one_kind src = true -> components (snd (remove_base m src base)) = components src).
Proof.
  intros Hs Hb Hd. rewrite (remove_base_nf m src base Hs Hb). cbn [fst snd].
  unfold rb_body. rewrite Hd. cbn [negb].
  split; [reflexivity|]. split; [apply components_copy_gen|apply components_copy].
Qed.

(* ---------------------------------------------------------------- 2. what the reference omits *)
Lemma scheme_fixamb u : scheme (fix_ambiguity u) = scheme u.
Proof. rewrite fixamb_nf. reflexivity. Qed.
Lemma abs_fixamb u : absolutePath (fix_ambiguity u) = absolutePath u.
Proof. rewrite fixamb_nf. reflexivity. Qed.
Lemma query_fixamb u : query (fix_ambiguity u) = query u.
Proof. rewrite fixamb_nf. reflexivity. Qed.

(* same scheme: the scheme is left out, unless the source has no host and the base has one
   (a reference without scheme would then inherit the base's authority) *)
Lemma rb_scheme_omitted m src base : scheme src <> None -> scheme base <> None ->
  range_eqb (scheme src) (scheme base) = true ->
  is_host_set src = true \/ is_host_set base = false \/ equals_authority src base = true ->
  scheme (snd (remove_base m src base)) = None.
Proof.
  intros Hs Hb He Hr. rewrite (remove_base_nf m src base Hs Hb). cbn [snd]. usimpl.
  unfold rb_body. rewrite He. cbn [negb].
  destruct (equals_authority src base) eqn:Ea; cbn [negb].
  - destruct m.
    + rewrite scheme_fixamb. reflexivity.
    + destruct (skip_common (pathSegs src) (pathSegs base)) as [s b]. reflexivity.
  - destruct Hr as [Hr|[Hr|Hr]]; [rewrite Hr|rewrite Hr, andb_false_r|discriminate Hr]; reflexivity.
Qed.

(* ... and in that remaining case the reference is the source unchanged, scheme included *)
Lemma rb_scheme_kept m src base : scheme src <> None -> scheme base <> None ->
  range_eqb (scheme src) (scheme base) = true -> equals_authority src base = false ->
  is_host_set src = false -> is_host_set base = true ->
  components (snd (remove_base m src base)) = components src.
Proof.
  intros Hs Hb He Ea Hhs Hhb. rewrite (remove_base_nf m src base Hs Hb). cbn [snd].
  unfold rb_body. rewrite He, Ea, Hhs, Hhb. cbn [negb andb].
  apply components_copy.
  unfold is_host_set in Hhs. unfold one_kind.
  destruct (ip4 src), (ip6 src), (ipFuture src); try reflexivity;
    rewrite ?orb_true_r in Hhs; discriminate Hhs.
Qed.

(* a base with a host text and a host-less source never have equal authorities *)
Lemma equals_authority_hostless src base : is_host_set src = false -> hostText base <> None ->
  equals_authority src base = false.
Proof.
  intros Hh Hb. unfold is_host_set in Hh. unfold equals_authority.
  destruct (hostText src), (ip4 src), (ip6 src), (ipFuture src); try discriminate Hh.
  destruct (hostText base); [|congruence]. rewrite andb_false_r. reflexivity.
Qed.

(* same scheme, other authority: scheme apart, everything is copied from the source *)
Lemma rb_authority_kept m src base : scheme src <> None -> scheme base <> None ->
  range_eqb (scheme src) (scheme base) = true -> equals_authority src base = false ->
  let r := snd (remove_base m src base) in
  auth_fields r = auth_fields (copy_authority src src)
  /\ (one_kind src = true -> auth_fields r = auth_fields src)
  /\ pathSegs r = pathSegs src /\ absolutePath r = absolutePath src
  /\ query r = query src /\ fragment r = fragment src.
Proof.
  intros Hs Hb He Ea. rewrite (remove_base_nf m src base Hs Hb). cbn [snd].
  unfold rb_body. rewrite He, Ea. cbn [negb]. cbv zeta.
  destruct (negb (is_host_set src) && is_host_set base); repeat split;
    try (destruct src as [sc ui ht i4 i6 ifu po ps qu fr ab ow]; reflexivity);
    intros Hk; autorewrite with af_db; apply auth_fields_copy; exact Hk.
Qed.

(* same scheme, same authority (user info, host, port): no scheme and no authority at all *)
Lemma rb_authority_omitted m src base : scheme src <> None -> scheme base <> None ->
  range_eqb (scheme src) (scheme base) = true -> equals_authority src base = true ->
  let r := snd (remove_base m src base) in
  scheme r = None /\ auth_fields r = (None, None, None, None, None, None) /\ is_host_set r = false.
Proof.
  intros Hs Hb He Ea. rewrite (remove_base_nf m src base Hs Hb). cbn [snd].
  unfold rb_body. rewrite He, Ea. cbn [negb]. cbv zeta.
  destruct m.
  - rewrite fixamb_nf. repeat split.
  - destruct (skip_common (pathSegs src) (pathSegs base)) as [s b]. repeat split.
Qed.

(* domain-root mode: the source's path, made absolute (and guarded against a leading "//") *)
Lemma rb_domain_root src base : scheme src <> None -> scheme base <> None ->
  range_eqb (scheme src) (scheme base) = true -> equals_authority src base = true ->
  let r := snd (remove_base true src base) in
  absolutePath r = true /\ pathSegs r = fixamb_p false true (pathSegs src).
Proof.
  intros Hs Hb He Ea. rewrite (remove_base_nf true src base Hs Hb). cbn [snd].
  unfold rb_body. rewrite He, Ea. cbn [negb]. cbv zeta.
  rewrite fixamb_nf. split; reflexivity.
Qed.

(* the other mode: one ".." for every remaining base segment but the last, then the remaining source
   segments (with "." in front when the path would begin with an empty segment or one with ":") *)
Lemma rb_walk src base s b : scheme src <> None -> scheme base <> None ->
  range_eqb (scheme src) (scheme base) = true -> equals_authority src base = true ->
  skip_common (pathSegs src) (pathSegs base) = (s, b) ->
  snd (remove_base false src base)
  = set_fragment (fragment src) (set_query (query src)
      (set_pathSegs (parents b ++ rest_segments (match parents b with [] => true | _ => false end) s) empty_uri)).
Proof.
  intros Hs Hb He Ea Hk. rewrite (remove_base_nf false src base Hs Hb). cbn [snd].
  unfold rb_body. rewrite He, Ea, Hk. reflexivity.
Qed.

(* ---------------------------------------------------------------- 3. equals_authority on fields *)
Definition onul (o : option text) : bool := match o with Some t => nonul t | None => true end.

Lemma range_eqb_eq a b : onul a = true -> range_eqb a b = true -> a = b.
Proof.
  intros Hn H. destruct a as [x|], b as [y|]; try reflexivity; try discriminate H.
  cbn [onul] in Hn. rewrite (range_eqb_text x y Hn) in H. apply text_eqb_true in H. rewrite H. reflexivity.
Qed.

Lemma bytes_eqb_eq a : forall b, bytes_eqb a b = true -> a = b.
Proof.
  induction a as [|x a IH]; intros b H; destruct b as [|y b]; try discriminate H; [reflexivity|].
  cbn [bytes_eqb] in H. apply andb_true_iff in H. destruct H as [H1 H2]. apply N.eqb_eq in H1.
  rewrite H1, (IH b H2). reflexivity.
Qed.

Lemma bytes_eqb_refl a : bytes_eqb a a = true.
Proof. induction a as [|x a IH]; [reflexivity|]. cbn [bytes_eqb]. rewrite N.eqb_refl, IH. reflexivity. Qed.

(* the host compared in the kind of the first URI: IPv4 octets, else IPv6 bytes, else the IPvFuture
   text, else the host text *)
Definition host_same (a b : uri) : Prop :=
  match ip4 a with
  | Some x => ip4 b = Some x
  | None =>
    match ip6 a with
    | Some x => ip6 b = Some x
    | None =>
      match ipFuture a with
      | Some f => ipFuture b = Some f
      | None => hostText a = hostText b
      end
    end
  end.

Definition auth_nonul (a : uri) : bool :=
  onul (userInfo a) && onul (portText a) && onul (hostText a) && onul (ipFuture a).

Lemma equals_authority_fields a b : auth_nonul a = true ->
  (equals_authority a b = true <-> userInfo a = userInfo b /\ portText a = portText b /\ host_same a b).
Proof.
  unfold auth_nonul. intros Hn.
  apply andb_true_iff in Hn. destruct Hn as [Hn Hf]. apply andb_true_iff in Hn. destruct Hn as [Hn Hh].
  apply andb_true_iff in Hn. destruct Hn as [Hu Hp].
  unfold equals_authority, host_same. split.
  - intros H. apply andb_true_iff in H. destruct H as [H H3]. apply andb_true_iff in H. destruct H as [H1 H2].
    split; [exact (range_eqb_eq _ _ Hu H1)|]. split; [exact (range_eqb_eq _ _ Hp H2)|].
    destruct (ip4 a) as [x|].
    { destruct (ip4 b) as [y|]; [|discriminate H3]. rewrite (bytes_eqb_eq x y H3). reflexivity. }
    destruct (ip6 a) as [x|].
    { destruct (ip6 b) as [y|]; [|discriminate H3]. rewrite (bytes_eqb_eq x y H3). reflexivity. }
    destruct (ipFuture a) as [f|] eqn:Ef.
    { apply andb_true_iff in H3. destruct H3 as [_ H3]. symmetry. exact (range_eqb_eq _ _ Hf H3). }
    exact (range_eqb_eq _ _ Hh H3).
  - intros [H1 [H2 H3]]. rewrite <- H1, <- H2, !range_eqb_refl. cbn [andb].
    destruct (ip4 a) as [x|]; [rewrite H3; apply bytes_eqb_refl|].
    destruct (ip6 a) as [x|]; [rewrite H3; apply bytes_eqb_refl|].
    destruct (ipFuture a) as [f|]; [rewrite H3; cbn [is_some andb]; apply range_eqb_refl|].
    rewrite <- H3. apply range_eqb_refl.
Qed.

(* ---------------------------------------------------------------- 4. the two walks *)
Definition seg_req (x y : text) : Prop := range_eqb (Some x) (Some y) = true.

Lemma skip_common_split : forall s b s' b', skip_common s b = (s', b') ->
  exists c cb, s = c ++ s' /\ b = cb ++ b' /\ Forall2 seg_req c cb.
Proof.
  induction s as [|x s IH]; intros b s' b' H.
  - cbn [skip_common] in H. injection H as H1 H2. subst. exists [], []. repeat split. constructor.
  - destruct b as [|y b].
    + cbn [skip_common] in H. injection H as H1 H2. subst. exists [], []. repeat split. constructor.
    + cbn [skip_common] in H.
      destruct (range_eqb (Some x) (Some y)) eqn:E; cbn [andb] in H.
      * match type of H with (if ?c then _ else _) = _ => destruct c end.
        -- destruct (IH b s' b' H) as (c & cb & E1 & E2 & E3).
           exists (x :: c), (y :: cb). rewrite E1, E2. repeat split. constructor; assumption.
        -- injection H as H1 H2. subst. exists [], []. repeat split. constructor.
      * injection H as H1 H2. subst. exists [], []. repeat split. constructor.
Qed.

Lemma seg_req_eq c : forall cb, forallb nonul c = true -> Forall2 seg_req c cb -> c = cb.
Proof.
  induction c as [|x c IH]; intros cb Hn H; inversion H as [|x' y l l' Hxy Hl]; subst; [reflexivity|].
  cbn [forallb] in Hn. apply andb_true_iff in Hn. destruct Hn as [Hx Hc].
  unfold seg_req in Hxy. rewrite (range_eqb_text x y Hx) in Hxy. apply text_eqb_true in Hxy.
  rewrite Hxy, (IH l' Hc Hl). reflexivity.
Qed.

Definition dd : text := [46; 46].

Lemma removelast_length {A} (l : list A) : l <> [] -> S (length (removelast l)) = length l.
Proof.
  intros Hne. destruct (exists_last Hne) as [l0 [x E]]. subst l.
  rewrite removelast_last, app_length. cbn [length]. lia.
Qed.

Lemma parents_cons : forall l x, parents (x :: l) = repeat dd (length l).
Proof.
  induction l as [|y l IH]; intros x; [reflexivity|].
  change (parents (x :: y :: l)) with (dd :: parents (y :: l)). rewrite (IH y). reflexivity.
Qed.

Lemma parents_repeat b : parents b = repeat dd (length (removelast b)).
Proof.
  destruct b as [|x l]; [reflexivity|]. rewrite parents_cons.
  assert (x :: l <> []) as Hne by discriminate.
  pose proof (removelast_length (x :: l) Hne) as E. change (length (x :: l)) with (S (length l)) in E.
  apply eq_add_S in E. rewrite E. reflexivity.
Qed.

Lemma walk_push h a : forall p kept rest, forallb nodot p = true ->
  rds_walk false h a kept (p ++ rest) = rds_walk false h a (rev p ++ kept) rest.
Proof.
  induction p as [|w p IH]; intros kept rest H; [reflexivity|].
  cbn [forallb] in H. apply andb_true_iff in H. destruct H as [Hw Hp].
  unfold nodot in Hw. apply andb_true_iff in Hw. destruct Hw as [H1 H2].
  apply negb_true_iff in H1. apply negb_true_iff in H2.
  cbn [app]. rewrite walk_false_cons, H1, H2. rewrite (IH (w :: kept) rest Hp).
  cbn [rev]. rewrite <- app_assoc. reflexivity.
Qed.

Lemma skipn_S_tl {A} k (l : list A) : skipn (S k) l = skipn k (tl l).
Proof. destruct l; [destruct k; reflexivity|reflexivity]. Qed.

Lemma walk_pops h a : forall k kept nxt, nxt <> [] ->
  rds_walk false h a kept (repeat dd k ++ nxt) = rds_walk false h a (skipn k kept) nxt.
Proof.
  induction k as [|k IH]; intros kept nxt Hne; [reflexivity|].
  cbn [repeat app]. rewrite walk_false_cons.
  change (seg_dot dd) with false. change (seg_dotdot dd) with true. cbv iota.
  destruct (repeat dd k ++ nxt) as [|t l] eqn:E.
  { apply app_eq_nil in E. destruct E as [_ E]. congruence. }
  rewrite <- E. rewrite (IH (tl kept) nxt Hne). rewrite skipn_S_tl. reflexivity.
Qed.

(* removelast (c ++ b') ++ ".." x (|b'| - 1) ++ [guard] ++ s'  walks to  c ++ s' *)
Lemma walk_roundtrip h a c b' s' : b' <> [] -> s' <> [] ->
  forallb nodot c = true -> forallb nodot b' = true -> forallb nodot s' = true ->
  rds_walk false h a []
    (removelast (c ++ b') ++ parents b' ++ rest_segments (match parents b' with [] => true | _ => false end) s')
  = c ++ s'.
Proof.
  intros Hb Hs Hc Hnb Hns.
  rewrite (removelast_app c Hb). rewrite <- app_assoc.
  rewrite (walk_push h a c [] _ Hc). rewrite app_nil_r.
  rewrite (walk_push h a (removelast b') (rev c) _ (forallb_removelast _ _ Hnb)).
  set (g := match parents b' with [] => true | _ => false end).
  assert (rest_segments g s' <> []) as Hr.
  { destruct s' as [|x s0]; [congruence|]. unfold rest_segments.
    intros E. apply app_eq_nil in E. destruct E as [_ E]. discriminate E. }
  rewrite parents_repeat.
  rewrite (walk_pops h a _ _ _ Hr).
  rewrite skipn_app. rewrite rev_length. rewrite Nat.sub_diag. cbn [skipn].
  rewrite <- (rev_length (removelast b')) at 1. rewrite skipn_all. cbn [app].
  destruct s' as [|x s0]; [congruence|]. unfold rest_segments.
  destruct (g && (has_colon x || match x with [] => true | _ => false end)).
  - cbn [app]. rewrite walk_false_cons. change (seg_dot [46]) with true. cbv iota.
    rewrite (walk_fixed h a (x :: s0) (rev c) Hns). rewrite rev_involutive. reflexivity.
  - cbn [app]. rewrite (walk_fixed h a (x :: s0) (rev c) Hns). rewrite rev_involutive. reflexivity.
Qed.

(* ---------------------------------------------------------------- 5. the round trip under walk_ok *)
(* resolving a reference that is only a rootless path (plus query and fragment): the merge branch *)
Lemma add_base_path_ref rel base : scheme base <> None -> scheme rel = None ->
  is_host_set rel = false -> absolutePath rel = false -> pathSegs rel <> [] ->
  add_base false rel base
  = (URI_SUCCESS,
     set_fragment (fragment rel) (fix_empty_trail_segment (set_scheme (scheme base) (set_query (query rel)
       (fix_ambiguity (remove_dot_segments_absolute
          (merge_path (copy_path (copy_authority empty_uri base) base) rel))))))).
Proof.
  intros Hb Hs Hh Ha Hp. unfold add_base, add_base_impl.
  destruct (scheme base) as [sb|]; [|congruence]. cbv zeta.
  rewrite Hs. cbn [is_some andb]. rewrite Hh, Ha.
  destruct (pathSegs rel) as [|r1 rs]; [congruence|]. reflexivity.
Qed.

Lemma back_fields rel base : scheme base <> None -> scheme rel = None ->
  is_host_set rel = false -> absolutePath rel = false -> pathSegs rel <> [] ->
  let back := snd (add_base false rel base) in
  let hb := is_host_set base in
  let ab := absolutePath base in
  scheme back = scheme base
  /\ auth_fields back = auth_fields (copy_authority empty_uri base)
  /\ pathSegs back = fixtrail_p hb (fixamb_p hb ab (rds_p hb ab (removelast (pathSegs base) ++ pathSegs rel)))
  /\ absolutePath back = ab /\ query back = query rel /\ fragment back = fragment rel.
Proof.
  intros Hb Hs Hh Ha Hp. rewrite (add_base_path_ref rel base Hb Hs Hh Ha Hp). cbn [snd]. cbv zeta.
  rewrite merge_nf. usimpl.
  destruct (pathSegs rel) as [|r1 rs] eqn:Er; [congruence|].
  rewrite rds_nf, fixamb_nf, fixtrail_nf. autorewrite with uri_db. usimpl.
  repeat split.
Qed.

Lemma rds_p_nonempty h a s : s <> [] -> rds_p h a s = rds_walk false h a [] s.
Proof. destruct s; [congruence|reflexivity]. Qed.

Lemma fixamb_wf u : wf u = true -> fixamb_p (is_host_set u) (absolutePath u) (pathSegs u) = pathSegs u.
Proof.
  intros Hw. destruct (is_host_set u) eqn:Hh.
  - rewrite (wf_host_abs u Hw Hh). apply fixamb_host.
  - destruct (absolutePath u) eqn:Ha.
    + pose proof (wf_abs_nodslash u Hw Hh Ha) as Hd.
      destruct (pathSegs u) as [|[|c s] [|x r]]; try reflexivity. discriminate Hd.
    + pose proof (wf_rootless_first u Hw Hh Ha) as Hf.
      destruct (pathSegs u) as [|[|c s] [|x r]]; try reflexivity; discriminate Hf.
Qed.

Lemma fixtrail_not_lone u : lone_empty_hostless u = false ->
  fixtrail_p (is_host_set u) (pathSegs u) = pathSegs u.
Proof.
  unfold lone_empty_hostless, fixtrail_p. destruct (is_host_set u); cbn [negb andb]; [reflexivity|].
  destruct (pathSegs u) as [|[|c s] [|x r]]; try reflexivity. intros H. discriminate H.
Qed.

Definition nonnil {A} (l : list A) : bool := match l with [] => false | _ => true end.

(* the sufficient condition: both absolute; same scheme; same authority (user info, host, port);
   same root (both with a host, or both host-less and both rooted / both rootless); the common-prefix
   walk of uriRemoveBaseUriMm stops with segments left on both sides (neither path is a prefix of the
   other); no "." / ".." segment in the source path and in what is left of the base path; no NUL in
   the source's segments (uriCompareRange stops at a NUL, like strncmp); both objects as the parser
   makes them (wf), and the source not the object "host-less, path = one empty segment" (which the
   parser never makes: uriFixEmptyTrailSegment) *)
Definition walk_ok (src base : uri) : bool :=
  is_some (scheme src) && is_some (scheme base)
  && range_eqb (scheme src) (scheme base)
  && equals_authority src base
  && Bool.eqb (is_host_set src) (is_host_set base)
  && (is_host_set src || Bool.eqb (absolutePath src) (absolutePath base))
  && nonnil (fst (skip_common (pathSegs src) (pathSegs base)))
  && nonnil (snd (skip_common (pathSegs src) (pathSegs base)))
  && forallb nodot (pathSegs src)
  && forallb nodot (snd (skip_common (pathSegs src) (pathSegs base)))
  && forallb nonul (pathSegs src)
  && wf src && wf base && negb (lone_empty_hostless src).

Theorem roundtrip_walk src base : walk_ok src base = true ->
  let r := snd (remove_base false src base) in
  let back := snd (add_base false r base) in
  fst (remove_base false src base) = URI_SUCCESS
  /\ fst (add_base false r base) = URI_SUCCESS
  /\ scheme back = scheme src
  /\ auth_fields back = auth_fields (copy_authority empty_uri base)
  /\ pathSegs back = pathSegs src /\ absolutePath back = absolutePath src
  /\ query back = query src /\ fragment back = fragment src.
Proof.
  unfold walk_ok. intros H.
  repeat (apply andb_true_iff in H; let H' := fresh "K" in destruct H as [H H']).
  rename K into Hlone, K0 into Hwb, K1 into Hws, K2 into Hnul, K3 into Hdb, K4 into Hds,
         K5 into Hbne, K6 into Hsne, K7 into Habs, K8 into Hhost, K9 into Hau, K10 into Hsch, K11 into Hbsome.
  assert (scheme src <> None) as Hs by (destruct (scheme src); [discriminate|discriminate H]).
  assert (scheme base <> None) as Hb by (destruct (scheme base); [discriminate|discriminate Hbsome]).
  apply negb_true_iff in Hlone. apply eqb_prop in Hhost.
  destruct (skip_common (pathSegs src) (pathSegs base)) as [s' b'] eqn:Hk. cbn [fst snd] in *.
  assert (s' <> []) as Hs' by (destruct s'; [discriminate Hsne|discriminate]).
  assert (b' <> []) as Hb' by (destruct b'; [discriminate Hbne|discriminate]).
  destruct (skip_common_split _ _ _ _ Hk) as (c & cb & Eps & Epb & Ecc).
  assert (forallb nonul c = true) as Hcn.
  { rewrite Eps, forallb_app in Hnul. apply andb_true_iff in Hnul. apply Hnul. }
  pose proof (seg_req_eq c cb Hcn Ecc) as Ec. subst cb.
  assert (forallb nodot c = true /\ forallb nodot s' = true) as [Hdc Hds'].
  { rewrite Eps, forallb_app in Hds. apply andb_true_iff in Hds. exact Hds. }
  cbv zeta. rewrite (rb_walk src base s' b' Hs Hb Hsch Hau Hk).
  set (P := parents b' ++ rest_segments (match parents b' with [] => true | _ => false end) s').
  assert (P <> []) as HP.
  { subst P. destruct s' as [|x s0]; [congruence|]. unfold rest_segments.
    intros E. apply app_eq_nil in E. destruct E as [_ E]. apply app_eq_nil in E. destruct E as [_ E]. discriminate E. }
  set (r := set_fragment (fragment src) (set_query (query src) (set_pathSegs P empty_uri))).
  assert (pathSegs r = P) as EP by reflexivity.
  assert (pathSegs r <> []) as HP' by (rewrite EP; exact HP).
  split; [exact (remove_base_success false src base Hs Hb)|].
  split; [rewrite (add_base_path_ref r base Hb eq_refl eq_refl eq_refl HP'); reflexivity|].
  destruct (back_fields r base Hb eq_refl eq_refl eq_refl HP') as (B1 & B2 & B3 & B4 & B5 & B6).
  (* the absolute-path flags agree *)
  assert (absolutePath base = absolutePath src) as Eab.
  { destruct (is_host_set src) eqn:Hhs.
    - rewrite (wf_host_abs src Hws Hhs). symmetry in Hhost. rewrite (wf_host_abs base Hwb Hhost). reflexivity.
    - cbn [orb] in Habs. apply eqb_prop in Habs. symmetry. exact Habs. }
  split.
  { rewrite B1. symmetry. apply range_eqb_eq; [|exact Hsch].
    destruct (scheme src) as [ss|] eqn:Ess; [|reflexivity]. exact (wf_scheme src ss Hws Ess). }
  split; [exact B2|].
  split.
  { rewrite B3, EP, Epb, <- Hhost, Eab. subst P.
    rewrite rds_p_nonempty by (intros E; apply app_eq_nil in E; destruct E as [_ E]; exact (HP E)).
    rewrite (walk_roundtrip _ _ c b' s' Hb' Hs' Hdc Hdb Hds'). rewrite <- Eps.
    rewrite (fixamb_wf src Hws). apply fixtrail_not_lone. exact Hlone. }
  split; [rewrite B4; exact Eab|].
  split; [rewrite B5; reflexivity|rewrite B6; reflexivity].
Qed.
