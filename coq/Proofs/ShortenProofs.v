(* C10: reference creation against resolution -- proofs. *)
From UP Require Import Base.Chars Model.Uri.
